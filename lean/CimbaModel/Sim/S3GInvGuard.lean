/-
  S3 — `GInv`, part 2: the waiting-list primitives (shrinking a list, grants, signals, condition signals).
-/
import CimbaModel.Sim.S3GInv
import CimbaModel.Sim.S3Cond

namespace CimbaModel.Sim.S3
open CimbaModel CimbaModel.Sim CimbaModel.Event CimbaModel.Generated CimbaModel.KPQ
open CimbaModel.HashHeap (HTag Item Order HH WF abs liveTags)

variable {ex : Pid → Prop} {fr : Pid → Option Frame}

theorem queued_setGuardQ {w : World} {g : Nat} {gd : Guard} (hg : w.guards[g]? = some gd) (q' : HH) (g' k : Nat) :
    queued (setGuardQ w g q') g' k ↔ if g' = g then k ∈ keys (abs q') else queued w g' k := by
  unfold queued
  rw [setGuardQ_guards_get]
  by_cases h : g' = g
  · subst h
    simp only [if_true, hg, Option.map_some]
    constructor
    · rintro ⟨gd', h1, h2⟩; cases h1; exact h2
    · intro h2; exact ⟨_, rfl, h2⟩
  · simp only [h, if_false]

/-- replacing a waiting list by a well-formed one with no new key never hurts -/
theorem GInv.shrinkQueue {w : World} (hp : GInv ex fr w) {g : Nat} {gd : Guard} (hg : w.guards[g]? = some gd) {q' : HH}
    (hwf : GWF q') (hsub : ∀ k ∈ keys (abs q'), k ∈ keys (abs gd.q)) : GInv ex fr (setGuardQ w g q') := by
  have hq : ∀ g' k, queued (setGuardQ w g q') g' k → queued w g' k := by
    intro g' k h
    rw [queued_setGuardQ hg] at h
    split at h
    · rename_i hgg; subst hgg; exact ⟨gd, hg, hsub k h⟩
    · exact h
  refine { hp with gw := ?_, gk := ?_, gr := ?_, gkc := ?_ }
  · intro g' gd' h'
    rw [setGuardQ_guards_get] at h'
    split at h'
    · rename_i hgg; subst hgg
      rw [hg] at h'; simp only [Option.map_some, Option.some.injEq] at h'
      rw [← h']; exact hwf
    · exact hp.gw g' gd' h'
  · intro g' k h; exact hp.gk g' k (hq g' k h)
  · intro e he hgr
    obtain ⟨h1, h2⟩ := hp.gr e he hgr
    refine ⟨h1, fun hx => ?_⟩
    obtain ⟨g', h3, h4⟩ := h2 hx
    exact ⟨g', h3, fun hqq => h4 (hq g' _ hqq)⟩
  · intro c g' hc k h hx; exact hp.gkc c g' hc k (hq g' k h) hx

theorem GInv.guard_unique {w : World} (hp : GInv ex fr w) {p : Pid} {a b : Nat} (ha : Await.guard a ∈ (w.proc p).awaits)
    (hb : Await.guard b ∈ (w.proc p).awaits) : a = b := by
  rw [mem_awaits_guard] at ha hb
  rcases hp.ga p with h | ⟨g, f, _, _, h⟩
  · rw [h] at ha; cases ha
  · rw [h] at ha hb
    simp only [List.mem_singleton, Await.guard.injEq] at ha hb
    rw [ha, hb]

/-- a queued (non-exempt) process has no grant / condition wake-up pending -/
theorem GInv.no_grant_of_queued {w : World} (hp : GInv ex fr w) {g k : Nat} (hq : queued w g k) (hx : ¬ ex (k - 1)) :
    ∀ e ∈ w.ev.pending, isGrant e → e.item.b ≠ k := by
  intro e he hgr hb
  obtain ⟨_, h2⟩ := hp.gr e he hgr
  rw [hb] at h2
  obtain ⟨g', h3, h4⟩ := h2 hx
  have := (hp.gk g k hq).2.2 hx
  have hgg := hp.guard_unique h3 this
  subst hgg; exact h4 hq

/-- scheduling the wake-up of a process that has just been taken off a waiting list -/
theorem GInv.pushGrant {w : World} (hp : GInv ex fr w) (a : Nat) (k : Nat) (pri : Int) (ha : a = aRes ∨ a = aCond)
    (hk0 : k ≠ 0) (hown : ¬ ex (k - 1) → ∃ g, Await.guard g ∈ (w.proc (k - 1)).awaits ∧ ¬ queued w g k)
    (hnone : ¬ ex (k - 1) → ∀ e ∈ w.ev.pending, isGrant e → e.item.b ≠ k)
    (hcw : a = aCond → ¬ ex (k - 1) → ∃ c, fr (k - 1) = some (.condWait c)) :
    GInv ex fr (pushEv w a k sigSuccess w.now pri) := by
  have hnew : ∀ e ∈ (pushEv w a k sigSuccess w.now pri).ev.pending,
      e = mkEv (w.ev.counter + 1) a k sigSuccess w.now pri ∨ e ∈ w.ev.pending := by
    intro e he; simpa using he
  have hgrant : isGrant (mkEv (w.ev.counter + 1) a k sigSuccess w.now pri) := by
    rcases ha with ha | ha
    · left; exact ⟨ha, rfl⟩
    · right; exact ha
  have hnt : a ≠ aTime ∧ a ≠ aIntr ∧ a ≠ aResume ∧ a ≠ aPreempt := by
    rcases ha with ha | ha <;> subst ha <;> decide
  refine { ei := pushEv_evinv _ _ _ _ _ (Int.le_refl _) hp.ei, gw := hp.gw, gsz := hp.gsz, gk := hp.gk, ga := hp.ga,
           gfb := ?_, gr := ?_, gu := ?_, gc := ?_, gkc := hp.gkc, nz := ?_, oth := ?_, cl := ?_ }
  · intro p hx hbl
    obtain ⟨h1, h2⟩ := hp.gfb p hx hbl
    refine ⟨h1, fun e he hea hec => ?_⟩
    rcases hnew e he with rfl | he
    · exact absurd hea hnt.1
    · exact h2 e he hea hec
  · intro e he hgr
    rcases hnew e he with rfl | he
    · exact ⟨hk0, hown⟩
    · exact hp.gr e he hgr
  · intro e1 he1 e2 he2 h1 h2 hb hx
    rcases hnew e1 he1 with rfl | he1 <;> rcases hnew e2 he2 with rfl | he2
    · rfl
    · have hb' : k = e2.item.b := hb
      exact absurd hb'.symm (hnone hx e2 he2 h2)
    · have hb' : e1.item.b = k := hb
      exact absurd hb' (hnone (by rw [← hb']; exact hx) e1 he1 h1)
    · exact hp.gu e1 he1 e2 he2 h1 h2 hb hx
  · intro e he hea hx
    rcases hnew e he with rfl | he
    · exact hcw hea hx
    · exact hp.gc e he hea hx
  · intro e he hec
    rcases hnew e he with rfl | he
    · exact ⟨hnt.2.1, hnt.2.2.1, hnt.2.2.2⟩
    · exact hp.nz e he hec
  · intro e he hea hec
    rcases hnew e he with rfl | he
    · exact absurd hea hnt.1
    · exact hp.oth e he hea hec
  · intro e he
    rcases hnew e he with rfl | he
    · exact encSig_lt sigSuccess
    · exact hp.cl e he

/-- the guard's own part of a signal -/
theorem GInv.frontStep {w : World} (hp : GInv ex fr w) {g : Nat} {gd : Guard} (hg : w.guards[g]? = some gd) :
    GInv ex fr (frontStep w g gd) := by
  have hwf := hp.gw g gd hg
  obtain ⟨h0, hpos⟩ := frontStep_spec w g gd hwf
  rcases Nat.eq_zero_or_pos gd.q.count with hc | hc
  · rw [h0 hc]; exact hp
  · obtain ⟨hmin, hfalse, htrue⟩ := hpos hc
    cases hd : evalDemand w (demandOf gd (gd.q.tag 1).key) with
    | false => rw [hfalse hd]; exact hp
    | true =>
      obtain ⟨q', _, hwf', hperm, heq⟩ := htrue hd
      rw [heq]
      have hkin : (gd.q.tag 1).key ∈ keys (abs gd.q) := Event.mem_keys.2 ⟨_, hmin.1, rfl⟩
      have hkp : (keys (abs gd.q)).Perm ((gd.q.tag 1).key :: keys (abs q')) := by
        have := hperm.map (·.key); simpa [keys, norm] using this
      have hkout : (gd.q.tag 1).key ∉ keys (abs q') := (List.nodup_cons.1 (hkp.nodup_iff.1 hwf.keys_nodup)).1
      have hsub : ∀ k ∈ keys (abs q'), k ∈ keys (abs gd.q) := fun k hk => hkp.mem_iff.2 (List.mem_cons_of_mem _ hk)
      have hq0 : queued w g (gd.q.tag 1).key := ⟨gd, hg, hkin⟩
      have h1 := hp.shrinkQueue hg hwf' hsub
      have hgk := hp.gk g _ hq0
      unfold grant
      refine h1.pushGrant aRes _ _ (Or.inl rfl) hgk.1 ?_ ?_ (fun h => by cases h)
      · intro hx
        refine ⟨g, hgk.2.2 hx, ?_⟩
        rw [queued_setGuardQ hg, if_pos rfl]; exact hkout
      · intro hx; exact hp.no_grant_of_queued hq0 hx

theorem GInv.guardRemove_fst {w : World} (hp : GInv ex fr w) (g : Nat) (p : Pid) : GInv ex fr (guardRemove w g p).1 := by
  cases hg : w.guards[g]? with
  | none => rw [guardRemove_none hg]; exact hp
  | some gd =>
    obtain ⟨q', _, hwf', hperm, heq⟩ := guardRemove_spec hg (hp.gw g gd hg) p
    rw [heq]
    refine hp.shrinkQueue hg hwf' ?_
    intro k hk
    obtain ⟨e, he, rfl⟩ := Event.mem_keys.1 hk
    exact Event.mem_keys.2 ⟨e, (mem_remove.1 (hperm.mem_iff.1 he)).1, rfl⟩

theorem keys_setPrio (q : KPQ) (k : Nat) (v : Int) : keys (setPrio q k v) = keys q := by
  unfold setPrio keys
  rw [List.map_map]
  apply List.map_congr_left
  intro x _
  simp only [Function.comp]
  split <;> rfl

theorem GInv.reprioGuard {w : World} (hp : GInv ex fr w) (q : Pid) (v : Int) (g : Nat) : GInv ex fr (reprioGuard w q v g) := by
  cases hg : w.guards[g]? with
  | none => unfold S3.reprioGuard; rw [hg]; exact hp
  | some gd =>
    obtain ⟨hin, hout⟩ := reprioGuard_spec hg (hp.gw g gd hg) q v
    by_cases hk : q + 1 ∈ keys (abs gd.q)
    · obtain ⟨q', hwf', hperm, heq⟩ := hin hk
      rw [heq]
      refine hp.shrinkQueue hg hwf' ?_
      intro k hk'
      have : (keys (abs q')).Perm (keys (setPrio (abs gd.q) (q + 1) v)) := hperm.map _
      rw [keys_setPrio] at this
      exact this.mem_iff.1 hk'
    · rw [hout hk]; exact hp


/-- a batch of condition wake-ups for distinct processes that have just been taken off the condition's list -/
theorem GInv.pushCondBatch : ∀ (l : List Wake) {w : World}, GInv ex fr w →
    (∀ x ∈ l, x.act = aCond ∧ x.sig = sigSuccess ∧ x.subj ≠ 0 ∧
      (¬ ex (x.subj - 1) → ∃ g, Await.guard g ∈ (w.proc (x.subj - 1)).awaits ∧ ¬ queued w g x.subj) ∧
      (¬ ex (x.subj - 1) → ∀ e ∈ w.ev.pending, isGrant e → e.item.b ≠ x.subj) ∧
      (¬ ex (x.subj - 1) → ∃ c, fr (x.subj - 1) = some (.condWait c))) →
    (l.map (·.subj)).Nodup → GInv ex fr (pushAll w l) := by
  intro l
  induction l with
  | nil => intro w h _ _; rw [pushAll_nil]; exact h
  | cons x xs ih =>
    intro w h hall hnd
    rw [pushAll_cons]
    obtain ⟨ha, hs, hk0, hown, hnone, hcw⟩ := hall x List.mem_cons_self
    have h1 : GInv ex fr (pushEv w x.act x.subj x.sig w.now x.pri) := by
      rw [ha, hs]; exact h.pushGrant aCond x.subj x.pri (Or.inr rfl) hk0 hown hnone (fun _ => hcw)
    refine ih h1 ?_ (List.nodup_cons.1 hnd).2
    intro y hy
    obtain ⟨ya, ys, yk0, yown, ynone, ycw⟩ := hall y (List.mem_cons_of_mem _ hy)
    refine ⟨ya, ys, yk0, yown, ?_, ycw⟩
    intro hx e he hgr
    simp only [pushEv_pending, List.mem_cons] at he
    rcases he with rfl | he
    · simp only [mkEv]
      intro heq
      have : x.subj ∈ xs.map (·.subj) := List.mem_map.2 ⟨y, hy, heq.symm⟩
      exact (List.nodup_cons.1 hnd).1 this
    · exact ynone hx e he hgr

theorem setGuardQ_pushAll (w : World) (l : List Wake) (g : Nat) (q : HH) :
    setGuardQ (pushAll w l) g q = pushAll (setGuardQ w g q) l := rfl

/-- `cmb_condition_signal` (on the guard of a condition) -/
theorem GInv.condSignal_fst {w : World} (hp : GInv ex fr w) (g : Nat) (hcg : ∃ c : Nat, w.conds[c]? = some g) :
    GInv ex fr (condSignal w g).1 := by
  cases hg : w.guards[g]? with
  | none => rw [condSignal_none hg]; exact hp
  | some gd =>
    by_cases hc : gd.q.count = 0
    · rw [condSignal_empty hg hc]; exact hp
    · have hwf := hp.gw g gd hg
      obtain ⟨q', hwf', hperm, heq⟩ := condSignal_spec hg hwf hc
      rw [heq, setGuardQ_pushAll]
      have hsub : ∀ k ∈ keys (abs q'), k ∈ keys (abs gd.q) := by
        intro k hk
        obtain ⟨e, he, rfl⟩ := Event.mem_keys.1 hk
        exact Event.mem_keys.2 ⟨e, (List.mem_filter.1 (hperm.mem_iff.1 he)).1, rfl⟩
      have h1 := hp.shrinkQueue hg hwf' hsub
      obtain ⟨c, hcond⟩ := hcg
      refine h1.pushCondBatch _ ?_ ?_
      · intro x hx
        simp only [condWakes, List.mem_map] at hx
        obtain ⟨t, ht, rfl⟩ := hx
        obtain ⟨hlive, hdem⟩ := mem_condSat.1 ht
        obtain ⟨i, hi1, hi2, rfl⟩ := (HashHeap.mem_liveTags _ _).1 hlive
        have hk0 : (gd.q.tag i).key ≠ 0 := (hwf.keyOk i hi1 hi2).1
        have hkk : (gd.q.tag i).key - 1 + 1 = (gd.q.tag i).key := by omega
        have hkin : (gd.q.tag i).key ∈ keys (abs gd.q) := (HashHeap.mem_keys_abs _ _).2 ⟨i, ⟨hi1, hi2⟩, rfl⟩
        have hq0 : queued w g (gd.q.tag i).key := ⟨gd, hg, hkin⟩
        have hgk := hp.gk g _ hq0
        simp only [hkk]
        refine ⟨trivial, trivial, hk0, ?_, ?_, ?_⟩
        · intro hx
          refine ⟨g, hgk.2.2 hx, ?_⟩
          rw [queued_setGuardQ hg, if_pos rfl]
          intro hm
          obtain ⟨e, he, hek⟩ := Event.mem_keys.1 hm
          have he' := List.mem_filter.1 (hperm.mem_iff.1 he)
          rw [hek, hdem] at he'
          exact absurd he'.2 (by simp)
        · intro hx; exact hp.no_grant_of_queued hq0 hx
        · intro hx; exact hp.gkc c g hcond _ hq0 hx
      · -- distinct keys
        have hnd : ((condSat w gd).map (·.key)).Nodup := by
          have h1 : (keys (abs gd.q)).Nodup := hwf.keys_nodup
          rw [HashHeap.keys_abs] at h1
          exact List.Nodup.sublist ((List.filter_sublist).map _) h1
        have : (condWakes w (condSat w gd)).map (·.subj) = (condSat w gd).map (fun t => t.key - 1 + 1) := by
          simp [condWakes, List.map_map, Function.comp_def]
        rw [this]
        have hkeys : ∀ t ∈ condSat w gd, t.key - 1 + 1 = t.key := by
          intro t ht
          obtain ⟨hlive, _⟩ := mem_condSat.1 ht
          obtain ⟨i, hi1, hi2, rfl⟩ := (HashHeap.mem_liveTags _ _).1 hlive
          have := (hwf.keyOk i hi1 hi2).1; omega
        rw [List.map_congr_left hkeys]; exact hnd

/-- what a signal does at the guard itself: the front step, or — forwarded to the guard of a condition — the condition signal -/
theorem GInv.ownStep {w : World} (hp : GInv ex fr w) (fwd : Bool) {g : Nat} {gd : Guard} (hg : w.guards[g]? = some gd) :
    GInv ex fr (ownStep fwd w g gd) := by
  unfold S3.ownStep
  split
  · rename_i h
    simp only [Bool.and_eq_true] at h
    exact hp.condSignal_fst g (hasHandler_iff.1 h.2)
  · exact hp.frontStep hg

theorem GInv.guardSignalF : ∀ (fuel : Nat) (fwd : Bool) {w : World}, GInv ex fr w → ∀ g, GInv ex fr (guardSignalF fwd fuel w g) := by
  intro fuel
  induction fuel with
  | zero => intro fwd w h g; rw [guardSignalF_zero]; exact h.fail _
  | succ fuel ih =>
    intro fwd w h g
    rw [guardSignalF_succ]
    split
    · exact h
    · rename_i gd hg
      exact GInv.foldl (fun w o hw => ih true hw o) _ (h.ownStep fwd hg)

theorem GInv.guardSignal (fuel : Nat) {w : World} (h : GInv ex fr w) (g : Nat) : GInv ex fr (guardSignal fuel w g) :=
  GInv.guardSignalF fuel false h g

theorem GInv.signal {w : World} (h : GInv ex fr w) (g : Nat) : GInv ex fr (signal w g) := GInv.guardSignal 8 h g

end CimbaModel.Sim.S3
