/-
  S2 — resource pools (C07), part 3: the invariant is kept by the mugging loop, the acquire loop, the rollback,
  release, the end of a process, priority changes — hence by `dispatch`.
-/
import CimbaModel.Sim.S2PoolOps
import CimbaModel.Sim.S2Dispatch

namespace CimbaModel.Sim
open CimbaModel CimbaModel.Event CimbaModel.Generated CimbaModel.KPQ
open CimbaModel.HashHeap (HTag Item Order HH WF abs amounts amountOf)

theorem poolView_of_get {w : World} {pl : Nat} {x : Pool} (hx : w.pools[pl]? = some x) : poolView w pl = some x.view := by
  unfold poolView; rw [hx]; rfl

theorem key_pred_succ {n : Nat} {h : HH} (ok : HoldersOK n h) {k : Nat} (hk : k ∈ keys (abs h)) : k - 1 + 1 = k ∧ k - 1 < n := by
  obtain ⟨pid, hp, rfl⟩ := ok.tags k hk
  exact ⟨by omega, by omega⟩

/-- one victim: dequeue it, take the pool off its held list, notify it -/
theorem PSt.mug {w0 w : World} {pl : Nat} {x : Pool} (hx : w.pools[pl]? = some x) (h : PSt w0 w pl x.view)
    (hpos : 0 < x.holders.count) :
    ∃ h1, HashHeap.dequeue holder_queue_check x.holders = .ok (h1, some (x.holders.tag 1)) ∧
      (∀ t prio, PSt w0 (sched (removeHeld { w with pools := w.pools.set! pl { x with holders := h1 } }
          ((x.holders.tag 1).key - 1) (.pool pl)).1 aIntr ((x.holders.tag 1).key - 1 + 1) sigPreempted t prio).1 pl
        ⟨x.cap, x.inUse, h1⟩) ∧
      amounts (abs h1) + (x.holders.tag 1).item.b = amounts (abs x.holders) ∧
      (∀ k, k ≠ (x.holders.tag 1).key → amountOf (abs h1) k = amountOf (abs x.holders) k) ∧
      (x.holders.tag 1).key - 1 < w0.procs.size := by
  have ok : HoldersOK w0.procs.size x.holders := h.hok
  obtain ⟨h1, hdq, ok1, hsum1, hkeys1, hmem1, _, hoth1, _⟩ := dequeue_holders ok hpos
  obtain ⟨hk1, hk2⟩ := key_pred_succ ok hmem1
  refine ⟨h1, hdq, ?_, hsum1, hoth1, hk2⟩
  intro t prio
  have hu := setHolders_upd hx h1
  have st2 := h.dropKey (p := (x.holders.tag 1).key - 1) hu (fun q => rfl) ok1 (by rw [hk1]; exact hkeys1)
  exact st2.same (sched_same _ _ _ _ _ _)

theorem PoolInv.poolMug : ∀ (fuel : Nat) (w : World) (p : Pid) (pl rem : Nat), PoolInv w → p < w.procs.size →
    PoolInv (poolMug fuel w p pl rem).1 := by
  intro fuel
  induction fuel with
  | zero => intro w p pl rem hi _; exact hi
  | succ n ih =>
    intro w p pl rem hi hp
    unfold Sim.poolMug
    split
    · exact hi
    · rename_i x hx
      split
      · exact hi
      · rename_i hc
        split
        · split
          · have hv := poolView_of_get hx
            have vok := (hi.2 pl _ hv).1
            obtain ⟨h1, hdq, hst, hsum1, _, hvic⟩ := (PSt.init hi hv).mug hx (by omega)
            rw [hdq]
            dsimp only
            generalize hw2 : (removeHeld { w with pools := w.pools.set! pl { x with holders := h1 } }
              ((x.holders.tag 1).key - 1) (HoldRef.pool pl)).1 = w2 at hst ⊢
            split
            · -- all of the victim's units go to the caller; more is needed
              have st3 := hst w2.now (w2.proc ((x.holders.tag 1).key - 1)).prio
              obtain ⟨h2, st4, hsum2, _, _⟩ := st3.update hi.1 hp (x.holders.tag 1).item.b
              dsimp only at hsum2
              have hi4 : PoolInv _ := st4.close hi (by
                have := vok.sum; simp only [Pool.view] at this ⊢; omega) vok.inCap
              exact ih _ _ _ _ hi4 (by rw [st4.size]; exact hp)
            · rename_i hlt
              have st3 := hst w2.now (w2.proc ((x.holders.tag 1).key - 1)).prio
              obtain ⟨h2, st4, hsum2, _, _⟩ := st3.update hi.1 hp rem
              dsimp only at hsum2
              have hget : ∀ w4 : World, poolView w4 pl = some ⟨x.cap, x.inUse, h2⟩ →
                  (w4.pools.getD pl x).inUse = x.inUse := by
                intro w4 hv4
                obtain ⟨y, hy, hyv⟩ := poolView_some.1 hv4
                rw [Array.getD_eq_getD_getElem?, hy]
                have : y.view.inUse = x.inUse := by rw [hyv]
                exact this
              rw [hget _ st4.upd.view]
              have st5 := ((st4.setInUse (x.inUse - ((x.holders.tag 1).item.b - rem))).record pl).same (signal_same _ x.guard)
              refine st5.close hi ?_ ?_
              · have := vok.sum; simp only [Pool.view] at this ⊢; omega
              · have := vok.inCap; simp only [Pool.view] at this ⊢; omega
          · exact hi
        · exact hi

theorem PoolInv.same {w w' : World} (hs : Same w w') (hi : PoolInv w) : PoolInv w' :=
  PoolInv.of_viewSame (ViewSame.of_same hs) hi

theorem PoolInv.poolLoop (w : World) (p : Pid) (pl rem ini : Nat) (pre : Bool) (hi : PoolInv w) (hp : p < w.procs.size) :
    PoolInv (poolLoop w p pl rem ini pre).1 := by
  unfold Sim.poolLoop
  split
  · exact hi.same (fail_same _ _)
  · rename_i x hx
    have hv := poolView_of_get hx
    have vok := (hi.2 pl _ hv).1
    have hsum := vok.sum
    have hcap := vok.inCap
    simp only [Pool.view] at hsum hcap
    dsimp only
    split
    · -- enough is available
      rename_i hav
      obtain ⟨h2, st3, hsum2, _, _⟩ := (((PSt.init hi hv).setInUse (x.inUse + rem)).record pl).update hi.1 hp rem
      dsimp only [Pool.view] at hsum2
      refine (st3.same (signal_same _ x.guard)).close hi ?_ ?_
      · show x.inUse + rem = amounts (abs h2); omega
      · show x.inUse + rem ≤ x.cap; omega
    · rename_i hav
      -- first take what is there
      have h1 : PoolInv (if x.cap - x.inUse > 0 then
          (poolUpdateRecord (recordPool (setPoolInUse w pl (x.inUse + (x.cap - x.inUse))) pl) pl p (x.cap - x.inUse),
            rem - (x.cap - x.inUse)) else (w, rem)).1 ∧
          (if x.cap - x.inUse > 0 then
          (poolUpdateRecord (recordPool (setPoolInUse w pl (x.inUse + (x.cap - x.inUse))) pl) pl p (x.cap - x.inUse),
            rem - (x.cap - x.inUse)) else (w, rem)).1.procs.size = w.procs.size := by
        split
        · obtain ⟨h2, st3, hsum2, _, _⟩ :=
            (((PSt.init hi hv).setInUse (x.inUse + (x.cap - x.inUse))).record pl).update hi.1 hp (x.cap - x.inUse)
          dsimp only [Pool.view] at hsum2
          refine ⟨st3.close hi ?_ ?_, st3.size⟩
          · show x.inUse + (x.cap - x.inUse) = amounts (abs h2); omega
          · show x.inUse + (x.cap - x.inUse) ≤ x.cap; omega
        · exact ⟨hi, rfl⟩
      generalize (if x.cap - x.inUse > 0 then
          (poolUpdateRecord (recordPool (setPoolInUse w pl (x.inUse + (x.cap - x.inUse))) pl) pl p (x.cap - x.inUse),
            rem - (x.cap - x.inUse)) else (w, rem)) = r1 at h1 ⊢
      obtain ⟨w1, rem1⟩ := r1
      dsimp only at h1 ⊢
      have h2 : PoolInv (if pre = true then Sim.poolMug (x.holders.count + 1) w1 p pl rem1 else (w1, some rem1)).1 := by
        split
        · exact PoolInv.poolMug _ _ _ _ _ h1.1 (by rw [h1.2]; exact hp)
        · exact h1.1
      generalize (if pre = true then Sim.poolMug (x.holders.count + 1) w1 p pl rem1 else (w1, some rem1)) = r2 at h2 ⊢
      obtain ⟨w2, rem2⟩ := r2
      dsimp only at h2 ⊢
      split
      · exact h2
      · exact (h2.same (guardWaitEnter_same _ _ _ _)).same (block_same _ _ _)

theorem amountOf_le_amounts {q : KPQ} (hnd : (keys q).Nodup) (k : Nat) : amountOf q k ≤ amounts q := by
  have := HashHeap.amounts_remove hnd k; omega

theorem mem_keys_of_amountOf_pos {q : KPQ} {k : Nat} (h : 0 < amountOf q k) : k ∈ keys q := by
  apply Classical.byContradiction
  intro hn
  rw [HashHeap.amountOf_of_not_mem hn] at h
  exact absurd h (by decide)

theorem PoolInv.poolRollback (w : World) (p : Pid) (pl ini : Nat) (hi : PoolInv w) : PoolInv (poolRollback w p pl ini) := by
  unfold Sim.poolRollback
  split
  · exact hi
  · rename_i x hx
    have hv := poolView_of_get hx
    have vok := (hi.2 pl _ hv).1
    have hsum := vok.sum
    have hcap := vok.inCap
    have hok : HoldersOK w.procs.size x.holders := vok.toHoldersOK
    have hnow : heldAmount w pl p = amountOf (abs x.holders) (p + 1) := heldAmount_eq hv vok.wf p
    have hle := amountOf_le_amounts hok.wf.keys_nodup (p + 1)
    simp only [Pool.view] at hsum hcap
    split
    · dsimp only
      split
      · rename_i hini hgt
        have hk : p + 1 ∈ keys (abs x.view.holders) := mem_keys_of_amountOf_pos (q := abs x.holders) (by omega)
        obtain ⟨h', st1, hsum1, _, _⟩ := (PSt.init hi hv).setHeld hk ini
        dsimp only [Pool.view] at hsum1
        refine (((st1.setInUse (x.inUse - (heldAmount w pl p - ini))).record pl).same (signal_same _ x.guard)).close hi ?_ ?_
        · show x.inUse - (heldAmount w pl p - ini) = amounts (abs h'); omega
        · show x.inUse - (heldAmount w pl p - ini) ≤ x.cap; omega
      · exact hi
    · dsimp only
      have st2 := ((PSt.init hi hv).setInUse (x.inUse - heldAmount w pl p)).record pl
      split
      · rename_i h' found hr
        obtain ⟨ok', hsum', hkeys', hfound, _, _⟩ := remove_holders hok p hr
        have hu := modifyHolders_upd st2.upd.view h'
        have st4 : PSt w (if found = true then
            (removeHeld { (recordPool (setPoolInUse w pl (x.inUse - heldAmount w pl p)) pl) with
              pools := (recordPool (setPoolInUse w pl (x.inUse - heldAmount w pl p)) pl).pools.modify pl
                fun y => { y with holders := h' } } p (HoldRef.pool pl)).1
            else { (recordPool (setPoolInUse w pl (x.inUse - heldAmount w pl p)) pl) with
              pools := (recordPool (setPoolInUse w pl (x.inUse - heldAmount w pl p)) pl).pools.modify pl
                fun y => { y with holders := h' } }) pl ⟨x.cap, x.inUse - heldAmount w pl p, h'⟩ := by
          split
          · exact st2.dropKey hu (fun _ => rfl) ok' hkeys'
          · rename_i hnf
            refine st2.dropAbsent hu (fun _ => rfl) ok' hkeys' ?_
            intro hm
            rw [hfound] at hnf
            have hm' : p + 1 ∈ keys (abs x.holders) := hm
            simp [hm'] at hnf
        refine (st4.same (signal_same _ x.guard)).close hi ?_ ?_
        · show x.inUse - heldAmount w pl p = amounts (abs h'); omega
        · show x.inUse - heldAmount w pl p ≤ x.cap; omega
      · rename_i f hr
        obtain ⟨s', hrun, _⟩ := HashHeap.remove_abs hok.wf (p + 1) (by simp)
        rw [hrun] at hr; cases hr

theorem PoolInv.poolRelease (w : World) (p : Pid) (pl n : Nat) (hi : PoolInv w) :
    PoolInv (execCmd w p (.poolRelease pl n)).1 := by
  simp only [execCmd]
  split
  · exact hi
  · rename_i x hx
    have hv := poolView_of_get hx
    have vok := (hi.2 pl _ hv).1
    have hsum := vok.sum
    have hcap := vok.inCap
    have hok : HoldersOK w.procs.size x.holders := vok.toHoldersOK
    have hnow : heldAmount w pl p = amountOf (abs x.holders) (p + 1) := heldAmount_eq hv vok.wf p
    have hle := amountOf_le_amounts hok.wf.keys_nodup (p + 1)
    simp only [Pool.view] at hsum hcap
    split
    · exact hi
    · rename_i hn
      have hn0 : n ≠ 0 := fun e => hn (Or.inl e)
      have hnle : n ≤ heldAmount w pl p := by
        apply Classical.byContradiction; intro h; exact hn (Or.inr (by omega))
      have hk : p + 1 ∈ keys (abs x.view.holders) := mem_keys_of_amountOf_pos (q := abs x.holders) (by omega)
      -- the caller's record shrinks by n, or disappears
      have h1 : ∃ h', PSt w (if heldAmount w pl p = n then
            match HashHeap.remove holder_queue_check x.holders (p + 1) with
            | .ok (h', _) => (removeHeld { w with pools := w.pools.set! pl { x with holders := h' } } p (.pool pl)).1
            | .error f => w.fail s!"pool release: {f}"
          else setHeldAmount w pl p (heldAmount w pl p - n)) pl ⟨x.cap, x.inUse, h'⟩ ∧
          amounts (abs h') + n = amounts (abs x.holders) := by
        split
        · rename_i heq
          split
          · rename_i h' found hr
            obtain ⟨ok', hsum', hkeys', _, _, _⟩ := remove_holders hok p hr
            exact ⟨h', (PSt.init hi hv).dropKey (setHolders_upd hx h') (fun _ => rfl) ok' hkeys', by omega⟩
          · rename_i f hr
            obtain ⟨s', hrun, _⟩ := HashHeap.remove_abs hok.wf (p + 1) (by simp)
            rw [hrun] at hr; cases hr
        · rename_i hne
          obtain ⟨h', st1, hsum1, _, _⟩ := (PSt.init hi hv).setHeld hk (heldAmount w pl p - n)
          dsimp only [Pool.view] at hsum1
          exact ⟨h', st1, by omega⟩
      obtain ⟨h', st1, hs1⟩ := h1
      refine (((st1.setInUse (x.inUse - n)).record pl).same (signal_same _ x.guard)).close hi ?_ ?_
      · show x.inUse - n = amounts (abs h'); omega
      · show x.inUse - n ≤ x.cap; omega

end CimbaModel.Sim
