/-
  S2 — resource pools (C07), part 3: the invariant is kept by the mugging loop, the acquire loop, the rollback,
  release, the end of a process, priority changes — hence by `dispatch`.
-/
import CimbaModel.Sim.S2PoolOps
import CimbaModel.Sim.S2Dispatch

namespace CimbaModel.Sim
open CimbaModel CimbaModel.Event CimbaModel.Generated CimbaModel.KPQ
open CimbaModel.HashHeap (HTag Item Order HH WF abs amounts amountOf)

theorem poolView_of_get {w : World} {pl : Nat} {x : Pool} (hx : w.pools[pl]? = some x) : poolView w pl = some x.view := by
  unfold poolView; rw [hx]; rfl

theorem key_pred_succ {n : Nat} {pr : Nat → Int} {h : HH} (ok : HoldersOK n pr h) {k : Nat} (hk : k ∈ keys (abs h)) : k - 1 + 1 = k ∧ k - 1 < n := by
  obtain ⟨pid, hp, rfl⟩ := ok.tags k hk
  exact ⟨by omega, by omega⟩

/-- one victim: dequeue it, take the pool off its held list, notify it -/
theorem PSt.mug {w0 w : World} {pl : Nat} {x : Pool} (hx : w.pools[pl]? = some x) (h : PSt w0 w pl x.view)
    (hpos : 0 < x.holders.count) :
    ∃ h1, HashHeap.dequeue holder_queue_check x.holders = .ok (h1, some (x.holders.tag 1)) ∧
      (∀ t prio, PSt w0 (sched (removeHeld { w with pools := w.pools.set! pl { x with holders := h1 } }
          ((x.holders.tag 1).key - 1) (.pool pl)).1 aIntr ((x.holders.tag 1).key - 1 + 1) sigPreempted t prio).1 pl
        ⟨x.cap, x.inUse, h1⟩) ∧
      amounts (abs h1) + (x.holders.tag 1).item.b = amounts (abs x.holders) ∧
      (∀ k, k ≠ (x.holders.tag 1).key → amountOf (abs h1) k = amountOf (abs x.holders) k) ∧
      (x.holders.tag 1).key - 1 < w0.procs.size ∧ 0 < (x.holders.tag 1).item.b := by
  have ok : HoldersOK w0.procs.size (prOf w0) x.holders := h.hok
  obtain ⟨h1, hdq, ok1, hsum1, hkeys1, hmem1, _, hoth1, _⟩ := dequeue_holders ok hpos
  obtain ⟨hk1, hk2⟩ := key_pred_succ ok hmem1
  have hloot : 0 < (x.holders.tag 1).item.b :=
    ok.pos (KPQ.norm (x.holders.tag 1)) ((HashHeap.mem_abs _ _).2 ⟨1, ⟨Nat.le_refl _, hpos⟩, rfl⟩)
  refine ⟨h1, hdq, ?_, hsum1, hoth1, hk2, hloot⟩
  intro t prio
  have hu := setHolders_upd hx h1
  have st2 := h.dropKey (p := (x.holders.tag 1).key - 1) hu (fun q => rfl) ok1 (by rw [hk1]; exact hkeys1)
  exact st2.same (sched_same _ _ _ _ _ _)

theorem PoolInv.poolMug : ∀ (fuel : Nat) (w : World) (p : Pid) (pl rem : Nat), PoolInv w → p < w.procs.size → 0 < rem →
    PoolInv (poolMug fuel w p pl rem).1 := by
  intro fuel
  induction fuel with
  | zero => intro w p pl rem hi _ _; exact hi
  | succ n ih =>
    intro w p pl rem hi hp hrem
    unfold Sim.poolMug
    split
    · exact hi
    · rename_i x hx
      split
      · exact hi
      · rename_i hc
        split
        · split
          · have hv := poolView_of_get hx
            have vok := (hi.2 pl _ hv).1
            obtain ⟨h1, hdq, hst, hsum1, _, hvic, hloot⟩ := (PSt.init hi hv).mug hx (by omega)
            rw [hdq]
            dsimp only
            generalize hw2 : (removeHeld { w with pools := w.pools.set! pl { x with holders := h1 } }
              ((x.holders.tag 1).key - 1) (HoldRef.pool pl)).1 = w2 at hst ⊢
            split
            · -- all of the victim's units go to the caller; more is needed
              have st3 := hst w2.now (w2.proc ((x.holders.tag 1).key - 1)).prio
              rename_i hlt
              obtain ⟨h2, st4, hsum2, _, _⟩ := st3.update hi.1 hp (x.holders.tag 1).item.b hloot
              dsimp only at hsum2
              have hi4 : PoolInv _ := st4.close hi (by
                have := vok.sum; simp only [Pool.view] at this ⊢; omega) vok.inCap
              exact ih _ _ _ _ hi4 (by rw [st4.size]; exact hp) (by omega)
            · rename_i hlt
              have st3 := hst w2.now (w2.proc ((x.holders.tag 1).key - 1)).prio
              obtain ⟨h2, st4, hsum2, _, _⟩ := st3.update hi.1 hp rem hrem
              dsimp only at hsum2
              have hget : ∀ w4 : World, poolView w4 pl = some ⟨x.cap, x.inUse, h2⟩ →
                  (w4.pools.getD pl x).inUse = x.inUse := by
                intro w4 hv4
                obtain ⟨y, hy, hyv⟩ := poolView_some.1 hv4
                rw [Array.getD_eq_getD_getElem?, hy]
                have : y.view.inUse = x.inUse := by rw [hyv]
                exact this
              rw [hget _ st4.upd.view]
              have st5 := ((st4.setInUse (x.inUse - ((x.holders.tag 1).item.b - rem))).record pl).same (signal_same _ x.guard)
              refine st5.close hi ?_ ?_
              · have := vok.sum; simp only [Pool.view] at this ⊢; omega
              · have := vok.inCap; simp only [Pool.view] at this ⊢; omega
          · exact hi
        · exact hi

theorem PoolInv.same {w w' : World} (hs : Same w w') (hi : PoolInv w) : PoolInv w' :=
  PoolInv.of_viewSame (ViewSame.of_same hs) hi

theorem PoolInv.poolLoop (w : World) (p : Pid) (pl rem ini : Nat) (pre : Bool) (hi : PoolInv w) (hp : p < w.procs.size)
    (hrem : 0 < rem) : PoolInv (poolLoop w p pl rem ini pre).1 := by
  unfold Sim.poolLoop
  split
  · exact hi.same (fail_same _ _)
  · rename_i x hx
    have hv := poolView_of_get hx
    have vok := (hi.2 pl _ hv).1
    have hsum := vok.sum
    have hcap := vok.inCap
    simp only [Pool.view] at hsum hcap
    dsimp only
    split
    · -- enough is available
      rename_i hav
      obtain ⟨h2, st3, hsum2, _, _⟩ := (((PSt.init hi hv).setInUse (x.inUse + rem)).record pl).update hi.1 hp rem hrem
      dsimp only [Pool.view] at hsum2
      refine (st3.same (signal_same _ x.guard)).close hi ?_ ?_
      · show x.inUse + rem = amounts (abs h2); omega
      · show x.inUse + rem ≤ x.cap; omega
    · rename_i hav
      -- first take what is there
      have h1 : PoolInv (if x.cap - x.inUse > 0 then
          (poolUpdateRecord (recordPool (setPoolInUse w pl (x.inUse + (x.cap - x.inUse))) pl) pl p (x.cap - x.inUse),
            rem - (x.cap - x.inUse)) else (w, rem)).1 ∧
          (if x.cap - x.inUse > 0 then
          (poolUpdateRecord (recordPool (setPoolInUse w pl (x.inUse + (x.cap - x.inUse))) pl) pl p (x.cap - x.inUse),
            rem - (x.cap - x.inUse)) else (w, rem)).1.procs.size = w.procs.size ∧
          0 < (if x.cap - x.inUse > 0 then
          (poolUpdateRecord (recordPool (setPoolInUse w pl (x.inUse + (x.cap - x.inUse))) pl) pl p (x.cap - x.inUse),
            rem - (x.cap - x.inUse)) else (w, rem)).2 := by
        split
        · rename_i hpos
          obtain ⟨h2, st3, hsum2, _, _⟩ :=
            (((PSt.init hi hv).setInUse (x.inUse + (x.cap - x.inUse))).record pl).update hi.1 hp (x.cap - x.inUse) hpos
          dsimp only [Pool.view] at hsum2
          refine ⟨st3.close hi ?_ ?_, st3.size, ?_⟩
          · show x.inUse + (x.cap - x.inUse) = amounts (abs h2); omega
          · show x.inUse + (x.cap - x.inUse) ≤ x.cap; omega
          · show 0 < rem - (x.cap - x.inUse); omega
        · exact ⟨hi, rfl, hrem⟩
      generalize (if x.cap - x.inUse > 0 then
          (poolUpdateRecord (recordPool (setPoolInUse w pl (x.inUse + (x.cap - x.inUse))) pl) pl p (x.cap - x.inUse),
            rem - (x.cap - x.inUse)) else (w, rem)) = r1 at h1 ⊢
      obtain ⟨w1, rem1⟩ := r1
      dsimp only at h1 ⊢
      have h2 : PoolInv (if pre = true then Sim.poolMug (x.holders.count + 1) w1 p pl rem1 else (w1, some rem1)).1 := by
        split
        · exact PoolInv.poolMug _ _ _ _ _ h1.1 (by rw [h1.2.1]; exact hp) h1.2.2
        · exact h1.1
      generalize (if pre = true then Sim.poolMug (x.holders.count + 1) w1 p pl rem1 else (w1, some rem1)) = r2 at h2 ⊢
      obtain ⟨w2, rem2⟩ := r2
      dsimp only at h2 ⊢
      split
      · exact h2
      · exact PoolInv.of_fp (block_fp _ _ _) rfl rfl (h2.same (guardWaitEnter_same _ _ _ _))

theorem amountOf_le_amounts {q : KPQ} (hnd : (keys q).Nodup) (k : Nat) : amountOf q k ≤ amounts q := by
  have := HashHeap.amounts_remove hnd k; omega

theorem mem_keys_of_amountOf_pos {q : KPQ} {k : Nat} (h : 0 < amountOf q k) : k ∈ keys q := by
  apply Classical.byContradiction
  intro hn
  rw [HashHeap.amountOf_of_not_mem hn] at h
  exact absurd h (by decide)

theorem PoolInv.poolRollback (w : World) (p : Pid) (pl ini : Nat) (hi : PoolInv w) : PoolInv (poolRollback w p pl ini) := by
  unfold Sim.poolRollback
  split
  · exact hi
  · rename_i x hx
    have hv := poolView_of_get hx
    have vok := (hi.2 pl _ hv).1
    have hsum := vok.sum
    have hcap := vok.inCap
    have hok : HoldersOK w.procs.size (prOf w) x.holders := vok.toHoldersOK
    have hnow : heldAmount w pl p = amountOf (abs x.holders) (p + 1) := heldAmount_eq hv vok.wf p
    have hle := amountOf_le_amounts hok.wf.keys_nodup (p + 1)
    simp only [Pool.view] at hsum hcap
    split
    · dsimp only
      split
      · rename_i hini hgt
        have hk : p + 1 ∈ keys (abs x.view.holders) := mem_keys_of_amountOf_pos (q := abs x.holders) (by omega)
        obtain ⟨h', st1, hsum1, _, _⟩ := (PSt.init hi hv).setHeld hk ini hini
        dsimp only [Pool.view] at hsum1
        refine (((st1.setInUse (x.inUse - (heldAmount w pl p - ini))).record pl).same (signal_same _ x.guard)).close hi ?_ ?_
        · show x.inUse - (heldAmount w pl p - ini) = amounts (abs h'); omega
        · show x.inUse - (heldAmount w pl p - ini) ≤ x.cap; omega
      · exact hi
    · dsimp only
      have st2 := ((PSt.init hi hv).setInUse (x.inUse - heldAmount w pl p)).record pl
      split
      · rename_i h' found hr
        obtain ⟨ok', hsum', hkeys', hfound, _, _⟩ := remove_holders hok p hr
        have hu := modifyHolders_upd st2.upd.view h'
        have st4 : PSt w (if found = true then
            (removeHeld { (recordPool (setPoolInUse w pl (x.inUse - heldAmount w pl p)) pl) with
              pools := (recordPool (setPoolInUse w pl (x.inUse - heldAmount w pl p)) pl).pools.modify pl
                fun y => { y with holders := h' } } p (HoldRef.pool pl)).1
            else { (recordPool (setPoolInUse w pl (x.inUse - heldAmount w pl p)) pl) with
              pools := (recordPool (setPoolInUse w pl (x.inUse - heldAmount w pl p)) pl).pools.modify pl
                fun y => { y with holders := h' } }) pl ⟨x.cap, x.inUse - heldAmount w pl p, h'⟩ := by
          split
          · exact st2.dropKey hu (fun _ => rfl) ok' hkeys'
          · rename_i hnf
            refine st2.dropAbsent hu (fun _ => rfl) ok' hkeys' ?_
            intro hm
            rw [hfound] at hnf
            have hm' : p + 1 ∈ keys (abs x.holders) := hm
            simp [hm'] at hnf
        refine (st4.same (signal_same _ x.guard)).close hi ?_ ?_
        · show x.inUse - heldAmount w pl p = amounts (abs h'); omega
        · show x.inUse - heldAmount w pl p ≤ x.cap; omega
      · rename_i f hr
        obtain ⟨s', hrun, _⟩ := HashHeap.remove_abs hok.wf (p + 1) (by simp)
        rw [hrun] at hr; cases hr

theorem PoolInv.poolRelease (w : World) (p : Pid) (pl n : Nat) (hi : PoolInv w) :
    PoolInv (execCmd w p (.poolRelease pl n)).1 := by
  simp only [execCmd]
  split
  · exact hi
  · rename_i x hx
    have hv := poolView_of_get hx
    have vok := (hi.2 pl _ hv).1
    have hsum := vok.sum
    have hcap := vok.inCap
    have hok : HoldersOK w.procs.size (prOf w) x.holders := vok.toHoldersOK
    have hnow : heldAmount w pl p = amountOf (abs x.holders) (p + 1) := heldAmount_eq hv vok.wf p
    have hle := amountOf_le_amounts hok.wf.keys_nodup (p + 1)
    simp only [Pool.view] at hsum hcap
    split
    · exact hi
    · rename_i hn
      have hn0 : n ≠ 0 := fun e => hn (Or.inl e)
      have hnle : n ≤ heldAmount w pl p := by
        apply Classical.byContradiction; intro h; exact hn (Or.inr (by omega))
      have hk : p + 1 ∈ keys (abs x.view.holders) := mem_keys_of_amountOf_pos (q := abs x.holders) (by omega)
      -- the caller's record shrinks by n, or disappears
      have h1 : ∃ h', PSt w (if heldAmount w pl p = n then
            match HashHeap.remove holder_queue_check x.holders (p + 1) with
            | .ok (h', _) => (removeHeld { w with pools := w.pools.set! pl { x with holders := h' } } p (.pool pl)).1
            | .error f => w.fail s!"pool release: {f}"
          else setHeldAmount w pl p (heldAmount w pl p - n)) pl ⟨x.cap, x.inUse, h'⟩ ∧
          amounts (abs h') + n = amounts (abs x.holders) := by
        split
        · rename_i heq
          split
          · rename_i h' found hr
            obtain ⟨ok', hsum', hkeys', _, _, _⟩ := remove_holders hok p hr
            exact ⟨h', (PSt.init hi hv).dropKey (setHolders_upd hx h') (fun _ => rfl) ok' hkeys', by omega⟩
          · rename_i f hr
            obtain ⟨s', hrun, _⟩ := HashHeap.remove_abs hok.wf (p + 1) (by simp)
            rw [hrun] at hr; cases hr
        · rename_i hne
          obtain ⟨h', st1, hsum1, _, _⟩ := (PSt.init hi hv).setHeld hk (heldAmount w pl p - n) (by omega)
          dsimp only [Pool.view] at hsum1
          exact ⟨h', st1, by omega⟩
      obtain ⟨h', st1, hs1⟩ := h1
      refine (((st1.setInUse (x.inUse - n)).record pl).same (signal_same _ x.guard)).close hi ?_ ?_
      · show x.inUse - n = amounts (abs h'); omega
      · show x.inUse - n ≤ x.cap; omega

/-! ### the end of a process: every pool it holds is given back -/

/-- while `drop_resources` walks the list of held objects of `p` (already detached from `p`): everything is
    consistent except that `p` may still have records in the pools that are still to come -/
structure DropInv (w : World) (p : Pid) (rest : List HoldRef) : Prop where
  size : w.procs.size < 2 ^ 31
  ok : ∀ pl v, poolView w pl = some v → ViewOK w.procs.size (prOf w) v
  linkOther : ∀ pl v, poolView w pl = some v → ∀ q, q ≠ p →
    (HoldRef.pool pl ∈ (w.proc q).held ↔ q + 1 ∈ keys (abs v.holders))
  pending : ∀ pl v, poolView w pl = some v → p + 1 ∈ keys (abs v.holders) → HoldRef.pool pl ∈ rest
  detached : ∀ pl, HoldRef.pool pl ∉ (w.proc p).held

theorem DropInv.viewSame {w w' : World} {p : Pid} {rest : List HoldRef} (h : DropInv w p rest) (hs : ViewSame w w') :
    DropInv w' p rest where
  size := by rw [hs.size]; exact h.size
  ok pl v hv := by rw [hs.size, hs.prio]; exact h.ok pl v (by rw [← hs.view]; exact hv)
  linkOther pl v hv q hq := (hs.held q pl).trans (h.linkOther pl v (by rw [← hs.view]; exact hv) q hq)
  pending pl v hv hk := h.pending pl v (by rw [← hs.view]; exact hv) hk
  detached pl := fun hm => h.detached pl ((hs.held p pl).1 hm)

theorem DropInv.close {w : World} {p : Pid} (h : DropInv w p []) : PoolInv w := by
  refine ⟨h.size, fun pl v hv => ⟨h.ok pl v hv, fun q => ?_⟩⟩
  by_cases hq : q = p
  · subst hq
    constructor
    · intro hm; exact absurd hm (h.detached pl)
    · intro hk; exact absurd (h.pending pl v hv hk) (by simp)
  · exact h.linkOther pl v hv q hq

/-- both the amount in use and the holder list of pool `pl` are replaced -/
theorem setBoth_view {w : World} {pl : Nat} {x : Pool} (hx : w.pools[pl]? = some x) (u : Nat) (h' : HH) (pl' : Nat) :
    poolView { w with pools := w.pools.set! pl { x with inUse := u, holders := h' } } pl' =
      if pl' = pl then some ⟨x.cap, u, h'⟩ else poolView w pl' := by
  unfold poolView
  show ((w.pools.set! pl _)[pl']?).map Pool.view = _
  rw [poolView_set hx]
  rfl

theorem DropInv.dropHolder {w : World} {p : Pid} {rest : List HoldRef} (pl : Nat) (h : DropInv w p (.pool pl :: rest)) :
    DropInv (poolDropHolder w pl p) p rest := by
  have hweak : DropInv w p (.pool pl :: rest) → (∀ v, poolView w pl = some v → p + 1 ∉ keys (abs v.holders)) →
      DropInv w p rest := by
    intro h hno
    refine ⟨h.size, h.ok, h.linkOther, ?_, h.detached⟩
    intro pl' v hv hk
    rcases List.mem_cons.1 (h.pending pl' v hv hk) with e | e
    · injection e with e; subst e; exact absurd hk (hno v hv)
    · exact e
  unfold Sim.poolDropHolder
  split
  · rename_i hnone
    refine hweak h ?_
    intro v hv; unfold poolView at hv; rw [hnone] at hv; cases hv
  · rename_i x hx
    have hv := poolView_of_get hx
    have vok := h.ok pl _ hv
    have hok : HoldersOK w.procs.size (prOf w) x.holders := vok.toHoldersOK
    have hsum : x.inUse = amounts (abs x.holders) := vok.sum
    have hcap : x.inUse ≤ x.cap := vok.inCap
    by_cases hk : p + 1 ∈ keys (abs x.holders)
    · obtain ⟨i, hi, hki⟩ := (HashHeap.mem_keys_abs x.holders (p + 1)).1 hk
      have hfi := HashHeap.findIndex_of_mem hok.wf hi
      rw [hki] at hfi
      have hi0 : i ≠ 0 := by have := hi.1; omega
      rw [hfi]
      have hamt : (x.holders.heap.getD i {}).item.b = amountOf (abs x.holders) (p + 1) := by
        have hmem : KPQ.norm (x.holders.tag i) ∈ abs x.holders := (HashHeap.mem_abs _ _).2 ⟨i, hi, rfl⟩
        have := HashHeap.amountOf_of_mem hok.wf.keys_nodup hmem
        simp only [KPQ.norm] at this
        rw [hki] at this
        exact this.symm
      split
      · rename_i heq; injection heq with heq; exact absurd heq hi0
      · rename_i i' _ heq
        injection heq with heq
        subst heq
        dsimp only
        split
        · rename_i h' found hr
          obtain ⟨ok', hsum', hkeys', _, _, _⟩ := remove_holders hok p hr
          refine DropInv.viewSame ?_ (ViewSame.trans (recordPool_viewSame _ pl) (ViewSame.of_same (signal_same _ x.guard)))
          have hvw := setBoth_view hx (x.inUse - (x.holders.heap.getD i {}).item.b) h'
          refine ⟨h.size, ?_, ?_, ?_, h.detached⟩
          · intro pl' v hv'
            rw [hvw] at hv'
            split at hv'
            · cases hv'
              refine ⟨ok', ?_, ?_⟩
              · show x.inUse - _ = amounts (abs h'); rw [hamt]; omega
              · show x.inUse - _ ≤ x.cap; omega
            · exact h.ok pl' v hv'
          · intro pl' v hv' q hq
            rw [hvw] at hv'
            split at hv'
            · rename_i e; subst e; cases hv'
              show _ ↔ q + 1 ∈ keys (abs h')
              rw [hkeys']
              have := h.linkOther pl' _ hv q hq
              constructor
              · intro hm; exact ⟨this.1 hm, fun e => hq (Nat.add_right_cancel e)⟩
              · intro hm; exact this.2 hm.1
            · exact h.linkOther pl' v hv' q hq
          · intro pl' v hv' hk'
            rw [hvw] at hv'
            split at hv'
            · cases hv'
              exact absurd rfl ((hkeys' (p + 1)).1 hk').2
            · rename_i hne
              rcases List.mem_cons.1 (h.pending pl' v hv' hk') with e | e
              · injection e with e; exact absurd e hne
              · exact e
        · rename_i f hr
          obtain ⟨s', hrun, _⟩ := HashHeap.remove_abs hok.wf (p + 1) (by simp)
          rw [hrun] at hr; cases hr
      · rename_i heq; cases heq
    · rw [HashHeap.findIndex_of_not_mem hok.wf hk]
      refine hweak h ?_
      intro v hv'; rw [hv] at hv'; cases hv'; exact hk

theorem dropResources_dropInv (w : World) (p : Pid) (hi : PoolInv w) : DropInv (dropResources w p) p [] := by
  unfold Sim.dropResources
  dsimp only
  -- after detaching the list from `p`
  have h0 : DropInv (w.modProc p fun x => { x with held := [] }) p (w.proc p).held := by
    have hsz : (w.modProc p fun x => { x with held := [] }).procs.size = w.procs.size := modProc_size _ _ _
    have hpr : prOf (w.modProc p fun x => { x with held := [] }) = prOf w :=
      funext fun q => modProc_prio w p q _ (fun _ => rfl)
    refine ⟨by rw [hsz]; exact hi.1, ?_, ?_, ?_, ?_⟩
    · intro pl v hv; rw [hsz, hpr]; exact (hi.2 pl v hv).1
    · intro pl v hv q hq
      rw [proc_modProc, if_neg (fun e => hq e.1)]
      exact (hi.2 pl v hv).2 q
    · intro pl v hv hk
      exact ((hi.2 pl v hv).2 p).2 hk
    · intro pl
      rw [proc_modProc]
      split
      · simp
      · rename_i hn
        have : ¬ p < w.procs.size := fun e => hn ⟨rfl, e⟩
        rw [proc_default_of_ge this]; simp
  generalize (w.proc p).held = hs at h0
  generalize (w.modProc p fun x => { x with held := [] }) = w0 at h0
  induction hs generalizing w0 with
  | nil => exact h0
  | cons a rest ih =>
    rw [List.foldl_cons]
    apply ih
    cases a with
    | res r =>
      dsimp only
      have hweak : DropInv w0 p rest := by
        refine ⟨h0.size, h0.ok, h0.linkOther, ?_, h0.detached⟩
        intro pl v hv hk
        rcases List.mem_cons.1 (h0.pending pl v hv hk) with e | e
        · cases e
        · exact e
      split
      · rename_i x hx
        refine hweak.viewSame (ViewSame.of_fp (m := mRes) ?_ rfl rfl)
        refine Fp.trans (Fp.trans ?_ (recordRes_fp _ r)) (Same.fp _ (signal_same _ x.guard))
        simp [Fp, World.now, World.proc]
      · exact hweak
    | pool pl => exact h0.dropHolder pl

theorem PoolInv.dropResources (w : World) (p : Pid) (hi : PoolInv w) : PoolInv (dropResources w p) :=
  (dropResources_dropInv w p hi).close

/-- a process that ends holds nothing afterwards (of any pool) -/
theorem heldOf_dropResources (w : World) (p : Pid) (hi : PoolInv w) (pl : Nat) : heldOf (dropResources w p) pl p = 0 := by
  have h := dropResources_dropInv w p hi
  unfold heldOf
  cases hv : poolView (dropResources w p) pl with
  | none => rfl
  | some v =>
    dsimp only
    apply HashHeap.amountOf_of_not_mem
    intro hk
    exact absurd (h.pending pl v hv hk) (by simp)

theorem PoolInv.finishProc (w : World) (p : Pid) (v : Int) (st : Bool) (hi : PoolInv w) : PoolInv (finishProc w p v st) := by
  unfold Sim.finishProc
  dsimp only
  refine PoolInv.of_fp (modProc_fp_blocked _ _ _ (fun _ => rfl) (fun _ => rfl)) rfl rfl (PoolInv.same (wakeWaiters_same _ _ _) ?_)
  split
  · exact PoolInv.dropResources _ _ (hi.same (cancelAwaiteds_same _ _))
  · exact (PoolInv.dropResources _ _ hi).same (cancelAwaiteds_same _ _)

/-! ### commands that touch the held lists only through resources -/

theorem pool_mem_modProc_res (w : World) (r : Nat) (p q : Pid) (pl : Nat) :
    HoldRef.pool pl ∈ ((w.modProc p fun y => { y with held := .res r :: y.held }).proc q).held ↔
      HoldRef.pool pl ∈ (w.proc q).held := by
  rw [proc_modProc]
  split
  · rename_i hq; rw [hq.1]; simp
  · exact Iff.rfl

@[simp] theorem pool_mem_grab (w : World) (r : Nat) (p q : Pid) (pl : Nat) :
    HoldRef.pool pl ∈ ((grab w r p).proc q).held ↔ HoldRef.pool pl ∈ (w.proc q).held := by
  unfold grab
  split
  · dsimp only
    rw [pool_mem_modProc_res]
    split <;> simp
  · exact Iff.rfl

@[simp] theorem pool_mem_removeHeld_res (w : World) (r : Nat) (p q : Pid) (pl : Nat) :
    HoldRef.pool pl ∈ ((removeHeld w p (.res r)).1.proc q).held ↔ HoldRef.pool pl ∈ (w.proc q).held := by
  rw [removeHeld_proc]
  split
  · simp
  · exact Iff.rfl

theorem acquireStep_poolHeld (w : World) (p : Pid) (r : Nat) (q : Pid) (pl : Nat) :
    HoldRef.pool pl ∈ ((acquireStep w p r).1.proc q).held ↔ HoldRef.pool pl ∈ (w.proc q).held := by
  unfold acquireStep
  (repeat' split) <;> simp

theorem resCmd_viewSame (w : World) (p : Pid) (c : Cmd) (r : Nat)
    (hc : c = .acquire r ∨ c = .preempt r ∨ c = .release r) : ViewSame w (execCmd w p c).1 := by
  have hf := execCmd_fp w p c
  have hpools : (cmdMask c).pools = false := by rcases hc with rfl | rfl | rfl <;> rfl
  have hprio : (cmdMask c).prio = false := by rcases hc with rfl | rfl | rfl <;> rfl
  refine ⟨hf.2.2.2.2.2.2.2.1, poolView_of_fp hf hpools, ?_, prOf_of_fp hf hprio⟩
  intro q pl
  rcases hc with rfl | rfl | rfl
  · simp only [execCmd]; exact acquireStep_poolHeld _ _ _ _ _
  · simp only [execCmd]
    (repeat' split) <;> simp [acquireStep_poolHeld]
  · simp only [execCmd]
    (repeat' split) <;> simp

theorem acquireFrame_viewSame (w : World) (p : Pid) (r : Nat) (sig : Int) :
    ViewSame w (resumeFrame w p (.acquire r) sig).1 := by
  have hf := resumeFrame_fp w p (.acquire r) sig
  refine ⟨hf.2.2.2.2.2.2.2.1, poolView_of_fp hf rfl, ?_, prOf_of_fp hf rfl⟩
  intro q pl
  simp only [resumeFrame]
  (repeat' split) <;> simp [acquireStep_poolHeld]

/-! ### recording on / off -/

theorem setRecording_viewSame (w : World) (kind idx : Nat) (on : Bool) : ViewSame w (setRecording w kind idx on) := by
  have hf := setRecording_fp w kind idx on
  have hheld : ∀ q pl, HoldRef.pool pl ∈ ((setRecording w kind idx on).proc q).held ↔ HoldRef.pool pl ∈ (w.proc q).held := by
    intro q pl
    rw [hf.2.2.2.2.2.2.2.2.1 (by unfold recMask; split <;> rfl) q]
  have hprio : prOf (setRecording w kind idx on) = prOf w := prOf_of_fp hf (by unfold recMask; split <;> rfl)
  by_cases hk : kind = 1
  · subst hk
    refine ⟨hf.2.2.2.2.2.2.2.1, ?_, hheld, hprio⟩
    have hm : ∀ (w : World) pl, poolView { w with pools := w.pools.modify idx fun x => { x with recording := on } } pl =
        poolView w pl := by
      intro w pl
      unfold poolView
      show ((w.pools.modify idx _)[pl]?).map Pool.view = _
      rw [poolView_modify]
      split
      · rename_i e; subst e; cases w.pools[pl]? <;> rfl
      · rfl
    intro pl
    unfold setRecording
    dsimp only
    split
    · show poolView (recordPool { w with pools := w.pools.modify idx fun x => { x with recording := on } } idx) pl = _
      rw [(recordPool_viewSame _ idx).view, hm]
    · show poolView { (recordPool w idx) with pools := (recordPool w idx).pools.modify idx fun x => { x with recording := on } } pl = _
      rw [hm, (recordPool_viewSame _ idx).view]
  · refine ⟨hf.2.2.2.2.2.2.2.1, poolView_of_fp hf ?_, hheld, hprio⟩
    unfold recMask
    split <;> first | rfl | contradiction

/-! ### `priority_set` of a holder -/

theorem foldl_preserves_mem {α : Type} {P : World → Prop} (f : World → α → World) (l : List α)
    (h : ∀ w a, a ∈ l → P w → P (f w a)) (w : World) (hw : P w) : P (l.foldl f w) := by
  induction l generalizing w with
  | nil => exact hw
  | cons a l ih =>
    exact ih (fun w b hb => h w b (List.mem_cons_of_mem _ hb)) (f w a) (h w a List.mem_cons_self hw)

/-- during `priority_set q v` (the process's priority already changed from `old`): every pool is consistent with the
    priorities `prOf w`, except that in the pools still to be visited the record of `q` may carry the old priority -/
structure PrioInv (w : World) (q : Pid) (old : Int) (rest : List HoldRef) : Prop where
  size : w.procs.size < 2 ^ 31
  ok : ∀ pl v, poolView w pl = some v →
    ViewOK w.procs.size (prOf w) v ∨
    (ViewOK w.procs.size (fun r => if r = q then old else prOf w r) v ∧ HoldRef.pool pl ∈ rest)
  link : ∀ pl v, poolView w pl = some v → Linked w pl v.holders

theorem PrioInv.viewSame {w w' : World} {q : Pid} {old : Int} {rest : List HoldRef} (h : PrioInv w q old rest)
    (hs : ViewSame w w') : PrioInv w' q old rest where
  size := by rw [hs.size]; exact h.size
  ok pl v hv := by
    rw [hs.size, hs.prio]
    exact h.ok pl v (by rw [← hs.view]; exact hv)
  link pl v hv := hs.linked (h.link pl v (by rw [← hs.view]; exact hv))

theorem PrioInv.close {w : World} {q : Pid} {old : Int} (h : PrioInv w q old []) : PoolInv w :=
  ⟨h.size, fun pl v hv => ⟨(h.ok pl v hv).elim id (fun x => absurd x.2 (by simp)), h.link pl v hv⟩⟩

theorem PrioInv.weaken {w : World} {q : Pid} {old : Int} {a : HoldRef} {rest : List HoldRef}
    (h : PrioInv w q old (a :: rest)) (hna : ∀ pl v, a = .pool pl → poolView w pl = some v → ViewOK w.procs.size (prOf w) v) :
    PrioInv w q old rest where
  size := h.size
  ok pl v hv := by
    rcases h.ok pl v hv with ok | ⟨ok, hm⟩
    · exact Or.inl ok
    · rcases List.mem_cons.1 hm with e | e
      · exact Or.inl (hna pl v e.symm hv)
      · exact Or.inr ⟨ok, e⟩
  link := h.link

/-- the priority of a process without a record in the list does not matter -/
theorem ViewOK.of_absent {n : Nat} {pr pr' : Nat → Int} {v : PView} {q : Nat} (ok : ViewOK n pr v)
    (hpr : ∀ r, r ≠ q → pr' r = pr r) (hk : q + 1 ∉ keys (abs v.holders)) : ViewOK n pr' v := by
  refine ⟨⟨ok.wf, ok.tags, ok.pos, ?_⟩, ok.sum, ok.inCap⟩
  intro t ht
  rw [ok.prio t ht]
  refine (hpr _ ?_).symm
  intro e
  obtain ⟨pid, _, hpk⟩ := ok.tags t.key (mem_keys_of_mem ht)
  apply hk
  have : t.key = q + 1 := by omega
  rw [← this]; exact mem_keys_of_mem ht

theorem PoolInv.prioSet (w : World) (p q : Pid) (v : Int) (hi : PoolInv w) : PoolInv (execCmd w p (.prioSet q v)).1 := by
  simp only [execCmd]
  split
  · exact hi
  · rename_i hq
    have hqs : q < w.procs.size := Nat.lt_of_not_le hq
    dsimp only
    -- the priority is changed first
    have hpr1 : prOf (w.modProc q fun y => { y with prio := v }) = fun r => if r = q then v else prOf w r := by
      funext r
      unfold prOf
      rw [proc_modProc]
      by_cases hr : r = q
      · subst hr; simp [hqs]
      · simp [hr]
    have h0 : PrioInv (w.modProc q fun y => { y with prio := v }) q (w.proc q).prio (w.proc q).held := by
      have hvs : ∀ pl, poolView (w.modProc q fun y => { y with prio := v }) pl = poolView w pl := fun _ => rfl
      refine ⟨by rw [modProc_size]; exact hi.1, ?_, ?_⟩
      · intro pl v' hv'
        rw [hvs] at hv'
        obtain ⟨ok, lk⟩ := hi.2 pl v' hv'
        rw [modProc_size, hpr1]
        have hfun : (fun r => if r = q then (w.proc q).prio else if r = q then v else prOf w r) = prOf w := by
          funext r
          by_cases hr : r = q
          · subst hr; simp [prOf]
          · simp [hr]
        by_cases hk : q + 1 ∈ keys (abs v'.holders)
        · right
          rw [hfun]
          exact ⟨ok, (lk q).2 hk⟩
        · left
          exact ok.of_absent (fun r hr => by simp [hr]) hk
      · intro pl v' hv' r
        rw [hvs] at hv'
        have := modProc_held w q r (fun y => { y with prio := v }) (fun _ => rfl)
        rw [this]
        exact (hi.2 pl v' hv').2 r
    have hheld0 : ((w.modProc q fun y => { y with prio := v }).proc q).held = (w.proc q).held :=
      modProc_held _ _ _ _ (fun _ => rfl)
    have hprq0 : prOf (w.modProc q fun y => { y with prio := v }) q = v := by rw [hpr1]; simp
    generalize (w.modProc q fun y => { y with prio := v }) = w1 at h0 hheld0 hprq0 ⊢
    -- the first fold (timers and waiting lists) touches neither pools nor held lists nor priorities
    have h1 : ∀ (l : List Await) (w0 : World), PrioInv w0 q (w.proc q).prio (w.proc q).held → (w0.proc q).held = (w.proc q).held →
        prOf w0 q = v →
        PrioInv (l.foldl (fun w a =>
          match a with
          | .time h =>
            match reprioritize w.ev h v with
            | .ok ev' => { w with ev := ev' }
            | .error f => w.fail s!"priority_set: timer event not scheduled: {f}"
          | .guard g =>
            match w.guards[g]? with
            | some gd =>
              if guardEnqueued w g q then
                match HashHeap.lookup gd.q (q + 1) with
                | .ok t =>
                  match HashHeap.reprioritize guard_queue_check gd.q (q + 1) t.d v with
                  | .ok q' => setGuardQ w g q'
                  | .error f => w.fail s!"priority_set guard: {f}"
                | .error f => w.fail s!"priority_set guard lookup: {f}"
              else w
            | none => w
          | _ => w) w0) q (w.proc q).prio (w.proc q).held ∧
        ((l.foldl (fun w a =>
          match a with
          | .time h =>
            match reprioritize w.ev h v with
            | .ok ev' => { w with ev := ev' }
            | .error f => w.fail s!"priority_set: timer event not scheduled: {f}"
          | .guard g =>
            match w.guards[g]? with
            | some gd =>
              if guardEnqueued w g q then
                match HashHeap.lookup gd.q (q + 1) with
                | .ok t =>
                  match HashHeap.reprioritize guard_queue_check gd.q (q + 1) t.d v with
                  | .ok q' => setGuardQ w g q'
                  | .error f => w.fail s!"priority_set guard: {f}"
                | .error f => w.fail s!"priority_set guard lookup: {f}"
              else w
            | none => w
          | _ => w) w0).proc q).held = (w.proc q).held ∧
        prOf (l.foldl (fun w a =>
          match a with
          | .time h =>
            match reprioritize w.ev h v with
            | .ok ev' => { w with ev := ev' }
            | .error f => w.fail s!"priority_set: timer event not scheduled: {f}"
          | .guard g =>
            match w.guards[g]? with
            | some gd =>
              if guardEnqueued w g q then
                match HashHeap.lookup gd.q (q + 1) with
                | .ok t =>
                  match HashHeap.reprioritize guard_queue_check gd.q (q + 1) t.d v with
                  | .ok q' => setGuardQ w g q'
                  | .error f => w.fail s!"priority_set guard: {f}"
                | .error f => w.fail s!"priority_set guard lookup: {f}"
              else w
            | none => w
          | _ => w) w0) q = v := by
      intro l
      induction l with
      | nil => intro w0 a b c; exact ⟨a, b, c⟩
      | cons a l ih =>
        intro w0 hp0 hh0 hq0
        rw [List.foldl_cons]
        have hstep : ViewSame w0 (match a with
            | .time h =>
              match reprioritize w0.ev h v with
              | .ok ev' => { w0 with ev := ev' }
              | .error f => w0.fail s!"priority_set: timer event not scheduled: {f}"
            | .guard g =>
              match w0.guards[g]? with
              | some gd =>
                if guardEnqueued w0 g q then
                  match HashHeap.lookup gd.q (q + 1) with
                  | .ok t =>
                    match HashHeap.reprioritize guard_queue_check gd.q (q + 1) t.d v with
                    | .ok q' => setGuardQ w0 g q'
                    | .error f => w0.fail s!"priority_set guard: {f}"
                  | .error f => w0.fail s!"priority_set guard lookup: {f}"
                else w0
              | none => w0
            | _ => w0) ∧ ∀ q', ((match a with
            | .time h =>
              match reprioritize w0.ev h v with
              | .ok ev' => { w0 with ev := ev' }
              | .error f => w0.fail s!"priority_set: timer event not scheduled: {f}"
            | .guard g =>
              match w0.guards[g]? with
              | some gd =>
                if guardEnqueued w0 g q then
                  match HashHeap.lookup gd.q (q + 1) with
                  | .ok t =>
                    match HashHeap.reprioritize guard_queue_check gd.q (q + 1) t.d v with
                    | .ok q' => setGuardQ w0 g q'
                    | .error f => w0.fail s!"priority_set guard: {f}"
                  | .error f => w0.fail s!"priority_set guard lookup: {f}"
                else w0
              | none => w0
            | _ => w0).proc q').held = (w0.proc q').held := by
          constructor
          · refine ⟨?_, ?_, ?_, ?_⟩
            · (repeat' split) <;> simp
            · intro pl; unfold poolView; (repeat' split) <;> simp
            · intro q' pl; (repeat' split) <;> simp
            · funext r; unfold prOf; (repeat' split) <;> simp
          · intro q'; (repeat' split) <;> simp
        exact ih _ (hp0.viewSame hstep.1) ((hstep.2 q).trans hh0) (by rw [hstep.1.prio]; exact hq0)
    obtain ⟨hp2, hheld2, hprq2⟩ := h1 (w1.proc q).awaits w1 h0 hheld0 hprq0
    generalize (List.foldl _ w1 (w1.proc q).awaits) = w2 at hp2 hheld2 hprq2 ⊢
    rw [hheld2]
    -- the second fold: one reprioritize per pool held
    generalize (w.proc q).held = hs at hp2
    clear hheld2
    induction hs generalizing w2 with
    | nil => exact hp2.close
    | cons a rest ih =>
      rw [List.foldl_cons]
      cases a with
      | res r => exact ih _ hprq2 (hp2.weaken (fun pl v' e => by cases e))
      | pool pl =>
        dsimp only
        cases hx : w2.pools[pl]? with
        | none =>
          refine ih _ hprq2 (hp2.weaken ?_)
          intro pl' v' e hv'
          injection e with e; subst e
          unfold poolView at hv'; rw [hx] at hv'; cases hv'
        | some x =>
          dsimp only
          have hv := poolView_of_get hx
          have lk := hp2.link pl _ hv
          -- whichever priorities the list is consistent with, the reprioritize makes it consistent with the new ones
          have hre : ∀ (pr : Nat → Int), (∀ r, r ≠ q → pr r = prOf w2 r) → ViewOK w2.procs.size pr x.view →
              ∀ h', HashHeap.reprioritize holder_queue_check x.holders (q + 1) 0 v = .ok h' → q + 1 ∈ keys (abs x.holders) →
              PrioInv { w2 with pools := w2.pools.set! pl { x with holders := h' } } q (w.proc q).prio rest := by
            intro pr hpr vok h' hr hk
            have hok : HoldersOK w2.procs.size pr x.holders := vok.toHoldersOK
            obtain ⟨ok', hsum', hkeys', _⟩ := reprio_holders (pr' := prOf w2) hok hk hr
              ⟨by simpa using hprq2, fun r hr' => (hpr r (by simpa using hr')).symm⟩
            have hu := setHolders_upd hx h'
            refine ⟨hp2.size, ?_, ?_⟩
            · intro pl' v' hv'
              by_cases hpl : pl' = pl
              · subst hpl
                rw [hu.view] at hv'; cases hv'
                left
                exact ⟨ok', by show x.inUse = amounts (abs h'); rw [hsum']; exact vok.sum, vok.inCap⟩
              · rw [hu.others pl' hpl] at hv'
                rcases hp2.ok pl' v' hv' with ok | ⟨ok, hm⟩
                · exact Or.inl ok
                · rcases List.mem_cons.1 hm with e | e
                  · injection e with e; exact absurd e hpl
                  · exact Or.inr ⟨ok, e⟩
            · intro pl' v' hv'
              by_cases hpl : pl' = pl
              · subst hpl
                rw [hu.view] at hv'; cases hv'
                intro r; show _ ↔ r + 1 ∈ keys (abs h'); rw [hkeys']; exact lk r
              · rw [hu.others pl' hpl] at hv'
                exact hp2.link pl' v' hv'
          cases hr : HashHeap.reprioritize holder_queue_check x.holders (q + 1) 0 v with
          | ok h' =>
            dsimp only
            refine ih _ hprq2 ?_
            by_cases hk : q + 1 ∈ keys (abs x.holders)
            · rcases hp2.ok pl _ hv with ok | ⟨ok, _⟩
              · exact hre (prOf w2) (fun _ _ => rfl) ok h' hr hk
              · exact hre _ (fun r hr' => by simp [hr']) ok h' hr hk
            · -- no record of `q` in this pool: `reprioritize` cannot have succeeded
              exfalso
              have hwf : WF holder_queue_check x.holders := (hp2.ok pl _ hv).elim (fun o => o.wf) (fun o => o.1.wf)
              have := HashHeap.findIndex_of_not_mem hwf hk
              unfold HashHeap.reprioritize at hr
              simp [this, bind, Except.bind] at hr
          | error f =>
            dsimp only
            refine ih _ (by rw [(ViewSame.of_same (fail_same w2 _)).prio]; exact hprq2)
              (PrioInv.viewSame (hp2.weaken ?_) (ViewSame.of_same (fail_same _ _)))
            intro pl' v' e hv'
            obtain rfl : pl' = pl := by injection e with e; exact e.symm
            rw [hv] at hv'; cases hv'
            rcases hp2.ok pl' _ hv with ok | ⟨ok, _⟩
            · exact ok
            · by_cases hk : q + 1 ∈ keys (abs x.holders)
              · -- the record of `q` is there (it is stale), so `reprioritize` succeeds: contradiction
                exfalso
                have hwf : WF holder_queue_check x.holders := ok.wf
                obtain ⟨s', hrun, _⟩ := HashHeap.reprio_abs hwf hk 0 v
                rw [hrun] at hr; cases hr
              · -- without a record of `q` the two priority functions agree on this pool
                exact ok.of_absent (fun r hr' => by simp [hr']) hk

end CimbaModel.Sim
