/-
  S1 — the transport lemmas of S1Pend for predicates that do not tolerate timer, preemption or resume wake-ups
  (`Internal`: only the wake-ups the library schedules on its own behalf are allowed: event, grant, condition,
  interrupt, start, user).  Generated from the `AllButProc` family by renaming.
-/
import CimbaModel.Sim.S1Pend

namespace CimbaModel.Sim
open CimbaModel CimbaModel.Event CimbaModel.Generated
open CimbaModel.HashHeap (HTag Item Order HH)

/-- the action kinds that library calls other than `timer_add`, `preempt`, `resume`, and the process end schedule -/
structure Internal (A : Nat → Bool) : Prop where
  start : A aStart = true
  event : A aEvent = true
  res : A aRes = true
  cond : A aCond = true
  intr : A aIntr = true
  user : A aUser = true

/-- close `R w'` from `h : R w` through any composition of library steps that never wakes the waiters of a process
    end; the numeral bounds the depth -/
syntax "ei_peel " term:max term:max term:max num : tactic
open Lean in
macro_rules
  | `(tactic| ei_peel $hR $hA $h $n) => do
    if n.getNat = 0 then `(tactic| fail "ei_peel: out of fuel")
    else
      let m := Syntax.mkNumLit (toString (n.getNat - 1))
      `(tactic| first
          | with_reducible exact $h
          | (with_reducible first
              | apply ec_fail $hR
              | apply ec_wakeEventWaiters $hR (Internal.event $hA)
              | apply ec_evCancel $hR (Internal.event $hA)
              | apply ec_cancelAllFor $hR (Internal.event $hA)
              | apply ec_cancelKindFor $hR (Internal.event $hA)
              | apply ec_cancelUserAll $hR (Internal.event $hA)
              | apply ec_guardSignal $hR (And.intro (Internal.res $hA) (Internal.cond $hA))
              | apply ec_signal $hR (And.intro (Internal.res $hA) (Internal.cond $hA))
              | apply ec_guardWithdraw $hR (Internal.event $hA) (And.intro (Internal.res $hA) (Internal.cond $hA))
              | apply ec_timerCancel $hR (Internal.event $hA)
              | apply ec_timersClear $hR (Internal.event $hA)
              | apply ec_cancelAwaiteds $hR (Internal.event $hA) (And.intro (Internal.res $hA) (Internal.cond $hA))
              | apply ec_poolDropHolder $hR (And.intro (Internal.res $hA) (Internal.cond $hA))
              | apply ec_dropResources $hR (And.intro (Internal.res $hA) (Internal.cond $hA))
              | apply ec_guardWaitEnter $hR
              | apply ec_guardWaitLeave $hR (Internal.event $hA) (And.intro (Internal.res $hA) (Internal.cond $hA))
              | apply ec_poolMug $hR (Internal.intr $hA) (And.intro (Internal.res $hA) (Internal.cond $hA))
              | apply ec_emit $hR
              | apply ec_modProc $hR
              | apply ec_setGuardQ $hR
              | apply ec_setPoolInUse $hR
              | apply ec_recordRes $hR
              | apply ec_recordPool $hR
              | apply ec_recordBuf $hR
              | apply ec_recordOQ $hR
              | apply ec_recordPQ $hR
              | apply ec_guardRemove $hR
              | apply ec_setHeldAmount $hR
              | apply ec_setRecording $hR
              | apply ec_addAwait $hR
              | apply ec_removeAwait $hR
              | apply ec_removeAwaitKind $hR
              | apply ec_removeHeld $hR
              | apply ec_block $hR
              | apply ec_setVar $hR
              | apply ec_grab $hR
              | apply ec_poolUpdateRecord $hR
              | apply EvClosed.sched $hR _ _ _ _ _ _ (Internal.start $hA)
              | apply EvClosed.sched $hR _ _ _ _ _ _ (Internal.event $hA)
              | apply EvClosed.sched $hR _ _ _ _ _ _ (Internal.res $hA)
              | apply EvClosed.sched $hR _ _ _ _ _ _ (Internal.cond $hA)
              | apply EvClosed.sched $hR _ _ _ _ _ _ (Internal.intr $hA)
              | apply EvClosed.sched $hR _ _ _ _ _ _ (Internal.user $hA)
              | apply ec_mk $hR
            ) <;> ei_peel $hR $hA $h $m
          | (split <;> ei_peel $hR $hA $h $m))

section
variable {A : Nat → Bool} {R : World → Prop} (hR : EvClosed A R) (hA : Internal A)
include hR hA

theorem ei_poolLoop (w : World) (p : Pid) (pl rem initially : Nat) (preempt : Bool) (h : R w) :
    R (poolLoop w p pl rem initially preempt).1 := by
  have hupd : ∀ (w : World) n, R w → R (poolUpdateRecord w pl p n) := fun w n h => ec_poolUpdateRecord hR w pl p n h
  have hpre : ∀ (w : World) v, R w → R (recordPool (setPoolInUse w pl v) pl) :=
    fun w v h => ec_recordPool hR _ _ (ec_setPoolInUse hR _ _ _ h)
  unfold poolLoop
  split
  · exact ec_fail hR _ _ h
  · rename_i x hx
    dsimp only
    split
    · exact ec_signal hR ⟨hA.res, hA.cond⟩ _ _ (hupd _ rem (hpre _ (x.inUse + rem) h))
    · have h1 : R (if x.cap - x.inUse > 0 then
          (poolUpdateRecord (recordPool (setPoolInUse w pl (x.inUse + (x.cap - x.inUse))) pl) pl p (x.cap - x.inUse),
            rem - (x.cap - x.inUse)) else (w, rem)).1 := by
        split
        · exact hupd _ _ (hpre _ _ h)
        · exact h
      have h2 : R (if preempt = true then
          poolMug (x.holders.count + 1) (if x.cap - x.inUse > 0 then
            (poolUpdateRecord (recordPool (setPoolInUse w pl (x.inUse + (x.cap - x.inUse))) pl) pl p (x.cap - x.inUse),
              rem - (x.cap - x.inUse)) else (w, rem)).1 p pl (if x.cap - x.inUse > 0 then
            (poolUpdateRecord (recordPool (setPoolInUse w pl (x.inUse + (x.cap - x.inUse))) pl) pl p (x.cap - x.inUse),
              rem - (x.cap - x.inUse)) else (w, rem)).2
          else ((if x.cap - x.inUse > 0 then
            (poolUpdateRecord (recordPool (setPoolInUse w pl (x.inUse + (x.cap - x.inUse))) pl) pl p (x.cap - x.inUse),
              rem - (x.cap - x.inUse)) else (w, rem)).1, some (if x.cap - x.inUse > 0 then
            (poolUpdateRecord (recordPool (setPoolInUse w pl (x.inUse + (x.cap - x.inUse))) pl) pl p (x.cap - x.inUse),
              rem - (x.cap - x.inUse)) else (w, rem)).2)).1 := by
        split
        · exact ec_poolMug hR hA.intr ⟨hA.res, hA.cond⟩ _ _ _ _ _ h1
        · exact h1
      split
      · exact h2
      · exact ec_block hR _ _ _ (ec_guardWaitEnter hR _ _ _ _ h2)

theorem ei_poolRollback (w : World) (p : Pid) (pl initially : Nat) (h : R w) : R (poolRollback w p pl initially) := by
  unfold poolRollback; dsimp only; ei_peel hR hA h 30

theorem ei_bufGetLoop (w : World) (p : Pid) (b rem got : Nat) (h : R w) : R (bufGetLoop w p b rem got).1 := by
  unfold bufGetLoop; dsimp only; ei_peel hR hA h 30

theorem ei_bufPutLoop (w : World) (p : Pid) (b rem left : Nat) (h : R w) : R (bufPutLoop w p b rem left).1 := by
  unfold bufPutLoop; dsimp only; ei_peel hR hA h 30

theorem ei_oqGetLoop (w : World) (p : Pid) (q : Nat) (h : R w) : R (oqGetLoop w p q).1 := by
  unfold oqGetLoop; dsimp only; ei_peel hR hA h 30

theorem ei_oqPutLoop (w : World) (p : Pid) (q obj : Nat) (h : R w) : R (oqPutLoop w p q obj).1 := by
  unfold oqPutLoop; dsimp only; ei_peel hR hA h 30

theorem ei_pqGetLoop (w : World) (p : Pid) (k : Nat) (h : R w) : R (pqGetLoop w p k).1 := by
  unfold pqGetLoop; dsimp only; ei_peel hR hA h 30

theorem ei_pqPutLoop (w : World) (p : Pid) (k obj : Nat) (pri : Int) (v : Nat) (h : R w) :
    R (pqPutLoop w p k obj pri v).1 := by
  unfold pqPutLoop; dsimp only; ei_peel hR hA h 30

theorem ei_acquireStep (w : World) (p : Pid) (r : Nat) (h : R w) : R (acquireStep w p r).1 := by
  unfold acquireStep; ei_peel hR hA h 30

theorem ei_condSignal (w : World) (g : Nat) (h : R w) : R (condSignal w g).1 := by
  unfold condSignal
  split
  · exact h
  · split
    · exact h
    · dsimp only
      apply foldl_inv R _ (fun w t hw => ec_guardRemove hR w _ _ hw)
      exact foldl_inv R _ (fun w t hw => hR.sched _ _ _ _ _ _ hA.cond hw) _ _ h

end

/-- `ec_peel` extended with the blocking library calls -/
syntax "ei_peel2 " term:max term:max term:max num : tactic
open Lean in
macro_rules
  | `(tactic| ei_peel2 $hR $hA $h $n) => do
    if n.getNat = 0 then `(tactic| fail "ei_peel2: out of fuel")
    else
      let m := Syntax.mkNumLit (toString (n.getNat - 1))
      `(tactic| first
          | ei_peel $hR $hA $h 8
          | (with_reducible first
              | apply ei_acquireStep $hR $hA
              | apply ei_poolLoop $hR $hA
              | apply ei_poolRollback $hR $hA
              | apply ei_bufGetLoop $hR $hA
              | apply ei_bufPutLoop $hR $hA
              | apply ei_oqGetLoop $hR $hA
              | apply ei_oqPutLoop $hR $hA
              | apply ei_pqGetLoop $hR $hA
              | apply ei_pqPutLoop $hR $hA
              | apply ei_condSignal $hR $hA
              | apply ec_signal $hR (And.intro (Internal.res $hA) (Internal.cond $hA))
              | apply ec_guardWaitLeave $hR (Internal.event $hA) (And.intro (Internal.res $hA) (Internal.cond $hA))
              | apply ec_cancelKindFor $hR (Internal.event $hA)
              | apply ec_cancelUserAll $hR (Internal.event $hA)
              | apply ec_recordPool $hR
              | apply ec_recordPQ $hR
              | apply ec_setPoolInUse $hR
              | apply ec_setHeldAmount $hR
              | apply ec_removeHeld $hR
              | apply ec_mk $hR
              | apply ec_fail $hR
              | apply ec_guardRemove $hR
              | apply EvClosed.sched $hR _ _ _ _ _ _ (Internal.res $hA)
            ) <;> ei_peel2 $hR $hA $h $m
          | (split <;> ei_peel2 $hR $hA $h $m))


end CimbaModel.Sim
