/-
  S3 — `GInv`, part 5: exempting one process, `hold`, entering a guard wait.
-/
import CimbaModel.Sim.S3GInvReg

namespace CimbaModel.Sim.S3
open CimbaModel CimbaModel.Sim CimbaModel.Event CimbaModel.Generated CimbaModel.KPQ
open CimbaModel.HashHeap (HTag Item Order HH WF abs liveTags)

variable {ex : Pid → Prop} {fr : Pid → Option Frame}

theorem GInv.exempt {w : World} (hp : GInv ex fr w) (p : Pid) : GInv (exAdd ex p) fr w :=
  { hp with
    gk := fun g k hq => ⟨(hp.gk g k hq).1, (hp.gk g k hq).2.1, fun hx => (hp.gk g k hq).2.2 (fun h => hx (Or.inl h))⟩
    gfb := fun x hx => hp.gfb x (fun h => hx (Or.inl h))
    gr := fun e he hgr => ⟨(hp.gr e he hgr).1, fun hx => (hp.gr e he hgr).2 (fun h => hx (Or.inl h))⟩
    gu := fun a ha b hb h1 h2 hab hx => hp.gu a ha b hb h1 h2 hab (fun h => hx (Or.inl h))
    gc := fun e he hea hx => hp.gc e he hea (fun h => hx (Or.inl h))
    gkc := fun c g hc k hq hx => hp.gkc c g hc k hq (fun h => hx (Or.inl h))
    oth := fun e he hea hec => ⟨(hp.oth e he hea hec).1, fun hx => (hp.oth e he hea hec).2 (fun h => hx (Or.inl h))⟩ }

theorem pred_eq_iff {k p : Nat} (hk : k ≠ 0) : k - 1 = p ↔ k = p + 1 := by omega

/-- dropping the exemption of `p`: what has to hold for `p` itself -/
theorem GInv.unexempt {w : World} {p : Pid} (hp : GInv (exAdd ex p) fr w)
    (U1 : ∀ g, queued w g (p + 1) → Await.guard g ∈ (w.proc p).awaits)
    (U2 : (w.proc p).blocked ≠ fr p → guardAw w p = [] ∧ ∀ e ∈ w.ev.pending, e.item.a = aTime → e.item.c = 0 → e.item.b ≠ p + 1)
    (U3 : ∀ e ∈ w.ev.pending, isGrant e → e.item.b = p + 1 → ∃ g, Await.guard g ∈ (w.proc p).awaits ∧ ¬ queued w g (p + 1))
    (U4 : ∀ e1 ∈ w.ev.pending, ∀ e2 ∈ w.ev.pending, isGrant e1 → isGrant e2 → e1.item.b = p + 1 → e2.item.b = p + 1 → e1 = e2)
    (U5 : ∀ e ∈ w.ev.pending, e.item.a = aCond → e.item.b = p + 1 → ∃ c, fr p = some (.condWait c))
    (U6 : ∀ (c g : Nat), w.conds[c]? = some g → queued w g (p + 1) → ∃ c', fr p = some (.condWait c'))
    (U7 : ∀ e ∈ w.ev.pending, e.item.a = aTime → e.item.c = 0 → e.item.b = p + 1 → fr p = some (.hold e.key)) :
    GInv ex fr w := by
  have hsplit : ∀ x, ¬ ex x → x = p ∨ ¬ exAdd ex p x := by
    intro x hx
    by_cases hxp : x = p
    · exact Or.inl hxp
    · exact Or.inr (fun h => h.elim hx hxp)
  refine { hp with gk := ?_, gfb := ?_, gr := ?_, gu := ?_, gc := ?_, gkc := ?_, oth := ?_ }
  · intro g k hq
    obtain ⟨h1, h2, h3⟩ := hp.gk g k hq
    refine ⟨h1, h2, fun hx => ?_⟩
    rcases hsplit _ hx with h | h
    · have hk : k = p + 1 := (pred_eq_iff h1).1 h
      rw [h]; exact U1 g (hk ▸ hq)
    · exact h3 h
  · intro x hx
    rcases hsplit _ hx with h | h
    · subst h; exact U2
    · exact hp.gfb x h
  · intro e he hgr
    obtain ⟨h1, h2⟩ := hp.gr e he hgr
    refine ⟨h1, fun hx => ?_⟩
    rcases hsplit _ hx with h | h
    · have hb : e.item.b = p + 1 := (pred_eq_iff h1).1 h
      rw [h, hb]; exact U3 e he hgr hb
    · exact h2 h
  · intro a ha b hb h1 h2 hab hx
    rcases hsplit _ hx with h | h
    · have ha0 := (hp.gr a ha h1).1
      have hba : a.item.b = p + 1 := (pred_eq_iff ha0).1 h
      exact U4 a ha b hb h1 h2 hba (hab ▸ hba)
    · exact hp.gu a ha b hb h1 h2 hab h
  · intro e he hea hx
    rcases hsplit _ hx with h | h
    · have h0 := (hp.gr e he (Or.inr hea)).1
      rw [h]; exact U5 e he hea ((pred_eq_iff h0).1 h)
    · exact hp.gc e he hea h
  · intro c g hc k hq hx
    rcases hsplit _ hx with h | h
    · have h0 := (hp.gk g k hq).1
      have hk : k = p + 1 := (pred_eq_iff h0).1 h
      rw [h]; exact U6 c g hc (hk ▸ hq)
    · exact hp.gkc c g hc k hq h
  · intro e he hea hec
    obtain ⟨h1, h2⟩ := hp.oth e he hea hec
    refine ⟨h1, fun hx => ?_⟩
    rcases hsplit _ hx with h | h
    · rw [h]; exact U7 e he hea hec ((pred_eq_iff h1).1 h)
    · exact h2 h

theorem GInv.unexempt_clean {w : World} {p : Pid} (hp : GInv (exAdd ex p) fr w) (hc : Clean w p) : GInv ex fr w :=
  hp.unexempt (fun g hq => absurd hq (hc.nq g)) (fun _ => ⟨hc.aw, hc.nt⟩)
    (fun e he hgr hb => absurd hb (hc.ng e he hgr)) (fun a ha _ _ h1 _ hba _ => absurd hba (hc.ng a ha h1))
    (fun e he hea hb => absurd hb (hc.ng e he (Or.inr hea))) (fun _ g _ hq => absurd hq (hc.nq g))
    (fun e he hea hec hb => absurd hb (hc.nt e he hea hec))

/-- the frame of an exempt process can be set freely, as long as its guard awaitables fit -/
theorem GInv.setFr_ex {w : World} {p : Pid} (hp : GInv (exAdd ex p) fr w) (x : Option Frame)
    (hga : guardAw w p = [] ∨ ∃ g f, x = some f ∧ FrameOn w f g ∧ guardAw w p = [.guard g]) :
    GInv (exAdd ex p) (setFrame fr p x) w := by
  have hne : ∀ y, ¬ exAdd ex p y → setFrame fr p x y = fr y := fun y hy => setFrame_ne fr x (fun h => hy (Or.inr h))
  refine { hp with ga := ?_, gfb := ?_, gc := ?_, gkc := ?_, oth := ?_ }
  · intro y
    by_cases hy : y = p
    · subst hy; rw [setFrame_self]; exact hga
    · rw [setFrame_ne fr x hy]; exact hp.ga y
  · intro y hxy hbl; rw [hne y hxy] at hbl; exact hp.gfb y hxy hbl
  · intro e he hea hxe; rw [hne _ hxe]; exact hp.gc e he hea hxe
  · intro c g hcg k hq hxk; rw [hne _ hxk]; exact hp.gkc c g hcg k hq hxk
  · intro e he hea hec
    obtain ⟨h1, h2⟩ := hp.oth e he hea hec
    exact ⟨h1, fun hxe => by rw [hne _ hxe]; exact h2 hxe⟩

/-- any event addressed to an exempt process may be scheduled (interrupts etc. must not carry the success code) -/
theorem GInv.pushEv_ex {w : World} {p : Pid} (hp : GInv (exAdd ex p) fr w) (a : Nat) (sig t pri : Int) (ht : w.now ≤ t)
    (hnz : encSig sig = 0 → a ≠ aIntr ∧ a ≠ aResume ∧ a ≠ aPreempt) :
    GInv (exAdd ex p) fr (pushEv w a (p + 1) sig t pri) := by
  have hnew : ∀ e ∈ (pushEv w a (p + 1) sig t pri).ev.pending,
      e = mkEv (w.ev.counter + 1) a (p + 1) sig t pri ∨ e ∈ w.ev.pending := by
    intro e he; simpa using he
  have hexp : exAdd ex p ((mkEv (w.ev.counter + 1) a (p + 1) sig t pri).item.b - 1) := Or.inr (by simp [mkEv])
  refine { ei := pushEv_evinv _ _ _ _ _ ht hp.ei, gw := hp.gw, gsz := hp.gsz, gk := hp.gk, ga := hp.ga,
           gfb := ?_, gr := ?_, gu := ?_, gc := ?_, gkc := hp.gkc, nz := ?_, oth := ?_, cl := ?_ }
  · intro x hx hbl
    obtain ⟨h1, h2⟩ := hp.gfb x hx hbl
    refine ⟨h1, fun e he hea hec => ?_⟩
    rcases hnew e he with rfl | he
    · simp only [mkEv]; intro h
      exact hx (Or.inr (Nat.add_right_cancel h).symm)
    · exact h2 e he hea hec
  · intro e he hgr
    rcases hnew e he with rfl | he
    · exact ⟨by simp [mkEv], fun hx => absurd hexp hx⟩
    · exact hp.gr e he hgr
  · intro e1 he1 e2 he2 h1 h2 hb hx
    rcases hnew e1 he1 with rfl | he1
    · exact absurd hexp hx
    · rcases hnew e2 he2 with rfl | he2
      · exact absurd (hb ▸ hexp) hx
      · exact hp.gu e1 he1 e2 he2 h1 h2 hb hx
  · intro e he hea hx
    rcases hnew e he with rfl | he
    · exact absurd hexp hx
    · exact hp.gc e he hea hx
  · intro e he hec
    rcases hnew e he with rfl | he
    · exact hnz hec
    · exact hp.nz e he hec
  · intro e he hea hec
    rcases hnew e he with rfl | he
    · exact ⟨by simp [mkEv], fun hx => absurd hexp hx⟩
    · exact hp.oth e he hea hec
  · intro e he
    rcases hnew e he with rfl | he
    · exact encSig_lt sig
    · exact hp.cl e he


/-! ### hold -/

theorem block_addAwait_proc (w : World) (p : Pid) (a : Await) (f : Frame) (hlt : p < w.procs.size) (x : Pid) :
    ((block (addAwait w p a) p f).1.proc x).awaits = (if x = p then a :: (w.proc x).awaits else (w.proc x).awaits) ∧
    ((block (addAwait w p a) p f).1.proc x).blocked = (if x = p then some f else (w.proc x).blocked) := by
  unfold block addAwait
  simp only [modProc_proc, modProc_procs_size, hlt, and_true]
  by_cases h : x = p <;> simp [h]

/-- `hold d` by a clean, existing, non-exempt process -/
theorem GInv.cmd_hold {w : World} (hp : GInv ex fr w) {p : Pid} (d : Int) (hx : ¬ ex p) (hfr : fr p = none)
    (hlt : p < w.procs.size) :
    GInv ex (setFrame fr p (some (.hold (timerAdd w p d sigSuccess).2))) (execCmd w p (.hold d)).1 := by
  have hc := hp.clean_of_none hx hfr
  have hE := hp.exempt p
  simp only [execCmd, Sim.timerAdd]
  rcases sched_cases w aTime (p + 1) sigSuccess (w.now + d) (w.proc p).prio with ⟨ht, he⟩ | ⟨_, m, he⟩
  · rw [he]
    -- the world, step by step, with p exempt
    have h1 := hE.pushEv_ex aTime sigSuccess (w.now + d) (w.proc p).prio ht (fun _ => by decide)
    have h2 := h1.addAwait_other p (.time (w.ev.counter + 1)) rfl
    have hga2 : guardAw (addAwait (pushEv w aTime (p + 1) sigSuccess (w.now + d) (w.proc p).prio) p (.time (w.ev.counter + 1))) p = [] := by
      unfold guardAw addAwait
      rw [modProc_proc]; split
      · simp only [List.filter_cons, isGuardA]; exact hc.aw
      · exact hc.aw
    have h3 := h2.setFr_ex (some (.hold (w.ev.counter + 1))) (Or.inl hga2)
    have h4 := h3.modBlocked p (some (.hold (w.ev.counter + 1))) (Or.inl (Or.inr rfl))
    have hpr := block_addAwait_proc (pushEv w aTime (p + 1) sigSuccess (w.now + d) (w.proc p).prio) p
      (.time (w.ev.counter + 1)) (.hold (w.ev.counter + 1)) hlt
    have hfin : (block (addAwait (pushEv w aTime (p + 1) sigSuccess (w.now + d) (w.proc p).prio) p (.time (w.ev.counter + 1))) p
        (.hold (w.ev.counter + 1))).1 =
        (addAwait (pushEv w aTime (p + 1) sigSuccess (w.now + d) (w.proc p).prio) p (.time (w.ev.counter + 1))).modProc p
          fun x => { x with blocked := some (.hold (w.ev.counter + 1)) } := rfl
    rw [hfin]
    have hgaF : guardAw ((addAwait (pushEv w aTime (p + 1) sigSuccess (w.now + d) (w.proc p).prio) p (.time (w.ev.counter + 1))).modProc p
          fun x => { x with blocked := some (.hold (w.ev.counter + 1)) }) p = [] := by
      unfold guardAw; rw [← hfin, (hpr p).1, if_pos rfl]
      simp only [List.filter_cons, isGuardA]; exact hc.aw
    have hnewev : ∀ e ∈ w.ev.pending, e ∈ (pushEv w aTime (p + 1) sigSuccess (w.now + d) (w.proc p).prio).ev.pending :=
      fun e he => List.mem_cons_of_mem _ he
    refine h4.unexempt ?_ ?_ ?_ ?_ ?_ ?_ ?_
    · intro g hq; exact absurd hq (hc.nq g)
    · intro hb; exfalso; apply hb
      rw [← hfin, (hpr p).2, if_pos rfl, setFrame_self]
    · intro e he hgr hb
      have he'' : e ∈ mkEv (w.ev.counter + 1) aTime (p + 1) sigSuccess (w.now + d) (w.proc p).prio :: w.ev.pending := he
      rcases List.mem_cons.1 he'' with rfl | he'
      · rcases hgr with ⟨h, _⟩ | h <;> simp [mkEv] at h <;> exact absurd h (by decide)
      · exact absurd hb (hc.ng e he' hgr)
    · intro a ha b hb h1' _ hba _
      have ha'' : a ∈ mkEv (w.ev.counter + 1) aTime (p + 1) sigSuccess (w.now + d) (w.proc p).prio :: w.ev.pending := ha
      rcases List.mem_cons.1 ha'' with rfl | ha'
      · rcases h1' with ⟨h, _⟩ | h <;> simp [mkEv] at h <;> exact absurd h (by decide)
      · exact absurd hba (hc.ng a ha' h1')
    · intro e he hea hb
      have he'' : e ∈ mkEv (w.ev.counter + 1) aTime (p + 1) sigSuccess (w.now + d) (w.proc p).prio :: w.ev.pending := he
      rcases List.mem_cons.1 he'' with rfl | he'
      · simp [mkEv] at hea; exact absurd hea (by decide)
      · exact absurd hb (hc.ng e he' (Or.inr hea))
    · intro c g _ hq; exact absurd hq (hc.nq g)
    · intro e he hea hec hb
      have he'' : e ∈ mkEv (w.ev.counter + 1) aTime (p + 1) sigSuccess (w.now + d) (w.proc p).prio :: w.ev.pending := he
      rcases List.mem_cons.1 he'' with rfl | he'
      · rw [setFrame_self]; rfl
      · exact absurd hb (hc.nt e he' hea hec)
  · rw [he]
    have h1 := hE.fail m
    have h2 := h1.addAwait_other p (.time 0) rfl
    have hga2 : guardAw (addAwait (w.fail m) p (.time 0)) p = [] := by
      unfold guardAw addAwait
      rw [modProc_proc]; split
      · simp only [List.filter_cons, isGuardA, fail_proc]; exact hc.aw
      · simp only [fail_proc]; exact hc.aw
    have h3 := h2.setFr_ex (some (.hold 0)) (Or.inl hga2)
    have h4 := h3.modBlocked p (some (.hold 0)) (Or.inl (Or.inr rfl))
    have hlt' : p < (w.fail m).procs.size := by simpa using hlt
    have hpr := block_addAwait_proc (w.fail m) p (.time 0) (.hold 0) hlt'
    have hfin : (block (addAwait (w.fail m) p (.time 0)) p (.hold 0)).1 =
        (addAwait (w.fail m) p (.time 0)).modProc p fun x => { x with blocked := some (.hold 0) } := rfl
    rw [hfin]
    have hgF : ((addAwait (w.fail m) p (.time 0)).modProc p fun x => { x with blocked := some (.hold 0) }).guards = w.guards := by
      simp [addAwait]
    have hevF : ((addAwait (w.fail m) p (.time 0)).modProc p fun x => { x with blocked := some (.hold 0) }).ev = w.ev := by
      simp [addAwait]
    refine h4.unexempt ?_ ?_ ?_ ?_ ?_ ?_ ?_
    · intro g hq; exact absurd ((queued_congr hgF g _).1 hq) (hc.nq g)
    · intro hb; exfalso; apply hb
      rw [← hfin, (hpr p).2, if_pos rfl, setFrame_self]
    · intro e he hgr hb; rw [hevF] at he; exact absurd hb (hc.ng e he hgr)
    · intro a ha b hb h1' _ hba _; rw [hevF] at ha; exact absurd hba (hc.ng a ha h1')
    · intro e he hea hb; rw [hevF] at he; exact absurd hb (hc.ng e he (Or.inr hea))
    · intro c g _ hq; exact absurd ((queued_congr hgF g _).1 hq) (hc.nq g)
    · intro e he hea hec hb; rw [hevF] at he; exact absurd hb (hc.nt e he hea hec)


/-! ### entering a guard wait -/

theorem nodup_bounded_length : ∀ (n : Nat) (l : List Nat), l.Nodup → (∀ k ∈ l, 1 ≤ k ∧ k ≤ n) → l.length ≤ n := by
  intro n
  induction n with
  | zero =>
    intro l _ hb
    cases l with
    | nil => simp
    | cons x xs => have := hb x List.mem_cons_self; omega
  | succ n ih =>
    intro l hnd hb
    -- remove n+1 from l
    have h1 : (l.filter (· ≠ n + 1)).length ≤ n := by
      apply ih
      · exact List.Nodup.sublist List.filter_sublist hnd
      · intro k hk
        have hk' := List.mem_filter.1 hk
        have := hb k hk'.1
        have hne : k ≠ n + 1 := by simpa using hk'.2
        omega
    have h2 : l.length ≤ (l.filter (· ≠ n + 1)).length + 1 := by
      clear h1 hb ih
      induction l with
      | nil => simp
      | cons x xs ihx =>
        have hn := List.nodup_cons.1 hnd
        by_cases hx : x = n + 1
        · subst hx
          have : xs.filter (· ≠ n + 1) = xs := by
            apply List.filter_eq_self.2
            intro a ha
            have : a ≠ n + 1 := fun h => hn.1 (h ▸ ha)
            simpa using this
          rw [List.filter_cons_of_neg (by simp), this]
          simp
        · have := ihx hn.2
          rw [List.filter_cons_of_pos (by simpa using hx)]
          simp only [List.length_cons]; omega
    omega

/-- the waiting list of a guard never has more entries than there are processes -/
theorem GInv.count_le {w : World} (hp : GInv ex fr w) {g : Nat} {gd : Guard} (hg : w.guards[g]? = some gd) :
    gd.q.count ≤ w.procs.size := by
  rw [← HashHeap.abs_length]
  have : (abs gd.q).length = (keys (abs gd.q)).length := by simp [keys]
  rw [this]
  apply nodup_bounded_length _ _ (hp.gw g gd hg).keys_nodup
  intro k hk
  have := hp.gk g k ⟨gd, hg, hk⟩
  exact ⟨by omega, this.2.1⟩

theorem queued_set! {w : World} {g : Nat} {gd : Guard} (hg : w.guards[g]? = some gd) (gd' : Guard) (g' k : Nat) :
    queued { w with guards := w.guards.set! g gd' } g' k ↔ if g' = g then k ∈ keys (abs gd'.q) else queued w g' k := by
  have hsz := guards_lt_of_some' hg
  unfold queued
  simp only [Array.set!_eq_setIfInBounds, Array.getElem?_setIfInBounds]
  by_cases h : g' = g
  · subst h
    simp only [if_true, hsz]
    constructor
    · rintro ⟨x, h1, h2⟩; cases h1; exact h2
    · intro h2; exact ⟨_, rfl, h2⟩
  · have : ¬ g = g' := fun e => h e.symm
    simp only [this, if_false, h]
where
  guards_lt_of_some' {w : World} {g : Nat} {gd : Guard} (hg : w.guards[g]? = some gd) : g < w.guards.size := by
    rcases Nat.lt_or_ge g w.guards.size with h | h
    · exact h
    · rw [Array.getElem?_eq_none h] at hg; cases hg

/-- an exempt process is put on a waiting list -/
theorem GInv.enqueueEx {w : World} {p : Pid} (hp : GInv (exAdd ex p) fr w) {g : Nat} {gd : Guard} (hg : w.guards[g]? = some gd)
    (gd' : Guard) (hwf : GWF gd'.q) (hlt : p < w.procs.size)
    (hkeys : ∀ k, k ∈ keys (abs gd'.q) ↔ k = p + 1 ∨ k ∈ keys (abs gd.q)) :
    GInv (exAdd ex p) fr { w with guards := w.guards.set! g gd' } := by
  have hq : ∀ g' k, queued { w with guards := w.guards.set! g gd' } g' k → k = p + 1 ∨ queued w g' k := by
    intro g' k h
    rw [queued_set! hg] at h
    split at h
    · rename_i hgg; subst hgg
      rcases (hkeys k).1 h with h' | h'
      · exact Or.inl h'
      · exact Or.inr ⟨gd, hg, h'⟩
    · exact Or.inr h
  have hexp : exAdd ex p (p + 1 - 1) := Or.inr (by simp)
  refine { hp with gw := ?_, gk := ?_, gr := ?_, gkc := ?_ }
  · intro g' gd'' h'
    simp only [Array.set!_eq_setIfInBounds, Array.getElem?_setIfInBounds] at h'
    split at h'
    · split at h'
      · cases h'; exact hwf
      · cases h'
    · exact hp.gw g' gd'' h'
  · intro g' k h
    rcases hq g' k h with rfl | h'
    · exact ⟨Nat.succ_ne_zero p, hlt, fun hx => absurd hexp hx⟩
    · exact hp.gk g' k h'
  · intro e he hgr
    obtain ⟨h1, h2⟩ := hp.gr e he hgr
    refine ⟨h1, fun hx => ?_⟩
    obtain ⟨g', h3, h4⟩ := h2 hx
    refine ⟨g', h3, fun hqq => ?_⟩
    rcases hq g' _ hqq with h' | h'
    · exact hx (h' ▸ hexp)
    · exact h4 h'
  · intro c g' hc k h hx
    rcases hq g' k h with rfl | h'
    · exact absurd hexp hx
    · exact hp.gkc c g' hc k h' hx

/-- … and gets the RESOURCE awaitable -/
theorem GInv.addGuardAwaitEx {w : World} {p : Pid} (hp : GInv (exAdd ex p) fr w) (g : Nat) (f : Frame)
    (hfr : fr p = some f) (hgf : FrameOn w f g) (haw : guardAw w p = []) (hlt : p < w.procs.size) :
    GInv (exAdd ex p) fr (addAwait w p (.guard g)) := by
  have hpr : ∀ x, ((addAwait w p (.guard g)).proc x).awaits = if x = p then .guard g :: (w.proc x).awaits else (w.proc x).awaits := by
    intro x; unfold addAwait; rw [modProc_proc]
    by_cases hx : x = p
    · subst hx; simp [hlt]
    · simp [hx]
  have hbl : ∀ x, ((addAwait w p (.guard g)).proc x).blocked = (w.proc x).blocked := by
    intro x; unfold addAwait; rw [modProc_proc]; split
    · rename_i h; rw [h.1]
    · rfl
  have hsub : ∀ x a, a ∈ (w.proc x).awaits → a ∈ ((addAwait w p (.guard g)).proc x).awaits := by
    intro x a ha; rw [hpr]; split
    · exact List.mem_cons_of_mem _ ha
    · exact ha
  refine { hp with gsz := by simpa [addAwait] using hp.gsz, gk := ?_, ga := ?_, gfb := ?_, gr := ?_ }
  · intro g' k hq
    obtain ⟨h1, h2, h3⟩ := hp.gk g' k hq
    exact ⟨h1, by simpa [addAwait] using h2, fun hx => hsub _ _ (h3 hx)⟩
  · intro x
    unfold guardAw; rw [hpr]
    by_cases hx : x = p
    · subst hx
      right
      refine ⟨g, f, hfr, hgf, ?_⟩
      simp only [if_true, List.filter_cons, isGuardA]
      have : (w.proc x).awaits.filter isGuardA = [] := haw
      rw [this]
    · rw [if_neg hx]; exact hp.ga x
  · intro x hx hb
    have hxp : x ≠ p := fun h => hx (Or.inr h)
    rw [hbl] at hb
    unfold guardAw; rw [hpr, if_neg hxp]
    exact hp.gfb x hx hb
  · intro e he hgr
    obtain ⟨h1, h2⟩ := hp.gr e he hgr
    refine ⟨h1, fun hx => ?_⟩
    obtain ⟨g', h3, h4⟩ := h2 hx
    exact ⟨g', hsub _ _ h3, h4⟩


/-- the guard record after the caller has been enqueued -/
def enterGuard (gd : Guard) (q' : HH) (p : Pid) (d : Demand) : Guard :=
  { gd with q := q', demands := (p + 1, d) :: gd.demands.filter (·.1 ≠ p + 1) }

/-- entering a guard wait and suspending: the caller (clean, existing, not exempt) is enqueued on `g`, awaits `g`, and its
    frame is the guard-wait frame `f`; for the guard of a condition `f` must be `cond_wait` -/
theorem GInv.enterBlock {w : World} (hp : GInv ex fr w) {p : Pid} (g : Nat) (d : Demand) (f : Frame) (hx : ¬ ex p)
    (hfr : fr p = none) (hlt : p < w.procs.size) (hgf : FrameOn w f g)
    (hcond : ∀ c : Nat, w.conds[c]? = some g → ∃ c', f = .condWait c') :
    GInv ex (setFrame fr p (some f)) (block (guardWaitEnter w g p d) p f).1 := by
  have hc := hp.clean_of_none hx hfr
  cases hg : w.guards[g]? with
  | none =>
    have : guardWaitEnter w g p d = w.fail "no such guard" := by unfold guardWaitEnter; rw [hg]
    rw [this]
    exact (hp.fail _).block_fst p f hx hfr
  | some gd =>
    have hwf := hp.gw g gd hg
    have h64 : p + 1 < 2 ^ 64 :=
      Nat.lt_of_le_of_lt (show p + 1 ≤ w.procs.size from hlt) (Nat.lt_trans hp.gsz (by decide))
    have hfresh : p + 1 ∉ keys (abs gd.q) := fun hk => hc.nq g ⟨gd, hg, hk⟩
    have hroom : gd.q.count < 2 ^ gd.q.exp ∨ gd.q.exp < 31 := by
      by_cases he : gd.q.exp < 31
      · exact Or.inr he
      · left
        have h31 : gd.q.exp = 31 := by have := hwf.expLe; omega
        rw [h31]
        exact Nat.lt_of_le_of_lt (hp.count_le hg) hp.gsz
    obtain ⟨q', _, hwf', hperm, heq⟩ := guardWaitEnter_spec hg hwf p d h64 hfresh hroom
    rw [heq]
    unfold enterWorld
    have hkeys : ∀ k, k ∈ keys (abs q') ↔ k = p + 1 ∨ k ∈ keys (abs gd.q) := by
      intro k
      have : (keys (abs q')).Perm ((p + 1) :: keys (abs gd.q)) := by
        have := hperm.map (·.key); simpa [keys] using this
      rw [this.mem_iff]; simp
    -- the chain, with p exempt
    have h1 := (hp.exempt p).setFr_ex (some f) (Or.inl hc.aw)
    have h2 := h1.enqueueEx hg (enterGuard gd q' p d) hwf' hlt hkeys
    have h3 := h2.addGuardAwaitEx g f (setFrame_self _ _ _) hgf hc.aw hlt
    have h4 := h3.modBlocked p (some f) (Or.inl (Or.inr rfl))
    have hpr := block_addAwait_proc { w with guards := w.guards.set! g (enterGuard gd q' p d) } p (.guard g) f hlt
    have hqF : ∀ g' k, queued ((addAwait { w with guards := w.guards.set! g (enterGuard gd q' p d) } p (.guard g)).modProc p
            fun x => { x with blocked := some f }) g' k ↔
        if g' = g then (k = p + 1 ∨ k ∈ keys (abs gd.q)) else queued w g' k := by
      intro g' k
      have := queued_set! hg (enterGuard gd q' p d) g' k
      rw [← hkeys k]
      exact this
    refine h4.unexempt ?_ ?_ ?_ ?_ ?_ ?_ ?_
    · intro g' hq
      rw [hqF] at hq
      split at hq
      · rename_i hgg; subst hgg
        show Await.guard g' ∈ ((block _ p f).1.proc p).awaits
        rw [(hpr p).1, if_pos rfl]; exact List.mem_cons_self
      · exact absurd hq (hc.nq g')
    · intro hb; exfalso; apply hb
      show ((block _ p f).1.proc p).blocked = _
      rw [(hpr p).2, if_pos rfl, setFrame_self]
    · intro e he hgr hb; exact absurd hb (hc.ng e he hgr)
    · intro a ha b hb h1' _ hba _; exact absurd hba (hc.ng a ha h1')
    · intro e he hea hb; exact absurd hb (hc.ng e he (Or.inr hea))
    · intro c g' hcg hq
      rw [hqF] at hq
      split at hq
      · rename_i hgg; subst hgg
        obtain ⟨c', hc'⟩ := hcond c hcg
        exact ⟨c', by rw [setFrame_self, hc']⟩
      · exact absurd hq (hc.nq g')
    · intro e he hea hec hb; exact absurd hb (hc.nt e he hea hec)

end CimbaModel.Sim.S3
