/-
  S2 — resource pools (C07), part 1: the view of a pool that matters (capacity, amount in use, holder list), the
  invariant, and what each primitive does to the view and to the `held` lists.
-/
import CimbaModel.Sim.S2Buf
import CimbaModel.Sim.S2HH

namespace CimbaModel.Sim
open CimbaModel CimbaModel.Event CimbaModel.Generated CimbaModel.KPQ
open CimbaModel.HashHeap (HTag Item Order HH WF abs amounts amountOf)

structure PView where
  cap : Nat
  inUse : Nat
  holders : HH

def Pool.view (x : Pool) : PView := ⟨x.cap, x.inUse, x.holders⟩

def poolView (w : World) (pl : Nat) : Option PView := w.pools[pl]?.map Pool.view

/-- the priority of every process -/
def prOf (w : World) : Nat → Int := fun q => (w.proc q).prio

/-- the holder list is a well-formed hashheap whose keys are process ids + 1 (`pr` = the processes' priorities) -/
structure HoldersOK (n : Nat) (pr : Nat → Int) (h : HH) : Prop where
  wf : WF holder_queue_check h
  tags : ∀ k ∈ keys (abs h), ∃ pid, pid < n ∧ k = pid + 1
  /-- nobody is recorded as holding nothing -/
  pos : ∀ t ∈ abs h, 0 < t.item.b
  /-- a record carries the priority of the process it belongs to -/
  prio : ∀ t ∈ abs h, t.i = pr (t.key - 1)

structure ViewOK (n : Nat) (pr : Nat → Int) (v : PView) : Prop extends HoldersOK n pr v.holders where
  /-- the amount in use is the sum of the amounts held by the individual processes -/
  sum : v.inUse = amounts (abs v.holders)
  inCap : v.inUse ≤ v.cap

/-- process `q` lists pool `pl` among its held objects exactly when it has a record in the pool's holder list -/
def Linked (w : World) (pl : Nat) (h : HH) : Prop :=
  ∀ q, HoldRef.pool pl ∈ (w.proc q).held ↔ q + 1 ∈ keys (abs h)

def PoolInv (w : World) : Prop :=
  w.procs.size < 2 ^ 31 ∧
  ∀ pl v, poolView w pl = some v → ViewOK w.procs.size (prOf w) v ∧ Linked w pl v.holders

/-- the amount process `p` holds of pool `pl`, read off the abstraction -/
def heldOf (w : World) (pl : Nat) (p : Pid) : Nat :=
  match poolView w pl with
  | some v => amountOf (abs v.holders) (p + 1)
  | none => 0

/-! ### the view under array updates -/

theorem poolView_set {w : World} {pl : Nat} {x : Pool} (hx : w.pools[pl]? = some x) (y : Pool) (pl' : Nat) :
    ((w.pools.set! pl y)[pl']?).map Pool.view = if pl' = pl then some y.view else poolView w pl' := by
  have hlt : pl < w.pools.size := (Array.getElem?_eq_some_iff.1 hx).1
  rw [Array.set!_eq_setIfInBounds, Array.getElem?_setIfInBounds]
  by_cases h : pl' = pl
  · subst h; simp [hlt]
  · have : ¬ pl = pl' := fun e => h e.symm
    simp [h, this, poolView]

theorem poolView_modify (w : World) (pl : Nat) (f : Pool → Pool) (pl' : Nat) :
    ((w.pools.modify pl f)[pl']?).map Pool.view =
      if pl' = pl then (w.pools[pl]?).map (fun x => (f x).view) else poolView w pl' := by
  rw [Array.getElem?_modify]
  by_cases h : pl' = pl
  · subst h; simp; rfl
  · have : ¬ pl = pl' := fun e => h e.symm
    simp [h, this, poolView]

/-! ### "only pool `pl` changed, its view is now `v'`" -/

structure PoolUpd (w w' : World) (pl : Nat) (v' : PView) : Prop where
  size : w'.procs.size = w.procs.size
  view : poolView w' pl = some v'
  others : ∀ pl', pl' ≠ pl → poolView w' pl' = poolView w pl'
  heldOthers : ∀ q pl', pl' ≠ pl → (HoldRef.pool pl' ∈ (w'.proc q).held ↔ HoldRef.pool pl' ∈ (w.proc q).held)
  prio : prOf w' = prOf w

theorem PoolUpd.refl {w : World} {pl : Nat} {v : PView} (h : poolView w pl = some v) : PoolUpd w w pl v :=
  ⟨rfl, h, fun _ _ => rfl, fun _ _ _ => Iff.rfl, rfl⟩

theorem PoolUpd.trans {a b c : World} {pl : Nat} {v1 v2 : PView} (h1 : PoolUpd a b pl v1) (h2 : PoolUpd b c pl v2) :
    PoolUpd a c pl v2 :=
  ⟨h2.size.trans h1.size, h2.view, fun pl' hne => (h2.others pl' hne).trans (h1.others pl' hne),
    fun q pl' hne => (h2.heldOthers q pl' hne).trans (h1.heldOthers q pl' hne), h2.prio.trans h1.prio⟩

/-- a step that touches neither the pools nor the held lists -/
theorem prOf_of_fp {m : Mask} {w w' : World} (h : Fp m w w') (hpr : m.prio = false) : prOf w' = prOf w :=
  funext fun q => h.2.2.2.2.2.2.2.2.2.2 hpr q

theorem PoolUpd.of_fp {m : Mask} {w w' : World} (h : Fp m w w') (hp : m.pools = false) (hh : m.held = false)
    (hpr : m.prio = false) {pl : Nat} {v : PView} (hv : poolView w pl = some v) :
    PoolUpd w w' pl v ∧ ∀ q, (w'.proc q).held = (w.proc q).held := by
  refine ⟨⟨h.2.2.2.2.2.2.2.1, ?_, ?_, ?_, prOf_of_fp h hpr⟩, fun q => h.2.2.2.2.2.2.2.2.1 hh q⟩
  · unfold poolView; rw [h.2.1 hp]; exact hv
  · intro pl' _; unfold poolView; rw [h.2.1 hp]
  · intro q pl' _; rw [h.2.2.2.2.2.2.2.2.1 hh q]

theorem poolView_of_fp {m : Mask} {w w' : World} (h : Fp m w w') (hp : m.pools = false) (pl : Nat) :
    poolView w' pl = poolView w pl := by
  unfold poolView; rw [h.2.1 hp]

/-- closing a composite operation on pool `pl` -/
theorem PoolInv.of_upd {w w' : World} {pl : Nat} {v' : PView} (hi : PoolInv w) (hu : PoolUpd w w' pl v')
    (hv : ViewOK w.procs.size (prOf w) v') (hl : Linked w' pl v'.holders) : PoolInv w' := by
  refine ⟨by rw [hu.size]; exact hi.1, ?_⟩
  intro pl' v hpv
  by_cases hpl : pl' = pl
  · subst hpl
    rw [hu.view] at hpv; cases hpv
    rw [hu.size, hu.prio]
    exact ⟨hv, hl⟩
  · rw [hu.others pl' hpl] at hpv
    obtain ⟨ok, lk⟩ := hi.2 pl' v hpv
    rw [hu.size, hu.prio]
    exact ⟨ok, fun q => (hu.heldOthers q pl' hpl).trans (lk q)⟩

theorem PoolInv.of_fp {m : Mask} {w w' : World} (h : Fp m w w') (hp : m.pools = false) (hh : m.held = false)
    (hi : PoolInv w) (hpr : m.prio = false := by rfl) : PoolInv w' := by
  refine ⟨by rw [h.2.2.2.2.2.2.2.1]; exact hi.1, ?_⟩
  intro pl v hpv
  rw [poolView_of_fp h hp] at hpv
  obtain ⟨ok, lk⟩ := hi.2 pl v hpv
  rw [h.2.2.2.2.2.2.2.1, prOf_of_fp h hpr]
  exact ⟨ok, fun q => by rw [h.2.2.2.2.2.2.2.2.1 hh q]; exact lk q⟩

/-! ### counting: a holder list has at most as many entries as there are processes -/

theorem HoldersOK.count_le {n : Nat} {pr : Nat → Int} {h : HH} (ok : HoldersOK n pr h) : h.count ≤ n := by
  rw [← HashHeap.abs_length]
  have hl : (abs h).length = (keys (abs h)).length := by simp [keys]
  rw [hl]
  have hsub : keys (abs h) ⊆ List.range' 1 n := by
    intro k hk
    obtain ⟨pid, hp, rfl⟩ := ok.tags k hk
    rw [List.mem_range']
    exact ⟨pid, hp, by omega⟩
  have := List.Nodup.length_le_of_subset ok.wf.keys_nodup hsub
  simpa using this

theorem HoldersOK.room {n : Nat} {pr : Nat → Int} {h : HH} (ok : HoldersOK n pr h) (hn : n < 2 ^ 31) : h.count < 2 ^ h.exp ∨ h.exp < 31 := by
  by_cases he : h.exp < 31
  · exact Or.inr he
  · left
    have := ok.wf.expLe
    have h31 : h.exp = 31 := by omega
    rw [h31]
    have := ok.count_le
    omega

/-! ### `heldAmount` is the abstract amount -/

theorem heldAmount_eq {w : World} {pl : Nat} {v : PView} (hv : poolView w pl = some v) (hwf : WF holder_queue_check v.holders)
    (p : Pid) : heldAmount w pl p = amountOf (abs v.holders) (p + 1) := by
  unfold heldAmount
  unfold poolView at hv
  cases hx : w.pools[pl]? with
  | none => rw [hx] at hv; cases hv
  | some x =>
    rw [hx] at hv
    simp only [Option.map_some, Option.some.injEq] at hv
    subst hv
    simp only [Pool.view] at hwf ⊢
    by_cases hk : p + 1 ∈ keys (abs x.holders)
    · obtain ⟨i, hi, hki⟩ := (HashHeap.mem_keys_abs x.holders (p + 1)).1 hk
      have hfi := HashHeap.findIndex_of_mem hwf hi
      rw [hki] at hfi
      have hc : x.holders.count ≠ 0 := by have := hi.1; have := hi.2; omega
      rw [if_neg hc, hfi]
      have hmem : KPQ.norm (x.holders.tag i) ∈ abs x.holders := (HashHeap.mem_abs _ _).2 ⟨i, hi, rfl⟩
      have := HashHeap.amountOf_of_mem hwf.keys_nodup hmem
      simp only [KPQ.norm] at this
      rw [hki] at this
      rw [this]
      have hi0 : i ≠ 0 := by have := hi.1; omega
      cases i with
      | zero => exact absurd rfl hi0
      | succ j => rfl
    · rw [HashHeap.amountOf_of_not_mem hk]
      split
      · rfl
      · rw [HashHeap.findIndex_of_not_mem hwf hk]
        rfl

/-! ### the holder-list operations, on the abstraction -/

theorem mem_keys_of_mem {q : KPQ} {t : HTag} (h : t ∈ q) : t.key ∈ keys q := List.mem_map.2 ⟨t, h, rfl⟩

/-- add `amt` to the record of a present holder (`update_record`, first branch) / overwrite it (`reset_holder`) -/
theorem withItem_holders {n : Nat} {pr : Nat → Int} {h : HH} (ok : HoldersOK n pr h) {i : Nat} (hi : HashHeap.InR h.count i) (it : Item)
    (hit : 0 < it.b) :
    HoldersOK n pr (HashHeap.withItem h i it) ∧
    amounts (abs (HashHeap.withItem h i it)) + (h.tag i).item.b = amounts (abs h) + it.b ∧
    (∀ k, k ∈ keys (abs (HashHeap.withItem h i it)) ↔ k ∈ keys (abs h)) ∧
    amountOf (abs (HashHeap.withItem h i it)) (h.tag i).key = it.b ∧
    amountOf (abs h) (h.tag i).key = (h.tag i).item.b ∧
    (∀ k, k ≠ (h.tag i).key → amountOf (abs (HashHeap.withItem h i it)) k = amountOf (abs h) k) := by
  obtain ⟨hwf, hp', hp⟩ := HashHeap.wf_withItem ok.wf hi it
  have hmem : KPQ.norm (h.tag i) ∈ abs h := (HashHeap.mem_abs h _).2 ⟨i, hi, rfl⟩
  have hkeys : ∀ k, k ∈ keys (abs (HashHeap.withItem h i it)) ↔ k ∈ keys (abs h) := by
    intro k
    rw [HashHeap.keys_perm hp', HashHeap.keys_perm hp]
    simp [keys, KPQ.norm]
  have hmem' : KPQ.norm { h.tag i with item := it } ∈ abs (HashHeap.withItem h i it) :=
    hp'.mem_iff.2 List.mem_cons_self
  have hpos : ∀ t ∈ abs (HashHeap.withItem h i it), 0 < t.item.b := by
    intro t ht
    rcases List.mem_cons.1 (hp'.mem_iff.1 ht) with rfl | hm
    · exact hit
    · exact ok.pos t (List.mem_filter.1 hm).1
  have hprio : ∀ t ∈ abs (HashHeap.withItem h i it), t.i = pr (t.key - 1) := by
    intro t ht
    rcases List.mem_cons.1 (hp'.mem_iff.1 ht) with rfl | hm
    · exact ok.prio (KPQ.norm (h.tag i)) hmem
    · exact ok.prio t (List.mem_filter.1 hm).1
  refine ⟨⟨hwf, fun k hk => ok.tags k ((hkeys k).1 hk), hpos, hprio⟩, ?_, hkeys, ?_, ?_, ?_⟩
  · rw [HashHeap.amounts_perm hp', HashHeap.amounts_perm hp]
    simp [KPQ.norm]; omega
  · have := HashHeap.amountOf_of_mem hwf.keys_nodup hmem'
    simpa [KPQ.norm] using this
  · have := HashHeap.amountOf_of_mem ok.wf.keys_nodup hmem
    simpa [KPQ.norm] using this
  · intro k hk
    unfold amountOf
    congr 2
    -- lookups of other keys agree: both lists are [entry i] ++ the same remainder, up to permutation
    apply HashHeap.lookup_ext ok.wf.keys_nodup hwf.keys_nodup
    intro t hkk
    rw [hp'.mem_iff, hp.mem_iff]
    simp only [List.mem_cons]
    constructor
    · rintro (rfl | ht)
      · exact absurd hkk.symm hk
      · exact Or.inr ht
    · rintro (rfl | ht)
      · exact absurd hkk.symm hk
      · exact Or.inr ht

/-- a new holder record (`update_record`, second branch): with fewer than 2^31 processes the enqueue cannot fail -/
theorem enqueue_holders {n : Nat} {pr : Nat → Int} {h : HH} (ok : HoldersOK n pr h) (hn : n < 2 ^ 31) {p : Nat} (hp : p < n)
    (hfresh : p + 1 ∉ keys (abs h)) (it : Item) (hit : 0 < it.b) (d i : Int) (hpri : i = pr p) :
    ∃ h', HashHeap.enqueue holder_queue_check h it (p + 1) d i = .ok (h', p + 1) ∧ HoldersOK n pr h' ∧
      amounts (abs h') = amounts (abs h) + it.b ∧
      (∀ k, k ∈ keys (abs h') ↔ k ∈ keys (abs h) ∨ k = p + 1) ∧
      amountOf (abs h') (p + 1) = it.b ∧
      (∀ k, k ≠ p + 1 → amountOf (abs h') k = amountOf (abs h) k) := by
  have h64 : p + 1 < 2 ^ 64 := by
    have : (2 : Nat) ^ 31 < 2 ^ 64 := by decide
    omega
  obtain ⟨h', hrun, hwf, hperm, _⟩ := HashHeap.enqueue_abs ok.wf it (p + 1) d i (by simp) (by simpa using h64)
    (by simpa using hfresh) (ok.room hn)
  simp only [Nat.add_one_ne_zero, if_false] at hrun hperm
  have hkeys : ∀ k, k ∈ keys (abs h') ↔ k ∈ keys (abs h) ∨ k = p + 1 := by
    intro k
    rw [HashHeap.keys_perm hperm]
    simp [keys, KPQ.insert, KPQ.norm]
    exact Or.comm
  have hl := HashHeap.lookup_after_insert ok.wf hwf ⟨p + 1, 0, it, d, i⟩ hperm
  refine ⟨h', hrun, ⟨hwf, ?_, ?_, ?_⟩, ?_, hkeys, ?_, ?_⟩
  · intro k hk
    rcases (hkeys k).1 hk with hk | rfl
    · exact ok.tags k hk
    · exact ⟨p, hp, rfl⟩
  · intro t ht
    rcases List.mem_cons.1 (hperm.mem_iff.1 ht) with rfl | hm
    · exact hit
    · exact ok.pos t hm
  · intro t ht
    rcases List.mem_cons.1 (hperm.mem_iff.1 ht) with rfl | hm
    · exact hpri
    · exact ok.prio t hm
  · rw [HashHeap.amounts_perm hperm]; simp [KPQ.insert, KPQ.norm]; omega
  · unfold amountOf; rw [hl.1]; rfl
  · intro k hk; unfold amountOf; rw [hl.2 k hk]

/-- drop a holder record (`release` of everything, rollback, process end) -/
theorem remove_holders {n : Nat} {pr : Nat → Int} {h h' : HH} (ok : HoldersOK n pr h) (p : Nat) {r : Bool}
    (hr : HashHeap.remove holder_queue_check h (p + 1) = .ok (h', r)) :
    HoldersOK n pr h' ∧ amounts (abs h') + amountOf (abs h) (p + 1) = amounts (abs h) ∧
      (∀ k, k ∈ keys (abs h') ↔ k ∈ keys (abs h) ∧ k ≠ p + 1) ∧ r = decide (p + 1 ∈ keys (abs h)) ∧
      amountOf (abs h') (p + 1) = 0 ∧ (∀ k, k ≠ p + 1 → amountOf (abs h') k = amountOf (abs h) k) := by
  obtain ⟨s', hrun, hwf, hperm, _⟩ := HashHeap.remove_abs ok.wf (p + 1) (by simp)
  rw [hrun] at hr
  injection hr with hr
  injection hr with h1 h2
  subst h1
  have hkeys : ∀ k, k ∈ keys (abs s') ↔ k ∈ keys (abs h) ∧ k ≠ p + 1 := by
    intro k; rw [HashHeap.keys_perm hperm, HashHeap.keys_remove]
  have hl := HashHeap.lookup_after_remove ok.wf hwf (p + 1) hperm
  refine ⟨⟨hwf, fun k hk => ok.tags k ((hkeys k).1 hk).1,
    fun t ht => ok.pos t (List.mem_filter.1 (hperm.mem_iff.1 ht)).1,
    fun t ht => ok.prio t (List.mem_filter.1 (hperm.mem_iff.1 ht)).1⟩, ?_, hkeys, h2.symm, ?_, ?_⟩
  · rw [HashHeap.amounts_perm hperm]; exact HashHeap.amounts_remove ok.wf.keys_nodup (p + 1)
  · unfold amountOf; rw [hl.1]; rfl
  · intro k hk; unfold amountOf; rw [hl.2 k hk]

/-- take the first victim off the holder list -/
theorem dequeue_holders {n : Nat} {pr : Nat → Int} {h : HH} (ok : HoldersOK n pr h) (hpos : 0 < h.count) :
    ∃ h', HashHeap.dequeue holder_queue_check h = .ok (h', some (h.tag 1)) ∧ HoldersOK n pr h' ∧
      amounts (abs h') + (h.tag 1).item.b = amounts (abs h) ∧
      (∀ k, k ∈ keys (abs h') ↔ k ∈ keys (abs h) ∧ k ≠ (h.tag 1).key) ∧
      (h.tag 1).key ∈ keys (abs h) ∧
      amountOf (abs h) (h.tag 1).key = (h.tag 1).item.b ∧
      (∀ k, k ≠ (h.tag 1).key → amountOf (abs h') k = amountOf (abs h) k) ∧
      (∀ x ∈ abs h', holder_queue_check (KPQ.norm (h.tag 1)) x = true) := by
  obtain ⟨h', hrun, hwf, hperm, _⟩ := HashHeap.dequeue_abs ok.wf hpos
  have hk : (keys (abs h)).Perm ((h.tag 1).key :: keys (abs h')) := HashHeap.keys_perm_of_perm hperm
  have hnd : ((h.tag 1).key :: keys (abs h')).Nodup := hk.nodup_iff.1 ok.wf.keys_nodup
  have hkeys : ∀ k, k ∈ keys (abs h') ↔ k ∈ keys (abs h) ∧ k ≠ (h.tag 1).key := by
    intro k
    rw [hk.mem_iff, List.mem_cons]
    constructor
    · intro hm; exact ⟨Or.inr hm, fun e => (List.nodup_cons.1 hnd).1 (e ▸ hm)⟩
    · rintro ⟨rfl | hm, hne⟩
      · exact absurd rfl hne
      · exact hm
  have hmem : KPQ.norm (h.tag 1) ∈ abs h := hperm.mem_iff.2 List.mem_cons_self
  have hl := HashHeap.lookup_after_dequeue ok.wf hwf (KPQ.norm (h.tag 1)) hperm
  refine ⟨h', hrun, ⟨hwf, fun k hk' => ok.tags k ((hkeys k).1 hk').1,
    fun t ht => ok.pos t (hperm.mem_iff.2 (List.mem_cons_of_mem _ ht)),
    fun t ht => ok.prio t (hperm.mem_iff.2 (List.mem_cons_of_mem _ ht))⟩, ?_, hkeys, hk.mem_iff.2 List.mem_cons_self, ?_, ?_, ?_⟩
  · rw [HashHeap.amounts_perm hperm]; simp [KPQ.norm]; omega
  · have := HashHeap.amountOf_of_mem ok.wf.keys_nodup hmem
    simpa [KPQ.norm] using this
  · intro k hkne; unfold amountOf; rw [hl.2 k (by simpa [KPQ.norm] using hkne)]
  · -- strictly first: the order is total on distinct keys
    intro x hx
    have hmin := HashHeap.root_isMin_abs ok.wf hpos
    have hxs : x ∈ abs h := hperm.mem_iff.2 (List.mem_cons_of_mem _ hx)
    have hxk : x.key ≠ (h.tag 1).key := ((hkeys x.key).1 (mem_keys_of_mem hx)).2
    rcases TotalOnKeys.total (lt := holder_queue_check) (KPQ.norm (h.tag 1)) x (by simpa [KPQ.norm] using hxk.symm) with hlt | hlt
    · exact hlt
    · rw [hmin.2 x hxs] at hlt; cases hlt

/-- `priority_set` of a holder: the record moves inside the list, amounts and keys stay -/
theorem reprio_holders {n : Nat} {pr pr' : Nat → Int} {h h' : HH} (ok : HoldersOK n pr h) {k : Nat} (hk : k ∈ keys (abs h)) {d i : Int}
    (hr : HashHeap.reprioritize holder_queue_check h k d i = .ok h')
    (hpr : pr' (k - 1) = i ∧ ∀ q, q ≠ k - 1 → pr' q = pr q) :
    HoldersOK n pr' h' ∧ amounts (abs h') = amounts (abs h) ∧ (∀ j, j ∈ keys (abs h') ↔ j ∈ keys (abs h)) ∧
      (∀ j, amountOf (abs h') j = amountOf (abs h) j) := by
  obtain ⟨s', hrun, hwf, hperm, _⟩ := HashHeap.reprio_abs ok.wf hk d i
  rw [hrun] at hr
  injection hr with hr
  subst hr
  have hkeys : ∀ j, j ∈ keys (abs s') ↔ j ∈ keys (abs h) := by
    intro j; rw [HashHeap.keys_perm hperm, HashHeap.keys_reprio]
  have hl := HashHeap.lookup_after_reprio ok.wf hwf k d i hperm
  have hpos : ∀ t ∈ abs s', 0 < t.item.b := by
    intro t ht
    have := hperm.mem_iff.1 ht
    unfold KPQ.reprio at this
    obtain ⟨y, hy, rfl⟩ := List.mem_map.1 this
    have := ok.pos y hy
    split <;> exact this
  have hprio : ∀ t ∈ abs s', t.i = pr' (t.key - 1) := by
    intro t ht
    have := hperm.mem_iff.1 ht
    unfold KPQ.reprio at this
    obtain ⟨y, hy, rfl⟩ := List.mem_map.1 this
    split
    · rename_i hyk
      show i = pr' (y.key - 1)
      rw [hyk]; exact hpr.1.symm
    · rename_i hyk
      rw [ok.prio y hy]
      refine (hpr.2 _ ?_).symm
      obtain ⟨pid, _, hpk⟩ := ok.tags y.key (mem_keys_of_mem hy)
      obtain ⟨pid', _, hpk'⟩ := ok.tags k hk
      omega
  refine ⟨⟨hwf, fun j hj => ok.tags j ((hkeys j).1 hj), hpos, hprio⟩, ?_, hkeys, ?_⟩
  · rw [HashHeap.amounts_perm hperm, HashHeap.amounts_reprio]
  · intro j
    unfold amountOf
    by_cases hj : j = k
    · subst hj; rw [hl.1]
      cases KPQ.lookup (abs h) j <;> rfl
    · rw [hl.2 j hj]

end CimbaModel.Sim
