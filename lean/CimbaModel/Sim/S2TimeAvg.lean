/-
  S2 — C14, the arithmetic behind "time-weighted mean = exact time average": for a step function given by samples
  (x₀,t₀),…,(xₙ,tₙ) with nondecreasing times, the running weighted mean with weights tᵢ₊₁ − tᵢ (updated incrementally,
  as `cmb_wtdsummary_add` does) equals ∫/(tₙ − t₀), where ∫ is the sum of the rectangle areas xᵢ·(tᵢ₊₁ − tᵢ).
  Exact arithmetic over ℚ.
-/
import Mathlib.Tactic.Ring
import Mathlib.Tactic.FieldSimp
import Mathlib.Tactic.Linarith

namespace CimbaModel.TimeAvg

/-- area under the step function: Σ xᵢ·(tᵢ₊₁ − tᵢ) -/
def stepIntegral : List (ℚ × ℚ) → ℚ
  | (x, t) :: (y, u) :: rest => x * (u - t) + stepIntegral ((y, u) :: rest)
  | _ => 0

/-- time of the last sample (`d` if there is none) -/
def lastTime (d : ℚ) : List (ℚ × ℚ) → ℚ
  | [] => d
  | (_, t) :: rest => lastTime t rest

/-- the weighted observations (value, weight) = (xᵢ, tᵢ₊₁ − tᵢ) a history is turned into -/
def weighted : List (ℚ × ℚ) → List (ℚ × ℚ)
  | (x, t) :: (y, u) :: rest => (x, u - t) :: weighted ((y, u) :: rest)
  | _ => []

/-- one incremental update of (total weight, mean), as in `cmb_wtdsummary_add` -/
def wadd (s : ℚ × ℚ) (o : ℚ × ℚ) : ℚ × ℚ :=
  let W' := s.1 + o.2
  (W', s.2 + o.2 / W' * (o.1 - s.2))

def wmean (obs : List (ℚ × ℚ)) : ℚ × ℚ := obs.foldl wadd (0, 0)

def Nondecreasing : List (ℚ × ℚ) → Prop
  | (_, t) :: (y, u) :: rest => t ≤ u ∧ Nondecreasing ((y, u) :: rest)
  | _ => True

theorem wadd_inv {W m S : ℚ} (hW : 0 ≤ W) (h : m * W = S) (x w : ℚ) (hw : 0 ≤ w) :
    (wadd (W, m) (x, w)).2 * (wadd (W, m) (x, w)).1 = S + x * w ∧ 0 ≤ (wadd (W, m) (x, w)).1 ∧
      (wadd (W, m) (x, w)).1 = W + w := by
  simp only [wadd]
  refine ⟨?_, by linarith, trivial⟩
  by_cases h0 : W + w = 0
  · have hw0 : w = 0 := by linarith
    have hW0 : W = 0 := by linarith
    subst hw0; subst hW0
    simp at h ⊢
    linarith
  · field_simp
    rw [← h]; ring

theorem foldl_wadd_inv : ∀ (s : List (ℚ × ℚ)) (W m S : ℚ), 0 ≤ W → m * W = S → Nondecreasing s →
    ((weighted s).foldl wadd (W, m)).2 * ((weighted s).foldl wadd (W, m)).1 = S + stepIntegral s ∧
    ((weighted s).foldl wadd (W, m)).1 = W + (lastTime 0 s - (match s with | [] => 0 | (_, t) :: _ => t)) := by
  intro s
  induction s with
  | nil => intro W m S _ h _; simp [weighted, stepIntegral, lastTime, h]
  | cons a rest ih =>
    intro W m S hW h hnd
    obtain ⟨x, t⟩ := a
    cases rest with
    | nil => simp [weighted, stepIntegral, lastTime, h]
    | cons b rest' =>
      obtain ⟨y, u⟩ := b
      obtain ⟨htu, hnd'⟩ := hnd
      have hw : 0 ≤ u - t := by linarith
      obtain ⟨h1, h2, h3⟩ := wadd_inv hW h x (u - t) hw
      have := ih (wadd (W, m) (x, u - t)).1 (wadd (W, m) (x, u - t)).2 (S + x * (u - t)) h2 h1 hnd'
      simp only [weighted, List.foldl_cons, stepIntegral, lastTime] at this ⊢
      obtain ⟨e1, e2⟩ := this
      refine ⟨by rw [e1]; ring, ?_⟩
      rw [e2, h3]
      ring

/-- the total weight is the length of the recording interval, and mean × duration = ∫ -/
theorem wmean_spec (s : List (ℚ × ℚ)) (hnd : Nondecreasing s) (t0 : ℚ) (hs : ∃ x rest, s = (x, t0) :: rest) :
    (wmean (weighted s)).1 = lastTime 0 s - t0 ∧ (wmean (weighted s)).2 * (lastTime 0 s - t0) = stepIntegral s := by
  obtain ⟨x, rest, rfl⟩ := hs
  obtain ⟨e1, e2⟩ := foldl_wadd_inv ((x, t0) :: rest) 0 0 0 (le_refl _) (by ring) hnd
  simp only [zero_add] at e1 e2
  unfold wmean
  exact ⟨e2, by rw [← e2]; exact e1⟩

/-- **the time-weighted mean computed from the history equals the exact time average** of the step function over the
    recording interval [t₀, tₙ] (when that interval is not empty) -/
theorem time_weighted_mean_is_time_average (s : List (ℚ × ℚ)) (hnd : Nondecreasing s) (t0 : ℚ)
    (hs : ∃ x rest, s = (x, t0) :: rest) (hpos : t0 < lastTime 0 s) :
    (wmean (weighted s)).2 = stepIntegral s / (lastTime 0 s - t0) := by
  obtain ⟨_, h⟩ := wmean_spec s hnd t0 hs
  have hne : lastTime 0 s - t0 ≠ 0 := by linarith
  field_simp
  exact h

/-- a constant trajectory has that constant as its average -/
example : (wmean (weighted [(3, 0), (3, 2), (3, 5)])).2 = 3 := by
  rw [time_weighted_mean_is_time_average _ (by simp [Nondecreasing]; norm_num) 0 ⟨3, _, rfl⟩ (by simp [lastTime])]
  simp [stepIntegral, lastTime]
  norm_num

end CimbaModel.TimeAvg
