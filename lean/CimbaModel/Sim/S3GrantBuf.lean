/-
  S3 — the grant invariant, part 14: buffers.
-/
import CimbaModel.Sim.S3GrantPool

namespace CimbaModel.Sim.S3
open CimbaModel CimbaModel.Sim CimbaModel.Event CimbaModel.Generated CimbaModel.KPQ
open CimbaModel.HashHeap (HTag Item Order HH WF abs liveTags)

variable {fr : Pid → Option Frame} {df df' : Demand → Nat} {w : World} {p : Pid}

theorem recordBuf_frame (w : World) (b : Nat) :
    (recordBuf w b).guards = w.guards ∧ (recordBuf w b).ev = w.ev ∧ (recordBuf w b).procs = w.procs := by
  unfold recordBuf
  split
  · split <;> exact ⟨rfl, rfl, rfl⟩
  · exact ⟨rfl, rfl, rfl⟩

/-- the record of buffer `b` is replaced (same guards and capacity) and recorded: the bundle with the deficit `bump` -/
theorem gs_buf_set (h : GS fr df w) {b : Nat} {x : Buf} (hx : w.bufs[b]? = some x) (y : Buf) (hs : bufStat y = bufStat x)
    (hn : ∀ d, (if d = .bufContent b then (bufNeed y).1 else if d = .bufSpace b then (bufNeed y).2 else need w d) + df d ≤
      need w d + df' d) :
    GS fr df' (recordBuf { w with bufs := w.bufs.set! b y } b) ∧ Stat w (recordBuf { w with bufs := w.bufs.set! b y } b) := by
  have hst0 : Stat w { w with bufs := w.bufs.set! b y } :=
    (Stat.refl w).setBufsSet b y (fun x' hx' => by rw [hx] at hx'; cases hx'; exact hs)
  have h1 : GS fr df' { w with bufs := w.bufs.set! b y } :=
    h.objUpd hst0 rfl rfl rfl (fun d => by rw [need_bufs_set hx]; exact hn d)
  exact ⟨h1.recordBuf b, hst0.recordBuf b⟩

theorem need_signal {w : World} (hall : AllGWF w) (g : Nat) (d : Demand) : need (signal w g) d = need w d := by
  have hrel := signal_rel w g hall
  exact need_congr hrel.res hrel.pools hrel.bufs hrel.oqs hrel.pqs d

theorem bufNeed_le_one (x : Buf) : (bufNeed x).1 ≤ 1 ∧ (bufNeed x).2 ≤ 1 := by unfold bufNeed; simp only; omega

/-- one pass of `buffer_get` -/
theorem gs_bufGetLoop (h : GS fr df w) (hes : EndSep w) (hsep : CondSep w) (hfr : fr p = none) (hlt : p < w.procs.size)
    (b rem got : Nat) (hdf : ∀ d, d ≠ .bufContent b → df d ≤ df' d) (hdf1 : df (.bufContent b) ≤ df' (.bufContent b) + 1) :
    GH df' (bufGetLoop w p b rem got).1 := by
  simp only [Sim.bufGetLoop]
  split
  · rename_i hn
    have hi : Inert w (w.fail "no such buffer") := (Inert.refl w).fail _
    refine (h.gh.inert h.ginv.ei hi).clear' (.bufContent b) ?_ hdf
    have := hi.need (.bufContent b)
    have h0 : need w (.bufContent b) = 0 := by rw [need_eq]; simp [hn]
    omega
  · rename_i x hx
    obtain ⟨hgf, hgr⟩ := gOf_bufs_of hx
    obtain ⟨hnf, hnr⟩ := need_bufs_of hx
    -- taking `k` units out, recording, signalling the rear guard
    have htake : ∀ (y : Buf), bufStat y = bufStat x → (bufNeed y).1 ≤ (bufNeed x).1 →
        GS fr df (signal (recordBuf { w with bufs := w.bufs.set! b y } b) x.rear) ∧
        Stat w (signal (recordBuf { w with bufs := w.bufs.set! b y } b) x.rear) ∧
        need (signal (recordBuf { w with bufs := w.bufs.set! b y } b) x.rear) (.bufContent b) ≤ (bufNeed y).1 := by
      intro y hs hle
      obtain ⟨h1, hst1⟩ := gs_buf_set (df' := fun d => df d + (if d = .bufSpace b then 1 else 0)) h hx y hs (by
        intro d
        show _ + df d ≤ need w d + (df d + if d = .bufSpace b then 1 else 0)
        by_cases h1 : d = .bufContent b
        · subst h1; rw [if_pos rfl, if_neg (by simp)]; omega
        · rw [if_neg h1]
          by_cases h2 : d = .bufSpace b
          · subst h2; rw [if_pos rfl, if_pos rfl]; have := (bufNeed_le_one y).2; omega
          · rw [if_neg h2, if_neg h2]; omega)
      refine ⟨h1.signal x.rear (fun d _ => by show df d + _ ≤ df d + 1; split <;> omega) ?_, hst1.signal x.rear, ?_⟩
      · intro d hd
        rw [gOf_of_stat hst1] at hd
        show df d + _ ≤ df d
        split
        · rename_i hdd; subst hdd; exact absurd hgr hd
        · omega
      · rw [need_signal h1.ginv.gw]
        have := ((Inert.refl { w with bufs := w.bufs.set! b y }).recordBuf b).need (.bufContent b)
        rw [need_bufs_set hx, if_pos rfl] at this
        exact this
    split
    · -- enough content
      obtain ⟨h2, hst2, hn2⟩ := htake { x with level := x.level - rem, getTotal := x.getTotal + rem } rfl
        (by unfold bufNeed; simp only; omega)
      split
      · refine GS.gh (fr := fr) (h2.signal x.front ?_ ?_)
        · intro d hd
          rw [gOf_of_stat hst2] at hd
          have := hes d (.bufContent b) x.front hd hgf
          subst this; exact hdf1
        · intro d hd
          rw [gOf_of_stat hst2] at hd
          exact hdf d (fun hdd => hd (hdd ▸ hgf))
      · rename_i hpos
        refine h2.gh.clear' (.bufContent b) ?_ hdf
        have : (bufNeed { x with level := x.level - rem, getTotal := x.getTotal + rem }).1 = 0 := by
          unfold bufNeed; simp only; omega
        omega
    · -- take what is there, wait for more
      have h1 : GS fr df' (if x.level > 0 then
            (signal (recordBuf { w with bufs := w.bufs.set! b { x with level := 0, getTotal := x.getTotal + x.level } } b) x.rear,
              rem - x.level, got + x.level) else (w, rem, got)).1 ∧
          need (if x.level > 0 then
            (signal (recordBuf { w with bufs := w.bufs.set! b { x with level := 0, getTotal := x.getTotal + x.level } } b) x.rear,
              rem - x.level, got + x.level) else (w, rem, got)).1 (.bufContent b) = 0 ∧
          Stat w (if x.level > 0 then
            (signal (recordBuf { w with bufs := w.bufs.set! b { x with level := 0, getTotal := x.getTotal + x.level } } b) x.rear,
              rem - x.level, got + x.level) else (w, rem, got)).1 := by
        split
        · obtain ⟨h2, hst2, hn2⟩ := htake { x with level := 0, getTotal := x.getTotal + x.level } rfl
            (by unfold bufNeed; simp only; omega)
          have h0 : need (signal (recordBuf { w with bufs := w.bufs.set! b { x with level := 0, getTotal := x.getTotal + x.level } } b) x.rear)
              (.bufContent b) = 0 := by
            have : (bufNeed { x with level := 0, getTotal := x.getTotal + x.level }).1 = 0 := by unfold bufNeed; simp
            omega
          exact ⟨h2.clear (.bufContent b) h0 hdf, h0, hst2⟩
        · rename_i hpos
          have h0 : need w (.bufContent b) = 0 := by rw [hnf]; unfold bufNeed; simp only; omega
          exact ⟨h.clear (.bufContent b) h0 hdf, h0, Stat.refl w⟩
      generalize (if x.level > 0 then
            (signal (recordBuf { w with bufs := w.bufs.set! b { x with level := 0, getTotal := x.getTotal + x.level } } b) x.rear,
              rem - x.level, got + x.level) else (w, rem, got)) = r1 at h1 ⊢
      obtain ⟨hg1, hn1, hs1⟩ := h1
      have hg2 : GS fr df' (signal r1.1 x.rear) := hg1.signal_mono x.rear
      have hs2 : Stat w (signal r1.1 x.rear) := hs1.signal x.rear
      have hn2 : need (signal r1.1 x.rear) (.bufContent b) = 0 := by rw [need_signal hg1.ginv.gw]; exact hn1
      have hon : FrameOn (signal r1.1 x.rear) (.bufGet b r1.2.1 r1.2.2) x.front := by
        rw [frameOn_of_stat hs2]; simp [FrameOn, hx, bufStat]
      have hgo2 : gOf (signal r1.1 x.rear) (.bufContent b) = some x.front := by rw [gOf_of_stat hs2]; exact hgf
      refine (hg2.enterBlock x.front (.bufContent b) (.bufGet b r1.2.1 r1.2.2) hfr (by rw [hs2.psize]; exact hlt) hon
        (fun c hc => (hsep.ofStat hs2) c _ _ hc hon) ?_).gh
      intro d' hd'
      have := (hes.ofStat hs2) d' (.bufContent b) x.front hd' hgo2
      subst this
      exact ⟨rfl, by omega⟩

/-- one pass of `buffer_put` -/
theorem gs_bufPutLoop (h : GS fr df w) (hes : EndSep w) (hsep : CondSep w) (hfr : fr p = none) (hlt : p < w.procs.size)
    (b rem left : Nat) (hdf : ∀ d, d ≠ .bufSpace b → df d ≤ df' d) (hdf1 : df (.bufSpace b) ≤ df' (.bufSpace b) + 1) :
    GH df' (bufPutLoop w p b rem left).1 := by
  simp only [Sim.bufPutLoop]
  split
  · rename_i hn
    have hi : Inert w (w.fail "no such buffer") := (Inert.refl w).fail _
    refine (h.gh.inert h.ginv.ei hi).clear' (.bufSpace b) ?_ hdf
    have := hi.need (.bufSpace b)
    have h0 : need w (.bufSpace b) = 0 := by rw [need_eq]; simp [hn]
    omega
  · rename_i x hx
    obtain ⟨hgf, hgr⟩ := gOf_bufs_of hx
    obtain ⟨hnf, hnr⟩ := need_bufs_of hx
    -- putting units in, recording, signalling the front guard
    have hput : ∀ (y : Buf), bufStat y = bufStat x → (bufNeed y).2 ≤ (bufNeed x).2 →
        GS fr df (signal (recordBuf { w with bufs := w.bufs.set! b y } b) x.front) ∧
        Stat w (signal (recordBuf { w with bufs := w.bufs.set! b y } b) x.front) ∧
        need (signal (recordBuf { w with bufs := w.bufs.set! b y } b) x.front) (.bufSpace b) ≤ (bufNeed y).2 := by
      intro y hs hle
      obtain ⟨h1, hst1⟩ := gs_buf_set (df' := fun d => df d + (if d = .bufContent b then 1 else 0)) h hx y hs (by
        intro d
        show _ + df d ≤ need w d + (df d + if d = .bufContent b then 1 else 0)
        by_cases h1 : d = .bufContent b
        · subst h1; rw [if_pos rfl, if_pos rfl]; have := (bufNeed_le_one y).1; omega
        · rw [if_neg h1, if_neg h1]
          by_cases h2 : d = .bufSpace b
          · subst h2; rw [if_pos rfl]; omega
          · rw [if_neg h2]; omega)
      refine ⟨h1.signal x.front (fun d _ => by show df d + _ ≤ df d + 1; split <;> omega) ?_, hst1.signal x.front, ?_⟩
      · intro d hd
        rw [gOf_of_stat hst1] at hd
        show df d + _ ≤ df d
        split
        · rename_i hdd; subst hdd; exact absurd hgf hd
        · omega
      · rw [need_signal h1.ginv.gw]
        have := ((Inert.refl { w with bufs := w.bufs.set! b y }).recordBuf b).need (.bufSpace b)
        rw [need_bufs_set hx, if_neg (by simp), if_pos rfl] at this
        exact this
    split
    · -- enough space
      obtain ⟨h2, hst2, hn2⟩ := hput { x with level := x.level + rem, putTotal := x.putTotal + rem } rfl
        (by unfold bufNeed; simp only; omega)
      split
      · refine GS.gh (fr := fr) (h2.signal x.rear ?_ ?_)
        · intro d hd
          rw [gOf_of_stat hst2] at hd
          have := hes d (.bufSpace b) x.rear hd hgr
          subst this; exact hdf1
        · intro d hd
          rw [gOf_of_stat hst2] at hd
          exact hdf d (fun hdd => hd (hdd ▸ hgr))
      · rename_i hpos
        refine h2.gh.clear' (.bufSpace b) ?_ hdf
        have : (bufNeed { x with level := x.level + rem, putTotal := x.putTotal + rem }).2 = 0 := by
          unfold bufNeed; simp only; omega
        omega
    · -- fill up, wait for more space
      have h1 : GS fr df' (if x.level < x.cap then
            (signal (recordBuf { w with bufs := w.bufs.set! b { x with level := x.cap, putTotal := x.putTotal + (x.cap - x.level) } } b) x.front,
              rem - (x.cap - x.level), left - (x.cap - x.level)) else (w, rem, left)).1 ∧
          need (if x.level < x.cap then
            (signal (recordBuf { w with bufs := w.bufs.set! b { x with level := x.cap, putTotal := x.putTotal + (x.cap - x.level) } } b) x.front,
              rem - (x.cap - x.level), left - (x.cap - x.level)) else (w, rem, left)).1 (.bufSpace b) = 0 ∧
          Stat w (if x.level < x.cap then
            (signal (recordBuf { w with bufs := w.bufs.set! b { x with level := x.cap, putTotal := x.putTotal + (x.cap - x.level) } } b) x.front,
              rem - (x.cap - x.level), left - (x.cap - x.level)) else (w, rem, left)).1 := by
        split
        · obtain ⟨h2, hst2, hn2⟩ := hput { x with level := x.cap, putTotal := x.putTotal + (x.cap - x.level) } rfl
            (by unfold bufNeed; simp only; omega)
          have h0 : need (signal (recordBuf { w with bufs := w.bufs.set! b { x with level := x.cap, putTotal := x.putTotal + (x.cap - x.level) } } b) x.front)
              (.bufSpace b) = 0 := by
            have : (bufNeed { x with level := x.cap, putTotal := x.putTotal + (x.cap - x.level) }).2 = 0 := by unfold bufNeed; simp
            omega
          exact ⟨h2.clear (.bufSpace b) h0 hdf, h0, hst2⟩
        · rename_i hpos
          have h0 : need w (.bufSpace b) = 0 := by rw [hnr]; unfold bufNeed; simp only; omega
          exact ⟨h.clear (.bufSpace b) h0 hdf, h0, Stat.refl w⟩
      generalize (if x.level < x.cap then
            (signal (recordBuf { w with bufs := w.bufs.set! b { x with level := x.cap, putTotal := x.putTotal + (x.cap - x.level) } } b) x.front,
              rem - (x.cap - x.level), left - (x.cap - x.level)) else (w, rem, left)) = r1 at h1 ⊢
      obtain ⟨hg1, hn1, hs1⟩ := h1
      have hg2 : GS fr df' (signal r1.1 x.front) := hg1.signal_mono x.front
      have hs2 : Stat w (signal r1.1 x.front) := hs1.signal x.front
      have hn2 : need (signal r1.1 x.front) (.bufSpace b) = 0 := by rw [need_signal hg1.ginv.gw]; exact hn1
      have hon : FrameOn (signal r1.1 x.front) (.bufPut b r1.2.1 r1.2.2) x.rear := by
        rw [frameOn_of_stat hs2]; simp [FrameOn, hx, bufStat]
      have hgo2 : gOf (signal r1.1 x.front) (.bufSpace b) = some x.rear := by rw [gOf_of_stat hs2]; exact hgr
      refine (hg2.enterBlock x.rear (.bufSpace b) (.bufPut b r1.2.1 r1.2.2) hfr (by rw [hs2.psize]; exact hlt) hon
        (fun c hc => (hsep.ofStat hs2) c _ _ hc hon) ?_).gh
      intro d' hd'
      have := (hes.ofStat hs2) d' (.bufSpace b) x.rear hd' hgo2
      subst this
      exact ⟨rfl, by omega⟩

theorem gs_cmd_bufGet (h : GS fr df w) (hes : EndSep w) (hsep : CondSep w) (hfr : fr p = none) (hlt : p < w.procs.size)
    (b n : Nat) : GH df (execCmd w p (.bufGet b n)).1 := by
  simp only [Sim.execCmd]
  split
  · exact h.gh
  · exact gs_bufGetLoop h hes hsep hfr hlt b n 0 (fun _ _ => Nat.le_refl _) (Nat.le_succ _)

theorem gs_cmd_bufPut (h : GS fr df w) (hes : EndSep w) (hsep : CondSep w) (hfr : fr p = none) (hlt : p < w.procs.size)
    (b n : Nat) : GH df (execCmd w p (.bufPut b n)).1 := by
  simp only [Sim.execCmd]
  split
  · exact h.gh
  · exact gs_bufPutLoop h hes hsep hfr hlt b n n (fun _ _ => Nat.le_refl _) (Nat.le_succ _)

theorem gs_resume_bufGet (h : GS fr df w) (hes : EndSep w) (hsep : CondSep w) {b rem got : Nat}
    (hfr : fr p = some (.bufGet b rem got)) (hlt : p < w.procs.size) (sig : Int) (hq : sig = sigSuccess → Quiet w p)
    (hdf : ∀ d, d ≠ .bufContent b → df d ≤ df' d) (hdf1 : df (.bufContent b) ≤ df' (.bufContent b) + 1)
    (hdf0 : sig ≠ sigSuccess → ∀ d, df d ≤ df' d) :
    GH df' (resumeFrame (w.modProc p fun y => { y with blocked := none }) p (.bufGet b rem got) sig).1 := by
  simp only [Sim.resumeFrame]
  split
  · rename_i hn
    have hi : Inert w (w.modProc p fun y => { y with blocked := none }) := by have h0 := Inert.refl w; inert
    refine (h.gh.inert h.ginv.ei hi).clear' (.bufContent b) ?_ hdf
    rw [need_eq]; simp only; rw [hn]; rfl
  · rename_i x hx
    have hx' : w.bufs[b]? = some x := hx
    have hon : FrameOn w (.bufGet b rem got) x.front := by simp [FrameOn, hx', bufStat]
    have hL := gs_leave h hfr hon (fun c hc => by cases hc) sig hq
    have hst := stat_leave w p x.front sig
    split
    · exact gs_bufGetLoop hL (hes.ofStat hst) (hsep.ofStat hst) (setFrame_self _ _ _) (by rw [hst.psize]; exact hlt) b rem got hdf hdf1
    · rename_i hs
      exact ⟨hL.hg, hL.gi.mono (hdf0 hs)⟩

theorem gs_resume_bufPut (h : GS fr df w) (hes : EndSep w) (hsep : CondSep w) {b rem left : Nat}
    (hfr : fr p = some (.bufPut b rem left)) (hlt : p < w.procs.size) (sig : Int) (hq : sig = sigSuccess → Quiet w p)
    (hdf : ∀ d, d ≠ .bufSpace b → df d ≤ df' d) (hdf1 : df (.bufSpace b) ≤ df' (.bufSpace b) + 1)
    (hdf0 : sig ≠ sigSuccess → ∀ d, df d ≤ df' d) :
    GH df' (resumeFrame (w.modProc p fun y => { y with blocked := none }) p (.bufPut b rem left) sig).1 := by
  simp only [Sim.resumeFrame]
  split
  · rename_i hn
    have hi : Inert w (w.modProc p fun y => { y with blocked := none }) := by have h0 := Inert.refl w; inert
    refine (h.gh.inert h.ginv.ei hi).clear' (.bufSpace b) ?_ hdf
    rw [need_eq]; simp only; rw [hn]; rfl
  · rename_i x hx
    have hx' : w.bufs[b]? = some x := hx
    have hon : FrameOn w (.bufPut b rem left) x.rear := by simp [FrameOn, hx', bufStat]
    have hL := gs_leave h hfr hon (fun c hc => by cases hc) sig hq
    have hst := stat_leave w p x.rear sig
    split
    · exact gs_bufPutLoop hL (hes.ofStat hst) (hsep.ofStat hst) (setFrame_self _ _ _) (by rw [hst.psize]; exact hlt) b rem left hdf hdf1
    · rename_i hs
      exact ⟨hL.hg, hL.gi.mono (hdf0 hs)⟩

end CimbaModel.Sim.S3
