/-
  S3 — batches of wake-ups (`wakeEventWaiters`, `wakeWaiters`, the first fold of `condSignal`) as one
  closed-form update of the event queue, and the exact effect of `evCancel`.
-/
import CimbaModel.Sim.S3Frame

namespace CimbaModel.Sim.S3
open CimbaModel CimbaModel.Sim CimbaModel.Event CimbaModel.Generated CimbaModel.KPQ
open CimbaModel.HashHeap (HTag Item Order HH)

/-- one wake-up to be scheduled at the current time -/
structure Wake where
  act : Nat
  subj : Nat
  sig : Int
  pri : Int

/-- the pending-list segment produced by scheduling `l` in order, starting after handle `c` (latest first) -/
def wakeEvs (c : Nat) (now : Int) : List Wake → List HTag
  | [] => []
  | x :: xs => wakeEvs (c + 1) now xs ++ [mkEv (c + 1) x.act x.subj x.sig now x.pri]

/-- scheduling a batch of wake-ups at the current time -/
def pushAll (w : World) (l : List Wake) : World :=
  { w with ev := { w.ev with pending := wakeEvs w.ev.counter w.now l ++ w.ev.pending, counter := w.ev.counter + l.length } }

theorem pushAll_nil (w : World) : pushAll w [] = w := by
  simp [pushAll, wakeEvs]

theorem pushAll_cons (w : World) (x : Wake) (xs : List Wake) :
    pushAll w (x :: xs) = pushAll (pushEv w x.act x.subj x.sig w.now x.pri) xs := by
  simp only [pushAll, wakeEvs, pushEv, World.now, List.length_cons, List.append_assoc, List.singleton_append]
  congr 2
  omega

@[simp] theorem wakeEvs_length (c : Nat) (now : Int) (l : List Wake) : (wakeEvs c now l).length = l.length := by
  induction l generalizing c with
  | nil => rfl
  | cons x xs ih => simp [wakeEvs, ih]

theorem mem_wakeEvs {c : Nat} {now : Int} {l : List Wake} {e : HTag} :
    e ∈ wakeEvs c now l ↔ ∃ i, ∃ h : i < l.length, e = mkEv (c + 1 + i) l[i].act l[i].subj l[i].sig now l[i].pri := by
  induction l generalizing c with
  | nil => simp [wakeEvs]
  | cons x xs ih =>
    simp only [wakeEvs, List.mem_append, List.mem_singleton, ih, List.length_cons]
    constructor
    · rintro (⟨i, hi, rfl⟩ | rfl)
      · exact ⟨i + 1, by omega, by simp only [List.getElem_cons_succ]; congr 1; omega⟩
      · exact ⟨0, by omega, by simp⟩
    · rintro ⟨i, hi, rfl⟩
      cases i with
      | zero => right; simp
      | succ i => left; exact ⟨i, by omega, by simp only [List.getElem_cons_succ]; congr 1; omega⟩

theorem wakeEvs_props {c : Nat} {now : Int} {l : List Wake} {e : HTag} (h : e ∈ wakeEvs c now l) :
    c < e.key ∧ e.key ≤ c + l.length ∧ e.d = now ∧ e.item.d = 0 ∧
      ∃ x ∈ l, e = mkEv e.key x.act x.subj x.sig now x.pri := by
  obtain ⟨i, hi, rfl⟩ := mem_wakeEvs.1 h
  refine ⟨by simp [mkEv]; omega, by simp [mkEv]; omega, rfl, rfl, l[i], List.getElem_mem hi, rfl⟩

/-- the keys of a batch are the next handles, latest first -/
theorem wakeEvs_keys (c : Nat) (now : Int) (l : List Wake) :
    (wakeEvs c now l).map (·.key) = (List.range' (c + 1) l.length).reverse := by
  induction l generalizing c with
  | nil => rfl
  | cons x xs ih =>
    simp only [wakeEvs, List.map_append, ih, List.map_cons, List.map_nil, List.length_cons]
    rw [List.range'_succ, List.reverse_cons]
    rfl

/-- the subjects of a batch, latest first -/
theorem wakeEvs_subjs (c : Nat) (now : Int) (l : List Wake) :
    (wakeEvs c now l).map (·.item.b) = (l.map (·.subj)).reverse := by
  induction l generalizing c with
  | nil => rfl
  | cons x xs ih => simp [wakeEvs, ih, mkEv]

@[simp] theorem pushAll_evWaiters (w : World) (l : List Wake) : (pushAll w l).evWaiters = w.evWaiters := rfl
@[simp] theorem pushAll_procs (w : World) (l : List Wake) : (pushAll w l).procs = w.procs := rfl
@[simp] theorem pushAll_guards (w : World) (l : List Wake) : (pushAll w l).guards = w.guards := rfl
@[simp] theorem pushAll_res (w : World) (l : List Wake) : (pushAll w l).res = w.res := rfl
@[simp] theorem pushAll_pools (w : World) (l : List Wake) : (pushAll w l).pools = w.pools := rfl
@[simp] theorem pushAll_bufs (w : World) (l : List Wake) : (pushAll w l).bufs = w.bufs := rfl
@[simp] theorem pushAll_oqs (w : World) (l : List Wake) : (pushAll w l).oqs = w.oqs := rfl
@[simp] theorem pushAll_pqs (w : World) (l : List Wake) : (pushAll w l).pqs = w.pqs := rfl
@[simp] theorem pushAll_conds (w : World) (l : List Wake) : (pushAll w l).conds = w.conds := rfl
@[simp] theorem pushAll_flags (w : World) (l : List Wake) : (pushAll w l).flags = w.flags := rfl
@[simp] theorem pushAll_gvars (w : World) (l : List Wake) : (pushAll w l).gvars = w.gvars := rfl
@[simp] theorem pushAll_log (w : World) (l : List Wake) : (pushAll w l).log = w.log := rfl
@[simp] theorem pushAll_fault (w : World) (l : List Wake) : (pushAll w l).fault = w.fault := rfl
@[simp] theorem pushAll_dispatched (w : World) (l : List Wake) : (pushAll w l).dispatched = w.dispatched := rfl
@[simp] theorem pushAll_now (w : World) (l : List Wake) : (pushAll w l).now = w.now := rfl
@[simp] theorem pushAll_proc (w : World) (l : List Wake) (p : Pid) : (pushAll w l).proc p = w.proc p := rfl
@[simp] theorem pushAll_pending (w : World) (l : List Wake) :
    (pushAll w l).ev.pending = wakeEvs w.ev.counter w.now l ++ w.ev.pending := rfl
@[simp] theorem pushAll_counter (w : World) (l : List Wake) : (pushAll w l).ev.counter = w.ev.counter + l.length := rfl
@[simp] theorem pushAll_ev_now (w : World) (l : List Wake) : (pushAll w l).ev.now = w.ev.now := rfl
@[simp] theorem pushAll_executed (w : World) (l : List Wake) : (pushAll w l).ev.executed = w.ev.executed := rfl
@[simp] theorem pushAll_cancelled (w : World) (l : List Wake) : (pushAll w l).ev.cancelled = w.ev.cancelled := rfl
@[simp] theorem pushAll_current (w : World) (l : List Wake) : (pushAll w l).ev.current = w.ev.current := rfl

theorem pushAll_evinv {w : World} (l : List Wake) (h : EvInv w.ev) : EvInv (pushAll w l).ev := by
  induction l generalizing w with
  | nil => rw [pushAll_nil]; exact h
  | cons x xs ih => rw [pushAll_cons]; exact ih (pushEv_evinv' _ _ _ _ _ (Int.le_refl _) h)
where
  pushEv_evinv' {w : World} (a s : Nat) (sig t pri : Int) (ht : w.now ≤ t) (h : EvInv w.ev) :
      EvInv (pushEv w a s sig t pri).ev := by
    have hs : schedule w.ev a s (encSig sig) t pri = .ok ((pushEv w a s sig t pri).ev, w.ev.counter + 1) := by
      unfold schedule pushEv mkEv World.now at *
      have : ¬ t < w.ev.now := by omega
      simp [this, KPQ.insert, KPQ.norm]
    exact (schedule_inv h hs).1

/-- a fold of `sched … w.now …` whose arguments depend only on the processes is a batch -/
theorem foldl_sched_eq {α : Type} (f : World → α → Wake)
    (hf : ∀ (w : World) (a s : Nat) (sig t pri : Int) (x : α), f (pushEv w a s sig t pri) x = f w x) :
    ∀ (l : List α) (w : World),
      l.foldl (fun w x => (sched w (f w x).act (f w x).subj (f w x).sig w.now (f w x).pri).1) w =
        pushAll w (l.map (f w)) := by
  intro l
  induction l with
  | nil => intro w; simp [pushAll_nil]
  | cons x xs ih =>
    intro w
    simp only [List.foldl_cons, List.map_cons, pushAll_cons]
    rw [sched_now, ih]
    congr 1
    apply List.map_congr_left
    intro y _
    exact hf w _ _ _ _ _ y

/-- `wake_event_waiters` as a batch -/
def evWakes (w : World) (ps : List Pid) (sig : Int) : List Wake :=
  ps.map fun q => ⟨aEvent, q + 1, sig, (w.proc q).prio⟩

theorem wakeEventWaiters_eq (w : World) (ps : List Pid) (sig : Int) :
    wakeEventWaiters w ps sig = pushAll w (evWakes w ps sig) := by
  unfold wakeEventWaiters evWakes
  exact foldl_sched_eq (fun w q => ⟨aEvent, q + 1, sig, (w.proc q).prio⟩) (fun _ _ _ _ _ _ _ => rfl) ps w

/-- `wake_process_waiters` as a batch -/
def procWakes (w : World) (p : Pid) (sig : Int) : List Wake :=
  (w.proc p).waiters.map fun q => ⟨aProc, q + 1, sig, ((w.modProc p fun x => { x with waiters := [] }).proc q).prio⟩

theorem wakeWaiters_eq (w : World) (p : Pid) (sig : Int) :
    wakeWaiters w p sig = pushAll (w.modProc p fun x => { x with waiters := [] }) (procWakes w p sig) := by
  unfold wakeWaiters procWakes
  exact foldl_sched_eq (fun w q => ⟨aProc, q + 1, sig, (w.proc q).prio⟩) (fun _ _ _ _ _ _ _ => rfl) _ _

/-- clearing the waiter list does not change anybody's priority -/
theorem procWakes_prio (w : World) (p q : Pid) :
    ((w.modProc p fun x => { x with waiters := [] }).proc q).prio = (w.proc q).prio := by
  rw [modProc_proc]; split
  · rename_i h; rw [h.1]
  · rfl

/-! ### evCancel -/

/-- the event queue with handle `h` cancelled -/
def cancelEv (w : World) (h : Nat) : World :=
  { w with ev := { w.ev with pending := KPQ.remove w.ev.pending h, cancelled := h :: w.ev.cancelled },
           evWaiters := w.evWaiters.filter (·.1 ≠ h) }

/-- `cmb_event_cancel` in closed form: a scheduled handle is removed, its waiters get (aEvent, CANCELLED) wake-ups at the
    current time; an unscheduled handle changes nothing -/
theorem evCancel_eq (w : World) (h : Nat) :
    evCancel w h =
      if h ∈ keys w.ev.pending then
        (pushAll (cancelEv w h) (evWakes w ((w.evWaiters.lookup h).getD []) sigCancelled), true)
      else (w, false) := by
  unfold evCancel cancel isScheduled
  by_cases hk : h ∈ keys w.ev.pending
  · simp only [hk, decide_true, if_true, popWaiters, wakeEventWaiters_eq]
    rfl
  · simp [hk]

theorem evCancel_snd (w : World) (h : Nat) : (evCancel w h).2 = decide (h ∈ keys w.ev.pending) := by
  rw [evCancel_eq]; split <;> simp_all

@[simp] theorem cancelEv_procs (w : World) (h : Nat) : (cancelEv w h).procs = w.procs := rfl
@[simp] theorem cancelEv_guards (w : World) (h : Nat) : (cancelEv w h).guards = w.guards := rfl
@[simp] theorem cancelEv_res (w : World) (h : Nat) : (cancelEv w h).res = w.res := rfl
@[simp] theorem cancelEv_pools (w : World) (h : Nat) : (cancelEv w h).pools = w.pools := rfl
@[simp] theorem cancelEv_bufs (w : World) (h : Nat) : (cancelEv w h).bufs = w.bufs := rfl
@[simp] theorem cancelEv_oqs (w : World) (h : Nat) : (cancelEv w h).oqs = w.oqs := rfl
@[simp] theorem cancelEv_pqs (w : World) (h : Nat) : (cancelEv w h).pqs = w.pqs := rfl
@[simp] theorem cancelEv_conds (w : World) (h : Nat) : (cancelEv w h).conds = w.conds := rfl
@[simp] theorem cancelEv_flags (w : World) (h : Nat) : (cancelEv w h).flags = w.flags := rfl
@[simp] theorem cancelEv_gvars (w : World) (h : Nat) : (cancelEv w h).gvars = w.gvars := rfl
@[simp] theorem cancelEv_log (w : World) (h : Nat) : (cancelEv w h).log = w.log := rfl
@[simp] theorem cancelEv_fault (w : World) (h : Nat) : (cancelEv w h).fault = w.fault := rfl
@[simp] theorem cancelEv_dispatched (w : World) (h : Nat) : (cancelEv w h).dispatched = w.dispatched := rfl
@[simp] theorem cancelEv_now (w : World) (h : Nat) : (cancelEv w h).now = w.now := rfl
@[simp] theorem cancelEv_proc (w : World) (h : Nat) (p : Pid) : (cancelEv w h).proc p = w.proc p := rfl
@[simp] theorem cancelEv_pending (w : World) (h : Nat) : (cancelEv w h).ev.pending = KPQ.remove w.ev.pending h := rfl
@[simp] theorem cancelEv_counter (w : World) (h : Nat) : (cancelEv w h).ev.counter = w.ev.counter := rfl
@[simp] theorem cancelEv_ev_now (w : World) (h : Nat) : (cancelEv w h).ev.now = w.ev.now := rfl
@[simp] theorem cancelEv_cancelled (w : World) (h : Nat) : (cancelEv w h).ev.cancelled = h :: w.ev.cancelled := rfl
@[simp] theorem cancelEv_executed (w : World) (h : Nat) : (cancelEv w h).ev.executed = w.ev.executed := rfl
@[simp] theorem cancelEv_current (w : World) (h : Nat) : (cancelEv w h).ev.current = w.ev.current := rfl
@[simp] theorem cancelEv_evWaiters (w : World) (h : Nat) : (cancelEv w h).evWaiters = w.evWaiters.filter (·.1 ≠ h) := rfl

theorem cancelEv_evinv {w : World} {h : Nat} (hk : h ∈ keys w.ev.pending) (hi : EvInv w.ev) : EvInv (cancelEv w h).ev := by
  have := cancel_inv hi h
  unfold cancel isScheduled at this
  simp only [hk, decide_true, if_true] at this
  exact this

end CimbaModel.Sim.S3
