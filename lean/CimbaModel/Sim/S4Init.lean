/-
  S4 — the worlds the scenario loader (Drivers/SimMain.lean) builds: `Loaded` mirrors its steps (objects with fresh
  guards, processes, subscriptions of a condition's guard to an object's guard, at most one start event per process),
  and `LInv` collects what such a world looks like before anything has been dispatched.
-/
import CimbaModel.Sim.S3Built
import CimbaModel.Sim.S4Safe
import CimbaModel.Sim.S4Defs

namespace CimbaModel.Sim.S4
open CimbaModel CimbaModel.Sim CimbaModel.Sim.S3 CimbaModel.Event CimbaModel.Generated CimbaModel.KPQ
open CimbaModel.HashHeap (HTag Item Order HH WF abs liveTags)

/-- a valid call: signal values (`S3.CmdOk`), durations, variable discipline, and `acquire` names a resource that has
    already been declared -/
def CmdValid (w : World) (c : Cmd) : Prop :=
  CmdOk c ∧ DurOk c ∧ VarsOk c ∧ ∀ r, c = .acquire r → r < w.res.size

/-- the worlds the loader can build.  `sub g cg`: `g` is a plain guard (of a resource, pool, buffer or queue), `cg` the
    guard of a condition; `start p`: an existing process without a pending start event. -/
inductive Loaded : World → Prop
  | empty : Loaded {}
  | res {w : World} : Loaded w → Loaded (addRes w)
  | pool {w : World} (cap : Nat) : Loaded w → Loaded (addPool w cap)
  | buf {w : World} (cap : Nat) : Loaded w → Loaded (addBuf w cap)
  | oq {w : World} (cap : Nat) : Loaded w → Loaded (addOQ w cap)
  | pq {w : World} (cap : Nat) : Loaded w → Loaded (addPQ w cap)
  | cond {w : World} : Loaded w → Loaded (addCond w)
  | proc {w : World} (pr : Int) (cmds : Array (Cmd × String)) :
      Loaded w → (∀ (i : Nat) (c : Cmd) (t : String), cmds[i]? = some (c, t) → CmdValid w c) → Loaded (addProc w pr cmds)
  | sub {w : World} (g cg : Nat) : Loaded w → (∃ gd : Guard, w.guards[g]? = some gd ∧ gd.isCond = false) →
      (∃ gd : Guard, w.guards[cg]? = some gd ∧ gd.isCond = true) → Loaded (subscribe w g cg)
  | start {w : World} (p : Pid) : Loaded w → p < w.procs.size → (∀ e ∈ w.ev.pending, e.item.b ≠ p + 1) →
      Loaded (autostart w p)

theorem Loaded.built {w : World} (h : Loaded w) : Built w := by
  induction h with
  | empty => exact .empty
  | res _ ih => exact .res ih
  | pool cap _ ih => exact .pool cap ih
  | buf cap _ ih => exact .buf cap ih
  | oq cap _ ih => exact .oq cap ih
  | pq cap _ ih => exact .pq cap ih
  | cond _ ih => exact .cond ih
  | proc pr cmds _ hok ih => exact .proc pr cmds ih (fun i c t h => (hok i c t h).1)
  | sub g cg _ _ _ ih => exact .sub g cg ih
  | start p _ _ _ ih => exact .start p ih

/-- a plain (non-condition) guard / a condition's guard -/
def Plain (w : World) (g : Nat) : Prop := ∃ gd : Guard, w.guards[g]? = some gd ∧ gd.isCond = false
def CondG (w : World) (g : Nat) : Prop := ∃ gd : Guard, w.guards[g]? = some gd ∧ gd.isCond = true

/-- what a loaded world looks like (the part not already in `S3.BInv`) -/
structure LInv (w : World) : Prop where
  nf : w.fault = none
  pr : ∀ p, (w.proc p).held = [] ∧ (w.proc p).status = .created ∧ ∀ i, (w.proc p).vars.getD i 0 = 0
  gv : ∀ i, w.gvars.getD i 0 = 0
  pend : ∀ e ∈ w.ev.pending, 1 ≤ e.item.b ∧ e.item.b ≤ w.procs.size
  uq : ∀ e1 ∈ w.ev.pending, ∀ e2 ∈ w.ev.pending, e1.item.b = e2.item.b → e1 = e2
  hq : ∀ (pl : Nat) (x : Pool), w.pools[pl]? = some x → x.holders = mkHH 3
  rq : ∀ (r : Nat) (x : Res), w.res[r]? = some x → x.holder = none
  kq : ∀ (k : Nat) (x : PQ), w.pqs[k]? = some x → x.queue = mkHH 3 ∧ x.putLog = []
  og : (∀ (r : Nat) (x : Res), w.res[r]? = some x → Plain w x.guard) ∧
       (∀ (r : Nat) (x : Pool), w.pools[r]? = some x → Plain w x.guard) ∧
       (∀ (r : Nat) (x : Buf), w.bufs[r]? = some x → Plain w x.front ∧ Plain w x.rear) ∧
       (∀ (r : Nat) (x : OQ), w.oqs[r]? = some x → Plain w x.front ∧ Plain w x.rear) ∧
       (∀ (r : Nat) (x : PQ), w.pqs[r]? = some x → Plain w x.front ∧ Plain w x.rear)
  cg : ∀ (c g : Nat), w.conds[c]? = some g → CondG w g
  obs : ∀ (g : Nat) (gd : Guard), w.guards[g]? = some gd →
    (gd.isCond = true → gd.observers = []) ∧ ∀ o ∈ gd.observers, CondG w o
  ok : ∀ (p : Pid) (i : Nat) (c : Cmd) (t : String), (w.proc p).script[i]? = some (c, t) → CmdValid w c

theorem push_plain {w : World} {b b' : Bool} {g : Nat} (h : Plain w g) :
    Plain { w with guards := w.guards.push { q := mkHH 3, isCond := b' } } g ∧ (b = b) := by
  obtain ⟨gd, hg, hc⟩ := h
  refine ⟨⟨gd, ?_, hc⟩, rfl⟩
  have hlt : g < w.guards.size := by
    by_cases hi : g < w.guards.size
    · exact hi
    · rw [Array.getElem?_eq_none (Nat.le_of_not_lt hi)] at hg; cases hg
  simp only [Array.getElem?_push]
  rw [if_neg (by omega)]; exact hg

/-- guards are only appended: a property of a guard index survives -/
theorem guards_grow {w w' : World} {P : Guard → Prop} {g : Nat} (hsub : ∀ (i : Nat) (gd : Guard), w.guards[i]? = some gd → w'.guards[i]? = some gd)
    (h : ∃ gd : Guard, w.guards[g]? = some gd ∧ P gd) : ∃ gd : Guard, w'.guards[g]? = some gd ∧ P gd := by
  obtain ⟨gd, hg, hp⟩ := h; exact ⟨gd, hsub g gd hg, hp⟩

theorem push_sub {α : Type} (a : Array α) (x : α) (i : Nat) (y : α) (h : a[i]? = some y) : (a.push x)[i]? = some y := by
  have hlt : i < a.size := by
    by_cases hi : i < a.size
    · exact hi
    · rw [Array.getElem?_eq_none (Nat.le_of_not_lt hi)] at h; cases h
  rw [Array.getElem?_push, if_neg (by omega)]; exact h

/-- adding fresh guards (and possibly objects on them): everything about the old part is kept -/
theorem LInv.grow {w w' : World} (h : LInv w) (hf : w'.fault = w.fault) (hp : w'.procs = w.procs) (hgv : w'.gvars = w.gvars)
    (hev : w'.ev = w.ev)
    (hsub : ∀ (i : Nat) (gd : Guard), w.guards[i]? = some gd → w'.guards[i]? = some gd)
    (hnew : ∀ (i : Nat) (gd : Guard), w'.guards[i]? = some gd → w.guards[i]? = some gd ∨ (gd.observers = [] ∧ gd.q = mkHH 3))
    (hhq : ∀ (pl : Nat) (x : Pool), w'.pools[pl]? = some x → x.holders = mkHH 3)
    (hrq : ∀ (r : Nat) (x : Res), w'.res[r]? = some x → x.holder = none)
    (hkq : ∀ (k : Nat) (x : PQ), w'.pqs[k]? = some x → x.queue = mkHH 3 ∧ x.putLog = [])
    (hog : (∀ (r : Nat) (x : Res), w'.res[r]? = some x → Plain w' x.guard) ∧
       (∀ (r : Nat) (x : Pool), w'.pools[r]? = some x → Plain w' x.guard) ∧
       (∀ (r : Nat) (x : Buf), w'.bufs[r]? = some x → Plain w' x.front ∧ Plain w' x.rear) ∧
       (∀ (r : Nat) (x : OQ), w'.oqs[r]? = some x → Plain w' x.front ∧ Plain w' x.rear) ∧
       (∀ (r : Nat) (x : PQ), w'.pqs[r]? = some x → Plain w' x.front ∧ Plain w' x.rear))
    (hcg : ∀ (c g : Nat), w'.conds[c]? = some g → CondG w' g) (hres : w.res.size ≤ w'.res.size) : LInv w' := by
  have hproc : ∀ p, w'.proc p = w.proc p := fun p => by unfold World.proc; rw [hp]
  refine ⟨hf.trans h.nf, fun p => by rw [hproc]; exact h.pr p, by rw [hgv]; exact h.gv, by rw [hev, hp]; exact h.pend,
    by rw [hev]; exact h.uq, hhq, hrq, hkq, hog, hcg, ?_, ?_⟩
  · intro g gd hg
    rcases hnew g gd hg with hold | ⟨hno, _⟩
    · obtain ⟨h1, h2⟩ := h.obs g gd hold
      exact ⟨h1, fun o ho => guards_grow hsub (h2 o ho)⟩
    · exact ⟨fun _ => hno, fun o ho => by rw [hno] at ho; cases ho⟩
  · intro p i c t hc
    rw [hproc] at hc
    obtain ⟨a, b, c', d⟩ := h.ok p i c t hc
    exact ⟨a, b, c', fun r hr => Nat.lt_of_lt_of_le (d r hr) hres⟩


theorem Plain.grow {w w' : World} {g : Nat} (hsub : ∀ (i : Nat) (gd : Guard), w.guards[i]? = some gd → w'.guards[i]? = some gd)
    (h : Plain w g) : Plain w' g := guards_grow hsub h
theorem CondG.grow {w w' : World} {g : Nat} (hsub : ∀ (i : Nat) (gd : Guard), w.guards[i]? = some gd → w'.guards[i]? = some gd)
    (h : CondG w g) : CondG w' g := guards_grow hsub h

theorem push_new {α : Type} (a : Array α) (x : α) : (a.push x)[a.size]? = some x := by simp

theorem push2_sub {α : Type} (a : Array α) (x y : α) (i : Nat) (z : α) (h : a[i]? = some z) : ((a.push x).push y)[i]? = some z :=
  push_sub _ _ _ _ (push_sub _ _ _ _ h)

theorem push2_get {α : Type} (a : Array α) (x y : α) (i : Nat) (z : α) (h : ((a.push x).push y)[i]? = some z) :
    a[i]? = some z ∨ z = x ∨ z = y := by
  rcases push_get _ _ _ _ h with h1 | ⟨_, h1⟩
  · rcases push_get _ _ _ _ h1 with h2 | ⟨_, h2⟩
    · exact Or.inl h2
    · exact Or.inr (Or.inl h2)
  · exact Or.inr (Or.inr h1)

theorem LInv.addRes {w : World} (h : LInv w) : LInv (addRes w) := by
  have hsub : ∀ (i : Nat) (gd : Guard), w.guards[i]? = some gd → (S3.addRes w).guards[i]? = some gd :=
    fun i gd hg => push_sub _ _ _ _ hg
  refine h.grow rfl rfl rfl rfl hsub ?_ h.hq ?_ h.kq ⟨?_, ?_, ?_, ?_, ?_⟩ (fun c g hc => (h.cg c g hc).grow hsub) (by simp [S3.addRes, newGuardW])
  · intro i gd hg
    rcases push_get _ _ _ _ hg with h1 | ⟨_, rfl⟩
    · exact Or.inl h1
    · exact Or.inr ⟨rfl, rfl⟩
  · intro r x hx
    rcases push_get _ _ _ _ hx with h1 | ⟨_, rfl⟩
    · exact h.rq r x h1
    · rfl
  · intro r x hx
    rcases push_get _ _ _ _ hx with h1 | ⟨_, rfl⟩
    · exact (h.og.1 r x h1).grow hsub
    · exact ⟨{ q := mkHH 3, isCond := false }, push_new _ _, rfl⟩
  · exact fun r x hx => (h.og.2.1 r x hx).grow hsub
  · exact fun r x hx => ⟨(h.og.2.2.1 r x hx).1.grow hsub, (h.og.2.2.1 r x hx).2.grow hsub⟩
  · exact fun r x hx => ⟨(h.og.2.2.2.1 r x hx).1.grow hsub, (h.og.2.2.2.1 r x hx).2.grow hsub⟩
  · exact fun r x hx => ⟨(h.og.2.2.2.2 r x hx).1.grow hsub, (h.og.2.2.2.2 r x hx).2.grow hsub⟩

theorem LInv.addPool {w : World} (h : LInv w) (cap : Nat) : LInv (addPool w cap) := by
  have hsub : ∀ (i : Nat) (gd : Guard), w.guards[i]? = some gd → (S3.addPool w cap).guards[i]? = some gd :=
    fun i gd hg => push_sub _ _ _ _ hg
  refine h.grow rfl rfl rfl rfl hsub ?_ ?_ h.rq h.kq ⟨?_, ?_, ?_, ?_, ?_⟩ (fun c g hc => (h.cg c g hc).grow hsub) (Nat.le_refl _)
  · intro i gd hg
    rcases push_get _ _ _ _ hg with h1 | ⟨_, rfl⟩
    · exact Or.inl h1
    · exact Or.inr ⟨rfl, rfl⟩
  · intro r x hx
    rcases push_get _ _ _ _ hx with h1 | ⟨_, rfl⟩
    · exact h.hq r x h1
    · rfl
  · exact fun r x hx => (h.og.1 r x hx).grow hsub
  · intro r x hx
    rcases push_get _ _ _ _ hx with h1 | ⟨_, rfl⟩
    · exact (h.og.2.1 r x h1).grow hsub
    · exact ⟨{ q := mkHH 3, isCond := false }, push_new _ _, rfl⟩
  · exact fun r x hx => ⟨(h.og.2.2.1 r x hx).1.grow hsub, (h.og.2.2.1 r x hx).2.grow hsub⟩
  · exact fun r x hx => ⟨(h.og.2.2.2.1 r x hx).1.grow hsub, (h.og.2.2.2.1 r x hx).2.grow hsub⟩
  · exact fun r x hx => ⟨(h.og.2.2.2.2 r x hx).1.grow hsub, (h.og.2.2.2.2 r x hx).2.grow hsub⟩

theorem two_new (w : World) : Plain { w with guards := (w.guards.push { q := mkHH 3, isCond := false }).push { q := mkHH 3, isCond := false } } w.guards.size ∧
    Plain { w with guards := (w.guards.push { q := mkHH 3, isCond := false }).push { q := mkHH 3, isCond := false } } (w.guards.size + 1) := by
  constructor
  · exact ⟨{ q := mkHH 3, isCond := false }, push_sub _ _ _ _ (push_new _ _), rfl⟩
  · refine ⟨{ q := mkHH 3, isCond := false }, ?_, rfl⟩
    have := push_new (w.guards.push { q := mkHH 3, isCond := false }) ({ q := mkHH 3, isCond := false } : Guard)
    simpa using this

theorem LInv.addBuf {w : World} (h : LInv w) (cap : Nat) : LInv (addBuf w cap) := by
  have hsub : ∀ (i : Nat) (gd : Guard), w.guards[i]? = some gd → (S3.addBuf w cap).guards[i]? = some gd :=
    fun i gd hg => push2_sub _ _ _ _ _ hg
  refine h.grow rfl rfl rfl rfl hsub ?_ h.hq h.rq h.kq ⟨?_, ?_, ?_, ?_, ?_⟩ (fun c g hc => (h.cg c g hc).grow hsub) (Nat.le_refl _)
  · intro i gd hg
    rcases push2_get _ _ _ _ _ hg with h1 | rfl | rfl
    · exact Or.inl h1
    · exact Or.inr ⟨rfl, rfl⟩
    · exact Or.inr ⟨rfl, rfl⟩
  · exact fun r x hx => (h.og.1 r x hx).grow hsub
  · exact fun r x hx => (h.og.2.1 r x hx).grow hsub
  · intro r x hx
    rcases push_get _ _ _ _ hx with h1 | ⟨_, rfl⟩
    · exact ⟨(h.og.2.2.1 r x h1).1.grow hsub, (h.og.2.2.1 r x h1).2.grow hsub⟩
    · exact two_new w
  · exact fun r x hx => ⟨(h.og.2.2.2.1 r x hx).1.grow hsub, (h.og.2.2.2.1 r x hx).2.grow hsub⟩
  · exact fun r x hx => ⟨(h.og.2.2.2.2 r x hx).1.grow hsub, (h.og.2.2.2.2 r x hx).2.grow hsub⟩

theorem LInv.addOQ {w : World} (h : LInv w) (cap : Nat) : LInv (addOQ w cap) := by
  have hsub : ∀ (i : Nat) (gd : Guard), w.guards[i]? = some gd → (S3.addOQ w cap).guards[i]? = some gd :=
    fun i gd hg => push2_sub _ _ _ _ _ hg
  refine h.grow rfl rfl rfl rfl hsub ?_ h.hq h.rq h.kq ⟨?_, ?_, ?_, ?_, ?_⟩ (fun c g hc => (h.cg c g hc).grow hsub) (Nat.le_refl _)
  · intro i gd hg
    rcases push2_get _ _ _ _ _ hg with h1 | rfl | rfl
    · exact Or.inl h1
    · exact Or.inr ⟨rfl, rfl⟩
    · exact Or.inr ⟨rfl, rfl⟩
  · exact fun r x hx => (h.og.1 r x hx).grow hsub
  · exact fun r x hx => (h.og.2.1 r x hx).grow hsub
  · exact fun r x hx => ⟨(h.og.2.2.1 r x hx).1.grow hsub, (h.og.2.2.1 r x hx).2.grow hsub⟩
  · intro r x hx
    rcases push_get _ _ _ _ hx with h1 | ⟨_, rfl⟩
    · exact ⟨(h.og.2.2.2.1 r x h1).1.grow hsub, (h.og.2.2.2.1 r x h1).2.grow hsub⟩
    · exact two_new w
  · exact fun r x hx => ⟨(h.og.2.2.2.2 r x hx).1.grow hsub, (h.og.2.2.2.2 r x hx).2.grow hsub⟩

theorem LInv.addPQ {w : World} (h : LInv w) (cap : Nat) : LInv (addPQ w cap) := by
  have hsub : ∀ (i : Nat) (gd : Guard), w.guards[i]? = some gd → (S3.addPQ w cap).guards[i]? = some gd :=
    fun i gd hg => push2_sub _ _ _ _ _ hg
  refine h.grow rfl rfl rfl rfl hsub ?_ h.hq h.rq ?_ ⟨?_, ?_, ?_, ?_, ?_⟩ (fun c g hc => (h.cg c g hc).grow hsub) (Nat.le_refl _)
  · intro i gd hg
    rcases push2_get _ _ _ _ _ hg with h1 | rfl | rfl
    · exact Or.inl h1
    · exact Or.inr ⟨rfl, rfl⟩
    · exact Or.inr ⟨rfl, rfl⟩
  · intro r x hx
    rcases push_get _ _ _ _ hx with h1 | ⟨_, rfl⟩
    · exact h.kq r x h1
    · exact ⟨rfl, rfl⟩
  · exact fun r x hx => (h.og.1 r x hx).grow hsub
  · exact fun r x hx => (h.og.2.1 r x hx).grow hsub
  · exact fun r x hx => ⟨(h.og.2.2.1 r x hx).1.grow hsub, (h.og.2.2.1 r x hx).2.grow hsub⟩
  · exact fun r x hx => ⟨(h.og.2.2.2.1 r x hx).1.grow hsub, (h.og.2.2.2.1 r x hx).2.grow hsub⟩
  · intro r x hx
    rcases push_get _ _ _ _ hx with h1 | ⟨_, rfl⟩
    · exact ⟨(h.og.2.2.2.2 r x h1).1.grow hsub, (h.og.2.2.2.2 r x h1).2.grow hsub⟩
    · exact two_new w

theorem LInv.addCond {w : World} (h : LInv w) : LInv (addCond w) := by
  have hsub : ∀ (i : Nat) (gd : Guard), w.guards[i]? = some gd → (S3.addCond w).guards[i]? = some gd :=
    fun i gd hg => push_sub _ _ _ _ hg
  refine h.grow rfl rfl rfl rfl hsub ?_ h.hq h.rq h.kq ⟨?_, ?_, ?_, ?_, ?_⟩ ?_ (Nat.le_refl _)
  · intro i gd hg
    rcases push_get _ _ _ _ hg with h1 | ⟨_, rfl⟩
    · exact Or.inl h1
    · exact Or.inr ⟨rfl, rfl⟩
  · exact fun r x hx => (h.og.1 r x hx).grow hsub
  · exact fun r x hx => (h.og.2.1 r x hx).grow hsub
  · exact fun r x hx => ⟨(h.og.2.2.1 r x hx).1.grow hsub, (h.og.2.2.1 r x hx).2.grow hsub⟩
  · exact fun r x hx => ⟨(h.og.2.2.2.1 r x hx).1.grow hsub, (h.og.2.2.2.1 r x hx).2.grow hsub⟩
  · exact fun r x hx => ⟨(h.og.2.2.2.2 r x hx).1.grow hsub, (h.og.2.2.2.2 r x hx).2.grow hsub⟩
  · intro c g hc
    rcases push_get _ _ _ _ hc with h1 | ⟨_, rfl⟩
    · exact (h.cg c g h1).grow hsub
    · exact ⟨{ q := mkHH 3, isCond := true }, push_new _ _, rfl⟩

theorem LInv.addProc {w : World} (h : LInv w) (pr : Int) (cmds : Array (Cmd × String))
    (hok : ∀ (i : Nat) (c : Cmd) (t : String), cmds[i]? = some (c, t) → CmdValid w c) : LInv (addProc w pr cmds) := by
  have hproc : ∀ p, (S3.addProc w pr cmds).proc p = w.proc p ∨
      (S3.addProc w pr cmds).proc p = ({ prio := pr, script := cmds } : Proc) := by
    intro p
    unfold World.proc S3.addProc
    simp only [Array.getD_eq_getD_getElem?, Array.getElem?_push]
    split
    · right; rfl
    · left; rfl
  refine ⟨h.nf, fun p => ?_, h.gv, fun e he => ⟨(h.pend e he).1, ?_⟩, h.uq, h.hq, h.rq, h.kq, h.og, h.cg, h.obs, ?_⟩
  rotate_left 2
  · intro p i c t hs
    rcases hproc p with e | e <;> rw [e] at hs
    · exact h.ok p i c t hs
    · exact hok i c t hs
  · rcases hproc p with e | e <;> rw [e]
    · exact h.pr p
    · refine ⟨rfl, rfl, fun i => ?_⟩
      show (Array.replicate 16 0).getD i 0 = 0
      simp [Array.getD_eq_getD_getElem?, Array.getElem?_replicate]
      split <;> rfl
  · have := (h.pend e he).2
    simp only [S3.addProc, Array.size_push]; omega

theorem LInv.subscribe {w : World} (h : LInv w) (g cg : Nat) (hg : Plain w g) (hc : CondG w cg) : LInv (subscribe w g cg) := by
  have hget : ∀ (i : Nat) (gd' : Guard), (S3.subscribe w g cg).guards[i]? = some gd' →
      ∃ gd, w.guards[i]? = some gd ∧ gd'.isCond = gd.isCond ∧
        ((i ≠ g ∧ gd' = gd) ∨ (i = g ∧ gd'.observers = cg :: gd.observers)) := by
    intro i gd' hi
    simp only [S3.subscribe, Array.getElem?_modify] at hi
    split at hi
    · rename_i e
      cases hx : w.guards[i]? with
      | none => rw [hx] at hi; cases hi
      | some gd0 =>
        rw [hx] at hi
        simp only [Option.map_some, Option.some.injEq] at hi
        subst hi
        exact ⟨gd0, rfl, rfl, Or.inr ⟨e.symm, rfl⟩⟩
    · rename_i e
      exact ⟨gd', hi, rfl, Or.inl ⟨fun e' => e e'.symm, rfl⟩⟩
  have hflag : ∀ (b : Bool) (i : Nat), (∃ gd : Guard, w.guards[i]? = some gd ∧ gd.isCond = b) →
      ∃ gd : Guard, (S3.subscribe w g cg).guards[i]? = some gd ∧ gd.isCond = b := by
    intro b i ⟨gd, hi, hb⟩
    simp only [S3.subscribe, Array.getElem?_modify]
    split
    · exact ⟨{ gd with observers := cg :: gd.observers }, by rw [hi]; rfl, hb⟩
    · exact ⟨gd, hi, hb⟩
  refine ⟨h.nf, h.pr, h.gv, h.pend, h.uq, h.hq, h.rq, h.kq, ⟨?_, ?_, ?_, ?_, ?_⟩, fun c g' hc' => hflag true g' (h.cg c g' hc'), ?_, h.ok⟩
  · exact fun r x hx => hflag false _ (h.og.1 r x hx)
  · exact fun r x hx => hflag false _ (h.og.2.1 r x hx)
  · exact fun r x hx => ⟨hflag false _ (h.og.2.2.1 r x hx).1, hflag false _ (h.og.2.2.1 r x hx).2⟩
  · exact fun r x hx => ⟨hflag false _ (h.og.2.2.2.1 r x hx).1, hflag false _ (h.og.2.2.2.1 r x hx).2⟩
  · exact fun r x hx => ⟨hflag false _ (h.og.2.2.2.2 r x hx).1, hflag false _ (h.og.2.2.2.2 r x hx).2⟩
  · intro i gd' hi
    obtain ⟨gd, hgd, hcnd, hcase⟩ := hget i gd' hi
    obtain ⟨h1, h2⟩ := h.obs i gd hgd
    rcases hcase with ⟨_, rfl⟩ | ⟨rfl, hobs⟩
    · exact ⟨h1, fun o ho => hflag true o (h2 o ho)⟩
    · obtain ⟨gd0, hg0, hplain⟩ := hg
      rw [hgd] at hg0; cases hg0
      refine ⟨fun hc' => ?_, fun o ho => ?_⟩
      · rw [hcnd, hplain] at hc'; cases hc'
      · rw [hobs] at ho
        rcases List.mem_cons.1 ho with rfl | ho'
        · exact hflag true _ hc
        · exact hflag true o (h2 o ho')

theorem LInv.autostart {w : World} (h : LInv w) (p : Pid) (hp : p < w.procs.size) (hfresh : ∀ e ∈ w.ev.pending, e.item.b ≠ p + 1) :
    LInv (autostart w p) := by
  unfold S3.autostart
  rw [S3.sched_now]
  refine ⟨h.nf, h.pr, h.gv, ?_, ?_, h.hq, h.rq, h.kq, h.og, h.cg, h.obs, h.ok⟩
  · intro e he
    simp only [pushEv_pending, List.mem_cons] at he
    rcases he with rfl | he
    · simp only [mkEv, pushEv_procs]; exact ⟨Nat.succ_le_succ (Nat.zero_le _), Nat.succ_le_of_lt hp⟩
    · exact h.pend e he
  · intro e1 h1 e2 h2 hb
    simp only [pushEv_pending, List.mem_cons] at h1 h2
    rcases h1 with rfl | h1 <;> rcases h2 with rfl | h2
    · rfl
    · exact absurd hb.symm (by simpa [mkEv] using hfresh e2 h2)
    · exact absurd hb (by simpa [mkEv] using hfresh e1 h1)
    · exact h.uq e1 h1 e2 h2 hb

theorem LInv.empty : LInv {} := by
  refine ⟨rfl, fun p => ⟨rfl, rfl, fun i => ?_⟩, fun i => ?_, fun e he => (by cases he), fun e he => (by cases he),
    fun pl x hx => (by cases hx), fun r x hx => (by cases hx), fun k x hx => (by cases hx),
    ⟨fun r x hx => (by cases hx), fun r x hx => (by cases hx), fun r x hx => (by cases hx), fun r x hx => (by cases hx),
     fun r x hx => (by cases hx)⟩, fun c g hc => (by cases hc), fun g gd hg => (by cases hg), fun p i c t hs => (by cases hs)⟩
  · show (Array.replicate 16 0).getD i 0 = 0
    simp [Array.getD_eq_getD_getElem?, Array.getElem?_replicate]
    split <;> rfl
  · show (Array.replicate 16 0).getD i 0 = 0
    simp [Array.getD_eq_getD_getElem?, Array.getElem?_replicate]
    split <;> rfl

theorem Loaded.linv {w : World} (h : Loaded w) : LInv w := by
  induction h with
  | empty => exact LInv.empty
  | res _ ih => exact ih.addRes
  | pool cap _ ih => exact ih.addPool cap
  | buf cap _ ih => exact ih.addBuf cap
  | oq cap _ ih => exact ih.addOQ cap
  | pq cap _ ih => exact ih.addPQ cap
  | cond _ ih => exact ih.addCond
  | proc pr cmds _ hok ih => exact ih.addProc pr cmds hok
  | sub g cg _ hg hc ih => exact ih.subscribe g cg hg hc
  | start p _ hp hf ih => exact ih.autostart p hp hf

end CimbaModel.Sim.S4
