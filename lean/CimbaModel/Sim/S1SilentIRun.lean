/-
  S1 — `SilentI` through resumptions, scripts, dispatch and the run loop; the complete set of invariants `FullInv`.
-/
import CimbaModel.Sim.S1SilentI

namespace CimbaModel.Sim
open CimbaModel CimbaModel.Event CimbaModel.Generated
open CimbaModel.HashHeap (HTag Item Order HH WF)

/-- all the invariants of this development together -/
structure FullInv (w : World) : Prop where
  all : AllInv w
  pool : PInv w
  intr : SilentI w

set_option maxHeartbeats 1000000 in
theorem tgti_resumeFrame {st : Pid → Status} {w : World} (h : TgtI st w) (hp : PInv w) (p : Pid) (hd : DeadRecA p w)
    (hst : ∀ q, (w.proc q).status = st q) (f : Frame) (sig : Int) : TgtI st (resumeFrame w p f sig).1 := by
  cases f
  case pool pl rem initially preempt =>
    simp only [resumeFrame]
    split
    · exact h
    · rename_i x hx
      have hA := allButIntr_notIntr
      have h1 : TgtI st (guardWaitLeave w x.guard p sig) :=
        ec_guardWaitLeave (tgti_closed st) hA.event ⟨hA.res, hA.cond⟩ _ _ _ _ h
      split
      · exact ej_poolRollback (tgti_closed st) hA _ _ _ _ h1
      · exact tgti_poolLoop h1 (pinv_guardWaitLeave hp _ _ _) p (dra_guardWaitLeave hd _ _ _)
          (fun q => by rw [← hst q]; simp) _ _ _ _
  all_goals simp only [resumeFrame]
  all_goals tgti_cmd (tgti_closed st) h

theorem fullinv_of_same {w w' : World} (h : FullInv w) (he : w'.ev = w.ev) (hp : w'.procs = w.procs)
    (hr : ∀ r, w'.rv r = w.rv r) (hpl : w'.pools = w.pools) : FullInv w' :=
  ⟨allinv_of_same h.all he hp hr, pinv_frame h.pool hpl hp, silentI_of_same h.intr he (fun q => by rw [proc_congr hp])⟩

theorem fullinv_pc {w : World} (h : FullInv w) (p : Pid) (n : Nat) : FullInv (w.modProc p fun y => { y with pc := n }) :=
  ⟨allinv_pc h.all p n, pinv_modProc_keep h.pool _ _ (fun _ => rfl), silentI_of_same h.intr rfl (fun q => by simp)⟩

theorem fullinv_finishProc {w : World} (h : FullInv w) (z : Pid) (val : Int) (stopped : Bool) :
    FullInv (finishProc w z val stopped) :=
  ⟨allinv_finishProc h.all z val stopped, pinv_finishProc h.pool z val stopped, silentI_finishProc h.intr z val stopped⟩

theorem fullinv_execCmd {w : World} (h : FullInv w) (p : Pid) (hp : p < w.procs.size)
    (hrun : (w.proc p).status = .running) (hpa : w.pa p = []) (c : Cmd) : FullInv (execCmd w p c).1 :=
  ⟨allinv_execCmd h.all p hp hrun hpa c, pinv_execCmd h.pool p hp c,
   silentI_execCmd h.intr h.pool h.all.dead p hrun c⟩

theorem fullinv_runScript : ∀ (fuel : Nat) {w : World}, FullInv w → ∀ p,
    (p < w.procs.size → (w.proc p).status = .running) → w.pa p = [] → FullInv (runScript fuel w p) := by
  intro fuel
  induction fuel with
  | zero => intro w h p _ _; unfold runScript; exact fullinv_of_same h (by simp) (by simp) (by simp) (by simp)
  | succ n ih =>
    intro w h p hrun hpa
    unfold runScript
    dsimp only
    split
    · exact fullinv_finishProc (fullinv_of_same h (by simp) (by simp) (by simp) (by simp)) p 0 false
    · rename_i c text hc
      have hp : p < w.procs.size := lt_np_of_script w p _ _ hc
      have hrun := hrun hp
      have h1 : FullInv (w.emit s!"c {p} {(w.proc p).pc} {w.now} {text}") :=
        fullinv_of_same h (by simp) (by simp) (by simp) (by simp)
      have hr1 : ((w.emit s!"c {p} {(w.proc p).pc} {w.now} {text}").proc p).status = .running := by simpa using hrun
      have hpa1 : (w.emit s!"c {p} {(w.proc p).pc} {w.now} {text}").pa p = [] := by simpa using hpa
      have h2 := fullinv_execCmd h1 p (by simpa using hp) hr1 hpa1 c
      have h3 := execCmd_running _ p hr1 c
      have h4 := (winv_execCmd h1.all.wait p (by simpa using hp) hpa1 c).2
      split
      · rename_i w2 v extra heq
        rw [heq] at h2 h3 h4
        have hr2 : (w2.proc p).status = .running := h3 (by intro w' e; cases e)
        have hpa2 : w2.pa p = [] := by
          rcases h4 with e | ⟨q, e⟩
          · exact e
          · cases e
        refine ih (fullinv_pc (fullinv_of_same h2 (by simp) (by simp) (by simp) (by simp)) p _) p ?_ ?_
        · intro _; simpa using hr2
        · simpa using hpa2
      · rename_i w2 heq
        rw [heq] at h2 h3 h4
        have hr2 : (w2.proc p).status = .running := h3 (by intro w' e; cases e)
        have hpa2 : w2.pa p = [] := by
          rcases h4 with e | ⟨q, e⟩
          · exact e
          · cases e
        refine ih (fullinv_pc (fullinv_of_same h2 (by simp) (by simp) (by simp) (by simp)) p _) p ?_ ?_
        · intro _; simpa using hr2
        · simpa using hpa2
      · rename_i w2 heq
        rw [heq] at h2
        exact h2
      · rename_i w2 heq
        rw [heq] at h2
        split <;> exact fullinv_of_same h2 (by simp) (by simp) (by simp) (by simp)

theorem fullinv_resumeProc {w : World} (h : FullInv w) (p : Pid) (sig : Int) : FullInv (resumeProc w p sig) := by
  have hA := allinv_resumeProc h.all p sig
  have hP := pinv_resumeProc h.pool p sig
  refine ⟨hA, hP, ?_⟩
  unfold resumeProc
  dsimp only
  split
  · exact silentI_of_same h.intr (by simp) (fun q => by simp)
  · rename_i hrun
    have hrun : (w.proc p).status = .running := Classical.not_not.1 hrun
    have hp : p < w.procs.size := lt_np_of_status w p (by rw [hrun]; decide)
    split
    · exact silentI_of_same h.intr (by simp) (fun q => by simp)
    · rename_i f hf
      have hs0 : ∀ q, ((w.modProc p fun y => { y with blocked := none }).proc q).status = (w.proc q).status :=
        fun q => by simp
      have hD0 : DeadRecA p (w.modProc p fun y => { y with blocked := none }) :=
        ⟨dr_modProc_shrink h.all.dead p _ ⟨rfl, fun e => e, fun e => e, fun e => e, fun _ => rfl⟩, by simpa using hrun⟩
      have hP0 : PInv (w.modProc p fun y => { y with blocked := none }) :=
        pinv_modProc_keep h.pool _ _ (fun _ => rfl)
      have hT := tgti_resumeFrame (st := fun q => (w.proc q).status)
        ((tgti_closed _).ev_only (w' := w.modProc p fun y => { y with blocked := none }) h.intr rfl) hP0 p hD0 hs0 f sig
      have hst : ∀ q, ((resumeFrame (w.modProc p fun y => { y with blocked := none }) p f sig).1.proc q).status
          = (w.proc q).status := fun q => by rw [resumeFrame_status, hs0]
      have hS : SilentI (resumeFrame (w.modProc p fun y => { y with blocked := none }) p f sig).1 :=
        SilentI.of_tgt hT hst
      -- the other invariants of the resumed world
      have hH := hinv_resumeFrame (w := w.modProc p fun y => { y with blocked := none })
        (h.all.hold.of_same (fun r => rfl) (fun q r => by simp)) p (by simpa using hp) f sig
      obtain ⟨hW, hpa⟩ := winv_resume_any h.all.wait p f hf sig
      have hD := dra_resumeFrame hD0 f sig
      have hS4 : Silent (resumeFrame (w.modProc p fun y => { y with blocked := none }) p f sig).1 :=
        Silent.of_tgt (tgt_resumeFrame ((tgt_closed _).ev_only (w' := w.modProc p fun y => { y with blocked := none })
          h.all.silent rfl) p f sig) hst
      have hPr := pinv_resumeFrame hP0 p (by simpa using hp) f sig
      have hfull : FullInv (resumeFrame (w.modProc p fun y => { y with blocked := none }) p f sig).1 :=
        ⟨⟨hH, hW, hD.1, hS4⟩, hPr, hS⟩
      split
      · rename_i w2 v extra heq
        rw [heq] at hfull hpa hst
        refine (fullinv_runScript _ (fullinv_pc (fullinv_of_same hfull (by simp) (by simp) (by simp) (by simp)) p _)
          p ?_ ?_).intr
        · intro _
          have := hst p
          simp at this ⊢
          rw [this]; exact hrun
        · simpa using hpa
      all_goals (rename_i w2 heq; rw [heq] at hfull; exact hfull.intr)

/-- **every dispatched event keeps all the invariants** -/
theorem fullinv_dispatch {w w' : World} (h : FullInv w) (hd : dispatch w = some w') : FullInv w' := by
  refine ⟨allinv_dispatch h.all hd, pinv_dispatch h.pool hd, ?_⟩
  cases hex : executeNext w.ev with
  | none => unfold dispatch at hd; simp [hex] at hd
  | some x =>
    obtain ⟨t, ev'⟩ := x
    rw [dispatch_eq w t ev' hex] at hd
    injection hd with hd
    subst hd
    obtain ⟨hmem, hpend⟩ := executeNext_spec hex
    have hA := allButIntr_notIntr
    -- all invariants in the world in which the action runs
    have h1S : SilentI (afterPop w t ev') := by
      refine SilentI.of_tgt (w := w) ?_ (fun q => by rw [afterPop_proc])
      unfold afterPop
      apply ec_wakeEventWaiters (tgti_closed _) hA.event
      exact (tgti_closed _).ev_only (w := { w with ev := ev' })
        ((tgti_closed _).sub w ev' (by rw [hpend]; exact List.filter_sublist) h.intr) rfl
    have h1A : AllInv (afterPop w t ev') := by
      refine ⟨?_, (winv_afterPop h.all.wait t ev' hex).1, h.all.dead.of_proc (afterPop_proc w t ev'), ?_⟩
      · unfold afterPop; exact h.all.hold.of_same (fun r => by simp) (fun q r => by simp)
      · refine Silent.of_tgt (w := w) ?_ (fun q => by rw [afterPop_proc])
        unfold afterPop
        apply ec_wakeEventWaiters (tgt_closed _) internal_loud.event
        exact (tgt_closed _).ev_only (w := { w with ev := ev' })
          ((tgt_closed _).sub w ev' (by rw [hpend]; exact List.filter_sublist) h.all.silent) rfl
    have h1P : PInv (afterPop w t ev') := by
      unfold afterPop
      exact pinv_wakeEventWaiters (w := { w with ev := ev', dispatched := w.dispatched + 1, evWaiters := (popWaiters w.evWaiters t.key).2 }) (pinv_frame h.pool rfl rfl) _ _
    have h1 : FullInv (afterPop w t ev') := ⟨h1A, h1P, h1S⟩
    have hrak : ∀ (k : Await → Bool), WInv (removeAwaitKind (afterPop w t ev') (t.item.b - 1) k).1 →
        FullInv (removeAwaitKind (afterPop w t ev') (t.item.b - 1) k).1 := fun k hk =>
      ⟨⟨h1A.hold.of_same (fun r => by simp) (fun q r => by simp), hk, dr_removeAwaitKind h1A.dead _ _,
          silent_of_same h1A.silent (by simp) (fun q => by simp)⟩,
        pinv_removeAwaitKind h1P _ _, silentI_of_same h1S (by simp) (fun q => by simp)⟩
    split
    · -- start
      split
      · exact silentI_of_same h1S (by simp) (fun q => by simp)
      · rename_i hnr
        have hnr' : (w.proc (t.item.b - 1)).status ≠ .running := by rw [afterPop_proc] at hnr; exact hnr
        have hpa : (afterPop w t ev').pa (t.item.b - 1) = [] := by
          rw [afterPop_pa]; unfold World.pa; rw [(h.all.dead _ hnr').1]; rfl
        have hstart : FullInv ((afterPop w t ev').modProc (t.item.b - 1) fun y =>
            { y with status := .running, pc := 0, blocked := none }) := by
          refine ⟨⟨h1A.hold.of_same (fun r => rfl) (fun q r => by simp), ?_,
            dr_modProc_to_alive h1A.dead _ _ (fun x => rfl), ?_⟩, pinv_modProc_keep h1P _ _ (fun _ => rfl), ?_⟩
          · exact h1A.wait.of_views' (fun z => by simp) (fun q => by simp)
              (fun z hz => by
                have hzp : z ≠ t.item.b - 1 := fun e => hz (e ▸ hpa)
                rw [proc_modProc_ne _ _ _ _ hzp])
              ((wev_closed _).ev_only h1A.wait.wev rfl)
          · unfold Silent
            refine tgt_mono ((tgt_closed _).ev_only h1A.silent rfl) ?_
            intro q hq
            rw [proc_modProc]; split
            · rfl
            · exact hq
          · unfold SilentI
            refine tgti_mono ((tgti_closed _).ev_only h1S rfl) ?_
            intro q hq
            rw [proc_modProc]; split
            · rfl
            · exact hq
        refine (fullinv_runScript _ hstart _ ?_ (by simpa using hpa)).intr
        intro hlt
        rw [proc_modProc_self _ _ _ (by simpa using hlt)]
    · split
      · -- timer
        refine (fullinv_resumeProc ?_ _ _).intr
        exact ⟨⟨h1A.hold.of_same (fun r => by simp) (fun q r => by simp),
            h1A.wait.of_views' (fun z => by simp) (fun q => by simp) (fun z _ => by simp)
              ((wev_closed _).ev_only h1A.wait.wev (by simp)),
            dr_removeAwait h1A.dead _ _, silent_of_same h1A.silent (by simp) (fun q => by simp)⟩,
          pinv_removeAwait h1P _ _, silentI_of_same h1S (by simp) (fun q => by simp)⟩
      · split
        · rename_i ha
          have h2 := hrak isProcA (winv_pop_proc h.all.wait t ev' hex ha)
          split
          · exact (fullinv_resumeProc h2 _ _).intr
          · exact h2.intr
        · split
          · have h2 := hrak isEventA (winv_removeAwaitKind_other h1A.wait _ _ (fun _ => rfl))
            split
            · exact (fullinv_resumeProc h2 _ _).intr
            · exact h2.intr
          · split
            · split
              · exact (fullinv_resumeProc h1 _ _).intr
              · exact h1S
            · split
              · have h2 := hrak isGuardA (winv_removeAwaitKind_other h1A.wait _ _ (fun _ => rfl))
                split
                · exact (fullinv_resumeProc h2 _ _).intr
                · exact h2.intr
              · split
                · refine (fullinv_resumeProc ?_ _ _).intr
                  exact ⟨⟨h1A.hold.of_same (fun r => by simp) (fun q r => by simp), winv_cancelAwaiteds h1A.wait _,
                      dr_cancelAwaiteds h1A.dead _,
                      Silent.of_tgt (w := afterPop w t ev')
                        (ec_cancelAwaiteds (tgt_closed _) internal_loud.event ⟨internal_loud.res, internal_loud.cond⟩ _ _ h1A.silent)
                        (fun q => by simp)⟩,
                    pinv_cancelAwaiteds h1P _,
                    SilentI.of_tgt (w := afterPop w t ev')
                      (ec_cancelAwaiteds (tgti_closed _) hA.event ⟨hA.res, hA.cond⟩ _ _ h1S) (fun q => by simp)⟩
                · split
                  · exact (fullinv_resumeProc h1 _ _).intr
                  · exact h1S

theorem fullinv_runAll : ∀ (fuel : Nat) {w : World}, FullInv w → FullInv (runAll fuel w) := by
  intro fuel
  induction fuel with
  | zero => intro w h; unfold runAll; exact fullinv_of_same h (by simp) (by simp) (by simp) (by simp)
  | succ n ih =>
    intro w h
    unfold runAll
    split
    · exact h
    · split
      · exact h
      · rename_i w' hd
        exact ih (fullinv_dispatch h hd)

end CimbaModel.Sim
