/-
  S4 — the strong timer invariant, part 6: the bundles.

  * `TT w`  = I_timers (`S3.TInv noEx`) ∧ `TL` (every TIME awaitable has its pending timer: no "or was cancelled"
    escape) ∧ `VarInv` (what the handle variables can name).
  * `TTH w` = `TT w` ∧ `FrInv w` (the handle recorded in a suspended `hold` names — if anything pending — the timer of
    that process and is not from the future; the variable recorded in a suspended `priority_queue_put` is a
    priority-queue variable).  `TTH` is the self-contained invariant: it is preserved by `dispatch` for every program
    that satisfies `DurOk` and `VarsOk`.
-/
import CimbaModel.Sim.S4TimerRun

namespace CimbaModel.Sim.S4
open CimbaModel CimbaModel.Sim CimbaModel.Sim.S3 CimbaModel.Event CimbaModel.Generated CimbaModel.KPQ
open CimbaModel.HashHeap (HTag Item Order HH WF abs liveTags)

structure TT (w : World) : Prop where
  t : S3.TInv S3.noEx w
  tl : TL w
  vi : VarInv w

structure TTH (w : World) : Prop where
  tt : TT w
  hold : FrInv w

variable {fr : Bool} {w : World} {p : Pid}

theorem TT.toX (h : TT w) : TXI false w := ⟨h.t, ⟨h.t.ei, h.tl, h.vi, fun h => by cases h⟩⟩
theorem TXI.toTT (h : TXI fr w) : TT w := ⟨h.t, h.x.tl, h.x.vi⟩
theorem TTH.toX (h : TTH w) : TXI true w := ⟨h.tt.t, ⟨h.tt.t.ei, h.tt.tl, h.tt.vi, fun _ => h.hold⟩⟩
theorem TXI.toTTH (h : TXI true w) : TTH w := ⟨h.toTT, h.x.fi rfl⟩

/-! ### `TT` -/

theorem TT.fail (h : TT w) (m : String) : TT (w.fail m) := (h.toX.fail m).toTT
theorem TT.emit (h : TT w) (l : String) : TT (w.emit l) := (h.toX.emit l).toTT

theorem TT.modProc_ctl (h : TT w) (p : Pid) (f : Proc → Proc) (hf : ∀ x, (f x).awaits = x.awaits ∧ (f x).vars = x.vars) :
    TT (w.modProc p f) :=
  (h.toX.modProc_ctl p f (fun x => ⟨(hf x).1, (hf x).2, fun h => by cases h⟩)).toTT

theorem TT.execCmd (h : TT w) (hlt : p < w.procs.size) (c : Cmd) (_hok : S3.CmdOk c) (hd : DurOk c) (hv : VarsOk c) :
    TT (Sim.execCmd w p c).1 :=
  (h.toX.execCmd hlt c hd hv).toTT

/-- the side conditions: the handle of a `hold` frame names (if a pending timer at all) a timer of the resumed process,
    the variable of a `priority_queue_put` frame is a priority-queue variable -/
theorem TT.resumeFrame (h : TT w) (f : Frame) (sig : Int)
    (hh : ∀ k, f = .hold k → ∀ e ∈ w.ev.pending, e.key = k → e.item.a = aTime → e.item.b = p + 1)
    (hq : ∀ k obj pri v, f = .pqPut k obj pri v → 4 ≤ v ∧ v < 8) : TT (Sim.resumeFrame w p f sig).1 :=
  (h.toX.resumeFrame f sig hh hq).toTT

theorem TT.finishProc (h : TT w) (p : Pid) (v : Int) (s : Bool) : TT (Sim.finishProc w p v s) :=
  (h.toX.finishProc p v s).toTT

theorem TT.takeNext_other (h : TT w) {t : HTag} {ev' : EvQ} (hn : executeNext w.ev = some (t, ev'))
    (ha : t.item.a ≠ aTime) : TT (S3.takeNext w t ev') :=
  (h.toX.takeNext_other hn ha).toTT

theorem TT.takeNext_time (h : TT w) {t : HTag} {ev' : EvQ} (hn : executeNext w.ev = some (t, ev'))
    (ha : t.item.a = aTime) : TT (Sim.removeAwait (S3.takeNext w t ev') (t.item.b - 1) (.time t.key)).1 :=
  (h.toX.takeNext_time hn ha).toTT

theorem TT.removeAwaitKind_fst (h : TT w) (p : Pid) (k : Await → Bool) (hk : ∀ a, k a = true → S3.isTimeA a = false) :
    TT (Sim.removeAwaitKind w p k).1 :=
  (h.toX.removeAwaitKind_fst p k hk).toTT

theorem TT.cancelAwaiteds (h : TT w) (p : Pid) : TT (Sim.cancelAwaiteds w p) := (h.toX.cancelAwaiteds p).toTT

theorem TT.startProc (h : TT w) (p : Pid) :
    TT (w.modProc p fun y => { y with status := .running, pc := 0, blocked := none }) := (h.toX.startProc p).toTT

theorem TT.runScript (h : TT w) (fuel : Nat)
    (hprog : ∀ (i : Nat) (c : Cmd) (t : String), (w.proc p).script[i]? = some (c, t) → DurOk c ∧ VarsOk c) :
    TT (Sim.runScript fuel w p) :=
  (TXI.runScript fuel h.toX hprog).toTT

theorem TT.resumeProc (h : TT w) (p : Pid) (sig : Int)
    (hprog : ∀ (i : Nat) (c : Cmd) (t : String), (w.proc p).script[i]? = some (c, t) → DurOk c ∧ VarsOk c)
    (hf : ∀ f, (w.proc p).blocked = some f → FrameOk w p f) : TT (Sim.resumeProc w p sig) :=
  (h.toX.resumeProc p sig hprog hf).toTT

/-- `TT` is preserved by `dispatch` — given `FrInv` at the pre-state (use `TTH.dispatch` for the inductive form) -/
theorem TT.dispatch {w' : World} (h : TT w) (hf : FrInv w)
    (hs : ∀ (p : Pid) (i : Nat) (c : Cmd) (t : String), (w.proc p).script[i]? = some (c, t) → S3.CmdOk c ∧ DurOk c ∧ VarsOk c)
    (hd : Sim.dispatch w = some w') : TT w' :=
  (TXI.dispatch (TTH.toX ⟨h, hf⟩) hs hd).toTT

/-- initial worlds: nothing awaited, only start events pending, all variables 0 -/
theorem TT.init (w : World) (hei : EvInv w.ev) (haw : ∀ p, (w.proc p).awaits = [])
    (hnt : ∀ e ∈ w.ev.pending, e.item.a = aStart) (hv : ∀ p i, (w.proc p).vars.getD i 0 = 0)
    (hg : ∀ i, w.gvars.getD i 0 = 0) : TT w where
  t := {
    ei := hei
    t1 := fun p k _ hk => by rw [haw] at hk; cases hk
    t2 := fun e he ha => by rw [hnt e he] at ha; exact absurd ha (by decide)
    tle := fun p k hk => by rw [haw] at hk; cases hk
    tnd := fun p => by unfold timeAw; rw [haw]; exact List.nodup_nil
    tb := fun e he ha => by rw [hnt e he] at ha; exact absurd ha (by decide) }
  tl := fun q k hk => by rw [haw] at hk; cases hk
  vi := {
    tv := fun p i _ => by
      rw [hv]
      exact ⟨Nat.zero_le _, fun e he hk => by have := key_pos hei he; omega⟩
    uv := fun i _ => by
      rw [hg]
      exact ⟨Nat.zero_le _, fun e he hk => by have := key_pos hei he; omega⟩ }

/-- the point of it all: every armed timer is scheduled (`priority_set`'s `reprioritize` cannot fail) -/
theorem TT.timers_scheduled (h : TT w) (q : Pid) (k : Nat) (hk : Await.time k ∈ (w.proc q).awaits) :
    isScheduled w.ev k = true := by
  obtain ⟨e, he, h1, _, _⟩ := h.tl q k hk
  unfold isScheduled
  exact decide_eq_true (Event.mem_keys.2 ⟨e, he, h1⟩)

/-! ### `TTH` -/

theorem TTH.fail (h : TTH w) (m : String) : TTH (w.fail m) := (h.toX.fail m).toTTH
theorem TTH.emit (h : TTH w) (l : String) : TTH (w.emit l) := (h.toX.emit l).toTTH

theorem TTH.modProc_ctl (h : TTH w) (p : Pid) (f : Proc → Proc)
    (hf : ∀ x, (f x).awaits = x.awaits ∧ (f x).vars = x.vars ∧ ((f x).blocked = x.blocked ∨ (f x).blocked = none)) :
    TTH (w.modProc p f) :=
  (h.toX.modProc_ctl p f (fun x => ⟨(hf x).1, (hf x).2.1, fun _ => (hf x).2.2⟩)).toTTH

theorem TTH.execCmd (h : TTH w) (hlt : p < w.procs.size) (c : Cmd) (_hok : S3.CmdOk c) (hd : DurOk c) (hv : VarsOk c) :
    TTH (Sim.execCmd w p c).1 :=
  (h.toX.execCmd hlt c hd hv).toTTH

theorem TTH.finishProc (h : TTH w) (p : Pid) (v : Int) (s : Bool) : TTH (Sim.finishProc w p v s) :=
  (h.toX.finishProc p v s).toTTH

theorem TTH.takeNext_other (h : TTH w) {t : HTag} {ev' : EvQ} (hn : executeNext w.ev = some (t, ev'))
    (ha : t.item.a ≠ aTime) : TTH (S3.takeNext w t ev') :=
  (h.toX.takeNext_other hn ha).toTTH

theorem TTH.takeNext_time (h : TTH w) {t : HTag} {ev' : EvQ} (hn : executeNext w.ev = some (t, ev'))
    (ha : t.item.a = aTime) : TTH (Sim.removeAwait (S3.takeNext w t ev') (t.item.b - 1) (.time t.key)).1 :=
  (h.toX.takeNext_time hn ha).toTTH

theorem TTH.removeAwaitKind_fst (h : TTH w) (p : Pid) (k : Await → Bool) (hk : ∀ a, k a = true → S3.isTimeA a = false) :
    TTH (Sim.removeAwaitKind w p k).1 :=
  (h.toX.removeAwaitKind_fst p k hk).toTTH

theorem TTH.cancelAwaiteds (h : TTH w) (p : Pid) : TTH (Sim.cancelAwaiteds w p) := (h.toX.cancelAwaiteds p).toTTH

theorem TTH.adv (h : TTH w) (p : Pid) (n : Nat) : TTH (w.modProc p fun y => { y with pc := n }) :=
  h.modProc_ctl p _ (fun _ => ⟨rfl, rfl, Or.inl rfl⟩)

/-- the world in which `dispatchBody` starts / resumes the addressed process -/
theorem TTH.prep (h : TTH w) {t : HTag} {ev' : EvQ} (hn : executeNext w.ev = some (t, ev')) :
    TTH (if t.item.a = aTime then (Sim.removeAwait (S3.takeNext w t ev') (t.item.b - 1) (.time t.key)).1
      else if t.item.a = aProc then (Sim.removeAwaitKind (S3.takeNext w t ev') (t.item.b - 1) isProcA).1
      else if t.item.a = aEvent then (Sim.removeAwaitKind (S3.takeNext w t ev') (t.item.b - 1) isEventA).1
      else if t.item.a = aCond then (Sim.removeAwaitKind (S3.takeNext w t ev') (t.item.b - 1) isGuardA).1
      else if t.item.a = aIntr then Sim.cancelAwaiteds (S3.takeNext w t ev') (t.item.b - 1)
      else S3.takeNext w t ev') := by
  by_cases h2 : t.item.a = aTime
  · rw [if_pos h2]; exact h.takeNext_time hn h2
  · rw [if_neg h2]
    have hT := h.takeNext_other hn h2
    split
    · exact hT.removeAwaitKind_fst _ _ (fun a h => by cases a <;> simp_all [isProcA, isTimeA])
    · split
      · exact hT.removeAwaitKind_fst _ _ (fun a h => by cases a <;> simp_all [isEventA, isTimeA])
      · split
        · exact hT.removeAwaitKind_fst _ _ (fun a h => by cases a <;> simp_all [isGuardA, isTimeA])
        · split
          · exact hT.cancelAwaiteds _
          · exact hT

theorem TTH.startProc (h : TTH w) (p : Pid) :
    TTH (w.modProc p fun y => { y with status := .running, pc := 0, blocked := none }) := (h.toX.startProc p).toTTH

/-- continuing the call a process is suspended in (the recorded frame is cleared first, as in `resumeProc`) -/
theorem TTH.resume {w0 : World} {f : Frame} (h : TTH w0) (hb : (w0.proc p).blocked = some f) (_hlt : p < w0.procs.size)
    (sig : Int) : TTH (Sim.resumeFrame (w0.modProc p fun y => { y with blocked := none }) p f sig).1 :=
  ((h.toX.modProc_ctl p (fun y => { y with blocked := none }) (fun _ => ⟨rfl, rfl, fun _ => Or.inr rfl⟩)).resumeFrame_ok
    (p := p) f sig ((h.hold p f hb).ofEv rfl)).toTTH

theorem TTH.runScript (h : TTH w) (fuel : Nat)
    (hprog : ∀ (i : Nat) (c : Cmd) (t : String), (w.proc p).script[i]? = some (c, t) → DurOk c ∧ VarsOk c) :
    TTH (Sim.runScript fuel w p) :=
  (TXI.runScript fuel h.toX hprog).toTTH

theorem TTH.resumeProc (h : TTH w) (p : Pid) (sig : Int)
    (hprog : ∀ (i : Nat) (c : Cmd) (t : String), (w.proc p).script[i]? = some (c, t) → DurOk c ∧ VarsOk c) :
    TTH (Sim.resumeProc w p sig) :=
  (h.toX.resumeProc p sig hprog (fun f hf => h.hold p f hf)).toTTH

/-- the strong timer invariant is preserved by `dispatch`, for every program with non-negative durations that respects
    the variable discipline -/
theorem TTH.dispatch {w' : World} (h : TTH w)
    (hs : ∀ (p : Pid) (i : Nat) (c : Cmd) (t : String), (w.proc p).script[i]? = some (c, t) → S3.CmdOk c ∧ DurOk c ∧ VarsOk c)
    (hd : Sim.dispatch w = some w') : TTH w' :=
  (TXI.dispatch h.toX hs hd).toTTH

theorem TTH.init (w : World) (hei : EvInv w.ev) (haw : ∀ p, (w.proc p).awaits = [])
    (hnt : ∀ e ∈ w.ev.pending, e.item.a = aStart) (hv : ∀ p i, (w.proc p).vars.getD i 0 = 0)
    (hg : ∀ i, w.gvars.getD i 0 = 0) (hb : ∀ p, (w.proc p).blocked = none) : TTH w :=
  ⟨TT.init w hei haw hnt hv hg, fun p f hf => by rw [hb] at hf; cases hf⟩

theorem TTH.timers_scheduled (h : TTH w) (q : Pid) (k : Nat) (hk : Await.time k ∈ (w.proc q).awaits) :
    isScheduled w.ev k = true := h.tt.timers_scheduled q k hk

/-- along a run -/
theorem TTH.reach {w w' : World} (hr : Reach w w') (h : TTH w) (hs : TProgOk w) : TTH w' ∧ TProgOk w' := by
  induction hr with
  | refl => exact ⟨h, hs⟩
  | step _ hd ih => exact ⟨ih.1.dispatch ih.2 hd, ih.2.ofStat (Stat.dispatch hd)⟩

end CimbaModel.Sim.S4
