/-
  S3 — the grant invariant, part 3: handles that are cancelled by value never name a grant.
  `KRel S w w'` (generated from the `Evo` traversal): besides `Evo`, a newly recorded `hold h` frame or a newly written
  handle variable in `S` holds a handle that is not the handle of a pending grant and never will be (`NGc`), and a newly
  recorded `pqPut … v` frame has `v ∉ S`.  `S` = the variables read by `cancelUser` / `timerCancel`.
-/
import CimbaModel.Sim.S3GrantBase

namespace CimbaModel.Sim.S3
open CimbaModel CimbaModel.Sim CimbaModel.Event CimbaModel.Generated CimbaModel.KPQ
open CimbaModel.HashHeap (HTag Item Order HH WF abs liveTags)

/-- no pending grant has handle `h` -/
def NG (w : World) (h : Nat) : Prop := ∀ e ∈ w.ev.pending, e.key = h → ¬ isG01 e
/-- … and none ever will: `h` has already been issued -/
def NGc (w : World) (h : Nat) : Prop := h ≤ w.ev.counter ∧ NG w h

theorem NGc.ofEvo {w w' : World} {h : Nat} (hn : NGc w h) (he : Evo w w') : NGc w' h := by
  refine ⟨Nat.le_trans hn.1 he.counter, ?_⟩
  intro e' he' hk hg
  obtain ⟨e, hm, hk', _, hi⟩ := he.stable e' he' (by rw [hk]; exact hn.1)
  exact hn.2 e hm (hk'.trans hk) (by unfold isG01 at *; rw [hi]; exact hg)

theorem NGc.zero {w : World} (hi : EvInv w.ev) : NGc w 0 := by
  refine ⟨Nat.zero_le _, ?_⟩
  intro e he hk
  have : e.key ∈ List.range' 1 w.ev.counter := by
    apply hi.part.mem_iff.1
    simp only [List.mem_append]
    exact Or.inl (Or.inl (Event.mem_keys.2 ⟨e, he, rfl⟩))
  simp [List.mem_range'] at this
  omega

/-- what must hold of a frame when it is recorded -/
def FrameOk (S : Nat → Prop) (w : World) : Frame → Prop
  | .hold h => NGc w h
  | .pqPut _ _ _ v => ¬ S v
  | _ => True

theorem FrameOk.ofEvo {S : Nat → Prop} {w w' : World} {f : Frame} (h : FrameOk S w f) (he : Evo w w') : FrameOk S w' f := by
  cases f <;> first | exact h | exact NGc.ofEvo h he

structure KRel (S : Nat → Prop) (w w' : World) : Prop where
  evo : Evo w w'
  fo : ∀ p f, (w'.proc p).blocked = some f → (w.proc p).blocked = some f ∨ FrameOk S w' f
  cv : ∀ v, S v → ∀ p, getVar w' p v = getVar w p v ∨ NGc w' (getVar w' p v)

variable {S : Nat → Prop}

theorem KRel.refl (w : World) : KRel S w w := ⟨Evo.refl w, fun _ _ h => Or.inl h, fun _ _ _ => Or.inl rfl⟩

theorem KRel.trans {w w1 w2 : World} (h1 : KRel S w w1) (h2 : KRel S w1 w2) : KRel S w w2 := by
  refine ⟨h1.evo.trans h2.evo, ?_, ?_⟩
  · intro p f hb
    rcases h2.fo p f hb with h | h
    · rcases h1.fo p f h with h' | h'
      · exact Or.inl h'
      · exact Or.inr (h'.ofEvo h2.evo)
    · exact Or.inr h
  · intro v hv p
    rcases h2.cv v hv p with h | h
    · rcases h1.cv v hv p with h' | h'
      · exact Or.inl (h.trans h')
      · right; rw [h]; exact h'.ofEvo h2.evo
    · exact Or.inr h

theorem getVar_congr {w w' : World} (hg : w'.gvars = w.gvars) (hp : ∀ p, (w'.proc p).vars = (w.proc p).vars) (p : Pid) (v : Nat) :
    getVar w' p v = getVar w p v := by
  unfold getVar; rw [hg, hp]

/-- one step that records no frame and writes no variable -/
theorem KRel.step {w0 w w' : World} (h : KRel S w0 w) (hevo : Evo w w')
    (hb : ∀ p, (w'.proc p).blocked = (w.proc p).blocked ∨ (w'.proc p).blocked = none)
    (hg : w'.gvars = w.gvars) (hv : ∀ p, (w'.proc p).vars = (w.proc p).vars) : KRel S w0 w' := by
  refine h.trans ⟨hevo, ?_, fun v _ p => Or.inl (getVar_congr hg hv p v)⟩
  intro p f hf
  rcases hb p with e | e
  · rw [e] at hf; exact Or.inl hf
  · rw [e] at hf; cases hf

theorem KRel.same {w0 w w' : World} (h : KRel S w0 w) (hevo : Evo w w') (hp : w'.procs = w.procs) (hg : w'.gvars = w.gvars) :
    KRel S w0 w' :=
  h.step hevo (fun p => Or.inl (by unfold World.proc; rw [hp])) hg (fun p => by unfold World.proc; rw [hp])

theorem KRel.fail {w0 w : World} (h : KRel S w0 w) (m : String) : KRel S w0 (w.fail m) :=
  h.same ((Evo.refl w).fail m) (by simp) (by unfold World.fail; split <;> rfl)
theorem KRel.emit {w0 w : World} (h : KRel S w0 w) (l : String) : KRel S w0 (w.emit l) := h.same ((Evo.refl w).emit l) rfl rfl
theorem KRel.modProc {w0 w : World} (h : KRel S w0 w) (p : Pid) (f : Proc → Proc)
    (hf : ∀ x, ((f x).blocked = x.blocked ∨ (f x).blocked = none) ∧ (f x).vars = x.vars) : KRel S w0 (w.modProc p f) := by
  refine h.step ((Evo.refl w).modProc p f) (fun q => ?_) rfl (fun q => ?_)
  · rw [modProc_proc]; split
    · rename_i hq; rw [hq.1]; exact (hf _).1
    · exact Or.inl rfl
  · rw [modProc_proc]; split
    · rename_i hq; rw [hq.1]; exact (hf _).2
    · rfl
theorem KRel.setEvWaiters {w0 w : World} (h : KRel S w0 w) (x : List (Nat × List Pid)) : KRel S w0 { w with evWaiters := x } :=
  h.same ((Evo.refl w).setEvWaiters x) rfl rfl
theorem KRel.setRes {w0 w : World} (h : KRel S w0 w) (x : Array Res) : KRel S w0 { w with res := x } :=
  h.same ((Evo.refl w).setRes x) rfl rfl
theorem KRel.setPools {w0 w : World} (h : KRel S w0 w) (x : Array Pool) : KRel S w0 { w with pools := x } :=
  h.same ((Evo.refl w).setPools x) rfl rfl
theorem KRel.setBufs {w0 w : World} (h : KRel S w0 w) (x : Array Buf) : KRel S w0 { w with bufs := x } :=
  h.same ((Evo.refl w).setBufs x) rfl rfl
theorem KRel.setOqs {w0 w : World} (h : KRel S w0 w) (x : Array OQ) : KRel S w0 { w with oqs := x } :=
  h.same ((Evo.refl w).setOqs x) rfl rfl
theorem KRel.setPqs {w0 w : World} (h : KRel S w0 w) (x : Array PQ) : KRel S w0 { w with pqs := x } :=
  h.same ((Evo.refl w).setPqs x) rfl rfl
theorem KRel.setFlags {w0 w : World} (h : KRel S w0 w) (x : Array Int) : KRel S w0 { w with flags := x } :=
  h.same ((Evo.refl w).setFlags x) rfl rfl
theorem KRel.setGuardsSet {w0 w : World} (h : KRel S w0 w) (g : Nat) (x : Guard) :
    KRel S w0 { w with guards := w.guards.set! g x } := h.same ((Evo.refl w).setGuardsSet g x) rfl rfl
theorem KRel.setGuardQ {w0 w : World} (h : KRel S w0 w) (g : Nat) (q : HH) : KRel S w0 (setGuardQ w g q) :=
  h.same ((Evo.refl w).setGuardQ g q) rfl rfl
theorem KRel.sched_fst {w0 w : World} (h : KRel S w0 w) (a s : Nat) (sig t pri : Int) : KRel S w0 (sched w a s sig t pri).1 :=
  h.same ((Evo.refl w).sched_fst a s sig t pri) (by simp) (by simp)
theorem KRel.evCancel_fst {w0 w : World} (h : KRel S w0 w) (k : Nat) : KRel S w0 (evCancel w k).1 :=
  h.same ((Evo.refl w).evCancel_fst k) (evCancel_rel w k).procs (evCancel_rel w k).gvars
theorem KRel.reprioEv {w0 w : World} (h : KRel S w0 w) {k : Nat} {v : Int} {ev' : EvQ}
    (hr : reprioritize w.ev k v = .ok ev') : KRel S w0 { w with ev := ev' } :=
  h.same ((Evo.refl w).reprioEv hr) rfl rfl

theorem KRel.foldl {α : Type} {f : World → α → World} (hf : ∀ w a, KRel S w (f w a)) {w0 : World} :
    ∀ (l : List α) {w : World}, KRel S w0 w → KRel S w0 (l.foldl f w) := by
  intro l
  induction l with
  | nil => intro w h; exact h
  | cons a l ih => intro w h; exact ih (h.trans (hf w a))

/-- recording a frame -/
theorem KRel.block_fst {w0 w : World} (h : KRel S w0 w) (p : Pid) (f : Frame) (hf : FrameOk S w f) : KRel S w0 (block w p f).1 := by
  refine h.trans ⟨(Evo.refl w).block_fst p f, ?_, fun v _ q => Or.inl ?_⟩
  · intro q f' hb
    unfold Sim.block at hb
    simp only at hb
    rw [modProc_proc] at hb
    split at hb
    · cases hb; exact Or.inr hf
    · exact Or.inl hb
  · refine getVar_congr (w := w) (w' := (block w p f).1) rfl ?_ q v
    intro q'
    unfold Sim.block
    simp only
    rw [modProc_proc]; split
    · rename_i hq; rw [hq.1]
    · rfl

/-- writing a handle variable -/
theorem KRel.setVar {w0 w : World} (h : KRel S w0 w) (p : Pid) (v x : Nat) (hx : S v → NGc w x) : KRel S w0 (setVar w p v x) := by
  refine h.trans ⟨(Evo.refl w).setVar p v x, ?_, ?_⟩
  · intro q f hb
    left
    unfold Sim.setVar at hb
    split at hb
    · exact hb
    · rw [modProc_proc] at hb; split at hb
      · rename_i hq; rw [hq.1]; exact hb
      · exact hb
  · intro v' hv' q
    by_cases hvv : v' = v
    · subst hvv
      by_cases hsame : getVar (Sim.setVar w p v' x) q v' = getVar w q v'
      · exact Or.inl hsame
      · right
        have hval : getVar (Sim.setVar w p v' x) q v' = x := by
          unfold Sim.setVar getVar at hsame ⊢
          by_cases h8 : v' ≥ 8
          · simp only [h8, if_true] at hsame ⊢
            rw [Array.set!_eq_setIfInBounds, Array.getD_eq_getD_getElem?, Array.getElem?_setIfInBounds] at hsame ⊢
            by_cases hlt : v' < w.gvars.size
            · simp [hlt]
            · simp [hlt] at hsame
          · simp only [h8, if_false] at hsame ⊢
            rw [modProc_proc] at hsame ⊢
            by_cases hq : q = p ∧ p < w.procs.size
            · simp only [hq, and_self, if_true] at hsame ⊢
              rw [Array.set!_eq_setIfInBounds, Array.getD_eq_getD_getElem?, Array.getElem?_setIfInBounds] at hsame ⊢
              by_cases hlt : v' < (w.proc p).vars.size
              · simp [hlt]
              · simp [hlt] at hsame
            · rw [if_neg hq] at hsame
              exact absurd rfl hsame
        rw [hval]
        exact (hx hv').ofEvo ((Evo.refl w).setVar p v' x)
    · left
      unfold Sim.setVar getVar
      by_cases h8 : v ≥ 8
      · simp only [h8, if_true]
        by_cases h8' : v' ≥ 8
        · simp only [h8', if_true]
          rw [Array.set!_eq_setIfInBounds, Array.getD_eq_getD_getElem?, Array.getElem?_setIfInBounds]
          simp [Ne.symm hvv, Array.getD_eq_getD_getElem?]
        · simp only [h8', if_false]; rfl
      · simp only [h8, if_false]
        by_cases h8' : v' ≥ 8
        · simp only [h8', if_true]; rfl
        · simp only [h8', if_false]
          rw [modProc_proc]; split
          · rename_i hq
            rw [Array.set!_eq_setIfInBounds, Array.getD_eq_getD_getElem?, Array.getElem?_setIfInBounds]
            simp [Ne.symm hvv, Array.getD_eq_getD_getElem?, hq.1]
          · rfl

/-! ### the tactic: peel the outermost function -/

syntax "krel_step" : tactic
macro_rules | `(tactic| krel_step) => `(tactic| (first | exact True.intro | assumption | exact fun hs => absurd hs (by assumption)))
macro_rules | `(tactic| krel_step) => `(tactic| dsimp only)
macro_rules | `(tactic| krel_step) => `(tactic| (guard_world_lit; with_reducible apply KRel.setGuardsSet))
macro_rules | `(tactic| krel_step) => `(tactic| (guard_world_lit; with_reducible apply KRel.setFlags))
macro_rules | `(tactic| krel_step) => `(tactic| (guard_world_lit; with_reducible apply KRel.setPqs))
macro_rules | `(tactic| krel_step) => `(tactic| (guard_world_lit; with_reducible apply KRel.setOqs))
macro_rules | `(tactic| krel_step) => `(tactic| (guard_world_lit; with_reducible apply KRel.setBufs))
macro_rules | `(tactic| krel_step) => `(tactic| (guard_world_lit; with_reducible apply KRel.setPools))
macro_rules | `(tactic| krel_step) => `(tactic| (guard_world_lit; with_reducible apply KRel.setRes))
macro_rules | `(tactic| krel_step) => `(tactic| (guard_world_lit; with_reducible apply KRel.setEvWaiters))
macro_rules | `(tactic| krel_step) => `(tactic| split)
macro_rules | `(tactic| krel_step) => `(tactic| with_reducible apply KRel.evCancel_fst)
macro_rules | `(tactic| krel_step) => `(tactic| with_reducible apply KRel.sched_fst)
macro_rules | `(tactic| krel_step) => `(tactic| with_reducible apply KRel.setGuardQ)
macro_rules | `(tactic| krel_step) => `(tactic| (with_reducible refine KRel.block_fst ?_ _ _ ?_))
macro_rules | `(tactic| krel_step) => `(tactic| (with_reducible refine KRel.setVar ?_ _ _ _ ?_))
macro_rules | `(tactic| krel_step) => `(tactic| (with_reducible refine KRel.modProc ?_ _ _ (fun _ => ⟨Or.inr rfl, rfl⟩)))
macro_rules | `(tactic| krel_step) => `(tactic| (with_reducible refine KRel.modProc ?_ _ _ (fun _ => ⟨Or.inl rfl, rfl⟩)))
macro_rules | `(tactic| krel_step) => `(tactic| with_reducible apply KRel.emit)
macro_rules | `(tactic| krel_step) => `(tactic| with_reducible apply KRel.fail)
macro_rules | `(tactic| krel_step) => `(tactic| with_reducible exact KRel.refl _)
macro_rules | `(tactic| krel_step) => `(tactic| with_reducible assumption)

/-- close a `KRel S w0 (expr)` goal by peeling `expr` -/
macro "krel" : tactic => `(tactic| repeat' krel_step)

/-! ### the functions of Sim/Model.lean -/

theorem KRel.wakeEventWaiters {w0 w : World} (h : KRel S w0 w) (ps : List Pid) (sig : Int) :
    KRel S w0 (wakeEventWaiters w ps sig) := by
  unfold Sim.wakeEventWaiters
  exact KRel.foldl (fun w q => by krel) ps h
macro_rules | `(tactic| krel_step) => `(tactic| with_reducible apply KRel.wakeEventWaiters)

theorem KRel.cancelAllFor {w0 w : World} (h : KRel S w0 w) (p : Pid) : KRel S w0 (cancelAllFor w p) := by
  unfold Sim.cancelAllFor
  exact KRel.foldl (fun w q => by krel) _ h
macro_rules | `(tactic| krel_step) => `(tactic| with_reducible apply KRel.cancelAllFor)

theorem KRel.cancelKindFor_fst {w0 w : World} (h : KRel S w0 w) (p : Pid) (act : Nat) (sig : Option Int) :
    KRel S w0 (cancelKindFor w p act sig).1 := by
  unfold Sim.cancelKindFor
  exact KRel.foldl (fun w q => by krel) _ h
macro_rules | `(tactic| krel_step) => `(tactic| with_reducible apply KRel.cancelKindFor_fst)
theorem KRel.cancelUserAll_fst {w0 w : World} (h : KRel S w0 w) :
    KRel S w0 (cancelUserAll w).1 := by
  unfold Sim.cancelUserAll
  exact KRel.foldl (fun w q => by krel) _ h
macro_rules | `(tactic| krel_step) => `(tactic| with_reducible apply KRel.cancelUserAll_fst)

theorem KRel.recordRes {w0 w : World} (h : KRel S w0 w) (r : Nat) : KRel S w0 (recordRes w r) := by
  unfold Sim.recordRes; krel
theorem KRel.recordPool {w0 w : World} (h : KRel S w0 w) (r : Nat) : KRel S w0 (recordPool w r) := by
  unfold Sim.recordPool; krel
theorem KRel.recordBuf {w0 w : World} (h : KRel S w0 w) (r : Nat) : KRel S w0 (recordBuf w r) := by
  unfold Sim.recordBuf; krel
theorem KRel.recordOQ {w0 w : World} (h : KRel S w0 w) (r : Nat) : KRel S w0 (recordOQ w r) := by
  unfold Sim.recordOQ; krel
theorem KRel.recordPQ {w0 w : World} (h : KRel S w0 w) (r : Nat) : KRel S w0 (recordPQ w r) := by
  unfold Sim.recordPQ; krel
macro_rules | `(tactic| krel_step) => `(tactic| with_reducible apply KRel.recordRes)
macro_rules | `(tactic| krel_step) => `(tactic| with_reducible apply KRel.recordPool)
macro_rules | `(tactic| krel_step) => `(tactic| with_reducible apply KRel.recordBuf)
macro_rules | `(tactic| krel_step) => `(tactic| with_reducible apply KRel.recordOQ)
macro_rules | `(tactic| krel_step) => `(tactic| with_reducible apply KRel.recordPQ)

theorem KRel.guardRemove_fst {w0 w : World} (h : KRel S w0 w) (g : Nat) (p : Pid) : KRel S w0 (guardRemove w g p).1 := by
  unfold Sim.guardRemove; krel
macro_rules | `(tactic| krel_step) => `(tactic| with_reducible apply KRel.guardRemove_fst)

theorem KRel.frontStep {w0 w : World} (h : KRel S w0 w) (g : Nat) (gd : Guard) : KRel S w0 (frontStep w g gd) := by
  unfold S3.frontStep; krel

theorem KRel.condSignal_fst {w0 w : World} (h : KRel S w0 w) (g : Nat) : KRel S w0 (condSignal w g).1 := by
  simp only [Sim.condSignal]
  split
  · exact h
  · split
    · exact h
    · refine KRel.foldl (fun w q => by krel) _ ?_
      exact KRel.foldl (fun w q => by krel) _ h
macro_rules | `(tactic| krel_step) => `(tactic| with_reducible apply KRel.condSignal_fst)

theorem KRel.ownStep {w0 w : World} (h : KRel S w0 w) (fwd : Bool) (g : Nat) (gd : Guard) : KRel S w0 (ownStep fwd w g gd) := by
  unfold S3.ownStep
  split
  · exact h.condSignal_fst g
  · exact h.frontStep g gd

theorem KRel.guardSignalF' : ∀ (fuel : Nat) (fwd : Bool) (w : World) (g : Nat), KRel S w (guardSignalF fwd fuel w g) := by
  intro fuel
  induction fuel with
  | zero => intro fwd w g; rw [guardSignalF_zero]; exact (KRel.refl w).fail _
  | succ fuel ih =>
    intro fwd w g
    rw [guardSignalF_succ]
    split
    · exact KRel.refl w
    · exact KRel.foldl (fun w o => ih true w o) _ ((KRel.refl w).ownStep fwd g _)

theorem KRel.guardSignal' (fuel : Nat) (w : World) (g : Nat) : KRel S w (guardSignal fuel w g) :=
  KRel.guardSignalF' fuel false w g

theorem KRel.guardSignal {w0 w : World} (h : KRel S w0 w) (fuel : Nat) (g : Nat) : KRel S w0 (guardSignal fuel w g) :=
  h.trans (KRel.guardSignal' fuel w g)

theorem KRel.signal {w0 w : World} (h : KRel S w0 w) (g : Nat) : KRel S w0 (signal w g) := h.guardSignal 8 g
macro_rules | `(tactic| krel_step) => `(tactic| with_reducible apply KRel.signal)

theorem KRel.guardWithdraw {w0 w : World} (h : KRel S w0 w) (g : Nat) (p : Pid) : KRel S w0 (guardWithdraw w g p) := by
  simp only [Sim.guardWithdraw]; krel
macro_rules | `(tactic| krel_step) => `(tactic| with_reducible apply KRel.guardWithdraw)

theorem KRel.addAwait {w0 w : World} (h : KRel S w0 w) (p : Pid) (a : Await) : KRel S w0 (addAwait w p a) := by
  unfold Sim.addAwait; krel
macro_rules | `(tactic| krel_step) => `(tactic| with_reducible apply KRel.addAwait)

theorem KRel.removeAwait_fst {w0 w : World} (h : KRel S w0 w) (p : Pid) (a : Await) : KRel S w0 (removeAwait w p a).1 := by
  simp only [Sim.removeAwait]; krel
macro_rules | `(tactic| krel_step) => `(tactic| with_reducible apply KRel.removeAwait_fst)

theorem KRel.removeAwaitKind_fst {w0 w : World} (h : KRel S w0 w) (p : Pid) (k : Await → Bool) :
    KRel S w0 (removeAwaitKind w p k).1 := by
  simp only [Sim.removeAwaitKind]; krel
macro_rules | `(tactic| krel_step) => `(tactic| with_reducible apply KRel.removeAwaitKind_fst)

theorem KRel.removeHeld_fst {w0 w : World} (h : KRel S w0 w) (p : Pid) (x : HoldRef) : KRel S w0 (removeHeld w p x).1 := by
  simp only [Sim.removeHeld]; krel
macro_rules | `(tactic| krel_step) => `(tactic| with_reducible apply KRel.removeHeld_fst)

theorem KRel.timerAdd_fst {w0 w : World} (h : KRel S w0 w) (p : Pid) (d sig : Int) : KRel S w0 (timerAdd w p d sig).1 := by
  simp only [Sim.timerAdd]; krel
macro_rules | `(tactic| krel_step) => `(tactic| with_reducible apply KRel.timerAdd_fst)

theorem KRel.timerCancel_fst {w0 w : World} (h : KRel S w0 w) (p : Pid) (k : Nat) : KRel S w0 (timerCancel w p k).1 := by
  simp only [Sim.timerCancel]; krel
macro_rules | `(tactic| krel_step) => `(tactic| with_reducible apply KRel.timerCancel_fst)

theorem KRel.timersClear {w0 w : World} (h : KRel S w0 w) (p : Pid) : KRel S w0 (timersClear w p) := by
  unfold Sim.timersClear
  exact KRel.foldl (fun w q => by krel) _ (by krel)
macro_rules | `(tactic| krel_step) => `(tactic| with_reducible apply KRel.timersClear)

theorem KRel.cancelAwaiteds {w0 w : World} (h : KRel S w0 w) (p : Pid) : KRel S w0 (cancelAwaiteds w p) := by
  unfold Sim.cancelAwaiteds
  apply KRel.cancelAllFor
  exact KRel.foldl (fun w q => by krel) _ (by krel)
macro_rules | `(tactic| krel_step) => `(tactic| with_reducible apply KRel.cancelAwaiteds)

theorem KRel.wakeWaiters {w0 w : World} (h : KRel S w0 w) (p : Pid) (sig : Int) : KRel S w0 (wakeWaiters w p sig) := by
  unfold Sim.wakeWaiters
  exact KRel.foldl (fun w q => by krel) _ (by krel)
macro_rules | `(tactic| krel_step) => `(tactic| with_reducible apply KRel.wakeWaiters)

theorem KRel.poolDropHolder {w0 w : World} (h : KRel S w0 w) (pl : Nat) (p : Pid) : KRel S w0 (poolDropHolder w pl p) := by
  unfold Sim.poolDropHolder; krel
macro_rules | `(tactic| krel_step) => `(tactic| with_reducible apply KRel.poolDropHolder)

theorem KRel.dropResources {w0 w : World} (h : KRel S w0 w) (p : Pid) : KRel S w0 (dropResources w p) := by
  unfold Sim.dropResources
  exact KRel.foldl (fun w q => by krel) _ (by krel)
macro_rules | `(tactic| krel_step) => `(tactic| with_reducible apply KRel.dropResources)

theorem KRel.finishProc {w0 w : World} (h : KRel S w0 w) (p : Pid) (v : Int) (s : Bool) : KRel S w0 (finishProc w p v s) := by
  unfold Sim.finishProc; krel
macro_rules | `(tactic| krel_step) => `(tactic| with_reducible apply KRel.finishProc)

theorem KRel.guardWaitEnter {w0 w : World} (h : KRel S w0 w) (g : Nat) (p : Pid) (d : Demand) :
    KRel S w0 (guardWaitEnter w g p d) := by
  unfold Sim.guardWaitEnter; krel
macro_rules | `(tactic| krel_step) => `(tactic| with_reducible apply KRel.guardWaitEnter)

theorem KRel.guardWaitLeave {w0 w : World} (h : KRel S w0 w) (g : Nat) (p : Pid) (sig : Int) :
    KRel S w0 (guardWaitLeave w g p sig) := by
  unfold Sim.guardWaitLeave; krel
macro_rules | `(tactic| krel_step) => `(tactic| with_reducible apply KRel.guardWaitLeave)

theorem KRel.grab {w0 w : World} (h : KRel S w0 w) (r : Nat) (p : Pid) : KRel S w0 (grab w r p) := by
  unfold Sim.grab; krel
macro_rules | `(tactic| krel_step) => `(tactic| with_reducible apply KRel.grab)

theorem KRel.poolUpdateRecord {w0 w : World} (h : KRel S w0 w) (pl : Nat) (p : Pid) (a : Nat) :
    KRel S w0 (poolUpdateRecord w pl p a) := by
  unfold Sim.poolUpdateRecord; krel
macro_rules | `(tactic| krel_step) => `(tactic| with_reducible apply KRel.poolUpdateRecord)

theorem KRel.setPoolInUse {w0 w : World} (h : KRel S w0 w) (pl v : Nat) : KRel S w0 (setPoolInUse w pl v) := by
  unfold Sim.setPoolInUse; krel
macro_rules | `(tactic| krel_step) => `(tactic| with_reducible apply KRel.setPoolInUse)

theorem KRel.setHeldAmount {w0 w : World} (h : KRel S w0 w) (pl : Nat) (p : Pid) (a : Nat) :
    KRel S w0 (setHeldAmount w pl p a) := by
  unfold Sim.setHeldAmount; krel
macro_rules | `(tactic| krel_step) => `(tactic| with_reducible apply KRel.setHeldAmount)

/-! ### the functions of Sim/Run.lean -/



theorem KRel.poolMug' : ∀ (fuel : Nat) (w : World) (p : Pid) (pl rem : Nat), KRel S w (poolMug fuel w p pl rem).1 := by
  intro fuel
  induction fuel with
  | zero => intro w p pl rem; exact KRel.refl w
  | succ fuel ih =>
    intro w p pl rem
    simp only [Sim.poolMug]
    repeat' first | (with_reducible refine KRel.trans ?_ (ih _ _ _ _)) | krel_step

theorem KRel.poolMug_fst {w0 w : World} (h : KRel S w0 w) (fuel : Nat) (p : Pid) (pl rem : Nat) :
    KRel S w0 (poolMug fuel w p pl rem).1 := h.trans (KRel.poolMug' fuel w p pl rem)
macro_rules | `(tactic| krel_step) => `(tactic| with_reducible apply KRel.poolMug_fst)

theorem KRel.poolLoop_fst {w0 w : World} (h : KRel S w0 w) (p : Pid) (pl rem ini : Nat) (pre : Bool) :
    KRel S w0 (poolLoop w p pl rem ini pre).1 := by
  simp only [Sim.poolLoop]; krel
macro_rules | `(tactic| krel_step) => `(tactic| with_reducible apply KRel.poolLoop_fst)

theorem KRel.poolRollback {w0 w : World} (h : KRel S w0 w) (p : Pid) (pl ini : Nat) : KRel S w0 (poolRollback w p pl ini) := by
  simp only [Sim.poolRollback]; krel
macro_rules | `(tactic| krel_step) => `(tactic| with_reducible apply KRel.poolRollback)

theorem KRel.bufGetLoop_fst {w0 w : World} (h : KRel S w0 w) (p : Pid) (b rem got : Nat) : KRel S w0 (bufGetLoop w p b rem got).1 := by
  simp only [Sim.bufGetLoop]; krel
macro_rules | `(tactic| krel_step) => `(tactic| with_reducible apply KRel.bufGetLoop_fst)

theorem KRel.bufPutLoop_fst {w0 w : World} (h : KRel S w0 w) (p : Pid) (b rem left : Nat) : KRel S w0 (bufPutLoop w p b rem left).1 := by
  simp only [Sim.bufPutLoop]; krel
macro_rules | `(tactic| krel_step) => `(tactic| with_reducible apply KRel.bufPutLoop_fst)

theorem KRel.oqGetLoop_fst {w0 w : World} (h : KRel S w0 w) (p : Pid) (q : Nat) : KRel S w0 (oqGetLoop w p q).1 := by
  simp only [Sim.oqGetLoop]; krel
macro_rules | `(tactic| krel_step) => `(tactic| with_reducible apply KRel.oqGetLoop_fst)

theorem KRel.oqPutLoop_fst {w0 w : World} (h : KRel S w0 w) (p : Pid) (q obj : Nat) : KRel S w0 (oqPutLoop w p q obj).1 := by
  simp only [Sim.oqPutLoop]; krel
macro_rules | `(tactic| krel_step) => `(tactic| with_reducible apply KRel.oqPutLoop_fst)

theorem KRel.pqGetLoop_fst {w0 w : World} (h : KRel S w0 w) (p : Pid) (k : Nat) : KRel S w0 (pqGetLoop w p k).1 := by
  simp only [Sim.pqGetLoop]; krel
macro_rules | `(tactic| krel_step) => `(tactic| with_reducible apply KRel.pqGetLoop_fst)

theorem KRel.pqPutLoop_fst {w0 w : World} (h : KRel S w0 w) (p : Pid) (k obj : Nat) (pri : Int) (v : Nat) (hv : ¬ S v) :
    KRel S w0 (pqPutLoop w p k obj pri v).1 := by
  simp only [Sim.pqPutLoop]; krel
macro_rules | `(tactic| krel_step) => `(tactic| (with_reducible refine KRel.pqPutLoop_fst ?_ _ _ _ _ _ (by assumption)))


theorem KRel.acquireStep_fst {w0 w : World} (h : KRel S w0 w) (p : Pid) (r : Nat) : KRel S w0 (acquireStep w p r).1 := by
  simp only [Sim.acquireStep]; krel
macro_rules | `(tactic| krel_step) => `(tactic| with_reducible apply KRel.acquireStep_fst)

theorem KRel.setRecording {w0 w : World} (h : KRel S w0 w) (kind idx : Nat) (on : Bool) : KRel S w0 (setRecording w kind idx on) := by
  simp only [Sim.setRecording]; krel
macro_rules | `(tactic| krel_step) => `(tactic| with_reducible apply KRel.setRecording)


end CimbaModel.Sim.S3
