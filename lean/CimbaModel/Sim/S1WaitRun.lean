/-
  S1 — `WInv` through resumptions, scripts, dispatch and the run loop.
-/
import CimbaModel.Sim.S1WaitStep

namespace CimbaModel.Sim
open CimbaModel CimbaModel.Event CimbaModel.Generated
open CimbaModel.HashHeap (HTag Item Order HH)

@[simp] theorem modProc_waiters_keep (w : World) (z : Pid) (f : Proc → Proc) (q : Pid)
    (hf : ∀ x, (f x).waiters = x.waiters) : ((w.modProc z f).proc q).waiters = (w.proc q).waiters :=
  modProc_field Proc.waiters w z f hf q

@[simp] theorem modProc_blocked_keep (w : World) (z : Pid) (f : Proc → Proc) (q : Pid)
    (hf : ∀ x, (f x).blocked = x.blocked) : ((w.modProc z f).proc q).blocked = (w.proc q).blocked :=
  modProc_field Proc.blocked w z f hf q

/-! ### resuming a frame other than `wait_process` -/

theorem resumeFrame_pa_other (w : World) (p : Pid) (f : Frame) (sig : Int) (hf : ∀ q, f ≠ .waitProc q) (z : Pid) :
    (resumeFrame w p f sig).1.pa z = w.pa z := by
  cases f
  case waitProc q => exact absurd rfl (hf q)
  all_goals simp only [resumeFrame]
  all_goals frame_close

theorem winv_resumeFrame_other {w : World} (h : WInv w) (p : Pid) (hpa : w.pa p = []) (f : Frame) (sig : Int)
    (hf : ∀ q, f ≠ .waitProc q) : WInv (resumeFrame w p f sig).1 := by
  cases f
  case waitProc q => exact absurd rfl (hf q)
  all_goals simp only [resumeFrame]
  all_goals winv_cmd h hpa

/-! ### running a script -/

theorem winv_runScript : ∀ (fuel : Nat) {w : World}, WInv w → ∀ p, w.pa p = [] → WInv (runScript fuel w p) := by
  intro fuel
  induction fuel with
  | zero => intro w h p hpa; unfold runScript; winv_views h hpa
  | succ n ih =>
    intro w h p hpa
    unfold runScript
    dsimp only
    split
    · exact (winv_finishProc (by winv_views h hpa) p 0 false).1
    · rename_i c text hc
      have hp : p < w.procs.size := lt_np_of_script w p _ _ hc
      have h1 : WInv (w.emit s!"c {p} {(w.proc p).pc} {w.now} {text}") := by winv_views h hpa
      have hpa1 : (w.emit s!"c {p} {(w.proc p).pc} {w.now} {text}").pa p = [] := by simpa using hpa
      obtain ⟨h2, h3⟩ := winv_execCmd h1 p (by simpa using hp) hpa1 c
      split
      · rename_i w2 v extra heq
        rw [heq] at h2 h3
        have hpa2 : w2.pa p = [] := by
          rcases h3 with e | ⟨q, e⟩
          · exact e
          · cases e
        have hpa3 : (w2.emit (s!"r {p} {(w.proc p).pc} {w2.now} {v}" ++ if extra = "" then "" else " " ++ extra)).pa p = [] := by
          simpa using hpa2
        have h4 : WInv (w2.emit (s!"r {p} {(w.proc p).pc} {w2.now} {v}" ++ if extra = "" then "" else " " ++ extra)) := by
          winv_views h2 hpa2
        refine ih ?_ p (by simpa using hpa3)
        winv_views h4 hpa3
      · rename_i w2 heq
        rw [heq] at h2 h3
        have hpa2 : w2.pa p = [] := by
          rcases h3 with e | ⟨q, e⟩
          · exact e
          · cases e
        have hpa3 : (w2.emit s!"s {p} {(w.proc p).pc} {w2.now}").pa p = [] := by simpa using hpa2
        have h4 : WInv (w2.emit s!"s {p} {(w.proc p).pc} {w2.now}") := by winv_views h2 hpa2
        refine ih ?_ p (by simpa using hpa3)
        winv_views h4 hpa3
      · rename_i w2 heq
        rw [heq] at h2
        exact h2
      · rename_i w2 heq
        rw [heq] at h2 h3
        have hpa2 : w2.pa p = [] := by
          rcases h3 with e | ⟨q, e⟩
          · exact e
          · cases e
        split <;> winv_views h2 hpa2

/-! ### resuming a process -/

theorem winv_resumeProc {w : World} (h : WInv w) (p : Pid) (sig : Int) : WInv (resumeProc w p sig) := by
  unfold resumeProc
  dsimp only
  split
  · exact h.of_views' (fun z => by simp) (fun q => by simp) (fun z _ => by simp)
      (ec_fail (wev_closed w) _ _ h.wev)
  · split
    · exact h.of_views' (fun z => by simp) (fun q => by simp) (fun z _ => by simp)
        (ec_fail (wev_closed w) _ _ h.wev)
    · rename_i f hf
      have h0pa : ∀ z, (w.modProc p fun y => { y with blocked := none }).pa z = w.pa z := fun z => by simp
      have h0wt : ∀ z, ((w.modProc p fun y => { y with blocked := none }).proc z).waiters = (w.proc z).waiters :=
        fun z => by simp
      have h0bl : ∀ z, z ≠ p → ((w.modProc p fun y => { y with blocked := none }).proc z).blocked = (w.proc z).blocked :=
        fun z hz => by rw [proc_modProc_ne _ _ _ _ hz]
      have hres : WInv (resumeFrame (w.modProc p fun y => { y with blocked := none }) p f sig).1 ∧
          (resumeFrame (w.modProc p fun y => { y with blocked := none }) p f sig).1.pa p = [] := by
        by_cases hwp : ∃ q, f = .waitProc q
        · obtain ⟨q, rfl⟩ := hwp
          exact winv_resume_waitProc h p q hf h0pa h0wt h0bl rfl sig
        · have hne : ∀ q, f ≠ .waitProc q := fun q e => hwp ⟨q, e⟩
          have hpa : w.pa p = [] := by
            rcases h.frame p with e | ⟨q, _, b⟩
            · exact e
            · rw [hf] at b; injection b with b; exact absurd b (hne q)
          have h0 : WInv (w.modProc p fun y => { y with blocked := none }) :=
            h.of_views' h0pa h0wt (fun z hz => h0bl z (fun e => hz (e ▸ hpa))) ((wev_closed w).ev_only h.wev rfl)
          have hpa0 : (w.modProc p fun y => { y with blocked := none }).pa p = [] := by rw [h0pa]; exact hpa
          exact ⟨winv_resumeFrame_other h0 p hpa0 f sig hne, by rw [resumeFrame_pa_other _ _ _ _ hne]; exact hpa0⟩
      split
      · rename_i w2 v extra heq
        rw [heq] at hres
        obtain ⟨h2, hpa2⟩ := hres
        have hpa3 : (w2.emit (s!"r {p} {(w.proc p).pc} {w2.now} {v}" ++ if extra = "" then "" else " " ++ extra)).pa p = [] := by
          simpa using hpa2
        have h4 : WInv (w2.emit (s!"r {p} {(w.proc p).pc} {w2.now} {v}" ++ if extra = "" then "" else " " ++ extra)) := by
          winv_views h2 hpa2
        refine winv_runScript _ ?_ p (by simpa using hpa3)
        winv_views h4 hpa3
      all_goals (rename_i w2 heq; rw [heq] at hres; exact hres.1)

/-! ### dispatching an event -/

theorem minTag_mem {lt : Order} : ∀ {l : KPQ.KPQ} {m : HTag}, minTag lt l = some m → m ∈ l := by
  intro l
  induction l with
  | nil => intro m h; simp [minTag] at h
  | cons x xs ih =>
    intro m h
    simp only [minTag] at h
    cases hx : minTag lt xs with
    | none => rw [hx] at h; injection h with h; subst h; exact List.mem_cons_self
    | some m' =>
      rw [hx] at h
      dsimp only at h
      split at h
      · injection h with h; subst h; exact List.mem_cons_of_mem _ (ih hx)
      · injection h with h; subst h; exact List.mem_cons_self

theorem executeNext_spec {q q' : EvQ} {t : HTag} (h : executeNext q = some (t, q')) :
    t ∈ q.pending ∧ q'.pending = q.pending.filter (·.key ≠ t.key) := by
  unfold executeNext at h
  split at h
  · cases h
  · rename_i e he
    injection h with h
    injection h with h1 h2
    subst h1; subst h2
    exact ⟨minTag_mem he, rfl⟩

theorem countP_filter_drop {α : Type _} (P f : α → Bool) {l : List α} {t : α} (ht : t ∈ l) (hP : P t = true)
    (hf : f t = false) : (l.filter f).countP P + 1 ≤ l.countP P := by
  induction l with
  | nil => cases ht
  | cons x xs ih =>
    have hle : (xs.filter f).countP P ≤ xs.countP P := countP_filter_le P f xs
    rw [List.filter_cons, List.countP_cons]
    rcases List.mem_cons.1 ht with e | e
    · subst e; rw [hf, hP]; simp; omega
    · have := ih e
      split
      · rw [List.countP_cons]; omega
      · omega

theorem countP_filter_remove {l : List HTag} {t : HTag} (P : HTag → Bool) (ht : t ∈ l) (hP : P t = true) :
    (l.filter (·.key ≠ t.key)).countP P + 1 ≤ l.countP P :=
  countP_filter_drop P _ ht hP (by simp)

theorem afterPop_pa (w : World) (t : HTag) (ev' : EvQ) (z : Pid) : (afterPop w t ev').pa z = w.pa z :=
  pa_congr (fun q => by rw [afterPop_proc]) z

/-- the world in which the action of the dispatched event runs keeps the invariant; a process-end wake-up that is
    being dispatched is no longer pending -/
theorem winv_afterPop {w : World} (h : WInv w) (t : HTag) (ev' : EvQ) (hex : executeNext w.ev = some (t, ev')) :
    WInv (afterPop w t ev') ∧ (∀ z, (afterPop w t ev').pa z = w.pa z) ∧
    (∀ z, ((afterPop w t ev').proc z).waiters = (w.proc z).waiters) ∧
    (t.item.a = aProc → np (afterPop w t ev') (t.item.b - 1) = 0 ∧ 0 < np w (t.item.b - 1)) := by
  obtain ⟨hmem, hpend⟩ := executeNext_spec hex
  have hev0 : WEv w { w with ev := ev' } :=
    (wev_closed w).sub w ev' (by rw [hpend]; exact List.filter_sublist) h.wev
  have hev : WEv w (afterPop w t ev') := by
    unfold afterPop
    apply ec_wakeEventWaiters (wev_closed w) allButProc_notProc.event
    exact (wev_closed w).ev_only hev0 rfl
  refine ⟨h.of_views' (fun z => afterPop_pa w t ev' z) (fun q => by rw [afterPop_proc])
    (fun z _ => by rw [afterPop_proc]) hev, fun z => afterPop_pa w t ev' z, fun z => by rw [afterPop_proc], ?_⟩
  intro ha
  have hb : t.item.b = t.item.b - 1 + 1 := by have := h.subj t hmem ha; omega
  have hP : isAProc (t.item.b - 1) t.item = true := by
    unfold isAProc; simp [ha, ← hb]
  have h1 : np { w with ev := ev' } (t.item.b - 1) + 1 ≤ np w (t.item.b - 1) := by
    unfold np cnt
    show List.countP _ ev'.pending + 1 ≤ _
    rw [hpend]
    exact countP_filter_remove (fun e => isAProc (t.item.b - 1) e.item) hmem hP
  have h2 : np (afterPop w t ev') (t.item.b - 1) ≤ np { w with ev := ev' } (t.item.b - 1) := by
    have hcl := npLe_closed { w with ev := ev' }
    have : ∀ z, np (afterPop w t ev') z ≤ np { w with ev := ev' } z := by
      unfold afterPop
      apply ec_wakeEventWaiters hcl allButProc_notProc.event
      exact hcl.ev_only (w := { w with ev := ev' }) (fun _ => Nat.le_refl _) rfl
    exact this _
  have := h.one (t.item.b - 1)
  omega

theorem filterMap_go_proc (l : List Await) :
    (removeAwaitKind.go isProcA l).1.filterMap procOf = (l.filterMap procOf).tail := by
  induction l with
  | nil => rfl
  | cons x xs ih =>
    unfold removeAwaitKind.go
    cases x with
    | proc q => simp [isProcA, List.filterMap_cons]
    | time h => simp [isProcA, List.filterMap_cons, ih]
    | guard g => simp [isProcA, List.filterMap_cons, ih]
    | event h => simp [isProcA, List.filterMap_cons, ih]

theorem removeAwaitKind_pa_proc (w : World) (p z : Pid) :
    (removeAwaitKind w p isProcA).1.pa z = if z = p then (w.pa z).tail else w.pa z := by
  unfold removeAwaitKind; dsimp only
  rw [pa_modProc]
  by_cases e : z = p
  · subst e
    by_cases hlt : z < w.procs.size
    · simp only [hlt, and_self, if_true]
      exact filterMap_go_proc _
    · simp [hlt, World.pa, proc_oob w z hlt]
  · simp [e]

theorem dispatch_eq (w : World) (t : HTag) (ev' : EvQ) (hex : executeNext w.ev = some (t, ev')) :
    dispatch w = some (
      if t.item.a = aStart then
        if ((afterPop w t ev').proc (t.item.b - 1)).status = .running then
          (afterPop w t ev').fail s!"start of a running process {t.item.b - 1}"
        else
          runScript ((((afterPop w t ev').modProc (t.item.b - 1) fun y =>
              { y with status := .running, pc := 0, blocked := none }).proc (t.item.b - 1)).script.size + 2)
            ((afterPop w t ev').modProc (t.item.b - 1) fun y => { y with status := .running, pc := 0, blocked := none })
            (t.item.b - 1)
      else if t.item.a = aTime then
        resumeProc (removeAwait (afterPop w t ev') (t.item.b - 1) (.time t.key)).1 (t.item.b - 1) (decSig t.item.c)
      else if t.item.a = aProc then
        if isRunning (removeAwaitKind (afterPop w t ev') (t.item.b - 1) isProcA).1 (t.item.b - 1) = true then
          resumeProc (removeAwaitKind (afterPop w t ev') (t.item.b - 1) isProcA).1 (t.item.b - 1) (decSig t.item.c)
        else (removeAwaitKind (afterPop w t ev') (t.item.b - 1) isProcA).1
      else if t.item.a = aEvent then
        if isRunning (removeAwaitKind (afterPop w t ev') (t.item.b - 1) isEventA).1 (t.item.b - 1) = true then
          resumeProc (removeAwaitKind (afterPop w t ev') (t.item.b - 1) isEventA).1 (t.item.b - 1) (decSig t.item.c)
        else (removeAwaitKind (afterPop w t ev') (t.item.b - 1) isEventA).1
      else if t.item.a = aRes ∨ t.item.a = aPreempt then
        if isRunning (afterPop w t ev') (t.item.b - 1) = true then
          resumeProc (afterPop w t ev') (t.item.b - 1) (decSig t.item.c)
        else afterPop w t ev'
      else if t.item.a = aCond then
        if isRunning (removeAwaitKind (afterPop w t ev') (t.item.b - 1) isGuardA).1 (t.item.b - 1) = true then
          resumeProc (removeAwaitKind (afterPop w t ev') (t.item.b - 1) isGuardA).1 (t.item.b - 1) (decSig t.item.c)
        else (removeAwaitKind (afterPop w t ev') (t.item.b - 1) isGuardA).1
      else if t.item.a = aIntr then
        resumeProc (cancelAwaiteds (afterPop w t ev') (t.item.b - 1)) (t.item.b - 1) (decSig t.item.c)
      else if t.item.a = aResume then resumeProc (afterPop w t ev') (t.item.b - 1) (decSig t.item.c)
      else afterPop w t ev') := by
  unfold dispatch
  simp only [hex]
  rfl

/-- consuming a process-end wake-up: the woken process stops awaiting -/
theorem winv_pop_proc {w : World} (h : WInv w) (t : HTag) (ev' : EvQ) (hex : executeNext w.ev = some (t, ev'))
    (ha : t.item.a = aProc) : WInv (removeAwaitKind (afterPop w t ev') (t.item.b - 1) isProcA).1 := by
  obtain ⟨h1, hpa1, hwt1, hproc⟩ := winv_afterPop h t ev' hex
  obtain ⟨hnp0, hnpw⟩ := hproc ha
  obtain ⟨hne, hout⟩ := h.woken _ hnpw
  have hpaq : ∃ q, (afterPop w t ev').pa (t.item.b - 1) = [q] := by
    rcases h.frame (t.item.b - 1) with e | ⟨q, e, _⟩
    · exact absurd e hne
    · exact ⟨q, by rw [hpa1]; exact e⟩
  obtain ⟨q, hq⟩ := hpaq
  refine h1.unregister (t.item.b - 1) q hq ?_ ?_ ?_ ?_ ?_ ?_ ?_
  · intro z; rw [removeAwaitKind_pa_proc]
    split
    · rename_i e; subst e; rw [hq]; rfl
    · rfl
  · intro z; rw [removeAwaitKind_waiters]; exact List.Sublist.refl _
  · rw [removeAwaitKind_waiters, hwt1]; exact hout q
  · intro z _; rw [removeAwaitKind_blocked]
  · intro z; exact Nat.le_of_eq (cnt_of_ev (by simp))
  · rw [show np (removeAwaitKind (afterPop w t ev') (t.item.b - 1) isProcA).1 (t.item.b - 1)
        = np (afterPop w t ev') (t.item.b - 1) from cnt_of_ev (by simp)]
    exact hnp0
  · intro e he
    rw [show (removeAwaitKind (afterPop w t ev') (t.item.b - 1) isProcA).1.ev = (afterPop w t ev').ev by simp] at he
    exact h1.subj e he

theorem winv_removeAwaitKind_other {w : World} (h : WInv w) (p : Pid) (k : Await → Bool)
    (hk : ∀ q, k (.proc q) = false) : WInv (removeAwaitKind w p k).1 :=
  h.of_views' (fun z => removeAwaitKind_pa_other _ _ _ hk z) (fun q => by simp)
    (fun z _ => by simp) ((wev_closed _).ev_only h.wev (by simp))

/-- **every dispatched event keeps the registration invariant** -/
theorem winv_dispatch {w w' : World} (h : WInv w) (hdr : DeadRec w) (hd : dispatch w = some w') : WInv w' := by
  cases hex : executeNext w.ev with
  | none => unfold dispatch at hd; simp [hex] at hd
  | some x =>
    obtain ⟨t, ev'⟩ := x
    rw [dispatch_eq w t ev' hex] at hd
    injection hd with hd
    subst hd
    obtain ⟨h1, hpa1, hwt1, hproc⟩ := winv_afterPop h t ev' hex
    split
    · -- start
      split
      · exact h1.of_views' (fun z => by simp) (fun q => by simp) (fun z _ => by simp)
          (ec_fail (wev_closed _) _ _ h1.wev)
      · rename_i hnr
        have hnr' : (w.proc (t.item.b - 1)).status ≠ .running := by rw [afterPop_proc] at hnr; exact hnr
        have hpa : (afterPop w t ev').pa (t.item.b - 1) = [] := by
          rw [hpa1]; unfold World.pa; rw [(hdr _ hnr').1]; rfl
        refine winv_runScript _ ?_ _ (by simpa using hpa)
        exact h1.of_views' (fun z => by simp) (fun q => by simp)
          (fun z hz => by
            have hzp : z ≠ t.item.b - 1 := fun e => hz (e ▸ hpa)
            rw [proc_modProc_ne _ _ _ _ hzp])
          ((wev_closed _).ev_only h1.wev rfl)
    · split
      · -- timer
        apply winv_resumeProc
        exact h1.of_views' (fun z => by simp) (fun q => by simp) (fun z _ => by simp)
          ((wev_closed _).ev_only h1.wev (by simp))
      · split
        · -- the end of an awaited process
          rename_i ha
          obtain ⟨hnp0, hnpw⟩ := hproc ha
          obtain ⟨hne, hout⟩ := h.woken _ hnpw
          have hpaq : ∃ q, (afterPop w t ev').pa (t.item.b - 1) = [q] := by
            rcases h.frame (t.item.b - 1) with e | ⟨q, e, _⟩
            · exact absurd e hne
            · exact ⟨q, by rw [hpa1]; exact e⟩
          obtain ⟨q, hq⟩ := hpaq
          have h2 : WInv (removeAwaitKind (afterPop w t ev') (t.item.b - 1) isProcA).1 := by
            refine h1.unregister (t.item.b - 1) q hq ?_ ?_ ?_ ?_ ?_ ?_ ?_
            · intro z; rw [removeAwaitKind_pa_proc]
              split
              · rename_i e; subst e; rw [hq]; rfl
              · rfl
            · intro z; rw [removeAwaitKind_waiters]; exact List.Sublist.refl _
            · rw [removeAwaitKind_waiters, hwt1]; exact hout q
            · intro z _; rw [removeAwaitKind_blocked]
            · intro z; exact Nat.le_of_eq (cnt_of_ev (by simp))
            · rw [show np (removeAwaitKind (afterPop w t ev') (t.item.b - 1) isProcA).1 (t.item.b - 1)
                  = np (afterPop w t ev') (t.item.b - 1) from cnt_of_ev (by simp)]
              exact hnp0
            · intro e he
              rw [show (removeAwaitKind (afterPop w t ev') (t.item.b - 1) isProcA).1.ev = (afterPop w t ev').ev by simp] at he
              exact h1.subj e he
          split
          · exact winv_resumeProc h2 _ _
          · exact h2
        · split
          · -- an awaited event
            have h2 : WInv (removeAwaitKind (afterPop w t ev') (t.item.b - 1) isEventA).1 :=
              h1.of_views' (fun z => removeAwaitKind_pa_other _ _ _ (fun _ => rfl) z) (fun q => by simp)
                (fun z _ => by simp) ((wev_closed _).ev_only h1.wev (by simp))
            split
            · exact winv_resumeProc h2 _ _
            · exact h2
          · split
            · split
              · exact winv_resumeProc h1 _ _
              · exact h1
            · split
              · have h2 : WInv (removeAwaitKind (afterPop w t ev') (t.item.b - 1) isGuardA).1 :=
                  h1.of_views' (fun z => removeAwaitKind_pa_other _ _ _ (fun _ => rfl) z) (fun q => by simp)
                    (fun z _ => by simp) ((wev_closed _).ev_only h1.wev (by simp))
                split
                · exact winv_resumeProc h2 _ _
                · exact h2
              · split
                · exact winv_resumeProc (winv_cancelAwaiteds h1 _) _ _
                · split
                  · exact winv_resumeProc h1 _ _
                  · exact h1

theorem winv_runAll : ∀ (fuel : Nat) {w : World}, WInv w → DeadRec w → WInv (runAll fuel w) := by
  intro fuel
  induction fuel with
  | zero =>
    intro w h _; unfold runAll
    exact h.of_views' (fun z => by simp) (fun q => by simp) (fun z _ => by simp) ((wev_closed _).ev_only h.wev rfl)
  | succ n ih =>
    intro w h hdr
    unfold runAll
    split
    · exact h
    · split
      · exact h
      · rename_i w' hd
        exact ih (winv_dispatch h hdr hd) (dr_dispatch hdr hd)

end CimbaModel.Sim
