/-
  S4 — `StartInv` (a pending start event is addressed to a process that is not running, at most one per process) through
  every command and every resumed call.

  The predicate is carried in the form `StartTgt N w`: every pending start event has a subject ≥ 1 whose process satisfies
  `N`, and start events have pairwise distinct subjects.  `StartOk w = StartTgt (NotRun w) w = StartInv w ∧ StartPos w`.
  (`StartPos`: the subject of a start event is ≥ 1 — needed for inductiveness, because the subjects 0 and 1 both denote
  process 0 in `dispatch`.)
-/
import CimbaModel.Sim.S4StartPend

namespace CimbaModel.Sim.S4
open CimbaModel CimbaModel.Sim CimbaModel.Event CimbaModel.Generated
open CimbaModel.HashHeap (HTag Item Order HH)

/-- the actions other than the start event -/
def notStart (a : Nat) : Bool := a != aStart

theorem noStart_notStart : NoStart notStart := by constructor <;> decide

/-- the list form of the invariant -/
structure SL (N : Pid → Prop) (l : List HTag) : Prop where
  tgt : ∀ e ∈ l, e.item.a = aStart → 1 ≤ e.item.b ∧ N (e.item.b - 1)
  uq : ∀ e1 ∈ l, ∀ e2 ∈ l, e1.item.a = aStart → e2.item.a = aStart → e1.item.b = e2.item.b → e1 = e2

theorem SL.sublist {N : Pid → Prop} {l l' : List HTag} (h : SL N l) (hs : l'.Sublist l) : SL N l' :=
  ⟨fun e he => h.tgt e (hs.subset he), fun e1 h1 e2 h2 => h.uq e1 (hs.subset h1) e2 (hs.subset h2)⟩

theorem SL.mono {N N' : Pid → Prop} {l : List HTag} (h : SL N l) (hm : ∀ q, N q → N' q) : SL N' l :=
  ⟨fun e he ha => ⟨(h.tgt e he ha).1, hm _ (h.tgt e he ha).2⟩, h.uq⟩

/-- an event that is not a start event -/
theorem SL.cons_other {N : Pid → Prop} {l : List HTag} (h : SL N l) (e : HTag) (he : e.item.a ≠ aStart) : SL N (e :: l) := by
  refine ⟨fun x hx ha => ?_, fun x1 h1 x2 h2 a1 a2 hb => ?_⟩
  · rcases List.mem_cons.1 hx with rfl | hx
    · exact absurd ha he
    · exact h.tgt x hx ha
  · rcases List.mem_cons.1 h1 with rfl | h1
    · exact absurd a1 he
    · rcases List.mem_cons.1 h2 with rfl | h2
      · exact absurd a2 he
      · exact h.uq x1 h1 x2 h2 a1 a2 hb

/-- a start event for a subject nothing is pending for -/
theorem SL.cons_start {N : Pid → Prop} {l : List HTag} (h : SL N l) (e : HTag) (hpos : 1 ≤ e.item.b) (hn : N (e.item.b - 1))
    (hfresh : ∀ x ∈ l, x.item.b ≠ e.item.b) : SL N (e :: l) := by
  refine ⟨fun x hx ha => ?_, fun x1 h1 x2 h2 a1 a2 hb => ?_⟩
  · rcases List.mem_cons.1 hx with rfl | hx
    · exact ⟨hpos, hn⟩
    · exact h.tgt x hx ha
  · rcases List.mem_cons.1 h1 with e1 | m1
    · rcases List.mem_cons.1 h2 with e2 | m2
      · rw [e1, e2]
      · rw [e1] at hb; exact absurd hb.symm (hfresh x2 m2)
    · rcases List.mem_cons.1 h2 with e2 | m2
      · rw [e2] at hb; exact absurd hb (hfresh x1 m1)
      · exact h.uq x1 m1 x2 m2 a1 a2 hb

/-- changing anything but the payload of the events (`priority_set` on a timer) -/
theorem SL.map {N : Pid → Prop} {l : List HTag} (h : SL N l) (f : HTag → HTag) (hf : ∀ e, (f e).item = e.item) :
    SL N (l.map f) := by
  refine ⟨fun x hx ha => ?_, fun x1 h1 x2 h2 a1 a2 hb => ?_⟩
  · obtain ⟨e, he, rfl⟩ := List.mem_map.1 hx
    rw [hf] at ha ⊢; exact h.tgt e he ha
  · obtain ⟨e1, he1, rfl⟩ := List.mem_map.1 h1
    obtain ⟨e2, he2, rfl⟩ := List.mem_map.1 h2
    rw [hf] at a1 a2 hb
    rw [hf] at hb
    rw [h.uq e1 he1 e2 he2 a1 a2 hb]

/-- every pending start event has a subject ≥ 1 whose process satisfies `N`; at most one start event per subject -/
def StartTgt (N : Pid → Prop) (w : World) : Prop := SL N w.ev.pending

/-- the subject of a pending start event is a process key (≥ 1) -/
def StartPos (w : World) : Prop := ∀ e ∈ w.ev.pending, e.item.a = aStart → 1 ≤ e.item.b

/-- `q` is not running in `w` -/
def NotRun (w : World) (q : Pid) : Prop := (w.proc q).status ≠ .running

/-- the inductive form of `StartInv` -/
def StartOk (w : World) : Prop := StartTgt (NotRun w) w

theorem startOk_iff {w : World} : StartOk w ↔ StartInv w ∧ StartPos w := by
  constructor
  · intro h
    exact ⟨⟨fun e he ha => (h.tgt e he ha).2, h.uq⟩, fun e he ha => (h.tgt e he ha).1⟩
  · intro h
    exact ⟨fun e he ha => ⟨h.2 e he ha, h.1.nr e he ha⟩, h.1.uq⟩

theorem StartOk.inv {w : World} (h : StartOk w) : StartInv w := (startOk_iff.1 h).1
theorem StartOk.pos {w : World} (h : StartOk w) : StartPos w := (startOk_iff.1 h).2
theorem StartOk.mk {w : World} (h : StartInv w) (hp : StartPos w) : StartOk w := startOk_iff.2 ⟨h, hp⟩

theorem startTgt_closed (N : Pid → Prop) : EvClosed notStart (StartTgt N) where
  ev_only := fun h e => by unfold StartTgt at *; rw [e]; exact h
  sub := fun w ev' hs h => SL.sublist h hs
  sched := fun w a s sig t pri ha h => by
    unfold StartTgt
    rcases sched_pending_cases w a s sig t pri with e' | e' <;> rw [e']
    · exact h
    · refine SL.cons_other h _ ?_
      simpa [notStart] using ha

theorem StartTgt.mono {N N' : Pid → Prop} {w : World} (h : StartTgt N w) (hm : ∀ q, N q → N' q) : StartTgt N' w :=
  SL.mono h hm

/-- transfer to the statuses of the new world: nobody has become running -/
theorem StartOk.of_tgt {w w' : World} (h : StartTgt (NotRun w) w')
    (hst : ∀ q, (w'.proc q).status = .running → (w.proc q).status = .running) : StartOk w' :=
  StartTgt.mono h (fun q hq hr => hq (hst q hr))

theorem StartOk.of_same {w w' : World} (h : StartOk w) (he : w'.ev = w.ev)
    (hst : ∀ q, (w'.proc q).status = (w.proc q).status) : StartOk w' :=
  StartOk.of_tgt ((startTgt_closed _).ev_only h he) (fun q hq => by rw [← hst]; exact hq)

/-! ### the end of a process -/

theorem startTgt_finishProc {N : Pid → Prop} {w : World} (h : StartTgt N w) (z : Pid) (val : Int) (stopped : Bool) :
    StartTgt N (finishProc w z val stopped) := by
  unfold finishProc
  dsimp only
  apply ec_modProc (startTgt_closed N)
  apply ec_wakeWaiters (startTgt_closed N) noStart_notStart.proc
  split
  · exact ec_dropResources (startTgt_closed N) ⟨noStart_notStart.res, noStart_notStart.cond⟩ _ _
      (ec_cancelAwaiteds (startTgt_closed N) noStart_notStart.event ⟨noStart_notStart.res, noStart_notStart.cond⟩ _ _ h)
  · exact ec_cancelAwaiteds (startTgt_closed N) noStart_notStart.event ⟨noStart_notStart.res, noStart_notStart.cond⟩ _ _
      (ec_dropResources (startTgt_closed N) ⟨noStart_notStart.res, noStart_notStart.cond⟩ _ _ h)

theorem finishProc_run_mono (w : World) (z : Pid) (val : Int) (stopped : Bool) (q : Pid)
    (h : ((finishProc w z val stopped).proc q).status = .running) : (w.proc q).status = .running := by
  rw [finishProc_status] at h
  split at h
  · cases h
  · exact h

theorem startOk_finishProc {w : World} (h : StartOk w) (z : Pid) (val : Int) (stopped : Bool) :
    StartOk (finishProc w z val stopped) :=
  StartOk.of_tgt (startTgt_finishProc h z val stopped) (finishProc_run_mono w z val stopped)

/-! ### every command -/

theorem startTgt_reprioritize {N : Pid → Prop} {w : World} (hw : StartTgt N w) {ev' : EvQ} {h : Nat} {v : Int}
    (hr : reprioritize w.ev h v = .ok ev') : StartTgt N { w with ev := ev' } := by
  unfold reprioritize at hr
  split at hr
  · cases hr
  · injection hr with hr; subst hr
    exact SL.map hw _ (fun e => by split <;> rfl)

/-- split the command's control structure, then peel each branch -/
syntax "st_cmd " term:max ident : tactic
macro_rules
  | `(tactic| st_cmd $hR $h) =>
    `(tactic| first
        | with_reducible exact $h
        | (split <;> st_cmd $hR $h)
        | (es_peel2 $hR noStart_notStart $h 12))

set_option maxHeartbeats 1000000 in
/-- the commands that schedule no start event: everything but `start` (and `priority_set`, done separately because of
    its loops) -/
theorem startTgt_execCmd_frame {N : Pid → Prop} {w : World} (h : StartTgt N w) (p : Pid) (c : Cmd)
    (h1 : ∀ z v, c ≠ .stop z v) (h2 : ∀ v, c ≠ .exit v) (h3 : ∀ q, c ≠ .start q) (h8 : ∀ q v, c ≠ .prioSet q v) :
    StartTgt N (execCmd w p c).1 := by
  cases c
  case stop z v => exact absurd rfl (h1 z v)
  case exit v => exact absurd rfl (h2 v)
  case start q => exact absurd rfl (h3 q)
  case prioSet q v => exact absurd rfl (h8 q v)
  all_goals simp only [execCmd]
  all_goals st_cmd (startTgt_closed N) h

theorem startTgt_prioSet {N : Pid → Prop} {w : World} (hs : StartTgt N w) (p q : Pid) (v : Int) :
    StartTgt N (execCmd w p (.prioSet q v)).1 := by
  simp only [execCmd]
  split
  · exact hs
  · dsimp only
    apply foldl_inv (StartTgt N)
    · intro w' a hw'
      es_peel (startTgt_closed N) noStart_notStart hw' 10
    · apply foldl_inv (StartTgt N)
      · intro w' a hw'
        split
        · split
          · rename_i ev' hr; exact startTgt_reprioritize hw' hr
          · exact ec_fail (startTgt_closed N) _ _ hw'
        · es_peel (startTgt_closed N) noStart_notStart hw' 10
        · exact hw'
      · exact (startTgt_closed N).ev_only hs rfl

/-- **the `start` command**: the new start event is addressed to a process that is not running and for which nothing at
    all is pending -/
theorem startTgt_start {N : Pid → Prop} {w : World} (hs : StartTgt N w) (p q : Pid)
    (hN : ¬ isRunning w q → N q) : StartTgt N (execCmd w p (.start q)).1 := by
  simp only [execCmd]
  split
  · exact hs
  · rename_i hc
    simp only [not_or] at hc
    obtain ⟨hnr, hcnt, _⟩ := hc
    unfold StartTgt
    rcases sched_pending_cases w aStart (q + 1) 0 w.now (w.proc q).prio with e' | e' <;> rw [e']
    · exact hs
    · refine SL.cons_start hs _ (by simp) (by simpa using hN hnr) ?_
      intro x hx hb
      apply hcnt
      unfold pendingCountFor pendingOf
      simp only [List.length_map, gt_iff_lt]
      apply List.length_pos_of_mem (a := x)
      rw [List.mem_filter]
      exact ⟨hx, by simpa using hb⟩

/-- the `start` command schedules a start event only for a process that is not running and has no pending event -/
theorem start_cmd_cases (w : World) (p q : Pid) :
    (execCmd w p (.start q)).1 = w ∨
    ((w.proc q).status ≠ .running ∧ (∀ e ∈ w.ev.pending, e.item.b ≠ q + 1) ∧ q < w.procs.size ∧
      (execCmd w p (.start q)).1 = (sched w aStart (q + 1) 0 w.now (w.proc q).prio).1) := by
  simp only [execCmd]
  split
  · left; rfl
  · rename_i hc
    simp only [not_or] at hc
    obtain ⟨hnr, hcnt, hlt⟩ := hc
    right
    refine ⟨by simpa [isRunning] using hnr, ?_, Nat.lt_of_not_le hlt, rfl⟩
    intro x hx hb
    apply hcnt
    unfold pendingCountFor pendingOf
    simp only [List.length_map, gt_iff_lt]
    apply List.length_pos_of_mem (a := x)
    rw [List.mem_filter]
    exact ⟨hx, by simpa using hb⟩

/-- every command: nothing happens to the pending start events except that `start q` may add one for a `q` that
    satisfies `N` -/
theorem startTgt_execCmd {N : Pid → Prop} {w : World} (h : StartTgt N w) (p : Pid) (c : Cmd)
    (hN : ∀ q, c = .start q → ¬ isRunning w q → N q) : StartTgt N (execCmd w p c).1 := by
  by_cases h1 : ∃ z v, c = .stop z v
  · obtain ⟨z, v, rfl⟩ := h1
    simp only [execCmd]
    split
    · exact startTgt_finishProc h p v true
    · split
      · exact startTgt_finishProc h z v true
      · exact h
  by_cases h2 : ∃ v, c = .exit v
  · obtain ⟨v, rfl⟩ := h2
    exact startTgt_finishProc h p v false
  by_cases h3 : ∃ q, c = .start q
  · obtain ⟨q, rfl⟩ := h3
    exact startTgt_start h p q (hN q rfl)
  by_cases h8 : ∃ q v, c = .prioSet q v
  · obtain ⟨q, v, rfl⟩ := h8
    exact startTgt_prioSet h p q v
  exact startTgt_execCmd_frame h p c (fun z v e => h1 ⟨z, v, e⟩) (fun v e => h2 ⟨v, e⟩) (fun q e => h3 ⟨q, e⟩)
    (fun q v e => h8 ⟨q, v, e⟩)

/-- no command makes a process running -/
theorem execCmd_run_mono (w : World) (p : Pid) (c : Cmd) (q : Pid)
    (h : ((execCmd w p c).1.proc q).status = .running) : (w.proc q).status = .running := by
  by_cases h1 : ∃ z v, c = .stop z v
  · obtain ⟨z, v, rfl⟩ := h1
    simp only [execCmd] at h
    split at h
    · exact finishProc_run_mono _ _ _ _ _ h
    · split at h
      · exact finishProc_run_mono _ _ _ _ _ h
      · exact h
  by_cases h2 : ∃ v, c = .exit v
  · obtain ⟨v, rfl⟩ := h2
    exact finishProc_run_mono _ _ _ _ _ h
  rw [execCmd_status w p c q (fun z v e => h1 ⟨z, v, e⟩) (fun v e => h2 ⟨v, e⟩)] at h
  exact h

/-- **every command keeps `StartInv`** (in its inductive form) -/
theorem startOk_execCmd {w : World} (h : StartOk w) (p : Pid) (c : Cmd) : StartOk (execCmd w p c).1 :=
  StartOk.of_tgt (startTgt_execCmd h p c (fun q _ hq => by simpa [isRunning, NotRun] using hq))
    (execCmd_run_mono w p c)

/-! ### every resumed call -/

theorem startTgt_resumeFrame {N : Pid → Prop} {w : World} (h : StartTgt N w) (p : Pid) (f : Frame) (sig : Int) :
    StartTgt N (resumeFrame w p f sig).1 := by
  cases f
  all_goals simp only [resumeFrame]
  all_goals st_cmd (startTgt_closed N) h

theorem startOk_resumeFrame {w : World} (h : StartOk w) (p : Pid) (f : Frame) (sig : Int) :
    StartOk (resumeFrame w p f sig).1 :=
  StartOk.of_tgt (startTgt_resumeFrame h p f sig) (fun q hq => by rw [resumeFrame_status] at hq; exact hq)

end CimbaModel.Sim.S4
