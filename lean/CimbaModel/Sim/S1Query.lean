/-
  S1 — the queries of a resource (holder, in use, available) are functions of the unique holder (C05),
  and what one call of `wake_process_waiters` adds to the event queue (C09).
-/
import CimbaModel.Sim.S1End

namespace CimbaModel.Sim
open CimbaModel CimbaModel.Event CimbaModel.Generated
open CimbaModel.HashHeap (HTag Item Order HH)

/-! ### queries -/

theorem sum_indicator (a : Option Nat) (n : Nat) :
    ((List.range n).map fun i => if a = some i then 1 else 0).sum = if ∃ i, i < n ∧ a = some i then 1 else 0 := by
  induction n with
  | zero => simp
  | succ n ih =>
    rw [List.range_succ, List.map_append, List.sum_append, ih]
    simp only [List.map_cons, List.map_nil, List.sum_cons, List.sum_nil, Nat.add_zero]
    by_cases h1 : ∃ i, i < n ∧ a = some i
    · obtain ⟨i, hi, e⟩ := h1
      have h2 : ∃ i, i < n + 1 ∧ a = some i := ⟨i, by omega, e⟩
      have h3 : ¬ a = some n := by rw [e]; intro x; injection x with x; omega
      rw [if_pos ⟨i, hi, e⟩, if_pos h2, if_neg h3]
    · rw [if_neg h1]
      by_cases h3 : a = some n
      · rw [if_pos h3, if_pos ⟨n, by omega, h3⟩]
      · rw [if_neg h3, if_neg]
        rintro ⟨i, hi, e⟩
        by_cases hin : i = n
        · subst hin; exact h3 e
        · exact h1 ⟨i, by omega, e⟩

/-- the "in use" count reported for a resource (`1` if the holder field is set, else `0`) is the number of
    entries for it in all the processes' lists of holdings -/
theorem inUse_eq_listed {w : World} (h : HInv w) (r : Nat) (x : Res) (hx : w.res[r]? = some x) :
    (if x.holder.isSome then 1 else 0) =
      ((List.range w.procs.size).map fun p => (w.proc p).held.count (.res r)).sum := by
  have e : ((List.range w.procs.size).map fun p => (w.proc p).held.count (.res r)) =
      ((List.range w.procs.size).map fun p => if x.holder = some p then 1 else 0) := by
    apply List.map_congr_left
    intro p _
    have := h r p
    rw [holder_eq w r x hx] at this
    exact this
  rw [e, sum_indicator]
  cases hh : x.holder with
  | none => simp
  | some q =>
    have hq := h.holder_lt r q (by rw [holder_eq w r x hx, hh])
    simp only [Option.isSome_some, if_true]
    rw [if_pos ⟨q, hq, rfl⟩]

/-- "available" (what a waiter's demand evaluates, and what the guard's signal tests) means: nobody lists it -/
theorem available_iff_unlisted {w : World} (h : HInv w) (r : Nat) (x : Res) (hx : w.res[r]? = some x) :
    evalDemand w (.resAvail r) = true ↔ ∀ p, HoldRef.res r ∉ (w.proc p).held := by
  have e : evalDemand w (.resAvail r) = true ↔ x.holder = none := by
    simp [evalDemand, hx, Option.isNone_iff_eq_none]
  rw [e]
  constructor
  · intro hn p hm
    have := (h.mem_iff r p).1 hm
    rw [holder_eq w r x hx, hn] at this
    cases this
  · intro hall
    cases hh : x.holder with
    | none => rfl
    | some q =>
      exact absurd ((h.mem_iff r q).2 (by rw [holder_eq w r x hx, hh])) (hall q)

/-- the holder query names the process that lists the resource -/
theorem holder_iff_listed {w : World} (h : HInv w) (r : Nat) (x : Res) (hx : w.res[r]? = some x) (p : Pid) :
    x.holder = some p ↔ HoldRef.res r ∈ (w.proc p).held := by
  rw [h.mem_iff r p, holder_eq w r x hx]

/-- the value recorded in the history is that same in-use count -/
theorem recordRes_value (w : World) (r : Nat) (x : Res) (hx : w.res[r]? = some x) (hrec : x.recording = true) :
    ∃ y, (recordRes w r).res[r]? = some y ∧ y.hist = x.hist.push (if x.holder.isSome then 1 else 0, w.now) ∧
      y.holder = x.holder := by
  unfold recordRes
  simp only [hx, hrec, if_true]
  refine ⟨{ x with hist := x.hist.push (if x.holder.isSome then 1 else 0, w.now) }, ?_, rfl, rfl⟩
  simp [lt_size_of_getElem? hx, hrec]

/-! ### waking a list of processes -/

/-- the events one wake-up loop creates for the processes `ws` (first woken first): consecutive handles after `c` -/
def wakeTags (act : Nat) (sig : Int) (now : Int) (prio : Pid → Int) : Nat → List Pid → List HTag
  | _, [] => []
  | c, q :: qs => { key := c + 1, item := ⟨act, q + 1, encSig sig, 0⟩, d := now, i := prio q } :: wakeTags act sig now prio (c + 1) qs

theorem wakeTags_length (act : Nat) (sig : Int) (now : Int) (prio : Pid → Int) (c : Nat) (ws : List Pid) :
    (wakeTags act sig now prio c ws).length = ws.length := by
  induction ws generalizing c with
  | nil => rfl
  | cons q qs ih => simp [wakeTags, ih]

theorem wakeTags_subjects (act : Nat) (sig : Int) (now : Int) (prio : Pid → Int) (c : Nat) (ws : List Pid) :
    (wakeTags act sig now prio c ws).map (·.item.b) = ws.map (· + 1) := by
  induction ws generalizing c with
  | nil => rfl
  | cons q qs ih => simp [wakeTags, ih]

theorem mem_wakeTags {act : Nat} {sig : Int} {now : Int} {prio : Pid → Int} {c : Nat} {ws : List Pid} {e : HTag}
    (he : e ∈ wakeTags act sig now prio c ws) :
    e.item.a = act ∧ e.item.c = encSig sig ∧ e.d = now ∧ c < e.key ∧ e.key ≤ c + ws.length ∧
      ∃ q ∈ ws, e.item.b = q + 1 ∧ e.i = prio q := by
  induction ws generalizing c with
  | nil => simp [wakeTags] at he
  | cons q qs ih =>
    simp only [wakeTags, List.mem_cons] at he
    rcases he with rfl | he
    · exact ⟨rfl, rfl, rfl, by simp, by simp, q, List.mem_cons_self, rfl, rfl⟩
    · obtain ⟨a, b, c', d, e', q', hq', f⟩ := ih he
      exact ⟨a, b, c', by omega, by simp; omega, q', List.mem_cons_of_mem _ hq', f⟩

/-- a loop of wake-ups at the current time adds exactly the events `wakeTags …`, most recent first, and nothing
    else changes in the event queue; the priorities are the processes' current priorities -/
theorem foldl_sched_pending (act : Nat) (sig : Int) (ws : List Pid) (w : World) :
    (ws.foldl (fun w q => (sched w act (q + 1) sig w.now (w.proc q).prio).1) w).ev.pending =
      (wakeTags act sig w.now (fun q => (w.proc q).prio) w.ev.counter ws).reverse ++ w.ev.pending ∧
    (ws.foldl (fun w q => (sched w act (q + 1) sig w.now (w.proc q).prio).1) w).ev.counter = w.ev.counter + ws.length := by
  induction ws generalizing w with
  | nil => simp [wakeTags]
  | cons q qs ih =>
    rw [List.foldl_cons]
    have hs := sched_ok w act (q + 1) sig w.now (w.proc q).prio (Int.le_refl _)
    have hc : (sched w act (q + 1) sig w.now (w.proc q).prio).1.ev.counter = w.ev.counter + 1 := by
      unfold sched schedule
      simp
    obtain ⟨ih1, ih2⟩ := ih (sched w act (q + 1) sig w.now (w.proc q).prio).1
    have hnow : (sched w act (q + 1) sig w.now (w.proc q).prio).1.now = w.now := hs.2.2.1
    have hpr : (fun q' => ((sched w act (q + 1) sig w.now (w.proc q).prio).1.proc q').prio) = fun q' => (w.proc q').prio := by
      funext q'; simp
    constructor
    · rw [ih1, hs.2.1, hc, hnow, hpr]
      simp [wakeTags]
    · rw [ih2, hc]; simp; omega

/-- **`wake_process_waiters`**: exactly one new event per registered waiter, in registration-list order, at the
    current time, with the waiter's priority and the given signal; the event queue is otherwise unchanged -/
theorem wakeWaiters_pending (w : World) (p : Pid) (sig : Int) :
    (wakeWaiters w p sig).ev.pending =
      (wakeTags aProc sig w.now (fun q => (w.proc q).prio) w.ev.counter (w.proc p).waiters).reverse ++ w.ev.pending := by
  unfold wakeWaiters
  dsimp only
  rw [(foldl_sched_pending aProc sig (w.proc p).waiters _).1]
  have hpr : (fun q => ((w.modProc p fun x => { x with waiters := [] }).proc q).prio) = fun q => (w.proc q).prio := by
    funext q; apply modProc_field; intro; rfl
  rw [hpr]
  rfl

/-- the same loop for the waiters of an event -/
theorem wakeEventWaiters_pending (w : World) (ps : List Pid) (sig : Int) :
    (wakeEventWaiters w ps sig).ev.pending =
      (wakeTags aEvent sig w.now (fun q => (w.proc q).prio) w.ev.counter ps).reverse ++ w.ev.pending := by
  unfold wakeEventWaiters
  exact (foldl_sched_pending aEvent sig ps w).1

/-! ### a guard signal grants the front waiter -/

theorem sched_pending_mono (w : World) (a s : Nat) (sig t pri : Int) (e : HTag) (he : e ∈ w.ev.pending) :
    e ∈ (sched w a s sig t pri).1.ev.pending := by
  unfold sched
  split
  · rename_i ev' h heq
    unfold schedule at heq
    split at heq
    · cases heq
    · injection heq with heq
      injection heq with h1 _
      subst h1
      simp [KPQ.insert, he]
  · simpa using he

/-- a predicate that survives the elementary steps of a condition signal survives it -/
theorem condSignal_inv (P : World → Prop)
    (hfail : ∀ w m, P w → P (World.fail w m))
    (hq : ∀ w g q, P w → P (setGuardQ w g q))
    (hc : ∀ w s t pri, P w → P (sched w aCond s sigSuccess t pri).1) :
    ∀ w g, P w → P (condSignal w g).1 := by
  intro w g h
  unfold condSignal
  split
  · exact h
  · split
    · exact h
    · dsimp only
      apply foldl_inv P
      · intro w t hw
        unfold guardRemove
        repeat' split
        all_goals first
          | exact hw
          | exact hq _ _ _ hw
          | exact hfail _ _ hw
      · exact foldl_inv P _ (fun w t hw => hc _ _ _ _ hw) _ _ h

/-- a predicate that survives the kinds of elementary steps of a guard signal (own front step, or the condition signal
    of an observing condition) survives the signal -/
theorem guardSignalF_inv (P : World → Prop)
    (hfail : ∀ w m, P w → P (World.fail w m))
    (hq : ∀ w g q, P w → P (setGuardQ w g q))
    (hs : ∀ w s t pri, P w → P (sched w aRes s sigSuccess t pri).1)
    (hc : ∀ w s t pri, P w → P (sched w aCond s sigSuccess t pri).1) :
    ∀ fuel fwd w g, P w → P (guardSignalF fwd fuel w g) := by
  intro fuel
  induction fuel with
  | zero => intro fwd w g h; exact hfail _ _ h
  | succ n ih =>
    intro fwd w g h
    unfold guardSignalF
    split
    · exact h
    · apply foldl_inv P _ (fun w a hw => ih true w a hw)
      dsimp only
      repeat' split
      all_goals first
        | exact h
        | exact hfail _ _ h
        | exact hs _ _ _ _ (hq _ _ _ h)
        | exact condSignal_inv P hfail hq hc _ _ h

theorem guardSignal_inv (P : World → Prop)
    (hfail : ∀ w m, P w → P (World.fail w m))
    (hq : ∀ w g q, P w → P (setGuardQ w g q))
    (hs : ∀ w s t pri, P w → P (sched w aRes s sigSuccess t pri).1)
    (hc : ∀ w s t pri, P w → P (sched w aCond s sigSuccess t pri).1) :
    ∀ fuel w g, P w → P (guardSignal fuel w g) :=
  fun fuel w g h => guardSignalF_inv P hfail hq hs hc fuel false w g h

theorem signal_pending_mono (w : World) (g : Nat) (e : HTag) (he : e ∈ w.ev.pending) :
    e ∈ (signal w g).ev.pending :=
  guardSignal_inv (fun w => e ∈ w.ev.pending) (fun w m h => by simpa using h) (fun w g q h => h)
    (fun w s t pri h => sched_pending_mono w aRes s sigSuccess t pri e h)
    (fun w s t pri h => sched_pending_mono w aCond s sigSuccess t pri e h) 8 w g he

/-- **signalling a guard whose front waiter's demand is satisfied schedules that waiter's resumption** with the
    success code at the current time (and takes it off the waiting list) -/
theorem signal_grants_front (w : World) (g : Nat) (gd : Guard) (hg : w.guards[g]? = some gd)
    (hne : gd.q.count ≠ 0) (t : HTag) (hpeek : HashHeap.peek gd.q = .ok (some t))
    (hdem : evalDemand w ((gd.demands.lookup t.key).getD (.cond 99 0 0)) = true)
    (q' : HH) (x : Option HTag) (hdeq : HashHeap.dequeue guard_queue_check gd.q = .ok (q', x)) :
    ∃ e ∈ (signal w g).ev.pending, e.item.a = aRes ∧ e.item.b = t.key - 1 + 1 ∧ e.item.c = encSig sigSuccess ∧
      e.d = w.now ∧ e.i = (w.proc (t.key - 1)).prio := by
  unfold signal guardSignal guardSignalF
  simp only [hg, hne, if_false, hpeek, hdem, if_true, hdeq, Bool.false_and, Bool.false_eq_true]
  have hs := sched_ok (setGuardQ w g q') aRes (t.key - 1 + 1) sigSuccess (setGuardQ w g q').now
    ((setGuardQ w g q').proc (t.key - 1)).prio (Int.le_refl _)
  refine ⟨{ key := (setGuardQ w g q').ev.counter + 1, item := ⟨aRes, t.key - 1 + 1, encSig sigSuccess, 0⟩,
            d := (setGuardQ w g q').now, i := ((setGuardQ w g q').proc (t.key - 1)).prio }, ?_, rfl, rfl, rfl, rfl, ?_⟩
  · apply foldl_inv (fun w' => _ ∈ w'.ev.pending) _
      (fun w' o hw' => guardSignalF_inv (fun w => _ ∈ w.ev.pending) (fun w m h => by simpa using h) (fun w g q h => h)
        (fun w s t pri h => sched_pending_mono w aRes s sigSuccess t pri _ h)
        (fun w s t pri h => sched_pending_mono w aCond s sigSuccess t pri _ h) 7 true w' o hw')
    rw [hs.2.1]
    exact List.mem_cons_self
  · simp

end CimbaModel.Sim
