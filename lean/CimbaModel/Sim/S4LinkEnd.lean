/-
  S4 — `PL` through the end of a process (everything it holds is dropped: first its list is emptied, then it is taken
  off the holder lists one by one) and through `priority_set` (re-sorting keeps the keys).
-/
import CimbaModel.Sim.S4LinkPool

namespace CimbaModel.Sim.S4
open CimbaModel CimbaModel.Sim CimbaModel.Event CimbaModel.Generated CimbaModel.KPQ
open CimbaModel.HashHeap (HTag Item Order HH WF abs)

variable {w w' : World}

/-! ### dropping everything at the end of a process -/

/-- what holds while `z`, whose list of holdings is already empty, is being taken off the holder lists -/
structure DX (z : Pid) (w : World) : Prop where
  wf : ∀ pl h, w.ph pl = some h → WF holder_queue_check h
  lc : LC w
  hz : (w.proc z).held = []

theorem DX.frame {z : Pid} (h : DX z w) (hp : w'.pools = w.pools) (hprocs : w'.procs = w.procs) : DX z w' :=
  ⟨fun pl x hx => h.wf pl x (by rw [← ph_congr hp]; exact hx),
   h.lc.of_same (ph_congr hp) (fun p pl hm => by rw [← proc_congr hprocs]; exact hm),
   by rw [proc_congr hprocs]; exact h.hz⟩

theorem ph_drop (w : World) (pl0 : Nat) (x : Pool) (hlt : pl0 < w.pools.size) (amt : Nat) (h1 : HH) (pl : Nat) :
    (signal (recordPool { w with pools := w.pools.set! pl0 { x with inUse := amt, holders := h1 } } pl0) x.guard).ph pl =
      if pl = pl0 then some h1 else w.ph pl := by
  rw [signal_ph, recordPool_ph]
  exact ph_set w pl0 _ pl hlt

theorem dx_dropStep {z : Pid} (h : DX z w) (a : HoldRef) : DX z (dropStep z w a) := by
  unfold dropStep
  split
  · split
    · exact h.frame (by simp) (by simp)
    · exact h
  · rename_i pl0
    unfold poolDropHolder
    split
    · exact h
    · rename_i x hx
      have hph0 := ph_eq w pl0 x hx
      have hwf := h.wf pl0 x.holders hph0
      have hlt := lt_size_of_getElem? hx
      split
      · exact h
      · rename_i i hne hfi
        dsimp only
        split
        · rename_i h1 r hrm
          obtain ⟨hwf1, hkeys', _⟩ := hh_remove_ok hwf (Nat.succ_ne_zero z) hrm
          have hph := ph_drop w pl0 x hlt (x.inUse - (x.holders.heap.getD i {}).item.b) h1
          refine ⟨?_, ?_, ?_⟩
          · intro pl hh hhh
            rw [hph] at hhh
            split at hhh
            · injection hhh with hhh; subst hhh; exact hwf1
            · exact h.wf pl hh hhh
          · refine h.lc.set_holders pl0 h1 hph (fun q pl' _ hm => by simpa using hm) ?_
            intro q hm
            have hm' : HoldRef.pool pl0 ∈ (w.proc q).held := by simpa using hm
            rw [hkeys']
            refine ⟨h.lc.ph hm' hph0, ?_⟩
            intro e
            have : q = z := Nat.succ.inj e
            subst this
            rw [h.hz] at hm'
            cases hm'
          · simpa using h.hz
        · exact h.frame (by simp) (by simp)
      · exact h.frame (by simp) (by simp)

theorem lc_dropResources (h : PL w) (z : Pid) : LC (dropResources w z) := by
  rw [dropResources_eq]
  have h0 : DX z (w.modProc z fun x => { x with held := [] }) := by
    refine ⟨fun pl x hx => h.pinv.wf pl x hx, ?_, ?_⟩
    · refine h.lc.of_same (fun pl => rfl) ?_
      intro q pl hm
      rw [proc_modProc] at hm
      split at hm
      · cases hm
      · exact hm
    · rw [proc_modProc]
      split
      · rfl
      · rename_i hne
        by_cases hz : z < w.procs.size
        · exact absurd ⟨rfl, hz⟩ hne
        · rw [proc_oob w z hz]
  exact (foldl_inv (DX z) (dropStep z) (fun w a hw => dx_dropStep hw a) _ _ h0).lc

theorem pl_dropResources (h : PL w) (z : Pid) : PL (dropResources w z) :=
  ⟨pinv_dropResources h.pinv z, by simpa using h.psz, lc_dropResources h z⟩

theorem pl_poolDropHolder_of_not_listed (h : PL w) (pl : Nat) (z : Pid) (hz : (w.proc z).held = []) :
    LC (poolDropHolder w pl z) :=
  (dx_dropStep (z := z) ⟨fun pl x hx => h.pinv.wf pl x hx, h.lc, hz⟩ (.pool pl)).lc

theorem PL.finishProc (h : PL w) (z : Pid) (val : Int) (stopped : Bool) : PL (finishProc w z val stopped) := by
  have hmid : PL (finishMid w z stopped) := by
    unfold finishMid; split
    · exact pl_dropResources (h.cancelAwaiteds z) z
    · exact (pl_dropResources h z).cancelAwaiteds z
  rw [finishProc_eq]
  exact (hmid.wakeWaiters z _).modProc_keep _ _ (fun _ => rfl)

/-! ### `priority_set` -/

/-- one step of the second loop of `priority_set`: re-sorting the holder record of pool `pl` -/
theorem pl_reprio_step (h : PL w) (q : Pid) (v : Int) (a : HoldRef) :
    PL (match a with
      | .pool pl =>
        match w.pools[pl]? with
        | some x =>
          match HashHeap.reprioritize holder_queue_check x.holders (q + 1) 0 v with
          | .ok h' => { w with pools := w.pools.set! pl { x with holders := h' } }
          | .error f => w.fail s!"priority_set holder: {f}"
        | none => w
      | .res _ => w) := by
  refine ⟨pinv_reprio_step h.pinv q v a, ?_, ?_⟩
  · split
    · split
      · split
        · exact h.psz
        · exact (h.fail _).psz
      · exact h.psz
    · exact h.psz
  · split
    · rename_i pl
      split
      · rename_i x hx
        split
        · rename_i h' hr
          have hph0 := ph_eq w pl x hx
          have hwf := h.pinv.wf pl x.holders hph0
          obtain ⟨_, hkeys'⟩ := hh_reprio_ok hwf hr
          refine h.lc.set_holders pl h' (fun pl' => ph_set w pl _ pl' (lt_size_of_getElem? hx))
            (fun _ _ _ hm => hm) ?_
          intro q' hq'
          rw [hkeys']
          exact h.lc.ph (w := w) hq' hph0
        · exact (h.fail _).lc
      · exact h.lc
    · exact h.lc

theorem pl_prioSet (h : PL w) (p q : Pid) (v : Int) : PL (execCmd w p (.prioSet q v)).1 := by
  simp only [execCmd]
  split
  · exact h
  · dsimp only
    have h0 : PL (w.modProc q fun y => { y with prio := v }) := h.modProc_keep _ _ (fun _ => rfl)
    apply foldl_inv PL _ (fun w' a hw' => pl_reprio_step hw' q v a)
    apply foldl_inv PL
    · intro w' a hw'
      have hp : ∀ (x : World), x.pools = w'.pools → x.procs = w'.procs → PL x := fun x h1 h2 => PL.frame hw' h1 h2
      apply hp <;> frame_close
    · exact h0

end CimbaModel.Sim.S4
