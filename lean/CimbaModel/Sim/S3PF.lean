/-
  S3 — the process-table footprint `PF`: functions that change no registration (awaits, waiter lists), no status and
  no recorded frame of any process, and at most shrink the event-waiter table.
-/
import CimbaModel.Sim.S3PInv

namespace CimbaModel.Sim.S3
open CimbaModel CimbaModel.Sim CimbaModel.Event CimbaModel.Generated CimbaModel.KPQ
open CimbaModel.HashHeap (HTag Item Order HH WF abs liveTags)

structure PF (w w' : World) : Prop where
  ctl : SameCtl w w'
  evw : ∀ x ∈ w'.evWaiters, x ∈ w.evWaiters
  psize : w'.procs.size = w.procs.size

theorem PF.refl (w : World) : PF w w := ⟨SameCtl.refl w, fun _ h => h, rfl⟩

theorem PF.trans {w w1 w2 : World} (h1 : PF w w1) (h2 : PF w1 w2) : PF w w2 :=
  ⟨fun p => ⟨(h2.ctl p).1.trans (h1.ctl p).1, (h2.ctl p).2.1.trans (h1.ctl p).2.1,
    (h2.ctl p).2.2.1.trans (h1.ctl p).2.2.1, (h2.ctl p).2.2.2.trans (h1.ctl p).2.2.2⟩,
   fun x hx => h1.evw x (h2.evw x hx), h2.psize.trans h1.psize⟩

theorem PF.same {w0 w w' : World} (h : PF w0 w) (hp : w'.procs = w.procs) (he : w'.evWaiters = w.evWaiters) : PF w0 w' :=
  h.trans ⟨sameCtl_of_procs hp, by rw [he]; exact fun _ h => h, by rw [hp]⟩

theorem PF.fail {w0 w : World} (h : PF w0 w) (m : String) : PF w0 (w.fail m) := h.same (by simp) (by simp)
theorem PF.emit {w0 w : World} (h : PF w0 w) (l : String) : PF w0 (w.emit l) := h.same rfl rfl
theorem PF.modProc_ctl {w0 w : World} (h : PF w0 w) (p : Pid) (f : Proc → Proc)
    (hf : ∀ x, (f x).awaits = x.awaits ∧ (f x).waiters = x.waiters ∧ (f x).status = x.status ∧ (f x).blocked = x.blocked) :
    PF w0 (w.modProc p f) :=
  h.trans ⟨sameCtl_modProc w p f hf, fun _ h => h, by simp⟩
theorem PF.setRes {w0 w : World} (h : PF w0 w) (x : Array Res) : PF w0 { w with res := x } := h.same rfl rfl
theorem PF.setPools {w0 w : World} (h : PF w0 w) (x : Array Pool) : PF w0 { w with pools := x } := h.same rfl rfl
theorem PF.setBufs {w0 w : World} (h : PF w0 w) (x : Array Buf) : PF w0 { w with bufs := x } := h.same rfl rfl
theorem PF.setOqs {w0 w : World} (h : PF w0 w) (x : Array OQ) : PF w0 { w with oqs := x } := h.same rfl rfl
theorem PF.setPqs {w0 w : World} (h : PF w0 w) (x : Array PQ) : PF w0 { w with pqs := x } := h.same rfl rfl
theorem PF.setFlags {w0 w : World} (h : PF w0 w) (x : Array Int) : PF w0 { w with flags := x } := h.same rfl rfl
theorem PF.setGvars {w0 w : World} (h : PF w0 w) (x : Array Nat) : PF w0 { w with gvars := x } := h.same rfl rfl
theorem PF.setGuards {w0 w : World} (h : PF w0 w) (x : Array Guard) : PF w0 { w with guards := x } := h.same rfl rfl
theorem PF.setEv {w0 w : World} (h : PF w0 w) (x : EvQ) : PF w0 { w with ev := x } := h.same rfl rfl
theorem PF.setGuardQ {w0 w : World} (h : PF w0 w) (g : Nat) (q : HH) : PF w0 (setGuardQ w g q) := h.same rfl rfl
theorem PF.sched_fst {w0 w : World} (h : PF w0 w) (a s : Nat) (sig t pri : Int) : PF w0 (sched w a s sig t pri).1 :=
  h.same (by simp) (by simp)
theorem PF.evCancel_fst {w0 w : World} (h : PF w0 w) (k : Nat) : PF w0 (evCancel w k).1 :=
  h.trans ⟨sameCtl_of_procs (evCancel_rel w k).procs, (evCancel_rel w k).evWaiters, by rw [(evCancel_rel w k).procs]⟩

theorem PF.foldl {α : Type} {f : World → α → World} (hf : ∀ w a, PF w (f w a)) {w0 : World} :
    ∀ (l : List α) {w : World}, PF w0 w → PF w0 (l.foldl f w) := by
  intro l
  induction l with
  | nil => intro w h; exact h
  | cons a l ih => intro w h; exact ih (h.trans (hf w a))

/-- one function layer (never closes a goal by reflexivity, never splits) -/
syntax "pf_fun" : tactic
macro_rules | `(tactic| pf_fun) => `(tactic| (guard_world_lit; with_reducible apply PF.setEv))
macro_rules | `(tactic| pf_fun) => `(tactic| (guard_world_lit; with_reducible apply PF.setGuards))
macro_rules | `(tactic| pf_fun) => `(tactic| (guard_world_lit; with_reducible apply PF.setGvars))
macro_rules | `(tactic| pf_fun) => `(tactic| (guard_world_lit; with_reducible apply PF.setFlags))
macro_rules | `(tactic| pf_fun) => `(tactic| (guard_world_lit; with_reducible apply PF.setPqs))
macro_rules | `(tactic| pf_fun) => `(tactic| (guard_world_lit; with_reducible apply PF.setOqs))
macro_rules | `(tactic| pf_fun) => `(tactic| (guard_world_lit; with_reducible apply PF.setBufs))
macro_rules | `(tactic| pf_fun) => `(tactic| (guard_world_lit; with_reducible apply PF.setPools))
macro_rules | `(tactic| pf_fun) => `(tactic| (guard_world_lit; with_reducible apply PF.setRes))
macro_rules | `(tactic| pf_fun) => `(tactic| with_reducible apply PF.evCancel_fst)
macro_rules | `(tactic| pf_fun) => `(tactic| with_reducible apply PF.sched_fst)
macro_rules | `(tactic| pf_fun) => `(tactic| with_reducible apply PF.setGuardQ)
macro_rules | `(tactic| pf_fun) => `(tactic| (with_reducible refine PF.modProc_ctl ?_ _ _ (fun _ => ⟨rfl, rfl, rfl, rfl⟩)))
macro_rules | `(tactic| pf_fun) => `(tactic| with_reducible apply PF.emit)
macro_rules | `(tactic| pf_fun) => `(tactic| with_reducible apply PF.fail)

syntax "pf_step" : tactic
macro_rules | `(tactic| pf_step) => `(tactic| dsimp only)
macro_rules | `(tactic| pf_step) => `(tactic| split)
macro_rules | `(tactic| pf_step) => `(tactic| pf_fun)
macro_rules | `(tactic| pf_step) => `(tactic| with_reducible exact PF.refl _)
macro_rules | `(tactic| pf_step) => `(tactic| with_reducible assumption)
macro "pf" : tactic => `(tactic| repeat' pf_step)

theorem PF.cancelAllFor {w0 w : World} (h : PF w0 w) (p : Pid) : PF w0 (cancelAllFor w p) := by
  unfold Sim.cancelAllFor; exact PF.foldl (fun w q => by pf) _ h
macro_rules | `(tactic| pf_fun) => `(tactic| with_reducible apply PF.cancelAllFor)
theorem PF.cancelKindFor_fst {w0 w : World} (h : PF w0 w) (p : Pid) (act : Nat) (sig : Option Int) :
    PF w0 (cancelKindFor w p act sig).1 := by
  unfold Sim.cancelKindFor; exact PF.foldl (fun w q => by pf) _ h
macro_rules | `(tactic| pf_fun) => `(tactic| with_reducible apply PF.cancelKindFor_fst)
theorem PF.cancelUserAll_fst {w0 w : World} (h : PF w0 w) :
    PF w0 (cancelUserAll w).1 := by
  unfold Sim.cancelUserAll; exact PF.foldl (fun w q => by pf) _ h
macro_rules | `(tactic| pf_fun) => `(tactic| with_reducible apply PF.cancelUserAll_fst)
theorem PF.wakeEventWaiters {w0 w : World} (h : PF w0 w) (ps : List Pid) (sig : Int) : PF w0 (wakeEventWaiters w ps sig) := by
  unfold Sim.wakeEventWaiters; exact PF.foldl (fun w q => by pf) _ h
macro_rules | `(tactic| pf_fun) => `(tactic| with_reducible apply PF.wakeEventWaiters)

theorem PF.recordRes {w0 w : World} (h : PF w0 w) (r : Nat) : PF w0 (recordRes w r) := by unfold Sim.recordRes; pf
theorem PF.recordPool {w0 w : World} (h : PF w0 w) (r : Nat) : PF w0 (recordPool w r) := by unfold Sim.recordPool; pf
theorem PF.recordBuf {w0 w : World} (h : PF w0 w) (r : Nat) : PF w0 (recordBuf w r) := by unfold Sim.recordBuf; pf
theorem PF.recordOQ {w0 w : World} (h : PF w0 w) (r : Nat) : PF w0 (recordOQ w r) := by unfold Sim.recordOQ; pf
theorem PF.recordPQ {w0 w : World} (h : PF w0 w) (r : Nat) : PF w0 (recordPQ w r) := by unfold Sim.recordPQ; pf
macro_rules | `(tactic| pf_fun) => `(tactic| with_reducible apply PF.recordRes)
macro_rules | `(tactic| pf_fun) => `(tactic| with_reducible apply PF.recordPool)
macro_rules | `(tactic| pf_fun) => `(tactic| with_reducible apply PF.recordBuf)
macro_rules | `(tactic| pf_fun) => `(tactic| with_reducible apply PF.recordOQ)
macro_rules | `(tactic| pf_fun) => `(tactic| with_reducible apply PF.recordPQ)

theorem PF.guardRemove_fst {w0 w : World} (h : PF w0 w) (g : Nat) (p : Pid) : PF w0 (guardRemove w g p).1 := by
  unfold Sim.guardRemove; pf
macro_rules | `(tactic| pf_fun) => `(tactic| with_reducible apply PF.guardRemove_fst)

theorem PF.frontStep {w0 w : World} (h : PF w0 w) (g : Nat) (gd : Guard) : PF w0 (frontStep w g gd) := by
  unfold S3.frontStep; pf

theorem PF.condSignal_fst {w0 w : World} (h : PF w0 w) (g : Nat) : PF w0 (condSignal w g).1 := by
  simp only [Sim.condSignal]
  split
  · exact h
  · split
    · exact h
    · refine PF.foldl (fun w q => by pf) _ ?_
      exact PF.foldl (fun w q => by pf) _ h
macro_rules | `(tactic| pf_fun) => `(tactic| with_reducible apply PF.condSignal_fst)

theorem PF.ownStep {w0 w : World} (h : PF w0 w) (fwd : Bool) (g : Nat) (gd : Guard) : PF w0 (ownStep fwd w g gd) := by
  unfold S3.ownStep
  split
  · exact h.condSignal_fst g
  · exact h.frontStep g gd

theorem PF.guardSignalF' : ∀ (fuel : Nat) (fwd : Bool) (w : World) (g : Nat), PF w (guardSignalF fwd fuel w g) := by
  intro fuel
  induction fuel with
  | zero => intro fwd w g; rw [guardSignalF_zero]; exact (PF.refl w).fail _
  | succ fuel ih =>
    intro fwd w g
    rw [guardSignalF_succ]
    split
    · exact PF.refl w
    · exact PF.foldl (fun w o => ih true w o) _ ((PF.refl w).ownStep fwd g _)

theorem PF.guardSignal' (fuel : Nat) (w : World) (g : Nat) : PF w (guardSignal fuel w g) :=
  PF.guardSignalF' fuel false w g

theorem PF.signal {w0 w : World} (h : PF w0 w) (g : Nat) : PF w0 (signal w g) := h.trans (PF.guardSignal' 8 w g)
macro_rules | `(tactic| pf_fun) => `(tactic| with_reducible apply PF.signal)

theorem PF.guardWithdraw {w0 w : World} (h : PF w0 w) (g : Nat) (p : Pid) : PF w0 (guardWithdraw w g p) := by
  simp only [Sim.guardWithdraw]; pf
macro_rules | `(tactic| pf_fun) => `(tactic| with_reducible apply PF.guardWithdraw)

theorem PF.removeHeld_fst {w0 w : World} (h : PF w0 w) (p : Pid) (x : HoldRef) : PF w0 (removeHeld w p x).1 := by
  simp only [Sim.removeHeld]; pf
macro_rules | `(tactic| pf_fun) => `(tactic| with_reducible apply PF.removeHeld_fst)

theorem PF.poolDropHolder {w0 w : World} (h : PF w0 w) (pl : Nat) (p : Pid) : PF w0 (poolDropHolder w pl p) := by
  unfold Sim.poolDropHolder; pf
macro_rules | `(tactic| pf_fun) => `(tactic| with_reducible apply PF.poolDropHolder)

theorem PF.dropResources {w0 w : World} (h : PF w0 w) (p : Pid) : PF w0 (dropResources w p) := by
  unfold Sim.dropResources
  exact PF.foldl (fun w q => by pf) _ (by pf)
macro_rules | `(tactic| pf_fun) => `(tactic| with_reducible apply PF.dropResources)

theorem PF.grab {w0 w : World} (h : PF w0 w) (r : Nat) (p : Pid) : PF w0 (grab w r p) := by unfold Sim.grab; pf
macro_rules | `(tactic| pf_fun) => `(tactic| with_reducible apply PF.grab)
theorem PF.poolUpdateRecord {w0 w : World} (h : PF w0 w) (pl : Nat) (p : Pid) (a : Nat) : PF w0 (poolUpdateRecord w pl p a) := by
  unfold Sim.poolUpdateRecord; pf
macro_rules | `(tactic| pf_fun) => `(tactic| with_reducible apply PF.poolUpdateRecord)
theorem PF.setPoolInUse {w0 w : World} (h : PF w0 w) (pl v : Nat) : PF w0 (setPoolInUse w pl v) := by unfold Sim.setPoolInUse; pf
macro_rules | `(tactic| pf_fun) => `(tactic| with_reducible apply PF.setPoolInUse)
theorem PF.setHeldAmount {w0 w : World} (h : PF w0 w) (pl : Nat) (p : Pid) (a : Nat) : PF w0 (setHeldAmount w pl p a) := by
  unfold Sim.setHeldAmount; pf
macro_rules | `(tactic| pf_fun) => `(tactic| with_reducible apply PF.setHeldAmount)
theorem PF.setVar {w0 w : World} (h : PF w0 w) (p : Pid) (v x : Nat) : PF w0 (setVar w p v x) := by unfold Sim.setVar; pf
macro_rules | `(tactic| pf_fun) => `(tactic| with_reducible apply PF.setVar)

theorem PF.poolMug' : ∀ (fuel : Nat) (w : World) (p : Pid) (pl rem : Nat), PF w (poolMug fuel w p pl rem).1 := by
  intro fuel
  induction fuel with
  | zero => intro w p pl rem; exact PF.refl w
  | succ fuel ih =>
    intro w p pl rem
    simp only [Sim.poolMug]
    repeat' first | (with_reducible refine PF.trans ?_ (ih _ _ _ _)) | pf_step
theorem PF.poolMug_fst {w0 w : World} (h : PF w0 w) (fuel : Nat) (p : Pid) (pl rem : Nat) : PF w0 (poolMug fuel w p pl rem).1 :=
  h.trans (PF.poolMug' fuel w p pl rem)
macro_rules | `(tactic| pf_fun) => `(tactic| with_reducible apply PF.poolMug_fst)

theorem PF.poolRollback {w0 w : World} (h : PF w0 w) (p : Pid) (pl ini : Nat) : PF w0 (poolRollback w p pl ini) := by
  simp only [Sim.poolRollback]; pf
macro_rules | `(tactic| pf_fun) => `(tactic| with_reducible apply PF.poolRollback)


theorem PF.setRecording {w0 w : World} (h : PF w0 w) (kind idx : Nat) (on : Bool) : PF w0 (setRecording w kind idx on) := by
  simp only [Sim.setRecording]; pf
macro_rules | `(tactic| pf_fun) => `(tactic| with_reducible apply PF.setRecording)

theorem PF.reprioGuard {w0 w : World} (h : PF w0 w) (q : Pid) (v : Int) (g : Nat) : PF w0 (reprioGuard w q v g) := by
  unfold S3.reprioGuard; pf
theorem PF.prioAwaitStep {w0 w : World} (h : PF w0 w) (q : Pid) (v : Int) (a : Await) : PF w0 (prioAwaitStep q v w a) := by
  unfold S3.prioAwaitStep
  split
  · pf
  · exact h.reprioGuard q v _
  · exact h
theorem PF.prioHeldStep {w0 w : World} (h : PF w0 w) (q : Pid) (v : Int) (x : HoldRef) : PF w0 (prioHeldStep q v w x) := by
  unfold S3.prioHeldStep; pf

end CimbaModel.Sim.S3
