/-
  S3 — `PInv`, part 7: `cmi_process_cancel_awaiteds` and the end of a process.
-/
import CimbaModel.Sim.S3PInvResume
import CimbaModel.Sim.S3PF
import CimbaModel.Sim.S3Hold

namespace CimbaModel.Sim.S3
open CimbaModel CimbaModel.Sim CimbaModel.Event CimbaModel.Generated CimbaModel.KPQ
open CimbaModel.HashHeap (HTag Item Order HH WF abs liveTags)

variable {ex : Pid → Prop} {fr : Pid → Option Frame}

/-- changing status / recorded frame / anything but registrations of a process that is registered nowhere -/
theorem PInv.modFinish {w : World} (hp : PInv ex fr w) (p : Pid) (f : Proc → Proc)
    (hfa : ∀ x, (f x).awaits = x.awaits) (hfw : ∀ x, (f x).waiters = x.waiters)
    (hnil : procAw w p = [] ∧ evAw w p = []) : PInv ex fr (w.modProc p f) := by
  have hpr : ∀ x, ((w.modProc p f).proc x).awaits = (w.proc x).awaits ∧
      ((w.modProc p f).proc x).waiters = (w.proc x).waiters ∧
      (x ≠ p → ((w.modProc p f).proc x).status = (w.proc x).status ∧
        ((w.modProc p f).proc x).blocked = (w.proc x).blocked) := by
    intro x; rw [modProc_proc]; split
    · rename_i h; rw [h.1]; exact ⟨hfa _, hfw _, fun hn => absurd rfl hn⟩
    · exact ⟨rfl, rfl, fun _ => ⟨rfl, rfl⟩⟩
  have hpa : ∀ x, procAw (w.modProc p f) x = procAw w x := fun x => by unfold procAw; rw [(hpr x).1]
  have hea : ∀ x, evAw (w.modProc p f) x = evAw w x := fun x => by unfold evAw; rw [(hpr x).1]
  refine { hp with ap := ?_, ae := ?_, ar := ?_, fb := ?_, w1 := ?_, wn := ?_, e1 := ?_, op := ?_, oe := ?_, oh := ?_ }
  · intro x; rw [hpa]; exact hp.ap x
  · intro x; rw [hea]; exact hp.ae x
  · intro x hx; rw [hpa, hea]
    by_cases hxp : x = p
    · subst hxp; exact hnil
    · rw [((hpr x).2.2 hxp).1] at hx; exact hp.ar x hx
  · intro x hxx hx; rw [hpa, hea]
    by_cases hxp : x = p
    · subst hxp; exact hnil
    · rw [((hpr x).2.2 hxp).2] at hx; exact hp.fb x hxx hx
  · intro x q hq hx; rw [(hpr q).1]; exact hp.w1 x q (by rw [← (hpr x).2.1]; exact hq) hx
  · intro x; rw [(hpr x).2.1]; exact hp.wn x
  · intro h l q hm hq hx; rw [(hpr q).1]; exact hp.e1 h l q hm hq hx
  · intro e he ha x hb hx
    obtain ⟨q, h1, h2⟩ := hp.op e he ha x hb hx
    exact ⟨q, by rw [(hpr x).1]; exact h1, by rw [(hpr q).2.1]; exact h2⟩
  · intro e he ha x hb hx
    obtain ⟨h, h1, h2⟩ := hp.oe e he ha x hb hx
    exact ⟨h, by rw [(hpr x).1]; exact h1, h2⟩
  · intro e he ha x hb hx h hh
    exact hp.oh e he ha x hb hx h (by rw [← (hpr x).1]; exact hh)

/-- one step of the loop of `cmi_process_cancel_awaiteds` -/
def caStep (p : Pid) (w : World) (a : Await) : World :=
  match a with
  | .time h => (evCancel w h).1
  | .guard g => guardWithdraw w g p
  | .proc q => w.modProc q fun x => { x with waiters := (removeFirst x.waiters p).1 }
  | .event h =>
    { w with evWaiters := w.evWaiters.map fun (k, l) => if k = h then (k, (removeFirst l p).1) else (k, l) }

theorem cancelAwaiteds_eq (w : World) (p : Pid) :
    cancelAwaiteds w p =
      cancelAllFor ((w.proc p).awaits.foldl (caStep p) (w.modProc p fun x => { x with awaits := [] })) p := rfl

/-- the loop invariant: `p` is exempt, has no registration of its own left, and whoever still lists it as a waiter is
    among the awaitables not yet processed -/
def CaInv (ex : Pid → Prop) (fr : Pid → Option Frame) (p : Pid) (rest : List Await) (w : World) : Prop :=
  PInv (exAdd ex p) fr w ∧ (procAw w p = [] ∧ evAw w p = []) ∧
  (∀ x, p ∈ (w.proc x).waiters → Await.proc x ∈ rest) ∧
  (∀ k l, (k, l) ∈ w.evWaiters → p ∈ l → Await.event k ∈ rest)

theorem CaInv.of_PF {p : Pid} {a : Await} {rest : List Await} {w w' : World} (h : CaInv ex fr p (a :: rest) w)
    (hpf : PF w w') (hp' : PInv (exAdd ex p) fr w') (ha : isProcA a = false ∧ isEventA a = false) :
    CaInv ex fr p rest w' := by
  obtain ⟨_, hnil, hw, he⟩ := h
  refine ⟨hp', by rw [procAw_congr hpf.ctl, evAw_congr hpf.ctl]; exact hnil, ?_, ?_⟩
  · intro x hx
    rw [(hpf.ctl x).2.1] at hx
    rcases List.mem_cons.1 (hw x hx) with h' | h'
    · rw [← h'] at ha; cases ha.1
    · exact h'
  · intro k l hm hpl
    rcases List.mem_cons.1 (he k l (hpf.evw _ hm) hpl) with h' | h'
    · rw [← h'] at ha; cases ha.2
    · exact h'

theorem CaInv.step {p : Pid} {a : Await} {rest : List Await} {w : World} (h : CaInv ex fr p (a :: rest) w) :
    CaInv ex fr p rest (caStep p w a) := by
  cases a with
  | time k => exact h.of_PF ((PF.refl w).evCancel_fst k) (h.1.evCancel_fst k) ⟨rfl, rfl⟩
  | guard g => exact h.of_PF ((PF.refl w).guardWithdraw g p) (h.1.guardWithdraw g p) ⟨rfl, rfl⟩
  | proc q =>
    obtain ⟨hp, hnil, hw, he⟩ := h
    have hC := hp.shrinkWaiters q (fun l => (removeFirst l p).1) (fun l x hx => removeFirst_subset l p x hx)
      (fun l hl => (removeFirst_nodup l p hl).1)
    have hpr : ∀ x, ((caStep p w (.proc q)).proc x).awaits = (w.proc x).awaits := by
      intro x; unfold caStep; simp only; rw [modProc_proc]; split
      · rename_i h'; rw [h'.1]
      · rfl
    refine ⟨hC, ?_, ?_, fun k l hm hpl => ?_⟩
    · unfold procAw evAw; rw [hpr]; exact hnil
    · intro x hx
      unfold caStep at hx; simp only at hx
      rw [modProc_proc] at hx
      split at hx
      · rename_i h'
        exact absurd hx (removeFirst_nodup _ p (hp.wn q)).2
      · rename_i h'
        rcases List.mem_cons.1 (hw x hx) with heq | hr
        · have hxq : x = q := by injection heq
          subst hxq
          have hq : x < w.procs.size := by
            rcases Nat.lt_or_ge x w.procs.size with h'' | h''
            · exact h''
            · rw [proc_oob w h''] at hx; simp at hx
          exact absurd ⟨rfl, hq⟩ h'
        · exact hr
    · rcases List.mem_cons.1 (he k l hm hpl) with heq | hr
      · cases heq
      · exact hr
  | event k =>
    obtain ⟨hp, hnil, hw, he⟩ := h
    have hC := hp.dropEvWaiter k p
    refine ⟨hC, hnil, fun x hx => ?_, ?_⟩
    · rcases List.mem_cons.1 (hw x hx) with heq | hr
      · cases heq
      · exact hr
    · intro k' l' hm hpl
      obtain ⟨l, hl, heq⟩ := dropEvWaiter_mem hm
      rw [heq] at hpl
      split at hpl
      · exact absurd hpl (removeFirst_nodup l p (hp.en.2 k' l hl)).2
      · rename_i hk
        rcases List.mem_cons.1 (he k' l hl hpl) with heq' | hr
        · cases heq'; exact absurd rfl hk
        · exact hr

theorem CaInv.foldl {p : Pid} : ∀ (l : List Await) {w : World}, CaInv ex fr p l w → CaInv ex fr p [] (l.foldl (caStep p) w) := by
  intro l
  induction l with
  | nil => intro w h; exact h
  | cons a l ih => intro w h; exact ih h.step

/-- `cmi_process_cancel_awaiteds`: afterwards the process is registered nowhere, has no event pending, and the invariant
    holds whatever its frame -/
theorem PInv.cancelAwaiteds {w : World} (hp : PInv ex fr w) (p : Pid) (hxp : ¬ ex p) :
    PInv ex fr (Sim.cancelAwaiteds w p) ∧ procAw (Sim.cancelAwaiteds w p) p = [] ∧ evAw (Sim.cancelAwaiteds w p) p = [] := by
  rw [cancelAwaiteds_eq]
  -- enter the loop
  have h0 : CaInv ex fr p (w.proc p).awaits (w.modProc p fun x => { x with awaits := [] }) := by
    have hA : PInv (exAdd ex p) fr (w.modProc p fun x => { x with awaits := [] }) :=
      (hp.exempt p).modProcEx _ rfl rfl rfl rfl
    have hwt : ∀ x, ((w.modProc p fun x => { x with awaits := [] }).proc x).waiters = (w.proc x).waiters := by
      intro x; rw [modProc_proc]; split
      · rename_i h; rw [h.1]
      · rfl
    refine ⟨hA, ?_, ?_, ?_⟩
    · unfold procAw evAw
      by_cases hs : p < w.procs.size
      · rw [modProc_proc_self w _ hs]; exact ⟨rfl, rfl⟩
      · rw [modProc_proc]; simp only [hs, and_false, if_false]
        rw [proc_oob w (Nat.le_of_not_lt hs)]; exact ⟨rfl, rfl⟩
    · intro x hx; rw [hwt] at hx; exact hp.w1 x p hx hxp
    · intro k l hm hpl; exact hp.e1 k l p hm hpl hxp
  obtain ⟨hE, hnil, hnw, hne⟩ := h0.foldl
  generalize ((w.proc p).awaits.foldl (caStep p) (w.modProc p fun x => { x with awaits := [] })) = w1 at hE hnil hnw hne
  have hnw' : ∀ x, p ∉ (w1.proc x).waiters := fun x hx => by cases hnw x hx
  have hne' : ∀ k l, (k, l) ∈ w1.evWaiters → p ∉ l := fun k l hm hpl => by cases hne k l hm hpl
  -- cancel everything addressed to p
  have hF := hE.cancelAllFor p
  obtain ⟨hrel, hgone, _⟩ := cancelAllFor_spec w1 p hE.ei
  have hpf := (PF.refl w1).cancelAllFor p
  have hnil' : procAw (Sim.cancelAllFor w1 p) p = [] ∧ evAw (Sim.cancelAllFor w1 p) p = [] := by
    rw [procAw_congr hpf.ctl, evAw_congr hpf.ctl]; exact hnil
  refine ⟨hF.unexempt ?_ ?_ ?_ (fun _ => hnil'), hnil'⟩
  · intro e he _ hb
    rcases hrel.pend e he with hold | ⟨hc, k, l, x, hm, hx, heq⟩
    · exact hgone e he (EvInv.key_le hE.ei hold) hb
    · rw [heq] at hb
      simp only [mkEv] at hb
      have : x = p := Nat.add_right_cancel hb
      subst this
      exact hne' k l hm hx
  · intro x hx; rw [(hpf.ctl x).2.1] at hx; exact hnw' x hx
  · intro k l hm; exact hne' k l (hpf.evw _ hm)

/-- the end of a process (exit / return / stop) -/
theorem PInv.finishProc {w : World} (hp : PInv ex fr w) (p : Pid) (val : Int) (stopped : Bool) (hxp : ¬ ex p) :
    PInv ex fr (Sim.finishProc w p val stopped) := by
  rw [finishProc_eq]
  rw [← wakeWaiters_eq]
  have hpre : PInv ex fr (finishPre w p stopped) ∧ procAw (finishPre w p stopped) p = [] ∧ evAw (finishPre w p stopped) p = [] := by
    unfold finishPre
    split
    · obtain ⟨h1, h2, h3⟩ := hp.cancelAwaiteds p hxp
      have hpf := (PF.refl (Sim.cancelAwaiteds w p)).dropResources p
      exact ⟨h1.dropResources p, by rw [procAw_congr hpf.ctl]; exact h2, by rw [evAw_congr hpf.ctl]; exact h3⟩
    · exact (hp.dropResources p).cancelAwaiteds p hxp
  have hW := hpre.1.wakeWaiters p (if stopped then sigStopped else sigSuccess)
  refine hW.modFinish p _ (fun _ => rfl) (fun _ => rfl) ?_
  -- waking the waiters does not touch registrations
  rw [wakeWaiters_eq]
  unfold procAw evAw
  have : ∀ x, ((pushAll ((finishPre w p stopped).modProc p fun x => { x with waiters := [] })
      (procWakes (finishPre w p stopped) p (if stopped then sigStopped else sigSuccess))).proc x).awaits =
      ((finishPre w p stopped).proc x).awaits := by
    intro x; rw [pushAll_proc, modProc_proc]; split
    · rename_i h; rw [h.1]
    · rfl
  rw [this]; exact hpre.2

end CimbaModel.Sim.S3
