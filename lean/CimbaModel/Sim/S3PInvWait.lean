/-
  S3 — `PInv`, part 5: waking the waiters of a process, `wait_process` and `wait_event` with their epilogues.
-/
import CimbaModel.Sim.S3PInvEx

namespace CimbaModel.Sim.S3
open CimbaModel CimbaModel.Sim CimbaModel.Event CimbaModel.Generated CimbaModel.KPQ
open CimbaModel.HashHeap (HTag Item Order HH WF abs liveTags)

variable {ex : Pid → Prop} {fr : Pid → Option Frame}

theorem procWakes_subj (w : World) (p : Pid) (sig : Int) : (procWakes w p sig).map (·.subj) = (w.proc p).waiters.map (· + 1) := by
  simp [procWakes, List.map_map, Function.comp_def]

/-- `wake_process_waiters`: every registered waiter gets its wake-up, the list is cleared -/
theorem PInv.wakeWaiters {w : World} (hp : PInv ex fr w) (p : Pid) (sig : Int) : PInv ex fr (wakeWaiters w p sig) := by
  rw [wakeWaiters_eq]
  have hpr : ∀ x, (pushAll (w.modProc p fun x => { x with waiters := [] }) (procWakes w p sig)).proc x =
      if x = p ∧ p < w.procs.size then { w.proc p with waiters := [] } else w.proc x := by
    intro x; rw [pushAll_proc, modProc_proc]
  have haw : ∀ x, ((pushAll (w.modProc p fun x => { x with waiters := [] }) (procWakes w p sig)).proc x).awaits = (w.proc x).awaits ∧
      ((pushAll (w.modProc p fun x => { x with waiters := [] }) (procWakes w p sig)).proc x).status = (w.proc x).status ∧
      ((pushAll (w.modProc p fun x => { x with waiters := [] }) (procWakes w p sig)).proc x).blocked = (w.proc x).blocked := by
    intro x; rw [hpr]; split
    · rename_i h; rw [h.1]; exact ⟨rfl, rfl, rfl⟩
    · exact ⟨rfl, rfl, rfl⟩
  have hwt : ∀ x q, q ∈ ((pushAll (w.modProc p fun x => { x with waiters := [] }) (procWakes w p sig)).proc x).waiters →
      q ∈ (w.proc x).waiters ∧ (x = p → False) := by
    intro x q hq; rw [hpr] at hq; split at hq
    · simp at hq
    · rename_i h
      refine ⟨hq, fun hxp => ?_⟩
      subst hxp
      have : ¬ x < w.procs.size := fun hs => h ⟨rfl, hs⟩
      rw [proc_oob w (Nat.le_of_not_lt this)] at hq
      simp at hq
  have hpa : ∀ x, procAw (pushAll (w.modProc p fun x => { x with waiters := [] }) (procWakes w p sig)) x = procAw w x := by
    intro x; unfold procAw; rw [(haw x).1]
  have hea : ∀ x, evAw (pushAll (w.modProc p fun x => { x with waiters := [] }) (procWakes w p sig)) x = evAw w x := by
    intro x; unfold evAw; rw [(haw x).1]
  have hnew : ∀ e ∈ wakeEvs (w.modProc p fun x => { x with waiters := [] }).ev.counter
      (w.modProc p fun x => { x with waiters := [] }).now (procWakes w p sig),
      e.item.a = aProc ∧ ∃ q ∈ (w.proc p).waiters, e.item.b = q + 1 := by
    intro e he
    obtain ⟨_, _, _, _, x, hx, heq⟩ := wakeEvs_props he
    simp only [procWakes, List.mem_map] at hx
    obtain ⟨q, hq, rfl⟩ := hx
    rw [heq]; exact ⟨rfl, q, hq, rfl⟩
  have hne : (aProc : Nat) ≠ aEvent := by decide
  refine { sb := fun e he _ => by
             simp only [pushAll_pending, modProc_ev, List.mem_append] at he
             rcases he with he | he
             · obtain ⟨_, q, _, hbq⟩ := hnew e he
               rw [hbq]; exact Nat.succ_ne_zero q
             · exact hp.sb e he (by assumption),
           ei := pushAll_evinv _ hp.ei,
           ap := fun x => by rw [hpa]; exact hp.ap x,
           ae := fun x => by rw [hea]; exact hp.ae x,
           ar := fun x hx => by rw [hpa, hea]; rw [(haw x).2.1] at hx; exact hp.ar x hx,
           fb := fun x hxx hx => by rw [hpa, hea]; rw [(haw x).2.2] at hx; exact hp.fb x hxx hx,
           w1 := fun x q hq hx => by rw [(haw q).1]; exact hp.w1 x q (hwt x q hq).1 hx,
           wn := ?_, e1 := fun h l q hm hq hx => by rw [(haw q).1]; exact hp.e1 h l q hm hq hx,
           en := hp.en, op := ?_, oe := ?_, up := ?_, ue := ?_, oh := ?_,
           es := fun h l hm => by
             obtain ⟨e2, he2, hk2⟩ := Event.mem_keys.1 (hp.es h l hm)
             exact Event.mem_keys.2 ⟨e2, by simp only [pushAll_pending, modProc_ev]; exact List.mem_append_right _ he2, hk2⟩ }
  · intro x; rw [hpr]; split
    · simp
    · exact hp.wn x
  · intro e he ha x hb hx
    simp only [pushAll_pending, modProc_ev, List.mem_append] at he
    rcases he with he | he
    · obtain ⟨_, q, hq, hbq⟩ := hnew e he
      have : q = x := Nat.add_right_cancel (hbq.symm.trans hb)
      subst this
      refine ⟨p, by rw [(haw q).1]; exact hp.w1 p q hq hx, fun hmem => (hwt p q hmem).2 rfl⟩
    · obtain ⟨q, h1, h2⟩ := hp.op e he ha x hb hx
      exact ⟨q, by rw [(haw x).1]; exact h1, fun hmem => h2 (hwt q x hmem).1⟩
  · intro e he ha x hb hx
    simp only [pushAll_pending, modProc_ev, List.mem_append] at he
    rcases he with he | he
    · exact absurd ((hnew e he).1.symm.trans ha) hne
    · obtain ⟨h, h1, h2⟩ := hp.oe e he ha x hb hx
      exact ⟨h, by rw [(haw x).1]; exact h1, h2⟩
  · intro e he ha x hb hx h hh
    simp only [pushAll_pending, modProc_ev, List.mem_append] at he
    rw [(haw x).1] at hh
    rcases he with he | he
    · exact absurd ((hnew e he).1.symm.trans ha) hne
    · obtain ⟨h1, h2⟩ := hp.oh e he ha x hb hx h hh
      refine ⟨fun hm => ?_, by simp only [pushAll_counter, modProc_ev]; omega⟩
      obtain ⟨e2, he2, hk2⟩ := Event.mem_keys.1 hm
      simp only [pushAll_pending, modProc_ev, List.mem_append] at he2
      rcases he2 with he2 | he2
      · have := (wakeEvs_props he2).1
        omega
      · exact h1 (Event.mem_keys.2 ⟨e2, he2, hk2⟩)
  · intro a ha b hb haa hba hbb x hbx hx
    simp only [pushAll_pending, modProc_ev, List.mem_append] at ha hb
    -- an old process-end wake-up for a registered waiter of p is impossible
    have hclash : ∀ y ∈ w.ev.pending, y.item.a = aProc → ∀ q ∈ (w.proc p).waiters, ¬ ex q → y.item.b = q + 1 → False := by
      intro y hy hya q hq hxq hyb
      obtain ⟨q', h1, h2⟩ := hp.op y hy hya q hyb hxq
      have := (hp.proc_unique h1 (hp.w1 p q hq hxq)).1
      rw [this] at h2; exact h2 hq
    rcases ha with ha | ha <;> rcases hb with hb | hb
    · refine wakeEvs_subj_inj ?_ ha hb hbb
      rw [procWakes_subj]; exact nodup_map_succ (hp.wn p)
    · obtain ⟨_, q, hq, hbq⟩ := hnew a ha
      have : q = x := Nat.add_right_cancel (hbq.symm.trans hbx)
      subst this
      exact (hclash b hb hba q hq hx (by rw [← hbb, hbq])).elim
    · obtain ⟨_, q, hq, hbq⟩ := hnew b hb
      have : q = x := Nat.add_right_cancel (hbq.symm.trans (hbb.symm.trans hbx))
      subst this
      exact (hclash a ha haa q hq hx hbx).elim
    · exact hp.up a ha b hb haa hba hbb x hbx hx
  · intro a ha b hb haa hba hbb x hbx hx
    simp only [pushAll_pending, modProc_ev, List.mem_append] at ha hb
    rcases ha with ha | ha
    · exact absurd ((hnew a ha).1.symm.trans haa) hne
    · rcases hb with hb | hb
      · exact absurd ((hnew b hb).1.symm.trans hba) hne
      · exact hp.ue a ha b hb haa hba hbb x hbx hx

/-- the world in which `p` is suspended in `wait_process q` -/
def waitProcWorld (w : World) (p q : Pid) : World :=
  (block ((addAwait w p (.proc q)).modProc q fun y => { y with waiters := p :: y.waiters }) p (.waitProc q)).1

theorem waitProcWorld_proc (w : World) (p q x : Pid) (hp : p < w.procs.size) (hq : q < w.procs.size) :
    ((waitProcWorld w p q).proc x).awaits = (if x = p then .proc q :: (w.proc x).awaits else (w.proc x).awaits) ∧
    ((waitProcWorld w p q).proc x).waiters = (if x = q then p :: (w.proc x).waiters else (w.proc x).waiters) ∧
    ((waitProcWorld w p q).proc x).blocked = (if x = p then some (.waitProc q) else (w.proc x).blocked) ∧
    ((waitProcWorld w p q).proc x).status = (w.proc x).status := by
  unfold waitProcWorld block addAwait
  simp only [modProc_proc, modProc_procs_size, hp, hq, and_true]
  by_cases h1 : x = p <;> by_cases h2 : x = q <;> simp [h1, h2]
  all_goals (try subst h1) <;> (try subst h2) <;> simp_all

theorem lt_of_running {w : World} {p : Pid} (hr : (w.proc p).status = .running) : p < w.procs.size := by
  rcases Nat.lt_or_ge p w.procs.size with h | h
  · exact h
  · rw [proc_oob w h] at hr; cases hr

/-- `wait_process q` by a running process that is registered nowhere: it registers both ways and suspends -/
theorem PInv.cmd_waitProc {w : World} (hp : PInv ex fr w) {p q : Pid} (hfr : fr p = none)
    (hr : (w.proc p).status = .running) (hq : q < w.procs.size) (hxp : ¬ ex p) :
    PInv ex (setFrame fr p (some (.waitProc q))) (waitProcWorld w p q) := by
  have hpl := lt_of_running hr
  have hnil := hp.nil_of_fr_none hfr
  have hf := fun x => waitProcWorld_proc w p q x hpl hq
  have hpa : ∀ x, procAw (waitProcWorld w p q) x = if x = p then [.proc q] else procAw w x := by
    intro x; unfold procAw; rw [(hf x).1]
    split
    · rename_i h; subst h
      have := hnil.1; unfold procAw at this
      simp [List.filter_cons, isProcA, this]
    · rfl
  have hea : ∀ x, evAw (waitProcWorld w p q) x = evAw w x := by
    intro x; unfold evAw; rw [(hf x).1]
    split
    · simp [List.filter_cons, isEventA]
    · rfl
  have hsub : ∀ x a, a ∈ (w.proc x).awaits → a ∈ ((waitProcWorld w p q).proc x).awaits := by
    intro x a ha; rw [(hf x).1]; split
    · exact List.mem_cons_of_mem _ ha
    · exact ha
  have hnop : ∀ a, Await.proc a ∉ (w.proc p).awaits := by
    intro a ha; rw [mem_awaits_proc, hnil.1] at ha; cases ha
  refine { sb := hp.sb, ei := hp.ei, ap := ?_, ae := ?_, ar := ?_, fb := ?_, w1 := ?_, wn := ?_, e1 := ?_, en := hp.en,
           op := ?_, oe := ?_, up := hp.up, ue := hp.ue, oh := ?_, es := hp.es }
  · intro x; rw [hpa]
    by_cases hx : x = p
    · subst hx; right; exact ⟨q, setFrame_self _ _ _, by simp⟩
    · rw [if_neg hx, setFrame_ne _ _ hx]; exact hp.ap x
  · intro x; rw [hea]
    by_cases hx : x = p
    · subst hx; exact Or.inl hnil.2
    · rw [setFrame_ne _ _ hx]; exact hp.ae x
  · intro x hx
    rw [(hf x).2.2.2] at hx
    have hxp' : x ≠ p := fun h => hx (h ▸ hr)
    rw [hpa, hea, if_neg hxp']; exact hp.ar x hx
  · intro x hxx hx
    by_cases hxp' : x = p
    · subst hxp'; rw [(hf x).2.2.1, if_pos rfl, setFrame_self] at hx; exact absurd rfl hx
    · rw [(hf x).2.2.1, if_neg hxp', setFrame_ne _ _ hxp'] at hx
      rw [hpa, hea, if_neg hxp']; exact hp.fb x hxx hx
  · intro x y hy hxy
    rw [(hf x).2.1] at hy
    split at hy
    · rename_i hxq; subst hxq
      rcases List.mem_cons.1 hy with rfl | hy
      · rw [(hf y).1, if_pos rfl]; exact List.mem_cons_self
      · exact hsub y _ (hp.w1 x y hy hxy)
    · exact hsub y _ (hp.w1 x y hy hxy)
  · intro x; rw [(hf x).2.1]; split
    · rename_i hxq; subst hxq
      refine List.nodup_cons.2 ⟨fun hmem => hnop x (hp.w1 x p hmem hxp), hp.wn x⟩
    · exact hp.wn x
  · intro h l y hm hy hxy; exact hsub y _ (hp.e1 h l y hm hy hxy)
  · intro e he ha x hb hx
    obtain ⟨q', h1, h2⟩ := hp.op e he ha x hb hx
    have hxp' : x ≠ p := fun h => hnop q' (h ▸ h1)
    refine ⟨q', hsub x _ h1, ?_⟩
    rw [(hf q').2.1]; split
    · intro hmem; rcases List.mem_cons.1 hmem with h | h
      · exact hxp' h
      · exact h2 h
    · exact h2
  · intro e he ha x hb hx
    obtain ⟨h, h1, h2⟩ := hp.oe e he ha x hb hx
    exact ⟨h, hsub x _ h1, h2⟩

  · intro e he ha x hb hx h hh
    refine hp.oh e he ha x hb hx h ?_
    rw [(hf x).1] at hh
    split at hh
    · rcases List.mem_cons.1 hh with h' | h'
      · cases h'
      · exact h'
    · exact hh


/-! ### wait_event -/

/-- the world in which `p` is suspended in `wait_event h` -/
def waitEventWorld (w : World) (p : Pid) (h : Nat) : World :=
  (block (addAwait { w with evWaiters := (h, p :: (w.evWaiters.lookup h).getD []) :: w.evWaiters.filter (·.1 ≠ h) } p (.event h))
    p (.waitEvent h)).1

theorem waitEventWorld_proc (w : World) (p : Pid) (h : Nat) (x : Pid) (hp : p < w.procs.size) :
    ((waitEventWorld w p h).proc x).awaits = (if x = p then .event h :: (w.proc x).awaits else (w.proc x).awaits) ∧
    ((waitEventWorld w p h).proc x).waiters = (w.proc x).waiters ∧
    ((waitEventWorld w p h).proc x).blocked = (if x = p then some (.waitEvent h) else (w.proc x).blocked) ∧
    ((waitEventWorld w p h).proc x).status = (w.proc x).status := by
  unfold waitEventWorld block addAwait
  simp only [modProc_proc, modProc_procs_size, hp, and_true]
  have hpr : ∀ y, World.proc { w with evWaiters := (h, p :: (w.evWaiters.lookup h).getD []) :: w.evWaiters.filter (·.1 ≠ h) } y = w.proc y :=
    fun _ => rfl
  by_cases h1 : x = p <;> simp [h1]
  all_goals (first | rfl | exact ⟨rfl, rfl⟩ | exact ⟨rfl, rfl, rfl⟩ | exact ⟨rfl, rfl, rfl, rfl⟩)

theorem waitEventWorld_frame (w : World) (p : Pid) (h : Nat) :
    (waitEventWorld w p h).ev = w.ev ∧
    (waitEventWorld w p h).evWaiters = (h, p :: evWaitersOf w h) :: w.evWaiters.filter (·.1 ≠ h) := ⟨rfl, rfl⟩

theorem waitEventWorld_waitersOf (w : World) (p : Pid) (h h' : Nat) :
    evWaitersOf (waitEventWorld w p h) h' = if h' = h then p :: evWaitersOf w h else evWaitersOf w h' := by
  unfold evWaitersOf
  rw [(waitEventWorld_frame w p h).2, List.lookup_cons]
  by_cases hh : h' = h
  · subst hh; simp [evWaitersOf]
  · have : (h' == h) = false := by simpa using hh
    rw [this, lookup_filter_ne _ _ _ hh]; simp [hh]

/-- `wait_event h` on a scheduled event by a running process that is registered nowhere -/
theorem PInv.cmd_waitEvent {w : World} (hp : PInv ex fr w) {p : Pid} {h : Nat} (hfr : fr p = none)
    (hr : (w.proc p).status = .running) (hxp : ¬ ex p) (hs : h ∈ keys w.ev.pending) :
    PInv ex (setFrame fr p (some (.waitEvent h))) (waitEventWorld w p h) := by
  have hpl := lt_of_running hr
  have hnil := hp.nil_of_fr_none hfr
  have hf := fun x => waitEventWorld_proc w p h x hpl
  obtain ⟨hev, hew⟩ := waitEventWorld_frame w p h
  have hpa : ∀ x, procAw (waitEventWorld w p h) x = procAw w x := by
    intro x; unfold procAw; rw [(hf x).1]
    split
    · simp [List.filter_cons, isProcA]
    · rfl
  have hea : ∀ x, evAw (waitEventWorld w p h) x = if x = p then [.event h] else evAw w x := by
    intro x; unfold evAw; rw [(hf x).1]
    split
    · rename_i hx; subst hx
      have := hnil.2; unfold evAw at this
      simp [List.filter_cons, isEventA, this]
    · rfl
  have hsub : ∀ x a, a ∈ (w.proc x).awaits → a ∈ ((waitEventWorld w p h).proc x).awaits := by
    intro x a ha; rw [(hf x).1]; split
    · exact List.mem_cons_of_mem _ ha
    · exact ha
  have hnoe : ∀ a, Await.event a ∉ (w.proc p).awaits := by
    intro a ha; rw [mem_awaits_event, hnil.2] at ha; cases ha
  have hpnot : p ∉ evWaitersOf w h := by
    intro hm
    obtain ⟨l, hl, hpl'⟩ := evWaitersOf_mem hm
    exact hnoe h (hp.e1 h l p hl hpl' hxp)
  refine { sb := by rw [hev]; exact hp.sb, ei := by rw [hev]; exact hp.ei, ap := ?_, ae := ?_, ar := ?_, fb := ?_, w1 := ?_, wn := ?_, e1 := ?_, en := ?_,
           op := ?_, oe := ?_, oh := ?_, up := by rw [hev]; exact hp.up, ue := by rw [hev]; exact hp.ue,
           es := fun h' l hm => by
             rw [hew] at hm; rw [hev]
             rcases List.mem_cons.1 hm with heq | hm
             · cases heq; exact hs
             · exact hp.es h' l (List.mem_filter.1 hm).1 }
  · intro x; rw [hpa]
    by_cases hx : x = p
    · subst hx; exact Or.inl hnil.1
    · rw [setFrame_ne _ _ hx]; exact hp.ap x
  · intro x; rw [hea]
    by_cases hx : x = p
    · subst hx; right; exact ⟨h, setFrame_self _ _ _, by simp⟩
    · rw [if_neg hx, setFrame_ne _ _ hx]; exact hp.ae x
  · intro x hx
    rw [(hf x).2.2.2] at hx
    have hxp' : x ≠ p := fun h' => hx (h' ▸ hr)
    rw [hpa, hea, if_neg hxp']; exact hp.ar x hx
  · intro x hxx hx
    by_cases hxp' : x = p
    · subst hxp'; rw [(hf x).2.2.1, if_pos rfl, setFrame_self] at hx; exact absurd rfl hx
    · rw [(hf x).2.2.1, if_neg hxp', setFrame_ne _ _ hxp'] at hx
      rw [hpa, hea, if_neg hxp']; exact hp.fb x hxx hx
  · intro x y hy hxy
    rw [(hf x).2.1] at hy
    exact hsub y _ (hp.w1 x y hy hxy)
  · intro x; rw [(hf x).2.1]; exact hp.wn x
  · intro h' l y hm hy hxy
    rw [hew] at hm
    rcases List.mem_cons.1 hm with heq | hm
    · cases heq
      rcases List.mem_cons.1 hy with rfl | hy
      · rw [(hf y).1, if_pos rfl]; exact List.mem_cons_self
      · obtain ⟨l', hl', hyl'⟩ := evWaitersOf_mem hy
        exact hsub y _ (hp.e1 h l' y hl' hyl' hxy)
    · exact hsub y _ (hp.e1 h' l y (List.mem_filter.1 hm).1 hy hxy)
  · rw [hew]
    constructor
    · simp only [List.map_cons, List.nodup_cons]
      refine ⟨?_, List.Nodup.sublist ((List.filter_sublist).map _) hp.en.1⟩
      intro hm
      obtain ⟨x, hx, hxk⟩ := List.mem_map.1 hm
      have := (List.mem_filter.1 hx).2
      simp only [ne_eq, decide_eq_true_eq] at this
      exact this hxk
    · intro h' l hm
      rcases List.mem_cons.1 hm with heq | hm
      · cases heq
        exact List.nodup_cons.2 ⟨hpnot, hp.evWaitersOf_nodup h⟩
      · exact hp.en.2 h' l (List.mem_filter.1 hm).1
  · intro e he ha x hb hx
    rw [hev] at he
    obtain ⟨q', h1, h2⟩ := hp.op e he ha x hb hx
    exact ⟨q', hsub x _ h1, by rw [(hf q').2.1]; exact h2⟩
  · intro e he ha x hb hx
    rw [hev] at he
    obtain ⟨h', h1, h2⟩ := hp.oe e he ha x hb hx
    have hxp' : x ≠ p := fun hh => hnoe h' (hh ▸ h1)
    refine ⟨h', hsub x _ h1, ?_⟩
    rw [waitEventWorld_waitersOf]; split
    · rename_i hh; subst hh
      intro hm; rcases List.mem_cons.1 hm with hm | hm
      · exact hxp' hm
      · exact h2 hm
    · exact h2
  · intro e he ha x hb hx h' hh'
    rw [hev] at he ⊢
    obtain ⟨h'', h1, _⟩ := hp.oe e he ha x hb hx
    have hxp' : x ≠ p := fun hh => hnoe h'' (hh ▸ h1)
    rw [(hf x).1, if_neg hxp'] at hh'
    exact hp.oh e he ha x hb hx h' hh'

end CimbaModel.Sim.S3
