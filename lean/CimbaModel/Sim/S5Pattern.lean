/-
  S5 — pattern cancel of the user events (`cmb_event_pattern_cancel(user_action, ANY, ANY)`, command `cancelUserAll`):
  the closed form of a fold of `cmb_event_cancel` over a list of distinct scheduled handles.  Everything the new command
  does follows from it: which events are gone, which are new, who is woken and how often.
-/
import CimbaModel.Sim.S3GuardOps
import CimbaModel.Sim.S3PInvCor

namespace CimbaModel.Sim.S5
open CimbaModel CimbaModel.Sim CimbaModel.Sim.S3 CimbaModel.Event CimbaModel.Generated CimbaModel.KPQ
open CimbaModel.HashHeap (HTag Item Order HH)

/-- the fold of `cmb_event_cancel` over a list of handles -/
def cancelList (w : World) (hs : List Nat) : World := hs.foldl (fun w h => (evCancel w h).1) w

theorem cancelUserAll_eq (w : World) : cancelUserAll w = (cancelList w (userPending w), (userPending w).length) := rfl

/-- the wake-ups scheduled when the handles `hs` are cancelled in this order: for each handle, its registered waiters in
    the order of its waiter list, with CANCELLED and the waiter's priority -/
def cancelWakes (w : World) (hs : List Nat) : List Wake :=
  hs.flatMap fun h => evWakes w ((w.evWaiters.lookup h).getD []) sigCancelled

theorem wakeEvs_append (c : Nat) (now : Int) (xs ys : List Wake) :
    wakeEvs c now (xs ++ ys) = wakeEvs (c + xs.length) now ys ++ wakeEvs c now xs := by
  induction xs generalizing c with
  | nil => simp [wakeEvs]
  | cons x xs ih =>
    simp only [List.cons_append, wakeEvs, ih, List.length_cons, List.append_assoc]
    congr 2
    omega

theorem flatMap_congr' {α β : Type} {l : List α} {f g : α → List β} (h : ∀ a ∈ l, f a = g a) :
    l.flatMap f = l.flatMap g := by
  induction l with
  | nil => rfl
  | cons a l ih =>
    simp only [List.flatMap_cons]
    rw [h a List.mem_cons_self, ih (fun b hb => h b (List.mem_cons_of_mem _ hb))]

theorem lookup_filter_notin {β : Type} (l : List (Nat × β)) (k : Nat) (hs : List Nat) (h : k ∉ hs) :
    (l.filter (fun x => decide (x.1 ∉ hs))).lookup k = l.lookup k := by
  induction l with
  | nil => rfl
  | cons x xs ih =>
    rcases x with ⟨x1, x2⟩
    by_cases hx : x1 ∈ hs
    · have h1 : (k == x1) = false := by
        simp only [beq_eq_false_iff_ne, ne_eq]
        intro hk; exact h (hk ▸ hx)
      rw [List.filter_cons_of_neg (by simpa using hx), List.lookup_cons, h1, ih]
    · rw [List.filter_cons_of_pos (by simpa using hx), List.lookup_cons, List.lookup_cons, ih]

/-- what is left of the pending list, the waiter table, the counter, the clock and the processes after cancelling the
    distinct scheduled handles `hs` in this order -/
theorem cancelList_closed : ∀ (hs : List Nat) (w : World), hs.Nodup →
    (∀ h ∈ hs, h ∈ keys w.ev.pending ∧ h ≤ w.ev.counter) →
    (cancelList w hs).ev.pending =
        wakeEvs w.ev.counter w.now (cancelWakes w hs) ++ w.ev.pending.filter (fun e => decide (e.key ∉ hs)) ∧
      (cancelList w hs).evWaiters = w.evWaiters.filter (fun x => decide (x.1 ∉ hs)) ∧
      (cancelList w hs).ev.counter = w.ev.counter + (cancelWakes w hs).length ∧
      (cancelList w hs).ev.now = w.ev.now ∧ (cancelList w hs).procs = w.procs := by
  intro hs
  induction hs with
  | nil =>
    intro w _ _
    have e1 : ∀ {α : Type} (l : List α), l.filter (fun _ => true) = l := fun l => List.filter_eq_self.2 (fun _ _ => rfl)
    simp [cancelList, cancelWakes, wakeEvs, e1]
  | cons h hs ih =>
    intro w hnd hk
    have hnd' := List.nodup_cons.1 hnd
    have hh := hk h List.mem_cons_self
    let X := evWakes w ((w.evWaiters.lookup h).getD []) sigCancelled
    have h1 : (evCancel w h).1 = pushAll (cancelEv w h) X := by
      rw [evCancel_eq]; simp only [hh.1, if_true]; rfl
    have hstep : cancelList w (h :: hs) = cancelList (pushAll (cancelEv w h) X) hs := by
      simp only [cancelList, List.foldl_cons, h1]
    -- the intermediate world
    have hpre : ∀ h' ∈ hs, h' ∈ keys (pushAll (cancelEv w h) X).ev.pending ∧ h' ≤ (pushAll (cancelEv w h) X).ev.counter := by
      intro h' hh'
      have := hk h' (List.mem_cons_of_mem _ hh')
      refine ⟨?_, by simp only [pushAll_counter, cancelEv_counter]; omega⟩
      obtain ⟨e, he, hek⟩ := Event.mem_keys.1 this.1
      refine Event.mem_keys.2 ⟨e, ?_, hek⟩
      simp only [pushAll_pending, cancelEv_pending, List.mem_append]
      right
      exact mem_remove.2 ⟨he, fun hc => hnd'.1 (by rw [← hc, hek]; exact hh')⟩
    obtain ⟨ip, iw, ic, inow, ipr⟩ := ih (pushAll (cancelEv w h) X) hnd'.2 hpre
    have hwk : cancelWakes (pushAll (cancelEv w h) X) hs = cancelWakes w hs := by
      unfold cancelWakes
      apply flatMap_congr'
      intro h' hh'
      have hne : h' ≠ h := fun hc => hnd'.1 (hc ▸ hh')
      simp only [pushAll_evWaiters, cancelEv_evWaiters, evWakes, pushAll_proc, cancelEv_proc]
      rw [S3.lookup_filter_ne _ _ _ hne]
    have hcw : cancelWakes w (h :: hs) = X ++ cancelWakes w hs := by
      simp only [cancelWakes, List.flatMap_cons]; rfl
    rw [hstep, hcw]
    refine ⟨?_, ?_, ?_, ?_, ?_⟩
    · rw [ip, hwk, wakeEvs_append]
      simp only [pushAll_pending, cancelEv_pending, pushAll_counter, cancelEv_counter, pushAll_now, cancelEv_now,
        List.filter_append, List.append_assoc]
      congr 1
      congr 1
      · -- the wake-ups of `h` carry fresh handles: none of them is in `hs`
        apply List.filter_eq_self.2
        intro e he
        have hlo := (wakeEvs_props he).1
        simp only [decide_eq_true_eq]
        intro hc
        have := (hk e.key (List.mem_cons_of_mem _ hc)).2
        omega
      · simp only [KPQ.remove, List.filter_filter]
        apply List.filter_congr
        intro e _
        simp only [List.mem_cons, not_or, ne_eq, Bool.decide_and, Bool.and_comm]
    · rw [iw]
      simp only [pushAll_evWaiters, cancelEv_evWaiters, List.filter_filter]
      apply List.filter_congr
      intro x _
      simp only [List.mem_cons, not_or, ne_eq, Bool.decide_and, Bool.and_comm]
    · rw [ic, hwk]
      simp only [pushAll_counter, cancelEv_counter, List.length_append]
      omega
    · rw [inow]; rfl
    · rw [ipr]; rfl

/-! ### the user events -/

theorem userPending_nodup {w : World} (hi : EvInv w.ev) : (userPending w).Nodup := by
  unfold userPending
  exact List.Nodup.sublist ((List.filter_sublist).map _) hi.part.keysNodup

theorem userPending_scheduled {w : World} (hi : EvInv w.ev) :
    ∀ h ∈ userPending w, h ∈ keys w.ev.pending ∧ h ≤ w.ev.counter := by
  intro h hh
  obtain ⟨e, he, _, rfl⟩ := mem_userPending.1 hh
  exact ⟨Event.mem_keys.2 ⟨e, he, rfl⟩, EvInv.key_le hi he⟩

/-- among the pending events, the handles of `userPending` are exactly the user events -/
theorem key_mem_userPending {w : World} (hi : EvInv w.ev) {e : HTag} (he : e ∈ w.ev.pending) :
    e.key ∈ userPending w ↔ e.item.a = aUser := by
  constructor
  · intro hk
    obtain ⟨e', he', ha', hkk⟩ := mem_userPending.1 hk
    have : e' = e := HashHeap.eq_of_key_eq hi.part.keysNodup he' he hkk
    subst this; exact ha'
  · intro ha; exact mem_userPending.2 ⟨e, he, ha, rfl⟩

/-- the state after `cancelUserAll` in closed form: the user events are gone, the (aEvent, CANCELLED) wake-ups of their
    waiters are pending under the next handles, the registrations with the cancelled events are gone -/
theorem cancelUserAll_closed (w : World) (hi : EvInv w.ev) :
    (cancelUserAll w).1.ev.pending =
        wakeEvs w.ev.counter w.now (cancelWakes w (userPending w)) ++
          w.ev.pending.filter (fun e => decide (e.item.a ≠ aUser)) ∧
      (cancelUserAll w).1.evWaiters = w.evWaiters.filter (fun x => decide (x.1 ∉ userPending w)) ∧
      (cancelUserAll w).1.ev.counter = w.ev.counter + (cancelWakes w (userPending w)).length ∧
      (cancelUserAll w).1.ev.now = w.ev.now ∧ (cancelUserAll w).1.procs = w.procs ∧
      (cancelUserAll w).2 = (w.ev.pending.filter fun e => decide (e.item.a = aUser)).length := by
  obtain ⟨h1, h2, h3, h4, h5⟩ := cancelList_closed (userPending w) w (userPending_nodup hi) (userPending_scheduled hi)
  rw [cancelUserAll_eq]
  refine ⟨?_, h2, h3, h4, h5, by simp [userPending]⟩
  rw [h1]
  congr 1
  apply List.filter_congr
  intro e he
  simp only [key_mem_userPending hi he]

/-- the wake-ups are new events: their handles lie beyond the old counter -/
theorem new_events (w : World) (hi : EvInv w.ev) :
    (cancelUserAll w).1.ev.pending.filter (fun e => decide (w.ev.counter < e.key)) =
      wakeEvs w.ev.counter w.now (cancelWakes w (userPending w)) := by
  rw [(cancelUserAll_closed w hi).1, List.filter_append]
  have h1 : (wakeEvs w.ev.counter w.now (cancelWakes w (userPending w))).filter (fun e => decide (w.ev.counter < e.key)) =
      wakeEvs w.ev.counter w.now (cancelWakes w (userPending w)) :=
    List.filter_eq_self.2 fun e he => by simpa using (wakeEvs_props he).1
  have h2 : (w.ev.pending.filter (fun e => decide (e.item.a ≠ aUser))).filter (fun e => decide (w.ev.counter < e.key)) = [] := by
    apply List.filter_eq_nil_iff.2
    intro e he
    have := EvInv.key_le hi (List.mem_filter.1 he).1
    simp only [decide_eq_true_eq]; omega
  rw [h1, h2, List.append_nil]

/-- the old events that are left are exactly the pending events that are not user events, in their old order -/
theorem old_events (w : World) (hi : EvInv w.ev) :
    (cancelUserAll w).1.ev.pending.filter (fun e => decide (e.key ≤ w.ev.counter)) =
      w.ev.pending.filter (fun e => decide (e.item.a ≠ aUser)) := by
  rw [(cancelUserAll_closed w hi).1, List.filter_append]
  have h1 : (wakeEvs w.ev.counter w.now (cancelWakes w (userPending w))).filter (fun e => decide (e.key ≤ w.ev.counter)) = [] := by
    apply List.filter_eq_nil_iff.2
    intro e he
    have := (wakeEvs_props he).1
    simp only [decide_eq_true_eq]; omega
  have h2 : (w.ev.pending.filter (fun e => decide (e.item.a ≠ aUser))).filter (fun e => decide (e.key ≤ w.ev.counter)) =
      w.ev.pending.filter (fun e => decide (e.item.a ≠ aUser)) :=
    List.filter_eq_self.2 fun e he => by simpa using EvInv.key_le hi (List.mem_filter.1 he).1
  rw [h1, h2, List.nil_append]

/-- the waiters of the cancelled events, in the order in which their wake-ups are scheduled -/
def cancelledWaiters (w : World) : List Pid :=
  (userPending w).flatMap fun h => (w.evWaiters.lookup h).getD []

theorem cancelWakes_eq (w : World) (hs : List Nat) :
    cancelWakes w hs =
      (hs.flatMap fun h => (w.evWaiters.lookup h).getD []).map fun q => ⟨aEvent, q + 1, sigCancelled, (w.proc q).prio⟩ := by
  unfold cancelWakes evWakes
  rw [List.map_flatMap]

/-- every new event is the wake-up of a registered waiter of a cancelled user event: (aEvent, CANCELLED), at the current
    time, with the waiter's priority -/
theorem new_event_is_wake (w : World) (hi : EvInv w.ev) {e : HTag} (he : e ∈ (cancelUserAll w).1.ev.pending)
    (hk : w.ev.counter < e.key) :
    ∃ h ∈ userPending w, ∃ q ∈ (w.evWaiters.lookup h).getD [],
      e = mkEv e.key aEvent (q + 1) sigCancelled w.now (w.proc q).prio := by
  have hm : e ∈ wakeEvs w.ev.counter w.now (cancelWakes w (userPending w)) := by
    rw [← new_events w hi]; exact List.mem_filter.2 ⟨he, by simpa using hk⟩
  obtain ⟨_, _, _, _, x, hx, heq⟩ := wakeEvs_props hm
  rw [cancelWakes_eq, List.mem_map] at hx
  obtain ⟨q, hq, rfl⟩ := hx
  obtain ⟨h, hh, hql⟩ := List.mem_flatMap.1 hq
  exact ⟨h, hh, q, hql, heq⟩

/-- the subjects of the new events, oldest first, are the waiters of the cancelled events in wake-up order -/
theorem new_events_subjects (w : World) (hi : EvInv w.ev) :
    (((cancelUserAll w).1.ev.pending.filter (fun e => decide (w.ev.counter < e.key))).map (·.item.b)).reverse =
      (cancelledWaiters w).map (· + 1) := by
  rw [new_events w hi, wakeEvs_subjs, List.reverse_reverse, cancelWakes_eq, List.map_map]
  rfl

theorem count_map_succ (l : List Nat) (q : Nat) : (l.map (· + 1)).count (q + 1) = l.count q := by
  induction l with
  | nil => rfl
  | cons a l ih =>
    simp only [List.map_cons, List.count_cons, ih]
    by_cases h : a = q <;> simp [h]

theorem count_eq_one_of_mem_nodup {l : List Nat} {q : Nat} (hn : l.Nodup) (hq : q ∈ l) : l.count q = 1 := by
  induction l with
  | nil => cases hq
  | cons a l ih =>
    have hn' := List.nodup_cons.1 hn
    rw [List.count_cons]
    rcases List.mem_cons.1 hq with rfl | hq'
    · rw [List.count_eq_zero_of_not_mem hn'.1]; simp
    · have : a ≠ q := fun h => hn'.1 (h ▸ hq')
      rw [ih hn'.2 hq']; simp [this]

theorem filter_and_length (c q : Nat) (l : List HTag) :
    (l.filter (fun e => decide (c < e.key) && decide (e.item.b = q + 1))).length =
      ((l.filter (fun e => decide (c < e.key))).map (·.item.b)).count (q + 1) := by
  induction l with
  | nil => rfl
  | cons e l ih =>
    by_cases h1 : c < e.key <;> by_cases h2 : e.item.b = q + 1 <;>
      simp [List.filter_cons, List.count_cons, h1, h2, ih]

/-- how many new events are addressed to `q`: as many as `q` is registered with cancelled events -/
theorem new_events_count (w : World) (hi : EvInv w.ev) (q : Pid) :
    ((cancelUserAll w).1.ev.pending.filter
        (fun e => decide (w.ev.counter < e.key) && decide (e.item.b = q + 1))).length = (cancelledWaiters w).count q := by
  rw [filter_and_length, ← List.count_reverse, new_events_subjects w hi]
  exact count_map_succ _ q

/-- a list of lists without repetitions in which nobody occurs twice -/
theorem count_flatMap_unique {L : Nat → List Pid} {q : Pid} (hnd : ∀ h, (L h).Nodup)
    (hu : ∀ h h', q ∈ L h → q ∈ L h' → h = h') :
    ∀ hs : List Nat, hs.Nodup → (hs.flatMap L).count q = if ∃ h ∈ hs, q ∈ L h then 1 else 0 := by
  intro hs
  induction hs with
  | nil => intro _; simp
  | cons h hs ih =>
    intro hn
    have hn' := List.nodup_cons.1 hn
    rw [List.flatMap_cons, List.count_append, ih hn'.2]
    by_cases hq : q ∈ L h
    · have h0 : ¬ ∃ h' ∈ hs, q ∈ L h' := by
        rintro ⟨h', hh', hq'⟩
        exact hn'.1 ((hu h h' hq hq') ▸ hh')
      have h1 : ∃ h' ∈ h :: hs, q ∈ L h' := ⟨h, List.mem_cons_self, hq⟩
      rw [if_neg h0, if_pos h1, count_eq_one_of_mem_nodup (hnd h) hq]
    · rw [List.count_eq_zero_of_not_mem hq, Nat.zero_add]
      by_cases h0 : ∃ h' ∈ hs, q ∈ L h'
      · obtain ⟨h', hh', hq'⟩ := h0
        rw [if_pos ⟨h', hh', hq'⟩, if_pos ⟨h', List.mem_cons_of_mem _ hh', hq'⟩]
      · have h1 : ¬ ∃ h' ∈ h :: hs, q ∈ L h' := by
          rintro ⟨h', hh', hq'⟩
          rcases List.mem_cons.1 hh' with rfl | hh'
          · exact hq hq'
          · exact h0 ⟨h', hh', hq'⟩
        rw [if_neg h0, if_neg h1]

/-- in a reachable state (`PInvB`) a process is registered with at most one event, once: it occurs exactly once among
    the waiters of the cancelled events if it waits for one of them, and not at all otherwise -/
theorem cancelledWaiters_count {w : World} (hp : PInvB w) (q : Pid) :
    (cancelledWaiters w).count q =
      if ∃ h ∈ userPending w, q ∈ (w.evWaiters.lookup h).getD [] then 1 else 0 := by
  unfold cancelledWaiters
  refine count_flatMap_unique (L := fun h => (w.evWaiters.lookup h).getD []) ?_ ?_ _ (userPending_nodup hp.ei)
  · intro h
    cases hl : w.evWaiters.lookup h with
    | none => simp
    | some l => exact hp.en.2 h l (lookup_mem hl)
  · intro h h' hq hq'
    have key : ∀ k, q ∈ (w.evWaiters.lookup k).getD [] → (w.proc q).blocked = some (.waitEvent k) := by
      intro k hk
      cases hl : w.evWaiters.lookup k with
      | none => rw [hl] at hk; simp at hk
      | some l => rw [hl] at hk; exact (hp.eventWaiters k l (lookup_mem hl) q hk).2.1
    have := (key h hq).symm.trans (key h' hq')
    simpa using this

/-- two waiters (priorities 1 and 2) on two user events, a third process cancels by pattern -/
def patternWorld : World :=
  pushEv (pushEv
    { procs := #[{ prio := 1, status := .running, awaits := [.event 1], blocked := some (.waitEvent 1) },
                 { prio := 2, status := .running, awaits := [.event 2], blocked := some (.waitEvent 2) },
                 { prio := 0, status := .running }],
      evWaiters := [(1, [0]), (2, [1])] } aUser 0 0 5 0) aUser 0 0 7 3

end CimbaModel.Sim.S5
