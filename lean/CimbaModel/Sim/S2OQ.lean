/-
  S2 — object queues (C12, FIFO part): `putLog = gotLog ++ items` and `items.length ≤ cap` in every reachable state.
-/
import CimbaModel.Sim.S2Buf

namespace CimbaModel.Sim
open CimbaModel CimbaModel.Event CimbaModel.Generated
open CimbaModel.HashHeap (HTag Item Order HH)

structure OQOK (x : OQ) : Prop where
  /-- FIFO and exactly-once in one equation: what was delivered, followed by what is queued, is what was put, in put order -/
  fifo : x.putLog = x.gotLog ++ x.items
  inCap : x.items.length ≤ x.cap

def OQInv (w : World) : Prop := ArrAll OQOK w.oqs

theorem OQInv.of_eq {w w' : World} (h : w'.oqs = w.oqs) (hi : OQInv w) : OQInv w' := by
  unfold OQInv; rw [h]; exact hi

@[simp] theorem arrAll_recordOQ (w : World) (b : Nat) : ArrAll OQOK (recordOQ w b).oqs ↔ ArrAll OQOK w.oqs := by
  unfold recordOQ
  split
  · split
    · rename_i x hx _
      constructor
      · intro h i y hy
        by_cases hi : b = i
        · subst hi
          have := h b _ (by
            rw [Array.set!_eq_setIfInBounds, Array.getElem?_setIfInBounds, if_pos rfl, if_pos]
            exact (Array.getElem?_eq_some_iff.1 hx).1)
          rw [hx] at hy; cases hy
          exact ⟨this.fifo, this.inCap⟩
        · exact h i y (by rw [Array.set!_eq_setIfInBounds, Array.getElem?_setIfInBounds, if_neg hi]; exact hy)
      · intro h
        rw [Array.set!_eq_setIfInBounds]
        exact ArrAll.set h b ⟨(h.get hx).fifo, (h.get hx).inCap⟩
    · exact Iff.rfl
  · exact Iff.rfl

theorem OQInv.recordOQ {w : World} (b : Nat) (h : OQInv w) : OQInv (recordOQ w b) :=
  (arrAll_recordOQ w b).2 h

theorem OQInv.oqGetLoop {w : World} (p : Pid) (q : Nat) (h : OQInv w) : OQInv (oqGetLoop w p q).1 := by
  unfold OQInv at *
  unfold Sim.oqGetLoop
  split
  · simpa using h
  · rename_i x hx
    have ok := h.get hx
    have c := ok.fifo
    have l := ok.inCap
    split
    · rename_i o rest hit
      simp
      refine ArrAll.set h q ⟨?_, ?_⟩
      · simp [c, hit]
      · simp [hit] at l ⊢; omega
    · simpa using h

theorem OQInv.oqPutLoop {w : World} (p : Pid) (q obj : Nat) (h : OQInv w) : OQInv (oqPutLoop w p q obj).1 := by
  unfold OQInv at *
  unfold Sim.oqPutLoop
  split
  · simpa using h
  · rename_i x hx
    have ok := h.get hx
    have c := ok.fifo
    have l := ok.inCap
    split
    · simp
      refine ArrAll.set h q ⟨?_, ?_⟩
      · simp [c]
      · simp; omega
    · simpa using h

theorem OQInv.setRecording {w : World} (kind idx : Nat) (on : Bool) (h : OQInv w) : OQInv (setRecording w kind idx on) := by
  by_cases hk : kind = 3
  · subst hk
    unfold Sim.setRecording
    dsimp only
    have hm : ∀ w : World, OQInv w → OQInv { w with oqs := w.oqs.modify idx fun x => { x with recording := on } } :=
      fun w hw => ArrAll.modify hw idx (fun x _ hx => ⟨hx.fifo, hx.inCap⟩)
    split
    · exact OQInv.recordOQ idx (hm w h)
    · exact hm _ (OQInv.recordOQ idx h)
  · refine OQInv.of_eq ((setRecording_fp w kind idx on).2.2.2.1 ?_) h
    unfold recMask
    split <;> simp_all

theorem OQInv.preserved : Preserved OQInv where
  same hs h := OQInv.of_eq hs.2.2.2.1 h
  tick _ h := h
  finish w p v st h := OQInv.of_eq (by simp) h
  clear w p f _ _ _ h := OQInv.of_eq (by simp) h
  exec w p c _ h := by
    by_cases hm : (cmdMask c).oqs = false
    · exact OQInv.of_eq ((execCmd_fp w p c).2.2.2.1 hm) h
    · cases c <;> simp [cmdMask] at hm
      case oqGet q => simp only [execCmd]; split; exact h; exact OQInv.oqGetLoop _ _ h
      case oqPut q obj => simp only [execCmd]; split; exact h; exact OQInv.oqPutLoop _ _ _ h
      case recStart kind idx => exact OQInv.setRecording _ _ _ h
      case recStop kind idx => exact OQInv.setRecording _ _ _ h
  resume w p f sig _ _ h := by
    by_cases hm : (frameMask f).oqs = false
    · exact OQInv.of_eq ((resumeFrame_fp w p f sig).2.2.2.1 hm) h
    · cases f <;> simp [frameMask] at hm
      case oqGet q =>
        simp only [resumeFrame]
        split
        · exact h
        · split
          · exact OQInv.oqGetLoop _ _ (OQInv.of_eq (by simp) h)
          · exact OQInv.of_eq (by simp) h
      case oqPut q obj =>
        simp only [resumeFrame]
        split
        · exact h
        · split
          · exact OQInv.oqPutLoop _ _ _ (OQInv.of_eq (by simp) h)
          · exact OQInv.of_eq (by simp) h

end CimbaModel.Sim
