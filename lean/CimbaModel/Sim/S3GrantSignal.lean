/-
  S3 — the grant invariant, part 2: what a signal does to it.
  A complete signal of `g` never hurts (`GI` is monotone under signals) and repairs a deficit of one at `g`'s object end.
-/
import CimbaModel.Sim.S3GrantBase
import CimbaModel.Sim.S3Grant
import CimbaModel.Sim.S3GInvLeave

namespace CimbaModel.Sim.S3
open CimbaModel CimbaModel.Sim CimbaModel.Event CimbaModel.Generated CimbaModel.KPQ
open CimbaModel.HashHeap (HTag Item Order HH WF abs liveTags)

/-- what the signal lemmas need to know about the waiting lists -/
structure QI (ex : Pid → Prop) (w : World) : Prop where
  ei : EvInv w.ev
  gwf : AllGWF w
  gk : ∀ g k, queued w g k → k ≠ 0 ∧ (¬ ex (k - 1) → Await.guard g ∈ (w.proc (k - 1)).awaits)
  hg : HG w

theorem GInv.toQI {ex : Pid → Prop} {fr : Pid → Option Frame} {w : World} (h : GInv ex fr w) (hg : HG w) : QI ex w :=
  ⟨h.ei, h.gw, fun g k hq => ⟨(h.gk g k hq).1, (h.gk g k hq).2.2⟩, hg⟩

theorem gOf_congr {w w' : World} (hr : w'.res = w.res) (hpl : w'.pools = w.pools) (hb : w'.bufs = w.bufs)
    (ho : w'.oqs = w.oqs) (hq : w'.pqs = w.pqs) (d : Demand) : gOf w' d = gOf w d := by
  cases d <;> simp only [gOf, hr, hpl, hb, ho, hq]

theorem need_congr {w w' : World} (hr : w'.res = w.res) (hpl : w'.pools = w.pools) (hb : w'.bufs = w.bufs)
    (ho : w'.oqs = w.oqs) (hq : w'.pqs = w.pqs) (d : Demand) : need w' d = need w d := by
  cases d <;> simp only [need, hr, hpl, hb, ho, hq]

theorem grantOf_congr {w w' : World} (hp : ∀ x, (w'.proc x).awaits = (w.proc x).awaits) (g : Nat) (e : HTag) :
    grantOf w' g e ↔ grantOf w g e := by
  unfold grantOf; rw [hp]

theorem sigRel_queued {w w' : World} (hrel : SigRel w w') {g k : Nat} (hq : queued w' g k) : queued w g k := by
  obtain ⟨gd', hg', hk⟩ := hq
  have hsz : g < w.guards.size := by
    rw [← hrel.gsize]; exact guards_lt_of_some hg'
  obtain ⟨gd'', hg'', _, _, _, _, hsub⟩ := hrel.guards g _ (Array.getElem?_eq_getElem hsz)
  rw [hg'] at hg''; cases hg''
  exact ⟨_, Array.getElem?_eq_getElem hsz, keys_subset_of_subset hsub hk⟩

theorem QI.ofSigRel {ex : Pid → Prop} {w w' : World} (hq : QI ex w) (hrel : SigRel w w') : QI ex w' := by
  refine ⟨hrel.evinv hq.ei, hrel.wf, ?_, ?_⟩
  · intro g k hk
    have := hq.gk g k (sigRel_queued hrel hk)
    rw [hrel.proc]; exact this
  · intro d g hd gd' hg' k hk
    rw [gOf_congr hrel.res hrel.pools hrel.bufs hrel.oqs hrel.pqs] at hd
    have hsz : g < w.guards.size := by rw [← hrel.gsize]; exact guards_lt_of_some hg'
    obtain ⟨gd'', hg'', _, hdem, _, _, hsub⟩ := hrel.guards g _ (Array.getElem?_eq_getElem hsz)
    rw [hg'] at hg''; cases hg''
    have := hq.hg d g hd _ (Array.getElem?_eq_getElem hsz) k (keys_subset_of_subset hsub hk)
    unfold demandOf at this ⊢
    rw [hdem]; exact this

/-- under a signal nothing is lost: queues shrink, grants are only added -/
theorem sigRel_G_le {w w' : World} (hi : EvInv w.ev) (hrel : SigRel w w') (g : Nat) : G w g ≤ G w' g := by
  refine G_le_of_keep hi g ?_
  intro e he hg
  obtain ⟨new, hp, _, _⟩ := hrel.pending
  refine ⟨e, by rw [hp]; exact List.mem_append_right _ he, rfl, ?_⟩
  exact (grantOf_congr (fun x => by rw [hrel.proc]) g e).2 hg

/-- `GI` under a complete signal of `g`: the deficit at `g`'s object end shrinks by one, nothing else changes -/
theorem GI.guardSignal {ex : Pid → Prop} {w : World} {df df' : Demand → Nat} (hq : QI ex w) (hgi : GI df w) (fuel : Nat) (g : Nat)
    (hex : ∀ k, queued w g k → ¬ ex (k - 1))
    (h1 : ∀ d, gOf w d = some g → df d ≤ df' d + 1) (h2 : ∀ d, gOf w d ≠ some g → df d ≤ df' d) :
    GI df' (guardSignal (fuel + 1) w g) := by
  have hrel := guardSignal_rel (fuel + 1) w g hq.gwf
  intro d g' hd hqne
  rw [gOf_congr hrel.res hrel.pools hrel.bufs hrel.oqs hrel.pqs] at hd
  rw [need_congr hrel.res hrel.pools hrel.bufs hrel.oqs hrel.pqs]
  obtain ⟨k', hk'⟩ := hqne
  have hqw : Qne w g' := ⟨k', sigRel_queued hrel hk'⟩
  have hold := hgi d g' hd hqw
  have hmono := sigRel_G_le hq.ei hrel g'
  by_cases hgg : g' = g
  · subst hgg
    have hdf := h1 d hd
    obtain ⟨gd, hg, hkq⟩ := sigRel_queued hrel hk'
    have hwf := hq.gwf g' gd hg
    have hpos : 0 < gd.q.count := by
      rw [← HashHeap.abs_length gd.q]
      obtain ⟨e, he, _⟩ := Event.mem_keys.1 hkq
      exact List.length_pos_of_mem he
    have hfront : (gd.q.tag 1).key ∈ keys (abs gd.q) :=
      Event.mem_keys.2 ⟨_, ((frontStep_spec w g' gd hwf).2 hpos).1.1, rfl⟩
    have hdem := hq.hg d g' hd gd hg _ hfront
    cases hev : evalDemand w d with
    | false =>
      have : need w d = 0 := by
        have h3 := evalDemand_need w d (gOf_not_cond hd)
        rw [hev] at h3
        rcases Nat.eq_zero_or_pos (need w d) with h | h
        · exact h
        · exact absurd (h3.2 h) (by decide)
      omega
    | true =>
      rw [← hdem] at hev
      obtain ⟨_, hmem, _, _⟩ := guardSignal_grants (fuel := fuel) hg hq.gwf hpos hev
      have hfq : queued w g' (gd.q.tag 1).key := ⟨gd, hg, hfront⟩
      obtain ⟨hk0, haw⟩ := hq.gk g' _ hfq
      have hnew : G w g' + 1 ≤ G (Sim.guardSignal (fuel + 1) w g') g' := by
        refine G_succ_le_of_new hq.ei g' hmem ?_ ?_ ?_
        · refine ⟨⟨rfl, by simp [mkEv, encSig, sigSuccess]⟩, ?_⟩
          rw [hrel.proc]; exact haw (hex _ hfq)
        · intro e he hk
          have := S3.EvInv.key_le hq.ei he
          rw [hk] at this
          simp only [mkEv] at this
          omega
        · intro e he hgr
          obtain ⟨new, hp, _, _⟩ := hrel.pending
          exact ⟨e, by rw [hp]; exact List.mem_append_right _ he, rfl,
            (grantOf_congr (fun x => by rw [hrel.proc]) g' e).2 hgr⟩
      omega
  · have := h2 d (fun h => hgg (Option.some.inj (hd.symm.trans h)))
    omega

theorem GI.signal {ex : Pid → Prop} {w : World} {df df' : Demand → Nat} (hq : QI ex w) (hgi : GI df w) (g : Nat)
    (hex : ∀ k, queued w g k → ¬ ex (k - 1))
    (h1 : ∀ d, gOf w d = some g → df d ≤ df' d + 1) (h2 : ∀ d, gOf w d ≠ some g → df d ≤ df' d) :
    GI df' (signal w g) := GI.guardSignal hq hgi 7 g hex h1 h2

theorem QI.signal {ex : Pid → Prop} {w : World} (hq : QI ex w) (g : Nat) : QI ex (signal w g) :=
  hq.ofSigRel (signal_rel w g hq.gwf)

end CimbaModel.Sim.S3
