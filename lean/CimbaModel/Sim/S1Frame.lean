/-
  S1 — frame lemmas: what each primitive of the process-layer model leaves literally unchanged.
  One block per primitive, bottom-up; all are simp lemmas so that compositions reduce by `simp`.
-/
import CimbaModel.Sim.S1Base

namespace CimbaModel.Sim
open CimbaModel CimbaModel.Event CimbaModel.Generated
open CimbaModel.HashHeap (HTag Item Order HH)

/-! ### level 0: record updates -/

section
variable (w : World) (m : String)
world_frame fail : (w.fail m) ~ w keeps ev evWaiters procs guards res pools bufs oqs pqs conds flags gvars now
  by (unfold World.fail; split <;> rfl)
world_frame emit : (w.emit m) ~ w keeps ev evWaiters procs guards res pools bufs oqs pqs conds flags gvars now
  by rfl
end

section
variable (w : World) (p : Pid) (f : Proc → Proc)
world_frame modProc : (w.modProc p f) ~ w keeps ev evWaiters guards res pools bufs oqs pqs conds flags gvars now
  by rfl
end

section
variable (w : World) (g : Nat) (q' : HH)
world_frame setGuardQ : (setGuardQ w g q') ~ w keeps ev evWaiters procs res pools bufs oqs pqs conds flags gvars now
  by rfl
end

section
variable (w : World) (pl v : Nat)
world_frame setPoolInUse : (setPoolInUse w pl v) ~ w keeps ev evWaiters procs guards res bufs oqs pqs conds flags gvars now
  by rfl
end

/-! ### the event queue -/

theorem schedule_now {q q' : EvQ} {a s o : Nat} {t p : Int} {h : Nat} (hs : schedule q a s o t p = .ok (q', h)) :
    q'.now = q.now := by
  unfold schedule at hs
  split at hs
  · cases hs
  · cases hs; rfl

section
variable (w : World) (act subj : Nat) (sig t pri : Int)
world_frame sched : (sched w act subj sig t pri).1 ~ w keeps evWaiters procs guards res pools bufs oqs pqs conds flags gvars
  by (unfold sched; frame_close)
@[simp] theorem sched_now : (sched w act subj sig t pri).1.ev.now = w.ev.now := by
  unfold sched; split
  · rename_i h; simp [schedule_now h]
  · simp
end

section
variable (w : World) (ps : List Pid) (sig : Int)
world_frame wakeEventWaiters : (wakeEventWaiters w ps sig) ~ w keeps evWaiters procs guards res pools bufs oqs pqs conds flags gvars now
  by (unfold wakeEventWaiters; zeta; fold_world; frame_close)
end

theorem cancel_now (q : EvQ) (h : Nat) : (cancel q h).1.now = q.now := by
  unfold cancel; split <;> rfl

section
variable (w : World) (h : Nat)
world_frame evCancel : (evCancel w h).1 ~ w keeps procs guards res pools bufs oqs pqs conds flags gvars
  by (unfold evCancel; zeta; frame_close)
@[simp] theorem evCancel_now : (evCancel w h).1.ev.now = w.ev.now := by
  unfold evCancel; zeta; split
  · simp [cancel_now]
  · simp
end

section
variable (w : World) (p : Pid)
world_frame cancelAllFor : (cancelAllFor w p) ~ w keeps procs guards res pools bufs oqs pqs conds flags gvars now
  by (unfold cancelAllFor; zeta; fold_world; frame_close)
end

section
variable (w : World) (p : Pid) (act : Nat) (sig : Option Int)
world_frame cancelKindFor : (cancelKindFor w p act sig).1 ~ w keeps procs guards res pools bufs oqs pqs conds flags gvars now
  by (unfold cancelKindFor; zeta; fold_world; frame_close)
end

section
variable (w : World)
world_frame cancelUserAll : (cancelUserAll w).1 ~ w keeps procs guards res pools bufs oqs pqs conds flags gvars now
  by (unfold cancelUserAll; zeta; fold_world; frame_close)
end

/-! ### recording -/

section
variable (w : World) (r : Nat)
world_frame recordRes : (recordRes w r) ~ w keeps ev evWaiters procs guards pools bufs oqs pqs conds flags gvars now
  by (unfold recordRes; splits_rfl)
world_frame recordPool : (recordPool w r) ~ w keeps ev evWaiters procs guards res bufs oqs pqs conds flags gvars now
  by (unfold recordPool; splits_rfl)
world_frame recordBuf : (recordBuf w r) ~ w keeps ev evWaiters procs guards res pools oqs pqs conds flags gvars now
  by (unfold recordBuf; splits_rfl)
world_frame recordOQ : (recordOQ w r) ~ w keeps ev evWaiters procs guards res pools bufs pqs conds flags gvars now
  by (unfold recordOQ; splits_rfl)
world_frame recordPQ : (recordPQ w r) ~ w keeps ev evWaiters procs guards res pools bufs oqs conds flags gvars now
  by (unfold recordPQ; splits_rfl)
end

/-! ### guards -/

section
variable (w : World) (g : Nat) (p : Pid)
world_frame guardRemove : (guardRemove w g p).1 ~ w keeps ev evWaiters procs res pools bufs oqs pqs conds flags gvars now
  by (unfold guardRemove; splits_simp)
end

section
variable (w : World) (g : Nat)
world_frame condSignal : (condSignal w g).1 ~ w keeps evWaiters procs res pools bufs oqs pqs conds flags gvars now
  by (unfold condSignal; zeta; frame_close)
end

section
variable (fwd : Bool) (fuel : Nat) (w : World) (g : Nat)

theorem guardSignalF_keeps {β : Type _} (k : World → β)
    (hfail : ∀ w m, k (World.fail w m) = k w)
    (hq : ∀ w g q, k (setGuardQ w g q) = k w)
    (hs : ∀ w a s sig t pri, k (sched w a s sig t pri).1 = k w)
    (hc : ∀ w g, k (condSignal w g).1 = k w) :
    ∀ fuel fwd w g, k (guardSignalF fwd fuel w g) = k w := by
  intro fuel
  induction fuel with
  | zero => intro fwd w g; simp [guardSignalF, hfail]
  | succ n ih =>
    intro fwd w g
    unfold guardSignalF
    split
    · rfl
    · rw [foldl_keeps k _ (fun w a => ih true w a)]
      simp only []
      repeat' split
      all_goals simp [hfail, hq, hs, hc]

theorem guardSignal_keeps {β : Type _} (k : World → β)
    (hfail : ∀ w m, k (World.fail w m) = k w)
    (hq : ∀ w g q, k (setGuardQ w g q) = k w)
    (hs : ∀ w a s sig t pri, k (sched w a s sig t pri).1 = k w)
    (hc : ∀ w g, k (condSignal w g).1 = k w) :
    ∀ fuel w g, k (guardSignal fuel w g) = k w :=
  fun fuel w g => guardSignalF_keeps k hfail hq hs hc fuel false w g

world_frame guardSignalF : (guardSignalF fwd fuel w g) ~ w keeps evWaiters procs res pools bufs oqs pqs conds flags gvars now
  by (first | apply guardSignalF_keeps | apply guardSignalF_keeps (fun w => w.ev.now)) <;> (intros; frame_close)
world_frame guardSignal : (guardSignal fuel w g) ~ w keeps evWaiters procs res pools bufs oqs pqs conds flags gvars now
  by (first | apply guardSignal_keeps | apply guardSignal_keeps (fun w => w.ev.now)) <;> (intros; frame_close)
world_frame signal : (signal w g) ~ w keeps evWaiters procs res pools bufs oqs pqs conds flags gvars now
  by (unfold signal; frame_close)
end

section
variable (w : World) (g : Nat) (p : Pid)
world_frame guardWithdraw : (guardWithdraw w g p) ~ w keeps procs res pools bufs oqs pqs conds flags gvars now
  by (unfold guardWithdraw; zeta; splits_simp)
end

/-! ### process bookkeeping -/

section
variable (w : World) (p : Pid) (a : Await)
world_frame addAwait : (addAwait w p a) ~ w keeps ev evWaiters guards res pools bufs oqs pqs conds flags gvars now np
  by (unfold addAwait; simp)
proc_frame addAwait : (addAwait w p a) ~ w keeps prio status waiters held blocked pc script vars exitVal
  by (unfold addAwait; apply modProc_field; intro; rfl)
world_frame removeAwait : (removeAwait w p a).1 ~ w keeps ev evWaiters guards res pools bufs oqs pqs conds flags gvars now np
  by (unfold removeAwait; simp)
proc_frame removeAwait : (removeAwait w p a).1 ~ w keeps prio status waiters held blocked pc script vars exitVal
  by (unfold removeAwait; apply modProc_field; intro; rfl)
end

section
variable (w : World) (p : Pid) (isKind : Await → Bool)
world_frame removeAwaitKind : (removeAwaitKind w p isKind).1 ~ w keeps ev evWaiters guards res pools bufs oqs pqs conds flags gvars now np
  by (unfold removeAwaitKind; simp)
proc_frame removeAwaitKind : (removeAwaitKind w p isKind).1 ~ w keeps prio status waiters held blocked pc script vars exitVal
  by (unfold removeAwaitKind; apply modProc_field; intro; rfl)
end

section
variable (w : World) (p : Pid) (h : HoldRef)
world_frame removeHeld : (removeHeld w p h).1 ~ w keeps ev evWaiters guards res pools bufs oqs pqs conds flags gvars now np
  by (unfold removeHeld; simp)
proc_frame removeHeld : (removeHeld w p h).1 ~ w keeps prio status awaits waiters blocked pc script vars exitVal
  by (unfold removeHeld; apply modProc_field; intro; rfl)
end

section
variable (w : World) (p : Pid) (f : Frame)
world_frame block : (block w p f).1 ~ w keeps ev evWaiters guards res pools bufs oqs pqs conds flags gvars now np
  by (unfold block; simp)
proc_frame block : (block w p f).1 ~ w keeps prio status awaits waiters held pc script vars exitVal
  by (unfold block; apply modProc_field; intro; rfl)
end

section
variable (w : World) (p : Pid) (v h : Nat)
world_frame setVar : (setVar w p v h) ~ w keeps ev evWaiters guards res pools bufs oqs pqs conds flags now np
  by (unfold setVar; split <;> first | rfl | simp)
proc_frame setVar : (setVar w p v h) ~ w keeps prio status awaits waiters held blocked pc script exitVal
  by (unfold setVar; split <;> first | rfl | (apply modProc_field; intro; rfl))
end

/-! ### timers -/

section
variable (w : World) (p : Pid) (d sig : Int)
theorem timerAdd_fst : (timerAdd w p d sig).1 =
    addAwait (sched w aTime (p + 1) sig (w.now + d) (w.proc p).prio).1 p
      (.time (sched w aTime (p + 1) sig (w.now + d) (w.proc p).prio).2) := rfl
theorem timerAdd_snd : (timerAdd w p d sig).2 = (sched w aTime (p + 1) sig (w.now + d) (w.proc p).prio).2 := rfl
world_frame timerAdd : (timerAdd w p d sig).1 ~ w keeps evWaiters guards res pools bufs oqs pqs conds flags gvars now np
  by (rw [timerAdd_fst]; simp)
proc_frame timerAdd : (timerAdd w p d sig).1 ~ w keeps prio status waiters held blocked pc script vars exitVal
  by (rw [timerAdd_fst]; simp)
end

section
variable (w : World) (p : Pid) (h : Nat)
theorem timerCancel_fst : (timerCancel w p h).1 = (evCancel (removeAwait w p (.time h)).1 h).1 := rfl
world_frame timerCancel : (timerCancel w p h).1 ~ w keeps guards res pools bufs oqs pqs conds flags gvars now np
  by (rw [timerCancel_fst]; simp)
proc_frame timerCancel : (timerCancel w p h).1 ~ w keeps prio status waiters held blocked pc script vars exitVal
  by (rw [timerCancel_fst]; simp)
end

section
variable (w : World) (p : Pid)
world_frame timersClear : (timersClear w p) ~ w keeps guards res pools bufs oqs pqs conds flags gvars now np
  by (unfold timersClear; zeta; fold_world; frame_close)
proc_frame timersClear : (timersClear w p) ~ w keeps prio status waiters held blocked pc script vars exitVal
  by (unfold timersClear; zeta; fold_proc; apply modProc_field; intro; rfl)
end

/-! ### ending a process -/

section
variable (w : World) (p : Pid)
world_frame cancelAwaiteds : (cancelAwaiteds w p) ~ w keeps res pools bufs oqs pqs conds flags gvars now np
  by (unfold cancelAwaiteds; zeta; simp only [cancelAllFor_res, cancelAllFor_pools, cancelAllFor_bufs,
      cancelAllFor_oqs, cancelAllFor_pqs, cancelAllFor_conds, cancelAllFor_flags, cancelAllFor_gvars, cancelAllFor_now,
      cancelAllFor_np]; fold_world; frame_close)
proc_frame cancelAwaiteds : (cancelAwaiteds w p) ~ w keeps prio status held blocked pc script vars exitVal
  by (unfold cancelAwaiteds; zeta; simp only [cancelAllFor_proc]; fold_proc; apply modProc_field; intro; rfl)
end

section
variable (w : World) (p : Pid) (sig : Int)
world_frame wakeWaiters : (wakeWaiters w p sig) ~ w keeps evWaiters guards res pools bufs oqs pqs conds flags gvars now np
  by (unfold wakeWaiters; zeta; fold_world; frame_close)
proc_frame wakeWaiters : (wakeWaiters w p sig) ~ w keeps prio status awaits held blocked pc script vars exitVal
  by (unfold wakeWaiters; zeta; fold_proc; apply modProc_field; intro; rfl)
end

section
variable (w : World) (pl : Nat) (p : Pid)
world_frame poolDropHolder : (poolDropHolder w pl p) ~ w keeps evWaiters procs res bufs oqs pqs conds flags gvars now
  by (unfold poolDropHolder; splits_simp)
end

section
variable (w : World) (p : Pid)
world_frame dropResources : (dropResources w p) ~ w keeps evWaiters bufs oqs pqs conds flags gvars now np
  by (unfold dropResources; zeta; fold_world; frame_close)
proc_frame dropResources : (dropResources w p) ~ w keeps prio status awaits waiters blocked pc script vars exitVal
  by (unfold dropResources; zeta; fold_proc; apply modProc_field; intro; rfl)
end

section
variable (w : World) (p : Pid) (val : Int) (stopped : Bool)
world_frame finishProc : (finishProc w p val stopped) ~ w keeps bufs oqs pqs conds flags gvars now np
  by (unfold finishProc; zeta; frame_close)
proc_frame finishProc : (finishProc w p val stopped) ~ w keeps prio pc script vars
  by (unfold finishProc; zeta; frame_close)
end

/-! ### guard wait prologue / epilogue, resources, pools -/

section
variable (w : World) (g : Nat) (p : Pid) (d : Demand)
world_frame guardWaitEnter : (guardWaitEnter w g p d) ~ w keeps ev evWaiters res pools bufs oqs pqs conds flags gvars now np
  by (unfold guardWaitEnter; splits_simp)
proc_frame guardWaitEnter : (guardWaitEnter w g p d) ~ w keeps prio status waiters held blocked pc script vars exitVal
  by (unfold guardWaitEnter; splits_simp)
end

section
variable (w : World) (g : Nat) (p : Pid) (sig : Int)
world_frame guardWaitLeave : (guardWaitLeave w g p sig) ~ w keeps res pools bufs oqs pqs conds flags gvars now np
  by (unfold guardWaitLeave; zeta; frame_close)
proc_frame guardWaitLeave : (guardWaitLeave w g p sig) ~ w keeps prio status waiters held blocked pc script vars exitVal
  by (unfold guardWaitLeave; zeta; frame_close)
end

section
variable (w : World) (r : Nat) (p : Pid)
world_frame grab : (grab w r p) ~ w keeps ev evWaiters guards pools bufs oqs pqs conds flags gvars now np
  by (unfold grab; zeta; frame_close)
proc_frame grab : (grab w r p) ~ w keeps prio status awaits waiters blocked pc script vars exitVal
  by (unfold grab; zeta; frame_close)
end

end CimbaModel.Sim
