/-
  S2 — histories only grow (C14): resource pools.  The composite proofs are those of S2HistPool, for the relation
  "the pool histories of `w` extend those of the reference state `wb` by samples taken at `wb.now`".
-/
import CimbaModel.Sim.S2GrowQ

namespace CimbaModel.Sim
open CimbaModel CimbaModel.Event CimbaModel.Generated CimbaModel.KPQ
open CimbaModel.HashHeap (HTag Item Order HH)

def GPool (wb w : World) : Prop := w.now = wb.now ∧ GrowArr poolOps wb.now wb.pools w.pools

theorem GPool.of_eq {wb w w' : World} (h : w'.pools = w.pools) (hn : w'.now = w.now) (hi : GPool wb w) : GPool wb w' := by
  unfold GPool; rw [h, hn]; exact hi

theorem GPool.same {wb w w' : World} (hs : Same w w') (h : GPool wb w) : GPool wb w' :=
  GPool.of_eq hs.2.1 hs.2.2.2.2.2.1 h

theorem HoldersOnly.grow {a e e' : Array Pool} (ho : HoldersOnly e e') {n : Int} (h : GrowArr poolOps n a e) :
    GrowArr poolOps n a e' := by
  rcases ho with rfl | ⟨pl, x, h', hx, rfl⟩
  · exact h
  · exact GrowArr.set _ h hx rfl

theorem GPool.update {wb w : World} (pl : Nat) (p : Pid) (amt : Nat) (h : GPool wb w) : GPool wb (poolUpdateRecord w pl p amt) :=
  ⟨by rw [← h.1]; simp, (poolUpdateRecord_holdersOnly w pl p amt).grow h.2⟩

theorem GPool.setHeld {wb w : World} (pl : Nat) (p : Pid) (a : Nat) (h : GPool wb w) : GPool wb (setHeldAmount w pl p a) :=
  ⟨by rw [← h.1]; simp, (setHeldAmount_holdersOnly w pl p a).grow h.2⟩

theorem GPool.setInUse_record {wb w : World} (pl u : Nat) (h : GPool wb w) : GPool wb (recordPool (setPoolInUse w pl u) pl) := by
  refine ⟨by rw [← h.1]; simp, ?_⟩
  rw [recordPool_eq]
  rw [show (setPoolInUse w pl u).now = wb.now by rw [← h.1]; simp]
  unfold setPoolInUse
  have := h.2
  grow_close

theorem GPool.modifyHolders {wb w : World} (pl : Nat) (h' : HH) (h : GPool wb w) :
    GPool wb { w with pools := w.pools.modify pl fun y => { y with holders := h' } } :=
  ⟨h.1, (holdersOnly_modify w.pools pl h').grow h.2⟩

theorem GPool.setHolders {wb w : World} {pl : Nat} {x : Pool} (hx : w.pools[pl]? = some x) (h' : HH) (h : GPool wb w) :
    GPool wb { w with pools := w.pools.set! pl { x with holders := h' } } :=
  ⟨h.1, (holdersOnly_set hx h').grow h.2⟩

theorem GPool.poolMug {wb : World} : ∀ (fuel : Nat) (w : World) (p : Pid) (pl rem : Nat), GPool wb w →
    GPool wb (poolMug fuel w p pl rem).1 := by
  intro fuel
  induction fuel with
  | zero => intro w p pl rem h; exact h
  | succ n ih =>
    intro w p pl rem h
    unfold Sim.poolMug
    split
    · exact h
    · rename_i x hx
      split
      · exact h
      · split
        · split
          · split
            · rename_i h' t hdq
              dsimp only
              have h1 := h.setHolders hx h'
              generalize hw1 : ({ w with pools := w.pools.set! pl { x with holders := h' } } : World) = w1 at h1
              have h2 : GPool wb (sched (removeHeld w1 (t.key - 1) (.pool pl)).1 aIntr (t.key - 1 + 1) sigPreempted
                  (removeHeld w1 (t.key - 1) (.pool pl)).1.now
                  ((removeHeld w1 (t.key - 1) (.pool pl)).1.proc (t.key - 1)).prio).1 :=
                GPool.of_eq (by simp) (by simp) h1
              generalize (sched (removeHeld w1 (t.key - 1) (.pool pl)).1 aIntr (t.key - 1 + 1) sigPreempted
                  (removeHeld w1 (t.key - 1) (.pool pl)).1.now
                  ((removeHeld w1 (t.key - 1) (.pool pl)).1.proc (t.key - 1)).prio).1 = w3 at h2
              split
              · exact ih _ _ _ _ (h2.update pl p t.item.b)
              · have h4 := h2.update pl p rem
                generalize poolUpdateRecord w3 pl p rem = w4 at h4
                exact GPool.of_eq (by simp) (by simp) (h4.setInUse_record pl ((w4.pools.getD pl x).inUse - (t.item.b - rem)))
            · exact h
            · exact GPool.of_eq (by simp) (by simp) h
          · exact h
        · exact h

theorem GPool.poolDropHolder {wb : World} (w : World) (pl : Nat) (p : Pid) (h : GPool wb w) : GPool wb (poolDropHolder w pl p) := by
  unfold Sim.poolDropHolder
  split
  · exact h
  · rename_i x hx
    split
    · exact h
    · split
      · rename_i i _ h' found hr
        refine GPool.same (signal_same _ _) ?_
        refine ⟨by rw [← h.1]; simp, ?_⟩
        rw [recordPool_eq]
        rw [show (World.now { w with pools := w.pools.set! pl { x with inUse := x.inUse - (x.holders.heap.getD _ {}).item.b, holders := h' } }) = wb.now from h.1]
        have := h.2
        show GrowArr poolOps wb.now wb.pools (genRecord poolOps (w.pools.set! pl _) pl wb.now)
        rw [Array.set!_eq_setIfInBounds]
        grow_close
      · exact h.same (fail_same _ _)
    · exact h.same (fail_same _ _)

theorem GPool.setRecording {wb w : World} (kind idx : Nat) (on : Bool) (h : GPool wb w) : GPool wb (setRecording w kind idx on) := by
  by_cases hk : kind = 1
  · subst hk
    obtain ⟨hn, h⟩ := h
    refine ⟨by rw [← hn]; exact (setRecording_fp w 1 idx on).2.2.2.2.2.1, ?_⟩
    unfold Sim.setRecording
    dsimp only
    split
    · show GrowArr poolOps wb.now wb.pools (recordPool { w with pools := w.pools.modify idx fun x => { x with recording := on } } idx).pools
      rw [recordPool_eq]
      simp [hn]
      grow_close
    · show GrowArr poolOps wb.now wb.pools ((recordPool w idx).pools.modify idx fun x => { x with recording := on })
      rw [recordPool_eq]
      simp [hn]
      grow_close
  · have hf := setRecording_fp w kind idx on
    refine GPool.of_eq (hf.2.1 ?_) hf.2.2.2.2.2.1 h
    unfold recMask
    split <;> simp_all

theorem GPool.poolLoop {wb : World} (w : World) (p : Pid) (pl rem ini : Nat) (pre : Bool) (h : GPool wb w) :
    GPool wb (poolLoop w p pl rem ini pre).1 := by
  unfold Sim.poolLoop
  split
  · exact h.same (fail_same _ _)
  · rename_i x hx
    dsimp only
    split
    · exact ((h.setInUse_record pl _).update pl p rem).same (signal_same _ _)
    · have h1 : GPool wb (if x.cap - x.inUse > 0 then
          (poolUpdateRecord (recordPool (setPoolInUse w pl (x.inUse + (x.cap - x.inUse))) pl) pl p (x.cap - x.inUse),
            rem - (x.cap - x.inUse)) else (w, rem)).1 := by
        split
        · exact (h.setInUse_record pl _).update pl p _
        · exact h
      generalize (if x.cap - x.inUse > 0 then
          (poolUpdateRecord (recordPool (setPoolInUse w pl (x.inUse + (x.cap - x.inUse))) pl) pl p (x.cap - x.inUse),
            rem - (x.cap - x.inUse)) else (w, rem)) = r1 at h1 ⊢
      obtain ⟨w1, rem1⟩ := r1
      dsimp only at h1 ⊢
      have h2 : GPool wb (if pre = true then Sim.poolMug (x.holders.count + 1) w1 p pl rem1 else (w1, some rem1)).1 := by
        split
        · exact GPool.poolMug _ _ _ _ _ h1
        · exact h1
      generalize (if pre = true then Sim.poolMug (x.holders.count + 1) w1 p pl rem1 else (w1, some rem1)) = r2 at h2 ⊢
      obtain ⟨w2, rem2⟩ := r2
      dsimp only at h2 ⊢
      split
      · exact h2
      · exact GPool.of_eq (by simp) (by simp) (h2.same (guardWaitEnter_same w2 x.guard p (.poolAvail pl)))


theorem GPool.poolRollback {wb : World} (w : World) (p : Pid) (pl ini : Nat) (h : GPool wb w) : GPool wb (poolRollback w p pl ini) := by
  unfold Sim.poolRollback
  split
  · exact h
  · rename_i x hx
    split
    · dsimp only
      split
      · exact ((h.setHeld pl p ini).setInUse_record pl _).same (signal_same _ _)
      · exact h
    · dsimp only
      split
      · rename_i h' found hr
        refine GPool.same (signal_same _ _) ?_
        have hm := (h.setInUse_record pl (x.inUse - heldAmount w pl p)).modifyHolders pl h'
        split
        · exact GPool.of_eq (by simp) (by simp) hm
        · exact hm
      · exact (h.setInUse_record pl _).same (fail_same _ _)

theorem GPool.poolRelease {wb : World} (w : World) (p : Pid) (pl n : Nat) (h : GPool wb w) :
    GPool wb (execCmd w p (.poolRelease pl n)).1 := by
  simp only [execCmd]
  split
  · exact h
  · rename_i x hx
    split
    · exact h
    · have h1 : GPool wb (if heldAmount w pl p = n then
            match HashHeap.remove holder_queue_check x.holders (p + 1) with
            | .ok (h', _) => (removeHeld { w with pools := w.pools.set! pl { x with holders := h' } } p (.pool pl)).1
            | .error f => w.fail s!"pool release: {f}"
          else setHeldAmount w pl p (heldAmount w pl p - n)) := by
        split
        · split
          · rename_i h' _ _
            exact GPool.of_eq (by simp) (by simp) (h.setHolders hx h')
          · exact h.same (fail_same _ _)
        · exact h.setHeld pl p _
      exact (h1.setInUse_record pl _).same (signal_same _ _)


theorem GPool.dropResources {wb : World} {w : World} (p : Pid) (h : GPool wb w) : GPool wb (dropResources w p) := by
  unfold Sim.dropResources
  dsimp only
  have h0 : GPool wb (w.modProc p fun x => { x with held := [] }) := GPool.of_eq (by simp) (by simp) h
  generalize (w.modProc p fun x => { x with held := [] }) = w0 at h0
  generalize (w.proc p).held = hs
  induction hs generalizing w0 with
  | nil => exact h0
  | cons a rest ih =>
    rw [List.foldl_cons]
    apply ih
    cases a with
    | res r =>
      dsimp only
      split
      · exact GPool.of_eq (by simp) (by simp) h0
      · exact h0
    | pool pl => exact GPool.poolDropHolder _ _ _ h0

theorem GPool.finishProc {wb : World} {w : World} (p : Pid) (v : Int) (st : Bool) (h : GPool wb w) : GPool wb (finishProc w p v st) := by
  unfold Sim.finishProc
  dsimp only
  have h1 : GPool wb (if st = true then Sim.dropResources (cancelAwaiteds w p) p else cancelAwaiteds (Sim.dropResources w p) p) := by
    split
    · exact GPool.dropResources _ (h.same (cancelAwaiteds_same _ _))
    · exact (GPool.dropResources p h).same (cancelAwaiteds_same _ _)
  exact GPool.of_eq (by simp) (by simp) h1


theorem GPool.prioSet {wb : World} (w : World) (p q : Pid) (v : Int) (h : GPool wb w) : GPool wb (execCmd w p (.prioSet q v)).1 := by
  simp only [execCmd]
  split
  · exact h
  · dsimp only
    -- the first fold leaves pools and clock alone
    have h1 : GPool wb (List.foldl (fun w a =>
        match a with
        | .time h =>
          match reprioritize w.ev h v with
          | .ok ev' => { w with ev := ev' }
          | .error f => w.fail s!"priority_set: timer event not scheduled: {f}"
        | .guard g =>
          match w.guards[g]? with
          | some gd =>
            if guardEnqueued w g q then
              match HashHeap.lookup gd.q (q + 1) with
              | .ok t =>
                match HashHeap.reprioritize guard_queue_check gd.q (q + 1) t.d v with
                | .ok q' => setGuardQ w g q'
                | .error f => w.fail s!"priority_set guard: {f}"
              | .error f => w.fail s!"priority_set guard lookup: {f}"
            else w
          | none => w
        | _ => w) (w.modProc q fun y => { y with prio := v }) ((w.modProc q fun y => { y with prio := v }).proc q).awaits) := by
      refine foldl_preserves (P := GPool wb) _ ?_ _ _ (GPool.of_eq (by simp) (by simp) h)
      intro w0 a h0
      cases a with
      | time hh =>
        dsimp only
        cases hr : reprioritize w0.ev hh v with
        | error f => exact h0.same (fail_same _ _)
        | ok ev' =>
          have := timeOk_reprioritize hr
          show GPool wb { w0 with ev := ev' }
          exact GPool.of_eq (w := w0) rfl this.1 h0
      | guard g =>
        dsimp only
        refine GPool.of_eq ?_ ?_ h0 <;> (repeat' split) <;> simp
      | proc _ => exact h0
      | event _ => exact h0
    generalize (List.foldl _ (w.modProc q fun y => { y with prio := v }) _) = w2 at h1 ⊢
    refine foldl_preserves (P := GPool wb) _ ?_ _ _ h1
    intro w0 a h0
    cases a with
    | res r => exact h0
    | pool pl =>
      dsimp only
      split
      · rename_i x hx
        split
        · exact h0.setHolders hx _
        · exact h0.same (fail_same _ _)
      · exact h0


theorem GPool.core (wb : World) : PreservedCore (GPool wb) where
  same hs h := h.same hs
  finish w p v st h := GPool.finishProc _ _ _ h
  clear w p f _ _ _ h := GPool.of_eq (by simp) (by simp) h
  exec w p c _ h := by
    by_cases hm : (cmdMask c).pools = false
    · exact GPool.of_eq ((execCmd_fp w p c).2.1 hm) (execCmd_fp w p c).2.2.2.2.2.1 h
    · cases c <;> simp [cmdMask] at hm
      case stop q val =>
        simp only [execCmd]
        split
        · exact GPool.finishProc _ _ _ h
        · split
          · exact GPool.finishProc _ _ _ h
          · exact h
      case exit val => simp only [execCmd]; exact GPool.finishProc _ _ _ h
      case prioSet q v => exact GPool.prioSet _ _ _ _ h
      case poolAcquire pl n =>
        simp only [execCmd]
        split
        · exact h
        · split
          · exact h
          · exact GPool.poolLoop _ _ _ _ _ _ h
      case poolPreempt pl n =>
        simp only [execCmd]
        split
        · exact h
        · split
          · exact h
          · exact GPool.poolLoop _ _ _ _ _ _ h
      case poolRelease pl n => exact GPool.poolRelease _ _ _ _ h
      case recStart kind idx => exact GPool.setRecording _ _ _ h
      case recStop kind idx => exact GPool.setRecording _ _ _ h
  resume w p f sig _ _ h := by
    by_cases hm : (frameMask f).pools = false
    · exact GPool.of_eq ((resumeFrame_fp w p f sig).2.1 hm) (resumeFrame_fp w p f sig).2.2.2.2.2.1 h
    · cases f <;> simp [frameMask] at hm
      case pool pl rem ini pre =>
        simp only [resumeFrame]
        split
        · exact h
        · rename_i x hx
          have h1 : GPool wb (guardWaitLeave w x.guard p sig) := h.same (guardWaitLeave_same _ _ _ _)
          split
          · exact GPool.poolRollback _ _ _ _ h1
          · exact GPool.poolLoop _ _ _ _ _ _ h1

end CimbaModel.Sim
