/-
  S1 — the end of a process (C05 / C09): what `finishProc` leaves behind.
-/
import CimbaModel.Sim.S1Excl

namespace CimbaModel.Sim
open CimbaModel CimbaModel.Event CimbaModel.Generated
open CimbaModel.HashHeap (HTag Item Order HH)

/-! ### the pieces -/

theorem cancelAwaiteds_awaits (w : World) (p q : Pid) :
    ((cancelAwaiteds w p).proc q).awaits = if q = p then [] else (w.proc q).awaits := by
  unfold cancelAwaiteds
  dsimp only
  rw [cancelAllFor_proc]
  fold_proc
  rw [proc_modProc]
  by_cases hq : q = p
  · subst hq
    by_cases hp : q < w.procs.size
    · simp [hp]
    · simp [hp, proc_oob w q hp]
  · simp [hq]

theorem wakeWaiters_waiters (w : World) (p : Pid) (sig : Int) (q : Pid) :
    ((wakeWaiters w p sig).proc q).waiters = if q = p then [] else (w.proc q).waiters := by
  unfold wakeWaiters
  dsimp only
  fold_proc
  rw [proc_modProc]
  by_cases hq : q = p
  · subst hq
    by_cases hp : q < w.procs.size
    · simp [hp]
    · simp [hp, proc_oob w q hp]
  · simp [hq]

theorem holder_of_rv_eq {w w' : World} {r : Nat} (h : w'.rv r = w.rv r) : w'.holder r = w.holder r := by
  unfold World.holder; rw [h]

theorem holder_clear (v : Option (Option Pid × Nat)) : (clearHolder v).bind (·.1) = none := by
  cases v <;> simp [clearHolder]

/-! ### the state after the end -/

/-- the final world of `finishProc`, before the status update, by the two orders of the C code -/
def finishMid (w : World) (p : Pid) (stopped : Bool) : World :=
  if stopped then dropResources (cancelAwaiteds w p) p else cancelAwaiteds (dropResources w p) p

theorem finishProc_eq (w : World) (p : Pid) (val : Int) (stopped : Bool) :
    finishProc w p val stopped =
      (wakeWaiters (finishMid w p stopped) p (if stopped then sigStopped else sigSuccess)).modProc p
        fun x => { x with status := .finished, exitVal := val, blocked := none } := by
  unfold finishProc finishMid
  cases stopped <;> rfl

/-- **the record of a process after its end** (return, exit: `stopped = false`; stop: `stopped = true`):
    nothing held, nothing awaited, nobody waiting for it, finished, not suspended, exit value as given -/
theorem finishProc_record (w : World) (p : Pid) (hp : p < w.procs.size) (val : Int) (stopped : Bool) :
    ((finishProc w p val stopped).proc p).held = [] ∧
    ((finishProc w p val stopped).proc p).awaits = [] ∧
    ((finishProc w p val stopped).proc p).waiters = [] ∧
    ((finishProc w p val stopped).proc p).status = .finished ∧
    ((finishProc w p val stopped).proc p).exitVal = val ∧
    ((finishProc w p val stopped).proc p).blocked = none := by
  rw [finishProc_eq]
  have hsz : p < (wakeWaiters (finishMid w p stopped) p (if stopped then sigStopped else sigSuccess)).procs.size := by
    unfold finishMid; split <;> simpa using hp
  rw [proc_modProc_self _ _ _ hsz]
  dsimp only
  refine ⟨?_, ?_, ?_, rfl, rfl, rfl⟩
  · rw [wakeWaiters_held]; unfold finishMid; split
    · rw [dropResources_held]; simp
    · rw [cancelAwaiteds_held, dropResources_held]; simp
  · rw [wakeWaiters_awaits]; unfold finishMid; split
    · rw [dropResources_awaits, cancelAwaiteds_awaits]; simp
    · rw [cancelAwaiteds_awaits]; simp
  · rw [wakeWaiters_waiters]; simp

/-- the other processes keep their holdings -/
theorem finishProc_held_other (w : World) (p q : Pid) (hq : q ≠ p) (val : Int) (stopped : Bool) :
    ((finishProc w p val stopped).proc q).held = (w.proc q).held := by
  rw [finishProc_eq, proc_modProc_ne _ _ _ _ hq, wakeWaiters_held]
  unfold finishMid; split
  · rw [dropResources_held]; simp [hq]
  · rw [cancelAwaiteds_held, dropResources_held]; simp [hq]

/-- the resource view after the end: exactly the resources the process listed are free, the others are untouched -/
theorem finishProc_rv (w : World) (p : Pid) (val : Int) (stopped : Bool) (r : Nat) :
    (finishProc w p val stopped).rv r =
      if .res r ∈ (w.proc p).held then clearHolder (w.rv r) else w.rv r := by
  rw [finishProc_eq, rv_modProc, wakeWaiters_rv]
  unfold finishMid; split
  · rw [dropResources_rv]; simp
  · rw [cancelAwaiteds_rv, dropResources_rv]

/-- **ending the holder frees the resource**: everything the process listed has no holder afterwards -/
theorem finishProc_frees (w : World) (p : Pid) (val : Int) (stopped : Bool) (r : Nat)
    (hr : .res r ∈ (w.proc p).held) : (finishProc w p val stopped).holder r = none := by
  unfold World.holder
  rw [finishProc_rv, if_pos hr, holder_clear]

/-- … and nothing else changes hands -/
theorem finishProc_keeps (w : World) (p : Pid) (val : Int) (stopped : Bool) (r : Nat)
    (hr : .res r ∉ (w.proc p).held) : (finishProc w p val stopped).holder r = w.holder r := by
  unfold World.holder
  rw [finishProc_rv, if_neg hr]

end CimbaModel.Sim
