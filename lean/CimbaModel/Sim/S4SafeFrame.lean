/-
  S4 — every continuation of a suspended call keeps `Safe` (or records no fault when it suspends again):
  `SafeR.resumeFrame`.  `ResumePre`: where the resumed process may still be queued — nowhere after a SUCCESS wake-up,
  at most in the waiting list of the guard its frame waits on otherwise (it is withdrawn by the epilogue).
-/
import CimbaModel.Sim.S4SafeCmd

namespace CimbaModel.Sim.S4
open CimbaModel CimbaModel.Sim CimbaModel.Sim.S3 CimbaModel.Event CimbaModel.Generated CimbaModel.KPQ
open CimbaModel.HashHeap (HTag Item Order HH WF abs liveTags KeysBelowCounter)

variable {ex : Nat → Prop} {w : World} {p : Pid}

def ResumePre (w : World) (p : Pid) (f : Frame) (sig : Int) : Prop :=
  ∀ g, queued w g (p + 1) → sig ≠ sigSuccess ∧ FrameOn w f g

def FramePre (w : World) : Frame → Prop
  | .pqGet k => ∀ x, w.pqs[k]? = some x → WF compare_func x.queue
  | .pqPut k _ _ _ => ∀ x, w.pqs[k]? = some x → PQRoom x
  | _ => True

theorem Safe.withdraw (h : Safe noKey w) (g : Nat) (hq : ∀ g', queued w g' (p + 1) → g' = g) :
    Safe (isKey p) (Sim.guardWithdraw w g p) := by
  have hrest : (∀ g', ¬ queued w g' (p + 1)) → Safe (isKey p)
      (if (cancelKindFor w p aRes (some sigSuccess)).2 > 0 then Sim.signal (cancelKindFor w p aRes (some sigSuccess)).1 g
       else (cancelKindFor w p aRes (some sigSuccess)).1) := by
    intro hn
    have h1 := h.toKey p hn
    safe
  cases hg : w.guards[g]? with
  | none =>
    rw [guardWithdraw_noguard hg]
    apply hrest
    intro g' hq'
    have := hq g' hq'
    subst this
    obtain ⟨gd, hgd, _⟩ := hq'
    rw [hg] at hgd; cases hgd
  | some gd =>
    obtain ⟨hwf, hk⟩ := h.gq g gd hg
    by_cases hm : p + 1 ∈ keys (abs gd.q)
    · obtain ⟨q', hwf', hperm, heq⟩ := guardWithdraw_queued hg hwf hm
      rw [heq]
      have h1 : Safe noKey (Sim.setGuardQ w g q') := by
        refine h.setGuardQ g q' (fun gd0 hgd0 => ?_)
        rw [hg] at hgd0; cases hgd0
        exact ⟨hwf', fun k hk' => keys_sub_of_remove hperm hk'⟩
      refine h1.toKey p ?_
      intro g' ⟨gd', hgd', hk'⟩
      rw [setGuardQ_guards_get] at hgd'
      split at hgd'
      · rename_i e; subst e
        rw [hg] at hgd'
        simp only [Option.map_some, Option.some.injEq] at hgd'
        subst hgd'
        obtain ⟨e, he, hke⟩ := Event.mem_keys.1 ((HashHeap.keys_perm hperm _).1 hk')
        exact (S3.mem_remove.1 he).2 hke
      · rename_i hne
        exact hne (hq g' ⟨gd', hgd', hk'⟩)
    · rw [guardWithdraw_granted hg hwf hm]
      apply hrest
      intro g' hq'
      have := hq g' hq'
      subst this
      obtain ⟨gd', hgd', hk'⟩ := hq'
      rw [hg] at hgd'; cases hgd'
      exact hm hk'

theorem Safe.leave (h : Safe noKey w) (g : Nat) (sig : Int) (hq : ∀ g', queued w g' (p + 1) → sig ≠ sigSuccess ∧ g' = g) :
    Safe (isKey p) (Sim.guardWaitLeave w g p sig) := by
  unfold Sim.guardWaitLeave
  apply Safe.removeAwait_fst
  split
  · exact h.withdraw g (fun g' hq' => (hq g' hq').2)
  · rename_i hs
    exact h.toKey p (fun g' hq' => (hq g' hq').1 (Decidable.not_not.1 hs))

/-- a frame that is no guard wait: the process is queued nowhere -/
theorem ResumePre.notq {f : Frame} {sig : Int} (hq : ResumePre w p f sig) (hf : ∀ g, ¬ FrameOn w f g) : ∀ g, ¬ queued w g (p + 1) :=
  fun g hqq => hf g (hq g hqq).2

theorem SafeR.resumeFrame (h : Safe noKey w) (hp : p < w.procs.size) (f : Frame) (sig : Int) (hq : ResumePre w p f sig)
    (hpre : FramePre w f) : SafeR (isKey p) (Sim.resumeFrame w p f sig) := by
  cases f with
  | hold k =>
    have h1 := h.toKey p (hq.notq (fun g hg => hg))
    simp only [Sim.resumeFrame]
    split
    · exact SafeR.ret ((h1.timerCancel_fst _ _).removeAwait_fst _ _) _ _
    · exact SafeR.ret h1 _ _
  | yield =>
    have h1 := h.toKey p (hq.notq (fun g hg => hg))
    simp only [Sim.resumeFrame]
    exact SafeR.ret h1 _ _
  | waitProc q =>
    have h1 := h.toKey p (hq.notq (fun g hg => hg))
    simp only [Sim.resumeFrame]
    repeat' split
    all_goals (refine SafeR.ret ?_ _ _; safe)
  | waitEvent k =>
    have h1 := h.toKey p (hq.notq (fun g hg => hg))
    simp only [Sim.resumeFrame]
    repeat' split
    all_goals (refine SafeR.ret ?_ _ _; safe)
  | acquire r =>
    simp only [Sim.resumeFrame]
    split
    · exact SafeR.ret (h.toKey p (hq.notq (fun g hg => by simp only [FrameOn] at hg; rename_i hn; rw [hn] at hg; cases hg))) _ _
    · rename_i x hx
      have h1 : Safe (isKey p) (guardWaitLeave w x.guard p sig) := by
        refine h.leave _ _ (fun g' hq' => ⟨(hq g' hq').1, ?_⟩)
        have := (hq g' hq').2
        simp only [FrameOn, hx, Option.map_some, Option.some.injEq, resStat] at this
        exact this.symm
      split
      · exact SafeR.acquireStep h1 (by simpa using hp) r (by simpa using lt_of_getElem? hx)
      · exact SafeR.ret h1 _ _
  | pool pl rem initially preempt =>
    simp only [Sim.resumeFrame]
    split
    · exact SafeR.ret (h.toKey p (hq.notq (fun g hg => by simp only [FrameOn] at hg; rename_i hn; rw [hn] at hg; cases hg))) _ _
    · rename_i x hx
      have h1 : Safe (isKey p) (guardWaitLeave w x.guard p sig) := by
        refine h.leave _ _ (fun g' hq' => ⟨(hq g' hq').1, ?_⟩)
        have := (hq g' hq').2
        simp only [FrameOn, hx, Option.map_some, Option.some.injEq, poolStat] at this
        exact this.symm
      split
      · exact SafeR.ret (h1.poolRollback _ _ _) _ _
      · exact SafeR.poolLoop h1 (by simpa using hp) pl rem initially preempt (by simpa using lt_of_getElem? hx)
  | bufGet b rem got =>
    simp only [Sim.resumeFrame]
    split
    · exact SafeR.ret (h.toKey p (hq.notq (fun g hg => by simp only [FrameOn] at hg; rename_i hn; rw [hn] at hg; cases hg))) _ _
    · rename_i x hx
      have h1 : Safe (isKey p) (guardWaitLeave w x.front p sig) := by
        refine h.leave _ _ (fun g' hq' => ⟨(hq g' hq').1, ?_⟩)
        have := (hq g' hq').2
        simp only [FrameOn, hx, Option.map_some, Option.some.injEq, bufStat] at this
        exact this.symm
      split
      · exact SafeR.bufGetLoop h1 (by simpa using hp) b rem got (by simpa using lt_of_getElem? hx)
      · exact SafeR.ret h1 _ _
  | bufPut b rem left =>
    simp only [Sim.resumeFrame]
    split
    · exact SafeR.ret (h.toKey p (hq.notq (fun g hg => by simp only [FrameOn] at hg; rename_i hn; rw [hn] at hg; cases hg))) _ _
    · rename_i x hx
      have h1 : Safe (isKey p) (guardWaitLeave w x.rear p sig) := by
        refine h.leave _ _ (fun g' hq' => ⟨(hq g' hq').1, ?_⟩)
        have := (hq g' hq').2
        simp only [FrameOn, hx, Option.map_some, Option.some.injEq, bufStat] at this
        exact this.symm
      split
      · exact SafeR.bufPutLoop h1 (by simpa using hp) b rem left (by simpa using lt_of_getElem? hx)
      · exact SafeR.ret h1 _ _
  | oqGet q =>
    simp only [Sim.resumeFrame]
    split
    · exact SafeR.ret (h.toKey p (hq.notq (fun g hg => by simp only [FrameOn] at hg; rename_i hn; rw [hn] at hg; cases hg))) _ _
    · rename_i x hx
      have h1 : Safe (isKey p) (guardWaitLeave w x.front p sig) := by
        refine h.leave _ _ (fun g' hq' => ⟨(hq g' hq').1, ?_⟩)
        have := (hq g' hq').2
        simp only [FrameOn, hx, Option.map_some, Option.some.injEq, oqStat] at this
        exact this.symm
      split
      · exact SafeR.oqGetLoop h1 (by simpa using hp) q (by simpa using lt_of_getElem? hx)
      · exact SafeR.ret h1 _ _
  | oqPut q obj =>
    simp only [Sim.resumeFrame]
    split
    · exact SafeR.ret (h.toKey p (hq.notq (fun g hg => by simp only [FrameOn] at hg; rename_i hn; rw [hn] at hg; cases hg))) _ _
    · rename_i x hx
      have h1 : Safe (isKey p) (guardWaitLeave w x.rear p sig) := by
        refine h.leave _ _ (fun g' hq' => ⟨(hq g' hq').1, ?_⟩)
        have := (hq g' hq').2
        simp only [FrameOn, hx, Option.map_some, Option.some.injEq, oqStat] at this
        exact this.symm
      split
      · exact SafeR.oqPutLoop h1 (by simpa using hp) q obj (by simpa using lt_of_getElem? hx)
      · exact SafeR.ret h1 _ _
  | pqGet k =>
    simp only [Sim.resumeFrame]
    split
    · exact SafeR.ret (h.toKey p (hq.notq (fun g hg => by simp only [FrameOn] at hg; rename_i hn; rw [hn] at hg; cases hg))) _ _
    · rename_i x hx
      have h1 : Safe (isKey p) (guardWaitLeave w x.front p sig) := by
        refine h.leave _ _ (fun g' hq' => ⟨(hq g' hq').1, ?_⟩)
        have := (hq g' hq').2
        simp only [FrameOn, hx, Option.map_some, Option.some.injEq, pqStat] at this
        exact this.symm
      split
      · exact SafeR.pqGetLoop h1 (by simpa using hp) k (by simpa using lt_of_getElem? hx) (by simpa [FramePre] using hpre)
      · exact SafeR.ret h1 _ _
  | pqPut k obj pri v =>
    simp only [Sim.resumeFrame]
    split
    · exact SafeR.ret (h.toKey p (hq.notq (fun g hg => by simp only [FrameOn] at hg; rename_i hn; rw [hn] at hg; cases hg))) _ _
    · rename_i x hx
      have h1 : Safe (isKey p) (guardWaitLeave w x.rear p sig) := by
        refine h.leave _ _ (fun g' hq' => ⟨(hq g' hq').1, ?_⟩)
        have := (hq g' hq').2
        simp only [FrameOn, hx, Option.map_some, Option.some.injEq, pqStat] at this
        exact this.symm
      split
      · exact SafeR.pqPutLoop h1 (by simpa using hp) k obj pri v (by simpa using lt_of_getElem? hx) (by simpa [FramePre] using hpre)
      · exact SafeR.ret h1 _ _
  | condWait c =>
    simp only [Sim.resumeFrame]
    split
    · exact SafeR.ret (h.toKey p (hq.notq (fun g hg => by simp only [FrameOn] at hg; rename_i hn; rw [hn] at hg; cases hg))) _ _
    · rename_i g hg
      have h1 : Safe (isKey p) (guardWaitLeave w g p sig) := by
        refine h.leave _ _ (fun g' hq' => ⟨(hq g' hq').1, ?_⟩)
        have := (hq g' hq').2
        simp only [FrameOn, hg, Option.some.injEq] at this
        exact this.symm
      refine SafeR.ret ?_ _ _
      split
      · exact h1.cancelKindFor_fst _ _ _
      · exact h1

end CimbaModel.Sim.S4
