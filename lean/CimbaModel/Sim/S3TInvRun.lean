/-
  S3 — `TInv`, part 4: commands, resumptions, activations, `dispatch`.
-/
import CimbaModel.Sim.S3TInvReg

namespace CimbaModel.Sim.S3
open CimbaModel CimbaModel.Sim CimbaModel.Event CimbaModel.Generated CimbaModel.KPQ
open CimbaModel.HashHeap (HTag Item Order HH WF abs liveTags)

theorem timersClear_psize (w : World) (p : Pid) : (timersClear w p).procs.size = w.procs.size :=
  ((Evo.refl w).timersClear p).psize

macro_rules | `(tactic| tinv_step) => `(tactic| with_reducible apply TInv.poolMug_fst)
macro_rules | `(tactic| tinv_step) => `(tactic| with_reducible apply TInv.wakeWaiters)
macro_rules | `(tactic| tinv_step) => `(tactic| with_reducible apply TInv.block_fst)
macro_rules | `(tactic| tinv_step) => `(tactic| with_reducible apply TInv.guardWaitLeave)
macro_rules | `(tactic| tinv_step) => `(tactic| with_reducible apply TInv.guardWaitEnter)
macro_rules | `(tactic| tinv_step) => `(tactic| with_reducible apply TInv.finishProc)
macro_rules | `(tactic| tinv_step) => `(tactic| with_reducible apply TInv.cancelAwaiteds)
macro_rules | `(tactic| tinv_step) => `(tactic| with_reducible apply TInv.timersClear)
macro_rules | `(tactic| tinv_step) => `(tactic| with_reducible apply TInv.timerCancel_fst)
macro_rules | `(tactic| tinv_step) => `(tactic| (with_reducible refine TInv.removeAwait_other ?_ _ _ rfl))
macro_rules | `(tactic| tinv_step) => `(tactic| (with_reducible refine TInv.addAwait_other ?_ _ _ rfl))
macro_rules | `(tactic| tinv_step) => `(tactic| (with_reducible refine TInv.timerAdd_fst ?_ _ _ _ (by first | assumption | (rw [timersClear_psize]; assumption))))

variable {ex : Pid → Prop} {w : World} {p : Pid}

theorem TInv.acquireStep_fst (hp : TInv ex w) (r : Nat) : TInv ex (acquireStep w p r).1 := by
  simp only [Sim.acquireStep]; tinv
theorem TInv.poolLoop_fst (hp : TInv ex w) (pl rem ini : Nat) (pre : Bool) : TInv ex (poolLoop w p pl rem ini pre).1 := by
  simp only [Sim.poolLoop]; tinv
theorem TInv.bufGetLoop_fst (hp : TInv ex w) (b rem got : Nat) : TInv ex (bufGetLoop w p b rem got).1 := by
  simp only [Sim.bufGetLoop]; tinv
theorem TInv.bufPutLoop_fst (hp : TInv ex w) (b rem left : Nat) : TInv ex (bufPutLoop w p b rem left).1 := by
  simp only [Sim.bufPutLoop]; tinv
theorem TInv.oqGetLoop_fst (hp : TInv ex w) (q : Nat) : TInv ex (oqGetLoop w p q).1 := by
  simp only [Sim.oqGetLoop]; tinv
theorem TInv.oqPutLoop_fst (hp : TInv ex w) (q obj : Nat) : TInv ex (oqPutLoop w p q obj).1 := by
  simp only [Sim.oqPutLoop]; tinv
theorem TInv.pqGetLoop_fst (hp : TInv ex w) (k : Nat) : TInv ex (pqGetLoop w p k).1 := by
  simp only [Sim.pqGetLoop]; tinv
theorem TInv.pqPutLoop_fst (hp : TInv ex w) (k obj : Nat) (pri : Int) (v : Nat) : TInv ex (pqPutLoop w p k obj pri v).1 := by
  simp only [Sim.pqPutLoop]; tinv
macro_rules | `(tactic| tinv_step) => `(tactic| with_reducible apply TInv.acquireStep_fst)
macro_rules | `(tactic| tinv_step) => `(tactic| with_reducible apply TInv.poolLoop_fst)
macro_rules | `(tactic| tinv_step) => `(tactic| with_reducible apply TInv.bufGetLoop_fst)
macro_rules | `(tactic| tinv_step) => `(tactic| with_reducible apply TInv.bufPutLoop_fst)
macro_rules | `(tactic| tinv_step) => `(tactic| with_reducible apply TInv.oqGetLoop_fst)
macro_rules | `(tactic| tinv_step) => `(tactic| with_reducible apply TInv.oqPutLoop_fst)
macro_rules | `(tactic| tinv_step) => `(tactic| with_reducible apply TInv.pqGetLoop_fst)
macro_rules | `(tactic| tinv_step) => `(tactic| with_reducible apply TInv.pqPutLoop_fst)

/-- every command keeps `TInv` (the caller exists) -/
theorem TInv.execCmd_fst (hp : TInv ex w) (hlt : p < w.procs.size) (c : Cmd) : TInv ex (execCmd w p c).1 := by
  cases c with
  | prioSet q v =>
    by_cases hq : q < w.procs.size
    · rw [prioSet_eq w p q v hq]
      dsimp only
      refine TInv.foldl (fun w x h => h.prioHeldStep q v x) _ ?_
      refine TInv.foldl (fun w x h => h.prioAwaitStep q v x) _ ?_
      tinv
    · have : q ≥ w.procs.size := Nat.le_of_not_lt hq
      simp only [Sim.execCmd, this, if_true]
      exact hp
  | timerAddOf q d sig =>
    simp only [Sim.execCmd]
    split
    · exact hp
    · rename_i hq
      exact hp.timerAdd_fst q d sig (lt_of_running (by simpa [isRunning] using hq))
  | _ => simp only [Sim.execCmd] <;> tinv

theorem evCancel_not_pending (w : World) (h : Nat) (hi : EvInv w.ev) : h ∉ keys (evCancel w h).1.ev.pending := by
  rw [evCancel_eq]
  split
  · rename_i hk
    simp only [pushAll_pending]
    intro hmem
    obtain ⟨e, he, hek⟩ := Event.mem_keys.1 hmem
    rcases List.mem_append.1 he with he | he
    · have h1 := (wakeEvs_props he).1
      obtain ⟨e0, he0, hk0⟩ := Event.mem_keys.1 hk
      have h2 := EvInv.key_le hi he0
      simp only [cancelEv_counter] at h1
      omega
    · exact (mem_remove.1 he).2 hek
  · rename_i hk; exact hk

/-- every resumption of a suspended call keeps `TInv` -/
theorem TInv.resumeFrame_fst (hp : TInv ex w) (f : Frame) (sig : Int) : TInv ex (resumeFrame w p f sig).1 := by
  cases f with
  | hold h =>
    simp only [Sim.resumeFrame]
    split
    · -- the hold's own timer is cancelled, then forgotten (again)
      have h1 := hp.timerCancel_fst p h
      refine h1.removeAwait_time_gone p h ?_
      intro e he hk _ _
      have hei : EvInv (removeAwait w p (.time h)).1.ev := by simp only [removeAwait]; exact hp.ei
      have := evCancel_not_pending (removeAwait w p (.time h)).1 h hei
      simp only [Sim.timerCancel] at he
      exact this (Event.mem_keys.2 ⟨e, he, hk⟩)
    · exact hp
  | _ => simp only [Sim.resumeFrame] <;> tinv


/-! ### activations -/

theorem TInv.runScript : ∀ (fuel : Nat) {w : World} {p : Pid}, TInv ex w → TInv ex (runScript fuel w p) := by
  intro fuel
  induction fuel with
  | zero => intro w p h; exact h.fail _
  | succ fuel ih =>
    intro w p h
    simp only [Sim.runScript]
    split
    · exact (h.emit _).finishProc p 0 false
    · rename_i c text hs
      have hlt : p < w.procs.size := by
        rcases Nat.lt_or_ge p w.procs.size with h' | h'
        · exact h'
        · rw [script_none_of_oob h'] at hs; cases hs
      have hx := (h.emit s!"c {p} {(w.proc p).pc} {w.now} {text}").execCmd_fst (p := p) hlt c
      rcases hres : execCmd (w.emit s!"c {p} {(w.proc p).pc} {w.now} {text}") p c with ⟨w1, out⟩
      rw [hres] at hx
      cases out with
      | ret v extra => exact ih ((hx.emit _).modProc_ctl p _ (fun _ => rfl))
      | skip => exact ih ((hx.emit _).modProc_ctl p _ (fun _ => rfl))
      | blocked => exact hx
      | ended =>
        dsimp only
        split <;> exact hx.emit _

theorem TInv.resumeProc (hp : TInv ex w) (p : Pid) (sig : Int) : TInv ex (resumeProc w p sig) := by
  simp only [Sim.resumeProc]
  split
  · exact hp.fail _
  · split
    · exact hp.fail _
    · rename_i f hbf
      have hx := (hp.modProc_ctl p (fun y => { y with blocked := none }) (fun _ => rfl)).resumeFrame_fst (p := p) f sig
      rcases hres : resumeFrame (w.modProc p fun y => { y with blocked := none }) p f sig with ⟨w1, out⟩
      rw [hres] at hx
      cases out with
      | ret v extra => exact TInv.runScript _ ((hx.emit _).modProc_ctl p _ (fun _ => rfl))
      | skip => exact hx
      | blocked => exact hx
      | ended => exact hx

/-! ### dispatch -/

/-- the stable form: nobody exempt -/
def TInvB (w : World) : Prop := TInv noEx w

/-- what `takeNext` does to the event queue: the dispatched event is gone, every other old event is still there, the
    only new events are event-done wake-ups; processes, cancelled handles are untouched -/
theorem takeNext_facts {w : World} (hi : EvInv w.ev) {t : HTag} {ev' : EvQ} (hn : executeNext w.ev = some (t, ev')) :
    t ∈ w.ev.pending ∧ (takeNext w t ev').procs = w.procs ∧ EvInv (takeNext w t ev').ev ∧
    (∀ e ∈ (takeNext w t ev').ev.pending, (e ∈ w.ev.pending ∧ e.key ≠ t.key) ∨ e.item.a = aEvent) ∧
    (∀ e ∈ w.ev.pending, e.key ≠ t.key → e ∈ (takeNext w t ev').ev.pending) ∧
    (takeNext w t ev').ev.cancelled = w.ev.cancelled ∧ w.ev.counter ≤ (takeNext w t ev').ev.counter := by
  obtain ⟨hei', htm, hpend, hctr⟩ := executeNext_facts hi hn
  have hcan : ev'.cancelled = w.ev.cancelled := by
    unfold executeNext at hn
    split at hn
    · cases hn
    · simp only [Option.some.injEq, Prod.mk.injEq] at hn
      rw [← hn.2]
  rw [takeNext_eq]
  refine ⟨htm, rfl, pushAll_evinv _ hei', ?_, ?_, hcan, ?_⟩
  · intro e he
    simp only [pushAll_pending, List.mem_append] at he
    rcases he with he | he
    · right
      obtain ⟨_, _, _, _, x, hx, heq⟩ := wakeEvs_props he
      simp only [evWakes, List.mem_map] at hx
      obtain ⟨q, _, rfl⟩ := hx
      rw [heq]; rfl
    · left
      have : e ∈ remove w.ev.pending t.key := by rw [← hpend]; exact he
      exact mem_remove.1 this
  · intro e he hne
    simp only [pushAll_pending]
    apply List.mem_append_right
    show e ∈ ev'.pending
    rw [hpend]; exact mem_remove.2 ⟨he, hne⟩
  · simp only [pushAll_counter]
    have : (afterNext w ev').ev.counter = w.ev.counter := hctr
    omega

/-- after the next event has been taken off the queue (and its waiters woken): if it was a timer event, its
    registration — and only that — is dangling until the action removes it -/
theorem TInvB.takeNext_time {w : World} (hp : TInvB w) {t : HTag} {ev' : EvQ} (hn : executeNext w.ev = some (t, ev'))
    (ha : t.item.a = aTime) : TInvB (removeAwait (takeNext w t ev') (t.item.b - 1) (.time t.key)).1 := by
  obtain ⟨htm, hprocs, heiT, hpend', hstay, hcan, hctr⟩ := takeNext_facts hp.ei hn
  have hb0 := hp.tb t htm ha
  have hb : t.item.b = (t.item.b - 1) + 1 := by omega
  generalize takeNext w t ev' = wT at hprocs heiT hpend' hstay hcan hctr
  rw [removeAwait_fst_eq]
  have hprocT : ∀ x, wT.proc x = w.proc x := proc_congr hprocs
  have hpr : ∀ x, ((wT.modProc (t.item.b - 1) fun x => { x with awaits := (removeFirst x.awaits (.time t.key)).1 }).proc x).awaits =
      if x = t.item.b - 1 ∧ t.item.b - 1 < w.procs.size then (removeFirst (w.proc x).awaits (.time t.key)).1
      else (w.proc x).awaits := by
    intro x; rw [modProc_proc, hprocs]; split
    · rename_i hx; rw [hx.1, hprocT]
    · rw [hprocT]
  have hsub : ∀ x a, a ∈ ((wT.modProc (t.item.b - 1) fun x => { x with awaits := (removeFirst x.awaits (.time t.key)).1 }).proc x).awaits →
      a ∈ (w.proc x).awaits := by
    intro x a hm; rw [hpr] at hm; split at hm
    · exact removeFirst_subset _ _ _ hm
    · exact hm
  have hne : (aEvent : Nat) ≠ aTime := by decide
  refine { ei := heiT, t1 := ?_, t2 := ?_, tle := ?_, tnd := ?_, tb := ?_ }
  · intro x h h0 hh
    have hold := hsub x _ hh
    rcases hp.t1 x h h0 hold with ⟨e, he, hk, hea, heb⟩ | hc
    · by_cases hkt : h = t.key
      · -- it is the dispatched timer itself: its registration has just been removed
        exfalso
        have het : e = t := HashHeap.eq_of_key_eq hp.ei.part.keysNodup he htm (hk.trans hkt)
        subst het
        have hxp : x = e.item.b - 1 := Nat.add_right_cancel (heb.symm.trans hb)
        subst hxp
        rw [hpr] at hh
        have hlt : e.item.b - 1 < w.procs.size := by
          rcases Nat.lt_or_ge (e.item.b - 1) w.procs.size with h' | h'
          · exact h'
          · rw [proc_oob w h'] at hold; cases hold
        rw [if_pos ⟨rfl, hlt⟩, hkt] at hh
        have hnd := hp.tnd (e.item.b - 1)
        have h0' : e.key ≠ 0 := by rw [← hkt]; exact h0
        have hnd' : ((w.proc (e.item.b - 1)).awaits.filter fun a => decide (a ≠ .time 0) && isTimeA a).Nodup := by
          have := hnd; unfold timeAw at this; rwa [List.filter_filter] at this
        have hf : (fun a => decide (a ≠ Await.time 0) && isTimeA a) (Await.time e.key) = true := by simp [isTimeA, h0']
        have := removeFirst_filter_self (w.proc (e.item.b - 1)).awaits (.time e.key)
          (fun a => decide (a ≠ Await.time 0) && isTimeA a) hf
        have hin' : Await.time e.key ∈ ((removeFirst (w.proc (e.item.b - 1)).awaits (.time e.key)).1).filter
            (fun a => decide (a ≠ Await.time 0) && isTimeA a) := List.mem_filter.2 ⟨hh, hf⟩
        rw [this] at hin'
        exact (removeFirst_nodup _ _ hnd').2 hin'
      · exact Or.inl ⟨e, hstay e he (by rw [hk]; exact hkt), hk, hea, heb⟩
    · exact Or.inr (by show h ∈ wT.ev.cancelled; rw [hcan]; exact hc)
  · intro e he hea x hb' hx
    rcases hpend' e he with ⟨hew, hek⟩ | hev
    · have := hp.t2 e hew hea x hb' hx
      rw [hpr]; split
      · exact removeFirst_mem_ne _ _ _ this (fun heq => hek (by injection heq))
      · exact this
    · rw [hea] at hev; exact absurd hev.symm hne
  · intro x h hh
    exact Nat.le_trans (hp.tle x h (hsub x _ hh)) hctr
  · intro x
    unfold timeAw; rw [hpr]; split
    · exact List.Nodup.sublist (((removeFirst_sublist _ _).filter _).filter _) (hp.tnd x)
    · exact hp.tnd x
  · intro e he hea
    rcases hpend' e he with ⟨hew, _⟩ | hev
    · exact hp.tb e hew hea
    · rw [hea] at hev; exact absurd hev.symm hne

/-- … and if it was anything else, nothing dangles -/
theorem TInvB.takeNext_other {w : World} (hp : TInvB w) {t : HTag} {ev' : EvQ} (hn : executeNext w.ev = some (t, ev'))
    (ha : t.item.a ≠ aTime) : TInvB (takeNext w t ev') := by
  obtain ⟨htm, hprocs, heiT, hpend', hstay, hcan, hctr⟩ := takeNext_facts hp.ei hn
  generalize takeNext w t ev' = wT at hprocs heiT hpend' hstay hcan hctr
  have hprocT : ∀ x, wT.proc x = w.proc x := proc_congr hprocs
  have hne : (aEvent : Nat) ≠ aTime := by decide
  refine { ei := heiT, t1 := ?_, t2 := ?_, tle := ?_, tnd := ?_, tb := ?_ }
  · intro x h h0 hh
    rw [hprocT] at hh
    rcases hp.t1 x h h0 hh with ⟨e, he, hk, hea, heb⟩ | hc
    · refine Or.inl ⟨e, hstay e he (fun hkt => ?_), hk, hea, heb⟩
      have : e = t := HashHeap.eq_of_key_eq hp.ei.part.keysNodup he htm hkt
      subst this; exact ha hea
    · exact Or.inr (by rw [hcan]; exact hc)
  · intro e he hea x hb' hx
    rcases hpend' e he with ⟨hew, _⟩ | hev
    · rw [hprocT]; exact hp.t2 e hew hea x hb' hx
    · rw [hea] at hev; exact absurd hev.symm hne
  · intro x h hh
    rw [hprocT] at hh
    exact Nat.le_trans (hp.tle x h hh) hctr
  · intro x; unfold timeAw; rw [hprocT]; exact hp.tnd x
  · intro e he hea
    rcases hpend' e he with ⟨hew, _⟩ | hev
    · exact hp.tb e hew hea
    · rw [hea] at hev; exact absurd hev.symm hne

/-- I_timers is preserved by `dispatch`, for all programs -/
theorem TInvB.dispatch {w w' : World} (hp : TInvB w) (hd : dispatch w = some w') : TInvB w' := by
  rw [dispatch_eq] at hd
  split at hd
  · cases hd
  · rename_i t ev' hn
    simp only [Option.some.injEq] at hd
    subst hd
    by_cases h2 : t.item.a = aTime
    · rw [dispatchBody_time _ _ h2]
      exact (hp.takeNext_time hn h2).resumeProc _ _
    · have hT := hp.takeNext_other hn h2
      generalize S3.takeNext w t ev' = wT at hT
      unfold dispatchBody
      dsimp only
      by_cases h1 : t.item.a = aStart
      · rw [if_pos h1]
        split
        · exact hT.fail _
        · exact TInv.runScript _ (hT.modProc_ctl _ _ (fun _ => rfl))
      rw [if_neg h1, if_neg h2]
      have hk1 : ∀ a, isProcA a = true → isTimeA a = false := fun a h => by cases a <;> simp_all [isProcA, isTimeA]
      have hk2 : ∀ a, isEventA a = true → isTimeA a = false := fun a h => by cases a <;> simp_all [isEventA, isTimeA]
      have hk3 : ∀ a, isGuardA a = true → isTimeA a = false := fun a h => by cases a <;> simp_all [isGuardA, isTimeA]
      by_cases h3 : t.item.a = aProc
      · rw [if_pos h3]
        have hD := hT.removeAwaitKind_other (t.item.b - 1) isProcA hk1
        split
        · exact hD.resumeProc _ _
        · exact hD
      rw [if_neg h3]
      by_cases h4 : t.item.a = aEvent
      · rw [if_pos h4]
        have hD := hT.removeAwaitKind_other (t.item.b - 1) isEventA hk2
        split
        · exact hD.resumeProc _ _
        · exact hD
      rw [if_neg h4]
      by_cases h5 : t.item.a = aRes ∨ t.item.a = aPreempt
      · rw [if_pos h5]
        split
        · exact hT.resumeProc _ _
        · exact hT
      rw [if_neg h5]
      by_cases h6 : t.item.a = aCond
      · rw [if_pos h6]
        have hD := hT.removeAwaitKind_other (t.item.b - 1) isGuardA hk3
        split
        · exact hD.resumeProc _ _
        · exact hD
      rw [if_neg h6]
      by_cases h7 : t.item.a = aIntr
      · rw [if_pos h7]
        exact (hT.cancelAwaiteds _).resumeProc _ _
      rw [if_neg h7]
      split
      · exact hT.resumeProc _ _
      · exact hT

theorem TInvB.reach {w w' : World} (h : Reach w w') (hp : TInvB w) : TInvB w' := by
  induction h with
  | refl => exact hp
  | step _ hd ih => exact ih.dispatch hd

theorem TInvB.runAll (fuel : Nat) (w : World) (hp : TInvB w) : TInvB (runAll fuel w) :=
  runAll_inv (I := TInvB) (fun _ l h => h.emit l) (fun _ _ h _ hd => h.dispatch hd) fuel w hp

end CimbaModel.Sim.S3
