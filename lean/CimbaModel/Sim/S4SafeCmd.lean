/-
  S4 — every command keeps `Safe` (or, when the caller suspends / ends, records no fault): `SafeR.execCmd`.
  `CmdSafe` is the static validity of a command that matters for faults (durations not negative, `acquire` names an
  existing resource); `CmdPre` the facts a few commands need at the moment they run (they follow from the invariants).
-/
import CimbaModel.Sim.S4SafeRun

namespace CimbaModel.Sim.S4
open CimbaModel CimbaModel.Sim CimbaModel.Sim.S3 CimbaModel.Event CimbaModel.Generated CimbaModel.KPQ
open CimbaModel.HashHeap (HTag Item Order HH WF abs liveTags KeysBelowCounter)

variable {ex : Nat → Prop} {w : World} {p : Pid}

/-- durations are not negative (`cmb_process_hold`, `timer_add/set`, `cmb_event_schedule` assert it) and `acquire` names
    an existing resource (the model's `acquire` has no self-guard for that, the harness skips it) -/
def CmdSafe (w : World) : Cmd → Prop
  | .hold d => 0 ≤ d
  | .timerAdd _ d _ => 0 ≤ d
  | .timerSet _ d _ => 0 ≤ d
  | .timerAddOf _ d _ => 0 ≤ d
  | .schedUser _ d _ => 0 ≤ d
  | .acquire r => r < w.res.size
  | _ => True

/-- what `priority_set` needs: the timers it walks are scheduled, the pools it walks have a record of the process -/
structure PrioPre (w : World) (q : Pid) : Prop where
  timers : ∀ h, Await.time h ∈ (w.proc q).awaits → isScheduled w.ev h = true
  pools : ∀ pl x, HoldRef.pool pl ∈ (w.proc q).held → w.pools[pl]? = some x → q + 1 ∈ keys (abs x.holders)

def CmdPre (w : World) : Cmd → Prop
  | .prioSet q _ => PrioPre w q
  | .pqGet k => ∀ x, w.pqs[k]? = some x → WF compare_func x.queue
  | .pqPut k _ _ _ => ∀ x, w.pqs[k]? = some x → PQRoom x
  | .pqCancel k _ => ∀ x, w.pqs[k]? = some x → WF compare_func x.queue
  | .pqReprio k _ _ => ∀ x, w.pqs[k]? = some x → WF compare_func x.queue
  | _ => True

theorem lt_of_getElem? {α : Type} {a : Array α} {i : Nat} {x : α} (h : a[i]? = some x) : i < a.size := by
  by_cases hi : i < a.size
  · exact hi
  · rw [Array.getElem?_eq_none (Nat.le_of_not_lt hi)] at h; cases h

/-! ### `priority_set` -/

/-- pending keys and pool holder keys are the same, processes' held / awaits lists are the same -/
structure PrioRel (w w' : World) : Prop where
  sched : ∀ h, isScheduled w'.ev h = isScheduled w.ev h
  pools : ∀ (pl : Nat) (x' : Pool), w'.pools[pl]? = some x' →
    ∃ x : Pool, w.pools[pl]? = some x ∧ ∀ k, k ∈ keys (abs x'.holders) ↔ k ∈ keys (abs x.holders)

theorem PrioRel.refl (w : World) : PrioRel w w := ⟨fun _ => rfl, fun _ x h => ⟨x, h, fun _ => Iff.rfl⟩⟩

theorem reprioritize_keys {q : EvQ} {h : Nat} {v : Int} {q' : EvQ} (hr : reprioritize q h v = .ok q') :
    keys q'.pending = keys q.pending := by
  unfold reprioritize at hr
  split at hr
  · cases hr
  · cases hr
    simp only [keys, List.map_map]
    apply List.map_congr_left
    intro e _
    simp only [Function.comp]
    split <;> rfl

theorem Safe.prioAwaitStep (h : Safe ex w) {w0 : World} (hr : PrioRel w0 w) (q : Pid) (v : Int) (a : Await)
    (ha : ∀ k, a = .time k → isScheduled w0.ev k = true) :
    Safe ex (S3.prioAwaitStep q v w a) ∧ PrioRel w0 (S3.prioAwaitStep q v w a) := by
  cases a with
  | time k =>
    simp only [S3.prioAwaitStep]
    have hs : isScheduled w.ev k = true := by rw [hr.sched]; exact ha k rfl
    have : ∃ ev', reprioritize w.ev k v = .ok ev' := by
      unfold reprioritize
      simp only [hs, not_true_eq_false, if_false]
      exact ⟨_, rfl⟩
    obtain ⟨ev', hev⟩ := this
    rw [hev]
    refine ⟨h.setEv ev', ⟨fun j => ?_, hr.pools⟩⟩
    show isScheduled ev' j = _
    rw [← hr.sched]
    unfold isScheduled
    rw [reprioritize_keys hev]
  | guard g =>
    simp only [S3.prioAwaitStep]
    cases hg : w.guards[g]? with
    | none =>
      have : reprioGuard w q v g = w := by unfold reprioGuard; rw [hg]
      rw [this]; exact ⟨h, hr⟩
    | some gd =>
      obtain ⟨hwf, hk⟩ := h.gq g gd hg
      obtain ⟨h1, h2⟩ := reprioGuard_spec hg hwf q v
      by_cases hm : q + 1 ∈ keys (abs gd.q)
      · obtain ⟨q', hwf', hperm, heq⟩ := h1 hm
        rw [heq]
        refine ⟨h.setGuardQ g q' (fun gd0 hgd0 => ?_), ⟨hr.sched, hr.pools⟩⟩
        rw [hg] at hgd0; cases hgd0
        refine ⟨hwf', fun k hk' => ?_⟩
        have := (HashHeap.keys_perm hperm k).1 hk'
        simp only [keys, setPrio, List.map_map] at this ⊢
        obtain ⟨e, he, hke⟩ := List.mem_map.1 this
        refine List.mem_map.2 ⟨e, he, ?_⟩
        rw [← hke]
        simp only [Function.comp]
        split <;> rfl
      · rw [h2 hm]; exact ⟨h, hr⟩
  | proc _ => exact ⟨h, hr⟩
  | event _ => exact ⟨h, hr⟩

theorem Safe.prioHeldStep (h : Safe ex w) {w0 : World} (hr : PrioRel w0 w) (q : Pid) (v : Int) (a : HoldRef)
    (ha : ∀ pl x, a = .pool pl → w0.pools[pl]? = some x → q + 1 ∈ keys (abs x.holders)) :
    Safe ex (S3.prioHeldStep q v w a) ∧ PrioRel w0 (S3.prioHeldStep q v w a) := by
  cases a with
  | res _ => exact ⟨h, hr⟩
  | pool pl =>
    simp only [S3.prioHeldStep]
    split
    · rename_i x hx
      obtain ⟨hwf, hkb⟩ := h.hq pl x hx
      obtain ⟨x0, hx0, hkeys⟩ := hr.pools pl x hx
      have hm : q + 1 ∈ keys (abs x.holders) := (hkeys _).2 (ha pl x0 rfl hx0)
      obtain ⟨h', hrun, hwf', hperm, _⟩ := HashHeap.reprio_abs hwf hm 0 v
      rw [hrun]
      have hsame : ∀ k, k ∈ keys (abs h') ↔ k ∈ keys (abs x.holders) := by
        intro k
        rw [HashHeap.keys_perm hperm k, HashHeap.keys_reprio]
      refine ⟨h.setHolders pl x hx _ rfl hwf' (fun k hk => hkb k ((hsame k).1 hk)), ⟨hr.sched, ?_⟩⟩
      intro pl' y hy
      simp only [Array.set!_eq_setIfInBounds, Array.getElem?_setIfInBounds] at hy
      split at hy
      · rename_i e; subst e
        split at hy
        · cases hy
          exact ⟨x0, hx0, fun k => (hsame k).trans (hkeys k)⟩
        · cases hy
      · exact hr.pools pl' y hy
    · exact ⟨h, hr⟩

theorem foldl_safe_rel {α : Type} {f : World → α → World} {w0 : World} (l : List α) (P : α → Prop)
    (hf : ∀ w a, a ∈ l → P a → Safe ex w → PrioRel w0 w → Safe ex (f w a) ∧ PrioRel w0 (f w a)) :
    ∀ {w : World}, (∀ a ∈ l, P a) → Safe ex w → PrioRel w0 w → Safe ex (l.foldl f w) ∧ PrioRel w0 (l.foldl f w) := by
  induction l with
  | nil => intro w _ h hr; exact ⟨h, hr⟩
  | cons a l ih =>
    intro w hP h hr
    obtain ⟨h1, h2⟩ := hf w a List.mem_cons_self (hP a List.mem_cons_self) h hr
    exact ih (fun w b hb => hf w b (List.mem_cons_of_mem _ hb)) (fun b hb => hP b (List.mem_cons_of_mem _ hb)) h1 h2

theorem prioAwaitStep_held (q : Pid) (v : Int) (w : World) (a : Await) (z : Pid) :
    ((S3.prioAwaitStep q v w a).proc z).held = (w.proc z).held := by
  cases a with
  | time k => simp only [S3.prioAwaitStep]; split <;> first | rfl | simp
  | guard g =>
    simp only [S3.prioAwaitStep, S3.reprioGuard]
    repeat' split
    all_goals first | rfl | simp
  | proc _ => rfl
  | event _ => rfl

theorem SafeR.prioSet (h : Safe ex w) (q : Pid) (v : Int) (hpre : PrioPre w q) : SafeR ex (execCmd w p (.prioSet q v)) := by
  by_cases hq : q < w.procs.size
  · rw [prioSet_eq w p q v hq]
    dsimp only
    refine SafeR.ret ?_ _ _
    have h1 : Safe ex (w.modProc q fun y => { y with prio := v }) := by safe
    have hr1 : PrioRel w (w.modProc q fun y => { y with prio := v }) := ⟨fun _ => rfl, fun _ x hx => ⟨x, hx, fun _ => Iff.rfl⟩⟩
    have haw : ((w.modProc q fun y => { y with prio := v }).proc q).awaits = (w.proc q).awaits := by
      rw [S3.modProc_proc_self w _ hq]
    have hheld1 : ((w.modProc q fun y => { y with prio := v }).proc q).held = (w.proc q).held := by
      rw [S3.modProc_proc_self w _ hq]
    obtain ⟨h2, hr2⟩ := foldl_safe_rel (f := S3.prioAwaitStep q v) (w0 := w) _
      (fun a => ∀ k, a = .time k → isScheduled w.ev k = true)
      (fun w' a _ hP h' hr' => h'.prioAwaitStep hr' q v a hP)
      (fun a ha k hk => hpre.timers k (by rw [← haw, ← hk]; exact ha)) h1 hr1
    have hheld2 : (((((w.modProc q fun y => { y with prio := v }).proc q).awaits.foldl (S3.prioAwaitStep q v)
        (w.modProc q fun y => { y with prio := v }))).proc q).held = (w.proc q).held := by
      rw [← hheld1]
      exact foldl_keeps_proc (fun x => x.held) q _ (fun w a => prioAwaitStep_held q v w a q) _ _
    exact (foldl_safe_rel (f := S3.prioHeldStep q v) (w0 := w) _
      (fun a => ∀ pl x, a = .pool pl → w.pools[pl]? = some x → q + 1 ∈ keys (abs x.holders))
      (fun w' a _ hP h' hr' => h'.prioHeldStep hr' q v a hP)
      (fun a ha pl x hk hx => hpre.pools pl x (by rw [← hheld2, ← hk]; exact ha) hx) h2 hr2).1
  · have : q ≥ w.procs.size := Nat.le_of_not_lt hq
    simp only [Sim.execCmd, this, if_true]
    exact SafeR.skip h


/-! ### the other commands -/

theorem modify_get_holder {w : World} {r : Nat} {y : Res}
    (hy : (w.res.modify r fun y => { y with holder := none })[r]? = some y) : y.holder = none := by
  simp only [Array.getElem?_modify, if_true] at hy
  cases hx : w.res[r]? with
  | none => rw [hx] at hy; cases hy
  | some x => rw [hx] at hy; simp only [Option.map_some, Option.some.injEq] at hy; rw [← hy]

theorem pqPosition_pos {x : PQ} {h : Nat} (hwf : WF compare_func x.queue) (hp : ¬ pqPosition x h = 0) : h ∈ keys (abs x.queue) := by
  unfold pqPosition at hp
  split at hp
  · exact absurd rfl hp
  · obtain ⟨i, hi⟩ := findIndex_total hwf h
    rw [hi] at hp
    have : i ≠ 0 := by intro e; subst e; exact hp rfl
    exact (hh_findIndex hwf h hi).1 this

theorem SafeR.poolRelease (h : Safe ex w) (pl n : Nat) : SafeR ex (execCmd w p (.poolRelease pl n)) := by
  simp only [Sim.execCmd]
  split
  · exact SafeR.skip h
  · rename_i x hx
    obtain ⟨hwf, hkb⟩ := h.hq pl x hx
    split
    · exact SafeR.skip h
    · rename_i hn
      refine SafeR.ret ?_ _ _
      apply Safe.signal
      apply Safe.recordPool
      apply Safe.setPoolInUse
      split
      · obtain ⟨h', hrun, hwf', hperm, _⟩ := HashHeap.remove_abs hwf (p + 1) (by omega)
        rw [hrun]
        dsimp only
        apply Safe.removeHeld_fst
        exact h.setHolders pl x hx _ rfl hwf' (fun k hk => hkb k (keys_sub_of_remove hperm hk))
      · apply h.setHeldAmount
        intro y hy
        rw [hx] at hy; cases hy
        exact heldAmount_pos hx hwf (by omega)

theorem SafeR.preempt (h : Safe (isKey p) w) (hp : p < w.procs.size) (r : Nat) : SafeR (isKey p) (execCmd w p (.preempt r)) := by
  simp only [Sim.execCmd]
  split
  · exact SafeR.skip h
  · rename_i x hx
    split
    · exact SafeR.skip h
    · split
      · rename_i hnone
        refine SafeR.ret (Safe.recordRes (h.grab r p (fun y hy => ?_)) r) _ _
        rw [hx] at hy; cases hy; exact hnone
      · rename_i victim hv
        split
        · refine SafeR.ret ?_ _ _
          apply Safe.grab
          · apply Safe.sched_now
            safe
          · intro y hy
            have : ((cancelAwaiteds (removeHeld w victim (HoldRef.res r)).1 victim).res.modify r fun y => { y with holder := none })[r]? = some y := by
              simpa using hy
            exact modify_get_holder (w := cancelAwaiteds (removeHeld w victim (HoldRef.res r)).1 victim) this
        · exact SafeR.acquireStep h hp r (lt_of_getElem? hx)

theorem setRecording_safe (h : Safe ex w) (kind idx : Nat) (on : Bool) : Safe ex (setRecording w kind idx on) := by
  unfold setRecording
  split <;> (repeat' split) <;> safe

theorem SafeR.execCmd (h : Safe (isKey p) w) (hp : p < w.procs.size) (c : Cmd) (hs : CmdSafe w c) (hpre : CmdPre w c) :
    SafeR (isKey p) (execCmd w p c) := by
  cases c with
  | hold d =>
    simp only [Sim.execCmd]
    exact SafeR.block (h.timerAdd_fst p d sigSuccess hs).nf _
  | yield => simp only [Sim.execCmd]; exact SafeR.block h.nf _
  | timerAdd v d sig =>
    simp only [Sim.execCmd]
    exact SafeR.ret ((h.timerAdd_fst p d sig hs).setVar _ _ _) _ _
  | timerSet v d sig =>
    simp only [Sim.execCmd]
    exact SafeR.ret (((h.timersClear p).timerAdd_fst p d sig hs).setVar _ _ _) _ _
  | timerCancel v =>
    simp only [Sim.execCmd]
    split
    · exact SafeR.skip h
    · exact SafeR.ret (h.timerCancel_fst _ _) _ _
  | timersClear => simp only [Sim.execCmd]; exact SafeR.ret (h.timersClear p) _ _
  | timersClearOf q =>
    simp only [Sim.execCmd]
    split
    · exact SafeR.skip h
    · exact SafeR.ret (h.timersClear q) _ _
  | timerAddOf q d sig =>
    simp only [Sim.execCmd]
    split
    · exact SafeR.skip h
    · exact SafeR.ret (h.timerAdd_fst q d sig hs) _ _
  | resume q sig =>
    simp only [Sim.execCmd]
    split
    · exact SafeR.skip h
    · exact SafeR.ret (h.sched_now _ _ _ _) _ _
  | interrupt q sig pri =>
    simp only [Sim.execCmd]
    split
    · exact SafeR.skip h
    · exact SafeR.ret (h.sched_now _ _ _ _) _ _
  | stop q val =>
    simp only [Sim.execCmd]
    split
    · exact SafeR.ended (h.finishProc _ _ _)
    · split
      · exact SafeR.ret (h.finishProc _ _ _) _ _
      · exact SafeR.ret h _ _
  | start q =>
    simp only [Sim.execCmd]
    split
    · exact SafeR.skip h
    · exact SafeR.ret (h.sched_now _ _ _ _) _ _
  | exit val => simp only [Sim.execCmd]; exact SafeR.ended (h.finishProc _ _ _)
  | prioSet q v => exact SafeR.prioSet h q v hpre
  | waitProc q =>
    simp only [Sim.execCmd]
    split
    · exact SafeR.skip h
    · split
      · exact SafeR.ret h _ _
      · refine SafeR.block ?_ _
        exact (((h.addAwait p (.proc q)).modProc q _ (fun _ => rfl))).nf
  | schedUser v d pri =>
    simp only [Sim.execCmd]
    have hd : 0 ≤ d := hs
    exact SafeR.ret ((h.sched_ge _ _ _ _ _ (by simp only [World.now]; omega)).setVar _ _ _) _ _
  | cancelUser v =>
    simp only [Sim.execCmd]
    split
    · exact SafeR.skip h
    · exact SafeR.ret (h.evCancel_fst _) _ _
  | cancelUserAll =>
    simp only [Sim.execCmd]
    exact SafeR.ret h.cancelUserAll_fst _ _
  | waitEvent v =>
    simp only [Sim.execCmd]
    split
    · exact SafeR.skip h
    · refine SafeR.block ?_ _
      exact ((h.setEvWaiters _).addAwait p _).nf
  | acquire r => simp only [Sim.execCmd]; exact SafeR.acquireStep h hp r hs
  | preempt r => exact SafeR.preempt h hp r
  | release r =>
    simp only [Sim.execCmd]
    split
    · exact SafeR.skip h
    · rename_i x hx
      split
      · exact SafeR.skip h
      · refine SafeR.ret ?_ _ _
        safe
  | poolAcquire pl n =>
    simp only [Sim.execCmd]
    split
    · exact SafeR.skip h
    · rename_i x hx
      split
      · exact SafeR.skip h
      · exact SafeR.poolLoop h hp pl n _ false (lt_of_getElem? hx)
  | poolPreempt pl n =>
    simp only [Sim.execCmd]
    split
    · exact SafeR.skip h
    · rename_i x hx
      split
      · exact SafeR.skip h
      · exact SafeR.poolLoop h hp pl n _ true (lt_of_getElem? hx)
  | poolRelease pl n => exact SafeR.poolRelease h pl n
  | bufGet b n =>
    simp only [Sim.execCmd]
    split
    · exact SafeR.skip h
    · exact SafeR.bufGetLoop h hp b n 0 (by omega)
  | bufPut b n =>
    simp only [Sim.execCmd]
    split
    · exact SafeR.skip h
    · exact SafeR.bufPutLoop h hp b n n (by omega)
  | oqGet q =>
    simp only [Sim.execCmd]
    split
    · exact SafeR.skip h
    · exact SafeR.oqGetLoop h hp q (by omega)
  | oqPut q obj =>
    simp only [Sim.execCmd]
    split
    · exact SafeR.skip h
    · exact SafeR.oqPutLoop h hp q obj (by omega)
  | pqGet k =>
    simp only [Sim.execCmd]
    split
    · exact SafeR.skip h
    · exact SafeR.pqGetLoop h hp k (by omega) hpre
  | pqPut k obj pri v =>
    simp only [Sim.execCmd]
    split
    · exact SafeR.skip h
    · exact SafeR.pqPutLoop h hp k obj pri v (by omega) hpre
  | pqCancel k v =>
    simp only [Sim.execCmd]
    split
    · exact SafeR.skip h
    · rename_i x hx
      split
      · exact SafeR.skip h
      · rename_i h0
        obtain ⟨q', hrun, _⟩ := HashHeap.remove_abs (hpre x hx) (getVar w p v) h0
        rw [hrun]
        refine SafeR.ret ?_ _ _
        safe
  | pqReprio k v pri =>
    simp only [Sim.execCmd]
    split
    · exact SafeR.skip h
    · rename_i x hx
      split
      · exact SafeR.skip h
      · rename_i hn
        have hm : getVar w p v ∈ keys (abs x.queue) := pqPosition_pos (hpre x hx) (fun e => hn (Or.inr e))
        obtain ⟨q', hrun, _⟩ := HashHeap.reprio_abs (hpre x hx) hm 0 pri
        rw [hrun]
        refine SafeR.ret ?_ _ _
        safe
  | pqPos k v =>
    simp only [Sim.execCmd]
    repeat' split
    all_goals first | exact SafeR.skip h | exact SafeR.ret h _ _
  | condWait c kind a b =>
    simp only [Sim.execCmd]
    split
    · exact SafeR.skip h
    · rename_i g hg
      exact SafeR.block (guardWaitEnter_nf h g (h.st.gex.conds c g hg) hp _) _
  | condSignal c =>
    simp only [Sim.execCmd]
    split
    · exact SafeR.skip h
    · exact SafeR.ret (h.condSignal_fst _) _ _
  | condCancel c q =>
    simp only [Sim.execCmd]
    split
    · exact SafeR.skip h
    · split
      · exact SafeR.skip h
      · refine SafeR.ret ?_ _ _
        safe
  | condRemove c q =>
    simp only [Sim.execCmd]
    split
    · exact SafeR.skip h
    · split
      · exact SafeR.skip h
      · refine SafeR.ret ?_ _ _
        safe
  | setFlag k v => simp only [Sim.execCmd]; exact SafeR.ret (h.setFlags _) _ _
  | recStart kind idx => simp only [Sim.execCmd]; exact SafeR.ret (setRecording_safe h _ _ _) _ _
  | recStop kind idx => simp only [Sim.execCmd]; exact SafeR.ret (setRecording_safe h _ _ _) _ _

end CimbaModel.Sim.S4
