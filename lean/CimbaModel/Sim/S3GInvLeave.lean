/-
  S3 — `GInv`, part 6: leaving a guard wait (`guardWithdraw`, `guardWaitLeave`), the epilogues of the guard waits and of hold.
-/
import CimbaModel.Sim.S3GInvEx
import CimbaModel.Sim.S3TInvRun

namespace CimbaModel.Sim.S3
open CimbaModel CimbaModel.Sim CimbaModel.Event CimbaModel.Generated CimbaModel.KPQ
open CimbaModel.HashHeap (HTag Item Order HH WF abs liveTags)

variable {ex : Pid → Prop} {fr : Pid → Option Frame}

theorem kindMatch_res_iff (p : Pid) (e : HTag) (hc : e.item.c < 2 ^ 64) :
    kindMatch p aRes (some sigSuccess) e = true ↔ e.item.b = p + 1 ∧ e.item.a = aRes ∧ e.item.c = 0 := by
  unfold kindMatch
  have : encSig sigSuccess = 0 := by decide
  simp [this, and_assoc]

/-- what a complete signal does, in terms of `queued`: lists only shrink, the only new events are grants (aRes, SUCCESS)
    and — from the condition signal of an observing condition — condition wake-ups (aCond, SUCCESS), for keys that were queued -/
theorem signal_foot {w : World} (hall : AllGWF w) (g : Nat) :
    (∀ g' k, queued (signal w g) g' k → queued w g' k) ∧ (signal w g).procs = w.procs ∧ (signal w g).conds = w.conds ∧
    (∀ e ∈ (signal w g).ev.pending, e ∈ w.ev.pending ∨
      ((e.item.a = aRes ∨ e.item.a = aCond) ∧ e.item.c = 0 ∧ ∃ g', queued w g' e.item.b)) := by
  have hrel := signal_rel w g hall
  refine ⟨?_, hrel.procs, hrel.conds, ?_⟩
  · intro g' k ⟨gd', hg', hk⟩
    have hsz : g' < w.guards.size := by
      rw [← hrel.gsize]
      rcases Nat.lt_or_ge g' (signal w g).guards.size with h | h
      · exact h
      · rw [Array.getElem?_eq_none h] at hg'; cases hg'
    obtain ⟨gd'', hg'', _, _, _, _, hsub⟩ := hrel.guards g' _ (Array.getElem?_eq_getElem hsz)
    rw [hg'] at hg''; cases hg''
    exact ⟨_, Array.getElem?_eq_getElem hsz, keys_subset_of_subset hsub hk⟩
  · intro e he
    obtain ⟨new, hp, _, hgr⟩ := hrel.pending
    rw [hp] at he
    rcases List.mem_append.1 he with he | he
    · right
      rcases hgr e he with ⟨g', gd, gd', hgd, _, hin, _, _, _, heq, _⟩ | ⟨g', gd, gd', hgd, _, hin, _, _, _, heq, _⟩
      · exact ⟨Or.inl (by rw [heq]; rfl), by rw [heq]; rfl, g', gd, hgd, hin⟩
      · exact ⟨Or.inr (by rw [heq]; rfl), by rw [heq]; rfl, g', gd, hgd, hin⟩
    · exact Or.inl he

/-- what `guardWithdraw` does -/
theorem guardWithdraw_foot {w : World} (hall : AllGWF w) (hi : EvInv w.ev) (hcl : ∀ e ∈ w.ev.pending, e.item.c < 2 ^ 64)
    (g : Nat) (p : Pid) (hnq : ∀ g', g' ≠ g → ¬ queued w g' (p + 1)) :
    (∀ g' k, queued (guardWithdraw w g p) g' k → queued w g' k) ∧ ¬ queued (guardWithdraw w g p) g (p + 1) ∧
    (guardWithdraw w g p).procs = w.procs ∧
    (∀ e ∈ (guardWithdraw w g p).ev.pending, e ∈ w.ev.pending ∨ e.item.a = aEvent ∨
      ((e.item.a = aRes ∨ e.item.a = aCond) ∧ e.item.c = 0 ∧ e.item.b ≠ p + 1)) ∧
    (¬ queued w g (p + 1) → ∀ e ∈ (guardWithdraw w g p).ev.pending, e.item.a = aRes → e.item.c = 0 → e.item.b ≠ p + 1) := by
  -- the part after the removal attempt has failed
  have tail : ¬ queued w g (p + 1) →
      let w1 := (cancelKindFor w p aRes (some sigSuccess)).1
      let w2 := if (cancelKindFor w p aRes (some sigSuccess)).2 > 0 then signal w1 g else w1
      (∀ g' k, queued w2 g' k → queued w g' k) ∧ w2.procs = w.procs ∧
      (∀ e ∈ w2.ev.pending, e ∈ w.ev.pending ∨ e.item.a = aEvent ∨
        ((e.item.a = aRes ∨ e.item.a = aCond) ∧ e.item.c = 0 ∧ e.item.b ≠ p + 1)) ∧
      (∀ e ∈ w2.ev.pending, e.item.a = aRes → e.item.c = 0 → e.item.b ≠ p + 1) := by
    intro hnqg
    obtain ⟨hrel, hgone, _, _⟩ := cancelKindFor_spec w p aRes (some sigSuccess) hi
    have hall1 : AllGWF (cancelKindFor w p aRes (some sigSuccess)).1 := by
      intro g' gd' h'; rw [hrel.guards] at h'; exact hall g' gd' h'
    have hq1 : ∀ g' k, queued (cancelKindFor w p aRes (some sigSuccess)).1 g' k ↔ queued w g' k :=
      fun g' k => queued_congr hrel.guards g' k
    have hnotq : ∀ g', ¬ queued w g' (p + 1) := by
      intro g'
      by_cases hg' : g' = g
      · subst hg'; exact hnqg
      · exact hnq g' hg'
    -- events of the cancelled world
    have hev1 : ∀ e ∈ (cancelKindFor w p aRes (some sigSuccess)).1.ev.pending,
        (e ∈ w.ev.pending ∧ ¬ (e.item.b = p + 1 ∧ e.item.a = aRes ∧ e.item.c = 0)) ∨ e.item.a = aEvent := by
      intro e he
      rcases hrel.pend e he with hold | ⟨_, _, _, _, _, _, heq⟩
      · left
        refine ⟨hold, fun hm => ?_⟩
        have := hgone e he (EvInv.key_le hi hold)
        rw [(kindMatch_res_iff p e (hcl e hold)).2 hm] at this
        cases this
      · right; rw [heq]; rfl
    dsimp only
    split
    · obtain ⟨hsq, hsp, _, hse⟩ := signal_foot hall1 g
      refine ⟨fun g' k h => (hq1 g' k).1 (hsq g' k h), hsp.trans hrel.procs, ?_, ?_⟩
      · intro e he
        rcases hse e he with h | ⟨h1, h2, g', h3⟩
        · rcases hev1 e h with ⟨h', _⟩ | h'
          · exact Or.inl h'
          · exact Or.inr (Or.inl h')
        · refine Or.inr (Or.inr ⟨h1, h2, fun hb => ?_⟩)
          exact hnotq g' ((hq1 g' _).1 (hb ▸ h3))
      · intro e he hea hec hb
        rcases hse e he with h | ⟨_, _, g', h3⟩
        · rcases hev1 e h with ⟨_, h'⟩ | h'
          · exact h' ⟨hb, hea, hec⟩
          · rw [hea] at h'; exact absurd h' (by decide)
        · exact hnotq g' ((hq1 g' _).1 (hb ▸ h3))
    · refine ⟨fun g' k h => (hq1 g' k).1 h, hrel.procs, ?_, ?_⟩
      · intro e he
        rcases hev1 e he with ⟨h', _⟩ | h'
        · exact Or.inl h'
        · exact Or.inr (Or.inl h')
      · intro e he hea hec hb
        rcases hev1 e he with ⟨_, h'⟩ | h'
        · exact h' ⟨hb, hea, hec⟩
        · rw [hea] at h'; exact absurd h' (by decide)
  cases hg : w.guards[g]? with
  | none =>
    have hnqg : ¬ queued w g (p + 1) := fun ⟨gd, h, _⟩ => by rw [hg] at h; cases h
    rw [guardWithdraw_noguard hg]
    obtain ⟨t1, t2, t3, t4⟩ := tail hnqg
    exact ⟨t1, fun h => hnqg (t1 g _ h), t2, t3, fun _ => t4⟩
  | some gd =>
    have hwf := hall g gd hg
    by_cases hk : p + 1 ∈ keys (abs gd.q)
    · obtain ⟨q', hwf', hperm, heq⟩ := guardWithdraw_queued hg hwf hk
      rw [heq]
      have hqs : ∀ g' k, queued (setGuardQ w g q') g' k → queued w g' k := by
        intro g' k h
        rw [queued_setGuardQ hg] at h
        split at h
        · rename_i hgg; subst hgg
          obtain ⟨e, he, rfl⟩ := Event.mem_keys.1 h
          exact ⟨gd, hg, Event.mem_keys.2 ⟨e, (mem_remove.1 (hperm.mem_iff.1 he)).1, rfl⟩⟩
        · exact h
      refine ⟨hqs, ?_, rfl, fun e he => Or.inl he, fun hnqg => absurd ⟨gd, hg, hk⟩ hnqg⟩
      rw [queued_setGuardQ hg, if_pos rfl]
      intro hm
      obtain ⟨e, he, hek⟩ := Event.mem_keys.1 hm
      exact (mem_remove.1 (hperm.mem_iff.1 he)).2 hek
    · have hnqg : ¬ queued w g (p + 1) := fun ⟨gd', h, hk'⟩ => by rw [hg] at h; cases h; exact hk hk'
      rw [guardWithdraw_granted hg hwf hk]
      obtain ⟨t1, t2, t3, t4⟩ := tail hnqg
      exact ⟨t1, fun h => hnqg (t1 g _ h), t2, t3, fun _ => t4⟩


theorem frameOn_fun {w : World} {f : Frame} {g g' : Nat} (h : FrameOn w f g) (h' : FrameOn w f g') : g = g' := by
  cases f <;> simp only [FrameOn] at h h' <;> first | (rw [h] at h'; exact Option.some.inj h') | exact h.elim

/-- an exempt process forgets its RESOURCE awaitable -/
theorem GInv.removeGuardAwaitEx {w : World} {p : Pid} (hp : GInv (exAdd ex p) fr w) (g : Nat)
    (haw : guardAw w p = [] ∨ guardAw w p = [.guard g]) : GInv (exAdd ex p) fr (removeAwait w p (.guard g)).1 := by
  rw [removeAwait_fst_eq]
  have hpr : ∀ x, x ≠ p → (w.modProc p fun x => { x with awaits := (removeFirst x.awaits (.guard g)).1 }).proc x = w.proc x :=
    fun x hx => modProc_proc_ne w _ hx
  have hgp : guardAw (w.modProc p fun x => { x with awaits := (removeFirst x.awaits (.guard g)).1 }) p = [] := by
    unfold guardAw
    rw [modProc_proc]; split
    · rw [removeFirst_filter_self _ _ _ rfl]
      have : (w.proc p).awaits.filter isGuardA = guardAw w p := rfl
      rw [this]
      rcases haw with h | h <;> rw [h] <;> simp [removeFirst]
    · rcases haw with h | h
      · exact h
      · -- p does not exist: its record is the default one
        rename_i hn
        have hs : ¬ p < w.procs.size := fun hs => hn ⟨rfl, hs⟩
        rw [proc_oob w (Nat.le_of_not_lt hs)]; rfl
  refine { hp with gsz := by simpa using hp.gsz, gk := ?_, ga := ?_, gfb := ?_, gr := ?_ }
  · intro g' k hq
    obtain ⟨h1, h2, h3⟩ := hp.gk g' k hq
    refine ⟨h1, by simpa using h2, fun hx => ?_⟩
    have hkp : k - 1 ≠ p := fun h => hx (Or.inr h)
    rw [hpr _ hkp]; exact h3 hx
  · intro x
    by_cases hx : x = p
    · subst hx; exact Or.inl hgp
    · unfold guardAw; rw [hpr x hx]; exact hp.ga x
  · intro x hx hb
    have hxp : x ≠ p := fun h => hx (Or.inr h)
    unfold guardAw; rw [hpr x hxp] at hb ⊢; exact hp.gfb x hx hb
  · intro e he hgr
    obtain ⟨h1, h2⟩ := hp.gr e he hgr
    refine ⟨h1, fun hx => ?_⟩
    have hkp : e.item.b - 1 ≠ p := fun h => hx (Or.inr h)
    obtain ⟨g', h3, h4⟩ := h2 hx
    exact ⟨g', by rw [hpr _ hkp]; exact h3, h4⟩

/-- what `GInv` says about a process suspended in a wait on guard `g` -/
theorem GInv.guardFrame_facts {w : World} (hp : GInv ex fr w) {p : Pid} {f : Frame} {g : Nat} (hx : ¬ ex p)
    (hfr : fr p = some f) (hon : FrameOn w f g) :
    (guardAw w p = [] ∨ guardAw w p = [.guard g]) ∧ (∀ g', queued w g' (p + 1) → g' = g) ∧
    (∀ e ∈ w.ev.pending, isGrant e → e.item.b = p + 1 → ¬ queued w g (p + 1)) ∧
    (∀ e ∈ w.ev.pending, e.item.a = aTime → e.item.c = 0 → e.item.b ≠ p + 1) ∧
    ((∀ c, f ≠ .condWait c) → ∀ e ∈ w.ev.pending, e.item.a = aCond → e.item.b ≠ p + 1) := by
  have hxp : ¬ ex (p + 1 - 1) := by simpa using hx
  have hga : guardAw w p = [] ∨ guardAw w p = [.guard g] := by
    rcases hp.ga p with h | ⟨g', f', h1, h2, h3⟩
    · exact Or.inl h
    · rw [hfr] at h1; cases h1
      rw [frameOn_fun hon h2]; exact Or.inr h3
  have hmem : ∀ g', Await.guard g' ∈ (w.proc p).awaits → g' = g := by
    intro g' h
    rw [mem_awaits_guard] at h
    rcases hga with h' | h'
    · rw [h'] at h; cases h
    · rw [h'] at h; simpa using h
  refine ⟨hga, ?_, ?_, ?_, ?_⟩
  · intro g' hq
    have := (hp.gk g' _ hq).2.2 hxp
    simp only [Nat.add_sub_cancel] at this
    exact hmem g' this
  · intro e he hgr hb hq
    obtain ⟨_, h2⟩ := hp.gr e he hgr
    rw [hb] at h2
    obtain ⟨g', h3, h4⟩ := h2 hxp
    simp only [Nat.add_sub_cancel] at h3
    have := hmem g' h3; subst this
    exact h4 hq
  · intro e he hea hec hb
    obtain ⟨_, h2⟩ := hp.oth e he hea hec
    rw [hb] at h2
    have := h2 hxp
    simp only [Nat.add_sub_cancel] at this
    rw [hfr] at this; cases this
    exact hon.elim
  · intro hnc e he hea hb
    have := hp.gc e he hea (by rw [hb]; exact hxp)
    rw [hb] at this
    simp only [Nat.add_sub_cancel] at this
    obtain ⟨c, hc⟩ := this
    rw [hfr] at hc; cases hc
    exact hnc c rfl


theorem guardAw_removeGuard (w : World) (p : Pid) (g : Nat) (haw : guardAw w p = [] ∨ guardAw w p = [.guard g]) :
    guardAw (removeAwait w p (.guard g)).1 p = [] := by
  rw [removeAwait_fst_eq]
  unfold guardAw
  rw [modProc_proc]; split
  · show ((removeFirst (w.proc p).awaits (.guard g)).1).filter isGuardA = []
    rw [removeFirst_filter_self _ _ _ rfl]
    have : (w.proc p).awaits.filter isGuardA = guardAw w p := rfl
    rw [this]
    rcases haw with h | h <;> rw [h] <;> simp [removeFirst]
  · rename_i hn
    by_cases hsz : p < w.procs.size
    · exact absurd ⟨rfl, hsz⟩ hn
    · rw [proc_oob _ (Nat.le_of_not_lt hsz)]; rfl

/-- the state after `guardWaitLeave`, described relative to the state `w` before the recorded frame was cleared -/
structure Left (w w1 : World) (p : Pid) : Prop where
  aw : guardAw w1 p = []
  nq : ∀ g', ¬ queued w1 g' (p + 1)
  nr : ∀ e ∈ w1.ev.pending, e.item.a = aRes → e.item.c = 0 → e.item.b ≠ p + 1
  nt : ∀ e ∈ w1.ev.pending, e.item.a = aTime → e.item.c = 0 → e.item.b ≠ p + 1
  oc : ∀ e ∈ w1.ev.pending, e.item.a = aCond → e.item.b = p + 1 → e ∈ w.ev.pending

/-- the common part of the epilogues of all guard waits: the recorded frame has been cleared, then `guardWaitLeave` -/
theorem GInv.leaveGuard {w : World} (hp : GInv ex fr w) {p : Pid} {f : Frame} {g : Nat} (hx : ¬ ex p) (hfr : fr p = some f)
    (hon : FrameOn w f g) (sig : Int)
    (hq : sig = sigSuccess → (∀ e ∈ w.ev.pending, isGrant e → e.item.b ≠ p + 1) ∧ ¬ queued w g (p + 1)) :
    GInv (exAdd ex p) fr (guardWaitLeave (w.modProc p fun y => { y with blocked := none }) g p sig) ∧
    Left w (guardWaitLeave (w.modProc p fun y => { y with blocked := none }) g p sig) p := by
  obtain ⟨hga, hq1, hgrq, hnt, _⟩ := hp.guardFrame_facts hx hfr hon
  have hA : GInv (exAdd ex p) fr (w.modProc p fun y => { y with blocked := none }) :=
    (hp.exempt p).modBlocked p none (Or.inl (Or.inr rfl))
  have hgaA : guardAw (w.modProc p fun y => { y with blocked := none }) p = guardAw w p := by
    unfold guardAw; rw [modProc_proc]; split
    · rename_i h; rw [h.1]
    · rfl
  have hqA : ∀ g' k, queued (w.modProc p fun y => { y with blocked := none }) g' k ↔ queued w g' k := fun _ _ => Iff.rfl
  have hevA : (w.modProc p fun y => { y with blocked := none }).ev = w.ev := rfl
  generalize (w.modProc p fun y => { y with blocked := none }) = wA at hA hgaA hqA hevA
  unfold Sim.guardWaitLeave
  by_cases hs : sig ≠ sigSuccess
  · rw [if_pos hs]
    have hnq : ∀ g', g' ≠ g → ¬ queued wA g' (p + 1) := fun g' hne hq' => hne (hq1 g' ((hqA g' _).1 hq'))
    obtain ⟨f1, f2, f3, f4, f5⟩ := guardWithdraw_foot hA.gw hA.ei hA.cl g p hnq
    have hW := hA.guardWithdraw g p
    have hgaW : guardAw (Sim.guardWithdraw wA g p) p = guardAw w p := by
      unfold guardAw; rw [proc_congr f3]; exact hgaA
    generalize Sim.guardWithdraw wA g p = wW at hW hgaW f1 f2 f3 f4 f5
    have hga' : guardAw wW p = [] ∨ guardAw wW p = [.guard g] := by rw [hgaW]; exact hga
    have hevR : (removeAwait wW p (.guard g)).1.ev = wW.ev := by simp [removeAwait]
    have hqR : ∀ g' k, queued (removeAwait wW p (.guard g)).1 g' k ↔ queued wW g' k := fun _ _ => Iff.rfl
    refine ⟨hW.removeGuardAwaitEx g hga', guardAw_removeGuard wW p g hga', ?_, ?_, ?_, ?_⟩
    · intro g' hq'
      have hq'' := (hqR g' _).1 hq'
      by_cases hgg : g' = g
      · subst hgg; exact f2 hq''
      · exact hnq g' hgg (f1 g' _ hq'')
    · intro e he hea hec hb
      rw [hevR] at he
      by_cases hqg : queued w g (p + 1)
      · rcases f4 e he with h | h | ⟨_, _, h⟩
        · rw [hevA] at h; exact hgrq e h (Or.inl ⟨hea, hec⟩) hb hqg
        · rw [hea] at h; exact absurd h (by decide)
        · exact h hb
      · exact f5 (fun h => hqg ((hqA g _).1 h)) e he hea hec hb
    · intro e he hea hec hb
      rw [hevR] at he
      rcases f4 e he with h | h | ⟨h, _, _⟩
      · rw [hevA] at h; exact hnt e h hea hec hb
      · rw [hea] at h; exact absurd h (by decide)
      · rw [hea] at h; rcases h with h | h <;> exact absurd h (by decide)
    · intro e he hea hb
      rw [hevR] at he
      rcases f4 e he with h | h | ⟨_, _, h⟩
      · rw [hevA] at h; exact h
      · rw [hea] at h; exact absurd h (by decide)
      · exact absurd hb h
  · have hs' : sig = sigSuccess := Classical.byContradiction hs
    rw [if_neg hs]
    obtain ⟨hq2, hq3⟩ := hq hs'
    have hga' : guardAw wA p = [] ∨ guardAw wA p = [.guard g] := by rw [hgaA]; exact hga
    have hevR : (removeAwait wA p (.guard g)).1.ev = w.ev := by rw [← hevA]; simp [removeAwait]
    refine ⟨hA.removeGuardAwaitEx g hga', guardAw_removeGuard wA p g hga', ?_, ?_, ?_, ?_⟩
    · intro g' hq'
      have hq'' : queued w g' (p + 1) := (hqA g' _).1 hq'
      have := hq1 g' hq''; subst this
      exact hq3 hq''
    · intro e he hea hec hb
      rw [hevR] at he
      exact hq2 e he (Or.inl ⟨hea, hec⟩) hb
    · intro e he; rw [hevR] at he; exact hnt e he
    · intro e he _ _; rw [hevR] at he; exact he


theorem kindMatch_cond_iff (p : Pid) (e : HTag) : kindMatch p aCond none e = true ↔ e.item.b = p + 1 ∧ e.item.a = aCond := by
  unfold kindMatch; simp

/-- after the epilogue of a guard wait other than `cond_wait`: the invariant holds again with the process not suspended -/
theorem GInv.left_plain {w : World} (hp : GInv ex fr w) {p : Pid} {f : Frame} {g : Nat} (hx : ¬ ex p) (hfr : fr p = some f)
    (hon : FrameOn w f g) (hnc : ∀ c, f ≠ .condWait c) (sig : Int)
    (hq : sig = sigSuccess → (∀ e ∈ w.ev.pending, isGrant e → e.item.b ≠ p + 1) ∧ ¬ queued w g (p + 1)) :
    GInv ex (setFrame fr p none) (guardWaitLeave (w.modProc p fun y => { y with blocked := none }) g p sig) := by
  obtain ⟨h1, hl⟩ := hp.leaveGuard hx hfr hon sig hq
  obtain ⟨_, _, _, _, hncond⟩ := hp.guardFrame_facts hx hfr hon
  have hc : Clean (guardWaitLeave (w.modProc p fun y => { y with blocked := none }) g p sig) p := by
    refine ⟨hl.aw, hl.nq, ?_, hl.nt⟩
    intro e he hgr hb
    rcases hgr with ⟨h1', h2'⟩ | h1'
    · exact hl.nr e he h1' h2' hb
    · exact hncond hnc e (hl.oc e he h1' hb) h1' hb
  exact (h1.unexempt_clean hc).setFr_clean hc none

/-- … and of `cond_wait`, which additionally withdraws a condition wake-up that is already pending -/
theorem GInv.left_cond {w : World} (hp : GInv ex fr w) {p : Pid} {c g : Nat} (hx : ¬ ex p) (hfr : fr p = some (.condWait c))
    (hon : w.conds[c]? = some g) (sig : Int)
    (hq : sig = sigSuccess → (∀ e ∈ w.ev.pending, isGrant e → e.item.b ≠ p + 1) ∧ ¬ queued w g (p + 1)) :
    GInv ex (setFrame fr p none)
      (if sig ≠ sigSuccess then
        (cancelKindFor (guardWaitLeave (w.modProc p fun y => { y with blocked := none }) g p sig) p aCond none).1
       else guardWaitLeave (w.modProc p fun y => { y with blocked := none }) g p sig) := by
  obtain ⟨h1, hl⟩ := hp.leaveGuard hx hfr (f := .condWait c) hon sig hq
  generalize guardWaitLeave (w.modProc p fun y => { y with blocked := none }) g p sig = w1 at h1 hl
  by_cases hs : sig ≠ sigSuccess
  · rw [if_pos hs]
    obtain ⟨hrel, hgone, _, _⟩ := cancelKindFor_spec w1 p aCond none h1.ei
    have h2 := h1.cancelKindFor_fst p aCond none
    have hc : Clean (cancelKindFor w1 p aCond none).1 p := by
      have hev : ∀ e ∈ (cancelKindFor w1 p aCond none).1.ev.pending, e ∈ w1.ev.pending ∨ e.item.a = aEvent := by
        intro e he
        rcases hrel.pend e he with h | ⟨_, _, _, _, _, _, heq⟩
        · exact Or.inl h
        · right; rw [heq]; rfl
      refine ⟨?_, ?_, ?_, ?_⟩
      · unfold guardAw; rw [hrel.proc]; exact hl.aw
      · intro g' hq'; exact hl.nq g' ((queued_congr hrel.guards g' _).1 hq')
      · intro e he hgr hb
        rcases hev e he with h | h
        · rcases hgr with ⟨h1', h2'⟩ | h1'
          · exact hl.nr e h h1' h2' hb
          · have := hgone e he (EvInv.key_le h1.ei h)
            rw [(kindMatch_cond_iff p e).2 ⟨hb, h1'⟩] at this; cases this
        · rcases hgr with ⟨h1', _⟩ | h1' <;> rw [h] at h1' <;> exact absurd h1' (by decide)
      · intro e he hea hec hb
        rcases hev e he with h | h
        · exact hl.nt e h hea hec hb
        · rw [hea] at h; exact absurd h (by decide)
    exact (h2.unexempt_clean hc).setFr_clean hc none
  · rw [if_neg hs]
    have hs' : sig = sigSuccess := Classical.byContradiction hs
    obtain ⟨hq2, _⟩ := hq hs'
    have hc : Clean w1 p := by
      refine ⟨hl.aw, hl.nq, ?_, hl.nt⟩
      intro e he hgr hb
      rcases hgr with ⟨h1', h2'⟩ | h1'
      · exact hl.nr e he h1' h2' hb
      · exact hq2 e (hl.oc e he h1' hb) (Or.inr h1') hb
    exact (h1.unexempt_clean hc).setFr_clean hc none

/-- a process whose frame names a missing object (or any process without RESOURCE awaitable that is not in a hold) is
    clean -/
theorem GInv.clean_of_aw {w : World} (hp : GInv ex fr w) {p : Pid} (hx : ¬ ex p) (haw : guardAw w p = [])
    (hnh : ∀ h, fr p ≠ some (.hold h)) : Clean w p := by
  have hxp : ¬ ex (p + 1 - 1) := by simpa using hx
  refine ⟨haw, ?_, ?_, ?_⟩
  · intro g hq
    have := (hp.gk g _ hq).2.2 hxp
    simp only [Nat.add_sub_cancel] at this
    rw [mem_awaits_guard, haw] at this; cases this
  · intro e he hgr hb
    obtain ⟨_, h2⟩ := hp.gr e he hgr
    rw [hb] at h2
    obtain ⟨g, h3, _⟩ := h2 hxp
    simp only [Nat.add_sub_cancel] at h3
    rw [mem_awaits_guard, haw] at h3; cases h3
  · intro e he hea hec hb
    obtain ⟨_, h2⟩ := hp.oth e he hea hec
    rw [hb] at h2
    have := h2 hxp
    simp only [Nat.add_sub_cancel] at this
    exact hnh _ this

/-- the epilogue of `hold`: resumed with anything but SUCCESS the hold cancels its own timer; resumed with SUCCESS (which
    only its own timer does, see `Quiet`) there is nothing left -/
theorem GInv.resume_hold {w : World} (hp : GInv ex fr w) {p : Pid} {h : Nat} (hx : ¬ ex p) (hfr : fr p = some (.hold h))
    (sig : Int) (hq : sig = sigSuccess → ∀ e ∈ w.ev.pending, e.item.a = aTime → e.item.c = 0 → e.item.b ≠ p + 1) :
    GInv ex (setFrame fr p none) (resumeFrame (w.modProc p fun y => { y with blocked := none }) p (.hold h) sig).1 := by
  have hxp : ¬ ex (p + 1 - 1) := by simpa using hx
  have haw : guardAw w p = [] := by
    rcases hp.ga p with h' | ⟨g, f, h1, h2, _⟩
    · exact h'
    · rw [hfr] at h1; cases h1; exact h2.elim
  -- guard-wise the process is clean; only its own timer may be pending
  have hnq : ∀ g, ¬ queued w g (p + 1) := by
    intro g hq'
    have := (hp.gk g _ hq').2.2 hxp
    simp only [Nat.add_sub_cancel] at this
    rw [mem_awaits_guard, haw] at this; cases this
  have hng : ∀ e ∈ w.ev.pending, isGrant e → e.item.b ≠ p + 1 := by
    intro e he hgr hb
    obtain ⟨_, h2⟩ := hp.gr e he hgr
    rw [hb] at h2
    obtain ⟨g, h3, _⟩ := h2 hxp
    simp only [Nat.add_sub_cancel] at h3
    rw [mem_awaits_guard, haw] at h3; cases h3
  have hkey : ∀ e ∈ w.ev.pending, e.item.a = aTime → e.item.c = 0 → e.item.b = p + 1 → e.key = h := by
    intro e he hea hec hb
    obtain ⟨_, h2⟩ := hp.oth e he hea hec
    rw [hb] at h2
    have := h2 hxp
    simp only [Nat.add_sub_cancel] at this
    rw [hfr] at this; cases this; rfl
  have hA : GInv (exAdd ex p) fr (w.modProc p fun y => { y with blocked := none }) :=
    (hp.exempt p).modBlocked p none (Or.inl (Or.inr rfl))
  have hgaA : guardAw (w.modProc p fun y => { y with blocked := none }) p = [] := by
    unfold guardAw; rw [modProc_proc]; split
    · rename_i h'; rw [h'.1]; exact haw
    · exact haw
  have hevA : (w.modProc p fun y => { y with blocked := none }).ev = w.ev := rfl
  have hqA : ∀ g' k, queued (w.modProc p fun y => { y with blocked := none }) g' k ↔ queued w g' k := fun _ _ => Iff.rfl
  generalize (w.modProc p fun y => { y with blocked := none }) = wA at hA hgaA hevA hqA
  simp only [resumeFrame]
  by_cases hs : sig ≠ sigSuccess
  · rw [if_pos hs]
    -- timerCancel, then the TIME awaitable once more
    have h1 : GInv (exAdd ex p) fr (removeAwait wA p (.time h)).1 := hA.removeAwait_other p _ rfl
    have h2 := h1.evCancel_fst h
    have hrel := evCancel_rel (removeAwait wA p (.time h)).1 h
    have hev1 : (removeAwait wA p (.time h)).1.ev = w.ev := by rw [← hevA]; simp [removeAwait]
    have hnot : h ∉ keys (evCancel (removeAwait wA p (.time h)).1 h).1.ev.pending :=
      evCancel_not_pending _ h (by rw [hev1]; exact hp.ei)
    have h3 : GInv (exAdd ex p) fr (removeAwait (timerCancel wA p h).1 p (.time h)).1 := by
      simp only [Sim.timerCancel]; exact h2.removeAwait_other p _ rfl
    have hc : Clean (removeAwait (timerCancel wA p h).1 p (.time h)).1 p := by
      have hprocs : ∀ x, ((removeAwait (timerCancel wA p h).1 p (.time h)).1.proc x).awaits.filter isGuardA =
          (wA.proc x).awaits.filter isGuardA := by
        intro x
        rw [removeAwait_fst_eq, modProc_proc]
        have hT : (timerCancel wA p h).1.proc x = (removeAwait wA p (.time h)).1.proc x := by
          simp only [Sim.timerCancel]; exact hrel.proc x
        split
        · rename_i hx'
          rw [hx'.1] at hT ⊢
          show ((removeFirst ((timerCancel wA p h).1.proc p).awaits (.time h)).1).filter isGuardA = _
          rw [removeFirst_filter_ne _ _ _ rfl, hT, removeAwait_fst_eq, modProc_proc]
          split
          · show ((removeFirst (wA.proc p).awaits (.time h)).1).filter isGuardA = _
            rw [removeFirst_filter_ne _ _ _ rfl]
          · rfl
        · rw [hT, removeAwait_fst_eq, modProc_proc]
          split
          · rename_i hx'
            rw [hx'.1]
            show ((removeFirst (wA.proc p).awaits (.time h)).1).filter isGuardA = _
            rw [removeFirst_filter_ne _ _ _ rfl]
          · rfl
      have hguards : (removeAwait (timerCancel wA p h).1 p (.time h)).1.guards = wA.guards := by
        have e1 : (removeAwait (timerCancel wA p h).1 p (.time h)).1.guards = (timerCancel wA p h).1.guards := by
          simp [removeAwait]
        have e2 : (timerCancel wA p h).1.guards = (removeAwait wA p (.time h)).1.guards := by
          simp only [Sim.timerCancel]; exact hrel.guards
        have e3 : (removeAwait wA p (.time h)).1.guards = wA.guards := by simp [removeAwait]
        rw [e1, e2, e3]
      have hevF : (removeAwait (timerCancel wA p h).1 p (.time h)).1.ev = (evCancel (removeAwait wA p (.time h)).1 h).1.ev := by
        simp only [removeAwait, Sim.timerCancel, modProc_ev]
      have hold : ∀ e ∈ (removeAwait (timerCancel wA p h).1 p (.time h)).1.ev.pending, e ∈ w.ev.pending ∨ e.item.a = aEvent := by
        intro e he
        rw [hevF] at he
        rcases hrel.pend e he with h' | ⟨_, _, _, _, _, _, heq⟩
        · rw [hev1] at h'; exact Or.inl h'
        · right; rw [heq]; rfl
      refine ⟨?_, ?_, ?_, ?_⟩
      · unfold guardAw; rw [hprocs]; exact hgaA
      · intro g hq'
        exact hnq g ((hqA g _).1 ((queued_congr hguards g _).1 hq'))
      · intro e he hgr hb
        rcases hold e he with h' | h'
        · exact hng e h' hgr hb
        · rcases hgr with ⟨h1', _⟩ | h1' <;> rw [h'] at h1' <;> exact absurd h1' (by decide)
      · intro e he hea hec hb
        rcases hold e he with h' | h'
        · have hk := hkey e h' hea hec hb
          rw [hevF] at he
          exact hnot (Event.mem_keys.2 ⟨e, he, hk⟩)
        · rw [hea] at h'; exact absurd h' (by decide)
    exact (h3.unexempt_clean hc).setFr_clean hc none
  · rw [if_neg hs]
    have hs' : sig = sigSuccess := Classical.byContradiction hs
    have hc : Clean wA p := ⟨hgaA, fun g hq' => hnq g ((hqA g _).1 hq'), by rw [hevA]; exact hng, by rw [hevA]; exact hq hs'⟩
    exact (hA.unexempt_clean hc).setFr_clean hc none

end CimbaModel.Sim.S3
