/-
  S1 — `Silent` through resumptions, scripts, dispatch and the run loop, together with the three invariants it
  rests on (`HInv`, `WInv`, `DeadRec`).
-/
import CimbaModel.Sim.S1Silent

namespace CimbaModel.Sim
open CimbaModel CimbaModel.Event CimbaModel.Generated
open CimbaModel.HashHeap (HTag Item Order HH)

/-- the four invariants together -/
structure AllInv (w : World) : Prop where
  hold : HInv w
  wait : WInv w
  dead : DeadRec w
  silent : Silent w

theorem tgt_resumeFrame {st : Pid → Status} {w : World} (h : TgtRun st w) (p : Pid) (f : Frame) (sig : Int) :
    TgtRun st (resumeFrame w p f sig).1 := by
  cases f
  all_goals simp only [resumeFrame]
  all_goals tgt_cmd (tgt_closed st) h

theorem silent_of_same {w w' : World} (h : Silent w) (he : w'.ev = w.ev)
    (hst : ∀ q, (w'.proc q).status = (w.proc q).status) : Silent w' :=
  Silent.of_tgt ((tgt_closed _).ev_only h he) hst

/-- one command, all four invariants, and what the next command needs -/
theorem allinv_execCmd {w : World} (h : AllInv w) (p : Pid) (hp : p < w.procs.size)
    (hrun : (w.proc p).status = .running) (hpa : w.pa p = []) (c : Cmd) : AllInv (execCmd w p c).1 :=
  ⟨hinv_execCmd h.hold p hp c, (winv_execCmd h.wait p hp hpa c).1, dr_execCmd h.dead p hrun c,
   silent_execCmd h.silent h.hold h.wait h.dead p hrun c⟩

theorem allinv_of_same {w w' : World} (h : AllInv w) (he : w'.ev = w.ev) (hp : w'.procs = w.procs)
    (hr : ∀ r, w'.rv r = w.rv r) : AllInv w' :=
  ⟨h.hold.of_same hr (fun q r => hcount_congr (fun q => by rw [proc_congr hp]) q r),
   h.wait.of_views' (fun z => pa_congr (fun q => by rw [proc_congr hp]) z) (fun q => by rw [proc_congr hp])
     (fun z _ => by rw [proc_congr hp]) ((wev_closed w).ev_only h.wait.wev he),
   h.dead.of_procs hp, silent_of_same h.silent he (fun q => by rw [proc_congr hp])⟩

/-- stepping the program counter -/
theorem allinv_pc {w : World} (h : AllInv w) (p : Pid) (n : Nat) :
    AllInv (w.modProc p fun y => { y with pc := n }) :=
  ⟨h.hold.of_same (fun r => rfl) (fun q r => by simp),
   h.wait.of_views' (fun z => by simp) (fun q => by simp) (fun z _ => by simp) ((wev_closed w).ev_only h.wait.wev rfl),
   dr_modProc_shrink h.dead p _ ⟨rfl, fun e => e, fun e => e, fun e => e, fun e => e⟩,
   silent_of_same h.silent rfl (fun q => by simp)⟩

theorem allinv_finishProc {w : World} (h : AllInv w) (z : Pid) (val : Int) (stopped : Bool) :
    AllInv (finishProc w z val stopped) :=
  ⟨hinv_finishProc h.hold z val stopped, (winv_finishProc h.wait z val stopped).1, dr_finishProc h.dead z val stopped,
   silent_finishProc h.silent h.wait h.dead z val stopped⟩

theorem allinv_runScript : ∀ (fuel : Nat) {w : World}, AllInv w → ∀ p,
    (p < w.procs.size → (w.proc p).status = .running) → w.pa p = [] → AllInv (runScript fuel w p) := by
  intro fuel
  induction fuel with
  | zero => intro w h p _ _; unfold runScript; exact allinv_of_same h (by simp) (by simp) (by simp)
  | succ n ih =>
    intro w h p hrun hpa
    unfold runScript
    dsimp only
    split
    · exact allinv_finishProc (allinv_of_same h (by simp) (by simp) (by simp)) p 0 false
    · rename_i c text hc
      have hp : p < w.procs.size := lt_np_of_script w p _ _ hc
      have hrun := hrun hp
      have h1 : AllInv (w.emit s!"c {p} {(w.proc p).pc} {w.now} {text}") :=
        allinv_of_same h (by simp) (by simp) (by simp)
      have hr1 : ((w.emit s!"c {p} {(w.proc p).pc} {w.now} {text}").proc p).status = .running := by simpa using hrun
      have hpa1 : (w.emit s!"c {p} {(w.proc p).pc} {w.now} {text}").pa p = [] := by simpa using hpa
      have h2 := allinv_execCmd h1 p (by simpa using hp) hr1 hpa1 c
      have h3 := execCmd_running _ p hr1 c
      have h4 := (winv_execCmd h1.wait p (by simpa using hp) hpa1 c).2
      split
      · rename_i w2 v extra heq
        rw [heq] at h2 h3 h4
        have hr2 : (w2.proc p).status = .running := h3 (by intro w' e; cases e)
        have hpa2 : w2.pa p = [] := by
          rcases h4 with e | ⟨q, e⟩
          · exact e
          · cases e
        refine ih (allinv_pc (allinv_of_same h2 (by simp) (by simp) (by simp)) p _) p ?_ ?_
        · intro _; simpa using hr2
        · simpa using hpa2
      · rename_i w2 heq
        rw [heq] at h2 h3 h4
        have hr2 : (w2.proc p).status = .running := h3 (by intro w' e; cases e)
        have hpa2 : w2.pa p = [] := by
          rcases h4 with e | ⟨q, e⟩
          · exact e
          · cases e
        refine ih (allinv_pc (allinv_of_same h2 (by simp) (by simp) (by simp)) p _) p ?_ ?_
        · intro _; simpa using hr2
        · simpa using hpa2
      · rename_i w2 heq
        rw [heq] at h2
        exact h2
      · rename_i w2 heq
        rw [heq] at h2
        split <;> exact allinv_of_same h2 (by simp) (by simp) (by simp)

/-- resuming the suspended call of `p` (whatever frame, whatever signal) restores the registration invariant with
    nothing awaited -/
theorem winv_resume_any {w : World} (h : WInv w) (p : Pid) (f : Frame) (hf : (w.proc p).blocked = some f) (sig : Int) :
    WInv (resumeFrame (w.modProc p fun y => { y with blocked := none }) p f sig).1 ∧
    (resumeFrame (w.modProc p fun y => { y with blocked := none }) p f sig).1.pa p = [] := by
  have h0pa : ∀ z, (w.modProc p fun y => { y with blocked := none }).pa z = w.pa z := fun z => by simp
  have h0wt : ∀ z, ((w.modProc p fun y => { y with blocked := none }).proc z).waiters = (w.proc z).waiters :=
    fun z => by simp
  have h0bl : ∀ z, z ≠ p → ((w.modProc p fun y => { y with blocked := none }).proc z).blocked = (w.proc z).blocked :=
    fun z hz => by rw [proc_modProc_ne _ _ _ _ hz]
  by_cases hwp : ∃ q, f = .waitProc q
  · obtain ⟨q, rfl⟩ := hwp
    exact winv_resume_waitProc h p q hf h0pa h0wt h0bl rfl sig
  · have hne : ∀ q, f ≠ .waitProc q := fun q e => hwp ⟨q, e⟩
    have hpa : w.pa p = [] := by
      rcases h.frame p with e | ⟨q, _, b⟩
      · exact e
      · rw [hf] at b; injection b with b; exact absurd b (hne q)
    have h0 : WInv (w.modProc p fun y => { y with blocked := none }) :=
      h.of_views' h0pa h0wt (fun z hz => h0bl z (fun e => hz (e ▸ hpa))) ((wev_closed w).ev_only h.wev rfl)
    have hpa0 : (w.modProc p fun y => { y with blocked := none }).pa p = [] := by rw [h0pa]; exact hpa
    exact ⟨winv_resumeFrame_other h0 p hpa0 f sig hne, by rw [resumeFrame_pa_other _ _ _ _ hne]; exact hpa0⟩

theorem allinv_resumeProc {w : World} (h : AllInv w) (p : Pid) (sig : Int) : AllInv (resumeProc w p sig) := by
  unfold resumeProc
  dsimp only
  split
  · exact allinv_of_same h (by simp) (by simp) (by simp)
  · rename_i hrun
    have hrun : (w.proc p).status = .running := Classical.not_not.1 hrun
    have hp : p < w.procs.size := lt_np_of_status w p (by rw [hrun]; decide)
    split
    · exact allinv_of_same h (by simp) (by simp) (by simp)
    · rename_i f hf
      have hs0 : ∀ q, ((w.modProc p fun y => { y with blocked := none }).proc q).status = (w.proc q).status :=
        fun q => by simp
      have hH := hinv_resumeFrame (w := w.modProc p fun y => { y with blocked := none })
        (h.hold.of_same (fun r => rfl) (fun q r => by simp)) p (by simpa using hp) f sig
      obtain ⟨hW, hpa⟩ := winv_resume_any h.wait p f hf sig
      have hD := dra_resumeFrame (p := p) (w := w.modProc p fun y => { y with blocked := none })
        ⟨dr_modProc_shrink h.dead p _ ⟨rfl, fun e => e, fun e => e, fun e => e, fun _ => rfl⟩, by simpa using hrun⟩ f sig
      have hst : ∀ q, ((resumeFrame (w.modProc p fun y => { y with blocked := none }) p f sig).1.proc q).status
          = (w.proc q).status := fun q => by rw [resumeFrame_status, hs0]
      have hS : Silent (resumeFrame (w.modProc p fun y => { y with blocked := none }) p f sig).1 :=
        Silent.of_tgt (tgt_resumeFrame ((tgt_closed _).ev_only (w' := w.modProc p fun y => { y with blocked := none }) h.silent rfl) p f sig) hst
      have hall : AllInv (resumeFrame (w.modProc p fun y => { y with blocked := none }) p f sig).1 :=
        ⟨hH, hW, hD.1, hS⟩
      split
      · rename_i w2 v extra heq
        rw [heq] at hall hpa hst
        refine allinv_runScript _ (allinv_pc (allinv_of_same hall (by simp) (by simp) (by simp)) p _) p ?_ ?_
        · intro _
          have := hst p
          simp at this ⊢
          rw [this]; exact hrun
        · simpa using hpa
      all_goals (rename_i w2 heq; rw [heq] at hall; exact hall)

/-- **every dispatched event keeps the four invariants** -/
theorem allinv_dispatch {w w' : World} (h : AllInv w) (hd : dispatch w = some w') : AllInv w' := by
  have hH := hinv_dispatch h.hold hd
  have hW := winv_dispatch h.wait h.dead hd
  have hD := dr_dispatch h.dead hd
  refine ⟨hH, hW, hD, ?_⟩
  cases hex : executeNext w.ev with
  | none => unfold dispatch at hd; simp [hex] at hd
  | some x =>
    obtain ⟨t, ev'⟩ := x
    rw [dispatch_eq w t ev' hex] at hd
    injection hd with hd
    subst hd
    obtain ⟨hmem, hpend⟩ := executeNext_spec hex
    -- the four invariants in the world in which the action runs
    have h1H : HInv (afterPop w t ev') := by
      unfold afterPop; exact h.hold.of_same (fun r => by simp) (fun q r => by simp)
    have h1W := (winv_afterPop h.wait t ev' hex).1
    have h1D : DeadRec (afterPop w t ev') := h.dead.of_proc (afterPop_proc w t ev')
    have h1S : Silent (afterPop w t ev') := by
      refine Silent.of_tgt (w := w) ?_ (fun q => by rw [afterPop_proc])
      unfold afterPop
      apply ec_wakeEventWaiters (tgt_closed _) internal_loud.event
      exact (tgt_closed _).ev_only (w := { w with ev := ev' })
        ((tgt_closed _).sub w ev' (by rw [hpend]; exact List.filter_sublist) h.silent) rfl
    have h1 : AllInv (afterPop w t ev') := ⟨h1H, h1W, h1D, h1S⟩
    have hsame : ∀ {v v' : World}, AllInv v → v'.ev = v.ev → (∀ q, (v'.proc q).status = (v.proc q).status) →
        Silent v' := fun hv he hs => silent_of_same hv.silent he hs
    split
    · -- start
      split
      · exact silent_of_same h1S (by simp) (fun q => by simp)
      · rename_i hnr
        have hnr' : (w.proc (t.item.b - 1)).status ≠ .running := by rw [afterPop_proc] at hnr; exact hnr
        have hpa : (afterPop w t ev').pa (t.item.b - 1) = [] := by
          rw [afterPop_pa]; unfold World.pa; rw [(h.dead _ hnr').1]; rfl
        have hstart : AllInv ((afterPop w t ev').modProc (t.item.b - 1) fun y =>
            { y with status := .running, pc := 0, blocked := none }) := by
          refine ⟨h1H.of_same (fun r => rfl) (fun q r => by simp), ?_, dr_modProc_to_alive h1D _ _ (fun x => rfl), ?_⟩
          · exact h1W.of_views' (fun z => by simp) (fun q => by simp)
              (fun z hz => by
                have hzp : z ≠ t.item.b - 1 := fun e => hz (e ▸ hpa)
                rw [proc_modProc_ne _ _ _ _ hzp])
              ((wev_closed _).ev_only h1W.wev rfl)
          · unfold Silent
            refine tgt_mono ((tgt_closed _).ev_only h1S rfl) ?_
            intro q hq
            rw [proc_modProc]; split
            · rfl
            · exact hq
        refine (allinv_runScript _ hstart _ ?_ (by simpa using hpa)).silent
        intro hlt
        rw [proc_modProc_self _ _ _ (by simpa using hlt)]
    · split
      · -- timer
        refine (allinv_resumeProc ?_ _ _).silent
        exact ⟨h1H.of_same (fun r => by simp) (fun q r => by simp),
          h1W.of_views' (fun z => by simp) (fun q => by simp) (fun z _ => by simp)
            ((wev_closed _).ev_only h1W.wev (by simp)),
          dr_removeAwait h1D _ _, silent_of_same h1S (by simp) (fun q => by simp)⟩
      · have hrak : ∀ (k : Await → Bool), WInv (removeAwaitKind (afterPop w t ev') (t.item.b - 1) k).1 →
            AllInv (removeAwaitKind (afterPop w t ev') (t.item.b - 1) k).1 := fun k hk =>
          ⟨h1H.of_same (fun r => by simp) (fun q r => by simp), hk, dr_removeAwaitKind h1D _ _,
            silent_of_same h1S (by simp) (fun q => by simp)⟩
        split
        · -- the end of an awaited process
          rename_i ha
          have h2 := hrak isProcA (winv_pop_proc h.wait t ev' hex ha)
          split
          · exact (allinv_resumeProc h2 _ _).silent
          · exact h2.silent
        · split
          · have h2 := hrak isEventA (winv_removeAwaitKind_other h1W _ _ (fun _ => rfl))
            split
            · exact (allinv_resumeProc h2 _ _).silent
            · exact h2.silent
          · split
            · split
              · exact (allinv_resumeProc h1 _ _).silent
              · exact h1S
            · split
              · have h2 := hrak isGuardA (winv_removeAwaitKind_other h1W _ _ (fun _ => rfl))
                split
                · exact (allinv_resumeProc h2 _ _).silent
                · exact h2.silent
              · split
                · refine (allinv_resumeProc ?_ _ _).silent
                  exact ⟨h1H.of_same (fun r => by simp) (fun q r => by simp), winv_cancelAwaiteds h1W _,
                    dr_cancelAwaiteds h1D _,
                    Silent.of_tgt (w := afterPop w t ev')
                      (ec_cancelAwaiteds (tgt_closed _) internal_loud.event ⟨internal_loud.res, internal_loud.cond⟩ _ _ h1S)
                      (fun q => by simp)⟩
                · split
                  · exact (allinv_resumeProc h1 _ _).silent
                  · exact h1S

theorem allinv_runAll : ∀ (fuel : Nat) {w : World}, AllInv w → AllInv (runAll fuel w) := by
  intro fuel
  induction fuel with
  | zero => intro w h; unfold runAll; exact allinv_of_same h (by simp) (by simp) (by simp)
  | succ n ih =>
    intro w h
    unfold runAll
    split
    · exact h
    · split
      · exact h
      · rename_i w' hd
        exact ih (allinv_dispatch h hd)

end CimbaModel.Sim
