/-
  S2 — resource pools (C07), part 4: exact accounting of acquire, rollback, release, end of process and of one
  preemption step, in terms of `heldOf` (the amount a process holds, = the model's `heldAmount`) and the amount in use.
-/
import CimbaModel.Sim.S2PoolInv
import CimbaModel.Sim.S2PoolFull
import CimbaModel.Sim.Basic

namespace CimbaModel.Sim
open CimbaModel CimbaModel.Event CimbaModel.Generated CimbaModel.KPQ
open CimbaModel.HashHeap (HTag Item Order HH WF abs amounts amountOf)

/-- the amount in use of pool `pl` (0 if there is no such pool) -/
def inUseOf (w : World) (pl : Nat) : Nat :=
  match poolView w pl with
  | some v => v.inUse
  | none => 0

theorem heldAmount_eq_heldOf {w : World} (hi : PoolInv w) (pl : Nat) (p : Pid) : heldAmount w pl p = heldOf w pl p := by
  unfold heldOf
  cases hv : poolView w pl with
  | none =>
    unfold heldAmount
    unfold poolView at hv
    cases hx : w.pools[pl]? with
    | none => rfl
    | some x => rw [hx] at hv; cases hv
  | some v => exact heldAmount_eq hv (hi.2 pl v hv).1.wf p

theorem PSt.inUseOf {w0 w : World} {pl : Nat} {v : PView} (h : PSt w0 w pl v) : inUseOf w pl = v.inUse := by
  unfold Sim.inUseOf; rw [h.upd.view]

theorem heldOf_viewSame {w w' : World} (hs : ViewSame w w') (pl : Nat) (p : Pid) : heldOf w' pl p = heldOf w pl p := by
  unfold heldOf; rw [hs.view]

theorem inUseOf_viewSame {w w' : World} (hs : ViewSame w w') (pl : Nat) : inUseOf w' pl = inUseOf w pl := by
  unfold inUseOf; rw [hs.view]

/-- **acquire / preempt, enough available**: success at once; the caller holds exactly `rem` more, the amount in use
    grows by exactly `rem` -/
theorem poolLoop_direct {w : World} {p : Pid} {pl : Nat} {x : Pool} (hi : PoolInv w) (hp : p < w.procs.size)
    (hx : w.pools[pl]? = some x) (rem ini : Nat) (pre : Bool) (hav : x.cap - x.inUse ≥ rem) (hrem : 0 < rem) :
    (poolLoop w p pl rem ini pre).2 = .ret sigSuccess "" ∧
    heldOf (poolLoop w p pl rem ini pre).1 pl p = heldOf w pl p + rem ∧
    inUseOf (poolLoop w p pl rem ini pre).1 pl = inUseOf w pl + rem := by
  have hv := poolView_of_get hx
  obtain ⟨h2, st3, _, hamt, _⟩ := (((PSt.init hi hv).setInUse (x.inUse + rem)).record pl).update hi.1 hp rem hrem
  have st4 := st3.same (signal_same _ x.guard)
  have e : poolLoop w p pl rem ini pre =
      (signal (poolUpdateRecord (recordPool (setPoolInUse w pl (x.inUse + rem)) pl) pl p rem) x.guard, .ret sigSuccess "") := by
    unfold poolLoop
    simp only [hx, hav, if_true]
  rw [e]
  refine ⟨rfl, ?_, ?_⟩
  · rw [st4.heldOf, (PSt.init hi hv).heldOf]; exact hamt
  · rw [st4.inUseOf, (PSt.init hi hv).inUseOf]; rfl

/-- **acquire (no preemption), not enough available**: the caller takes what is there and waits for the rest -/
theorem poolLoop_partial {w : World} {p : Pid} {pl : Nat} {x : Pool} (hi : PoolInv w) (hp : p < w.procs.size)
    (hx : w.pools[pl]? = some x) (rem ini : Nat) (hav : ¬ x.cap - x.inUse ≥ rem) :
    ∃ w1, poolLoop w p pl rem ini false = block w1 p (.pool pl (rem - (x.cap - x.inUse)) ini false) ∧
      heldOf w1 pl p = heldOf w pl p + (x.cap - x.inUse) ∧
      inUseOf w1 pl = inUseOf w pl + (x.cap - x.inUse) := by
  have hv := poolView_of_get hx
  by_cases h0 : x.cap - x.inUse > 0
  · obtain ⟨h2, st3, _, hamt, _⟩ :=
      (((PSt.init hi hv).setInUse (x.inUse + (x.cap - x.inUse))).record pl).update hi.1 hp (x.cap - x.inUse) h0
    have st4 := st3.same (guardWaitEnter_same _ x.guard p (.poolAvail pl))
    refine ⟨guardWaitEnter (poolUpdateRecord (recordPool (setPoolInUse w pl (x.inUse + (x.cap - x.inUse))) pl) pl p
      (x.cap - x.inUse)) x.guard p (.poolAvail pl), ?_, ?_, ?_⟩
    · unfold poolLoop
      simp only [hx, hav, if_false, h0, if_true, Bool.false_eq_true]
    · rw [st4.heldOf, (PSt.init hi hv).heldOf]; exact hamt
    · rw [st4.inUseOf, (PSt.init hi hv).inUseOf]; rfl
  · have hz : x.cap - x.inUse = 0 := by omega
    refine ⟨guardWaitEnter w x.guard p (.poolAvail pl), ?_, ?_, ?_⟩
    · unfold poolLoop
      have h1 : ¬ (0 ≥ rem) := by omega
      have h2 : ¬ (0 > 0) := by omega
      simp only [hx, hz, h1, h2, if_false, Bool.false_eq_true, Nat.sub_zero]
    · rw [heldOf_viewSame (ViewSame.of_same (guardWaitEnter_same _ _ _ _)), hz]; rfl
    · rw [inUseOf_viewSame (ViewSame.of_same (guardWaitEnter_same _ _ _ _)), hz]; rfl

/-- **acquire_ok** (acquire without preemption): if one pass of the acquire loop returns at all, it returns success,
    and the caller then holds exactly `rem` more than before the pass -/
theorem poolLoop_acquire_ok {w : World} {p : Pid} {pl : Nat} {x : Pool} (hi : PoolInv w) (hp : p < w.procs.size)
    (hx : w.pools[pl]? = some x) (rem ini : Nat) (hrem : 0 < rem) {sig : Int} {extra : String}
    (hr : (poolLoop w p pl rem ini false).2 = .ret sig extra) :
    sig = sigSuccess ∧ heldOf (poolLoop w p pl rem ini false).1 pl p = heldOf w pl p + rem ∧
      inUseOf (poolLoop w p pl rem ini false).1 pl = inUseOf w pl + rem := by
  by_cases hav : x.cap - x.inUse ≥ rem
  · obtain ⟨h1, h2, h3⟩ := poolLoop_direct hi hp hx rem ini false hav hrem
    rw [h1] at hr
    injection hr with hs _
    exact ⟨hs.symm, h2, h3⟩
  · obtain ⟨w1, h1, _⟩ := poolLoop_partial hi hp hx rem ini hav
    rw [h1] at hr
    cases hr

/-- `AcquireRun p pl rem ini gained sig`: a `cmb_resourcepool_acquire` by `p`, suspended (or starting) with outstanding
    claim `rem`, runs to its return with signal `sig` through some number of further passes of the acquire loop, which
    together hand `gained` units to the caller (measured on what the caller holds before and after each pass; between
    passes anything may happen, including the caller being preempted).  A pass that suspends stores the claim reduced by
    what it took (`poolLoop_partial`), which is what the next pass is started with. -/
inductive AcquireRun (p : Pid) (pl : Nat) : Nat → Nat → Nat → Int → Prop
  | last {w : World} {x : Pool} {rem ini : Nat} {sig : Int} {extra : String} (hi : PoolInv w) (hp : p < w.procs.size)
      (hx : w.pools[pl]? = some x) (h : (poolLoop w p pl rem ini false).2 = .ret sig extra) :
      AcquireRun p pl rem ini (heldOf (poolLoop w p pl rem ini false).1 pl p - heldOf w pl p) sig
  | wait {w : World} {x : Pool} {rem ini m : Nat} {sig : Int} (hi : PoolInv w) (hp : p < w.procs.size)
      (hx : w.pools[pl]? = some x) (hav : ¬ x.cap - x.inUse ≥ rem)
      (rest : AcquireRun p pl (rem - (x.cap - x.inUse)) ini m sig) :
      AcquireRun p pl rem ini (heldOf (poolLoop w p pl rem ini false).1 pl p - heldOf w pl p + m) sig
  | intr {rem ini : Nat} {sig : Int} (hs : sig ≠ sigSuccess) : AcquireRun p pl rem ini 0 sig

/-- **acquire_ok** for a whole call: the passes never hand out more than the claim, and a call that returns success has
    handed out exactly the claim `n` -/
theorem AcquireRun.exact {p : Pid} {pl rem ini m : Nat} {sig : Int} (h : AcquireRun p pl rem ini m sig) (hrem : 0 < rem) :
    m ≤ rem ∧ (sig = sigSuccess → m = rem) := by
  induction h with
  | @last w x rem ini sig extra hi hp hx h =>
    obtain ⟨hs, hh, _⟩ := poolLoop_acquire_ok hi hp hx rem ini hrem h
    rw [hh]
    exact ⟨by omega, fun _ => by omega⟩
  | @wait w x rem ini m sig hi hp hx hav rest ih =>
    obtain ⟨w1, hblk, hh, _⟩ := poolLoop_partial hi hp hx rem ini hav
    have hv : heldOf (poolLoop w p pl rem ini false).1 pl p = heldOf w pl p + (x.cap - x.inUse) := by
      rw [hblk, heldOf_viewSame (ViewSame.of_fp (block_fp _ _ _) rfl rfl)]; exact hh
    rw [hv]
    obtain ⟨e1, e2⟩ := ih (by omega)
    refine ⟨by omega, fun hs => ?_⟩
    have := e2 hs
    omega
  | intr hs => exact ⟨Nat.zero_le _, fun e => absurd e hs⟩

/-- **acquire_intr**: what the rollback after an interrupted acquire / preempt leaves: the caller holds what it held
    before the call (`ini`) — or less, if a preempting process took its units in this same instant (then nothing is
    put back); with `ini = 0` it holds nothing.  The amount in use goes down by exactly what the caller gave back. -/
theorem poolRollback_spec {w : World} {p : Pid} {pl : Nat} {x : Pool} (hi : PoolInv w) (hx : w.pools[pl]? = some x)
    (ini : Nat) :
    heldOf (poolRollback w p pl ini) pl p = (if ini > 0 then min (heldOf w pl p) ini else 0) ∧
    inUseOf (poolRollback w p pl ini) pl + heldOf w pl p = inUseOf w pl + heldOf (poolRollback w p pl ini) pl p := by
  have hv := poolView_of_get hx
  have vok := (hi.2 pl _ hv).1
  have hok : HoldersOK w.procs.size (prOf w) x.holders := vok.toHoldersOK
  have hnow : heldAmount w pl p = amountOf (abs x.holders) (p + 1) := heldAmount_eq hv vok.wf p
  have hh0 : heldOf w pl p = amountOf (abs x.holders) (p + 1) := (PSt.init hi hv).heldOf p
  have hu0 : inUseOf w pl = x.inUse := (PSt.init hi hv).inUseOf
  have hsum : x.inUse = amounts (abs x.holders) := vok.sum
  have hle := amountOf_le_amounts hok.wf.keys_nodup (p + 1)
  unfold poolRollback
  simp only [hx]
  split
  · rename_i hini
    split
    · rename_i hgt
      have hk : p + 1 ∈ keys (abs x.view.holders) := mem_keys_of_amountOf_pos (q := abs x.holders) (by omega)
      obtain ⟨h', st1, _, hamt, _⟩ := (PSt.init hi hv).setHeld hk ini hini
      have st4 := ((st1.setInUse (x.inUse - (heldAmount w pl p - ini))).record pl).same (signal_same _ x.guard)
      rw [st4.heldOf, st4.inUseOf, hh0, hu0]
      dsimp only
      rw [hamt]
      constructor
      · omega
      · omega
    · rw [hh0, hu0]
      constructor
      · omega
      · rfl
  · have st2 := ((PSt.init hi hv).setInUse (x.inUse - heldAmount w pl p)).record pl
    split
    · rename_i h' found hr
      obtain ⟨ok', hsum', hkeys', hfound, hz, _⟩ := remove_holders hok p hr
      have hu := modifyHolders_upd st2.upd.view h'
      have st4 : PSt w (if found = true then
          (removeHeld { (recordPool (setPoolInUse w pl (x.inUse - heldAmount w pl p)) pl) with
            pools := (recordPool (setPoolInUse w pl (x.inUse - heldAmount w pl p)) pl).pools.modify pl
              fun y => { y with holders := h' } } p (HoldRef.pool pl)).1
          else { (recordPool (setPoolInUse w pl (x.inUse - heldAmount w pl p)) pl) with
            pools := (recordPool (setPoolInUse w pl (x.inUse - heldAmount w pl p)) pl).pools.modify pl
              fun y => { y with holders := h' } }) pl ⟨x.cap, x.inUse - heldAmount w pl p, h'⟩ := by
        split
        · exact st2.dropKey hu (fun _ => rfl) ok' hkeys'
        · rename_i hnf
          refine st2.dropAbsent hu (fun _ => rfl) ok' hkeys' ?_
          intro hm
          rw [hfound] at hnf
          have hm' : p + 1 ∈ keys (abs x.holders) := hm
          simp [hm'] at hnf
      have st5 := st4.same (signal_same _ x.guard)
      rw [st5.heldOf, st5.inUseOf, hh0, hu0]
      dsimp only
      rw [hz]
      constructor
      · rfl
      · omega
    · rename_i f hr
      obtain ⟨s', hrun, _⟩ := HashHeap.remove_abs hok.wf (p + 1) (by simp)
      rw [hrun] at hr; cases hr

/-- **release_ok**: a release of `n` (1 ≤ n ≤ what the caller holds) lowers the caller's holding and the amount in use
    by exactly `n` -/
theorem poolRelease_spec {w : World} {p : Pid} {pl : Nat} {x : Pool} (hi : PoolInv w) (hx : w.pools[pl]? = some x)
    {n : Nat} (hn0 : n ≠ 0) (hnle : n ≤ heldOf w pl p) :
    (execCmd w p (.poolRelease pl n)).2 = .ret 0 "" ∧
    heldOf (execCmd w p (.poolRelease pl n)).1 pl p + n = heldOf w pl p ∧
    inUseOf (execCmd w p (.poolRelease pl n)).1 pl + n = inUseOf w pl := by
  have hv := poolView_of_get hx
  have vok := (hi.2 pl _ hv).1
  have hok : HoldersOK w.procs.size (prOf w) x.holders := vok.toHoldersOK
  have hnow : heldAmount w pl p = amountOf (abs x.holders) (p + 1) := heldAmount_eq hv vok.wf p
  have hh0 : heldOf w pl p = amountOf (abs x.holders) (p + 1) := (PSt.init hi hv).heldOf p
  have hu0 : inUseOf w pl = x.inUse := (PSt.init hi hv).inUseOf
  have hsum : x.inUse = amounts (abs x.holders) := vok.sum
  have hle := amountOf_le_amounts hok.wf.keys_nodup (p + 1)
  have hk : p + 1 ∈ keys (abs x.view.holders) := mem_keys_of_amountOf_pos (q := abs x.holders) (by omega)
  have hcond : ¬ (n = 0 ∨ n > heldAmount w pl p) := by
    rintro (h | h)
    · exact hn0 h
    · omega
  simp only [execCmd, hx, hcond, if_false]
  have h1 : ∃ h', PSt w (if heldAmount w pl p = n then
        match HashHeap.remove holder_queue_check x.holders (p + 1) with
        | .ok (h', _) => (removeHeld { w with pools := w.pools.set! pl { x with holders := h' } } p (.pool pl)).1
        | .error f => w.fail s!"pool release: {f}"
      else setHeldAmount w pl p (heldAmount w pl p - n)) pl ⟨x.cap, x.inUse, h'⟩ ∧
      amountOf (abs h') (p + 1) + n = amountOf (abs x.holders) (p + 1) := by
    split
    · rename_i heq
      split
      · rename_i h' found hr
        obtain ⟨ok', _, hkeys', _, hz, _⟩ := remove_holders hok p hr
        exact ⟨h', (PSt.init hi hv).dropKey (setHolders_upd hx h') (fun _ => rfl) ok' hkeys', by omega⟩
      · rename_i f hr
        obtain ⟨s', hrun, _⟩ := HashHeap.remove_abs hok.wf (p + 1) (by simp)
        rw [hrun] at hr; cases hr
    · rename_i hne
      obtain ⟨h', st1, _, hamt, _⟩ := (PSt.init hi hv).setHeld hk (heldAmount w pl p - n) (by omega)
      exact ⟨h', st1, by omega⟩
  obtain ⟨h', st1, hs1⟩ := h1
  have st4 := ((st1.setInUse (x.inUse - n)).record pl).same (signal_same _ x.guard)
  have e1 := st4.heldOf p
  have e2 := st4.inUseOf
  refine ⟨trivial, ?_, ?_⟩
  · exact (congrArg (· + n) e1).trans (hs1.trans hh0.symm)
  · refine (congrArg (· + n) e2).trans ?_
    rw [hu0]
    show x.inUse - n + n = x.inUse
    omega

/-- **lose_all**: a process that ends (return, exit or stop) holds nothing of any pool afterwards -/
theorem heldOf_finishProc (w : World) (p : Pid) (v : Int) (st : Bool) (hi : PoolInv w) (pl : Nat) :
    heldOf (finishProc w p v st) pl p = 0 := by
  unfold finishProc
  dsimp only
  refine Eq.trans (heldOf_viewSame (ViewSame.of_fp (modProc_fp_blocked _ _ _ ?_ ?_) rfl rfl) pl p) ?_
  · intro _; rfl
  · intro _; rfl
  refine Eq.trans (heldOf_viewSame (ViewSame.of_same (wakeWaiters_same _ _ _)) pl p) ?_
  split
  · exact heldOf_dropResources _ _ (hi.same (cancelAwaiteds_same _ _)) pl
  · refine Eq.trans (heldOf_viewSame (ViewSame.of_same (cancelAwaiteds_same _ _)) pl p) ?_
    exact heldOf_dropResources _ _ hi pl

/-! ### preemption: one step of the mugging loop -/

theorem removeHeld_prio (w : World) (p q : Pid) (h : HoldRef) : ((removeHeld w p h).1.proc q).prio = (w.proc q).prio := by
  unfold removeHeld
  rw [proc_modProc]
  split
  · rename_i hq; rw [hq.1]
  · rfl

/-- **preempt_strict**, refusing side: if the first holder in the holder order (lowest priority first) is not of strictly
    lower priority than the caller, the loop takes nothing — and then no holder at all has a strictly lower priority -/
theorem poolMug_refuses {w : World} {p : Pid} {pl : Nat} {x : Pool} (hi : PoolInv w) (hx : w.pools[pl]? = some x)
    (hc : x.holders.count ≠ 0) (hge : ¬ (x.holders.tag 1).i < (w.proc p).prio) (fuel rem : Nat) :
    poolMug (fuel + 1) w p pl rem = (w, some rem) ∧ ∀ t ∈ abs x.holders, ¬ t.i < (w.proc p).prio := by
  have hv := poolView_of_get hx
  have vok := (hi.2 pl _ hv).1
  have hwf : WF holder_queue_check x.holders := vok.wf
  have hpos : 0 < x.holders.count := by omega
  constructor
  · unfold poolMug
    simp only [hx, hc, if_false, HashHeap.peek_spec hwf hpos, hge]
  · intro t ht
    have hmin := HashHeap.root_isMin_abs hwf hpos
    have := hmin.2 t ht
    have hn : ¬ HashHeap.SpecOrders.holderLt t (KPQ.norm (x.holders.tag 1)) := by
      rw [← HashHeap.Orders.holder_queue_check_iff, this]; simp
    unfold HashHeap.SpecOrders.holderLt at hn
    simp only [KPQ.norm] at hn
    omega

/-- **preempt_strict**, taking side: the victim is the first holder, of strictly lower priority than the caller; it is
    taken off the holder list, the pool off its held list, and an interrupt event with the PREEMPTED signal is scheduled
    for it at the current time with the victim's priority; its `loot` goes to the caller (all of it, and the loop goes
    on, or just the remaining claim, the surplus returning to the pool) -/
theorem poolMug_takes {w : World} {p : Pid} {pl : Nat} {x : Pool} (hi : PoolInv w) (hx : w.pools[pl]? = some x)
    (hc : x.holders.count ≠ 0) (hlt : (x.holders.tag 1).i < (w.proc p).prio) (fuel rem : Nat) :
    ∃ h1 w3,
      HashHeap.dequeue holder_queue_check x.holders = .ok (h1, some (x.holders.tag 1)) ∧
      w3 = (sched (removeHeld { w with pools := w.pools.set! pl { x with holders := h1 } }
              ((x.holders.tag 1).key - 1) (.pool pl)).1 aIntr ((x.holders.tag 1).key - 1 + 1) sigPreempted w.now
              (w.proc ((x.holders.tag 1).key - 1)).prio).1 ∧
      poolMug (fuel + 1) w p pl rem =
        (if (x.holders.tag 1).item.b < rem then
          poolMug fuel (poolUpdateRecord w3 pl p (x.holders.tag 1).item.b) p pl (rem - (x.holders.tag 1).item.b)
        else
          (signal (recordPool (setPoolInUse (poolUpdateRecord w3 pl p rem) pl
            (((poolUpdateRecord w3 pl p rem).pools.getD pl x).inUse - ((x.holders.tag 1).item.b - rem))) pl) x.guard,
            none)) ∧
      (∃ e ∈ w3.ev.pending, e.item.a = aIntr ∧ e.item.b = (x.holders.tag 1).key - 1 + 1 ∧
          e.item.c = encSig sigPreempted ∧ e.d = w.now ∧ e.i = (w.proc ((x.holders.tag 1).key - 1)).prio) ∧
      (x.holders.tag 1).key - 1 < w.procs.size ∧ (x.holders.tag 1).key - 1 + 1 = (x.holders.tag 1).key ∧
      heldOf w3 pl ((x.holders.tag 1).key - 1) = 0 ∧
      heldOf w pl ((x.holders.tag 1).key - 1) = (x.holders.tag 1).item.b := by
  have hv := poolView_of_get hx
  have vok := (hi.2 pl _ hv).1
  have hok : HoldersOK w.procs.size (prOf w) x.holders := vok.toHoldersOK
  have hpos : 0 < x.holders.count := by omega
  obtain ⟨h1, hdq, ok1, _, hkeys1, hmem1, hamt1, _, _⟩ := dequeue_holders hok hpos
  obtain ⟨hk1, hk2⟩ := key_pred_succ hok hmem1
  obtain ⟨h1', hdq', hst, _, _, _⟩ := (PSt.init hi hv).mug hx hpos
  rw [hdq] at hdq'
  injection hdq' with e; injection e with e1 _; subst e1
  refine ⟨h1, _, hdq, rfl, ?_, ?_, hk2, hk1, ?_, ?_⟩
  · conv => lhs; unfold poolMug
    simp only [hx, hc, if_false, HashHeap.peek_spec hok.wf hpos, hlt, if_true, hdq]
    have hnow : ∀ (W : World) (v : Pid) (h : HoldRef), (removeHeld W v h).1.now = W.now := fun _ _ _ => rfl
    simp only [hnow, removeHeld_prio, proc_mk, now_mk]
  · have hs := sched_ok (removeHeld { w with pools := w.pools.set! pl { x with holders := h1 } }
      ((x.holders.tag 1).key - 1) (.pool pl)).1 aIntr ((x.holders.tag 1).key - 1 + 1) sigPreempted w.now
      (w.proc ((x.holders.tag 1).key - 1)).prio (Int.le_refl _)
    refine ⟨_, by rw [hs.2.1]; exact List.mem_cons_self, rfl, rfl, rfl, rfl, rfl⟩
  · rw [(hst w.now (w.proc ((x.holders.tag 1).key - 1)).prio).heldOf]
    apply HashHeap.amountOf_of_not_mem
    intro hm
    rw [hk1] at hm
    exact ((hkeys1 _).1 hm).2 rfl
  · rw [(PSt.init hi hv).heldOf, hk1]
    exact hamt1

/-! ### the whole mugging loop -/

/-- what is still to be claimed after the loop -/
def remaining (r : Option Nat) : Nat := match r with | none => 0 | some k => k

/-- a process is never its own victim: its record carries its own priority -/
theorem mug_not_self {w : World} {p : Pid} {pl : Nat} {x : Pool} (hi : PoolInv w) (hx : w.pools[pl]? = some x)
    (hc : x.holders.count ≠ 0) (hlt : (x.holders.tag 1).i < (w.proc p).prio) :
    (x.holders.tag 1).key ≠ p + 1 ∧ (w.proc ((x.holders.tag 1).key - 1)).prio < (w.proc p).prio := by
  have vok := (hi.2 pl _ (poolView_of_get hx)).1
  have hmem : KPQ.norm (x.holders.tag 1) ∈ abs x.holders := (HashHeap.mem_abs _ _).2 ⟨1, ⟨Nat.le_refl _, by omega⟩, rfl⟩
  have hpr : (x.holders.tag 1).i = (w.proc ((x.holders.tag 1).key - 1)).prio := vok.prio (KPQ.norm (x.holders.tag 1)) hmem
  refine ⟨?_, by rw [← hpr]; exact hlt⟩
  intro hk
  rw [hk] at hpr
  simp at hpr
  omega

/-- **the mugging loop as a whole**: it keeps the invariant, and what the caller holds afterwards plus what is still to be
    claimed equals what it held before plus the claim — the loop hands the caller exactly `rem − remaining` -/
theorem poolMug_total : ∀ (fuel : Nat) (w : World) (p : Pid) (pl rem : Nat), PoolInv w → p < w.procs.size → 0 < rem →
    PoolInv (poolMug fuel w p pl rem).1 ∧ (poolMug fuel w p pl rem).1.procs.size = w.procs.size ∧
    heldOf (poolMug fuel w p pl rem).1 pl p + remaining (poolMug fuel w p pl rem).2 = heldOf w pl p + rem := by
  intro fuel
  induction fuel with
  | zero => intro w p pl rem hi _ _; exact ⟨hi, rfl, rfl⟩
  | succ n ih =>
    intro w p pl rem hi hp hrem
    unfold Sim.poolMug
    split
    · exact ⟨hi, rfl, rfl⟩
    · rename_i x hx
      split
      · exact ⟨hi, rfl, rfl⟩
      · rename_i hc
        split
        · rename_i top hpeek
          split
          · rename_i hlt
            have hv := poolView_of_get hx
            have vok := (hi.2 pl _ hv).1
            have hwf : WF holder_queue_check x.holders := vok.wf
            have htop : top = x.holders.tag 1 := by
              have := HashHeap.peek_spec hwf (by omega : 0 < x.holders.count)
              rw [this] at hpeek; injection hpeek with e; injection e with e; exact e.symm
            subst htop
            obtain ⟨hns, _⟩ := mug_not_self hi hx hc hlt
            obtain ⟨h1, hdq, hst, hsum1, hoth1, hvic, hloot⟩ := (PSt.init hi hv).mug hx (by omega)
            rw [hdq]
            dsimp only
            generalize hw2 : (removeHeld { w with pools := w.pools.set! pl { x with holders := h1 } }
              ((x.holders.tag 1).key - 1) (HoldRef.pool pl)).1 = w2 at hst ⊢
            have st3 := hst w2.now (w2.proc ((x.holders.tag 1).key - 1)).prio
            have hheld3 : amountOf (abs h1) (p + 1) = heldOf w pl p := by
              rw [(PSt.init hi hv).heldOf]
              exact hoth1 (p + 1) (fun e => hns e.symm)
            split
            · rename_i hlt2
              obtain ⟨h2, st4, hsum2, hamt2, _⟩ := st3.update hi.1 hp (x.holders.tag 1).item.b hloot
              dsimp only at hsum2 hamt2
              have hi4 : PoolInv _ := st4.close hi (by
                have := vok.sum; simp only [Pool.view] at this ⊢; omega) vok.inCap
              obtain ⟨a1, a2, a3⟩ := ih _ _ _ _ hi4 (by rw [st4.size]; exact hp) (by omega : 0 < rem - (x.holders.tag 1).item.b)
              refine ⟨a1, a2.trans st4.size, ?_⟩
              rw [a3, st4.heldOf, hamt2, hheld3]
              omega
            · rename_i hlt2
              obtain ⟨h2, st4, hsum2, hamt2, _⟩ := st3.update hi.1 hp rem hrem
              dsimp only at hsum2 hamt2
              have hget : ∀ w4 : World, poolView w4 pl = some ⟨x.cap, x.inUse, h2⟩ →
                  (w4.pools.getD pl x).inUse = x.inUse := by
                intro w4 hv4
                obtain ⟨y, hy, hyv⟩ := poolView_some.1 hv4
                rw [Array.getD_eq_getD_getElem?, hy]
                have : y.view.inUse = x.inUse := by rw [hyv]
                exact this
              rw [hget _ st4.upd.view]
              have st5 := ((st4.setInUse (x.inUse - ((x.holders.tag 1).item.b - rem))).record pl).same (signal_same _ x.guard)
              refine ⟨st5.close hi ?_ ?_, st5.size, ?_⟩
              · have := vok.sum; simp only [Pool.view] at this ⊢; omega
              · have := vok.inCap; simp only [Pool.view] at this ⊢; omega
              · rw [st5.heldOf]
                show amountOf (abs h2) (p + 1) + 0 = _
                rw [hamt2, hheld3]; omega
          · exact ⟨hi, rfl, rfl⟩
        · exact ⟨hi, rfl, rfl⟩

/-- **preempt_ok**: if a pass of `cmb_resourcepool_preempt`'s loop returns, it returns success, and the caller then holds
    exactly the outstanding claim `rem` more than before the pass — whatever was free plus what was taken from any
    number of victims -/
theorem poolLoop_preempt_ok {w : World} {p : Pid} {pl : Nat} {x : Pool} (hi : PoolInv w) (hp : p < w.procs.size)
    (hx : w.pools[pl]? = some x) (rem ini : Nat) (hrem : 0 < rem) {sig : Int} {extra : String}
    (hr : (poolLoop w p pl rem ini true).2 = .ret sig extra) :
    sig = sigSuccess ∧ heldOf (poolLoop w p pl rem ini true).1 pl p = heldOf w pl p + rem := by
  by_cases hav : x.cap - x.inUse ≥ rem
  · obtain ⟨h1, h2, _⟩ := poolLoop_direct hi hp hx rem ini true hav hrem
    rw [h1] at hr
    injection hr with hs _
    exact ⟨hs.symm, h2⟩
  · -- take what is free, then mug
    have hv := poolView_of_get hx
    have h1 : ∃ w1 rem1, (if x.cap - x.inUse > 0 then
          (poolUpdateRecord (recordPool (setPoolInUse w pl (x.inUse + (x.cap - x.inUse))) pl) pl p (x.cap - x.inUse),
            rem - (x.cap - x.inUse)) else (w, rem)) = (w1, rem1) ∧ PoolInv w1 ∧ w1.procs.size = w.procs.size ∧ 0 < rem1 ∧
          heldOf w1 pl p + rem1 = heldOf w pl p + rem := by
      have vok := (hi.2 pl _ hv).1
      have hsum : x.inUse = amounts (abs x.holders) := vok.sum
      have hcap : x.inUse ≤ x.cap := vok.inCap
      split
      · rename_i hpos
        obtain ⟨h2, st3, hsum2, hamt2, _⟩ :=
          (((PSt.init hi hv).setInUse (x.inUse + (x.cap - x.inUse))).record pl).update hi.1 hp (x.cap - x.inUse) hpos
        dsimp only [Pool.view] at hsum2 hamt2
        refine ⟨_, _, rfl, st3.close hi ?_ ?_, st3.size, by omega, ?_⟩
        · show x.inUse + (x.cap - x.inUse) = amounts (abs h2); omega
        · show x.inUse + (x.cap - x.inUse) ≤ x.cap; omega
        · rw [st3.heldOf, (PSt.init hi hv).heldOf]
          show amountOf (abs h2) (p + 1) + (rem - (x.cap - x.inUse)) = amountOf (abs x.holders) (p + 1) + rem
          rw [hamt2]; omega
      · exact ⟨w, rem, rfl, hi, rfl, hrem, rfl⟩
    obtain ⟨w1, rem1, he1, hi1, hs1, hr1, hh1⟩ := h1
    obtain ⟨hi2, hs2, hh2⟩ := poolMug_total (x.holders.count + 1) w1 p pl rem1 hi1 (by rw [hs1]; exact hp) hr1
    unfold poolLoop at hr ⊢
    simp only [hx, hav, if_false, if_true, he1] at hr ⊢
    cases hm : (poolMug (x.holders.count + 1) w1 p pl rem1).2 with
    | none =>
      simp only [hm] at hr ⊢
      injection hr with hs _
      refine ⟨hs.symm, ?_⟩
      rw [hm] at hh2
      simp only [remaining] at hh2
      omega
    | some r =>
      simp only [hm] at hr
      cases hr

/-- **preempt, one pass that does not return**: the caller has received part of its claim — what was free plus what the
    victims held — and is suspended with the claim reduced by exactly that: `held + claim` is conserved -/
theorem poolLoop_preempt_partial {w : World} {p : Pid} {pl : Nat} {x : Pool} (hi : PoolInv w) (hp : p < w.procs.size)
    (hx : w.pools[pl]? = some x) (rem ini : Nat) (hrem : 0 < rem)
    (hr : (poolLoop w p pl rem ini true).2 = .blocked) :
    ∃ w1 rem', poolLoop w p pl rem ini true = block w1 p (.pool pl rem' ini true) ∧ 0 < rem' ∧ rem' ≤ rem ∧
      heldOf w1 pl p + rem' = heldOf w pl p + rem := by
  by_cases hav : x.cap - x.inUse ≥ rem
  · obtain ⟨h1, _, _⟩ := poolLoop_direct hi hp hx rem ini true hav hrem
    rw [h1] at hr; cases hr
  · have hv := poolView_of_get hx
    have h1 : ∃ w1 rem1, (if x.cap - x.inUse > 0 then
          (poolUpdateRecord (recordPool (setPoolInUse w pl (x.inUse + (x.cap - x.inUse))) pl) pl p (x.cap - x.inUse),
            rem - (x.cap - x.inUse)) else (w, rem)) = (w1, rem1) ∧ PoolInv w1 ∧ w1.procs.size = w.procs.size ∧ 0 < rem1 ∧
          heldOf w1 pl p + rem1 = heldOf w pl p + rem := by
      have vok := (hi.2 pl _ hv).1
      have hsum : x.inUse = amounts (abs x.holders) := vok.sum
      have hcap : x.inUse ≤ x.cap := vok.inCap
      split
      · rename_i hpos
        obtain ⟨h2, st3, hsum2, hamt2, _⟩ :=
          (((PSt.init hi hv).setInUse (x.inUse + (x.cap - x.inUse))).record pl).update hi.1 hp (x.cap - x.inUse) hpos
        dsimp only [Pool.view] at hsum2 hamt2
        refine ⟨_, _, rfl, st3.close hi ?_ ?_, st3.size, by omega, ?_⟩
        · show x.inUse + (x.cap - x.inUse) = amounts (abs h2); omega
        · show x.inUse + (x.cap - x.inUse) ≤ x.cap; omega
        · rw [st3.heldOf, (PSt.init hi hv).heldOf]
          show amountOf (abs h2) (p + 1) + (rem - (x.cap - x.inUse)) = amountOf (abs x.holders) (p + 1) + rem
          rw [hamt2]; omega
      · exact ⟨w, rem, rfl, hi, rfl, hrem, rfl⟩
    obtain ⟨w1, rem1, he1, hi1, hs1, hr1, hh1⟩ := h1
    have hle1 : rem1 ≤ rem := by
      split at he1 <;> (injection he1 with _ e; omega)
    obtain ⟨hi2, hs2, hh2⟩ := poolMug_total (x.holders.count + 1) w1 p pl rem1 hi1 (by rw [hs1]; exact hp) hr1
    have hpos2 := poolMug_rem_pos (x.holders.count + 1) w1 p pl rem1 hr1
    have hle2 := poolMug_rem_le (x.holders.count + 1) w1 p pl rem1
    unfold poolLoop at hr ⊢
    simp only [hx, hav, if_false, if_true, he1] at hr ⊢
    cases hm : (poolMug (x.holders.count + 1) w1 p pl rem1).2 with
    | none => simp only [hm] at hr; cases hr
    | some r =>
      simp only [hm]
      refine ⟨_, r, rfl, hpos2 r hm, by have := hle2 r hm; omega, ?_⟩
      rw [heldOf_viewSame (ViewSame.of_same (guardWaitEnter_same _ _ _ _))]
      rw [hm] at hh2
      simp only [remaining] at hh2
      omega

/-- `ClaimRun p pl pre rem ini gained sig`: a pool acquire (`pre = false`) or preempt (`pre = true`) as the sequence of its
    passes, as `AcquireRun` -/
inductive ClaimRun (p : Pid) (pl : Nat) (pre : Bool) : Nat → Nat → Nat → Int → Prop
  | last {w : World} {x : Pool} {rem ini : Nat} {sig : Int} {extra : String} (hi : PoolInv w) (hp : p < w.procs.size)
      (hx : w.pools[pl]? = some x) (h : (poolLoop w p pl rem ini pre).2 = .ret sig extra) :
      ClaimRun p pl pre rem ini (heldOf (poolLoop w p pl rem ini pre).1 pl p - heldOf w pl p) sig
  | wait {w w1 : World} {x : Pool} {rem rem' ini m : Nat} {sig : Int} (hi : PoolInv w) (hp : p < w.procs.size)
      (hx : w.pools[pl]? = some x) (h : poolLoop w p pl rem ini pre = block w1 p (.pool pl rem' ini pre))
      (rest : ClaimRun p pl pre rem' ini m sig) :
      ClaimRun p pl pre rem ini (heldOf w1 pl p - heldOf w pl p + m) sig
  | intr {rem ini : Nat} {sig : Int} (hs : sig ≠ sigSuccess) : ClaimRun p pl pre rem ini 0 sig

theorem block_inv {w1 w2 : World} {p : Pid} {F F' : Frame} (hp : p < w1.procs.size)
    (h : block w1 p F = block w2 p F') : F = F' ∧ ∀ pl q, heldOf w1 pl q = heldOf w2 pl q := by
  have h1 : (block w1 p F).1 = (block w2 p F').1 := congrArg Prod.fst h
  have hs : w2.procs.size = w1.procs.size := by
    have := congrArg (fun w : World => w.procs.size) h1
    simpa [block] using this.symm
  constructor
  · have hb : ((block w1 p F).1.proc p).blocked = ((block w2 p F').1.proc p).blocked := by rw [h1]
    rw [block_blocked, block_blocked, if_pos ⟨rfl, hp⟩, if_pos ⟨rfl, by rw [hs]; exact hp⟩] at hb
    injection hb
  · intro pl q
    rw [← heldOf_viewSame (ViewSame.of_fp (block_fp w1 p F) rfl rfl), ← heldOf_viewSame (ViewSame.of_fp (block_fp w2 p F') rfl rfl), h1]

/-- **acquire_ok / preempt_ok for a whole call**: the passes never hand out more than the claim, and a call that returns
    success has handed out exactly the claim -/
theorem ClaimRun.exact {p : Pid} {pl : Nat} {pre : Bool} {rem ini m : Nat} {sig : Int}
    (h : ClaimRun p pl pre rem ini m sig) (hrem : 0 < rem) : m ≤ rem ∧ (sig = sigSuccess → m = rem) := by
  induction h with
  | @last w x rem ini sig extra hi hp hx h =>
    have hh : heldOf (poolLoop w p pl rem ini pre).1 pl p = heldOf w pl p + rem := by
      cases pre
      · exact (poolLoop_acquire_ok hi hp hx rem ini hrem h).2.1
      · exact (poolLoop_preempt_ok hi hp hx rem ini hrem h).2
    rw [hh]
    exact ⟨by omega, fun _ => by omega⟩
  | @wait w w1 x rem rem' ini m sig hi hp hx h rest ih =>
    have key : 0 < rem' ∧ rem' ≤ rem ∧ heldOf w1 pl p + rem' = heldOf w pl p + rem := by
      cases pre
      · by_cases hav : x.cap - x.inUse ≥ rem
        · obtain ⟨h1, _, _⟩ := poolLoop_direct hi hp hx rem ini false hav hrem
          rw [h] at h1; cases h1
        · obtain ⟨w1', hblk, hh, _⟩ := poolLoop_partial hi hp hx rem ini hav
          rw [h] at hblk
          have hsz : w1.procs.size = w.procs.size := by
            have := (poolLoop_fp w p pl rem ini false).2.2.2.2.2.2.2.1
            rw [h] at this
            simpa [block] using this
          obtain ⟨e, hheld⟩ := block_inv (by rw [hsz]; exact hp) hblk
          injection e with _ e2 _ _
          rw [hheld pl p, hh, e2]
          omega
      · obtain ⟨w1', rem'', hblk, hpos, hle, hh⟩ := poolLoop_preempt_partial hi hp hx rem ini hrem (by rw [h]; rfl)
        rw [h] at hblk
        have hsz : w1.procs.size = w.procs.size := by
          have := (poolLoop_fp w p pl rem ini true).2.2.2.2.2.2.2.1
          rw [h] at this
          simpa [block] using this
        obtain ⟨e, hheld⟩ := block_inv (by rw [hsz]; exact hp) hblk
        injection e with _ e2 _ _
        rw [hheld pl p, e2]
        exact ⟨hpos, hle, hh⟩
    obtain ⟨k1, k3, k2⟩ := key
    obtain ⟨e1, e2⟩ := ih k1
    refine ⟨by omega, fun hs => ?_⟩
    have := e2 hs
    omega
  | intr hs => exact ⟨Nat.zero_le _, fun e => absurd e hs⟩

end CimbaModel.Sim
