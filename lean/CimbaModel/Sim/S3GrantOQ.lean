/-
  S3 — the grant invariant, part 15: object queues (a consumer takes exactly one object / slot and does not signal its own
  end again, so the invariant counts: objects ≤ pending grants of the front guard, free slots ≤ those of the rear guard).
-/
import CimbaModel.Sim.S3GrantBuf

namespace CimbaModel.Sim.S3
open CimbaModel CimbaModel.Sim CimbaModel.Event CimbaModel.Generated CimbaModel.KPQ
open CimbaModel.HashHeap (HTag Item Order HH WF abs liveTags)

variable {fr : Pid → Option Frame} {df df' : Demand → Nat} {w : World} {p : Pid}

/-- the record of queue `q` is replaced (same guards and capacity) and recorded -/
theorem gs_oq_set (h : GS fr df w) {q : Nat} {x : OQ} (hx : w.oqs[q]? = some x) (y : OQ) (hs : oqStat y = oqStat x)
    (hn : ∀ d, (if d = .oqContent q then (oqNeed y).1 else if d = .oqSpace q then (oqNeed y).2 else need w d) + df d ≤
      need w d + df' d) :
    GS fr df' (recordOQ { w with oqs := w.oqs.set! q y } q) ∧ Stat w (recordOQ { w with oqs := w.oqs.set! q y } q) := by
  have hst0 : Stat w { w with oqs := w.oqs.set! q y } :=
    (Stat.refl w).setOqsSet q y (fun x' hx' => by rw [hx] at hx'; cases hx'; exact hs)
  have h1 : GS fr df' { w with oqs := w.oqs.set! q y } :=
    h.objUpd hst0 rfl rfl rfl (fun d => by rw [need_oqs_set hx]; exact hn d)
  exact ⟨h1.recordOQ q, hst0.recordOQ q⟩

/-- one pass of `objectqueue_get` -/
theorem gs_oqGetLoop (h : GS fr df w) (hes : EndSep w) (hsep : CondSep w) (hfr : fr p = none) (hlt : p < w.procs.size)
    (q : Nat) (hdf : ∀ d, d ≠ .oqContent q → df d ≤ df' d) (hdf1 : df (.oqContent q) ≤ df' (.oqContent q) + 1) :
    GH df' (oqGetLoop w p q).1 := by
  simp only [Sim.oqGetLoop]
  split
  · rename_i hn
    have hi : Inert w (w.fail "no such queue") := (Inert.refl w).fail _
    refine (h.gh.inert h.ginv.ei hi).clear' (.oqContent q) ?_ hdf
    have := hi.need (.oqContent q)
    have h0 : need w (.oqContent q) = 0 := by rw [need_eq]; simp [hn]
    omega
  · rename_i x hx
    obtain ⟨hgf, hgr⟩ := gOf_oqs_of hx
    obtain ⟨hnf, hnr⟩ := need_oqs_of hx
    split
    · rename_i o rest hit
      -- one object is taken: one fewer available at the front, one more slot at the rear (signalled)
      obtain ⟨h1, hst1⟩ := gs_oq_set
        (df' := fun d => (if d = .oqContent q then df' d else df d) + (if d = .oqSpace q then 1 else 0)) h hx
        { x with items := rest, gotLog := x.gotLog ++ [o] } rfl (by
          intro d
          show _ + df d ≤ need w d + ((if d = .oqContent q then df' d else df d) + if d = .oqSpace q then 1 else 0)
          by_cases h1 : d = .oqContent q
          · subst h1; rw [if_pos rfl, if_pos rfl, if_neg (by simp), hnf]
            unfold oqNeed; simp only [hit, List.length_cons]; omega
          · rw [if_neg h1, if_neg h1]
            by_cases h2 : d = .oqSpace q
            · subst h2; rw [if_pos rfl, if_pos rfl, hnr]
              unfold oqNeed; simp only [hit, List.length_cons]; omega
            · rw [if_neg h2, if_neg h2]; omega)
      refine GS.gh (fr := fr) (h1.signal x.rear ?_ ?_)
      · intro d hd
        rw [gOf_of_stat hst1] at hd
        have := hes d (.oqSpace q) x.rear hd hgr
        subst this
        show (if Demand.oqSpace q = .oqContent q then _ else _) + (if Demand.oqSpace q = .oqSpace q then 1 else 0) ≤ _
        rw [if_neg (by simp), if_pos rfl]
        have := hdf (.oqSpace q) (by simp); omega
      · intro d hd
        rw [gOf_of_stat hst1] at hd
        have hne : d ≠ .oqSpace q := fun hdd => hd (hdd ▸ hgr)
        show (if d = .oqContent q then _ else _) + (if d = .oqSpace q then 1 else 0) ≤ _
        rw [if_neg hne]
        split
        · omega
        · rename_i hc; have := hdf d hc; omega
    · rename_i hit
      have h0 : need w (.oqContent q) = 0 := by rw [hnf]; unfold oqNeed; simp [hit]
      have h' : GS fr df' w := h.clear (.oqContent q) h0 hdf
      have hon : FrameOn w (.oqGet q) x.front := by simp [FrameOn, hx, oqStat]
      refine (h'.enterBlock x.front (.oqContent q) (.oqGet q) hfr hlt hon (fun c hc => hsep c _ _ hc hon) ?_).gh
      intro d' hd'
      have := hes d' (.oqContent q) x.front hd' hgf
      subst this
      exact ⟨rfl, by omega⟩

/-- one pass of `objectqueue_put` -/
theorem gs_oqPutLoop (h : GS fr df w) (hes : EndSep w) (hsep : CondSep w) (hfr : fr p = none) (hlt : p < w.procs.size)
    (q obj : Nat) (hdf : ∀ d, d ≠ .oqSpace q → df d ≤ df' d) (hdf1 : df (.oqSpace q) ≤ df' (.oqSpace q) + 1) :
    GH df' (oqPutLoop w p q obj).1 := by
  simp only [Sim.oqPutLoop]
  split
  · rename_i hn
    have hi : Inert w (w.fail "no such queue") := (Inert.refl w).fail _
    refine (h.gh.inert h.ginv.ei hi).clear' (.oqSpace q) ?_ hdf
    have := hi.need (.oqSpace q)
    have h0 : need w (.oqSpace q) = 0 := by rw [need_eq]; simp [hn]
    omega
  · rename_i x hx
    obtain ⟨hgf, hgr⟩ := gOf_oqs_of hx
    obtain ⟨hnf, hnr⟩ := need_oqs_of hx
    split
    · rename_i hroom
      obtain ⟨h1, hst1⟩ := gs_oq_set
        (df' := fun d => (if d = .oqSpace q then df' d else df d) + (if d = .oqContent q then 1 else 0)) h hx
        { x with items := x.items ++ [obj], putLog := x.putLog ++ [obj] } rfl (by
          intro d
          show _ + df d ≤ need w d + ((if d = .oqSpace q then df' d else df d) + if d = .oqContent q then 1 else 0)
          by_cases h1 : d = .oqContent q
          · subst h1; rw [if_pos rfl, if_pos rfl, if_neg (by simp), hnf]
            unfold oqNeed; simp only [List.length_append, List.length_cons, List.length_nil]; omega
          · rw [if_neg h1, if_neg h1]
            by_cases h2 : d = .oqSpace q
            · subst h2; rw [if_pos rfl, if_pos rfl, hnr]
              unfold oqNeed; simp only [List.length_append, List.length_cons, List.length_nil]; omega
            · rw [if_neg h2, if_neg h2]; omega)
      refine GS.gh (fr := fr) (h1.signal x.front ?_ ?_)
      · intro d hd
        rw [gOf_of_stat hst1] at hd
        have := hes d (.oqContent q) x.front hd hgf
        subst this
        show (if Demand.oqContent q = .oqSpace q then _ else _) + (if Demand.oqContent q = .oqContent q then 1 else 0) ≤ _
        rw [if_neg (by simp), if_pos rfl]
        have := hdf (.oqContent q) (by simp); omega
      · intro d hd
        rw [gOf_of_stat hst1] at hd
        have hne : d ≠ .oqContent q := fun hdd => hd (hdd ▸ hgf)
        show (if d = .oqSpace q then _ else _) + (if d = .oqContent q then 1 else 0) ≤ _
        rw [if_neg hne]
        split
        · omega
        · rename_i hc; have := hdf d hc; omega
    · rename_i hroom
      have h0 : need w (.oqSpace q) = 0 := by rw [hnr]; unfold oqNeed; simp only; omega
      have h' : GS fr df' w := h.clear (.oqSpace q) h0 hdf
      have hon : FrameOn w (.oqPut q obj) x.rear := by simp [FrameOn, hx, oqStat]
      refine (h'.enterBlock x.rear (.oqSpace q) (.oqPut q obj) hfr hlt hon (fun c hc => hsep c _ _ hc hon) ?_).gh
      intro d' hd'
      have := hes d' (.oqSpace q) x.rear hd' hgr
      subst this
      exact ⟨rfl, by omega⟩

theorem gs_cmd_oqGet (h : GS fr df w) (hes : EndSep w) (hsep : CondSep w) (hfr : fr p = none) (hlt : p < w.procs.size)
    (q : Nat) : GH df (execCmd w p (.oqGet q)).1 := by
  simp only [Sim.execCmd]
  split
  · exact h.gh
  · exact gs_oqGetLoop h hes hsep hfr hlt q (fun _ _ => Nat.le_refl _) (Nat.le_succ _)

theorem gs_cmd_oqPut (h : GS fr df w) (hes : EndSep w) (hsep : CondSep w) (hfr : fr p = none) (hlt : p < w.procs.size)
    (q obj : Nat) : GH df (execCmd w p (.oqPut q obj)).1 := by
  simp only [Sim.execCmd]
  split
  · exact h.gh
  · exact gs_oqPutLoop h hes hsep hfr hlt q obj (fun _ _ => Nat.le_refl _) (Nat.le_succ _)

theorem gs_resume_oqGet (h : GS fr df w) (hes : EndSep w) (hsep : CondSep w) {q : Nat}
    (hfr : fr p = some (.oqGet q)) (hlt : p < w.procs.size) (sig : Int) (hq : sig = sigSuccess → Quiet w p)
    (hdf : ∀ d, d ≠ .oqContent q → df d ≤ df' d) (hdf1 : df (.oqContent q) ≤ df' (.oqContent q) + 1)
    (hdf0 : sig ≠ sigSuccess → ∀ d, df d ≤ df' d) :
    GH df' (resumeFrame (w.modProc p fun y => { y with blocked := none }) p (.oqGet q) sig).1 := by
  simp only [Sim.resumeFrame]
  split
  · rename_i hn
    have hi : Inert w (w.modProc p fun y => { y with blocked := none }) := by have h0 := Inert.refl w; inert
    refine (h.gh.inert h.ginv.ei hi).clear' (.oqContent q) ?_ hdf
    rw [need_eq]; simp only; rw [hn]; rfl
  · rename_i x hx
    have hx' : w.oqs[q]? = some x := hx
    have hon : FrameOn w (.oqGet q) x.front := by simp [FrameOn, hx', oqStat]
    have hL := gs_leave h hfr hon (fun c hc => by cases hc) sig hq
    have hst := stat_leave w p x.front sig
    split
    · exact gs_oqGetLoop hL (hes.ofStat hst) (hsep.ofStat hst) (setFrame_self _ _ _) (by rw [hst.psize]; exact hlt) q hdf hdf1
    · rename_i hs
      exact ⟨hL.hg, hL.gi.mono (hdf0 hs)⟩

theorem gs_resume_oqPut (h : GS fr df w) (hes : EndSep w) (hsep : CondSep w) {q obj : Nat}
    (hfr : fr p = some (.oqPut q obj)) (hlt : p < w.procs.size) (sig : Int) (hq : sig = sigSuccess → Quiet w p)
    (hdf : ∀ d, d ≠ .oqSpace q → df d ≤ df' d) (hdf1 : df (.oqSpace q) ≤ df' (.oqSpace q) + 1)
    (hdf0 : sig ≠ sigSuccess → ∀ d, df d ≤ df' d) :
    GH df' (resumeFrame (w.modProc p fun y => { y with blocked := none }) p (.oqPut q obj) sig).1 := by
  simp only [Sim.resumeFrame]
  split
  · rename_i hn
    have hi : Inert w (w.modProc p fun y => { y with blocked := none }) := by have h0 := Inert.refl w; inert
    refine (h.gh.inert h.ginv.ei hi).clear' (.oqSpace q) ?_ hdf
    rw [need_eq]; simp only; rw [hn]; rfl
  · rename_i x hx
    have hx' : w.oqs[q]? = some x := hx
    have hon : FrameOn w (.oqPut q obj) x.rear := by simp [FrameOn, hx', oqStat]
    have hL := gs_leave h hfr hon (fun c hc => by cases hc) sig hq
    have hst := stat_leave w p x.rear sig
    split
    · exact gs_oqPutLoop hL (hes.ofStat hst) (hsep.ofStat hst) (setFrame_self _ _ _) (by rw [hst.psize]; exact hlt) q obj hdf hdf1
    · rename_i hs
      exact ⟨hL.hg, hL.gi.mono (hdf0 hs)⟩

end CimbaModel.Sim.S3
