/-
  Invariants of the event kernel model and the lemmas behind the C01 theorems.
-/
import CimbaModel.Event.Model
import CimbaModel.HashHeap.Orders

namespace CimbaModel.Event
open CimbaModel CimbaModel.KPQ CimbaModel.Generated CimbaModel.HashHeap.SpecOrders
open CimbaModel.HashHeap (HTag Item Order)

/-! ### the minimum of a list under a strict weak order -/

theorem minTag_none {lt : Order} {l : KPQ} : minTag lt l = none ↔ l = [] := by
  cases l with
  | nil => simp [minTag]
  | cons x xs =>
    simp only [minTag]
    cases h : minTag lt xs with
    | none => simp
    | some m => simp; split <;> simp

theorem minTag_spec {lt : Order} [sw : StrictWeak lt] :
    ∀ {l : KPQ} {m : HTag}, minTag lt l = some m → m ∈ l ∧ ∀ x ∈ l, lt x m = false := by
  intro l
  induction l with
  | nil => intro m h; simp [minTag] at h
  | cons x xs ih =>
    intro m h
    simp only [minTag] at h
    cases hx : minTag lt xs with
    | none =>
      rw [hx] at h
      have : xs = [] := minTag_none.mp hx
      subst this
      simp at h; subst h
      simp [sw.irrefl]
    | some m' =>
      rw [hx] at h
      have ⟨hm', hmin⟩ := ih hx
      by_cases hlt : lt m' x = true
      · simp [hlt] at h; subst h
        refine ⟨List.mem_cons_of_mem _ hm', ?_⟩
        intro y hy
        rcases List.mem_cons.mp hy with rfl | hy
        · exact StrictWeak.asymm (lt := lt) _ _ hlt
        · exact hmin y hy
      · have hlt' : lt m' x = false := by cases h' : lt m' x <;> simp_all
        simp [hlt'] at h; subst h
        refine ⟨List.mem_cons_self, ?_⟩
        intro y hy
        rcases List.mem_cons.mp hy with rfl | hy
        · exact sw.irrefl _
        · exact sw.negTrans y m' _ (hmin y hy) hlt'

/-! ### keys of modified queues -/

theorem keys_insert (q : KPQ) (t : HTag) : keys (insert q t) = t.key :: keys q := by
  simp [keys, KPQ.insert, norm]

theorem keys_map_same (q : KPQ) (f : HTag → HTag) (hf : ∀ e, (f e).key = e.key) : keys (q.map f) = keys q := by
  simp [keys, List.map_map, Function.comp_def, hf]

theorem mem_keys {q : KPQ} {k : Nat} : k ∈ keys q ↔ ∃ e ∈ q, e.key = k := by
  simp [keys]

theorem keys_filter_perm (q : KPQ) (p : HTag → Bool) :
    (keys (q.filter p) ++ keys (q.filter fun e => !p e)).Perm (keys q) := by
  induction q with
  | nil => simp [keys]
  | cons x xs ih =>
    by_cases hp : p x = true
    · simp only [keys, List.filter_cons, hp, if_true, Bool.not_true, List.map_cons, List.cons_append] at ih ⊢
      simpa using List.Perm.cons x.key ih
    · have hp' : p x = false := by cases h : p x <;> simp_all
      simp only [keys, List.filter_cons, hp', Bool.not_false, if_true, List.map_cons] at ih ⊢
      simp only [Bool.false_eq_true, if_false]
      exact (List.perm_middle).trans (List.Perm.cons x.key ih)

theorem keys_remove_perm (q : KPQ) (h : Nat) (hn : (keys q).Nodup) (hm : h ∈ keys q) :
    (h :: keys (remove q h)).Perm (keys q) := by
  induction q with
  | nil => simp [keys] at hm
  | cons x xs ih =>
    simp only [keys, List.map_cons, List.nodup_cons] at hn
    by_cases hx : x.key = h
    · subst hx
      have hnot : ∀ e ∈ xs, e.key ≠ x.key := by
        intro e he hk; exact hn.1 (by simpa [keys] using ⟨e, he, hk⟩)
      have : remove (x :: xs) x.key = xs := by
        simp only [remove, List.filter_cons]
        simp only [ne_eq, not_true_eq_false, decide_false, Bool.false_eq_true, if_false]
        apply List.filter_eq_self.mpr
        intro e he; simpa using hnot e he

      rw [this]; simp [keys]
    · have hm' : h ∈ keys xs := by
        simp only [keys, List.map_cons, List.mem_cons] at hm
        rcases hm with rfl | hm
        · exact absurd rfl hx
        · exact hm
      have : remove (x :: xs) h = x :: remove xs h := by
        simp [remove, List.filter_cons, hx]
      rw [this]
      simp only [keys, List.map_cons]
      exact (List.Perm.swap _ _ _).trans (List.Perm.cons _ (ih hn.2 hm'))

/-! ### the invariant -/

/-- exactly-once bookkeeping: every handle issued so far (1..counter) is in exactly one of
    pending / executed / cancelled-or-cleared -/
def Partition (q : EvQ) : Prop :=
  (keys q.pending ++ q.executed ++ q.cancelled).Perm (List.range' 1 q.counter)

structure EvInv (q : EvQ) : Prop where
  part : Partition q
  /-- nothing is scheduled in the past -/
  timeOk : ∀ e ∈ q.pending, q.now ≤ e.d

theorem Partition.nodup {q : EvQ} (h : Partition q) : (keys q.pending ++ q.executed ++ q.cancelled).Nodup :=
  (List.Perm.nodup_iff h).mpr (List.nodup_range' (step := 1) (by decide))

theorem Partition.keysNodup {q : EvQ} (h : Partition q) : (keys q.pending).Nodup := by
  have := h.nodup
  rw [List.append_assoc] at this
  exact (List.nodup_append.mp this).1

theorem init_inv (t0 : Int) : EvInv { now := t0 } := by
  constructor
  · simp [Partition, keys]
  · intro e he; simp at he

theorem schedule_inv {q q' : EvQ} {a s o : Nat} {t p : Int} {h : Nat}
    (hi : EvInv q) (hs : schedule q a s o t p = .ok (q', h)) : EvInv q' ∧ h = q.counter + 1 ∧ q'.now = q.now ∧
      q'.current = q.current := by
  unfold schedule at hs
  split at hs
  · simp at hs
  · rename_i hnot
    simp only [Except.ok.injEq, Prod.mk.injEq] at hs
    obtain ⟨rfl, rfl⟩ := hs
    refine ⟨⟨?_, ?_⟩, rfl, rfl, rfl⟩
    · simp only [Partition, keys_insert]
      have hr : List.range' 1 (q.counter + 1) = List.range' 1 q.counter ++ [q.counter + 1] := by
        rw [List.range'_concat]; simp [Nat.add_comm]
      rw [hr]
      have := hi.part
      simp only [Partition] at this
      simp only [List.cons_append]
      exact (List.Perm.cons _ this).trans (List.perm_append_singleton _ _).symm
    · intro e he
      simp only [KPQ.insert, norm, List.mem_cons] at he
      rcases he with rfl | he
      · simp; omega
      · exact hi.timeOk e he

theorem cancel_inv {q : EvQ} (hi : EvInv q) (h : Nat) : EvInv (cancel q h).1 := by
  unfold cancel
  split
  · rename_i hs
    have hm : h ∈ keys q.pending := by simpa [isScheduled] using hs
    refine ⟨?_, ?_⟩
    · simp only [Partition]
      have hp := keys_remove_perm q.pending h hi.part.keysNodup hm
      have := hi.part
      simp only [Partition] at this
      refine List.Perm.trans ?_ this
      -- keys(remove) ++ executed ++ (h :: cancelled)  ~  keys pending ++ executed ++ cancelled
      have h1 : (keys (remove q.pending h) ++ q.executed ++ (h :: q.cancelled)).Perm
          (h :: (keys (remove q.pending h) ++ q.executed ++ q.cancelled)) := List.perm_middle
      refine h1.trans ?_
      have h2 : (h :: (keys (remove q.pending h) ++ q.executed ++ q.cancelled)) =
          ((h :: keys (remove q.pending h)) ++ q.executed ++ q.cancelled) := by simp
      rw [h2]
      exact (hp.append_right _).append_right _
    · intro e he
      simp only [remove, List.mem_filter] at he
      exact hi.timeOk e he.1
  · exact hi

theorem map_inv {q : EvQ} (hi : EvInv q) (f : HTag → HTag) (hk : ∀ e, (f e).key = e.key)
    (ht : ∀ e ∈ q.pending, q.now ≤ (f e).d) : EvInv { q with pending := q.pending.map f } := by
  refine ⟨?_, ?_⟩
  · simp only [Partition, keys_map_same _ f hk]; exact hi.part
  · intro e he
    simp only [List.mem_map] at he
    obtain ⟨e0, he0, rfl⟩ := he
    exact ht e0 he0

theorem reschedule_inv {q q' : EvQ} {h : Nat} {t : Int} (hi : EvInv q) (hs : reschedule q h t = .ok q') :
    EvInv q' ∧ q'.now = q.now ∧ q'.current = q.current := by
  unfold reschedule at hs
  split at hs
  · simp at hs
  · split at hs
    · simp at hs
    · simp only [Except.ok.injEq] at hs; subst hs
      refine ⟨map_inv hi _ ?_ ?_, rfl, rfl⟩
      · intro e; split <;> rfl
      · intro e he; split
        · simp; omega
        · exact hi.timeOk e he

theorem reprioritize_inv {q q' : EvQ} {h : Nat} {p : Int} (hi : EvInv q) (hs : reprioritize q h p = .ok q') :
    EvInv q' ∧ q'.now = q.now ∧ q'.current = q.current := by
  unfold reprioritize at hs
  split at hs
  · simp at hs
  · simp only [Except.ok.injEq] at hs; subst hs
    refine ⟨map_inv hi _ ?_ ?_, rfl, rfl⟩
    · intro e; split <;> rfl
    · intro e he; split
      · exact hi.timeOk e he
      · exact hi.timeOk e he

theorem patternCancel_inv {q : EvQ} (hi : EvInv q) (a s o : Nat) : EvInv (patternCancel q a s o).1 := by
  unfold patternCancel
  refine ⟨?_, ?_⟩
  · simp only [Partition]
    have hp := keys_filter_perm q.pending (evMatch · a s o)
    have := hi.part
    simp only [Partition] at this
    refine List.Perm.trans ?_ this
    -- keys(filter !m) ++ ex ++ (keys(filter m) ++ canc) ~ keys pending ++ ex ++ canc
    have e1 : (keys (q.pending.filter fun e => !evMatch e a s o) ++ q.executed ++
        ((q.pending.filter (evMatch · a s o)).map (·.key) ++ q.cancelled)).Perm
        ((keys (q.pending.filter (evMatch · a s o)) ++ keys (q.pending.filter fun e => !evMatch e a s o)) ++
          q.executed ++ q.cancelled) := by
      simp only [keys, List.append_assoc]
      refine List.Perm.trans ?_ (List.perm_append_comm_assoc _ _ _)
      refine List.Perm.append_left _ ?_
      refine List.Perm.trans ?_ (List.perm_append_comm_assoc _ _ _)
      exact List.Perm.refl _
    exact e1.trans ((hp.append_right _).append_right _)
  · intro e he
    simp only [List.mem_filter] at he
    exact hi.timeOk e he.1

theorem clear_inv {q : EvQ} (hi : EvInv q) : EvInv (clear q) := by
  unfold clear
  refine ⟨?_, by intro e he; simp at he⟩
  simp only [Partition, keys, List.map_nil, List.nil_append]
  have := hi.part
  simp only [Partition, keys] at this
  refine List.Perm.trans ?_ this
  simp only [List.append_assoc]
  exact List.perm_append_comm_assoc _ _ _

theorem executeNext_inv {q q' : EvQ} {e : HTag} (hi : EvInv q) (hs : executeNext q = some (e, q')) :
    EvInv q' ∧ e ∈ q.pending ∧ (∀ x ∈ q.pending, heap_order_check x e = false) ∧
      q'.now = e.d ∧ q'.current = e.key ∧ q.now ≤ q'.now ∧ q'.executed = e.key :: q.executed ∧
      q'.pending = remove q.pending e.key := by
  unfold executeNext at hs
  split at hs
  · simp at hs
  · rename_i m hm
    simp only [Option.some.injEq, Prod.mk.injEq] at hs
    obtain ⟨rfl, rfl⟩ := hs
    have ⟨hmem, hmin⟩ := minTag_spec hm
    refine ⟨⟨?_, ?_⟩, hmem, hmin, rfl, rfl, hi.timeOk _ hmem, rfl, rfl⟩
    · simp only [Partition]
      have hk : m.key ∈ keys q.pending := mem_keys.mpr ⟨m, hmem, rfl⟩
      have hp := keys_remove_perm q.pending m.key hi.part.keysNodup hk
      have := hi.part
      simp only [Partition] at this
      refine List.Perm.trans ?_ this
      have h1 : (keys (remove q.pending m.key) ++ (m.key :: q.executed) ++ q.cancelled).Perm
          (m.key :: (keys (remove q.pending m.key) ++ q.executed ++ q.cancelled)) := by
        simp only [List.append_assoc]
        exact List.perm_middle
      refine h1.trans ?_
      have h2 : (m.key :: (keys (remove q.pending m.key) ++ q.executed ++ q.cancelled)) =
          ((m.key :: keys (remove q.pending m.key)) ++ q.executed ++ q.cancelled) := by simp
      rw [h2]
      exact (hp.append_right _).append_right _
    · intro x hx
      simp only [remove, List.mem_filter] at hx
      -- the dequeued event is minimal: nothing pending is earlier than it
      have hx1 := hmin x hx.1
      have : ¬ eventLt x m := by
        intro hc; rw [← CimbaModel.HashHeap.Orders.heap_order_check_iff] at hc; rw [hx1] at hc; exact absurd hc (by simp)
      unfold eventLt at this
      show m.d ≤ x.d
      omega

theorem step_inv {q q' : EvQ} {op : Op} (hi : EvInv q) (hs : step q op = .ok q') : EvInv q' ∧ q.now ≤ q'.now := by
  cases op with
  | sched a s o t p =>
    simp only [step] at hs
    cases h : schedule q a s o t p with
    | error f => rw [h] at hs; simp [Except.map] at hs
    | ok r =>
      rw [h] at hs; simp only [Except.map, Except.ok.injEq] at hs; subst hs
      obtain ⟨q1, hh⟩ := r
      have := schedule_inv hi h
      exact ⟨this.1, by rw [this.2.2.1]; exact Int.le_refl _⟩
  | cancel h =>
    simp only [step, Except.ok.injEq] at hs; subst hs
    refine ⟨cancel_inv hi h, ?_⟩
    unfold cancel; split <;> exact Int.le_refl _
  | resched h t =>
    simp only [step] at hs
    have := reschedule_inv hi hs
    exact ⟨this.1, by rw [this.2.1]; exact Int.le_refl _⟩
  | reprio h p =>
    simp only [step] at hs
    have := reprioritize_inv hi hs
    exact ⟨this.1, by rw [this.2.1]; exact Int.le_refl _⟩
  | pcancel a s o =>
    simp only [step, Except.ok.injEq] at hs; subst hs
    exact ⟨patternCancel_inv hi a s o, Int.le_refl _⟩
  | clear =>
    simp only [step, Except.ok.injEq] at hs; subst hs
    exact ⟨clear_inv hi, Int.le_refl _⟩
  | next =>
    simp only [step] at hs
    cases h : executeNext q with
    | none => rw [h] at hs; simp only [Except.ok.injEq] at hs; subst hs; exact ⟨hi, Int.le_refl _⟩
    | some r =>
      obtain ⟨e, q1⟩ := r
      rw [h] at hs; simp only [Except.ok.injEq] at hs; subst hs
      have := executeNext_inv hi h
      exact ⟨this.1, this.2.2.2.2.2.1⟩

theorem run_inv : ∀ (ops : List Op) {q q' : EvQ}, EvInv q → run q ops = .ok q' → EvInv q' ∧ q.now ≤ q'.now := by
  intro ops
  induction ops with
  | nil => intro q q' hi hr; simp only [run, Except.ok.injEq] at hr; subst hr; exact ⟨hi, Int.le_refl _⟩
  | cons op ops ih =>
    intro q q' hi hr
    simp only [run] at hr
    cases hs : step q op with
    | error f => rw [hs] at hr; simp [bind, Except.bind] at hr
    | ok q1 =>
      rw [hs] at hr; simp only [bind, Except.bind] at hr
      have h1 := step_inv hi hs
      have h2 := ih h1.1 hr
      exact ⟨h2.1, Int.le_trans h1.2 h2.2⟩

end CimbaModel.Event
