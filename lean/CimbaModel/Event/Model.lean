/-
  The event kernel (src/cmb_event.c) over the abstract keyed priority queue (DESIGN.md §3.3).

  An event is a tag with payload (action, subject, object, 0), sort keys (time, priority) and the
  handle as key.  The queue is the KPQ specification; the concrete hashheap refines it (C02).
  `executed`, `cancelled` are ghost history (the implementation has no such fields); they carry
  the exactly-once statement.  Core Lean only (linked into the compiled driver evmain).
-/
import CimbaModel.Basic.KeyedPQ
import CimbaModel.Generated.Orders

namespace CimbaModel.Event
open CimbaModel CimbaModel.KPQ CimbaModel.Generated
open CimbaModel.HashHeap (HTag Item Order)

structure EvQ where
  now : Int := 0
  pending : KPQ := []
  counter : Nat := 0
  /-- handle of the event being (or last) executed, 0 if none -/
  current : Nat := 0
  /-- ghost: handles executed so far, most recent first -/
  executed : List Nat := []
  /-- ghost: handles cancelled or cleared so far -/
  cancelled : List Nat := []
  deriving Repr

/-- `CMB_ANY_ACTION / SUBJECT / OBJECT` -/
def anyWord : Nat := 2 ^ 64 - 1

def evMatch (t : HTag) (a s o : Nat) : Bool :=
  (a = t.item.a ∨ a = anyWord) ∧ (s = t.item.b ∨ s = anyWord) ∧ (o = t.item.c ∨ o = anyWord)

/-- the entry that goes before all others under `lt` (first such in list order) -/
def minTag (lt : Order) : KPQ → Option HTag
  | [] => none
  | x :: xs =>
    match minTag lt xs with
    | none => some x
    | some m => if lt m x then some m else some x

inductive Op where
  | sched (act subj obj : Nat) (t pri : Int)
  | cancel (h : Nat)
  | resched (h : Nat) (t : Int)
  | reprio (h : Nat) (p : Int)
  | pcancel (a s o : Nat)
  | clear
  | next
  deriving Repr

/-- `cmb_event_schedule`: release-asserts `time >= sim_time` -/
def schedule (q : EvQ) (act subj obj : Nat) (t pri : Int) : Except Fault (EvQ × Nat) :=
  if t < q.now then .error (.assert 170)
  else
    let h := q.counter + 1
    .ok ({ q with pending := insert q.pending { key := h, item := ⟨act, subj, obj, 0⟩, d := t, i := pri },
                  counter := h }, h)

/-- `cmb_event_is_scheduled` -/
def isScheduled (q : EvQ) (h : Nat) : Bool := h ∈ keys q.pending

/-- `cmb_event_cancel`: `false` if the handle is not scheduled (whatever else is or is not queued) -/
def cancel (q : EvQ) (h : Nat) : EvQ × Bool :=
  if isScheduled q h then ({ q with pending := remove q.pending h, cancelled := h :: q.cancelled }, true)
  else (q, false)

/-- `cmb_event_reschedule`: the handle must be scheduled and the new time not in the past -/
def reschedule (q : EvQ) (h : Nat) (t : Int) : Except Fault EvQ :=
  if t < q.now then .error (.assert 336)
  else if ¬ isScheduled q h then .error (.assert 339)
  else .ok { q with pending := q.pending.map fun e => if e.key = h then { e with d := t } else e }

/-- `cmb_event_reprioritize` -/
def reprioritize (q : EvQ) (h : Nat) (p : Int) : Except Fault EvQ :=
  if ¬ isScheduled q h then .error (.assert 356)
  else .ok { q with pending := q.pending.map fun e => if e.key = h then { e with i := p } else e }

/-- `cmb_event_time` / `cmb_event_priority`: the handle must be scheduled -/
def timeOf (q : EvQ) (h : Nat) : Except Fault Int :=
  match lookup q.pending h with
  | some e => .ok e.d
  | none => .error (.assert 560)

def priorityOf (q : EvQ) (h : Nat) : Except Fault Int :=
  match lookup q.pending h with
  | some e => .ok e.i
  | none => .error (.assert 560)

def patternCount (q : EvQ) (a s o : Nat) : Nat := (q.pending.filter (evMatch · a s o)).length

/-- `cmb_event_pattern_find`: some matching handle, 0 if none (which one is unspecified) -/
def patternFind (q : EvQ) (a s o : Nat) : Nat :=
  match q.pending.find? (evMatch · a s o) with
  | some e => e.key
  | none => 0

/-- `cmb_event_pattern_cancel` -/
def patternCancel (q : EvQ) (a s o : Nat) : EvQ × Nat :=
  let ms := q.pending.filter (evMatch · a s o)
  ({ q with pending := q.pending.filter (fun e => !evMatch e a s o), cancelled := ms.map (·.key) ++ q.cancelled },
   ms.length)

/-- `cmb_event_queue_clear` -/
def clear (q : EvQ) : EvQ :=
  { q with pending := [], cancelled := keys q.pending ++ q.cancelled }

/-- `cmb_event_execute_next` up to the call of the action: dequeue the minimum, advance the clock,
    make it the current event -/
def executeNext (q : EvQ) : Option (HTag × EvQ) :=
  match minTag heap_order_check q.pending with
  | none => none
  | some e =>
    some (e, { q with pending := remove q.pending e.key, now := e.d, current := e.key,
                      executed := e.key :: q.executed })

def step (q : EvQ) : Op → Except Fault EvQ
  | .sched a s o t p => (schedule q a s o t p).map (·.1)
  | .cancel h => .ok (cancel q h).1
  | .resched h t => reschedule q h t
  | .reprio h p => reprioritize q h p
  | .pcancel a s o => .ok (patternCancel q a s o).1
  | .clear => .ok (clear q)
  | .next => match executeNext q with
    | some (_, q') => .ok q'
    | none => .ok q

def run (q : EvQ) : List Op → Except Fault EvQ
  | [] => .ok q
  | op :: ops => do
    let q' ← step q op
    run q' ops

end CimbaModel.Event
