/-
  The event kernel over the CONCRETE hashheap (what src/cmb_event.c really runs on) simulates the
  event kernel over the abstract keyed priority queue (Event/Model.lean), on which the C01
  theorems are stated.  The simulation relation is: the live tags of the hashheap, back-pointers
  forgotten, are a permutation of the abstract pending list; clock, current event and handle
  counter agree.  The steps are discharged by the refinement theorems of C02.
-/
import CimbaModel.Event.Lemmas
import CimbaModel.Props.C02

namespace CimbaModel.Event
open CimbaModel CimbaModel.KPQ CimbaModel.Generated
open CimbaModel.HashHeap (HTag Item Order HH WF abs)

/-- event queue state as in src/cmb_event.c: the clock, the hashheap, the handle of the current event -/
structure EvC where
  now : Int
  hh : HH
  current : Nat

/-- `cmb_event_schedule` on the concrete queue -/
def scheduleC (c : EvC) (act subj obj : Nat) (t pri : Int) : Except Fault (EvC × Nat) :=
  if t < c.now then .error (.assert 170)
  else do
    let (hh', h) ← HashHeap.enqueue heap_order_check c.hh ⟨act, subj, obj, 0⟩ 0 t pri
    .ok ({ c with hh := hh' }, h)

/-- `cmb_event_execute_next` up to the call of the action -/
def executeNextC (c : EvC) : Except Fault (Option (HTag × EvC)) := do
  let (hh', r) ← HashHeap.dequeue heap_order_check c.hh
  match r with
  | none => .ok none
  | some e => .ok (some (e, { now := e.d, hh := hh', current := e.key }))

/-- `cmb_event_cancel` (without the waiters, which belong to the process layer) -/
def cancelC (c : EvC) (h : Nat) : Except Fault (EvC × Bool) := do
  let b ← HashHeap.isEnqueued c.hh h
  if b then
    let (hh', _) ← HashHeap.remove heap_order_check c.hh h
    .ok ({ c with hh := hh' }, true)
  else .ok (c, false)

/-- the simulation relation -/
structure Sim (c : EvC) (q : EvQ) : Prop where
  wf : WF heap_order_check c.hh
  perm : (abs c.hh).Perm q.pending
  now : c.now = q.now
  current : c.current = q.current
  counter : c.hh.counter = q.counter

theorem keys_perm {l₁ l₂ : KPQ} (h : l₁.Perm l₂) : (keys l₁).Perm (keys l₂) := h.map _

/-- under the exactly-once bookkeeping every pending handle is at most the counter -/
theorem pending_key_le {q : EvQ} (hi : EvInv q) {k : Nat} (hk : k ∈ keys q.pending) : 1 ≤ k ∧ k ≤ q.counter := by
  have hm : k ∈ keys q.pending ++ q.executed ++ q.cancelled :=
    List.mem_append_left _ (List.mem_append_left _ hk)
  have := (hi.part.mem_iff).mp hm
  simp [List.mem_range'] at this
  omega

/-- scheduling: the concrete queue issues the same handle and stays in simulation -/
theorem schedule_sim {c : EvC} {q : EvQ} (hs : Sim c q) (hi : EvInv q) (act subj obj : Nat) (t pri : Int)
    (ht : q.now ≤ t) (h64 : q.counter + 1 < 2 ^ 64) (hroom : c.hh.count < 2 ^ c.hh.exp ∨ c.hh.exp < 31) :
    ∃ c' q' h, scheduleC c act subj obj t pri = .ok (c', h) ∧ schedule q act subj obj t pri = .ok (q', h) ∧
      Sim c' q' ∧ h = q.counter + 1 := by
  have hfresh : c.hh.counter + 1 ∉ keys (abs c.hh) := by
    intro hk
    have : c.hh.counter + 1 ∈ keys q.pending := ((keys_perm hs.perm).mem_iff).mp hk
    have := pending_key_le hi this
    rw [hs.counter] at this; omega
  obtain ⟨hh', hrun, hwf', hperm', hct'⟩ :=
    CimbaModel.Props.C02.enqueue_refines (lt := heap_order_check) hs.wf ⟨act, subj, obj, 0⟩ 0 t pri
      (by simp) (by simp; rw [hs.counter]; exact h64) (by simpa using hfresh) hroom
  simp only [if_true] at hrun hperm'
  have hnot : ¬ t < c.now := by rw [hs.now]; omega
  have hnotq : ¬ t < q.now := by omega
  refine ⟨{ c with hh := hh' },
    { q with pending := KPQ.insert q.pending { key := q.counter + 1, item := ⟨act, subj, obj, 0⟩, d := t, i := pri },
             counter := q.counter + 1 },
    c.hh.counter + 1, ?_, ?_, ?_, by rw [hs.counter]⟩
  · simp [scheduleC, hnot, hrun, bind, Except.bind]
  · simp only [schedule, hnotq, if_false]
    rw [hs.counter]
  · refine ⟨hwf', ?_, hs.now, hs.current, ?_⟩
    · refine hperm'.trans ?_
      simp only [KPQ.insert, KPQ.norm]
      rw [hs.counter]
      exact List.Perm.cons _ hs.perm
    · simp only []
      rw [hct', hs.counter]

/-- removing by key from a duplicate-free queue drops exactly that entry -/
theorem remove_perm : ∀ (l : KPQ) (e : HTag), e ∈ l → (keys l).Nodup → (e :: KPQ.remove l e.key).Perm l := by
  intro l
  induction l with
  | nil => intro e he; simp at he
  | cons y ys ih =>
    intro e he hn
    simp only [keys, List.map_cons, List.nodup_cons] at hn
    by_cases hy : y.key = e.key
    · have hey : e = y := by
        rcases List.mem_cons.mp he with h | h
        · exact h
        · exfalso; apply hn.1; rw [hy]; exact List.mem_map.mpr ⟨e, h, rfl⟩
      subst hey
      have hnot : ∀ x ∈ ys, x.key ≠ e.key := by
        intro x hx hk; apply hn.1; rw [← hk]; exact List.mem_map.mpr ⟨x, hx, rfl⟩
      have : KPQ.remove (e :: ys) e.key = ys := by
        simp only [KPQ.remove, List.filter_cons]
        simp only [ne_eq, not_true_eq_false, decide_false, Bool.false_eq_true, if_false]
        apply List.filter_eq_self.mpr
        intro x hx; simpa using hnot x hx
      rw [this]
    · have he' : e ∈ ys := by
        rcases List.mem_cons.mp he with h | h
        · exact absurd (by rw [h]) hy
        · exact h
      have : KPQ.remove (y :: ys) e.key = y :: KPQ.remove ys e.key := by
        simp [KPQ.remove, List.filter_cons, hy]
      rw [this]
      exact (List.Perm.swap _ _ _).trans (List.Perm.cons _ (ih e he' hn.2))

/-- two minima of permutation-equivalent duplicate-free queues coincide -/
theorem isMin_perm_unique {l₁ l₂ : KPQ} (hp : l₁.Perm l₂) (hn : (keys l₁).Nodup) {e e' : HTag}
    (he : IsMin heap_order_check l₁ e) (he' : e' ∈ l₂ ∧ ∀ x ∈ l₂, heap_order_check x e' = false) : e = e' := by
  have he'1 : IsMin heap_order_check l₁ e' :=
    ⟨hp.mem_iff.mpr he'.1, fun x hx => he'.2 x (hp.mem_iff.mp hx)⟩
  exact CimbaModel.HashHeap.isMin_unique hn he he'1

/-- dispatch: the concrete queue dequeues the same event, sets the same clock and current event -/
theorem executeNext_sim {c : EvC} {q : EvQ} (hs : Sim c q) :
    (c.hh.count = 0 → executeNextC c = .ok none ∧ executeNext q = none) ∧
    (0 < c.hh.count → ∃ e c' q', executeNextC c = .ok (some (e, c')) ∧ executeNext q = some (norm e, q') ∧ Sim c' q') := by
  constructor
  · intro h0
    have hempty : abs c.hh = [] := by
      have := CimbaModel.Props.C02.count_eq c.hh
      rw [h0] at this
      exact List.length_eq_zero_iff.mp this
    have hq : q.pending = [] := by
      have := hs.perm; rw [hempty] at this; exact List.Perm.nil_eq this |>.symm
    refine ⟨?_, ?_⟩
    · simp [executeNextC, CimbaModel.Props.C02.dequeue_empty (lt := heap_order_check) c.hh h0, bind, Except.bind]
    · simp [executeNext, hq, minTag]
  · intro hpos
    obtain ⟨hh', hrun, hwf', hperm', _, _, _, hct⟩ :=
      CimbaModel.HashHeap.dequeue_abs (lt := heap_order_check) hs.wf hpos
    have hmin := CimbaModel.HashHeap.root_isMin_abs (lt := heap_order_check) hs.wf hpos
    have hne : q.pending ≠ [] := by
      intro hq
      have := hs.perm; rw [hq] at this
      have h0 : (abs c.hh).length = 0 := by rw [List.Perm.eq_nil this]; rfl
      rw [CimbaModel.Props.C02.count_eq] at h0; omega
    cases hm : minTag heap_order_check q.pending with
    | none => exact absurd (minTag_none.mp hm) hne
    | some m =>
      have hspec := minTag_spec hm
      have heq : norm (c.hh.tag 1) = m :=
        isMin_perm_unique hs.perm (CimbaModel.Props.C02.keys_nodup hs.wf) hmin hspec
      refine ⟨c.hh.tag 1, { now := (c.hh.tag 1).d, hh := hh', current := (c.hh.tag 1).key },
        { q with pending := KPQ.remove q.pending m.key, now := m.d, current := m.key, executed := m.key :: q.executed },
        ?_, ?_, ?_⟩
      · simp [executeNextC, hrun, bind, Except.bind]
      · simp only [executeNext, hm, heq]
      · subst heq
        refine ⟨hwf', ?_, by simp [KPQ.norm], by simp [KPQ.norm], ?_⟩
        · have hnd : (keys q.pending).Nodup :=
            ((keys_perm hs.perm).nodup_iff).mp (CimbaModel.Props.C02.keys_nodup hs.wf)
          have h1 : (norm (c.hh.tag 1) :: abs hh').Perm q.pending := hperm'.symm.trans hs.perm
          have hrem := remove_perm q.pending (norm (c.hh.tag 1)) hspec.1 hnd
          exact List.Perm.cons_inv (h1.trans hrem.symm)
        · show hh'.counter = q.counter
          rw [hct, hs.counter]

/-- cancelling: same answer, still in simulation -/
theorem cancel_sim {c : EvC} {q : EvQ} (hs : Sim c q) (h : Nat) (h0 : h ≠ 0) :
    ∃ c', cancelC c h = .ok (c', (cancel q h).2) ∧ Sim c' { (cancel q h).1 with cancelled := q.cancelled } := by
  have hmem : (h ∈ keys (abs c.hh)) ↔ (h ∈ keys q.pending) := (keys_perm hs.perm).mem_iff
  have hq := CimbaModel.Props.C02.isEnqueued_correct (lt := heap_order_check) hs.wf h h0
  by_cases hin : h ∈ keys q.pending
  · obtain ⟨hh', hrun, hwf', hperm'⟩ := CimbaModel.Props.C02.remove_refines (lt := heap_order_check) hs.wf h h0
    have hdec : decide (h ∈ keys (abs c.hh)) = true := by simpa using hmem.mpr hin
    refine ⟨{ c with hh := hh' }, ?_, ?_⟩
    · simp [cancelC, hq, hdec, hrun, bind, Except.bind, cancel, isScheduled, hin]
    · have hcq : (cancel q h).1.pending = KPQ.remove q.pending h := by simp [cancel, isScheduled, hin]
      refine ⟨hwf', ?_, by simp [cancel, isScheduled, hin, hs.now], by simp [cancel, isScheduled, hin, hs.current], ?_⟩
      · simp only [hcq]
        refine hperm'.trans ?_
        exact List.Perm.filter _ hs.perm
      · have : hh'.counter = c.hh.counter := by
          have := CimbaModel.HashHeap.remove_abs (lt := heap_order_check) hs.wf h h0
          obtain ⟨s2, hrun2, _, _, rest⟩ := this
          rw [hrun] at hrun2
          injection hrun2 with e1
          injection e1 with e2
          subst e2
          exact rest.2.2.1
        simp [cancel, isScheduled, hin, this, hs.counter]
  · have hdec : decide (h ∈ keys (abs c.hh)) = false := by simpa using (fun hh => hin (hmem.mp hh))
    refine ⟨c, ?_, ?_⟩
    · simp [cancelC, hq, hdec, bind, Except.bind, cancel, isScheduled, hin]
    · simp only [cancel, isScheduled, hin]
      simp
      exact ⟨hs.wf, hs.perm, hs.now, hs.current, hs.counter⟩

end CimbaModel.Event
