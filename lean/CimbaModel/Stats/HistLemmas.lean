/-
  Correctness of the histogram model of Hist.lean, for every bin count, every range and sample
  lists of any length (induction over the list, no enumeration):
  * `binOf_lt`: the bin index of every x-value is inside the `nb + 2` slots;
  * `fill_spec`, `fillW_spec`: the fill loops never leave the array, bin `j` holds exactly the weight
    of the samples whose bin index is `j`, the bins add up to the total weight;
  * `histPrepare_ok`: the range / bin-count preparation yields `1 ≤ nb ≤ numBins` and `low < high`;
  * `histDataset_total`, `histSeries_total`: the two print functions are defined for every request;
  * `binOf_eq_intervalOf`: the floor-based bin index is the index of the printed interval that
    contains `x` (`Monitor.C18.intervalOf`, a linear search without floor).
-/
import CimbaModel.Stats.Hist
import CimbaModel.Monitor.C18
import Mathlib.Data.Rat.Floor
import Mathlib.Tactic.Linarith
import Mathlib.Tactic.FieldSimp
import Mathlib.Tactic.Positivity

namespace CimbaModel.Stats

/-! ### well-formed accumulator histograms -/

/-- the accumulator of a fill loop started from `Hist.create nb lo hi`: only the bins change -/
structure HistWF (nb : Nat) (lo hi : Rat) (h : Hist) : Prop where
  nb_eq : h.nb = nb
  low_eq : h.low = lo
  high_eq : h.high = hi
  binsize_eq : h.binsize = (hi - lo) / nb
  size_eq : h.bins.size = nb + 2

theorem create_wf (nb : Nat) (lo hi : Rat) : HistWF nb lo hi (Hist.create nb lo hi) :=
  ⟨rfl, rfl, rfl, rfl, by simp [Hist.create]⟩

/-- `binOf` only reads `nb`, `low`, `high`, `binsize` -/
theorem binOf_of_wf {nb : Nat} {lo hi : Rat} {h : Hist} (wf : HistWF nb lo hi h) (x : Rat) :
    h.binOf x = (Hist.create nb lo hi).binOf x := by
  obtain ⟨nb', lo', hi', bs', bins'⟩ := h
  obtain ⟨a, b, c, d, _⟩ := wf
  simp only at a b c d
  subst a b c d
  rfl

/-- `binOf` of a fresh histogram, unfolded -/
theorem binOf_create (nb : Nat) (lo hi x : Rat) :
    (Hist.create nb lo hi).binOf x =
      if x < lo then 0 else if x > hi then nb + 1
      else (1 + (((x - lo) / ((hi - lo) / (nb : Rat))).floor.toNat % 65536)) % 65536 := rfl

/-! ### the bin index -/

theorem binsize_pos {nb : Nat} {lo hi : Rat} (hnb : 0 < nb) (hlh : lo < hi) : 0 < (hi - lo) / (nb : Rat) :=
  div_pos (sub_pos.2 hlh) (Nat.cast_pos.2 hnb)

theorem nb_mul_binsize {nb : Nat} (lo hi : Rat) (hnb : 0 < nb) : (nb : Rat) * ((hi - lo) / (nb : Rat)) = hi - lo := by
  have : (nb : Rat) ≠ 0 := Nat.cast_ne_zero.2 (by omega)
  field_simp

/-- inside the range the quotient is in `[0, nb]`, so is its floor -/
theorem floor_bounds {nb : Nat} {lo hi : Rat} (hnb : 0 < nb) (hlh : lo < hi) {x : Rat} (h1 : lo ≤ x) (h2 : x ≤ hi) :
    0 ≤ ((x - lo) / ((hi - lo) / (nb : Rat))).floor ∧ ((x - lo) / ((hi - lo) / (nb : Rat))).floor ≤ (nb : Int) := by
  have hbs := binsize_pos hnb hlh
  constructor
  · rw [Rat.le_floor_iff]
    have : 0 ≤ (x - lo) / ((hi - lo) / (nb : Rat)) := div_nonneg (sub_nonneg.2 h1) hbs.le
    simpa using this
  · have hq : (x - lo) / ((hi - lo) / (nb : Rat)) ≤ (nb : Rat) := by
      rw [div_le_iff₀ hbs, nb_mul_binsize lo hi hnb]; linarith
    have : ((x - lo) / ((hi - lo) / (nb : Rat))).floor < (nb : Int) + 1 := by
      rw [Rat.floor_lt_iff]; push_cast; linarith
    omega

/-- every x-value gets a bin index inside the nb + 2 slots (0 = underflow, nb + 1 = overflow) -/
theorem binOf_lt (nb : Nat) (lo hi : Rat) (hnb : 0 < nb) (hnb2 : nb < 65535) (hlh : lo < hi) (x : Rat) :
    (Hist.create nb lo hi).binOf x < nb + 2 := by
  rw [binOf_create]
  split
  · omega
  · split
    · omega
    · rename_i h1 h2
      obtain ⟨f0, f1⟩ := floor_bounds hnb hlh (not_lt.1 h1) (not_lt.1 h2)
      have : ((x - lo) / ((hi - lo) / (nb : Rat))).floor.toNat ≤ nb := Int.toNat_le.2 f1
      omega

/-! ### `Array.modify` on the bins -/

theorem getElem!_modify_add (a : Array Rat) (b j : Nat) (w : Rat) (hb : b < a.size) :
    (a.modify b (· + w))[j]! = if j = b then a[j]! + w else a[j]! := by
  by_cases hj : j < a.size
  · have hj' : j < (a.modify b (· + w)).size := by simpa using hj
    rw [getElem!_pos _ j hj', Array.getElem_modify, getElem!_pos a j hj]
    by_cases hjb : j = b
    · subst hjb; simp
    · rw [if_neg (Ne.symm hjb), if_neg hjb]
  · have hj' : ¬ j < (a.modify b (· + w)).size := by simpa using hj
    have hjb : j ≠ b := by omega
    rw [getElem!_neg _ j hj', getElem!_neg a j hj, if_neg hjb]

theorem sum_modify_add (w : Rat) : ∀ (l : List Rat) (b : Nat), b < l.length → (l.modify b (· + w)).sum = l.sum + w
  | [], _, h => by simp at h
  | a :: l, 0, _ => by simp [List.modify_zero_cons]; ring
  | a :: l, b + 1, h => by
    have hb : b < l.length := by simpa using h
    simp [List.modify_succ_cons, sum_modify_add w l b hb]; ring

/-! ### one `+=` -/

theorem addTo_spec {nb : Nat} {lo hi : Rat} (hnb : 0 < nb) (hnb2 : nb < 65535) (hlh : lo < hi)
    {h : Hist} (wf : HistWF nb lo hi h) (x w : Rat) :
    ∃ h', h.addTo x w = some h' ∧ HistWF nb lo hi h' ∧
      (∀ j, h'.bins[j]! = if j = (Hist.create nb lo hi).binOf x then h.bins[j]! + w else h.bins[j]!) ∧
      h'.bins.toList.sum = h.bins.toList.sum + w := by
  have hb : h.binOf x < h.bins.size := by
    rw [binOf_of_wf wf, wf.size_eq]; exact binOf_lt nb lo hi hnb hnb2 hlh x
  refine ⟨{ h with bins := h.bins.modify (h.binOf x) (· + w) }, ?_, ?_, ?_, ?_⟩
  · simp only [Hist.addTo, if_pos hb]
  · exact ⟨wf.nb_eq, wf.low_eq, wf.high_eq, wf.binsize_eq, by simpa using wf.size_eq⟩
  · intro j
    rw [← binOf_of_wf wf]
    exact getElem!_modify_add h.bins (h.binOf x) j w hb
  · show (h.bins.modify (h.binOf x) (· + w)).toList.sum = _
    rw [Array.toList_modify]
    exact sum_modify_add w _ _ (by simpa using hb)

/-! ### the fill loops: both are `addAll` over a list of (x, weight) pairs -/

/-- `for (...) hp->hbins[binOf x] += w;` -/
def Hist.addAll (h : Hist) : List (Rat × Rat) → Option Hist
  | [] => some h
  | p :: r => (h.addTo p.1 p.2).bind (·.addAll r)

theorem fill_eq_addAll : ∀ (xs : List Rat) (h : Hist), h.fill xs = h.addAll (xs.map fun x => (x, 1))
  | [], _ => rfl
  | x :: xs, h => by
    simp only [Hist.fill, List.map_cons, Hist.addAll]
    cases h.addTo x 1 with
    | none => rfl
    | some h1 => exact fill_eq_addAll xs h1

theorem fillW_eq_addAll : ∀ (xw : List (Rat × Rat)) (h : Hist), h.fillW xw = h.addAll xw.dropLast
  | [], _ => rfl
  | [_], _ => rfl
  | (x, w) :: q :: r, h => by
    simp only [Hist.fillW, List.dropLast_cons_cons, Hist.addAll]
    cases h.addTo x w with
    | none => rfl
    | some h1 => exact fillW_eq_addAll (q :: r) h1

theorem addAll_spec {nb : Nat} {lo hi : Rat} (hnb : 0 < nb) (hnb2 : nb < 65535) (hlh : lo < hi) :
    ∀ (l : List (Rat × Rat)) (h : Hist), HistWF nb lo hi h →
    ∃ h', h.addAll l = some h' ∧ HistWF nb lo hi h' ∧
      (∀ j, h'.bins[j]! = h.bins[j]! +
        ((l.filter fun p => (Hist.create nb lo hi).binOf p.1 = j).map (·.2)).sum) ∧
      h'.bins.toList.sum = h.bins.toList.sum + (l.map (·.2)).sum
  | [], h, wf => ⟨h, rfl, wf, by simp, by simp⟩
  | p :: r, h, wf => by
    obtain ⟨h1, e1, wf1, g1, s1⟩ := addTo_spec hnb hnb2 hlh wf p.1 p.2
    obtain ⟨h2, e2, wf2, g2, s2⟩ := addAll_spec hnb hnb2 hlh r h1 wf1
    refine ⟨h2, ?_, wf2, ?_, ?_⟩
    · simp only [Hist.addAll, e1, Option.bind_some, e2]
    · intro j
      rw [g2 j, g1 j, List.filter_cons]
      by_cases hj : (Hist.create nb lo hi).binOf p.1 = j
      · rw [if_pos hj.symm]; simp [hj]; ring
      · rw [if_neg (Ne.symm hj)]; simp [hj]
    · rw [s2, s1]; simp; ring

theorem create_bins_getElem! (nb : Nat) (lo hi : Rat) (j : Nat) : (Hist.create nb lo hi).bins[j]! = 0 := by
  by_cases hj : j < nb + 2
  · have : j < (Hist.create nb lo hi).bins.size := by simpa [Hist.create] using hj
    rw [getElem!_pos _ j this]; simp [Hist.create]
  · have : ¬ j < (Hist.create nb lo hi).bins.size := by simpa [Hist.create] using hj
    rw [getElem!_neg _ j this]; rfl

theorem create_bins_sum (nb : Nat) (lo hi : Rat) : (Hist.create nb lo hi).bins.toList.sum = 0 := by
  simp [Hist.create]

theorem unit_weight_sum (q : Rat → Bool) (xs : List Rat) :
    (((xs.map fun x => (x, (1 : Rat))).filter fun p => q p.1).map (·.2)).sum = ((xs.filter q).length : Rat) := by
  induction xs with
  | nil => simp
  | cons x xs ih =>
    rw [List.map_cons, List.filter_cons, List.filter_cons]
    cases hq : q x
    · simpa using ih
    · simp only [if_true, List.map_cons, List.sum_cons, List.length_cons, ih]; push_cast; ring

/-- `cmi_dataset_histogram_fill`: never out of bounds; bin j holds exactly the number of samples whose bin index is j
    (so every sample is counted exactly once), and the bins add up to the number of samples -/
theorem fill_spec (nb : Nat) (lo hi : Rat) (hnb : 0 < nb) (hnb2 : nb < 65535) (hlh : lo < hi) (xs : List Rat) :
    ∃ h', (Hist.create nb lo hi).fill xs = some h' ∧ h'.nb = nb ∧ h'.low = lo ∧ h'.high = hi ∧ h'.bins.size = nb + 2 ∧
      (∀ j, j < nb + 2 → h'.bins[j]! = ((xs.filter fun x => (Hist.create nb lo hi).binOf x = j).length : Rat)) ∧
      h'.bins.toList.sum = (xs.length : Rat) := by
  obtain ⟨h', e, wf, g, s⟩ := addAll_spec hnb hnb2 hlh (xs.map fun x => (x, 1)) _ (create_wf nb lo hi)
  refine ⟨h', by rw [fill_eq_addAll, e], wf.nb_eq, wf.low_eq, wf.high_eq, wf.size_eq, ?_, ?_⟩
  · intro j _
    rw [g j, create_bins_getElem!, zero_add]
    exact unit_weight_sum (fun x => decide ((Hist.create nb lo hi).binOf x = j)) xs
  · rw [s, create_bins_sum, zero_add]
    have := unit_weight_sum (fun _ => true) xs
    simpa using this

/-- `timeseries_histogram_fill`: every sample but the last with its full weight, exactly once -/
theorem fillW_spec (nb : Nat) (lo hi : Rat) (hnb : 0 < nb) (hnb2 : nb < 65535) (hlh : lo < hi) (xw : List (Rat × Rat)) :
    ∃ h', (Hist.create nb lo hi).fillW xw = some h' ∧ h'.nb = nb ∧ h'.low = lo ∧ h'.high = hi ∧ h'.bins.size = nb + 2 ∧
      (∀ j, j < nb + 2 → h'.bins[j]! = ((xw.dropLast.filter fun p => (Hist.create nb lo hi).binOf p.1 = j).map (·.2)).sum) ∧
      h'.bins.toList.sum = (xw.dropLast.map (·.2)).sum := by
  obtain ⟨h', e, wf, g, s⟩ := addAll_spec hnb hnb2 hlh xw.dropLast _ (create_wf nb lo hi)
  refine ⟨h', by rw [fillW_eq_addAll, e], wf.nb_eq, wf.low_eq, wf.high_eq, wf.size_eq, ?_, ?_⟩
  · intro j _
    rw [g j, create_bins_getElem!, zero_add]
  · rw [s, create_bins_sum, zero_add]

/-! ### the preparation and the two print functions -/

/-- the range / bin-count preparation always yields at least one bin, at most the requested number, and a non-empty range
    (auto-scaling included, constant data included) -/
theorem histPrepare_ok (numBins : Nat) (low high dmin dmax : Rat) (hn : 0 < numBins) (hl : low ≤ high) (hd : dmin ≤ dmax) :
    0 < (histPrepare numBins low high dmin dmax).1 ∧ (histPrepare numBins low high dmin dmax).1 ≤ numBins ∧
    (histPrepare numBins low high dmin dmax).2.1 < (histPrepare numBins low high dmin dmax).2.2 := by
  unfold histPrepare
  by_cases h1 : low = high
  · by_cases h2 : dmin = dmax
    · simp only [if_pos h1, if_pos h2]
      refine ⟨?_, ?_, ?_⟩
      · split <;> [split <;> omega; omega]
      · split <;> [split <;> omega; omega]
      · rw [h2]; linarith
    · simp only [if_pos h1, if_neg h2]
      refine ⟨?_, ?_, ?_⟩
      · split <;> [split <;> omega; omega]
      · split <;> [split <;> omega; omega]
      · exact lt_of_le_of_ne hd h2
  · simp only [if_neg h1]
    refine ⟨?_, ?_, ?_⟩
    · split <;> [split <;> omega; omega]
    · split <;> [split <;> omega; omega]
    · exact lt_of_le_of_ne hl h1

/-- what cmb_dataset_histogram_print computes: defined for every request, `nb + 2` bins adding up to the sample count -/
theorem histDataset_total (xs : List Rat) (dmin dmax : Rat) (numBins : Nat) (low high : Rat)
    (hn : 0 < numBins) (hn2 : numBins < 65535) (hl : low ≤ high) (hd : dmin ≤ dmax) :
    ∃ h, histDataset xs dmin dmax numBins low high = some h ∧ h.bins.size = h.nb + 2 ∧ h.bins.toList.sum = (xs.length : Rat) ∧
      (∀ j, j < h.nb + 2 → h.bins[j]! = ((xs.filter fun x => (Hist.create h.nb h.low h.high).binOf x = j).length : Rat)) := by
  obtain ⟨p0, p1, p2⟩ := histPrepare_ok numBins low high dmin dmax hn hl hd
  obtain ⟨h, e, enb, elo, ehi, esz, g, s⟩ := fill_spec _ _ _ p0 (by omega) p2 xs
  refine ⟨h, e, ?_, s, ?_⟩
  · rw [esz, enb]
  · rw [enb, elo, ehi]; exact g

/-- what cmb_timeseries_histogram_print computes -/
theorem histSeries_total (xw : List (Rat × Rat)) (dmin dmax : Rat) (numBins : Nat) (low high : Rat)
    (hn : 0 < numBins) (hn2 : numBins < 65535) (hl : low ≤ high) (hd : dmin ≤ dmax) :
    ∃ h, histSeries xw dmin dmax numBins low high = some h ∧ h.bins.size = h.nb + 2 ∧ h.bins.toList.sum = (xw.dropLast.map (·.2)).sum ∧
      (∀ j, j < h.nb + 2 → h.bins[j]! = ((xw.dropLast.filter fun p => (Hist.create h.nb h.low h.high).binOf p.1 = j).map (·.2)).sum) := by
  obtain ⟨p0, p1, p2⟩ := histPrepare_ok numBins low high dmin dmax hn hl hd
  have hmod : (histPrepare numBins low high dmin dmax).1 % 65536 = (histPrepare numBins low high dmin dmax).1 :=
    Nat.mod_eq_of_lt (by omega)
  obtain ⟨h, e, enb, elo, ehi, esz, g, s⟩ := fillW_spec _ _ _ p0 (by omega) p2 xw
  refine ⟨h, ?_, ?_, s, ?_⟩
  · show (Hist.create ((histPrepare numBins low high dmin dmax).1 % 65536) _ _).fillW xw = some h
    rw [hmod]; exact e
  · rw [esz, enb]
  · rw [enb, elo, ehi]; exact g

/-! ### the floor-based bin index is the printed interval that contains `x` -/

/-- for `lo ≤ x < hi` the linear search of `Monitor.C18.intervalOf` stops at `floor((x - lo) / binsize)` -/
theorem find_interval {nb : Nat} {lo hi : Rat} (hnb : 0 < nb) (hlh : lo < hi) {x : Rat} (h1 : lo ≤ x) (h2 : x < hi) :
    ((x - lo) / ((hi - lo) / (nb : Rat))).floor.toNat < nb ∧
    (List.range nb).find? (fun j => decide (x < lo + ((j + 1 : Nat) : Rat) * ((hi - lo) / (nb : Rat)))) =
      some ((x - lo) / ((hi - lo) / (nb : Rat))).floor.toNat := by
  have hbs := binsize_pos hnb hlh
  obtain ⟨f0, _⟩ := floor_bounds hnb hlh h1 h2.le
  generalize hq : (x - lo) / ((hi - lo) / (nb : Rat)) = q at f0 ⊢
  generalize hbs' : (hi - lo) / (nb : Rat) = bs at hq hbs
  have hx : x = lo + q * bs := by
    rw [← hq, div_mul_cancel₀ _ hbs.ne']; ring
  have hqn : q < (nb : Rat) := by
    rw [← hq, div_lt_iff₀ hbs, ← hbs', nb_mul_binsize lo hi hnb]; linarith
  have hk : ((q.floor.toNat : Nat) : Rat) = (q.floor : Rat) := by
    have := Int.toNat_of_nonneg f0
    exact_mod_cast congrArg (Int.cast : Int → Rat) this
  have hfl : (q.floor : Rat) ≤ q := Rat.floor_le q
  have hfu : q < (q.floor : Rat) + 1 := by have := Rat.lt_floor_add_one q; push_cast at this; exact this
  have hlt : q.floor.toNat < nb := by
    have : ((q.floor.toNat : Nat) : Rat) < (nb : Rat) := by rw [hk]; linarith
    exact_mod_cast this
  refine ⟨hlt, ?_⟩
  rw [List.find?_range_eq_some]
  refine ⟨?_, List.mem_range.2 hlt, ?_⟩
  · rw [decide_eq_true_eq, hx]
    have : q * bs < ((q.floor.toNat + 1 : Nat) : Rat) * bs := by
      apply mul_lt_mul_of_pos_right _ hbs
      push_cast; rw [hk]; exact hfu
    linarith
  · intro j hj
    rw [Bool.not_eq_true', decide_eq_false_iff_not, not_lt, hx]
    have : ((j + 1 : Nat) : Rat) * bs ≤ q * bs := by
      apply mul_le_mul_of_nonneg_right _ hbs.le
      have : ((j + 1 : Nat) : Rat) ≤ ((q.floor.toNat : Nat) : Rat) := by exact_mod_cast hj
      rw [hk] at this; linarith
    linarith

/-- the floor-based bin index is the index of the printed interval that contains `x` -/
theorem binOf_eq_intervalOf (nb : Nat) (lo hi : Rat) (hnb : 0 < nb) (hnb2 : nb < 65535) (hlh : lo < hi) (x : Rat) :
    (Hist.create nb lo hi).binOf x = CimbaModel.Monitor.C18.intervalOf nb lo hi x := by
  rw [binOf_create]
  unfold CimbaModel.Monitor.C18.intervalOf
  by_cases h1 : x < lo
  · rw [if_pos h1, if_pos h1]
  · rw [if_neg h1, if_neg h1]
    by_cases h2 : x > hi
    · rw [if_pos h2, if_pos h2.le]
    · rw [if_neg h2]
      by_cases h3 : hi ≤ x
      · have hxe : x = hi := le_antisymm (not_lt.1 h2) h3
        rw [if_pos h3, hxe]
        have hbs := binsize_pos hnb hlh
        have : (hi - lo) / ((hi - lo) / (nb : Rat)) = ((nb : Int) : Rat) := by
          rw [div_eq_iff hbs.ne', Int.cast_natCast, nb_mul_binsize lo hi hnb]
        rw [this, Rat.floor_intCast, Int.toNat_natCast]
        omega
      · rw [if_neg h3]
        obtain ⟨hlt, hf⟩ := find_interval hnb hlh (not_lt.1 h1) (not_le.1 h3)
        simp only [hf]
        omega

/-! ### non-vacuity: closed instances, evaluated by the kernel -/

example : (histDataset [5,6,7,12,0,13] 0 13 4 5 12).map (·.bins.toList) = some [1, 2, 1, 0, 0, 2] := by decide +kernel
/-- constant data, auto-scaled (the repaired behaviour): one bin over `[9/2, 11/2)` -/
example : (histDataset [5,5,5] 5 5 4 0 0).map (·.bins.toList) = some [0, 3, 0] := by decide +kernel
/-- auto-scaling, bin count cut down to `ceil(high - low)`; the maximum lands in the overflow bin -/
example : (histDataset [1,2,3,4,10] 1 10 20 0 0).map (fun h => (h.nb, h.low, h.high, h.bins.toList)) =
    some (9, 1, 10, [0, 1, 1, 1, 1, 0, 0, 0, 0, 0, 1]) := by decide +kernel
/-- the last sample of a series (weight 100 here) is not counted -/
example : (histSeries [(0,1),(1,2),(2,1/2),(7,3),(1,100)] 0 7 4 0 4).map (·.bins.toList) =
    some [0, 1, 2, 1/2, 0, 3] := by decide +kernel
example : (Hist.create 4 5 12).binOf 12 = 5 ∧ CimbaModel.Monitor.C18.intervalOf 4 5 12 12 = 5 := by decide +kernel
example : (Hist.create 3 0 1).binOf (2/3) = 3 ∧ CimbaModel.Monitor.C18.intervalOf 3 0 1 (2/3) = 3 := by decide +kernel
example : histPrepare 10 0 0 3 3 = (1, 5/2, 7/2) := by decide +kernel
example : histPrepare 10 0 (7/2) 0 0 = (4, 0, 7/2) := by decide +kernel

end CimbaModel.Stats
