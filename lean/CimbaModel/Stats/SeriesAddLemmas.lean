/-
  `cmb_timeseries_add` (Arrays.lean: `TS.add`) with non-decreasing time stamps keeps the invariant
  of a time series — the three allocations stay well-formed (any number of capacity doublings),
  `min` / `max` stay the extreme samples, every live duration stays ≥ 0 (zero durations allowed),
  the last live sample has duration 0 — appends the sample and the time stamp, and gives the
  previous sample the duration `t - t_prev`.
-/
import CimbaModel.Stats.ArraysLemmas
import Mathlib.Algebra.Order.Field.Basic
import Mathlib.Tactic.Linarith

namespace CimbaModel.Stats
set_option linter.unusedSectionVars false
set_option linter.unusedSimpArgs false
set_option linter.unusedVariables false

/-! ### projections of a zipped list of triples -/
section
variable {A : Type}

theorem zip3_maps (xs ts ws : List A) (h1 : ts.length = xs.length) (h2 : ws.length = xs.length) :
    (xs.zip (ts.zip ws)).map (·.1) = xs ∧ (xs.zip (ts.zip ws)).map (·.2.1) = ts ∧
    (xs.zip (ts.zip ws)).map (·.2.2) = ws := by
  induction xs generalizing ts ws with
  | nil =>
    have e1 : ts = [] := by simpa using h1
    have e2 : ws = [] := by simpa using h2
    subst e1; subst e2
    simp
  | cons x xs ih =>
    cases ts with
    | nil => simp at h1
    | cons t ts =>
      cases ws with
      | nil => simp at h2
      | cons w ws =>
        obtain ⟨i1, i2, i3⟩ := ih ts ws (by simpa using h1) (by simpa using h2)
        simp only [List.zip_cons_cons, List.map_cons, i1, i2, i3, and_self]

/-- element `k` of a list whose `k+1`-prefix is known -/
theorem getElem?_of_take_succ (l pre : List A) (k : Nat) (v : A) (hp : pre.length = k)
    (h : l.take (k + 1) = pre ++ [v]) : l[k]? = some v := by
  have := congrArg (fun m => m[k]?) h
  simp only [List.getElem?_take, Nat.lt_succ_self, if_true] at this
  rw [this, List.getElem?_append_right (by omega)]
  simp [hp]

end

section
variable {K : Type} [Inhabited K]

theorem TS.triples_lengths (s : TS K) (h : s.WF) :
    (s.ta.toList.take s.ds.count).length = (s.ds.xa.toList.take s.ds.count).length ∧
    (s.wa.toList.take s.ds.count).length = (s.ds.xa.toList.take s.ds.count).length := by
  obtain ⟨⟨a, b⟩, c, d⟩ := h
  simp only [List.length_take, Array.length_toList]
  omega

/-- the state after the optional expansion in `TS.add`: well-formed, room for one more, and the live
    part of all three arrays as well as `min` / `max` untouched -/
theorem TS.expand_if_spec (initSz : Nat) (s : TS K) (h : s.WF) (hi : 0 < initSz) :
    ∃ e : TS K, (if s.ds.count = s.ds.cursize then s.expand initSz else s) = e ∧ e.WF ∧
      e.ds.count < e.ds.cursize ∧ e.ds.count = s.ds.count ∧ e.ds.samples = s.ds.samples ∧
      e.ta.toList.take s.ds.count = s.ta.toList.take s.ds.count ∧
      e.wa.toList.take s.ds.count = s.wa.toList.take s.ds.count ∧
      e.ds.min = s.ds.min ∧ e.ds.max = s.ds.max := by
  obtain ⟨hd, hta, hwa⟩ := h
  by_cases hfull : s.ds.count = s.ds.cursize
  · obtain ⟨w, c, lt, sm, emn, emx⟩ := DS.expand_spec initSz s.ds hd hi hfull
    by_cases hz : s.ta.size = 0
    · have hcs : s.ds.cursize = 0 := by omega
      have hc0 : s.ds.count = 0 := by omega
      refine ⟨{ ds := s.ds.expand initSz, ta := Array.replicate initSz default,
                wa := Array.replicate initSz default }, ?_, ⟨w, ?_, ?_⟩, ?_, c, sm, ?_, ?_, emn, emx⟩
      · simp [hfull, TS.expand, hz]
      · simp [DS.expand, hcs]
      · simp [DS.expand, hcs]
      · simpa [c] using lt
      · simp [hc0]
      · simp [hc0]
    · have hcs : ¬ s.ds.cursize = 0 := by omega
      have ecs : (s.ds.expand initSz).cursize = 2 * s.ds.cursize := by simp [DS.expand, hcs]
      refine ⟨{ ds := s.ds.expand initSz, ta := realloc s.ta (s.ds.expand initSz).cursize,
                wa := realloc s.wa (s.ds.expand initSz).cursize }, ?_, ⟨w, ?_, ?_⟩, ?_, c, sm, ?_, ?_, emn, emx⟩
      · simp [hfull, TS.expand, hz]
      · simp [size_realloc]
      · simp [size_realloc]
      · simpa [c] using lt
      · exact toList_realloc_take _ _ _ (by omega) (by omega)
      · exact toList_realloc_take _ _ _ (by omega) (by omega)
  · exact ⟨s, by simp [hfull], ⟨hd, hta, hwa⟩, by have := hd.2; omega, rfl, rfl, rfl, rfl, rfl, rfl⟩

end

section
variable {K : Type} [Inhabited K] [Field K] [LinearOrder K] [IsStrictOrderedRing K]

/-- what every time series built by `cmb_timeseries_add` with non-decreasing times satisfies -/
def TS.Inv (s : TS K) : Prop :=
  s.WF ∧ s.ds.MinMaxOK ∧ (∀ p ∈ s.triples, 0 ≤ p.2.2) ∧
  -- the last live sample has no duration yet
  (0 < s.ds.count → s.wa[s.ds.count - 1]! = 0)

theorem TS.Inv_empty : (({} : TS K)).Inv := by
  refine ⟨TS.WF_empty, DS.Inv_empty.2, ?_, ?_⟩
  · intro p hp; simp [TS.triples] at hp
  · intro h; simp at h

/-- the time stamp of the last live sample, if any -/
def TS.lastTime (s : TS K) : Option K := if s.ds.count = 0 then none else s.ta[s.ds.count - 1]?

/-- the common last step of `TS.add_inv`: the new state described by the live prefixes of its arrays -/
theorem TS.add_finish (s : TS K) (x t : K) (d' : DS K) (ta' wa' : Array K) (W : List K) (h : s.WF)
    (dinv : d'.Inv) (dc : d'.count = s.ds.count + 1) (dsm : d'.samples = s.ds.samples ++ [x])
    (sa : ta'.size = d'.cursize) (sw : wa'.size = d'.cursize)
    (hta : ta'.toList.take (s.ds.count + 1) = s.ta.toList.take s.ds.count ++ [t])
    (hwa : wa'.toList.take (s.ds.count + 1) = W ++ [0])
    (hWl : W.length = s.ds.count) (hW : ∀ w ∈ W, 0 ≤ w) :
    let s' : TS K := { ds := d', ta := ta', wa := wa' }
    s'.Inv ∧ s'.ds.count = s.ds.count + 1 ∧ s'.ds.samples = s.ds.samples ++ [x] ∧ s'.lastTime = some t ∧
      s'.triples.map (·.1) = s.triples.map (·.1) ++ [x] ∧
      s'.triples.map (·.2.1) = s.triples.map (·.2.1) ++ [t] := by
  intro s'
  have wf' : s'.WF := ⟨dinv.1, sa, sw⟩
  obtain ⟨l1, l2⟩ := TS.triples_lengths s h
  obtain ⟨l1', l2'⟩ := TS.triples_lengths s' wf'
  obtain ⟨m1, m2, m3⟩ := zip3_maps _ _ _ l1 l2
  obtain ⟨m1', m2', m3'⟩ := zip3_maps _ _ _ l1' l2'
  have hcnt' : s'.ds.count = s.ds.count + 1 := dc
  have hlen : (s.ta.toList.take s.ds.count).length = s.ds.count := by
    obtain ⟨⟨a, b⟩, c, d⟩ := h
    simp only [List.length_take, Array.length_toList]; omega
  have hlast : ta'[s.ds.count]? = some t := by
    have := getElem?_of_take_succ ta'.toList _ s.ds.count t hlen hta
    simpa using this
  have hwlast : wa'[s.ds.count]? = some 0 := by
    have := getElem?_of_take_succ wa'.toList _ s.ds.count 0 hWl hwa
    simpa using this
  refine ⟨⟨wf', dinv.2, ?_, ?_⟩, dc, dsm, ?_, ?_, ?_⟩
  · intro p hp
    have hmem : p.2.2 ∈ s'.triples.map (·.2.2) := List.mem_map_of_mem hp
    have e : s'.triples.map (·.2.2) = W ++ [0] := by
      unfold TS.triples
      rw [m3', hcnt', hwa]
    rw [e] at hmem
    rcases List.mem_append.mp hmem with hm | hm
    · exact hW _ hm
    · simp at hm; rw [hm]
  · intro _
    show wa'[d'.count - 1]! = 0
    rw [dc, Nat.add_sub_cancel]
    simp [getElem!_def, hwlast]
  · show (if d'.count = 0 then none else ta'[d'.count - 1]?) = some t
    rw [dc, Nat.add_sub_cancel, if_neg (by omega), hlast]
  · unfold TS.triples
    rw [m1', m1]
    exact dsm
  · unfold TS.triples
    rw [m2', m2, hcnt']
    exact hta

/-- `cmb_timeseries_add(x, t)` with `t` not before the last time stamp (the function's contract, a debug
    assert in C): in bounds, keeps the invariant (durations stay ≥ 0 — zero durations allowed —, min/max
    stay the extreme samples), appends the sample, and gives the previous sample the duration
    `t - t_prev` -/
theorem TS.add_inv (initSz : Nat) (s : TS K) (x t : K) (h : s.Inv) (hi : 0 < initSz)
    (ht : ∀ tp, s.lastTime = some tp → tp ≤ t) :
    ∃ s', s.add initSz x t = some s' ∧ s'.Inv ∧ s'.ds.count = s.ds.count + 1 ∧
      s'.ds.samples = s.ds.samples ++ [x] ∧ s'.lastTime = some t ∧
      s'.triples.map (·.1) = s.triples.map (·.1) ++ [x] ∧
      s'.triples.map (·.2.1) = s.triples.map (·.2.1) ++ [t] := by
  obtain ⟨hwf, hmm, hnn, _⟩ := h
  obtain ⟨e, he, ⟨ed, eta, ewa⟩, elt, ec, esm, tka, tkw, emn, emx⟩ := TS.expand_if_spec initSz s hwf hi
  -- the dataset part
  have emm : e.ds.MinMaxOK := by
    simpa only [DS.MinMaxOK, ec, esm, emn, emx] using hmm
  obtain ⟨d', hadd, dinv, dcnt, dsm⟩ := DS.add_inv initSz e.ds x ⟨ed, emm⟩ hi
  have dcs : d'.cursize = e.ds.cursize := by
    obtain ⟨d'', hadd', _, _, _, cs, _, _⟩ := DS.add_of_room initSz e.ds x ed elt
    rw [hadd] at hadd'
    cases hadd'
    exact cs
  rw [ec] at dcnt
  rw [esm] at dsm
  -- old weights are ≥ 0
  obtain ⟨l1, l2⟩ := TS.triples_lengths s hwf
  obtain ⟨_, _, m3⟩ := zip3_maps _ _ _ l1 l2
  have hold : ∀ w ∈ s.wa.toList.take s.ds.count, 0 ≤ w := by
    intro w hw
    rw [← m3] at hw
    obtain ⟨p, hp, rfl⟩ := List.mem_map.mp hw
    exact hnn p hp
  have hwl : (s.wa.toList.take s.ds.count).length = s.ds.count := by
    obtain ⟨⟨a, b⟩, c, d⟩ := hwf
    simp only [List.length_take, Array.length_toList]; omega
  have b1 : e.ds.count < e.ta.size := by omega
  have b2 : e.ds.count < e.wa.size := by omega
  unfold TS.add
  simp only [he, hadd, wr_eq_some _ _ _ b1, Option.bind_eq_bind, Option.bind_some]
  rw [wr_eq_some _ _ _ b2]
  simp only [Option.bind_some]
  have htaK : (e.ta.set e.ds.count t b1).toList.take (s.ds.count + 1) = s.ta.toList.take s.ds.count ++ [t] := by
    rw [Array.toList_set, ec, take_succ_set _ _ _ (by simpa [ec] using b1), tka]
  by_cases hpos : e.ds.count > 0
  · have b3 : e.ds.count - 1 < (e.ta.set e.ds.count t b1).size := by simp; omega
    have b4 : e.ds.count - 1 < (e.wa.set e.ds.count 0 b2).size := by simp; omega
    simp only [hpos, if_true, Array.getElem?_eq_getElem b3, Option.bind_some, wr_eq_some _ _ _ b4]
    refine ⟨_, rfl, ?_⟩
    -- the previous time stamp is the last time of `s`
    have hprev : s.lastTime = some ((e.ta.set e.ds.count t b1)[e.ds.count - 1]'b3) := by
      have hne : ¬ s.ds.count = 0 := by omega
      have hlt : s.ds.count - 1 < s.ds.count := by omega
      have := congrArg (fun m => m[s.ds.count - 1]?) tka
      simp only [List.getElem?_take, hlt, if_true, Array.getElem?_toList] at this
      simp only [TS.lastTime, hne, if_false]
      have b5 : e.ds.count - 1 < e.ta.size := by omega
      rw [← this, ← ec, Array.getElem_set_ne (h := by omega), Array.getElem?_eq_getElem b5]
    have hdur : 0 ≤ t - (e.ta.set e.ds.count t b1)[e.ds.count - 1]'b3 := sub_nonneg.mpr (ht _ hprev)
    clear hprev
    generalize (e.ta.set e.ds.count t b1)[e.ds.count - 1]'b3 = tp at hdur ⊢
    apply TS.add_finish s x t d' _ _ ((s.wa.toList.take s.ds.count).set (s.ds.count - 1) (t - tp))
      hwf dinv dcnt dsm (by simp; omega) (by simp; omega) htaK
    · rw [Array.toList_set, Array.toList_set, List.set_comm _ _ (by omega), ec,
        take_succ_set _ _ _ (by simpa [ec] using b2), List.take_set, tkw]
    · simpa using hwl
    · intro w hw
      rcases List.mem_or_eq_of_mem_set hw with hm | hm
      · exact hold w hm
      · rw [hm]; exact hdur
  · simp only [hpos, if_false]
    refine ⟨_, rfl, ?_⟩
    apply TS.add_finish s x t d' _ _ (s.wa.toList.take s.ds.count) hwf dinv dcnt dsm
      (by simp; omega) (by simp; omega) htaK
    · rw [Array.toList_set, ec, take_succ_set _ _ _ (by simpa [ec] using b2), tkw]
    · exact hwl
    · exact hold

/-! ### non-vacuity: three samples at times 0, 8, 8 (a zero duration) over ℚ -/

example : ∃ s : TS ℚ, s.Inv ∧ s.ds.count = 3 := by
  obtain ⟨s1, _, i1, c1, _, t1, _, _⟩ := TS.add_inv 4 ({} : TS ℚ) 5 0 TS.Inv_empty (by omega)
    (by intro tp h; simp [TS.lastTime] at h)
  obtain ⟨s2, _, i2, c2, _, t2, _, _⟩ := TS.add_inv 4 s1 7 8 i1 (by omega)
    (by intro tp h; rw [t1] at h; cases h; norm_num)
  obtain ⟨s3, _, i3, c3, _, _, _, _⟩ := TS.add_inv 4 s2 6 8 i2 (by omega)
    (by intro tp h; rw [t2] at h; cases h; exact le_refl _)
  exact ⟨s3, i3, by rw [c3, c2, c1]⟩

end
end CimbaModel.Stats
