/-
  Moment algebra for C17 (helper lemmas; hand-written, independent of the generated code).

  `WS k c l`  = Σ w·(x − c)^k   over a list `l` of (x, w) pairs   (weighted central power sum about c)
  `wtot l`    = Σ w,   `wxsum l` = Σ w·x
  `S k c xs`  = Σ (x − c)^k     = WS k c (xs with all weights 1)
  Shift lemmas (k ≤ 4): moving the centre from c to c + e.
-/
import Mathlib.Tactic.Ring
import Mathlib.Tactic.FieldSimp
import Mathlib.Tactic.Linarith
import Mathlib.Algebra.Order.Field.Basic
import Mathlib.Algebra.BigOperators.Group.List.Basic

namespace CimbaModel.Stats

variable {K : Type} [Field K]

/-- weighted central power sum Σ w (x - c)^k -/
def WS (k : ℕ) (c : K) : List (K × K) → K
  | [] => 0
  | p :: l => p.2 * (p.1 - c) ^ k + WS k c l

/-- total weight Σ w -/
def wtot : List (K × K) → K
  | [] => 0
  | p :: l => p.2 + wtot l

/-- Σ w x -/
def wxsum : List (K × K) → K
  | [] => 0
  | p :: l => p.2 * p.1 + wxsum l

@[simp] theorem WS_nil (k : ℕ) (c : K) : WS k c [] = 0 := rfl
@[simp] theorem WS_cons (k : ℕ) (c : K) (p : K × K) (l) : WS k c (p :: l) = p.2 * (p.1 - c) ^ k + WS k c l := rfl
@[simp] theorem wtot_nil : wtot ([] : List (K × K)) = 0 := rfl
@[simp] theorem wtot_cons (p : K × K) (l) : wtot (p :: l) = p.2 + wtot l := rfl
@[simp] theorem wxsum_nil : wxsum ([] : List (K × K)) = 0 := rfl
@[simp] theorem wxsum_cons (p : K × K) (l) : wxsum (p :: l) = p.2 * p.1 + wxsum l := rfl

theorem WS_append (k : ℕ) (c : K) (l₁ l₂ : List (K × K)) : WS k c (l₁ ++ l₂) = WS k c l₁ + WS k c l₂ := by
  induction l₁ with
  | nil => simp
  | cons p l ih => simp [ih]; ring

theorem wtot_append (l₁ l₂ : List (K × K)) : wtot (l₁ ++ l₂) = wtot l₁ + wtot l₂ := by
  induction l₁ with
  | nil => simp
  | cons p l ih => simp [ih]; ring

theorem wxsum_append (l₁ l₂ : List (K × K)) : wxsum (l₁ ++ l₂) = wxsum l₁ + wxsum l₂ := by
  induction l₁ with
  | nil => simp
  | cons p l ih => simp [ih]; ring

theorem WS_zero (c : K) (l : List (K × K)) : WS 0 c l = wtot l := by
  induction l with
  | nil => rfl
  | cons p l ih => simp [ih]

theorem WS_one (c : K) (l : List (K × K)) : WS 1 c l = wxsum l - c * wtot l := by
  induction l with
  | nil => simp
  | cons p l ih => simp [ih]; ring

/-- about the weighted mean the first central sum vanishes -/
theorem WS_one_mean {m : K} {l : List (K × K)} (h : m * wtot l = wxsum l) : WS 1 m l = 0 := by
  rw [WS_one, ← h]; ring

theorem WS_shift1 (c e : K) (l : List (K × K)) : WS 1 (c + e) l = WS 1 c l - e * wtot l := by
  induction l with
  | nil => simp
  | cons p l ih => simp [ih]; ring

theorem WS_shift2 (c e : K) (l : List (K × K)) :
    WS 2 (c + e) l = WS 2 c l - 2 * e * WS 1 c l + e ^ 2 * wtot l := by
  induction l with
  | nil => simp
  | cons p l ih => simp [ih]; ring

theorem WS_shift3 (c e : K) (l : List (K × K)) :
    WS 3 (c + e) l = WS 3 c l - 3 * e * WS 2 c l + 3 * e ^ 2 * WS 1 c l - e ^ 3 * wtot l := by
  induction l with
  | nil => simp
  | cons p l ih => simp [ih]; ring

theorem WS_shift4 (c e : K) (l : List (K × K)) :
    WS 4 (c + e) l = WS 4 c l - 4 * e * WS 3 c l + 6 * e ^ 2 * WS 2 c l - 4 * e ^ 3 * WS 1 c l + e ^ 4 * wtot l := by
  induction l with
  | nil => simp
  | cons p l ih => simp [ih]; ring

/-- multiplying every weight by `a` -/
def scaleW (a : K) (l : List (K × K)) : List (K × K) := l.map fun p => (p.1, a * p.2)

theorem WS_scaleW (a : K) (k : ℕ) (c : K) (l : List (K × K)) : WS k c (scaleW a l) = a * WS k c l := by
  induction l with
  | nil => simp [scaleW]
  | cons p l ih => simp only [scaleW, List.map_cons, WS_cons] at ih ⊢; rw [ih]; ring

theorem wtot_scaleW (a : K) (l : List (K × K)) : wtot (scaleW a l) = a * wtot l := by
  induction l with
  | nil => simp [scaleW]
  | cons p l ih => simp only [scaleW, List.map_cons, wtot_cons] at ih ⊢; rw [ih]; ring

theorem wxsum_scaleW (a : K) (l : List (K × K)) : wxsum (scaleW a l) = a * wxsum l := by
  induction l with
  | nil => simp [scaleW]
  | cons p l ih => simp only [scaleW, List.map_cons, wxsum_cons] at ih ⊢; rw [ih]; ring

@[simp] theorem scaleW_length (a : K) (l : List (K × K)) : (scaleW a l).length = l.length := by simp [scaleW]

/-- unit weights -/
def unitW (xs : List K) : List (K × K) := xs.map fun x => (x, 1)

/-- unweighted central power sum Σ (x - c)^k -/
def S (k : ℕ) (c : K) (xs : List K) : K := WS k c (unitW xs)

@[simp] theorem unitW_nil : unitW ([] : List K) = [] := rfl
@[simp] theorem unitW_cons (x : K) (xs : List K) : unitW (x :: xs) = (x, 1) :: unitW xs := rfl
theorem unitW_append (xs ys : List K) : unitW (xs ++ ys) = unitW xs ++ unitW ys := by simp [unitW]
@[simp] theorem unitW_length (xs : List K) : (unitW xs).length = xs.length := by simp [unitW]

theorem wtot_unitW (xs : List K) : wtot (unitW xs) = (xs.length : K) := by
  induction xs with
  | nil => simp
  | cons x xs ih => simp [ih]; ring

theorem wxsum_unitW (xs : List K) : wxsum (unitW xs) = xs.sum := by
  induction xs with
  | nil => simp
  | cons x xs ih => simp [ih]

@[simp] theorem S_nil (k : ℕ) (c : K) : S k c [] = 0 := rfl
theorem S_cons (k : ℕ) (c x : K) (xs : List K) : S k c (x :: xs) = (x - c) ^ k + S k c xs := by
  simp [S]
theorem S_append (k : ℕ) (c : K) (xs ys : List K) : S k c (xs ++ ys) = S k c xs + S k c ys := by
  simp [S, unitW_append, WS_append]

/-- permutation invariance -/
theorem WS_perm {l₁ l₂ : List (K × K)} (h : l₁.Perm l₂) (k : ℕ) (c : K) : WS k c l₁ = WS k c l₂ := by
  induction h with
  | nil => rfl
  | cons p _ ih => simp [ih]
  | swap p q l => simp; ring
  | trans _ _ ih₁ ih₂ => exact ih₁.trans ih₂

theorem wtot_perm {l₁ l₂ : List (K × K)} (h : l₁.Perm l₂) : wtot l₁ = wtot l₂ := by
  rw [← WS_zero 0, ← WS_zero 0]; exact WS_perm h 0 0

theorem wxsum_perm {l₁ l₂ : List (K × K)} (h : l₁.Perm l₂) : wxsum l₁ = wxsum l₂ := by
  induction h with
  | nil => rfl
  | cons p _ ih => simp [ih]
  | swap p q l => simp; ring
  | trans _ _ ih₁ ih₂ => exact ih₁.trans ih₂

section order
variable [LinearOrder K] [IsStrictOrderedRing K]

theorem wtot_pos {l : List (K × K)} (hp : ∀ p ∈ l, 0 < p.2) (hne : l ≠ []) : 0 < wtot l := by
  induction l with
  | nil => exact absurd rfl hne
  | cons p l ih =>
    have h1 : 0 < p.2 := hp p (by simp)
    by_cases hl : l = []
    · subst hl; simpa using h1
    · have := ih (fun q hq => hp q (by simp [hq])) hl
      simp only [wtot_cons]; linarith

theorem wtot_nonneg {l : List (K × K)} (hp : ∀ p ∈ l, 0 < p.2) : 0 ≤ wtot l := by
  by_cases hl : l = []
  · subst hl; simp
  · exact le_of_lt (wtot_pos hp hl)

/-- even central sums are non-negative when the weights are -/
theorem WS_two_nonneg {l : List (K × K)} (hp : ∀ p ∈ l, 0 < p.2) (c : K) : 0 ≤ WS 2 c l := by
  induction l with
  | nil => simp
  | cons p l ih =>
    have h1 : 0 < p.2 := hp p (by simp)
    have := ih (fun q hq => hp q (by simp [hq]))
    simp only [WS_cons]
    have : 0 ≤ p.2 * (p.1 - c) ^ 2 := mul_nonneg (le_of_lt h1) (sq_nonneg _)
    linarith

end order

end CimbaModel.Stats
