/-
  Model of the growing sample arrays of src/cmb_dataset.c and src/cmb_timeseries.c:
  `cmb_dataset_initialize / cmi_dataset_expand / cmb_dataset_add / cmb_dataset_copy`,
  `timeseries_expand / cmb_timeseries_add / cmb_timeseries_finalize / cmb_timeseries_copy`.

  An allocation is an `Array` whose size is the allocated number of slots (slots at and beyond
  `count` hold junk, modelled as `default`); `NULL` is the empty array.  Every write and every
  `memcpy` is bounds-checked against the allocation (`none` = out-of-bounds access), so a routine
  that overruns its buffer has no value in the model.  `initSz` is `CMI_DATASET_INIT_SZ`, read from
  src/cmi_dataset.h by the check on every run.

  `cmb_timeseries_copy` is modelled as REPAIRED by fixes/C18-timeseries-copy-capacity.patch:
  `ta`, `wa` are allocated with the capacity `cursize` (as `xa` is), not with `count`.

  Core Lean only: linked into the compiled driver `stat2main`.
-/
namespace CimbaModel.Stats

/-- `struct cmb_dataset`; `min`/`max` = `none` is the initial `DBL_MAX` / `-DBL_MAX` -/
structure DS (K : Type) where
  cursize : Nat := 0
  count : Nat := 0
  min : Option K := none
  max : Option K := none
  xa : Array K := #[]
  deriving Repr

/-- `struct cmb_timeseries` -/
structure TS (K : Type) where
  ds : DS K := {}
  ta : Array K := #[]
  wa : Array K := #[]
  deriving Repr

section
variable {K : Type} [Inhabited K]

/-- `p[i] = x` -/
def wr (a : Array K) (i : Nat) (x : K) : Option (Array K) :=
  if h : i < a.size then some (a.set i x h) else none

/-- `realloc(p, n * sizeof *p)`: keeps the common prefix -/
def realloc (a : Array K) (n : Nat) : Array K :=
  if n ≤ a.size then a.extract 0 n else a ++ Array.replicate (n - a.size) default

/-- `q = calloc(cap, 8); memcpy(q, p, n * 8)`; reading beyond `p`'s allocation or writing beyond
    `q`'s is a fault -/
def callocCopy (src : Array K) (cap n : Nat) : Option (Array K) :=
  if n ≤ src.size ∧ n ≤ cap then some (src.extract 0 n ++ Array.replicate (cap - n) default) else none

/-- `cmi_dataset_expand` -/
def DS.expand (initSz : Nat) (s : DS K) : DS K :=
  if s.cursize = 0 then { s with cursize := initSz, xa := Array.replicate initSz default }
  else { s with cursize := 2 * s.cursize, xa := realloc s.xa (2 * s.cursize) }

variable [LT K] [DecidableLT K]

/-- `cmb_dataset_add` -/
def DS.add (initSz : Nat) (s : DS K) (x : K) : Option (DS K) :=
  let mx := match s.max with | none => x | some m => if x > m then x else m
  let mn := match s.min with | none => x | some m => if x < m then x else m
  let s := if s.count = s.cursize then s.expand initSz else s
  if s.count < s.cursize then
    (wr s.xa s.count x).map fun xa => { s with xa := xa, count := s.count + 1, min := some mn, max := some mx }
  else none   -- cmb_assert_release(dsp->count < dsp->cursize)

/-- `cmb_dataset_copy(tgt, src)`: all fields, and `cursize` slots of the array -/
def DS.copy (s : DS K) : Option (DS K) :=
  if s.xa.size = 0 then some { s with xa := #[] }
  else (callocCopy s.xa s.cursize s.cursize).map fun xa => { s with xa := xa }

/-- `timeseries_expand` -/
def TS.expand (initSz : Nat) (s : TS K) : TS K :=
  let ds := s.ds.expand initSz
  if s.ta.size = 0 then
    { ds := ds, ta := Array.replicate initSz default, wa := Array.replicate initSz default }
  else
    { ds := ds, ta := realloc s.ta ds.cursize, wa := realloc s.wa ds.cursize }

variable [Sub K] [OfNat K 0]

/-- `cmb_timeseries_add(tsp, x, t)` -/
def TS.add (initSz : Nat) (s : TS K) (x t : K) : Option (TS K) := do
  let s := if s.ds.count = s.ds.cursize then s.expand initSz else s
  let uiNew := s.ds.count
  let ds ← s.ds.add initSz x
  let ta ← wr s.ta uiNew t
  let wa ← wr s.wa uiNew 0
  if uiNew > 0 then
    let tPrev ← ta[uiNew - 1]?
    let wa ← wr wa (uiNew - 1) (t - tPrev)
    pure { ds := ds, ta := ta, wa := wa }
  else
    pure { ds := ds, ta := ta, wa := wa }

/-- `cmb_timeseries_finalize(tsp, t)` (`count ≥ 1`) -/
def TS.finalize (initSz : Nat) (s : TS K) (t : K) : Option (TS K) := do
  let x ← if s.ds.count = 0 then none else s.ds.xa[s.ds.count - 1]?
  s.add initSz x t

/-- `cmb_timeseries_copy(tgt, src)`, REPAIRED: the time and weight arrays get the capacity
    `cursize` and the `count` live entries (the shipped code allocates only `count` slots while
    copying `cursize` into the struct, so the next `add` to the copy writes past the end) -/
def TS.copy (s : TS K) : Option (TS K) := do
  let ds ← s.ds.copy
  let ta ← if s.ta.size = 0 then some #[] else callocCopy s.ta s.ds.cursize s.ds.count
  let wa ← if s.wa.size = 0 then some #[] else callocCopy s.wa s.ds.cursize s.ds.count
  pure { ds := ds, ta := ta, wa := wa }

/-- the shipped `cmb_timeseries_copy` (capacity `count`): kept only to state what was wrong -/
def TS.copyShipped (s : TS K) : Option (TS K) := do
  let ds ← s.ds.copy
  let ta ← if s.ta.size = 0 then some #[] else callocCopy s.ta s.ds.count s.ds.count
  let wa ← if s.wa.size = 0 then some #[] else callocCopy s.wa s.ds.count s.ds.count
  pure { ds := ds, ta := ta, wa := wa }

end

/-- the live samples of a dataset -/
def DS.samples {K : Type} (s : DS K) : List K := s.xa.toList.take s.count

/-- the live (x, t, w) triples of a time series -/
def TS.triples {K : Type} (s : TS K) : List (K × K × K) :=
  (s.ds.xa.toList.take s.ds.count).zip ((s.ta.toList.take s.ds.count).zip (s.wa.toList.take s.ds.count))

end CimbaModel.Stats
