/-
  Model of the heapsorts of src/cmb_dataset.c (`dataset_heapify`, `cmb_dataset_sort`) and
  src/cmb_timeseries.c (`timeseries_heapify`, `cmb_timeseries_sort_x`, `cmb_timeseries_sort_t`),
  loop by loop with the same index arithmetic (children of `r` are `2r+1`, `2r+2`; the build phase
  runs `root = un/2 - 1 … 0`, the sort phase `ui = un-1 … 1` with `swap(0, ui); heapify(ui, 0)`).

  Core Lean only: linked into the compiled driver `stat2main`.  The lemmas are in SortLemmas.lean.
-/
namespace CimbaModel.Stats

/-- `cmi_dataset_swap(&arr[i], &arr[j])`; an index outside the array leaves it unchanged
    (never happens in the sort: every call is guarded by `< un`, and `un ≤ size`) -/
def swp {α : Type} (a : Array α) (i j : Nat) : Array α :=
  if h : i < a.size ∧ j < a.size then a.swap i j h.1 h.2 else a

@[simp] theorem size_swp {α : Type} (a : Array α) (i j : Nat) : (swp a i j).size = a.size := by
  unfold swp; split <;> simp

section
variable {α K : Type} [Inhabited α] [LT K] [DecidableLT K]

/-- the two `if`s at the head of the `for (;;)` body: index of the biggest of root / left / right
    child (children only if `< un`), with the C code's preference order (root, then left) on ties -/
def pickBig (key : α → K) (un : Nat) (a : Array α) (uroot : Nat) : Nat :=
  let ubig := if 2 * uroot + 1 < un ∧ key a[2 * uroot + 1]! > key a[uroot]! then 2 * uroot + 1 else uroot
  if 2 * uroot + 2 < un ∧ key a[2 * uroot + 2]! > key a[ubig]! then 2 * uroot + 2 else ubig

theorem pickBig_range (key : α → K) (un : Nat) (a : Array α) (uroot : Nat) :
    pickBig key un a uroot = uroot ∨ (uroot < pickBig key un a uroot ∧ pickBig key un a uroot < un) := by
  unfold pickBig
  simp only
  split <;> split <;> omega

/-- `dataset_heapify(un, arr, uroot)`: sift the root down until neither child is bigger -/
def heapify (key : α → K) (un : Nat) (a : Array α) (uroot : Nat) : Array α :=
  if _h : pickBig key un a uroot ≠ uroot then
    heapify key un (swp a uroot (pickBig key un a uroot)) (pickBig key un a uroot)
  else a
termination_by un - uroot
decreasing_by
  have := pickBig_range key un a uroot
  omega

/-- `for (int64_t root = un/2 - 1; root >= 0; root--) heapify(un, arr, root);` with `k = root + 1` -/
def buildLoop (key : α → K) (un : Nat) : Nat → Array α → Array α
  | 0, a => a
  | k + 1, a => buildLoop key un k (heapify key un a k)

/-- `for (ui = un - 1; ui > 0; ui--) { swap(&arr[0], &arr[ui]); heapify(ui, arr, 0); }` -/
def sortLoop (key : α → K) : Nat → Array α → Array α
  | 0, a => a
  | ui + 1, a => sortLoop key ui (heapify key (ui + 1) (swp a 0 (ui + 1)) 0)

/-- `cmb_dataset_sort` on the first `un` slots of `a` (`un = count ≥ 1`; the C code is only entered
    with `xa != NULL`, which implies `count ≥ 1`; for `un = 0` the model does nothing) -/
def heapsort (key : α → K) (un : Nat) (a : Array α) : Array α :=
  sortLoop key (un - 1) (buildLoop key un (un / 2) a)

end

/-! ### the three-array version of the time series: `keya` is compared, `da1`, `da2` ride along -/
section
variable {K : Type} [Inhabited K] [LT K] [DecidableLT K]

abbrev Arr3 (K : Type) := Array K × Array K × Array K

/-- the three `cmi_dataset_swap` calls -/
def swp3 (s : Arr3 K) (i j : Nat) : Arr3 K := (swp s.1 i j, swp s.2.1 i j, swp s.2.2 i j)

/-- `timeseries_heapify(un, keya, da1, da2, uroot)` -/
def heapify3 (un : Nat) (s : Arr3 K) (uroot : Nat) : Arr3 K :=
  if _h : pickBig id un s.1 uroot ≠ uroot then
    heapify3 un (swp3 s uroot (pickBig id un s.1 uroot)) (pickBig id un s.1 uroot)
  else s
termination_by un - uroot
decreasing_by
  have := pickBig_range id un s.1 uroot
  omega

def buildLoop3 (un : Nat) : Nat → Arr3 K → Arr3 K
  | 0, s => s
  | k + 1, s => buildLoop3 un k (heapify3 un s k)

def sortLoop3 : Nat → Arr3 K → Arr3 K
  | 0, s => s
  | ui + 1, s => sortLoop3 ui (heapify3 (ui + 1) (swp3 s 0 (ui + 1)) 0)

/-- `cmb_timeseries_sort_x` is `heapsort3 un (xa, ta, wa)`;
    `cmb_timeseries_sort_t` is `heapsort3 un (ta, xa, wa)` -/
def heapsort3 (un : Nat) (s : Arr3 K) : Arr3 K :=
  sortLoop3 (un - 1) (buildLoop3 un (un / 2) s)

end
end CimbaModel.Stats
