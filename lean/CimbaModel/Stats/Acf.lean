/-
  Model of `cmb_dataset_ACF` (src/cmb_dataset.c) over any type with field operations
  (instantiated at `Rat` in the driver and at an arbitrary linearly ordered field in the theorems).

  The code is modelled AS SHIPPED, including the absolute variance threshold `minVar` (1e-9 in the
  source): `var < minVar` makes every coefficient beyond lag 0 zero.  That threshold is what breaks
  scale invariance for small-magnitude data (known finding C18-acf-absolute-threshold).

  Core Lean only: linked into the compiled driver `stat2main`.
-/
namespace CimbaModel.Stats

section
variable {K : Type} [Add K] [Sub K] [Mul K] [Div K] [NatCast K] [OfNat K 0] [OfNat K 1]

/-- one step of the single-pass mean / sum of squares loop:
    `d = x - m1; d_n = d / (ui + 1); m1 += d_n; m2 += d * (d - d_n);` -/
def welfordStep (s : K × K × Nat) (x : K) : K × K × Nat :=
  let (m1, m2, ui) := s
  let d := x - m1
  let dn := d / ((ui + 1 : Nat) : K)
  (m1 + dn, m2 + d * (d - dn), ui + 1)

/-- (m1, m2, count) after the first loop of `cmb_dataset_ACF` -/
def welford (xs : List K) : K × K × Nat := xs.foldl welfordStep (0, 0, 0)

/-- `dk`: `for (ui = 0; ui < count - lag; ui++) dk += (xa[ui] - m1) * (xa[ui + lag] - m1);` -/
def lagSum (m1 : K) (xs : List K) (lag : Nat) : K :=
  ((xs.zip (xs.drop lag)).map fun p => (p.1 - m1) * (p.2 - m1)).foldl (· + ·) 0

variable [LT K] [DecidableLT K]

/-- `cmb_dataset_ACF(dsp, n, acf)`: the list `acf[0..n]` (`count > 1`, `0 < n < count`) -/
def acf (minVar : K) (xs : List K) (n : Nat) : List K :=
  let (m1, m2, cnt) := welford xs
  let var := m2 / ((cnt - 1 : Nat) : K)
  if var < minVar then
    1 :: List.replicate n 0
  else
    1 :: (List.range n).map fun i =>
      let lag := i + 1
      (lagSum m1 xs lag / ((cnt - lag : Nat) : K)) / var

end
end CimbaModel.Stats
