/-
  C17: representation invariant tying a `DataSummary` (the C struct, as generated) to the list of samples it summarises,
  and the algebraic identities behind the one-sample update and the pairwise merge (independent of the generated code).
-/
import CimbaModel.Stats.Moments
import CimbaModel.Generated.Stats

namespace CimbaModel.Stats
open CimbaModel.Generated.Stats

variable {K : Type} [Field K] [LinearOrder K] [IsStrictOrderedRing K]
set_option linter.unusedSectionVars false

/-! ### Algebra of the updates (about lists only) -/

theorem S_one_mean {m : K} {xs : List K} (h : m * (xs.length : K) = xs.sum) : S 1 m xs = 0 := by
  unfold S; apply WS_one_mean; rw [wtot_unitW, wxsum_unitW]; exact h

theorem S_snoc (k : ℕ) (c y : K) (xs : List K) : S k c (xs ++ [y]) = S k c xs + (y - c) ^ k := by
  rw [S_append, S_cons]; simp

theorem S_shift2 (c e : K) (xs : List K) :
    S 2 (c + e) xs = S 2 c xs - 2 * e * S 1 c xs + e ^ 2 * (xs.length : K) := by
  unfold S; rw [WS_shift2, wtot_unitW]

theorem S_shift3 (c e : K) (xs : List K) :
    S 3 (c + e) xs = S 3 c xs - 3 * e * S 2 c xs + 3 * e ^ 2 * S 1 c xs - e ^ 3 * (xs.length : K) := by
  unfold S; rw [WS_shift3, wtot_unitW]

theorem S_shift4 (c e : K) (xs : List K) :
    S 4 (c + e) xs = S 4 c xs - 4 * e * S 3 c xs + 6 * e ^ 2 * S 2 c xs - 4 * e ^ 3 * S 1 c xs
      + e ^ 4 * (xs.length : K) := by
  unfold S; rw [WS_shift4, wtot_unitW]

/-- one-sample update, second central sum (Welford) -/
theorem upd2 {m y : K} {xs : List K} (h : m * (xs.length : K) = xs.sum) :
    let n : K := ((xs.length + 1 : ℕ) : K)
    let d := y - m
    S 2 (m + d / n) (xs ++ [y]) = S 2 m xs + d * (d - d / n) := by
  intro n d
  have hn : n ≠ 0 := Nat.cast_ne_zero.mpr (Nat.succ_ne_zero _)
  have hl : (xs.length : K) = n - 1 := by simp [n]
  rw [S_snoc, S_shift2, S_one_mean h, hl]
  field_simp
  ring

/-- one-sample update, third central sum, in Meng's form: uses the already updated second sum `M2'` -/
theorem upd3 {m y : K} {xs : List K} (h : m * (xs.length : K) = xs.sum) :
    let n : K := ((xs.length + 1 : ℕ) : K)
    let d := y - m
    let dn := d / n
    S 3 (m + dn) (xs ++ [y]) = S 3 m xs + (d * (d * d - dn * dn) - 3 * dn * (S 2 m xs + d * (d - dn))) := by
  intro n d dn
  have hn : n ≠ 0 := Nat.cast_ne_zero.mpr (Nat.succ_ne_zero _)
  have hl : (xs.length : K) = n - 1 := by simp [n]
  rw [S_snoc, S_shift3, S_one_mean h, hl]
  simp only [dn]
  field_simp
  ring

/-- one-sample update, fourth central sum, in Meng's form: uses the already updated `M2'` and `M3'` -/
theorem upd4 {m y : K} {xs : List K} (h : m * (xs.length : K) = xs.sum) :
    let n : K := ((xs.length + 1 : ℕ) : K)
    let d := y - m
    let dn := d / n
    let M2' := S 2 m xs + d * (d - dn)
    let M3' := S 3 m xs + (d * (d * d - dn * dn) - 3 * dn * M2')
    S 4 (m + dn) (xs ++ [y]) = S 4 m xs + (d * (d * (d * d) - dn * dn * dn) - 6 * (dn * dn) * M2' - 4 * dn * M3') := by
  intro n d dn M2' M3'
  have hn : n ≠ 0 := Nat.cast_ne_zero.mpr (Nat.succ_ne_zero _)
  have hl : (xs.length : K) = n - 1 := by simp [n]
  rw [S_snoc, S_shift4, S_one_mean h, hl]
  simp only [M3', M2', dn]
  field_simp
  ring

/-! ### Pairwise merge (Pébay), in weighted generality; the unweighted merge is the case of unit weights -/

section merge
variable {l₁ l₂ : List (K × K)} {m₁ m₂ : K}

theorem merge_mean (h₁ : m₁ * wtot l₁ = wxsum l₁) (h₂ : m₂ * wtot l₂ = wxsum l₂) (hW : wtot l₁ + wtot l₂ ≠ 0) :
    (m₁ + wtot l₂ * ((m₂ - m₁) / (wtot l₁ + wtot l₂))) * wtot (l₁ ++ l₂) = wxsum (l₁ ++ l₂) := by
  rw [wtot_append, wxsum_append, ← h₁, ← h₂]
  field_simp
  ring

private theorem recentre (hW : wtot l₁ + wtot l₂ ≠ 0) :
    m₁ + wtot l₂ * ((m₂ - m₁) / (wtot l₁ + wtot l₂)) = m₂ + (-(wtot l₁ * ((m₂ - m₁) / (wtot l₁ + wtot l₂)))) := by
  field_simp
  ring

theorem merge2 (h₁ : m₁ * wtot l₁ = wxsum l₁) (h₂ : m₂ * wtot l₂ = wxsum l₂) (hW : wtot l₁ + wtot l₂ ≠ 0) :
    let w1 := wtot l₁; let w2 := wtot l₂; let d := m₂ - m₁; let dw := d / (w1 + w2)
    WS 2 (m₁ + w2 * dw) (l₁ ++ l₂) = WS 2 m₁ l₁ + WS 2 m₂ l₂ + w1 * w2 * d * dw := by
  intro w1 w2 d dw
  rw [WS_append, WS_shift2]
  simp only [w1, w2, d, dw]
  rw [recentre (m₁ := m₁) (m₂ := m₂) hW, WS_shift2, WS_one_mean h₁, WS_one_mean h₂]
  field_simp
  ring

theorem merge3 (h₁ : m₁ * wtot l₁ = wxsum l₁) (h₂ : m₂ * wtot l₂ = wxsum l₂) (hW : wtot l₁ + wtot l₂ ≠ 0) :
    let w1 := wtot l₁; let w2 := wtot l₂; let d := m₂ - m₁; let dw := d / (w1 + w2)
    WS 3 (m₁ + w2 * dw) (l₁ ++ l₂) = WS 3 m₁ l₁ + WS 3 m₂ l₂ + w1 * w2 * (w1 - w2) * d * (dw * dw)
      + 3 * (w1 * WS 2 m₂ l₂ - w2 * WS 2 m₁ l₁) * dw := by
  intro w1 w2 d dw
  rw [WS_append, WS_shift3]
  simp only [w1, w2, d, dw]
  rw [recentre (m₁ := m₁) (m₂ := m₂) hW, WS_shift3, WS_one_mean h₁, WS_one_mean h₂]
  field_simp
  ring

theorem merge4 (h₁ : m₁ * wtot l₁ = wxsum l₁) (h₂ : m₂ * wtot l₂ = wxsum l₂) (hW : wtot l₁ + wtot l₂ ≠ 0) :
    let w1 := wtot l₁; let w2 := wtot l₂; let d := m₂ - m₁; let dw := d / (w1 + w2)
    WS 4 (m₁ + w2 * dw) (l₁ ++ l₂) = WS 4 m₁ l₁ + WS 4 m₂ l₂
      + w1 * w2 * (w1 * w1 - w1 * w2 + w2 * w2) * d * (dw * (dw * dw))
      + 6 * (w1 * w1 * WS 2 m₂ l₂ + w2 * w2 * WS 2 m₁ l₁) * (dw * dw)
      + 4 * (w1 * WS 3 m₂ l₂ - w2 * WS 3 m₁ l₁) * dw := by
  intro w1 w2 d dw
  rw [WS_append, WS_shift4]
  simp only [w1, w2, d, dw]
  rw [recentre (m₁ := m₁) (m₂ := m₂) hW, WS_shift4, WS_one_mean h₁, WS_one_mean h₂]
  field_simp
  ring

end merge

/-! ### The representation invariant of an (unweighted) data summary

`Repr D s xs`: the struct `s` is what the library holds after summarising exactly the samples `xs`
(`D` is `DBL_MAX`; every sample is a finite double, i.e. lies in [-D, D]).  All reported statistics are functions of the
fields, and the fields are determined by `xs` (`Repr.unique`). -/

structure Repr (D : K) (s : DataSummary K) (xs : List K) : Prop where
  cookie : s.cookie = (cmb_datasummary_initialize D s).cookie
  count : s.count = xs.length
  bounded : ∀ x ∈ xs, -D ≤ x ∧ x ≤ D
  empty : xs = [] → s.min = D ∧ s.max = -D ∧ s.m1 = 0
  min_mem : xs ≠ [] → s.min ∈ xs
  min_le : ∀ x ∈ xs, s.min ≤ x
  max_mem : xs ≠ [] → s.max ∈ xs
  le_max : ∀ x ∈ xs, x ≤ s.max
  mean : s.m1 * (xs.length : K) = xs.sum
  m2 : s.m2 = S 2 s.m1 xs
  m3 : s.m3 = S 3 s.m1 xs
  m4 : s.m4 = S 4 s.m1 xs

/-- running minimum, as the C code computes it, starting from `DBL_MAX` -/
theorem min_step {D m y : K} {xs : List K} (he : xs = [] → m = D) (hm : xs ≠ [] → m ∈ xs) (hle : ∀ x ∈ xs, m ≤ x)
    (hy : y ≤ D) :
    (if y < m then y else m) ∈ xs ++ [y] ∧ ∀ x ∈ xs ++ [y], (if y < m then y else m) ≤ x := by
  by_cases hxs : xs = []
  · subst hxs
    have := he rfl; subst this
    by_cases h : y < m
    · simp [h]
    · have : y = m := le_antisymm hy (not_lt.mp h)
      simp [this]
  · have hmem := hm hxs
    by_cases h : y < m
    · simp only [h, if_true]
      refine ⟨by simp, ?_⟩
      intro x hx
      rcases List.mem_append.mp hx with hx | hx
      · exact le_of_lt (lt_of_lt_of_le h (hle x hx))
      · simp at hx; rw [hx]
    · simp only [h, if_false]
      refine ⟨List.mem_append.mpr (Or.inl hmem), ?_⟩
      intro x hx
      rcases List.mem_append.mp hx with hx | hx
      · exact hle x hx
      · simp at hx; rw [hx]; exact not_lt.mp h

theorem max_step {D m y : K} {xs : List K} (he : xs = [] → m = -D) (hm : xs ≠ [] → m ∈ xs) (hle : ∀ x ∈ xs, x ≤ m)
    (hy : -D ≤ y) :
    (if y > m then y else m) ∈ xs ++ [y] ∧ ∀ x ∈ xs ++ [y], x ≤ (if y > m then y else m) := by
  by_cases hxs : xs = []
  · subst hxs
    have := he rfl; subst this
    by_cases h : y > -D
    · simp [h]
    · have : y = -D := le_antisymm (not_lt.mp h) hy
      simp [this]
  · have hmem := hm hxs
    by_cases h : y > m
    · simp only [h, if_true]
      refine ⟨by simp, ?_⟩
      intro x hx
      rcases List.mem_append.mp hx with hx | hx
      · exact le_of_lt (lt_of_le_of_lt (hle x hx) h)
      · simp at hx; rw [hx]
    · simp only [h, if_false]
      refine ⟨List.mem_append.mpr (Or.inl hmem), ?_⟩
      intro x hx
      rcases List.mem_append.mp hx with hx | hx
      · exact hle x hx
      · simp at hx; rw [hx]; exact not_lt.mp h

theorem add_repr {D : K} {s : DataSummary K} {xs : List K} {y : K} (h : Repr D s xs) (hy : -D ≤ y ∧ y ≤ D) :
    cmb_datasummary_add_dom s y ∧ Repr D (cmb_datasummary_add s y).2 (xs ++ [y])
      ∧ (cmb_datasummary_add s y).1 = (xs ++ [y]).length := by
  have hn : ((s.count + 1 : ℕ) : K) ≠ 0 := Nat.cast_ne_zero.mpr (Nat.succ_ne_zero _)
  have hc := h.cookie
  simp only [cmb_datasummary_initialize] at hc
  have hmin := min_step (fun e => (h.empty e).1) h.min_mem h.min_le hy.2
  have hmax := max_step (fun e => (h.empty e).2.1) h.max_mem h.le_max hy.1
  have hm1 : (cmb_datasummary_add s y).2.m1 = s.m1 + (y - s.m1) / ((xs.length + 1 : ℕ) : K) := by
    simp only [cmb_datasummary_add, h.count]
  refine ⟨?_, ?_, ?_⟩
  · simp only [cmb_datasummary_add_dom]
    exact ⟨hc, hn, trivial⟩
  · constructor
    · simp [cmb_datasummary_add, cmb_datasummary_initialize, hc]
    · simp [cmb_datasummary_add, h.count]
    · intro x hx
      rcases List.mem_append.mp hx with hx | hx
      · exact h.bounded x hx
      · simp at hx; subst hx; exact hy
    · intro hcontra; simp at hcontra
    · intro _; simp only [cmb_datasummary_add]; exact hmin.1
    · simp only [cmb_datasummary_add]; exact hmin.2
    · intro _; simp only [cmb_datasummary_add]; exact hmax.1
    · simp only [cmb_datasummary_add]; exact hmax.2
    · rw [hm1]
      have hn' : ((xs.length + 1 : ℕ) : K) ≠ 0 := Nat.cast_ne_zero.mpr (Nat.succ_ne_zero _)
      have := h.mean
      simp only [List.length_append, List.length_cons, List.length_nil, List.sum_append, List.sum_cons, List.sum_nil,
        ← this]
      push_cast
      field_simp
      ring
    · rw [hm1, upd2 h.mean]
      simp only [cmb_datasummary_add, h.count, h.m2]
      try ring
    · rw [hm1, upd3 h.mean]
      simp only [cmb_datasummary_add, h.count, h.m2, h.m3]
      try ring
    · rw [hm1, upd4 h.mean]
      simp only [cmb_datasummary_add, h.count, h.m2, h.m3, h.m4]
      try ring
  · simp [cmb_datasummary_add, h.count]

/-! ### Initial state, whole sequences -/

theorem init_repr (D : K) (s0 : DataSummary K) : Repr D (cmb_datasummary_initialize D s0) [] := by
  constructor <;> simp [cmb_datasummary_initialize]

/-- the summary of a sequence: `initialize`, then `add` for every sample in turn -/
def run (D : K) (s0 : DataSummary K) (xs : List K) : DataSummary K :=
  xs.foldl (fun s y => (cmb_datasummary_add s y).2) (cmb_datasummary_initialize D s0)

theorem run_snoc (D : K) (s0 : DataSummary K) (xs : List K) (y : K) :
    run D s0 (xs ++ [y]) = (cmb_datasummary_add (run D s0 xs) y).2 := by
  simp [run, List.foldl_append]

theorem foldl_repr {D : K} (xs : List K) (hb : ∀ x ∈ xs, -D ≤ x ∧ x ≤ D) :
    ∀ (s : DataSummary K) (xs0 : List K), Repr D s xs0 →
      Repr D (xs.foldl (fun s y => (cmb_datasummary_add s y).2) s) (xs0 ++ xs) := by
  induction xs with
  | nil => intro s xs0 h; simpa using h
  | cons y xs ih =>
    intro s xs0 h
    have h1 := (add_repr h (hb y (by simp))).2.1
    have := ih (fun x hx => hb x (by simp [hx])) _ _ h1
    simpa using this

theorem run_repr (D : K) (s0 : DataSummary K) (xs : List K) (hb : ∀ x ∈ xs, -D ≤ x ∧ x ≤ D) :
    Repr D (run D s0 xs) xs := by
  have := foldl_repr xs hb _ _ (init_repr D s0)
  simpa [run] using this

/-! ### The fields are determined by the data; the order of the data does not matter -/

theorem Repr.m1_eq {D : K} {s : DataSummary K} {xs : List K} (h : Repr D s xs) (hne : xs ≠ []) :
    s.m1 = xs.sum / (xs.length : K) := by
  have hl : (xs.length : K) ≠ 0 := Nat.cast_ne_zero.mpr (by simpa [List.length_eq_zero_iff] using hne)
  rw [← h.mean]; field_simp

theorem Repr.unique {D : K} {s s' : DataSummary K} {xs : List K} (h : Repr D s xs) (h' : Repr D s' xs) : s = s' := by
  have hm1 : s.m1 = s'.m1 := by
    by_cases hne : xs = []
    · rw [(h.empty hne).2.2, (h'.empty hne).2.2]
    · rw [h.m1_eq hne, h'.m1_eq hne]
  have hmin : s.min = s'.min := by
    by_cases hne : xs = []
    · rw [(h.empty hne).1, (h'.empty hne).1]
    · exact le_antisymm (h.min_le _ (h'.min_mem hne)) (h'.min_le _ (h.min_mem hne))
  have hmax : s.max = s'.max := by
    by_cases hne : xs = []
    · rw [(h.empty hne).2.1, (h'.empty hne).2.1]
    · exact le_antisymm (h'.le_max _ (h.max_mem hne)) (h.le_max _ (h'.max_mem hne))
  have hc := h.cookie
  have hc' := h'.cookie
  simp only [cmb_datasummary_initialize] at hc hc'
  have h2 := h.m2; have h3 := h.m3; have h4 := h.m4
  rw [hm1] at h2 h3 h4
  cases s; cases s'
  simp only [DataSummary.mk.injEq]
  exact ⟨hc.trans hc'.symm, h.count.trans h'.count.symm, hmin, hmax, hm1, h2.trans h'.m2.symm,
    h3.trans h'.m3.symm, h4.trans h'.m4.symm⟩

theorem S_perm {xs ys : List K} (p : xs.Perm ys) (k : ℕ) (c : K) : S k c xs = S k c ys :=
  WS_perm (p.map _) k c

theorem Repr.perm {D : K} {s : DataSummary K} {xs ys : List K} (h : Repr D s xs) (p : xs.Perm ys) : Repr D s ys := by
  have hnil : ys = [] ↔ xs = [] := ⟨fun e => by subst e; exact p.eq_nil, fun e => by subst e; exact p.symm.eq_nil⟩
  constructor
  · exact h.cookie
  · rw [h.count, p.length_eq]
  · intro x hx; exact h.bounded x (p.mem_iff.mpr hx)
  · intro e; exact h.empty (hnil.mp e)
  · intro hne; exact p.mem_iff.mp (h.min_mem (fun e => hne (hnil.mpr e)))
  · intro x hx; exact h.min_le x (p.mem_iff.mpr hx)
  · intro hne; exact p.mem_iff.mp (h.max_mem (fun e => hne (hnil.mpr e)))
  · intro x hx; exact h.le_max x (p.mem_iff.mpr hx)
  · rw [← p.length_eq, ← p.sum_eq]; exact h.mean
  · rw [h.m2]; exact S_perm p 2 _
  · rw [h.m3]; exact S_perm p 3 _
  · rw [h.m4]; exact S_perm p 4 _

/-! ### Pairwise merge -/

section smerge
variable {xs ys : List K} {m₁ m₂ : K}

private theorem len_ne (h : (xs.length : K) + (ys.length : K) ≠ 0) :
    wtot (unitW xs) + wtot (unitW ys) ≠ 0 := by rwa [wtot_unitW, wtot_unitW]

theorem S_merge2 (h₁ : m₁ * (xs.length : K) = xs.sum) (h₂ : m₂ * (ys.length : K) = ys.sum)
    (hn : (xs.length : K) + (ys.length : K) ≠ 0) :
    let n1 : K := xs.length; let n2 : K := ys.length; let d := m₂ - m₁; let dn := d / (n1 + n2)
    S 2 (m₁ + n2 * dn) (xs ++ ys) = S 2 m₁ xs + S 2 m₂ ys + n1 * n2 * d * dn := by
  have := merge2 (l₁ := unitW xs) (l₂ := unitW ys) (m₁ := m₁) (m₂ := m₂)
    (by rw [wtot_unitW, wxsum_unitW]; exact h₁) (by rw [wtot_unitW, wxsum_unitW]; exact h₂) (len_ne hn)
  simpa only [S, unitW_append, wtot_unitW] using this

theorem S_merge3 (h₁ : m₁ * (xs.length : K) = xs.sum) (h₂ : m₂ * (ys.length : K) = ys.sum)
    (hn : (xs.length : K) + (ys.length : K) ≠ 0) :
    let n1 : K := xs.length; let n2 : K := ys.length; let d := m₂ - m₁; let dn := d / (n1 + n2)
    S 3 (m₁ + n2 * dn) (xs ++ ys) = S 3 m₁ xs + S 3 m₂ ys + n1 * n2 * (n1 - n2) * d * (dn * dn)
      + 3 * (n1 * S 2 m₂ ys - n2 * S 2 m₁ xs) * dn := by
  have := merge3 (l₁ := unitW xs) (l₂ := unitW ys) (m₁ := m₁) (m₂ := m₂)
    (by rw [wtot_unitW, wxsum_unitW]; exact h₁) (by rw [wtot_unitW, wxsum_unitW]; exact h₂) (len_ne hn)
  simpa only [S, unitW_append, wtot_unitW] using this

theorem S_merge4 (h₁ : m₁ * (xs.length : K) = xs.sum) (h₂ : m₂ * (ys.length : K) = ys.sum)
    (hn : (xs.length : K) + (ys.length : K) ≠ 0) :
    let n1 : K := xs.length; let n2 : K := ys.length; let d := m₂ - m₁; let dn := d / (n1 + n2)
    S 4 (m₁ + n2 * dn) (xs ++ ys) = S 4 m₁ xs + S 4 m₂ ys
      + n1 * n2 * (n1 * n1 - n1 * n2 + n2 * n2) * d * (dn * (dn * dn))
      + 6 * (n1 * n1 * S 2 m₂ ys + n2 * n2 * S 2 m₁ xs) * (dn * dn)
      + 4 * (n1 * S 3 m₂ ys - n2 * S 3 m₁ xs) * dn := by
  have := merge4 (l₁ := unitW xs) (l₂ := unitW ys) (m₁ := m₁) (m₂ := m₂)
    (by rw [wtot_unitW, wxsum_unitW]; exact h₁) (by rw [wtot_unitW, wxsum_unitW]; exact h₂) (len_ne hn)
  simpa only [S, unitW_append, wtot_unitW] using this

theorem S_merge_mean (h₁ : m₁ * (xs.length : K) = xs.sum) (h₂ : m₂ * (ys.length : K) = ys.sum)
    (hn : (xs.length : K) + (ys.length : K) ≠ 0) :
    (m₁ + (ys.length : K) * ((m₂ - m₁) / ((xs.length : K) + (ys.length : K)))) * ((xs ++ ys).length : K)
      = (xs ++ ys).sum := by
  have := merge_mean (l₁ := unitW xs) (l₂ := unitW ys) (m₁ := m₁) (m₂ := m₂)
    (by rw [wtot_unitW, wxsum_unitW]; exact h₁) (by rw [wtot_unitW, wxsum_unitW]; exact h₂) (len_ne hn)
  rw [← unitW_append, wtot_unitW, wxsum_unitW, wtot_unitW, wtot_unitW] at this
  exact this

end smerge

/-- minimum of two non-empty parts, as the C code combines them -/
theorem min_merge {a b : K} {xs ys : List K} (ha : a ∈ xs) (hb : b ∈ ys) (hale : ∀ x ∈ xs, a ≤ x) (hble : ∀ x ∈ ys, b ≤ x) :
    (if a < b then a else b) ∈ xs ++ ys ∧ ∀ x ∈ xs ++ ys, (if a < b then a else b) ≤ x := by
  by_cases h : a < b
  · simp only [h, if_true]
    refine ⟨List.mem_append.mpr (Or.inl ha), fun x hx => ?_⟩
    rcases List.mem_append.mp hx with hx | hx
    · exact hale x hx
    · exact le_of_lt (lt_of_lt_of_le h (hble x hx))
  · simp only [h, if_false]
    refine ⟨List.mem_append.mpr (Or.inr hb), fun x hx => ?_⟩
    rcases List.mem_append.mp hx with hx | hx
    · exact le_trans (not_lt.mp h) (hale x hx)
    · exact hble x hx

theorem max_merge {a b : K} {xs ys : List K} (ha : a ∈ xs) (hb : b ∈ ys) (hale : ∀ x ∈ xs, x ≤ a) (hble : ∀ x ∈ ys, x ≤ b) :
    (if a > b then a else b) ∈ xs ++ ys ∧ ∀ x ∈ xs ++ ys, x ≤ (if a > b then a else b) := by
  by_cases h : a > b
  · simp only [h, if_true]
    refine ⟨List.mem_append.mpr (Or.inl ha), fun x hx => ?_⟩
    rcases List.mem_append.mp hx with hx | hx
    · exact hale x hx
    · exact le_of_lt (lt_of_le_of_lt (hble x hx) h)
  · simp only [h, if_false]
    refine ⟨List.mem_append.mpr (Or.inr hb), fun x hx => ?_⟩
    rcases List.mem_append.mp hx with hx | hx
    · exact le_trans (hale x hx) (not_lt.mp h)
    · exact hble x hx

/-- Merging: the result summarises the concatenation — for every pair of operands, empty ones included, and whatever the
    target held before (`t`). -/
theorem merge_repr {D : K} {t a b : DataSummary K} {xs ys : List K} (ha : Repr D a xs) (hb : Repr D b ys) :
    cmb_datasummary_merge_dom D t a b ∧ Repr D (cmb_datasummary_merge D t a b).2 (xs ++ ys)
      ∧ (cmb_datasummary_merge D t a b).1 = (xs ++ ys).length := by
  have hca := ha.cookie
  have hcb := hb.cookie
  simp only [cmb_datasummary_initialize] at hca hcb
  by_cases hys : ys = []
  · subst hys
    have hb0 : b.count = 0 := by simpa using hb.count
    refine ⟨?_, ?_, ?_⟩
    · simp [cmb_datasummary_merge_dom, hca, hcb, hb0]
    · simpa [cmb_datasummary_merge, hb0] using ha
    · simp [cmb_datasummary_merge, hb0, ha.count]
  by_cases hxs : xs = []
  · subst hxs
    have ha0 : a.count = 0 := by simpa using ha.count
    have hb0 : b.count ≠ 0 := by rw [hb.count]; simpa [List.length_eq_zero_iff] using hys
    refine ⟨?_, ?_, ?_⟩
    · simp [cmb_datasummary_merge_dom, hca, hcb, hb0, ha0]
    · simpa [cmb_datasummary_merge, hb0, ha0] using hb
    · simp [cmb_datasummary_merge, hb0, ha0]; exact hb.count
  have ha0 : a.count ≠ 0 := by rw [ha.count]; simpa [List.length_eq_zero_iff] using hxs
  have hb0 : b.count ≠ 0 := by rw [hb.count]; simpa [List.length_eq_zero_iff] using hys
  have hn : ((xs.length : K) + (ys.length : K)) ≠ 0 := by
    have : ((xs.length + ys.length : ℕ) : K) ≠ 0 :=
      Nat.cast_ne_zero.mpr (by have := List.length_pos_iff.mpr hxs; omega)
    simpa using this
  have hmin := min_merge (ha.min_mem hxs) (hb.min_mem hys) ha.min_le hb.min_le
  have hmax := max_merge (ha.max_mem hxs) (hb.max_mem hys) ha.le_max hb.le_max
  have hm1 : (cmb_datasummary_merge D t a b).2.m1
      = a.m1 + (ys.length : K) * ((b.m1 - a.m1) / ((xs.length : K) + (ys.length : K))) := by
    simp [cmb_datasummary_merge, ha0, hb0]
    simp [ha.count, hb.count]
  refine ⟨?_, ?_, ?_⟩
  · simp [cmb_datasummary_merge_dom, cmb_datasummary_initialize_dom, hca, hcb, ha0, hb0]
    simpa [ha.count, hb.count] using hn
  · constructor
    · simp [cmb_datasummary_merge, cmb_datasummary_initialize, ha0, hb0]
    · simp [cmb_datasummary_merge, ha0, hb0]; simp [ha.count, hb.count]
    · intro x hx
      rcases List.mem_append.mp hx with hx | hx
      · exact ha.bounded x hx
      · exact hb.bounded x hx
    · intro e; exact absurd (List.append_eq_nil_iff.mp e).1 hxs
    · intro _; simpa [cmb_datasummary_merge, ha0, hb0] using hmin.1
    · simpa [cmb_datasummary_merge, ha0, hb0] using hmin.2
    · intro _; simpa [cmb_datasummary_merge, ha0, hb0] using hmax.1
    · simpa [cmb_datasummary_merge, ha0, hb0] using hmax.2
    · rw [hm1]; exact S_merge_mean ha.mean hb.mean hn
    · rw [hm1, S_merge2 ha.mean hb.mean hn]
      simp only [cmb_datasummary_merge, ha0, hb0, if_false]
      simp only [ha.count, hb.count, ha.m2, hb.m2, Nat.cast_add]
      try ring
    · rw [hm1, S_merge3 ha.mean hb.mean hn]
      simp only [cmb_datasummary_merge, ha0, hb0, if_false]
      simp only [ha.count, hb.count, ha.m2, hb.m2, ha.m3, hb.m3, Nat.cast_add]
      try ring
    · rw [hm1, S_merge4 ha.mean hb.mean hn]
      simp only [cmb_datasummary_merge, ha0, hb0, if_false]
      simp only [ha.count, hb.count, ha.m2, hb.m2, ha.m3, hb.m3, ha.m4, hb.m4, Nat.cast_add]
      try ring
  · simp [cmb_datasummary_merge, ha0, hb0]; simp [ha.count, hb.count]

theorem merge_comm {D : K} {t t' a b : DataSummary K} {xs ys : List K} (ha : Repr D a xs) (hb : Repr D b ys) :
    (cmb_datasummary_merge D t a b).2 = (cmb_datasummary_merge D t' b a).2 :=
  (merge_repr (t := t) ha hb).2.1.unique ((merge_repr (t := t') hb ha).2.1.perm List.perm_append_comm)

/-! ### Textbook sample statistics, and the accessors

Conventions documented by the header ("sample variance", "sample skewness", "sample excess kurtosis") and used by the code:
the unbiased variance (divisor n − 1), the adjusted Fisher–Pearson skewness G1 = √(n(n−1))/(n−2) · g1 and the sample excess
kurtosis G2 = (n−1)/((n−2)(n−3)) · ((n+1)·g2 + 6), where g1 = m₃/m₂^{3/2}, g2 = m₄/m₂² − 3 and m_k = (1/n)·Σ(x − x̄)^k
are the (biased) central moments. -/

/-- arithmetic mean -/
def amean (xs : List K) : K := xs.sum / (xs.length : K)
/-- biased central moment (1/n) Σ (x − mean)^k -/
def cmoment (k : ℕ) (xs : List K) : K := S k (amean xs) xs / (xs.length : K)
/-- unbiased sample variance -/
def sampleVariance (xs : List K) : K := S 2 (amean xs) xs / ((xs.length : K) - 1)
/-- sample excess kurtosis G2 -/
def sampleKurtosis (xs : List K) : K :=
  let n : K := xs.length
  (n - 1) / ((n - 2) * (n - 3)) * ((n + 1) * (cmoment 4 xs / (cmoment 2 xs) ^ 2 - 3) + 6)
/-- square of the adjusted sample skewness G1 -/
def sampleSkewnessSq (xs : List K) : K :=
  let n : K := xs.length
  n * (n - 1) / (n - 2) ^ 2 * ((cmoment 3 xs) ^ 2 / (cmoment 2 xs) ^ 3)

/-- what the theorems assume of libm's `sqrt` and `pow(·, 1.5)` (hypotheses, never axioms) -/
structure RootFns (sqrt : K → K) (pow : K → K → K) : Prop where
  sqrt_sq : ∀ x, 0 ≤ x → sqrt x * sqrt x = x
  sqrt_nonneg : ∀ x, 0 ≤ x → 0 ≤ sqrt x
  pow_sq : ∀ x, 0 ≤ x → pow x ((3 : K) / 2) * pow x ((3 : K) / 2) = x ^ 3
  pow_nonneg : ∀ x, 0 ≤ x → 0 ≤ pow x ((3 : K) / 2)

section accessors
variable {D : K} {s : DataSummary K} {xs : List K}

theorem Repr.cookie_val (h : Repr D s xs) : s.cookie = 70391967513698304 := by
  have := h.cookie; simpa [cmb_datasummary_initialize] using this

theorem Repr.m1_mean (h : Repr D s xs) (hne : xs ≠ []) : s.m1 = amean xs := h.m1_eq hne

theorem Repr.m2_nonneg (h : Repr D s xs) : 0 ≤ s.m2 := by
  rw [h.m2]; unfold S
  apply WS_two_nonneg
  intro p hp
  simp only [unitW, List.mem_map] at hp
  obtain ⟨x, _, rfl⟩ := hp
  exact zero_lt_one

theorem count_reported (h : Repr D s xs) : cmb_datasummary_count_dom s ∧ cmb_datasummary_count s = xs.length := by
  simp [cmb_datasummary_count_dom, cmb_datasummary_count, h.cookie_val, h.count]

theorem min_reported (h : Repr D s xs) (hne : xs ≠ []) :
    cmb_datasummary_min_dom s ∧ cmb_datasummary_min s ∈ xs ∧ ∀ x ∈ xs, cmb_datasummary_min s ≤ x := by
  simp only [cmb_datasummary_min_dom, cmb_datasummary_min, h.cookie_val, true_and, and_true]
  exact ⟨h.min_mem hne, h.min_le⟩

theorem max_reported (h : Repr D s xs) (hne : xs ≠ []) :
    cmb_datasummary_max_dom s ∧ cmb_datasummary_max s ∈ xs ∧ ∀ x ∈ xs, x ≤ cmb_datasummary_max s := by
  simp only [cmb_datasummary_max_dom, cmb_datasummary_max, h.cookie_val, true_and, and_true]
  exact ⟨h.max_mem hne, h.le_max⟩

theorem mean_reported (h : Repr D s xs) (hne : xs ≠ []) :
    cmb_datasummary_mean_dom s ∧ cmb_datasummary_mean s = amean xs := by
  simp only [cmb_datasummary_mean_dom, cmb_datasummary_mean, h.cookie_val, true_and, and_true]
  exact h.m1_mean hne

/-! #### closed forms of the accessors in terms of the fields (no list involved; reused by the weighted summary) -/

theorem variance_formula (hc : 1 < s.count) (hck : s.cookie = 70391967513698304) :
    cmb_datasummary_variance_dom s ∧ cmb_datasummary_variance s = s.m2 / ((s.count : K) - 1) := by
  have hcast : (((s.count - 1 : ℕ)) : K) = (s.count : K) - 1 := by
    rw [Nat.cast_sub (by omega)]; simp
  have hnz : (s.count : K) - 1 ≠ 0 := by
    have : (1 : K) < (s.count : K) := by exact_mod_cast hc
    intro e; linarith
  constructor
  · -- whatever way the guard `count > 1` reaches the two obligations (enclosing if, or implications of a conditional store)
    have h1 : 1 ≤ s.count := by omega
    simp only [cmb_datasummary_variance_dom, hck, true_and, and_true, gt_iff_lt, hc, if_true, hcast, forall_const, h1]
    first
      | exact hnz
      | exact ⟨by omega, hnz⟩
      | exact ⟨hnz, by omega⟩
      | (simp [hnz])
  · simp only [cmb_datasummary_variance, gt_iff_lt, hc, if_true, hcast]

theorem variance_small_count (hc : s.count ≤ 1) (hck : s.cookie = 70391967513698304) :
    cmb_datasummary_variance_dom s ∧ cmb_datasummary_variance s = 0 := by
  have hc' : ¬ 1 < s.count := by omega
  simp [cmb_datasummary_variance, cmb_datasummary_variance_dom, hc', hck]
  try omega

theorem kurtosis_formula (hc : 3 < s.count) (hck : s.cookie = 70391967513698304) :
    (cmb_datasummary_kurtosis_dom s ↔ s.m2 ≠ 0) ∧
    cmb_datasummary_kurtosis s = ((s.count : K) - 1) / (((s.count : K) - 2) * ((s.count : K) - 3))
      * (((s.count : K) + 1) * ((s.count : K) * s.m4 / (s.m2 * s.m2) - 3) + 6) := by
  have h4 : (4 : K) ≤ (s.count : K) := by exact_mod_cast hc
  have hn2 : (s.count : K) - 2 ≠ 0 := by intro e; linarith
  have hn3 : (s.count : K) - 3 ≠ 0 := by intro e; linarith
  constructor
  · simp only [cmb_datasummary_kurtosis_dom, hck, true_and, and_true, gt_iff_lt, hc, if_true]
    constructor
    · intro hd e; rw [e] at hd; simp at hd
    · intro hm2; exact ⟨mul_ne_zero hm2 hm2, mul_ne_zero hn2 hn3⟩
  · simp only [cmb_datasummary_kurtosis, gt_iff_lt, hc, if_true]

theorem skewness_formula {sqrt : K → K} {pow : K → K → K} (hr : RootFns sqrt pow)
    (hc : 2 < s.count) (hck : s.cookie = 70391967513698304) (hm2pos : 0 < s.m2) :
    cmb_datasummary_skewness_dom sqrt pow s
      ∧ (cmb_datasummary_skewness sqrt pow s) ^ 2
          = ((s.count : K) * ((s.count : K) - 1)) * (s.count : K) * s.m3 ^ 2 / (s.m2 ^ 3 * ((s.count : K) - 2) ^ 2)
      ∧ ∃ F : K, 0 < F ∧ cmb_datasummary_skewness sqrt pow s = F * s.m3 := by
  have h3 : (3 : K) ≤ (s.count : K) := by exact_mod_cast hc
  set n : K := (s.count : K) with hndef
  have hn0 : 0 < n := by linarith
  have hn2 : 0 < n - 2 := by linarith
  have hnn : 0 < n * (n - 1) := mul_pos hn0 (by linarith)
  -- the roots: P = pow m2 1.5 > 0 with P² = m2³, A = sqrt n > 0, B = sqrt (n(n-1)) > 0
  have hP2 := hr.pow_sq s.m2 (le_of_lt hm2pos)
  have hP0 := hr.pow_nonneg s.m2 (le_of_lt hm2pos)
  have hPne : pow s.m2 ((3 : K) / 2) ≠ 0 := by
    intro e; rw [e] at hP2
    have : s.m2 ^ 3 = 0 := by rw [← hP2]; ring
    exact absurd (pow_eq_zero_iff (by norm_num) |>.mp this) (ne_of_gt hm2pos)
  have hPpos : 0 < pow s.m2 ((3 : K) / 2) := lt_of_le_of_ne hP0 (Ne.symm hPne)
  have hA2 := hr.sqrt_sq n (le_of_lt hn0)
  have hA0 := hr.sqrt_nonneg n (le_of_lt hn0)
  have hApos : 0 < sqrt n :=
    lt_of_le_of_ne hA0 (by intro e; rw [← e, zero_mul] at hA2; exact absurd hA2.symm (ne_of_gt hn0))
  have hB2 := hr.sqrt_sq (n * (n - 1)) (le_of_lt hnn)
  have hB0 := hr.sqrt_nonneg (n * (n - 1)) (le_of_lt hnn)
  have hBpos : 0 < sqrt (n * (n - 1)) :=
    lt_of_le_of_ne hB0 (by intro e; rw [← e, zero_mul] at hB2; exact absurd hB2.symm (ne_of_gt hnn))
  have hval : cmb_datasummary_skewness sqrt pow s
      = sqrt (n * (n - 1)) * (sqrt n * s.m3 / pow s.m2 ((3 : K) / 2)) / (n - 2) := by
    simp only [cmb_datasummary_skewness, gt_iff_lt, hc, if_true, hndef]
  have hfac : 0 < sqrt (n * (n - 1)) * sqrt n / (pow s.m2 ((3 : K) / 2) * (n - 2)) :=
    div_pos (mul_pos hBpos hApos) (mul_pos hPpos hn2)
  have hval' : cmb_datasummary_skewness sqrt pow s
      = (sqrt (n * (n - 1)) * sqrt n / (pow s.m2 ((3 : K) / 2) * (n - 2))) * s.m3 := by
    rw [hval]; field_simp
  refine ⟨?_, ?_, _, hfac, hval'⟩
  · simp only [cmb_datasummary_skewness_dom, hck, true_and, and_true, gt_iff_lt, hc, if_true]
    exact ⟨hPne, ne_of_gt hn2⟩
  · rw [hval']
    have hn2' := ne_of_gt hn2
    have e : (sqrt (n * (n - 1)) * sqrt n / (pow s.m2 ((3 : K) / 2) * (n - 2)) * s.m3) ^ 2
        = (sqrt (n * (n - 1)) * sqrt (n * (n - 1))) * (sqrt n * sqrt n) * s.m3 ^ 2
          / ((pow s.m2 ((3 : K) / 2) * pow s.m2 ((3 : K) / 2)) * (n - 2) ^ 2) := by
      field_simp
    rw [e, hA2, hB2, hP2]

/-! #### the accessors report the textbook statistics of the data -/

theorem variance_reported (h : Repr D s xs) (hn : 2 ≤ xs.length) :
    cmb_datasummary_variance_dom s ∧ cmb_datasummary_variance s = sampleVariance xs := by
  have hne : xs ≠ [] := by intro e; subst e; simp at hn
  obtain ⟨hd, hv⟩ := variance_formula (s := s) (by rw [h.count]; omega) h.cookie_val
  refine ⟨hd, ?_⟩
  rw [hv, h.count, h.m2, h.m1_mean hne]; rfl

theorem variance_small (h : Repr D s xs) (hn : xs.length ≤ 1) :
    cmb_datasummary_variance_dom s ∧ cmb_datasummary_variance s = 0 :=
  variance_small_count (by rw [h.count]; exact hn) h.cookie_val

theorem kurtosis_reported (h : Repr D s xs) (hn : 4 ≤ xs.length) (hv : S 2 (amean xs) xs ≠ 0) :
    cmb_datasummary_kurtosis_dom s ∧ cmb_datasummary_kurtosis s = sampleKurtosis xs := by
  have hne : xs ≠ [] := by intro e; subst e; simp at hn
  obtain ⟨hd, hk⟩ := kurtosis_formula (s := s) (by rw [h.count]; omega) h.cookie_val
  have h4 : (4 : K) ≤ (xs.length : K) := by exact_mod_cast hn
  have hn0 : (xs.length : K) ≠ 0 := by intro e; linarith
  have hn2 : (xs.length : K) - 2 ≠ 0 := by intro e; linarith
  have hn3 : (xs.length : K) - 3 ≠ 0 := by intro e; linarith
  have hm2 : s.m2 ≠ 0 := by rw [h.m2, h.m1_mean hne]; exact hv
  have hv' : S 2 (amean xs) xs ≠ 0 := hv
  refine ⟨hd.mpr hm2, ?_⟩
  rw [hk, h.count, h.m2, h.m4, h.m1_mean hne]
  simp only [sampleKurtosis, cmoment]
  field_simp

/-- a vanishing second central sum (constant data) is exactly when the kurtosis is undefined: the C expression is 0/0 -/
theorem kurtosis_undefined_iff (h : Repr D s xs) (hn : 4 ≤ xs.length) :
    ¬ cmb_datasummary_kurtosis_dom s ↔ S 2 (amean xs) xs = 0 := by
  have hne : xs ≠ [] := by intro e; subst e; simp at hn
  obtain ⟨hd, _⟩ := kurtosis_formula (s := s) (by rw [h.count]; omega) h.cookie_val
  rw [hd, not_not, h.m2, h.m1_mean hne]

theorem skewness_reported {sqrt : K → K} {pow : K → K → K} (hr : RootFns sqrt pow) (h : Repr D s xs)
    (hn : 3 ≤ xs.length) (hv : S 2 (amean xs) xs ≠ 0) :
    cmb_datasummary_skewness_dom sqrt pow s
      ∧ (cmb_datasummary_skewness sqrt pow s) ^ 2 = sampleSkewnessSq xs
      ∧ (0 < S 3 (amean xs) xs → 0 < cmb_datasummary_skewness sqrt pow s)
      ∧ (S 3 (amean xs) xs < 0 → cmb_datasummary_skewness sqrt pow s < 0)
      ∧ (S 3 (amean xs) xs = 0 → cmb_datasummary_skewness sqrt pow s = 0) := by
  have hne : xs ≠ [] := by intro e; subst e; simp at hn
  have h3 : (3 : K) ≤ (xs.length : K) := by exact_mod_cast hn
  have hn0 : (xs.length : K) ≠ 0 := by intro e; linarith
  have hn2 : (xs.length : K) - 2 ≠ 0 := by intro e; linarith
  have hm2pos : 0 < s.m2 := lt_of_le_of_ne h.m2_nonneg (by rw [h.m2, h.m1_mean hne]; exact fun e => hv e.symm)
  have hv' : S 2 (amean xs) xs ≠ 0 := hv
  obtain ⟨hd, hsq, F, hF, hval⟩ := skewness_formula hr (s := s) (by rw [h.count]; omega) h.cookie_val hm2pos
  have hm3 : s.m3 = S 3 (amean xs) xs := by rw [h.m3, h.m1_mean hne]
  refine ⟨hd, ?_, ?_, ?_, ?_⟩
  · rw [hsq, h.count, h.m2, h.m3, h.m1_mean hne]
    simp only [sampleSkewnessSq, cmoment]
    field_simp
  · intro hp; rw [hval]; exact mul_pos hF (by rwa [hm3])
  · intro hp; rw [hval]; exact mul_neg_of_pos_of_neg hF (by rwa [hm3])
  · intro hp; rw [hval, hm3, hp]; ring

end accessors

end CimbaModel.Stats
