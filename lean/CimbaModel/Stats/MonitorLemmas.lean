/-
  Monitor.C18's executable predicates (what tools/props/C18.py evaluates on the implementation's
  answers) are the propositions of the property theorems.
-/
import CimbaModel.Stats.SummaryLemmas
import CimbaModel.Monitor.C18
import Mathlib.Data.Rat.Cast.Order
import Mathlib.Tactic.NormNum

namespace CimbaModel.Stats
open CimbaModel.Monitor.C18

theorem monitor_wBelow_unit (xs : List ℚ) (m : ℚ) :
    CimbaModel.Monitor.C18.wBelow (unitWeights xs) m = (xs.countP (fun x => decide (x < m)) : ℚ) := by
  induction xs with
  | nil => simp [CimbaModel.Monitor.C18.wBelow, unitWeights]
  | cons x xs ih =>
    simp only [CimbaModel.Monitor.C18.wBelow, unitWeights, List.map_cons, List.filter_cons, List.countP_cons] at ih ⊢
    by_cases h : x < m
    · simp only [h, decide_true, if_true, List.map_cons, List.sum_cons, ih]
      push_cast; ring
    · simp only [h, decide_false]
      exact ih

theorem monitor_wAbove_unit (xs : List ℚ) (m : ℚ) :
    CimbaModel.Monitor.C18.wAbove (unitWeights xs) m = (xs.countP (fun x => decide (m < x)) : ℚ) := by
  induction xs with
  | nil => simp [CimbaModel.Monitor.C18.wAbove, unitWeights]
  | cons x xs ih =>
    simp only [CimbaModel.Monitor.C18.wAbove, unitWeights, List.map_cons, List.filter_cons, List.countP_cons] at ih ⊢
    by_cases h : m < x
    · simp only [h, decide_true, if_true, List.map_cons, List.sum_cons, ih]
      push_cast; ring
    · simp only [h, decide_false]
      exact ih

theorem monitor_wTotal_unit (xs : List ℚ) : CimbaModel.Monitor.C18.wTotal (unitWeights xs) = (xs.length : ℚ) := by
  induction xs with
  | nil => simp [CimbaModel.Monitor.C18.wTotal, unitWeights]
  | cons x xs ih =>
    simp only [CimbaModel.Monitor.C18.wTotal, unitWeights, List.map_cons, List.sum_cons, List.length_cons] at ih ⊢
    rw [ih]; push_cast; ring

/-- the monitor's `isMedian` on unit weights is the counting statement of `median_is_median` -/
theorem isMedian_unit_iff (xs : List ℚ) (m : ℚ) :
    isMedian (unitWeights xs) m = true ↔
      2 * xs.countP (fun x => decide (x < m)) ≤ xs.length ∧ 2 * xs.countP (fun x => decide (m < x)) ≤ xs.length := by
  simp only [isMedian, Bool.and_eq_true, decide_eq_true_eq, monitor_wBelow_unit, monitor_wAbove_unit, monitor_wTotal_unit]
  constructor
  · rintro ⟨a, b⟩; exact ⟨by exact_mod_cast a, by exact_mod_cast b⟩
  · rintro ⟨a, b⟩; exact ⟨by exact_mod_cast a, by exact_mod_cast b⟩

/-- (x, w) pairs of the live triples, as the monitor sees a time series -/
def xwOf (tr : List (ℚ × ℚ × ℚ)) : List (ℚ × ℚ) := tr.map fun p => (p.1, p.2.2)

theorem monitor_w_triples (tr : List (ℚ × ℚ × ℚ)) (m : ℚ) :
    CimbaModel.Monitor.C18.wBelow (xwOf tr) m = tBelow tr m ∧
    CimbaModel.Monitor.C18.wAbove (xwOf tr) m = tAbove tr m ∧
    CimbaModel.Monitor.C18.wTotal (xwOf tr) = tTotal tr := by
  induction tr with
  | nil => simp [CimbaModel.Monitor.C18.wBelow, CimbaModel.Monitor.C18.wAbove, CimbaModel.Monitor.C18.wTotal, xwOf, tBelow, tAbove, tTotal]
  | cons p tr ih =>
    obtain ⟨i1, i2, i3⟩ := ih
    simp only [CimbaModel.Monitor.C18.wBelow, CimbaModel.Monitor.C18.wAbove, CimbaModel.Monitor.C18.wTotal, xwOf, tBelow, tAbove, tTotal,
      List.map_cons, List.filter_cons, List.sum_cons] at i1 i2 i3 ⊢
    refine ⟨?_, ?_, by rw [i3]⟩
    · by_cases h : p.1 < m
      · simp only [h, decide_true, if_true, List.map_cons, List.sum_cons, i1]
      · simp only [h, decide_false]; exact i1
    · by_cases h : m < p.1
      · simp only [h, decide_true, if_true, List.map_cons, List.sum_cons, i2]
      · simp only [h, decide_false]; exact i2

/-- the monitor's `isMedian` on a series is the weight statement of `median_is_median_weighted` -/
theorem isMedian_triples_iff (tr : List (ℚ × ℚ × ℚ)) (m : ℚ) :
    isMedian (xwOf tr) m = true ↔ 2 * tBelow tr m ≤ tTotal tr ∧ 2 * tAbove tr m ≤ tTotal tr := by
  obtain ⟨a, b, c⟩ := monitor_w_triples tr m
  simp only [isMedian, Bool.and_eq_true, decide_eq_true_eq, a, b, c]

end CimbaModel.Stats
