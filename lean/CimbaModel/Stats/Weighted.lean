/-
  C17, weighted summaries: representation invariant `WRepr`, the one-sample update and the merge preserve it,
  weights may be rescaled, unit weights give the unweighted summary.
-/
import CimbaModel.Stats.Summary

namespace CimbaModel.Stats
open CimbaModel.Generated.Stats

variable {K : Type} [Field K] [LinearOrder K] [IsStrictOrderedRing K]
set_option linter.unusedSectionVars false

/-- the sample values of a weighted sample list -/
def xsOf (l : List (K × K)) : List K := l.map Prod.fst

@[simp] theorem xsOf_nil : xsOf ([] : List (K × K)) = [] := rfl
@[simp] theorem xsOf_append (l₁ l₂ : List (K × K)) : xsOf (l₁ ++ l₂) = xsOf l₁ ++ xsOf l₂ := by simp [xsOf]
@[simp] theorem xsOf_single (p : K × K) : xsOf [p] = [p.1] := rfl
theorem xsOf_eq_nil {l : List (K × K)} : xsOf l = [] ↔ l = [] := by simp [xsOf]
theorem mem_xsOf {l : List (K × K)} {p : K × K} (h : p ∈ l) : p.1 ∈ xsOf l := List.mem_map_of_mem (f := Prod.fst) h

/-- `WRepr D s l`: the weighted summary `s` is what the library holds after the weighted samples `l` = [(x, w), …],
    all of strictly positive weight (zero-weight samples never enter), have been added. -/
structure WRepr (D : K) (s : WtdSummary K) (l : List (K × K)) : Prop where
  cookie : s.ds.cookie = (cmb_datasummary_initialize D s.ds).cookie
  count : s.ds.count = l.length
  pos : ∀ p ∈ l, 0 < p.2
  bounded : ∀ x ∈ xsOf l, -D ≤ x ∧ x ≤ D
  wsum : s.wsum = wtot l
  empty : l = [] → s.ds.min = D ∧ s.ds.max = -D ∧ s.ds.m1 = 0
  min_mem : xsOf l ≠ [] → s.ds.min ∈ xsOf l
  min_le : ∀ x ∈ xsOf l, s.ds.min ≤ x
  max_mem : xsOf l ≠ [] → s.ds.max ∈ xsOf l
  le_max : ∀ x ∈ xsOf l, x ≤ s.ds.max
  mean : s.ds.m1 * wtot l = wxsum l
  m2 : s.ds.m2 = WS 2 s.ds.m1 l
  m3 : s.ds.m3 = WS 3 s.ds.m1 l
  m4 : s.ds.m4 = WS 4 s.ds.m1 l

theorem WRepr.cookie_val {D : K} {s : WtdSummary K} {l : List (K × K)} (h : WRepr D s l) :
    s.ds.cookie = 70391967513698304 := by
  have := h.cookie; simpa [cmb_datasummary_initialize] using this

theorem winit_repr (D : K) (s0 : WtdSummary K) : WRepr D (cmb_wtdsummary_initialize D s0) [] := by
  constructor <;> simp [cmb_wtdsummary_initialize, cmb_datasummary_initialize]

/-- a zero-weight sample changes nothing at all (whatever the summary holds) -/
theorem wadd_zero_weight (s : WtdSummary K) (x : K) : (cmb_wtdsummary_add s x 0).2 = s ∧ (cmb_wtdsummary_add s x 0).1 = s.ds.count := by
  simp [cmb_wtdsummary_add]

/-- the samples that count: those of non-zero weight -/
def effective (l : List (K × K)) : List (K × K) := l.filter fun p => p.2 ≠ 0

theorem wadd_repr {D : K} {s : WtdSummary K} {l : List (K × K)} {x w : K} (h : WRepr D s l) (hw : 0 ≤ w)
    (hx : -D ≤ x ∧ x ≤ D) :
    cmb_wtdsummary_add_dom s x w ∧ WRepr D (cmb_wtdsummary_add s x w).2 (l ++ effective [(x, w)])
      ∧ (cmb_wtdsummary_add s x w).1 = (l ++ effective [(x, w)]).length := by
  have hck := h.cookie_val
  by_cases hw0 : w = 0
  · subst hw0
    have he : effective [(x, (0 : K))] = [] := by simp [effective]
    rw [he, List.append_nil, (wadd_zero_weight s x).1, (wadd_zero_weight s x).2]
    exact ⟨by simp [cmb_wtdsummary_add_dom, hck], h, h.count⟩
  have hwpos : 0 < w := lt_of_le_of_ne hw (Ne.symm hw0)
  have he : effective [(x, w)] = [(x, w)] := by simp [effective, hw0]
  rw [he]
  by_cases hl : l = []
  · subst hl
    have hc0 : s.ds.count = 0 := by simpa using h.count
    refine ⟨by simp [cmb_wtdsummary_add_dom, hck, hw, hw0, hc0], ?_, by simp [cmb_wtdsummary_add, hw0, hc0]⟩
    constructor <;> simp [cmb_wtdsummary_add, hw0, hc0, cmb_datasummary_initialize, hck, hwpos, hx.1, hx.2, mul_comm]
  have hc0 : s.ds.count ≠ 0 := by rw [h.count]; simpa [List.length_eq_zero_iff] using hl
  have hW1 : 0 < wtot l := wtot_pos h.pos hl
  have hW : wtot l + wtot [(x, w)] ≠ 0 := by simp; linarith
  have h₂ : x * wtot [(x, w)] = wxsum [(x, w)] := by simp; ring
  have hxs : xsOf l ≠ [] := fun e => hl (xsOf_eq_nil.mp e)
  have hmin := min_step (D := D) (fun e => absurd e hxs) h.min_mem h.min_le hx.2
  have hmax := max_step (D := D) (fun e => absurd e hxs) h.max_mem h.le_max hx.1
  have hm1 : (cmb_wtdsummary_add s x w).2.ds.m1 = s.ds.m1 + wtot [(x, w)] * ((x - s.ds.m1) / (wtot l + wtot [(x, w)])) := by
    simp [cmb_wtdsummary_add, hw0, hc0, h.wsum]
  have z2 : WS 2 x [(x, w)] = 0 := by simp
  have z3 : WS 3 x [(x, w)] = 0 := by simp
  have z4 : WS 4 x [(x, w)] = 0 := by simp
  have hw2 : wtot [(x, w)] = w := by simp
  refine ⟨?_, ?_, ?_⟩
  · simp only [cmb_wtdsummary_add_dom, hck, hw, hw0, hc0, if_false, true_and, and_true, ge_iff_le, h.wsum]
    simpa using hW
  · constructor
    · simp [cmb_wtdsummary_add, hw0, hc0, cmb_datasummary_initialize, hck]
    · simp [cmb_wtdsummary_add, hw0, hc0, hl, h.count]
    · intro p hp
      rcases List.mem_append.mp hp with hp | hp
      · exact h.pos p hp
      · simp at hp; subst hp; exact hwpos
    · intro y hy
      rw [xsOf_append] at hy
      rcases List.mem_append.mp hy with hy | hy
      · exact h.bounded y hy
      · simp at hy; subst hy; exact hx
    · simp [cmb_wtdsummary_add, hw0, hc0, h.wsum, wtot_append]
    · intro e; simp at e
    · intro _; simpa [cmb_wtdsummary_add, hw0, hc0] using hmin.1
    · simpa [cmb_wtdsummary_add, hw0, hc0] using hmin.2
    · intro _; simpa [cmb_wtdsummary_add, hw0, hc0] using hmax.1
    · simpa [cmb_wtdsummary_add, hw0, hc0] using hmax.2
    · rw [hm1]; exact merge_mean h.mean h₂ hW
    · rw [hm1, merge2 h.mean h₂ hW, z2, hw2]
      simp only [cmb_wtdsummary_add, hw0, hc0, if_false, h.wsum, h.m2]
      try ring
    · rw [hm1, merge3 h.mean h₂ hW, z2, z3, hw2]
      simp only [cmb_wtdsummary_add, hw0, hc0, if_false, h.wsum, h.m2, h.m3]
      try ring
    · rw [hm1, merge4 h.mean h₂ hW, z2, z3, z4, hw2]
      simp only [cmb_wtdsummary_add, hw0, hc0, if_false, h.wsum, h.m2, h.m3, h.m4]
      try ring
  · simp [cmb_wtdsummary_add, hw0, hc0, hl, h.count]

/-! ### Whole weighted sequences (zero weights allowed in the input) -/

theorem effective_append (l₁ l₂ : List (K × K)) : effective (l₁ ++ l₂) = effective l₁ ++ effective l₂ := by
  simp [effective]

theorem effective_cons (p : K × K) (l : List (K × K)) : effective (p :: l) = effective [p] ++ effective l := by
  rw [← effective_append]; rfl

theorem wtot_effective (l : List (K × K)) : wtot (effective l) = wtot l := by
  induction l with
  | nil => rfl
  | cons p l ih =>
    by_cases hp : p.2 = 0
    · simp [effective, hp] at ih ⊢; exact ih
    · simp [effective, hp] at ih ⊢; rw [ih]

theorem wxsum_effective (l : List (K × K)) : wxsum (effective l) = wxsum l := by
  induction l with
  | nil => rfl
  | cons p l ih =>
    by_cases hp : p.2 = 0
    · simp [effective, hp] at ih ⊢; exact ih
    · simp [effective, hp] at ih ⊢; rw [ih]

/-- the weighted summary of a sequence of (x, w): `initialize`, then `add` for every pair in turn -/
def wrun (D : K) (s0 : WtdSummary K) (l : List (K × K)) : WtdSummary K :=
  l.foldl (fun s p => (cmb_wtdsummary_add s p.1 p.2).2) (cmb_wtdsummary_initialize D s0)

theorem wfoldl_repr {D : K} (l : List (K × K)) (hb : ∀ p ∈ l, 0 ≤ p.2 ∧ -D ≤ p.1 ∧ p.1 ≤ D) :
    ∀ (s : WtdSummary K) (l0 : List (K × K)), WRepr D s l0 →
      WRepr D (l.foldl (fun s p => (cmb_wtdsummary_add s p.1 p.2).2) s) (l0 ++ effective l) := by
  induction l with
  | nil => intro s l0 h; simpa [effective] using h
  | cons p l ih =>
    intro s l0 h
    have hp := hb p (by simp)
    have h1 := (wadd_repr h hp.1 hp.2).2.1
    have := ih (fun q hq => hb q (by simp [hq])) _ _ h1
    rw [effective_cons, ← List.append_assoc]
    simpa using this

theorem wrun_repr (D : K) (s0 : WtdSummary K) (l : List (K × K)) (hb : ∀ p ∈ l, 0 ≤ p.2 ∧ -D ≤ p.1 ∧ p.1 ≤ D) :
    WRepr D (wrun D s0 l) (effective l) := by
  have := wfoldl_repr l hb _ _ (winit_repr D s0)
  simpa [wrun] using this

/-! ### The fields are determined by the (effective) data; order does not matter -/

theorem WRepr.m1_eq {D : K} {s : WtdSummary K} {l : List (K × K)} (h : WRepr D s l) (hne : l ≠ []) :
    s.ds.m1 = wxsum l / wtot l := by
  have hl : wtot l ≠ 0 := ne_of_gt (wtot_pos h.pos hne)
  rw [← h.mean]; field_simp

theorem WRepr.unique {D : K} {s s' : WtdSummary K} {l : List (K × K)} (h : WRepr D s l) (h' : WRepr D s' l) : s = s' := by
  have hx : xsOf l = [] ↔ l = [] := xsOf_eq_nil
  have hm1 : s.ds.m1 = s'.ds.m1 := by
    by_cases hne : l = []
    · rw [(h.empty hne).2.2, (h'.empty hne).2.2]
    · rw [h.m1_eq hne, h'.m1_eq hne]
  have hmin : s.ds.min = s'.ds.min := by
    by_cases hne : l = []
    · rw [(h.empty hne).1, (h'.empty hne).1]
    · have hne' : xsOf l ≠ [] := fun e => hne (hx.mp e)
      exact le_antisymm (h.min_le _ (h'.min_mem hne')) (h'.min_le _ (h.min_mem hne'))
  have hmax : s.ds.max = s'.ds.max := by
    by_cases hne : l = []
    · rw [(h.empty hne).2.1, (h'.empty hne).2.1]
    · have hne' : xsOf l ≠ [] := fun e => hne (hx.mp e)
      exact le_antisymm (h'.le_max _ (h.max_mem hne')) (h.le_max _ (h'.max_mem hne'))
  have h2 := h.m2; have h3 := h.m3; have h4 := h.m4
  rw [hm1] at h2 h3 h4
  obtain ⟨ds, ws⟩ := s
  obtain ⟨ds', ws'⟩ := s'
  cases ds; cases ds'
  simp only [WtdSummary.mk.injEq, DataSummary.mk.injEq]
  exact ⟨⟨h.cookie_val.trans h'.cookie_val.symm, h.count.trans h'.count.symm, hmin, hmax, hm1, h2.trans h'.m2.symm,
    h3.trans h'.m3.symm, h4.trans h'.m4.symm⟩, h.wsum.trans h'.wsum.symm⟩

theorem WRepr.perm {D : K} {s : WtdSummary K} {l l' : List (K × K)} (h : WRepr D s l) (p : l.Perm l') : WRepr D s l' := by
  have px : (xsOf l).Perm (xsOf l') := p.map _
  have hnil : xsOf l' = [] ↔ xsOf l = [] :=
    ⟨fun e => by rw [e] at px; exact px.eq_nil, fun e => by rw [e] at px; exact px.symm.eq_nil⟩
  constructor
  · exact h.cookie
  · rw [h.count, p.length_eq]
  · intro q hq; exact h.pos q (p.mem_iff.mpr hq)
  · intro x hx; exact h.bounded x (px.mem_iff.mpr hx)
  · rw [h.wsum]; exact wtot_perm p
  · intro e; subst e; exact h.empty p.eq_nil
  · intro hne; exact px.mem_iff.mp (h.min_mem (fun e => hne (hnil.mpr e)))
  · intro x hx; exact h.min_le x (px.mem_iff.mpr hx)
  · intro hne; exact px.mem_iff.mp (h.max_mem (fun e => hne (hnil.mpr e)))
  · intro x hx; exact h.le_max x (px.mem_iff.mpr hx)
  · rw [← wtot_perm p, ← wxsum_perm p]; exact h.mean
  · rw [h.m2]; exact WS_perm p 2 _
  · rw [h.m3]; exact WS_perm p 3 _
  · rw [h.m4]; exact WS_perm p 4 _

/-! ### Merge of weighted summaries -/

theorem wmerge_repr {D : K} {t a b : WtdSummary K} {l₁ l₂ : List (K × K)} (ha : WRepr D a l₁) (hb : WRepr D b l₂) :
    cmb_wtdsummary_merge_dom D t a b ∧ WRepr D (cmb_wtdsummary_merge D t a b).2 (l₁ ++ l₂)
      ∧ (cmb_wtdsummary_merge D t a b).1 = (l₁ ++ l₂).length := by
  have hca := ha.cookie_val
  have hcb := hb.cookie_val
  by_cases h2 : l₂ = []
  · subst h2
    have hb0 : b.ds.count = 0 := by simpa using hb.count
    refine ⟨?_, ?_, ?_⟩
    · simp [cmb_wtdsummary_merge_dom, cmb_wtdsummary_count_dom, cmb_datasummary_count_dom, cmb_wtdsummary_count,
        cmb_datasummary_count, hca, hcb, hb0]
    · simpa [cmb_wtdsummary_merge, cmb_wtdsummary_count, cmb_datasummary_count, hb0] using ha
    · simp [cmb_wtdsummary_merge, cmb_wtdsummary_count, cmb_datasummary_count, hb0, ha.count]
  by_cases h1 : l₁ = []
  · subst h1
    have ha0 : a.ds.count = 0 := by simpa using ha.count
    have hb0 : b.ds.count ≠ 0 := by rw [hb.count]; simpa [List.length_eq_zero_iff] using h2
    refine ⟨?_, ?_, ?_⟩
    · simp [cmb_wtdsummary_merge_dom, cmb_wtdsummary_count_dom, cmb_datasummary_count_dom, cmb_wtdsummary_count,
        cmb_datasummary_count, hca, hcb, hb0, ha0]
    · simpa [cmb_wtdsummary_merge, cmb_wtdsummary_count, cmb_datasummary_count, hb0, ha0] using hb
    · simp [cmb_wtdsummary_merge, cmb_wtdsummary_count, cmb_datasummary_count, hb0, ha0]; exact hb.count
  have ha0 : a.ds.count ≠ 0 := by rw [ha.count]; simpa [List.length_eq_zero_iff] using h1
  have hb0 : b.ds.count ≠ 0 := by rw [hb.count]; simpa [List.length_eq_zero_iff] using h2
  have hW : wtot l₁ + wtot l₂ ≠ 0 := by
    have := wtot_pos ha.pos h1; have := wtot_pos hb.pos h2
    intro e; linarith
  have hx1 : xsOf l₁ ≠ [] := fun e => h1 (xsOf_eq_nil.mp e)
  have hx2 : xsOf l₂ ≠ [] := fun e => h2 (xsOf_eq_nil.mp e)
  have hmin := min_merge (ha.min_mem hx1) (hb.min_mem hx2) ha.min_le hb.min_le
  have hmax := max_merge (ha.max_mem hx1) (hb.max_mem hx2) ha.le_max hb.le_max
  have hm1 : (cmb_wtdsummary_merge D t a b).2.ds.m1
      = a.ds.m1 + wtot l₂ * ((b.ds.m1 - a.ds.m1) / (wtot l₁ + wtot l₂)) := by
    simp [cmb_wtdsummary_merge, cmb_wtdsummary_count, cmb_datasummary_count, ha0, hb0, ha.wsum, hb.wsum]
  refine ⟨?_, ?_, ?_⟩
  · simp [cmb_wtdsummary_merge_dom, cmb_wtdsummary_count_dom, cmb_datasummary_count_dom, cmb_wtdsummary_count,
      cmb_datasummary_count, cmb_wtdsummary_initialize_dom, cmb_datasummary_initialize_dom, hca, hcb, ha0, hb0,
      ha.wsum, hb.wsum]
    exact hW
  · constructor
    · simp [cmb_wtdsummary_merge, cmb_wtdsummary_count, cmb_datasummary_count, cmb_wtdsummary_initialize,
        cmb_datasummary_initialize, ha0, hb0]
    · simp [cmb_wtdsummary_merge, cmb_wtdsummary_count, cmb_datasummary_count, ha0, hb0]; simp [ha.count, hb.count]
    · intro p hp
      rcases List.mem_append.mp hp with hp | hp
      · exact ha.pos p hp
      · exact hb.pos p hp
    · intro x hx
      rw [xsOf_append] at hx
      rcases List.mem_append.mp hx with hx | hx
      · exact ha.bounded x hx
      · exact hb.bounded x hx
    · simp [cmb_wtdsummary_merge, cmb_wtdsummary_count, cmb_datasummary_count, ha0, hb0, ha.wsum, hb.wsum, wtot_append]
    · intro e; exact absurd (List.append_eq_nil_iff.mp e).1 h1
    · intro _; simpa [cmb_wtdsummary_merge, cmb_wtdsummary_count, cmb_datasummary_count, ha0, hb0] using hmin.1
    · simpa [cmb_wtdsummary_merge, cmb_wtdsummary_count, cmb_datasummary_count, ha0, hb0] using hmin.2
    · intro _; simpa [cmb_wtdsummary_merge, cmb_wtdsummary_count, cmb_datasummary_count, ha0, hb0] using hmax.1
    · simpa [cmb_wtdsummary_merge, cmb_wtdsummary_count, cmb_datasummary_count, ha0, hb0] using hmax.2
    · rw [hm1]; exact merge_mean ha.mean hb.mean hW
    · rw [hm1, merge2 ha.mean hb.mean hW]
      simp only [cmb_wtdsummary_merge, cmb_wtdsummary_count, cmb_datasummary_count, ha0, hb0, if_false,
        ha.wsum, hb.wsum, ha.m2, hb.m2]
      try ring
    · rw [hm1, merge3 ha.mean hb.mean hW]
      simp only [cmb_wtdsummary_merge, cmb_wtdsummary_count, cmb_datasummary_count, ha0, hb0, if_false,
        ha.wsum, hb.wsum, ha.m2, hb.m2, ha.m3, hb.m3]
      try ring
    · rw [hm1, merge4 ha.mean hb.mean hW]
      simp only [cmb_wtdsummary_merge, cmb_wtdsummary_count, cmb_datasummary_count, ha0, hb0, if_false,
        ha.wsum, hb.wsum, ha.m2, hb.m2, ha.m3, hb.m3, ha.m4, hb.m4]
      try ring
  · simp [cmb_wtdsummary_merge, cmb_wtdsummary_count, cmb_datasummary_count, ha0, hb0]; simp [ha.count, hb.count]

theorem wmerge_comm {D : K} {t t' a b : WtdSummary K} {l₁ l₂ : List (K × K)} (ha : WRepr D a l₁) (hb : WRepr D b l₂) :
    (cmb_wtdsummary_merge D t a b).2 = (cmb_wtdsummary_merge D t' b a).2 :=
  (wmerge_repr (t := t) ha hb).2.1.unique ((wmerge_repr (t := t') hb ha).2.1.perm List.perm_append_comm)

/-! ### Unit weights: the weighted summary is the unweighted one -/

@[simp] theorem xsOf_unitW (xs : List K) : xsOf (unitW xs) = xs := by
  simp [xsOf, unitW, Function.comp_def]

theorem effective_unitW (xs : List K) : effective (unitW xs) = unitW xs := by
  simp [effective, unitW]

theorem WRepr.toRepr {D : K} {s : WtdSummary K} {xs : List K} (h : WRepr D s (unitW xs)) :
    Repr D s.ds xs ∧ s.wsum = (xs.length : K) := by
  have hnil : unitW xs = [] ↔ xs = [] := by simp [unitW]
  refine ⟨?_, by rw [h.wsum, wtot_unitW]⟩
  constructor
  · exact h.cookie
  · rw [h.count, unitW_length]
  · have := h.bounded; rwa [xsOf_unitW] at this
  · intro e; exact h.empty (hnil.mpr e)
  · have := h.min_mem; rwa [xsOf_unitW] at this
  · have := h.min_le; rwa [xsOf_unitW] at this
  · have := h.max_mem; rwa [xsOf_unitW] at this
  · have := h.le_max; rwa [xsOf_unitW] at this
  · have := h.mean; rwa [wtot_unitW, wxsum_unitW] at this
  · exact h.m2
  · exact h.m3
  · exact h.m4

/-! ### The normalised moment sums used by the weighted accessors -/

section normalized
variable {D : K} {s : WtdSummary K} {l : List (K × K)}

theorem normalized_of_pos (hW : 0 < s.wsum) :
    cmi_wtdsummary_normalized_dom s ∧
    cmi_wtdsummary_normalized s = { s.ds with m2 := s.ds.m2 * ((s.ds.count : K) / s.wsum),
                                              m3 := s.ds.m3 * ((s.ds.count : K) / s.wsum),
                                              m4 := s.ds.m4 * ((s.ds.count : K) / s.wsum) } := by
  constructor
  · simp only [cmi_wtdsummary_normalized_dom, gt_iff_lt, hW, if_true, and_true]
    exact ne_of_gt hW
  · simp only [cmi_wtdsummary_normalized, gt_iff_lt, hW, if_true]

theorem normalized_of_not_pos (hW : ¬ 0 < s.wsum) :
    cmi_wtdsummary_normalized_dom s ∧ cmi_wtdsummary_normalized s = s.ds := by
  simp [cmi_wtdsummary_normalized_dom, cmi_wtdsummary_normalized, hW]

theorem normalized_dom_always (s : WtdSummary K) : cmi_wtdsummary_normalized_dom s := by
  by_cases hW : 0 < s.wsum
  · exact (normalized_of_pos hW).1
  · exact (normalized_of_not_pos hW).1

/-- when the weights sum to the sample count (in particular: unit weights) nothing is rescaled -/
theorem normalized_unit (hw : s.wsum = (s.ds.count : K)) : cmi_wtdsummary_normalized s = s.ds := by
  by_cases hW : 0 < s.wsum
  · rw [(normalized_of_pos hW).2, ← hw, div_self (ne_of_gt hW)]
    simp
  · exact (normalized_of_not_pos hW).2

theorem WRepr.wsum_pos (h : WRepr D s l) (hne : l ≠ []) : 0 < s.wsum := by
  rw [h.wsum]; exact wtot_pos h.pos hne

theorem WRepr.m2_nonneg (h : WRepr D s l) : 0 ≤ s.ds.m2 := by
  rw [h.m2]; exact WS_two_nonneg h.pos _

end normalized

/-! ### Rescaling all weights by a positive constant -/

theorem xsOf_scaleW (c : K) (l : List (K × K)) : xsOf (scaleW c l) = xsOf l := by
  simp [xsOf, scaleW, Function.comp_def]

theorem effective_scaleW {c : K} (hc : c ≠ 0) (l : List (K × K)) : effective (scaleW c l) = scaleW c (effective l) := by
  induction l with
  | nil => rfl
  | cons p l ih =>
    by_cases hp : p.2 = 0
    · simp [effective, scaleW, hp] at ih ⊢; exact ih
    · simp [effective, scaleW, hp, hc] at ih ⊢; exact ih

/-- the summary of the rescaled data: same count, extremes and mean; weight sum and moment sums multiplied by `c` -/
theorem WRepr.scale {D c : K} {s s' : WtdSummary K} {l : List (K × K)} (h : WRepr D s l) (h' : WRepr D s' (scaleW c l))
    (hc : 0 < c) :
    s' = { ds := { s.ds with m2 := c * s.ds.m2, m3 := c * s.ds.m3, m4 := c * s.ds.m4 }, wsum := c * s.wsum } := by
  apply h'.unique
  have hnil : scaleW c l = [] ↔ l = [] := by simp [scaleW]
  constructor
  · exact h.cookie
  · simp [h.count]
  · intro p hp
    simp only [scaleW, List.mem_map] at hp
    obtain ⟨q, hq, rfl⟩ := hp
    exact mul_pos hc (h.pos q hq)
  · rw [xsOf_scaleW]; exact h.bounded
  · simp [h.wsum, wtot_scaleW]
  · intro e; exact h.empty (hnil.mp e)
  · rw [xsOf_scaleW]; exact h.min_mem
  · rw [xsOf_scaleW]; exact h.min_le
  · rw [xsOf_scaleW]; exact h.max_mem
  · rw [xsOf_scaleW]; exact h.le_max
  · rw [wtot_scaleW, wxsum_scaleW, ← h.mean]; simp only; ring
  · simp only; rw [WS_scaleW, h.m2]
  · simp only; rw [WS_scaleW, h.m3]
  · simp only; rw [WS_scaleW, h.m4]

/-- hence the normalised moment sums do not change at all -/
theorem normalized_scale {D c : K} {s s' : WtdSummary K} {l : List (K × K)} (h : WRepr D s l)
    (h' : WRepr D s' (scaleW c l)) (hc : 0 < c) :
    cmi_wtdsummary_normalized s' = cmi_wtdsummary_normalized s := by
  rw [h.scale h' hc]
  by_cases hne : l = []
  · subst hne
    have hw : s.wsum = 0 := by simpa using h.wsum
    have h2 := h.m2; have h3 := h.m3; have h4 := h.m4
    simp only [WS_nil] at h2 h3 h4
    have e : ({ ds := { s.ds with m2 := c * s.ds.m2, m3 := c * s.ds.m3, m4 := c * s.ds.m4 }, wsum := c * s.wsum }
        : WtdSummary K) = s := by
      obtain ⟨ds, ws⟩ := s
      cases ds
      simp_all
    rw [e]
  · have hW := h.wsum_pos hne
    have hW' : 0 < c * s.wsum := mul_pos hc hW
    rw [(normalized_of_pos hW).2, (normalized_of_pos (s := _) hW').2]
    have := ne_of_gt hW; have := ne_of_gt hc
    simp only [DataSummary.mk.injEq, true_and]
    refine ⟨?_, ?_, ?_⟩ <;> field_simp

/-! ### Textbook weighted sample statistics (reliability weights; n = number of samples of non-zero weight) -/

/-- weighted mean -/
def wmean (l : List (K × K)) : K := wxsum l / wtot l
/-- weighted (biased) central moment Σ w (x − mean)^k / Σ w -/
def wcmoment (k : ℕ) (l : List (K × K)) : K := WS k (wmean l) l / wtot l
/-- weighted sample variance, n/(n−1) · Σ w (x − mean)² / Σ w  (NIST/Dataplot convention; with equal weights the
    ordinary unbiased sample variance) -/
def wsampleVariance (l : List (K × K)) : K := (l.length : K) / ((l.length : K) - 1) * wcmoment 2 l
def wsampleKurtosis (l : List (K × K)) : K :=
  let n : K := l.length
  (n - 1) / ((n - 2) * (n - 3)) * ((n + 1) * (wcmoment 4 l / (wcmoment 2 l) ^ 2 - 3) + 6)
def wsampleSkewnessSq (l : List (K × K)) : K :=
  let n : K := l.length
  n * (n - 1) / (n - 2) ^ 2 * ((wcmoment 3 l) ^ 2 / (wcmoment 2 l) ^ 3)

section waccessors
variable {D : K} {s : WtdSummary K} {l : List (K × K)}

theorem WRepr.m1_wmean (h : WRepr D s l) (hne : l ≠ []) : s.ds.m1 = wmean l := h.m1_eq hne

theorem wmean_reported (h : WRepr D s l) (hne : l ≠ []) :
    cmb_wtdsummary_mean_dom s ∧ cmb_wtdsummary_mean s = wmean l := by
  simp only [cmb_wtdsummary_mean_dom, cmb_wtdsummary_mean, cmb_datasummary_mean_dom, cmb_datasummary_mean,
    h.cookie_val, true_and, and_true]
  exact h.m1_wmean hne

theorem wvariance_reported (h : WRepr D s l) (hn : 2 ≤ l.length) :
    cmb_wtdsummary_variance_dom s ∧ cmb_wtdsummary_variance s = wsampleVariance l := by
  have hne : l ≠ [] := by intro e; subst e; simp at hn
  have hW := h.wsum_pos hne
  obtain ⟨hnd, hnv⟩ := normalized_of_pos hW
  have hcnt : 1 < (cmi_wtdsummary_normalized s).count := by rw [hnv]; simp only; rw [h.count]; omega
  obtain ⟨hd, hv⟩ := variance_formula (s := cmi_wtdsummary_normalized s) hcnt (by rw [hnv]; exact h.cookie_val)
  refine ⟨by simp only [cmb_wtdsummary_variance_dom]; exact ⟨hnd, hd, trivial⟩, ?_⟩
  simp only [cmb_wtdsummary_variance]
  rw [hv, hnv]
  simp only [wsampleVariance, wcmoment]
  rw [h.count, h.m2, h.m1_wmean hne, h.wsum]
  have : (2 : K) ≤ (l.length : K) := by exact_mod_cast hn
  have : (l.length : K) - 1 ≠ 0 := by intro e; linarith
  have := ne_of_gt (wtot_pos h.pos hne)
  field_simp

theorem wkurtosis_reported (h : WRepr D s l) (hn : 4 ≤ l.length) (hv : WS 2 (wmean l) l ≠ 0) :
    cmb_wtdsummary_kurtosis_dom s ∧ cmb_wtdsummary_kurtosis s = wsampleKurtosis l := by
  have hne : l ≠ [] := by intro e; subst e; simp at hn
  have hW := h.wsum_pos hne
  obtain ⟨hnd, hnv⟩ := normalized_of_pos hW
  have hcnt : 3 < (cmi_wtdsummary_normalized s).count := by rw [hnv]; simp only; rw [h.count]; omega
  obtain ⟨hd, hk⟩ := kurtosis_formula (s := cmi_wtdsummary_normalized s) hcnt (by rw [hnv]; exact h.cookie_val)
  have h4 : (4 : K) ≤ (l.length : K) := by exact_mod_cast hn
  have hn0 : (l.length : K) ≠ 0 := by intro e; linarith
  have hn2 : (l.length : K) - 2 ≠ 0 := by intro e; linarith
  have hn3 : (l.length : K) - 3 ≠ 0 := by intro e; linarith
  have hWne := ne_of_gt (wtot_pos h.pos hne)
  have hv' : WS 2 (wmean l) l ≠ 0 := hv
  have hm2n : (cmi_wtdsummary_normalized s).m2 ≠ 0 := by
    rw [hnv]; simp only
    rw [h.count, h.m2, h.m1_wmean hne, h.wsum]
    exact mul_ne_zero hv (div_ne_zero hn0 hWne)
  refine ⟨by simp only [cmb_wtdsummary_kurtosis_dom]; exact ⟨hnd, hd.mpr hm2n, trivial⟩, ?_⟩
  simp only [cmb_wtdsummary_kurtosis]
  rw [hk, hnv]
  simp only [wsampleKurtosis, wcmoment]
  rw [h.count, h.m2, h.m4, h.m1_wmean hne, h.wsum]
  field_simp

theorem wskewness_reported {sqrt : K → K} {pow : K → K → K} (hr : RootFns sqrt pow) (h : WRepr D s l)
    (hn : 3 ≤ l.length) (hv : WS 2 (wmean l) l ≠ 0) :
    cmb_wtdsummary_skewness_dom sqrt pow s
      ∧ (cmb_wtdsummary_skewness sqrt pow s) ^ 2 = wsampleSkewnessSq l
      ∧ (0 < WS 3 (wmean l) l → 0 < cmb_wtdsummary_skewness sqrt pow s)
      ∧ (WS 3 (wmean l) l < 0 → cmb_wtdsummary_skewness sqrt pow s < 0) := by
  have hne : l ≠ [] := by intro e; subst e; simp at hn
  have hW := h.wsum_pos hne
  obtain ⟨hnd, hnv⟩ := normalized_of_pos hW
  have hcnt : 2 < (cmi_wtdsummary_normalized s).count := by rw [hnv]; simp only; rw [h.count]; omega
  have h3 : (3 : K) ≤ (l.length : K) := by exact_mod_cast hn
  have hn0 : (0 : K) < (l.length : K) := by linarith
  have hn2 : (l.length : K) - 2 ≠ 0 := by intro e; linarith
  have hWpos := wtot_pos h.pos hne
  have hWne := ne_of_gt hWpos
  have hv' : WS 2 (wmean l) l ≠ 0 := hv
  have hm2pos0 : 0 < s.ds.m2 := lt_of_le_of_ne h.m2_nonneg (by rw [h.m2, h.m1_wmean hne]; exact fun e => hv e.symm)
  have hfpos : 0 < (l.length : K) / wtot l := div_pos hn0 hWpos
  have hm2pos : 0 < (cmi_wtdsummary_normalized s).m2 := by
    rw [hnv]; simp only; rw [h.count, h.wsum]; exact mul_pos hm2pos0 hfpos
  obtain ⟨hd, hsq, F, hF, hval⟩ :=
    skewness_formula hr (s := cmi_wtdsummary_normalized s) hcnt (by rw [hnv]; exact h.cookie_val) hm2pos
  have hm3 : (cmi_wtdsummary_normalized s).m3 = WS 3 (wmean l) l * ((l.length : K) / wtot l) := by
    rw [hnv]; simp only; rw [h.count, h.m3, h.m1_wmean hne, h.wsum]
  refine ⟨by simp only [cmb_wtdsummary_skewness_dom]; exact ⟨hnd, hd, trivial⟩, ?_, ?_, ?_⟩
  · simp only [cmb_wtdsummary_skewness]
    rw [hsq, hnv]
    simp only [wsampleSkewnessSq, wcmoment]
    rw [h.count, h.m2, h.m3, h.m1_wmean hne, h.wsum]
    have := ne_of_gt hn0
    field_simp
  · intro hp; simp only [cmb_wtdsummary_skewness]; rw [hval, hm3]; exact mul_pos hF (mul_pos hp hfpos)
  · intro hp; simp only [cmb_wtdsummary_skewness]; rw [hval, hm3]
    exact mul_neg_of_pos_of_neg hF (mul_neg_of_neg_of_pos hp hfpos)

end waccessors

end CimbaModel.Stats
