/-
  Model of the medians and five-number summaries:
    src/cmb_dataset.c     data_array_median, cmb_dataset_median, cmb_dataset_fivenum_print
    src/cmb_timeseries.c  cmb_timeseries_median, cmb_timeseries_fivenum_print
  in exact arithmetic over `K` (doubles are modelled by an ordered field; see DESIGN.md §2.6).

  REPAIRED behaviour is modelled (the shipped code is wrong, see notes/C18.md):
   * fixes/C18-fivenum-one-sample.patch: `cmb_dataset_fivenum_print` no longer takes the median of
     an empty half (shipped: `data_array_median(0, v)` reads `v[0u/2u - 1u] = v[UINT_MAX]`);
     the shipped index arithmetic is kept in `arrMedian` (it returns `none` there).
   * fixes/C18-timeseries-weighted-quantiles.patch: the duration-weighted median / quartiles are
     the first sample (in ascending x order) whose cumulative weight reaches 1/2 (1/4, 3/4) of the
     total (shipped: an interpolation that is not a median and yields 0.0 when the first sample
     already holds more than the wanted fraction).

  Core Lean only: linked into the compiled driver `stat2main`.
-/
import CimbaModel.Stats.Sort
import CimbaModel.Stats.Arrays

namespace CimbaModel.Stats

section
variable {K : Type} [Inhabited K] [Add K] [Div K] [OfNat K 2]

/-- `data_array_median(n, &v[off])` on a sorted array; `n` is `unsigned`, so `n/2u - 1u` is computed
    modulo 2^32 (for `n = 0` it is `UINT_MAX`: out of bounds) -/
def arrMedian (v : Array K) (off n : Nat) : Option K :=
  if n % 2 = 0 then do
    let a ← v[off + (n / 2 + 4294967295) % 4294967296]?
    let b ← v[off + n / 2]?
    pure ((a + b) / 2)
  else v[off + n / 2]?

variable [LT K] [DecidableLT K] [OfNat K 0]

/-- the array that `cmb_dataset_median` / `_fivenum_print` look at: copy, sort, first `count` slots -/
def DS.sortedCopy (s : DS K) : Option (Array K) :=
  s.copy.map fun d => (heapsort id d.count d.xa).extract 0 d.count

/-- `cmb_dataset_median`; the `unsigned n` parameter of `data_array_median` truncates `count` -/
def DS.median (s : DS K) : Option K :=
  if s.xa.size = 0 then some 0      -- "Cannot take median without any data", returns 0.0
  else do
    let v ← s.sortedCopy
    arrMedian v 0 (s.count % 4294967296)

/-- what `cmb_dataset_fivenum_print` prints: min, first quartile, median, third quartile, max -/
structure FiveNum (K : Type) where
  min : K
  q1 : K
  med : K
  q3 : K
  max : K
  deriving Repr

/-- the quartile / median computation of `cmb_dataset_fivenum_print` on the sorted copy `v` of `cnt`
    samples (REPAIRED: an empty half has no median of its own; the quartile is then the median) -/
def fivenumOfSorted (v : Array K) (cnt : Nat) (mn mx : K) : Option (FiveNum K) := do
  let med ← arrMedian v 0 (cnt % 4294967296)
  let lhsz := (cnt / 2) % 4294967296
  let q1 ← if lhsz > 0 then arrMedian v 0 lhsz else some med
  let uhsz := (cnt - lhsz) % 4294967296
  let q3 ← if cnt % 2 = 0 then arrMedian v lhsz uhsz
           else if uhsz > 1 then arrMedian v (lhsz + 1) (uhsz - 1) else some med
  pure { min := mn, q1 := q1, med := med, q3 := q3, max := mx }

/-- `cmb_dataset_fivenum_print`: copy, sort, then the above with the tracked `min` / `max` -/
def DS.fivenum (s : DS K) : Option (FiveNum K) :=
  if s.xa.size = 0 then none        -- "No data to display"
  else do
    let v ← s.sortedCopy
    let mn ← s.min
    let mx ← s.max
    fivenumOfSorted v s.count mn mx

end

/-! ### duration-weighted quantiles of a time series (REPAIRED) -/
section
variable {K : Type} [Inhabited K] [Add K] [OfNat K 0] [LE K] [DecidableLE K]

/-- `wsum += wa[ui]; wcum[ui] = wsum;` -/
def cumSums : K → List K → List K
  | _, [] => []
  | acc, w :: ws => (acc + w) :: cumSums (acc + w) ws

/-- `for (ui = 0; ui < un; ui++) if (wcum[ui] >= wq) return xa[ui];` -/
def firstReach (wq : K) : List K → List K → Option K
  | x :: xs, c :: cs => if wq ≤ c then some x else firstReach wq xs cs
  | _, _ => none

/-- `timeseries_wquantile(un, xa, wcum, wq)`: first sorted sample whose cumulative weight reaches
    `wq`, the last sample if none does (unreachable for weights ≥ 0 and `wq ≤ wsum`) -/
def wquantile (xs wcum : List K) (wq : K) : Option K :=
  match firstReach wq xs wcum with
  | some x => some x
  | none => xs.getLast?

variable [LT K] [DecidableLT K] [Sub K] [Mul K] [Div K] [OfNat K 2] [OfNat K 3] [OfNat K 4]

/-- copy, `cmb_timeseries_sort_x`, live prefix: (xs ascending, their weights) -/
def TS.sortedCopy (s : TS K) : Option (List K × List K × List K) := do
  let d ← s.copy
  let r := heapsort3 d.ds.count (d.ds.xa, d.ta, d.wa)
  pure (r.1.toList.take d.ds.count, r.2.1.toList.take d.ds.count, r.2.2.toList.take d.ds.count)

/-- total weight as the code has it: the last cumulative sum -/
def wTotal (ws : List K) : K := (cumSums 0 ws).getLast?.getD 0

/-- median of sorted samples `xs` with weights `ws` -/
def wMedianSorted (xs ws : List K) : Option K := wquantile xs (cumSums 0 ws) (wTotal ws / 2)

/-- `cmb_timeseries_median` (REPAIRED) -/
def TS.median (s : TS K) : Option K := do
  if s.wa.size = 0 then none            -- cmb_assert_release(tsp->wa != NULL)
  let (xs, _, ws) ← s.sortedCopy
  wMedianSorted xs ws

/-- the three weighted quantiles of `cmb_timeseries_fivenum_print` on sorted samples -/
def wFivenumSorted (xs ws : List K) (mn mx : K) : Option (FiveNum K) := do
  let wcum := cumSums 0 ws
  let wsum := wTotal ws
  let q1 ← wquantile xs wcum (wsum / 4)
  let med ← wquantile xs wcum (wsum / 2)
  let q3 ← wquantile xs wcum (3 * wsum / 4)
  pure { min := mn, q1 := q1, med := med, q3 := q3, max := mx }

/-- `cmb_timeseries_fivenum_print` (REPAIRED) -/
def TS.fivenum (s : TS K) : Option (FiveNum K) := do
  if s.wa.size = 0 then none
  let (xs, _, ws) ← s.sortedCopy
  let mn ← s.ds.min
  let mx ← s.ds.max
  wFivenumSorted xs ws mn mx

end
end CimbaModel.Stats
