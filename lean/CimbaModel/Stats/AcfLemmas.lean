/-
  Properties of the `cmb_dataset_ACF` model of Acf.lean, for every list length (induction, no enumeration):
  * `acf_length`, `acf_lag0`: shape of the result;
  * `welford_shift`, `welford_scale`: how the single-pass mean / sum of squares reacts to `x + a`, `c * x`;
  * `acf_shift_invariant`: adding a constant changes no coefficient;
  * `acf_scale_invariant_partial` (+ `_of_le`, `_zero_threshold`): scaling changes no coefficient as long as
    the variance does not cross the ABSOLUTE threshold `minVar`;
  * `acf_scale_invariant_fails`: with the shipped threshold 1e-9 it does (finding C18-acf-absolute-threshold);
  * `acf_can_exceed_one`: coefficients are not bounded by 1.
-/
import CimbaModel.Stats.Acf
import Mathlib.Tactic.Ring
import Mathlib.Tactic.NormNum
import Mathlib.Tactic.FieldSimp
import Mathlib.Algebra.BigOperators.Group.List.Basic
import Mathlib.Data.List.Induction
import Mathlib.Algebra.Order.Field.Basic

namespace CimbaModel.Stats

section field
variable {K : Type} [Field K]

/-! ### the single-pass loop under shift and scale -/

theorem welfordStep_shift (a m1 m2 : K) (k : Nat) (x : K) :
    welfordStep (m1 + a, m2, k) (x + a) =
      ((welfordStep (m1, m2, k) x).1 + a, (welfordStep (m1, m2, k) x).2.1, (welfordStep (m1, m2, k) x).2.2) := by
  simp only [welfordStep, add_sub_add_right_eq_sub]
  refine Prod.ext ?_ rfl
  dsimp only
  ring

theorem foldl_welfordStep_shift (a : K) (xs : List K) (m1 m2 : K) (k : Nat) :
    (xs.map (· + a)).foldl welfordStep (m1 + a, m2, k) =
      ((xs.foldl welfordStep (m1, m2, k)).1 + a, (xs.foldl welfordStep (m1, m2, k)).2.1,
        (xs.foldl welfordStep (m1, m2, k)).2.2) := by
  induction xs generalizing m1 m2 k with
  | nil => rfl
  | cons x xs ih =>
    simp only [List.map_cons, List.foldl_cons]
    rw [welfordStep_shift]
    rcases hs : welfordStep (m1, m2, k) x with ⟨m1', m2', k'⟩
    exact ih m1' m2' k'

theorem welfordStep_first (x : K) : welfordStep ((0 : K), (0 : K), 0) x = (x, 0, 1) := by
  simp [welfordStep]

theorem welford_shift (a : K) (xs : List K) (h : xs ≠ []) :
    welford (xs.map (· + a)) = ((welford xs).1 + a, (welford xs).2.1, (welford xs).2.2) := by
  cases xs with
  | nil => exact absurd rfl h
  | cons x xs =>
    unfold welford
    simp only [List.map_cons, List.foldl_cons, welfordStep_first]
    exact foldl_welfordStep_shift a xs x 0 1

theorem welfordStep_scale (c m1 m2 : K) (k : Nat) (x : K) :
    welfordStep (c * m1, c ^ 2 * m2, k) (c * x) =
      (c * (welfordStep (m1, m2, k) x).1, c ^ 2 * (welfordStep (m1, m2, k) x).2.1,
        (welfordStep (m1, m2, k) x).2.2) := by
  simp only [welfordStep]
  refine Prod.ext ?_ (Prod.ext ?_ rfl)
  · dsimp only
    ring
  · dsimp only
    ring

theorem foldl_welfordStep_scale (c : K) (xs : List K) (m1 m2 : K) (k : Nat) :
    (xs.map (c * ·)).foldl welfordStep (c * m1, c ^ 2 * m2, k) =
      (c * (xs.foldl welfordStep (m1, m2, k)).1, c ^ 2 * (xs.foldl welfordStep (m1, m2, k)).2.1,
        (xs.foldl welfordStep (m1, m2, k)).2.2) := by
  induction xs generalizing m1 m2 k with
  | nil => rfl
  | cons x xs ih =>
    simp only [List.map_cons, List.foldl_cons]
    rw [welfordStep_scale]
    rcases hs : welfordStep (m1, m2, k) x with ⟨m1', m2', k'⟩
    exact ih m1' m2' k'

theorem welford_scale (c : K) (xs : List K) :
    welford (xs.map (c * ·)) = (c * (welford xs).1, c ^ 2 * (welford xs).2.1, (welford xs).2.2) := by
  unfold welford
  have h := foldl_welfordStep_scale c xs 0 0 0
  simpa only [mul_zero] using h

/-! ### the lag sums under shift and scale -/

theorem zip_drop_map {α β : Type} (f : α → β) (xs : List α) (lag : Nat) :
    (xs.map f).zip ((xs.map f).drop lag) = (xs.zip (xs.drop lag)).map (Prod.map f f) := by
  rw [← List.map_drop, List.zip_map]

theorem lagSum_shift (a m1 : K) (xs : List K) (lag : Nat) :
    lagSum (m1 + a) (xs.map (· + a)) lag = lagSum m1 xs lag := by
  unfold lagSum
  rw [zip_drop_map, List.map_map]
  congr 2
  funext p
  simp only [Function.comp, Prod.map, add_sub_add_right_eq_sub]

theorem foldl_add_scale (c : K) (l : List K) (acc : K) :
    (l.map (c * ·)).foldl (· + ·) (c * acc) = c * l.foldl (· + ·) acc := by
  induction l generalizing acc with
  | nil => rfl
  | cons x l ih =>
    simp only [List.map_cons, List.foldl_cons]
    rw [← mul_add]
    exact ih (acc + x)

theorem lagSum_scale (c m1 : K) (xs : List K) (lag : Nat) :
    lagSum (c * m1) (xs.map (c * ·)) lag = c ^ 2 * lagSum m1 xs lag := by
  unfold lagSum
  rw [zip_drop_map, List.map_map]
  have h := foldl_add_scale (c ^ 2) ((xs.zip (xs.drop lag)).map fun p => (p.1 - m1) * (p.2 - m1)) 0
  rw [mul_zero, List.map_map] at h
  rw [← h]
  congr 2
  funext p
  simp only [Function.comp, Prod.map]
  ring

end field

section ordered
/- `acf` needs `<` and its decidability: both come from `LinearOrder K`.  Compatibility of the order with
   the field operations (`IsStrictOrderedRing K`) is needed by `acf_scale_invariant_zero_threshold` only;
   every other statement holds for ANY decidable `<` on a field, in particular on every ordered field. -/
variable {K : Type} [Field K] [LinearOrder K]

/-- the variance the code compares with the threshold -/
def acfVar (xs : List K) : K := (welford xs).2.1 / (((welford xs).2.2 - 1 : Nat) : K)

/-! ### shape -/

theorem acf_length (τ : K) (xs : List K) (n : Nat) : (acf τ xs n).length = n + 1 := by
  unfold acf
  rcases welford xs with ⟨m1, m2, cnt⟩
  dsimp only
  split <;> simp

theorem acf_lag0 (τ : K) (xs : List K) (n : Nat) : (acf τ xs n).head? = some 1 := by
  unfold acf
  rcases welford xs with ⟨m1, m2, cnt⟩
  dsimp only
  split <;> simp

/-! ### shift invariance -/

/-- shifting every sample by `a` changes no coefficient (any list, any lag count, any threshold) -/
theorem acf_shift_invariant (τ a : K) (xs : List K) (n : Nat) : acf τ (xs.map (· + a)) n = acf τ xs n := by
  by_cases hx : xs = []
  · subst hx
    rfl
  · unfold acf
    rw [welford_shift a xs hx]
    rcases welford xs with ⟨m1, m2, cnt⟩
    simp only [lagSum_shift]

/-! ### scale invariance, as far as it goes -/

/-- scaling by `c > 0` changes no coefficient PROVIDED the variance does not cross the absolute threshold -/
theorem acf_scale_invariant_partial (τ c : K) (hc : 0 < c) (xs : List K) (n : Nat)
    (h : acfVar xs < τ ↔ c ^ 2 * acfVar xs < τ) : acf τ (xs.map (c * ·)) n = acf τ xs n := by
  have hc2 : c ^ 2 ≠ 0 := pow_ne_zero 2 (ne_of_gt hc)
  unfold acfVar at h
  unfold acf
  rw [welford_scale c xs]
  generalize welford xs = w at h ⊢
  rcases w with ⟨m1, m2, cnt⟩
  dsimp only at h ⊢
  rw [mul_div_assoc (c ^ 2) m2]
  by_cases hv : m2 / ((cnt - 1 : Nat) : K) < τ
  · rw [if_pos hv, if_pos (h.mp hv)]
  · rw [if_neg hv, if_neg (fun h' => hv (h.mpr h'))]
    congr 1
    apply List.map_congr_left
    intro i _
    rw [lagSum_scale, mul_div_assoc, mul_div_mul_left _ _ hc2]

/-- in particular when both variances are at least the threshold -/
theorem acf_scale_invariant_of_le (τ c : K) (hc : 0 < c) (xs : List K) (n : Nat)
    (h1 : τ ≤ acfVar xs) (h2 : τ ≤ c ^ 2 * acfVar xs) : acf τ (xs.map (c * ·)) n = acf τ xs n :=
  acf_scale_invariant_partial τ c hc xs n
    ⟨fun h => absurd h (not_lt.mpr h1), fun h => absurd h (not_lt.mpr h2)⟩

/-- and with a threshold of zero (only exactly constant data is special) scale invariance holds outright -/
theorem acf_scale_invariant_zero_threshold [IsStrictOrderedRing K] (c : K) (hc : 0 < c) (xs : List K) (n : Nat)
    (hv : 0 ≤ acfVar xs) :
    acf 0 (xs.map (c * ·)) n = acf 0 xs n :=
  acf_scale_invariant_of_le 0 c hc xs n hv (mul_nonneg (sq_nonneg c) hv)

end ordered

/-! ### bonus: what the single-pass loop computes (characteristic zero, so every ordered field) -/

section moments
variable {K : Type} [Field K] [CharZero K]

omit [CharZero K] in
theorem welford_append_singleton (xs : List K) (x : K) : welford (xs ++ [x]) = welfordStep (welford xs) x := by
  simp [welford, List.foldl_append]

/-- closed form of the loop state: mean, `Σ x² - (Σ x)² / n`, count (also right for `[]`: all zero) -/
theorem welford_eq (xs : List K) :
    welford xs = (xs.sum / (xs.length : K), (xs.map (· ^ 2)).sum - xs.sum ^ 2 / (xs.length : K), xs.length) := by
  induction xs using List.reverseRecOn with
  | nil => simp [welford]
  | append_singleton xs x ih =>
    rw [welford_append_singleton, ih]
    simp only [welfordStep, List.sum_append, List.map_append, List.length_append, List.sum_cons, List.sum_nil,
      List.map_cons, List.map_nil, List.length_cons, List.length_nil, add_zero, zero_add]
    rcases xs with _ | ⟨y, ys⟩
    · simp
    · have hn : ((List.length (y :: ys) : Nat) : K) ≠ 0 := Nat.cast_ne_zero.mpr (by simp)
      have hn1 : ((List.length (y :: ys) + 1 : Nat) : K) ≠ 0 := Nat.cast_ne_zero.mpr (by simp)
      generalize (List.length (y :: ys)) = n at hn hn1 ⊢
      generalize (List.sum (y :: ys)) = S
      generalize (List.map (· ^ 2) (y :: ys)).sum = Q
      push_cast at hn1 ⊢
      refine Prod.ext ?_ (Prod.ext ?_ rfl)
      · dsimp only
        field_simp
        ring
      · dsimp only
        field_simp
        ring

omit [CharZero K] in
theorem sum_sq_dev (μ : K) (xs : List K) :
    (xs.map fun x => (x - μ) ^ 2).sum = (xs.map (· ^ 2)).sum - 2 * μ * xs.sum + (xs.length : K) * μ ^ 2 := by
  induction xs with
  | nil => simp
  | cons x xs ih =>
    simp only [List.map_cons, List.sum_cons, List.length_cons, ih]
    push_cast
    ring

theorem welford_count (xs : List K) : (welford xs).2.2 = xs.length := by rw [welford_eq]

/-- the first component is the arithmetic mean -/
theorem welford_mean (xs : List K) : (welford xs).1 = xs.sum / (xs.length : K) := by rw [welford_eq]

/-- the second component is the sum of squared deviations from the mean -/
theorem welford_m2 (xs : List K) :
    (welford xs).2.1 = (xs.map fun x => (x - xs.sum / (xs.length : K)) ^ 2).sum := by
  rw [welford_eq, sum_sq_dev]
  rcases xs with _ | ⟨y, ys⟩
  · simp
  · have hn : ((List.length (y :: ys) : Nat) : K) ≠ 0 := Nat.cast_ne_zero.mpr (by simp)
    dsimp only
    field_simp
    ring

end moments

section ordered_moments
variable {K : Type} [Field K] [LinearOrder K] [IsStrictOrderedRing K]

theorem sum_sq_nonneg (f : K → K) (xs : List K) : 0 ≤ (xs.map fun x => (f x) ^ 2).sum := by
  induction xs with
  | nil => simp
  | cons x xs ih =>
    simp only [List.map_cons, List.sum_cons]
    exact add_nonneg (sq_nonneg _) ih

/-- the variance the code compares with the threshold is never negative -/
theorem acfVar_nonneg (xs : List K) : 0 ≤ acfVar xs := by
  unfold acfVar
  rw [welford_m2]
  exact div_nonneg (sum_sq_nonneg _ xs) (Nat.cast_nonneg _)

/-- so with a threshold of zero, scale invariance holds with no side condition at all -/
theorem acf_scale_invariant_zero_threshold' (c : K) (hc : 0 < c) (xs : List K) (n : Nat) :
    acf 0 (xs.map (c * ·)) n = acf 0 xs n :=
  acf_scale_invariant_zero_threshold c hc xs n (acfVar_nonneg xs)

end ordered_moments

/-! ### concrete witnesses over `ℚ` -/

/-- the shipped threshold 1e-9 breaks scale invariance: same data times 2^-20 -/
theorem acf_scale_invariant_fails :
    acf (1 / 1000000000 : ℚ) ([0, 1, 0, 1, 1, 0].map ((1 / 1048576 : ℚ) * ·)) 2 ≠
      acf (1 / 1000000000 : ℚ) [0, 1, 0, 1, 1, 0] 2 := by
  decide +kernel

/-- coefficients are not bounded by 1: x = 1,0,0,-1 -/
theorem acf_can_exceed_one : acf (1 / 1000000000 : ℚ) [1, 0, 0, -1] 3 = [1, 0, 0, -3 / 2] := by
  decide +kernel

/-- non-vacuity: a non-trivial value -/
example : acf (1 / 1000000000 : ℚ) [0, 1, 0, 1, 1, 0] 2 = [1, -1 / 2, 0] := by
  decide +kernel

end CimbaModel.Stats
