/-
  Medians and five-number summaries at the level of the objects (`DS.median`, `DS.fivenum`,
  `TS.median`, `TS.fivenum`): the copy + sort + index arithmetic of the model, put together from
  SortLemmas (the copy is sorted and a permutation), ArraysLemmas (the copy is exact) and
  MedianLemmas (what the index arithmetic yields on sorted data).
-/
import CimbaModel.Stats.SortedCopyLemmas
import CimbaModel.Stats.MedianLemmas
import Mathlib.Algebra.BigOperators.Group.List.Basic

namespace CimbaModel.Stats
set_option linter.unusedSectionVars false
set_option linter.unusedVariables false

section
variable {K : Type} [Inhabited K] [Field K] [LinearOrder K] [IsStrictOrderedRing K]

theorem sortedArr_of_pairwise (v : Array K) (h : v.toList.Pairwise (· ≤ ·)) : SortedArr v := by
  intro i j hij hj
  rcases Nat.lt_or_ge i j with hlt | hge
  · have := (List.pairwise_iff_getElem.mp h) i j (by simpa using (by omega : i < v.size)) (by simpa using hj) hlt
    simpa [getElem!_pos, (by omega : i < v.size), hj] using this
  · have : i = j := by omega
    subst this; exact le_refl _

theorem mem_toList_of_getElem! (v : Array K) (i : Nat) (h : i < v.size) : v[i]! ∈ v.toList := by
  rw [getElem!_pos v i h]
  exact Array.getElem_mem_toList h

/-- `cmb_dataset_median` returns a median of the samples: at most half of them strictly below it,
    at most half strictly above it -/
theorem DS.median_spec (s : DS K) (h : s.WF) (hc : 0 < s.count) (hc32 : s.count < 4294967296) :
    ∃ m, s.median = some m ∧
      2 * s.samples.countP (fun x => decide (x < m)) ≤ s.samples.length ∧
      2 * s.samples.countP (fun x => decide (m < x)) ≤ s.samples.length := by
  obtain ⟨v, hv, vsz, vsorted, vperm⟩ := DS.sortedCopy_spec s h
  have hne : ¬ s.xa.size = 0 := by have := h.1; have := h.2; omega
  have hmod : s.count % 4294967296 = s.count := Nat.mod_eq_of_lt hc32
  obtain ⟨m, hm, lo, hi⟩ := arrMedian_bounds v 0 s.count hc hc32 (by omega) (sortedArr_of_pairwise v vsorted)
  refine ⟨m, by simp [DS.median, hne, hv, hmod, hm], ?_⟩
  have hlen : v.toList.length = s.count := by simpa using vsz
  have := sorted_middle_is_median v.toList vsorted (by omega) m
    (by rw [hlen, Array.getElem!_toList]; simpa using lo) (by rw [hlen, Array.getElem!_toList]; simpa using hi)
  rw [vperm.countP_eq, vperm.countP_eq, vperm.length_eq] at this
  exact this

/-- the five-number summary of a dataset: defined for every non-empty dataset (one sample
    included), `min ≤ Q1 ≤ median ≤ Q3 ≤ max`, `min` / `max` are the smallest / largest sample, and
    the median is the one `cmb_dataset_median` returns -/
theorem DS.fivenum_spec (s : DS K) (h : s.Inv) (hc : 0 < s.count) (hc32 : s.count < 4294967296) :
    ∃ f, s.fivenum = some f ∧ f.min ≤ f.q1 ∧ f.q1 ≤ f.med ∧ f.med ≤ f.q3 ∧ f.q3 ≤ f.max ∧
      f.min ∈ s.samples ∧ f.max ∈ s.samples ∧ (∀ x ∈ s.samples, f.min ≤ x ∧ x ≤ f.max) ∧
      s.median = some f.med := by
  obtain ⟨hw, _, hpos⟩ := h
  obtain ⟨mn, mx, emn, emx, memn, memx, hb⟩ := hpos hc
  obtain ⟨v, hv, vsz, vsorted, vperm⟩ := DS.sortedCopy_spec s hw
  have hne : ¬ s.xa.size = 0 := by have := hw.1; have := hw.2; omega
  have hmod : s.count % 4294967296 = s.count := Nat.mod_eq_of_lt hc32
  have m0 : v[0]! ∈ s.samples := vperm.mem_iff.mp (mem_toList_of_getElem! v 0 (by omega))
  have m1 : v[s.count - 1]! ∈ s.samples := vperm.mem_iff.mp (mem_toList_of_getElem! v _ (by omega))
  obtain ⟨f, hf, fmn, fmx, o1, o2, o3, o4, hmed⟩ :=
    fivenumOfSorted_ordered v s.count mn mx hc hc32 vsz (sortedArr_of_pairwise v vsorted) (hb _ m0).1 (hb _ m1).2
  refine ⟨f, by simp [DS.fivenum, hne, hv, emn, emx, hf], o1, o2, o3, o4, fmn ▸ memn, fmx ▸ memx, ?_, ?_⟩
  · intro x hx; rw [fmn, fmx]; exact hb x hx
  · simp [DS.median, hne, hv, hmod, hmed]

end

/-! ### time series: weights are the third component of the live (x, t, w) triples -/
section
variable {K : Type} [Inhabited K] [Field K] [LinearOrder K] [IsStrictOrderedRing K]

/-- total duration of the samples strictly below `m` -/
def tBelow (tr : List (K × K × K)) (m : K) : K := ((tr.filter fun p => decide (p.1 < m)).map (·.2.2)).sum
/-- total duration of the samples strictly above `m` -/
def tAbove (tr : List (K × K × K)) (m : K) : K := ((tr.filter fun p => decide (m < p.1)).map (·.2.2)).sum
/-- total duration -/
def tTotal (tr : List (K × K × K)) : K := (tr.map (·.2.2)).sum

theorem tBelow_perm {a b : List (K × K × K)} (h : a.Perm b) (m : K) : tBelow a m = tBelow b m :=
  ((h.filter _).map _).sum_eq
theorem tAbove_perm {a b : List (K × K × K)} (h : a.Perm b) (m : K) : tAbove a m = tAbove b m :=
  ((h.filter _).map _).sum_eq
theorem tTotal_perm {a b : List (K × K × K)} (h : a.Perm b) : tTotal a = tTotal b := (h.map _).sum_eq

theorem w_zip3 (xs ts ws : List K) (h1 : ts.length = xs.length) (h2 : ws.length = xs.length) (m : K) :
    wBelow xs ws m = tBelow (xs.zip (ts.zip ws)) m ∧ wAbove xs ws m = tAbove (xs.zip (ts.zip ws)) m ∧
    ws.sum = tTotal (xs.zip (ts.zip ws)) := by
  induction xs generalizing ts ws with
  | nil =>
    have : ws = [] := by simpa using h2
    subst this
    simp [wBelow, wAbove, tBelow, tAbove, tTotal]
  | cons x xs ih =>
    cases ts with
    | nil => simp at h1
    | cons t ts =>
      cases ws with
      | nil => simp at h2
      | cons w ws =>
        obtain ⟨i1, i2, i3⟩ := ih ts ws (by simpa using h1) (by simpa using h2)
        simp only [wBelow, wAbove, tBelow, tAbove, tTotal] at i1 i2 i3 ⊢
        refine ⟨?_, ?_, ?_⟩
        · simp only [List.zip_cons_cons, List.filter_cons]
          split <;> simp [i1]
        · simp only [List.zip_cons_cons, List.filter_cons]
          split <;> simp [i2]
        · simp [i3]

theorem mem_zip3_of_mem_ws (xs ts ws : List K) (h1 : ts.length = xs.length) (h2 : ws.length = xs.length)
    (w : K) (hw : w ∈ ws) : ∃ p ∈ xs.zip (ts.zip ws), p.2.2 = w := by
  obtain ⟨i, hi, e⟩ := List.mem_iff_getElem.mp hw
  refine ⟨(xs[i]'(by omega), ts[i]'(by omega), ws[i]), ?_, e⟩
  apply List.mem_iff_getElem.mpr
  refine ⟨i, by simp; omega, by simp⟩

theorem mem_xs_of_zip3 (xs ts ws : List K) (p : K × K × K) (hp : p ∈ xs.zip (ts.zip ws)) : p.1 ∈ xs := by
  have := List.of_mem_zip (a := p.1) (b := p.2) (by simpa using hp)
  exact this.1

theorem mem_zip3_of_mem_xs (xs ts ws : List K) (h1 : ts.length = xs.length) (h2 : ws.length = xs.length)
    (x : K) (hx : x ∈ xs) : ∃ p ∈ xs.zip (ts.zip ws), p.1 = x := by
  obtain ⟨i, hi, e⟩ := List.mem_iff_getElem.mp hx
  refine ⟨(xs[i], ts[i]'(by omega), ws[i]'(by omega)), ?_, e⟩
  apply List.mem_iff_getElem.mpr
  refine ⟨i, by simp; omega, by simp⟩

/-- first components of the live triples are the live samples -/
theorem TS.triples_fst (s : TS K) (h : s.WF) : s.triples.map (·.1) = s.ds.samples := by
  obtain ⟨⟨h1, h2⟩, h3, h4⟩ := h
  simp only [TS.triples, DS.samples]
  apply List.map_fst_zip
  simp [List.length_zip, List.length_take, h1, h3, h4]

/-- `cmb_timeseries_median` (repaired) returns a duration-weighted median: at most half of the total
    duration lies strictly below it and at most half strictly above it; it is one of the samples -/
theorem TS.median_spec (s : TS K) (h : s.WF) (hc : 0 < s.ds.count) (hw : ∀ p ∈ s.triples, 0 ≤ p.2.2) :
    ∃ m, s.median = some m ∧ m ∈ s.ds.samples ∧
      2 * tBelow s.triples m ≤ tTotal s.triples ∧ 2 * tAbove s.triples m ≤ tTotal s.triples := by
  obtain ⟨xs, ts, ws, hsc, lx, lt, lw, hsorted, hperm⟩ := TS.sortedCopy_spec s h
  have hne : ¬ s.wa.size = 0 := by have := h.2.2; have := h.1.2; omega
  have hws : ∀ w ∈ ws, 0 ≤ w := by
    intro w hwm
    obtain ⟨p, hp, e⟩ := mem_zip3_of_mem_ws xs ts ws (by omega) (by omega) w hwm
    exact e ▸ hw p (hperm.mem_iff.mp hp)
  obtain ⟨m, hm, mem, b, a⟩ := wMedianSorted_is_median xs ws (by omega) (by omega) hsorted hws
  obtain ⟨z1, z2, z3⟩ := w_zip3 xs ts ws (by omega) (by omega) m
  refine ⟨m, by simp [TS.median, hne, hsc, hm], ?_, ?_, ?_⟩
  · obtain ⟨p, hp, e⟩ := mem_zip3_of_mem_xs xs ts ws (by omega) (by omega) m mem
    rw [← TS.triples_fst s h, ← e]
    exact List.mem_map_of_mem (hperm.mem_iff.mp hp)
  · rw [← tBelow_perm hperm, ← tTotal_perm hperm, ← z1, ← z3]; exact b
  · rw [← tAbove_perm hperm, ← tTotal_perm hperm, ← z2, ← z3]; exact a

/-- the duration-weighted five-number summary (repaired): defined, ordered, `min` / `max` are the
    smallest / largest sample, quartiles are samples, its median is `cmb_timeseries_median`'s -/
theorem TS.fivenum_spec (s : TS K) (h : s.WF) (hmm : s.ds.MinMaxOK) (hc : 0 < s.ds.count)
    (hw : ∀ p ∈ s.triples, 0 ≤ p.2.2) :
    ∃ f, s.fivenum = some f ∧ f.min ≤ f.q1 ∧ f.q1 ≤ f.med ∧ f.med ≤ f.q3 ∧ f.q3 ≤ f.max ∧
      f.min ∈ s.ds.samples ∧ f.max ∈ s.ds.samples ∧ (∀ x ∈ s.ds.samples, f.min ≤ x ∧ x ≤ f.max) ∧
      s.median = some f.med := by
  obtain ⟨mn, mx, emn, emx, memn, memx, hb⟩ := hmm.2 hc
  obtain ⟨xs, ts, ws, hsc, lx, lt, lw, hsorted, hperm⟩ := TS.sortedCopy_spec s h
  have hne : ¬ s.wa.size = 0 := by have := h.2.2; have := h.1.2; omega
  have hws : ∀ w ∈ ws, 0 ≤ w := by
    intro w hwm
    obtain ⟨p, hp, e⟩ := mem_zip3_of_mem_ws xs ts ws (by omega) (by omega) w hwm
    exact e ▸ hw p (hperm.mem_iff.mp hp)
  have hxs : ∀ x ∈ xs, x ∈ s.ds.samples := by
    intro x hx
    obtain ⟨p, hp, e⟩ := mem_zip3_of_mem_xs xs ts ws (by omega) (by omega) x hx
    rw [← TS.triples_fst s h, ← e]
    exact List.mem_map_of_mem (hperm.mem_iff.mp hp)
  obtain ⟨f, hf, fmn, fmx, o1, o2, o3, o4, hmed⟩ := wFivenumSorted_ordered xs ws mn mx (by omega) (by omega)
    hsorted hws (fun x hx => (hb x (hxs x hx)).1) (fun x hx => (hb x (hxs x hx)).2)
  refine ⟨f, by simp [TS.fivenum, hne, hsc, emn, emx, hf], o1, o2, o3, o4, fmn ▸ memn, fmx ▸ memx, ?_, ?_⟩
  · intro x hx; rw [fmn, fmx]; exact hb x hx
  · simp [TS.median, hne, hsc, hmed]

end
end CimbaModel.Stats
