/-
  Lemmas about the growing sample arrays (Arrays.lean): the well-formedness invariant of the
  allocations is kept by `add` (through any number of capacity doublings) and by `copy`;
  `add` appends exactly one live sample; `copy` is exact and leaves room for later adds.
-/
import CimbaModel.Stats.Arrays
import Mathlib.Order.Defs.LinearOrder

namespace CimbaModel.Stats
set_option linter.unusedSectionVars false
set_option linter.unusedSimpArgs false

section
variable {K : Type} [Inhabited K]

/-- the allocation has `cursize` slots and the live samples fit -/
def DS.WF (s : DS K) : Prop := s.xa.size = s.cursize ∧ s.count ≤ s.cursize

/-- all three allocations have `cursize` slots -/
def TS.WF (s : TS K) : Prop := s.ds.WF ∧ s.ta.size = s.ds.cursize ∧ s.wa.size = s.ds.cursize

theorem DS.WF_empty : (({} : DS K)).WF := by simp [DS.WF]
theorem TS.WF_empty : (({} : TS K)).WF := by simp [TS.WF, DS.WF]

theorem wr_eq_some (a : Array K) (i : Nat) (x : K) (h : i < a.size) : wr a i x = some (a.set i x h) := by
  simp [wr, h]

theorem wr_size (a b : Array K) (i : Nat) (x : K) (h : wr a i x = some b) : b.size = a.size := by
  unfold wr at h
  split at h
  · cases h; simp
  · cases h

theorem size_realloc (a : Array K) (n : Nat) : (realloc a n).size = n := by
  unfold realloc
  split
  · simp; omega
  · simp; omega

theorem toList_realloc_take (a : Array K) (n k : Nat) (hk : k ≤ a.size) (hn : a.size ≤ n) :
    (realloc a n).toList.take k = a.toList.take k := by
  unfold realloc
  split
  · have : n = a.size := by omega
    subst this
    simp
  · rw [Array.toList_append, List.take_append_of_le_length (by simpa using hk)]

theorem callocCopy_spec (src : Array K) (cap n : Nat) (h1 : n ≤ src.size) (h2 : n ≤ cap) :
    ∃ q, callocCopy src cap n = some q ∧ q.size = cap ∧ q.toList.take n = src.toList.take n := by
  unfold callocCopy
  rw [if_pos ⟨h1, h2⟩]
  refine ⟨_, rfl, ?_, ?_⟩
  · simp; omega
  · rw [Array.toList_append, List.take_append_of_le_length (by simp; omega)]
    simp [Array.toList_extract, List.extract]
    rw [List.take_take]; simp

/-- taking `k ≤ i` elements does not see a write at slot `i` -/
theorem take_set_of_le (l : List K) (i k : Nat) (x : K) (h : k ≤ i) : (l.set i x).take k = l.take k := by
  rw [List.take_set]
  apply List.set_eq_of_length_le
  simp; omega

theorem take_succ_set (l : List K) (i : Nat) (x : K) (h : i < l.length) :
    (l.set i x).take (i + 1) = l.take i ++ [x] := by
  rw [List.set_eq_take_append_cons_drop, if_pos h, List.take_append]
  simp [List.take_take, Nat.min_eq_left (Nat.le_succ i), List.length_take, Nat.min_eq_left (Nat.le_of_lt h)]

/-- `cmi_dataset_expand`: a real capacity doubling; the live samples survive it -/
theorem DS.expand_spec (initSz : Nat) (s : DS K) (h : s.WF) (hi : 0 < initSz) (hfull : s.count = s.cursize) :
    (s.expand initSz).WF ∧ (s.expand initSz).count = s.count ∧ s.count < (s.expand initSz).cursize ∧
    (s.expand initSz).samples = s.samples ∧ (s.expand initSz).min = s.min ∧ (s.expand initSz).max = s.max := by
  obtain ⟨h1, h2⟩ := h
  unfold DS.expand
  split
  · rename_i hz
    have hc : s.count = 0 := by omega
    simp [DS.WF, DS.samples, hc, hi]
  · rename_i hz
    refine ⟨⟨by simp [size_realloc], by simp; omega⟩, rfl, by simp; omega, ?_, rfl, rfl⟩
    simp only [DS.samples]
    exact toList_realloc_take _ _ _ (by omega) (by omega)

end

section
variable {K : Type} [Inhabited K] [LT K] [DecidableLT K]

/-- `cmb_dataset_add`: never out of bounds, appends exactly the new sample, keeps the invariant
    (for every history: any number of capacity doublings) -/
theorem DS.add_of_room (initSz : Nat) (s : DS K) (x : K) (h : s.WF) (hlt : s.count < s.cursize) :
    ∃ s', s.add initSz x = some s' ∧ s'.WF ∧ s'.count = s.count + 1 ∧ s'.samples = s.samples ++ [x] ∧
      s'.cursize = s.cursize ∧
      s'.min = some (match s.min with | none => x | some m => if x < m then x else m) ∧
      s'.max = some (match s.max with | none => x | some m => if x > m then x else m) := by
  have hne : ¬ s.count = s.cursize := by omega
  have hb : s.count < s.xa.size := by rw [h.1]; exact hlt
  unfold DS.add
  simp only [hne, if_false, hlt, if_true, wr_eq_some _ _ _ hb, Option.map_some]
  refine ⟨_, rfl, ⟨by simp [h.1], by simp; omega⟩, rfl, ?_, rfl, rfl, rfl⟩
  simp only [DS.samples, Array.toList_set]
  rw [take_succ_set _ _ _ (by simpa using hb)]

theorem DS.add_full (initSz : Nat) (s : DS K) (x : K) (hfull : s.count = s.cursize) :
    s.add initSz x = (s.expand initSz).add initSz x ∨ (s.expand initSz).count = (s.expand initSz).cursize := by
  by_cases h : (s.expand initSz).count = (s.expand initSz).cursize
  · exact Or.inr h
  · left
    have e1 : (s.expand initSz).max = s.max := by unfold DS.expand; split <;> rfl
    have e2 : (s.expand initSz).min = s.min := by unfold DS.expand; split <;> rfl
    unfold DS.add
    simp only [hfull, if_true, h, if_false, e1, e2]

theorem DS.add_spec (initSz : Nat) (s : DS K) (x : K) (h : s.WF) (hi : 0 < initSz) :
    ∃ s', s.add initSz x = some s' ∧ s'.WF ∧ s'.count = s.count + 1 ∧ s'.samples = s.samples ++ [x] ∧
      s'.min = some (match s.min with | none => x | some m => if x < m then x else m) ∧
      s'.max = some (match s.max with | none => x | some m => if x > m then x else m) := by
  by_cases hfull : s.count = s.cursize
  · obtain ⟨w, c, lt, sm, emn, emx⟩ := DS.expand_spec initSz s h hi hfull
    rcases DS.add_full initSz s x hfull with e | e
    · obtain ⟨s', h1, h2, h3, h4, _, h5, h6⟩ := DS.add_of_room initSz (s.expand initSz) x w (by omega)
      exact ⟨s', by rw [e, h1], h2, by omega, by rw [h4, sm], by rw [h5, emn], by rw [h6, emx]⟩
    · omega
  · obtain ⟨s', h1, h2, h3, h4, _, h5, h6⟩ := DS.add_of_room initSz s x h (by have := h.2; omega)
    exact ⟨s', h1, h2, h3, h4, h5, h6⟩

end

section
variable {K : Type} [Inhabited K]

/-- `cmb_dataset_copy` is exact: same samples, count, capacity, min, max; the copy owns `cursize`
    slots, so it can be added to like the original -/
theorem DS.copy_spec (s : DS K) (h : s.WF) :
    ∃ c, s.copy = some c ∧ c.WF ∧ c.samples = s.samples ∧ c.count = s.count ∧ c.cursize = s.cursize ∧
      c.min = s.min ∧ c.max = s.max := by
  obtain ⟨h1, h2⟩ := h
  unfold DS.copy
  split
  · rename_i hz
    refine ⟨_, rfl, ⟨by simp; omega, by simp; omega⟩, ?_, rfl, rfl, rfl, rfl⟩
    have : s.xa = #[] := by simpa using hz
    simp [DS.samples, this]
  · obtain ⟨q, hq, hsz, htk⟩ := callocCopy_spec s.xa s.cursize s.cursize (by omega) (Nat.le_refl _)
    rw [hq]
    refine ⟨_, rfl, ⟨by simpa using hsz, h2⟩, ?_, rfl, rfl, rfl, rfl⟩
    simp only [Option.map, DS.samples]
    have := congrArg (List.take s.count) htk
    simpa [List.take_take, Nat.min_eq_left h2] using this

end

section
variable {K : Type} [Inhabited K] [LT K] [DecidableLT K] [Sub K] [OfNat K 0]

/-- `cmb_timeseries_copy` (repaired) is exact — every live (x, t, w) triple, count, capacity, min, max —
    and the copy's three allocations all have `cursize` slots -/
theorem TS.copy_spec (s : TS K) (h : s.WF) :
    ∃ c, s.copy = some c ∧ c.WF ∧ c.triples = s.triples ∧ c.ds.count = s.ds.count ∧
      c.ds.cursize = s.ds.cursize ∧ c.ds.min = s.ds.min ∧ c.ds.max = s.ds.max := by
  obtain ⟨hd, hta, hwa⟩ := h
  obtain ⟨d, hcopy, dwf, dsm, dc, dcs, dmn, dmx⟩ := DS.copy_spec s.ds hd
  have hcnt : s.ds.count ≤ s.ds.cursize := hd.2
  by_cases hz : s.ds.cursize = 0
  · -- nothing allocated yet
    have hc0 : s.ds.count = 0 := by omega
    have e1 : s.ta.size = 0 := by omega
    have e2 : s.wa.size = 0 := by omega
    refine ⟨{ ds := d, ta := #[], wa := #[] }, by simp [TS.copy, hcopy, e1, e2], ⟨dwf, by simp; omega, by simp; omega⟩, ?_, dc, dcs, dmn, dmx⟩
    simp [TS.triples, dc, hc0]
  · obtain ⟨qa, hqa, sza, tka⟩ := callocCopy_spec s.ta s.ds.cursize s.ds.count (by omega) hcnt
    obtain ⟨qw, hqw, szw, tkw⟩ := callocCopy_spec s.wa s.ds.cursize s.ds.count (by omega) hcnt
    have e1 : ¬ s.ta.size = 0 := by omega
    have e2 : ¬ s.wa.size = 0 := by omega
    refine ⟨{ ds := d, ta := qa, wa := qw }, by simp [TS.copy, hcopy, e1, e2, hqa, hqw], ⟨dwf, by simp; omega, by simp; omega⟩, ?_, dc, dcs, dmn, dmx⟩
    simp only [TS.triples, dc]
    have : d.xa.toList.take s.ds.count = s.ds.xa.toList.take s.ds.count := by
      have := dsm; simpa [DS.samples, dc] using this
    rw [this, tka, tkw]

/-- after a (repaired) copy the next `add` stays inside all three allocations of the copy -/
theorem TS.add_ok (initSz : Nat) (s : TS K) (x t : K) (h : s.WF) (hi : 0 < initSz) :
    ∃ s', s.add initSz x t = some s' ∧ s'.WF ∧ s'.ds.count = s.ds.count + 1 := by
  obtain ⟨hd, hta, hwa⟩ := h
  -- state after the optional expansion: well-formed with room for one more
  have hexp : ∃ e : TS K, (if s.ds.count = s.ds.cursize then s.expand initSz else s) = e ∧ e.WF ∧
      e.ds.count < e.ds.cursize ∧ e.ds.count = s.ds.count := by
    by_cases hfull : s.ds.count = s.ds.cursize
    · obtain ⟨w, c, lt, _, _, _⟩ := DS.expand_spec initSz s.ds hd hi hfull
      refine ⟨_, rfl, ?_, ?_, ?_⟩
      · simp only [hfull, if_true, TS.expand]
        split
        · refine ⟨by simpa [hfull] using w, ?_, ?_⟩
          · rename_i hz
            have : s.ds.cursize = 0 := by omega
            simp [DS.expand, this]
          · rename_i hz
            have : s.ds.cursize = 0 := by omega
            simp [DS.expand, this]
        · exact ⟨by simpa [hfull] using w, by simp [size_realloc], by simp [size_realloc]⟩
      · simp only [hfull, if_true, TS.expand]
        split <;> simpa [hfull] using (by omega : (s.ds.expand initSz).count < (s.ds.expand initSz).cursize)
      · simp only [hfull, if_true, TS.expand]
        split <;> simpa [hfull] using c
    · refine ⟨s, by simp [hfull], ⟨hd, hta, hwa⟩, by have := hd.2; omega, rfl⟩
  obtain ⟨e, he, ⟨ed, eta, ewa⟩, elt, ec⟩ := hexp
  obtain ⟨d', hadd, dwf, dcnt, _, _, _⟩ := DS.add_spec initSz e.ds x ed hi
  have hnofull : ¬ e.ds.count = e.ds.cursize := by omega
  have dcs : d'.cursize = e.ds.cursize := by
    have := hadd
    simp only [DS.add, hnofull, if_false, elt, if_true] at this
    rcases hw : wr e.ds.xa e.ds.count x with _ | xa
    · simp [hw] at this
    · simp [hw] at this; rw [← this]
  have b1 : e.ds.count < e.ta.size := by omega
  have b2 : e.ds.count < e.wa.size := by omega
  unfold TS.add
  simp only [he, hadd, wr_eq_some _ _ _ b1, Option.bind_eq_bind, Option.bind_some]
  have b2' : e.ds.count < e.wa.size := b2
  rw [wr_eq_some _ _ _ b2']
  simp only [Option.bind_some]
  by_cases hpos : e.ds.count > 0
  · have b3 : e.ds.count - 1 < (e.ta.set e.ds.count t b1).size := by simp; omega
    have b4 : e.ds.count - 1 < (e.wa.set e.ds.count 0 b2).size := by simp; omega
    simp only [hpos, if_true, Array.getElem?_eq_getElem b3, Option.bind_some, wr_eq_some _ _ _ b4]
    exact ⟨_, rfl, ⟨dwf, by simp; omega, by simp; omega⟩, by simp; omega⟩
  · simp only [hpos, if_false]
    exact ⟨_, rfl, ⟨dwf, by simp; omega, by simp; omega⟩, by simp; omega⟩

end
section
variable {K : Type} [Inhabited K] [LinearOrder K]

/-- the tracked `min` / `max` fields are the smallest / largest live sample (`none` = no sample yet) -/
def DS.MinMaxOK (s : DS K) : Prop :=
  (s.count = 0 → s.min = none ∧ s.max = none) ∧
  (0 < s.count → ∃ mn mx, s.min = some mn ∧ s.max = some mx ∧ mn ∈ s.samples ∧ mx ∈ s.samples ∧
      ∀ x ∈ s.samples, mn ≤ x ∧ x ≤ mx)

/-- what every dataset built by `cmb_dataset_add` from an initialized one satisfies -/
def DS.Inv (s : DS K) : Prop := s.WF ∧ s.MinMaxOK

theorem DS.Inv_empty : (({} : DS K)).Inv := by
  refine ⟨DS.WF_empty, ?_, ?_⟩
  · intro _; exact ⟨rfl, rfl⟩
  · intro h; simp at h

theorem DS.samples_length (s : DS K) (h : s.WF) : s.samples.length = s.count := by
  simp [DS.samples, h.1]; exact Nat.min_eq_left h.2

/-- `cmb_dataset_add` keeps the invariant and appends the sample -/
theorem DS.add_inv (initSz : Nat) (s : DS K) (x : K) (h : s.Inv) (hi : 0 < initSz) :
    ∃ s', s.add initSz x = some s' ∧ s'.Inv ∧ s'.count = s.count + 1 ∧ s'.samples = s.samples ++ [x] := by
  obtain ⟨hw, h0, hpos⟩ := h
  obtain ⟨s', hadd, w', c', sm', mn', mx'⟩ := DS.add_spec initSz s x hw hi
  refine ⟨s', hadd, ⟨w', ?_, ?_⟩, c', sm'⟩
  · intro hz; omega
  · intro _
    by_cases hc : s.count = 0
    · obtain ⟨e1, e2⟩ := h0 hc
      have hs : s.samples = [] := by
        have := DS.samples_length s hw
        exact List.eq_nil_of_length_eq_zero (by omega)
      refine ⟨x, x, by rw [mn', e1], by rw [mx', e2], by simp [sm'], by simp [sm'], ?_⟩
      intro y hy
      simp [sm', hs] at hy
      subst hy
      exact ⟨le_refl _, le_refl _⟩
    · obtain ⟨mn, mx, e1, e2, m1, m2, hb⟩ := hpos (by omega)
      have mn'' : s'.min = some (if x < mn then x else mn) := by rw [mn', e1]
      have mx'' : s'.max = some (if x > mx then x else mx) := by rw [mx', e2]
      refine ⟨_, _, mn'', mx'', ?_, ?_, ?_⟩
      · simp only [sm', List.mem_append, List.mem_singleton]
        split
        · right; rfl
        · left; exact m1
      · simp only [sm', List.mem_append, List.mem_singleton]
        split
        · right; rfl
        · left; exact m2
      · intro y hy
        simp only [sm', List.mem_append, List.mem_singleton] at hy
        rcases hy with hy | hy
        · obtain ⟨a, b⟩ := hb y hy
          constructor
          · split
            · rename_i hlt; exact le_trans (le_of_lt hlt) a
            · exact a
          · split
            · rename_i hgt; exact le_trans b (le_of_lt hgt)
            · exact b
        · subst hy
          constructor
          · split
            · exact le_refl _
            · rename_i hn; exact not_lt.mp hn
          · split
            · exact le_refl _
            · rename_i hn; exact not_lt.mp hn

end
end CimbaModel.Stats
