/-
  Model of the histograms:
    src/cmb_dataset.c     cmb_dataset_histogram_print (range / bin-count preparation),
                          cmi_dataset_histogram_create, cmi_dataset_histogram_fill
    src/cmb_timeseries.c  cmb_timeseries_histogram_print, timeseries_histogram_fill
  in exact rational arithmetic (`Rat` is core Lean).  The correspondence runs use limits, samples
  and weights for which the IEEE computation of `(x - low) / binsize` truncates to the same integer
  (integers and small dyadics), see tools/stat2corr.py.

  REPAIRED behaviour is modelled for auto-scaling on constant data
  (fixes/C18-histogram-constant-autoscale.patch): `min == max` widens the range by half a unit on
  either side; the shipped code gets `binsize = 0` and converts `0.0/0.0` to `uint16_t`.

  Core Lean only: linked into the compiled driver `stat2main`.
-/
namespace CimbaModel.Stats

/-- `struct cmi_dataset_histogram` after `cmi_dataset_histogram_create(num_bins, low, high)`;
    `nb` is the caller's bin count, the array has `nb + 2` slots (under- and overflow) -/
structure Hist where
  nb : Nat
  low : Rat
  high : Rat
  binsize : Rat
  bins : Array Rat
  deriving Repr

/-- the range / bin-count preparation shared by `cmb_dataset_histogram_print` and
    `cmb_timeseries_histogram_print`: auto-scale when `low == high`, then never more bins than
    `ceil(high - low)` (and at least one).  Returns (num_bins, low, high). -/
def histPrepare (numBins : Nat) (low high : Rat) (dmin dmax : Rat) : Nat × Rat × Rat :=
  let (low, high) :=
    if low = high then
      if dmin = dmax then (dmin - 1/2, dmax + 1/2)      -- REPAIRED: constant data
      else (dmin, dmax)
    else (low, high)
  let datarange := (high - low).ceil.toNat               -- (unsigned)ceil(high_lim - low_lim)
  let nb := if datarange < numBins then (if datarange > 0 then datarange else 1) else numBins
  (nb, low, high)

/-- `cmi_dataset_histogram_create` -/
def Hist.create (nb : Nat) (low high : Rat) : Hist :=
  { nb := nb, low := low, high := high, binsize := (high - low) / nb,
    bins := Array.replicate (nb + 2) 0 }

/-- the bin of one x-value: 0 below the range, `nb + 1` above it, else
    `1 + (uint16_t)((x - low) / binsize)` (so `x == high` lands in the overflow bin) -/
def Hist.binOf (h : Hist) (x : Rat) : Nat :=
  if x < h.low then 0
  else if x > h.high then h.nb + 1
  else (1 + (((x - h.low) / h.binsize).floor.toNat % 65536)) % 65536

/-- `hp->hbins[bin] += w;` (`none`: the index is outside the `nb + 2` slots) -/
def Hist.addTo (h : Hist) (x w : Rat) : Option Hist :=
  let b := h.binOf x
  if b < h.bins.size then some { h with bins := h.bins.modify b (· + w) } else none

/-- `cmi_dataset_histogram_fill`: every sample with weight 1 -/
def Hist.fill (h : Hist) : List Rat → Option Hist
  | [] => some h
  | x :: xs => (h.addTo x 1).bind (·.fill xs)

/-- `timeseries_histogram_fill`: `for (ui = 0; ui < n - 1; ui++)`, sample `ui` with weight `wa[ui]`
    (the last sample of a series has no duration yet) -/
def Hist.fillW (h : Hist) : List (Rat × Rat) → Option Hist
  | [] => some h
  | [_] => some h
  | (x, w) :: r => (h.addTo x w).bind (·.fillW r)

/-- what `cmb_dataset_histogram_print(dsp, fp, num_bins, low, high)` computes before printing
    (`count ≥ 1`) -/
def histDataset (xs : List Rat) (dmin dmax : Rat) (numBins : Nat) (low high : Rat) : Option Hist :=
  let (nb, lo, hi) := histPrepare numBins low high dmin dmax
  (Hist.create nb lo hi).fill xs

/-- what `cmb_timeseries_histogram_print` computes before printing (`count ≥ 2`; `num_bins` is a
    `uint16_t` there) -/
def histSeries (xw : List (Rat × Rat)) (dmin dmax : Rat) (numBins : Nat) (low high : Rat) : Option Hist :=
  let (nb, lo, hi) := histPrepare numBins low high dmin dmax
  (Hist.create (nb % 65536) lo hi).fillW xw

end CimbaModel.Stats
