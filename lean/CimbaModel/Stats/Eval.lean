/-
  Translation validation for C17: evaluates the GENERATED definitions at K = ℚ on the operation scripts that
  harness/statdrv.c runs on the real library (same slots, same operations), printing exact rationals.
  Run as   lake env lean --run CimbaModel/Stats/Eval.lean <script>     (not linked into any compiled driver).

  Script lines (numbers are exact rationals "n/d" or integers):
    case ID | dinit i | dadd i x | dmerge t a b | dset i count min max m1 m2 m3 m4 | dget i | dstat i
            | winit i | wadd i x w | wmerge t a b | wset i count min max m1 m2 m3 m4 wsum | wget i | wstat i
  Output: one line per operation; "ok <ret> dom=<0|1>" for calls (dom = the generated definedness predicate), the fields
  for get, value:dom pairs for stat.
-/
import CimbaModel.Generated.Stats
import Mathlib.Algebra.Order.Field.Rat

open CimbaModel.Generated.Stats

namespace CimbaModel.Stats.Eval

/-- DBL_MAX = (2^53 − 1)·2^971 -/
def dblMax : ℚ := ((2 ^ 53 - 1 : ℕ) : ℚ) * ((2 ^ 971 : ℕ) : ℚ)

/-- rational square root, correct to ~40 significant digits (exact on perfect squares); only ever compared under a tolerance -/
def sqrtQ (q : ℚ) : ℚ :=
  if q ≤ 0 then 0 else
    -- scale so that the integer square root has at least ~45 digits
    let n := q.num.toNat
    let d := q.den
    let digits := (toString (max n d)).length
    let sc := 10 ^ (45 + digits)
    ((Nat.sqrt (n * d * sc * sc) : ℕ) : ℚ) / ((d * sc : ℕ) : ℚ)

def powQ (x e : ℚ) : ℚ := if e = 3 / 2 then (sqrtQ x) ^ 3 else 0

def zeroD : DataSummary ℚ := { cookie := 0, count := 0, min := 0, max := 0, m1 := 0, m2 := 0, m3 := 0, m4 := 0 }
def zeroW : WtdSummary ℚ := { ds := zeroD, wsum := 0 }

instance : Inhabited (DataSummary ℚ) := ⟨zeroD⟩
instance : Inhabited (WtdSummary ℚ) := ⟨zeroW⟩

def mkD (c : ℕ) (mn mx m1 m2 m3 m4 : ℚ) : DataSummary ℚ :=
  { cookie := (cmb_datasummary_initialize dblMax zeroD).cookie, count := c, min := mn, max := mx,
    m1 := m1, m2 := m2, m3 := m3, m4 := m4 }

structure St where
  d : Array (DataSummary ℚ)
  w : Array (WtdSummary ℚ)

def parseQ (s : String) : ℚ :=
  match s.splitOn "/" with
  | [a] => (a.toInt?.getD 0 : ℚ)
  | [a, b] => (a.toInt?.getD 0 : ℚ) / (b.toInt?.getD 1 : ℚ)
  | _ => 0

def showQ (q : ℚ) : String := if q.den = 1 then s!"{q.num}" else s!"{q.num}/{q.den}"
def b (p : Prop) [Decidable p] : String := if p then "1" else "0"
def vd (v : ℚ) (p : Prop) [Decidable p] : String := showQ v ++ ":" ++ b p

def showD (s : DataSummary ℚ) : String :=
  s!"{s.count} {showQ s.min} {showQ s.max} {showQ s.m1} {showQ s.m2} {showQ s.m3} {showQ s.m4}"

def step (st : St) (t : List String) : St × String :=
  let ix (s : String) : Nat := s.toNat?.getD 0
  match t with
  | ["case", id] => (st, s!"case {id}")
  | ["dinit", i] =>
    (if cmb_datasummary_initialize_dom dblMax (st.d[ix i]!) then
      ({ st with d := st.d.set! (ix i) (cmb_datasummary_initialize dblMax (st.d[ix i]!)) }, "ok 0 dom=1")
     else (st, "ok 0 dom=0"))
  | ["dadd", i, x] =>
    let r := cmb_datasummary_add (st.d[ix i]!) (parseQ x)
    ({ st with d := st.d.set! (ix i) r.2 }, s!"ok {r.1} dom={b (cmb_datasummary_add_dom (st.d[ix i]!) (parseQ x))}")
  | ["dmerge", tg, a, c] =>
    let r := cmb_datasummary_merge dblMax (st.d[ix tg]!) (st.d[ix a]!) (st.d[ix c]!)
    ({ st with d := st.d.set! (ix tg) r.2 },
      s!"ok {r.1} dom={b (cmb_datasummary_merge_dom dblMax (st.d[ix tg]!) (st.d[ix a]!) (st.d[ix c]!))}")
  | ["dset", i, cnt, mn, mx, m1, m2, m3, m4] =>
    let s : DataSummary ℚ := mkD (ix cnt) (parseQ mn) (parseQ mx) (parseQ m1) (parseQ m2) (parseQ m3) (parseQ m4)
    ({ st with d := st.d.set! (ix i) s }, "ok 0 dom=1")
  | ["dget", i] => (st, "D " ++ showD (st.d[ix i]!))
  | ["dstat", i] =>
    let s := st.d[ix i]!
    (st, " ".intercalate ["S", toString (cmb_datasummary_count s),
      vd (cmb_datasummary_min s) (cmb_datasummary_min_dom s), vd (cmb_datasummary_max s) (cmb_datasummary_max_dom s),
      vd (cmb_datasummary_mean s) (cmb_datasummary_mean_dom s),
      vd (cmb_datasummary_variance s) (cmb_datasummary_variance_dom s),
      vd (cmb_datasummary_stddev sqrtQ s) (cmb_datasummary_stddev_dom sqrtQ s),
      vd (cmb_datasummary_skewness sqrtQ powQ s) (cmb_datasummary_skewness_dom sqrtQ powQ s),
      vd (cmb_datasummary_kurtosis s) (cmb_datasummary_kurtosis_dom s)])
  | ["winit", i] =>
    ({ st with w := st.w.set! (ix i) (cmb_wtdsummary_initialize dblMax (st.w[ix i]!)) },
      s!"ok 0 dom={b (cmb_wtdsummary_initialize_dom dblMax (st.w[ix i]!))}")
  | ["wadd", i, x, wt] =>
    let r := cmb_wtdsummary_add (st.w[ix i]!) (parseQ x) (parseQ wt)
    ({ st with w := st.w.set! (ix i) r.2 },
      s!"ok {r.1} dom={b (cmb_wtdsummary_add_dom (st.w[ix i]!) (parseQ x) (parseQ wt))}")
  | ["wmerge", tg, a, c] =>
    let r := cmb_wtdsummary_merge dblMax (st.w[ix tg]!) (st.w[ix a]!) (st.w[ix c]!)
    ({ st with w := st.w.set! (ix tg) r.2 },
      s!"ok {r.1} dom={b (cmb_wtdsummary_merge_dom dblMax (st.w[ix tg]!) (st.w[ix a]!) (st.w[ix c]!))}")
  | ["wset", i, cnt, mn, mx, m1, m2, m3, m4, ws] =>
    let s : DataSummary ℚ := mkD (ix cnt) (parseQ mn) (parseQ mx) (parseQ m1) (parseQ m2) (parseQ m3) (parseQ m4)
    ({ st with w := st.w.set! (ix i) { ds := s, wsum := parseQ ws } }, "ok 0 dom=1")
  | ["wget", i] => (st, "W " ++ showD (st.w[ix i]!).ds ++ " " ++ showQ (st.w[ix i]!).wsum)
  | ["wstat", i] =>
    let s := st.w[ix i]!
    (st, " ".intercalate ["S", toString (cmb_wtdsummary_count s),
      vd (cmb_wtdsummary_min s) (cmb_wtdsummary_min_dom s), vd (cmb_wtdsummary_max s) (cmb_wtdsummary_max_dom s),
      vd (cmb_wtdsummary_mean s) (cmb_wtdsummary_mean_dom s),
      vd (cmb_wtdsummary_variance s) (cmb_wtdsummary_variance_dom s),
      vd (cmb_wtdsummary_stddev sqrtQ s) (cmb_wtdsummary_stddev_dom sqrtQ s),
      vd (cmb_wtdsummary_skewness sqrtQ powQ s) (cmb_wtdsummary_skewness_dom sqrtQ powQ s),
      vd (cmb_wtdsummary_kurtosis s) (cmb_wtdsummary_kurtosis_dom s)])
  | _ => (st, "bad " ++ " ".intercalate t)

end CimbaModel.Stats.Eval

open CimbaModel.Stats.Eval in
def main (args : List String) : IO UInt32 := do
  let path := args.headD "/dev/stdin"
  let text ← IO.FS.readFile path
  let out ← IO.getStdout
  let mut st : St := { d := Array.replicate 8 zeroD, w := Array.replicate 8 zeroW }
  for line in text.splitOn "\n" do
    let toks := (line.splitOn " ").filter (· ≠ "")
    if toks.isEmpty then continue
    if (toks.headD "").startsWith "#" then continue
    if toks.headD "" = "case" then
      st := { d := Array.replicate 8 zeroD, w := Array.replicate 8 zeroW }
    let (st', msg) := step st toks
    st := st'
    out.putStrLn msg
  return 0
