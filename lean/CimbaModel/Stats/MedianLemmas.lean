/-
  Properties of the medians / five-number summaries of Median.lean, for every size (induction, no
  enumeration):
  * `arrMedian_bounds`, `sorted_middle_is_median`, `fivenumOfSorted_ordered` (datasets);
  * `wquantile_spec`, `wquantile_mono`, `wMedianSorted_is_median`, `wFivenumSorted_ordered`
    (duration-weighted, time series).
-/
import CimbaModel.Stats.Median
import Mathlib.Algebra.Order.Field.Basic
import Mathlib.Tactic.Linarith
import Mathlib.Tactic.Ring

namespace CimbaModel.Stats

variable {K : Type} [Inhabited K] [Field K] [LinearOrder K] [IsStrictOrderedRing K]

/-- array sorted ascending, index form -/
def SortedArr (v : Array K) : Prop := ∀ i j, i ≤ j → j < v.size → v[i]! ≤ v[j]!

omit [Field K] [LinearOrder K] [IsStrictOrderedRing K] in
theorem arr_getElem?_eq_some_getElem! (v : Array K) (i : Nat) (h : i < v.size) : v[i]? = some v[i]! := by
  rw [getElem!_pos v i h, Array.getElem?_eq_getElem h]

omit [Inhabited K] in
theorem avg_bounds (a b : K) (h : a ≤ b) : a ≤ (a + b) / 2 ∧ (a + b) / 2 ≤ b := by
  constructor
  · rw [le_div_iff₀ (by norm_num)]; linarith
  · rw [div_le_iff₀ (by norm_num)]; linarith

/-- `data_array_median` on a non-empty in-bounds slice of a sorted array: defined, and between the
    two middle elements -/
theorem arrMedian_bounds (v : Array K) (off n : Nat) (hn : 0 < n) (hn32 : n < 4294967296)
    (hb : off + n ≤ v.size) (hs : SortedArr v) :
    ∃ m, arrMedian v off n = some m ∧ v[off + (n - 1) / 2]! ≤ m ∧ m ≤ v[off + n / 2]! := by
  unfold arrMedian
  by_cases he : n % 2 = 0
  · rw [if_pos he]
    have h1 : (n / 2 + 4294967295) % 4294967296 = (n - 1) / 2 := by omega
    rw [h1, arr_getElem?_eq_some_getElem! v _ (by omega), arr_getElem?_eq_some_getElem! v _ (by omega)]
    have := hs (off + (n - 1) / 2) (off + n / 2) (by omega) (by omega)
    exact ⟨_, rfl, avg_bounds _ _ this⟩
  · rw [if_neg he]
    have h1 : (n - 1) / 2 = n / 2 := by omega
    rw [h1, arr_getElem?_eq_some_getElem! v _ (by omega)]
    exact ⟨_, rfl, le_refl _, le_refl _⟩

/-! ### a value between the middle elements is a median -/

omit [Inhabited K] [Field K] [IsStrictOrderedRing K] in
/-- in a sorted list, at most `k` elements are strictly below anything that is `≤ l[k]` -/
theorem countP_lt_le_of_sorted (l : List K) (hs : l.Pairwise (· ≤ ·)) (k : Nat) (hk : k < l.length) (m : K)
    (h : m ≤ l[k]) : l.countP (fun x => decide (x < m)) ≤ k := by
  have hsplit := List.take_append_drop k l
  have hd : l.drop k = l[k] :: l.drop (k + 1) := List.drop_eq_getElem_cons hk
  rw [← hsplit] at hs
  obtain ⟨_, hsd, _⟩ := List.pairwise_append.1 hs
  rw [hd, List.pairwise_cons] at hsd
  have hz : (l.drop k).countP (fun x => decide (x < m)) = 0 := by
    rw [List.countP_eq_zero]
    intro a ha
    rw [hd, List.mem_cons] at ha
    have : l[k] ≤ a := by
      rcases ha with ha | ha
      · rw [ha]
      · exact hsd.1 a ha
    simpa using le_trans h this
  have ht : (l.take k).countP (fun x => decide (x < m)) ≤ k :=
    le_trans List.countP_le_length (by rw [List.length_take]; omega)
  calc l.countP (fun x => decide (x < m))
      = (l.take k ++ l.drop k).countP (fun x => decide (x < m)) := by rw [hsplit]
    _ ≤ k := by rw [List.countP_append, hz]; simpa using ht

omit [Inhabited K] [Field K] [IsStrictOrderedRing K] in
/-- in a sorted list, at most `length - (k+1)` elements are strictly above anything that is `≥ l[k]` -/
theorem countP_gt_le_of_sorted (l : List K) (hs : l.Pairwise (· ≤ ·)) (k : Nat) (hk : k < l.length) (m : K)
    (h : l[k] ≤ m) : l.countP (fun x => decide (m < x)) ≤ l.length - (k + 1) := by
  have hsplit := List.take_append_drop (k + 1) l
  have ht : l.take (k + 1) = l.take k ++ [l[k]] := List.take_succ_eq_append_getElem hk
  rw [← hsplit] at hs
  obtain ⟨hst, _, _⟩ := List.pairwise_append.1 hs
  rw [ht] at hst
  obtain ⟨_, _, hst⟩ := List.pairwise_append.1 hst
  have hz : (l.take (k + 1)).countP (fun x => decide (m < x)) = 0 := by
    rw [List.countP_eq_zero]
    intro a ha
    rw [ht, List.mem_append, List.mem_singleton] at ha
    have : a ≤ l[k] := by
      rcases ha with ha | ha
      · exact hst a ha _ (List.mem_singleton.2 rfl)
      · rw [ha]
    simpa using le_trans this h
  have hd : (l.drop (k + 1)).countP (fun x => decide (m < x)) ≤ l.length - (k + 1) :=
    le_trans List.countP_le_length (by rw [List.length_drop])
  calc l.countP (fun x => decide (m < x))
      = (l.take (k + 1) ++ l.drop (k + 1)).countP (fun x => decide (m < x)) := by rw [hsplit]
    _ ≤ l.length - (k + 1) := by rw [List.countP_append, hz]; simpa using hd

omit [Field K] [IsStrictOrderedRing K] in
/-- a value between the two middle elements of a sorted list is a median: at most half of the samples
    strictly below, at most half strictly above -/
theorem sorted_middle_is_median (l : List K) (hs : l.Pairwise (· ≤ ·)) (hn : 0 < l.length) (m : K)
    (h1 : l[(l.length - 1) / 2]! ≤ m) (h2 : m ≤ l[l.length / 2]!) :
    2 * l.countP (fun x => decide (x < m)) ≤ l.length ∧ 2 * l.countP (fun x => decide (m < x)) ≤ l.length := by
  have hk1 : (l.length - 1) / 2 < l.length := by omega
  have hk2 : l.length / 2 < l.length := by omega
  rw [getElem!_pos l _ hk1] at h1
  rw [getElem!_pos l _ hk2] at h2
  have hb := countP_lt_le_of_sorted l hs _ hk2 m h2
  have ha := countP_gt_le_of_sorted l hs _ hk1 m h1
  constructor <;> omega

/-! ### the dataset five-number summary -/

/-- five-number summary of a sorted array of `cnt ≥ 1` samples: defined (no out-of-bounds read, one
    sample included), ordered, inside [mn, mx] -/
theorem fivenumOfSorted_ordered (v : Array K) (cnt : Nat) (mn mx : K) (hc : 0 < cnt) (hc32 : cnt < 4294967296)
    (hsz : v.size = cnt) (hs : SortedArr v) (hmn : mn ≤ v[0]!) (hmx : v[cnt - 1]! ≤ mx) :
    ∃ f, fivenumOfSorted v cnt mn mx = some f ∧ f.min = mn ∧ f.max = mx ∧
      f.min ≤ f.q1 ∧ f.q1 ≤ f.med ∧ f.med ≤ f.q3 ∧ f.q3 ≤ f.max ∧
      arrMedian v 0 cnt = some f.med := by
  have hm1 : cnt % 4294967296 = cnt := by omega
  have hm2 : (cnt / 2) % 4294967296 = cnt / 2 := by omega
  have hm3 : (cnt - cnt / 2) % 4294967296 = cnt - cnt / 2 := by omega
  obtain ⟨med, hmed, hmedl, hmedu⟩ := arrMedian_bounds v 0 cnt hc hc32 (by omega) hs
  simp only [Nat.zero_add] at hmedl hmedu
  -- first quartile
  have hq1 : ∃ q1, (if cnt / 2 > 0 then arrMedian v 0 (cnt / 2) else some med) = some q1 ∧ mn ≤ q1 ∧ q1 ≤ med := by
    by_cases h : cnt / 2 > 0
    · rw [if_pos h]
      obtain ⟨q, hq, hql, hqu⟩ := arrMedian_bounds v 0 (cnt / 2) h (by omega) (by omega) hs
      simp only [Nat.zero_add] at hql hqu
      refine ⟨q, hq, ?_, ?_⟩
      · exact le_trans hmn (le_trans (hs 0 _ (by omega) (by omega)) hql)
      · exact le_trans hqu (le_trans (hs _ _ (by omega) (by omega)) hmedl)
    · rw [if_neg h]
      have h1 : (cnt - 1) / 2 = 0 := by omega
      rw [h1] at hmedl
      exact ⟨med, rfl, le_trans hmn hmedl, le_refl _⟩
  -- third quartile
  have hq3 : ∃ q3, (if cnt % 2 = 0 then arrMedian v (cnt / 2) (cnt - cnt / 2)
        else if cnt - cnt / 2 > 1 then arrMedian v (cnt / 2 + 1) (cnt - cnt / 2 - 1) else some med) = some q3 ∧
        med ≤ q3 ∧ q3 ≤ mx := by
    by_cases he : cnt % 2 = 0
    · rw [if_pos he]
      obtain ⟨q, hq, hql, hqu⟩ := arrMedian_bounds v (cnt / 2) (cnt - cnt / 2) (by omega) (by omega) (by omega) hs
      refine ⟨q, hq, ?_, ?_⟩
      · exact le_trans hmedu (le_trans (hs _ _ (by omega) (by omega)) hql)
      · exact le_trans hqu (le_trans (hs _ _ (by omega) (by omega)) hmx)
    · rw [if_neg he]
      by_cases h : cnt - cnt / 2 > 1
      · rw [if_pos h]
        obtain ⟨q, hq, hql, hqu⟩ :=
          arrMedian_bounds v (cnt / 2 + 1) (cnt - cnt / 2 - 1) (by omega) (by omega) (by omega) hs
        refine ⟨q, hq, ?_, ?_⟩
        · exact le_trans hmedu (le_trans (hs _ _ (by omega) (by omega)) hql)
        · exact le_trans hqu (le_trans (hs _ _ (by omega) (by omega)) hmx)
      · rw [if_neg h]
        have h1 : cnt / 2 = cnt - 1 := by omega
        rw [h1] at hmedu
        exact ⟨med, rfl, le_refl _, le_trans hmedu hmx⟩
  obtain ⟨q1, hq1e, hq1l, hq1u⟩ := hq1
  obtain ⟨q3, hq3e, hq3l, hq3u⟩ := hq3
  refine ⟨{ min := mn, q1 := q1, med := med, q3 := q3, max := mx }, ?_, rfl, rfl, hq1l, hq1u, hq3l, hq3u, hmed⟩
  unfold fivenumOfSorted
  simp only [hm1, hm2, hm3, hmed, Option.bind_eq_bind, Option.bind_some, Option.pure_def]
  split_ifs at hq1e hq3e ⊢ <;> simp_all

/-! ### duration-weighted quantiles -/

/-- weight strictly below a value, for samples `xs` with weights `ws` -/
def wBelow (xs ws : List K) (m : K) : K := (((xs.zip ws).filter fun p => decide (p.1 < m)).map (·.2)).sum
/-- weight strictly above a value, for samples `xs` with weights `ws` -/
def wAbove (xs ws : List K) (m : K) : K := (((xs.zip ws).filter fun p => decide (m < p.1)).map (·.2)).sum

omit [Inhabited K] [IsStrictOrderedRing K] in
theorem wBelow_cons (x w : K) (xs ws : List K) (m : K) :
    wBelow (x :: xs) (w :: ws) m = (if x < m then w else 0) + wBelow xs ws m := by
  unfold wBelow
  rw [List.zip_cons_cons, List.filter_cons]
  by_cases h : x < m <;> simp [h]

omit [Inhabited K] [IsStrictOrderedRing K] in
theorem wAbove_cons (x w : K) (xs ws : List K) (m : K) :
    wAbove (x :: xs) (w :: ws) m = (if m < x then w else 0) + wAbove xs ws m := by
  unfold wAbove
  rw [List.zip_cons_cons, List.filter_cons]
  by_cases h : m < x <;> simp [h]

omit [Inhabited K] in
theorem sum_nonneg_of_nonneg (ws : List K) (hw : ∀ w ∈ ws, 0 ≤ w) : 0 ≤ ws.sum := by
  induction ws with
  | nil => simp
  | cons w ws ih =>
    rw [List.sum_cons]
    have h1 := hw w (List.mem_cons_self)
    have h2 := ih (fun a ha => hw a (List.mem_cons_of_mem _ ha))
    linarith

omit [Inhabited K] [IsStrictOrderedRing K] in
/-- nothing is strictly below a lower bound of the samples -/
theorem wBelow_eq_zero (xs ws : List K) (m : K) (h : ∀ x ∈ xs, m ≤ x) : wBelow xs ws m = 0 := by
  induction xs generalizing ws with
  | nil => simp [wBelow]
  | cons x xs ih =>
    cases ws with
    | nil => simp [wBelow]
    | cons w ws =>
      rw [wBelow_cons, ih ws (fun a ha => h a (List.mem_cons_of_mem _ ha)),
        if_neg (not_lt.2 (h x List.mem_cons_self))]
      simp

omit [Inhabited K] in
/-- the weight strictly above anything is at most the total weight -/
theorem wAbove_le_sum (xs ws : List K) (m : K) (hlen : xs.length = ws.length) (hw : ∀ w ∈ ws, 0 ≤ w) :
    wAbove xs ws m ≤ ws.sum := by
  induction xs generalizing ws with
  | nil =>
    cases ws with
    | nil => simp [wAbove]
    | cons w ws => simp at hlen
  | cons x xs ih =>
    cases ws with
    | nil => simp at hlen
    | cons w ws =>
      rw [wAbove_cons, List.sum_cons]
      have h1 := hw w List.mem_cons_self
      have h2 := ih ws (by simpa using hlen) (fun a ha => hw a (List.mem_cons_of_mem _ ha))
      split <;> linarith

omit [Inhabited K] [LinearOrder K] [IsStrictOrderedRing K] in
theorem getLast?_cumSums (acc : K) (ws : List K) : (cumSums acc ws).getLast?.getD acc = acc + ws.sum := by
  induction ws generalizing acc with
  | nil => simp [cumSums]
  | cons w ws ih =>
    rw [cumSums, List.getLast?_cons, Option.getD_some, ih, List.sum_cons, add_assoc]

omit [Inhabited K] [LinearOrder K] [IsStrictOrderedRing K] in
/-- the total weight as the code has it (last cumulative sum) is the sum of the weights -/
theorem wTotal_eq_sum (ws : List K) : wTotal ws = ws.sum := by
  unfold wTotal
  rw [getLast?_cumSums, zero_add]

omit [Inhabited K] [Field K] [IsStrictOrderedRing K] in
theorem firstReach_mem (q : K) (xs cs : List K) (m : K) (h : firstReach q xs cs = some m) : m ∈ xs := by
  induction xs generalizing cs with
  | nil => simp [firstReach] at h
  | cons x xs ih =>
    cases cs with
    | nil => simp [firstReach] at h
    | cons c cs =>
      rw [firstReach] at h
      split at h
      · rw [Option.some.injEq] at h
        rw [h]; exact List.mem_cons_self
      · exact List.mem_cons_of_mem _ (ih cs h)

omit [Inhabited K] [IsStrictOrderedRing K] in
/-- `firstReach` succeeds when the wanted weight does not exceed the total -/
theorem firstReach_isSome (q acc : K) (xs ws : List K) (hlen : xs.length = ws.length)
    (hne : 0 < xs.length ∨ acc < q) (hq : q ≤ acc + ws.sum) :
    ∃ m, firstReach q xs (cumSums acc ws) = some m := by
  induction xs generalizing ws acc with
  | nil =>
    cases ws with
    | nil =>
      rcases hne with hne | hne
      · simp at hne
      · simp at hq; exact absurd hq (not_le.2 hne)
    | cons w ws => simp at hlen
  | cons x xs ih =>
    cases ws with
    | nil => simp at hlen
    | cons w ws =>
      rw [cumSums, firstReach]
      by_cases h : q ≤ acc + w
      · rw [if_pos h]; exact ⟨x, rfl⟩
      · rw [if_neg h]
        refine ih (acc + w) ws (by simpa using hlen) (Or.inr (not_le.1 h)) ?_
        rw [List.sum_cons, ← add_assoc] at hq
        exact hq

omit [Inhabited K] in
/-- the sample found by `firstReach`: at most `q - acc` strictly below, at most `acc + total - q` strictly above -/
theorem firstReach_spec (q acc : K) (xs ws : List K) (hlen : xs.length = ws.length)
    (hs : xs.Pairwise (· ≤ ·)) (hw : ∀ w ∈ ws, 0 ≤ w) (hacc : acc ≤ q) (m : K)
    (h : firstReach q xs (cumSums acc ws) = some m) :
    acc + wBelow xs ws m ≤ q ∧ wAbove xs ws m ≤ acc + ws.sum - q := by
  induction xs generalizing ws acc with
  | nil => simp [firstReach] at h
  | cons x xs ih =>
    cases ws with
    | nil => simp [cumSums, firstReach] at h
    | cons w ws =>
      rw [cumSums, firstReach] at h
      rw [List.pairwise_cons] at hs
      have hw0 := hw w List.mem_cons_self
      have hw' : ∀ a ∈ ws, 0 ≤ a := fun a ha => hw a (List.mem_cons_of_mem _ ha)
      have hlen' : xs.length = ws.length := by simpa using hlen
      rw [wBelow_cons, wAbove_cons, List.sum_cons]
      by_cases hc : q ≤ acc + w
      · rw [if_pos hc, Option.some.injEq] at h
        subst h
        rw [if_neg (lt_irrefl _), wBelow_eq_zero xs ws x hs.1]
        have := wAbove_le_sum xs ws x hlen' hw'
        constructor <;> linarith
      · rw [if_neg hc] at h
        have hc' := not_le.1 hc
        obtain ⟨h1, h2⟩ := ih (acc + w) ws hlen' hs.2 hw' (le_of_lt hc') h
        have hxm : x ≤ m := hs.1 m (firstReach_mem _ _ _ _ h)
        rw [if_neg (not_lt.2 hxm)]
        constructor
        · split <;> linarith
        · linarith

omit [Inhabited K] in
/-- the weighted quantile of ascending samples with non-negative weights: a sample value, with at most
    `q` of the weight strictly below it and at most `total - q` strictly above it -/
theorem wquantile_spec (xs ws : List K) (hlen : xs.length = ws.length) (hn : 0 < xs.length)
    (hs : xs.Pairwise (· ≤ ·)) (hw : ∀ w ∈ ws, 0 ≤ w) (q : K) (hq0 : 0 ≤ q) (hq1 : q ≤ ws.sum) :
    ∃ m, wquantile xs (cumSums 0 ws) q = some m ∧ m ∈ xs ∧ wBelow xs ws m ≤ q ∧ wAbove xs ws m ≤ ws.sum - q := by
  obtain ⟨m, hm⟩ := firstReach_isSome q 0 xs ws hlen (Or.inl hn) (by rw [zero_add]; exact hq1)
  obtain ⟨h1, h2⟩ := firstReach_spec q 0 xs ws hlen hs hw hq0 m hm
  rw [zero_add] at h1 h2
  refine ⟨m, ?_, firstReach_mem _ _ _ _ hm, h1, h2⟩
  unfold wquantile
  rw [hm]

omit [Inhabited K] [Field K] [IsStrictOrderedRing K] in
theorem firstReach_mono (xs cs : List K) (hs : xs.Pairwise (· ≤ ·)) (q q' : K) (hqq : q ≤ q') (m m' : K)
    (h : firstReach q xs cs = some m) (h' : firstReach q' xs cs = some m') : m ≤ m' := by
  induction xs generalizing cs with
  | nil => simp [firstReach] at h
  | cons x xs ih =>
    cases cs with
    | nil => simp [firstReach] at h
    | cons c cs =>
      rw [firstReach] at h h'
      rw [List.pairwise_cons] at hs
      by_cases hc' : q' ≤ c
      · rw [if_pos hc', Option.some.injEq] at h'
        rw [if_pos (le_trans hqq hc'), Option.some.injEq] at h
        rw [← h, ← h']
      · rw [if_neg hc'] at h'
        by_cases hc : q ≤ c
        · rw [if_pos hc, Option.some.injEq] at h
          rw [← h]
          exact hs.1 m' (firstReach_mem _ _ _ _ h')
        · rw [if_neg hc] at h
          exact ih cs hs.2 h h'

omit [Inhabited K] [Field K] [IsStrictOrderedRing K] in
theorem firstReach_none_mono (xs cs : List K) (q q' : K) (hqq : q ≤ q')
    (h : firstReach q xs cs = none) : firstReach q' xs cs = none := by
  induction xs generalizing cs with
  | nil => simp [firstReach]
  | cons x xs ih =>
    cases cs with
    | nil => simp [firstReach]
    | cons c cs =>
      rw [firstReach] at h ⊢
      by_cases hc : q ≤ c
      · rw [if_pos hc] at h; exact absurd h (by simp)
      · rw [if_neg hc] at h
        rw [if_neg (fun hc' => hc (le_trans hqq hc'))]
        exact ih cs h

omit [Inhabited K] [Field K] [IsStrictOrderedRing K] in
theorem le_getLast?_of_sorted (xs : List K) (hs : xs.Pairwise (· ≤ ·)) (m m' : K) (hm : m ∈ xs)
    (hl : xs.getLast? = some m') : m ≤ m' := by
  obtain ⟨ys, rfl⟩ := List.getLast?_eq_some_iff.1 hl
  obtain ⟨_, _, h⟩ := List.pairwise_append.1 hs
  rcases List.mem_append.1 hm with hm | hm
  · exact h m hm m' (List.mem_singleton.2 rfl)
  · rw [List.mem_singleton.1 hm]

set_option linter.unusedVariables false in
omit [Inhabited K] [IsStrictOrderedRing K] in
/-- quantiles are monotone in the requested weight (`hlen`, `hw` are not needed) -/
theorem wquantile_mono (xs ws : List K) (hlen : xs.length = ws.length) (hs : xs.Pairwise (· ≤ ·))
    (hw : ∀ w ∈ ws, 0 ≤ w) (q q' : K) (hqq : q ≤ q') (m m' : K)
    (h : wquantile xs (cumSums 0 ws) q = some m) (h' : wquantile xs (cumSums 0 ws) q' = some m') : m ≤ m' := by
  unfold wquantile at h h'
  cases h1 : firstReach q xs (cumSums 0 ws) with
  | some a =>
    rw [h1, Option.some.injEq] at h
    subst h
    cases h2 : firstReach q' xs (cumSums 0 ws) with
    | some b =>
      rw [h2, Option.some.injEq] at h'
      subst h'
      exact firstReach_mono xs _ hs q q' hqq _ _ h1 h2
    | none =>
      rw [h2] at h'
      exact le_getLast?_of_sorted xs hs _ _ (firstReach_mem _ _ _ _ h1) h'
  | none =>
    rw [h1] at h
    rw [firstReach_none_mono xs _ q q' hqq h1] at h'
    rw [h] at h'
    rw [Option.some.injEq] at h'
    rw [h']

omit [Inhabited K] in
/-- the weighted median of ascending samples is a weighted median -/
theorem wMedianSorted_is_median (xs ws : List K) (hlen : xs.length = ws.length) (hn : 0 < xs.length)
    (hs : xs.Pairwise (· ≤ ·)) (hw : ∀ w ∈ ws, 0 ≤ w) :
    ∃ m, wMedianSorted xs ws = some m ∧ m ∈ xs ∧ 2 * wBelow xs ws m ≤ ws.sum ∧ 2 * wAbove xs ws m ≤ ws.sum := by
  have hsum := sum_nonneg_of_nonneg ws hw
  obtain ⟨m, hm, hmem, h1, h2⟩ := wquantile_spec xs ws hlen hn hs hw (ws.sum / 2)
    (div_nonneg hsum (by norm_num)) (by linarith)
  refine ⟨m, ?_, hmem, by linarith, by linarith⟩
  unfold wMedianSorted
  rw [wTotal_eq_sum, hm]

omit [Inhabited K] in
/-- the weighted five-number summary: defined, ordered, every value a sample (hence inside [mn, mx]
    when those bound the samples), median is a weighted median -/
theorem wFivenumSorted_ordered (xs ws : List K) (mn mx : K) (hlen : xs.length = ws.length) (hn : 0 < xs.length)
    (hs : xs.Pairwise (· ≤ ·)) (hw : ∀ w ∈ ws, 0 ≤ w) (hmn : ∀ x ∈ xs, mn ≤ x) (hmx : ∀ x ∈ xs, x ≤ mx) :
    ∃ f, wFivenumSorted xs ws mn mx = some f ∧ f.min = mn ∧ f.max = mx ∧
      f.min ≤ f.q1 ∧ f.q1 ≤ f.med ∧ f.med ≤ f.q3 ∧ f.q3 ≤ f.max ∧ wMedianSorted xs ws = some f.med := by
  have hsum := sum_nonneg_of_nonneg ws hw
  obtain ⟨q1, hq1, hq1m, -, -⟩ := wquantile_spec xs ws hlen hn hs hw (ws.sum / 4)
    (div_nonneg hsum (by norm_num)) (by linarith)
  obtain ⟨med, hmed, hmedm, -, -⟩ := wquantile_spec xs ws hlen hn hs hw (ws.sum / 2)
    (div_nonneg hsum (by norm_num)) (by linarith)
  obtain ⟨q3, hq3, hq3m, -, -⟩ := wquantile_spec xs ws hlen hn hs hw (3 * ws.sum / 4)
    (div_nonneg (by linarith) (by norm_num)) (by linarith)
  refine ⟨{ min := mn, q1 := q1, med := med, q3 := q3, max := mx }, ?_, rfl, rfl, hmn q1 hq1m, ?_, ?_,
    hmx q3 hq3m, ?_⟩
  · unfold wFivenumSorted
    simp only [wTotal_eq_sum, hq1, hmed, hq3, Option.bind_eq_bind, Option.bind_some, Option.pure_def]
  · exact wquantile_mono xs ws hlen hs hw _ _ (by linarith) _ _ hq1 hmed
  · exact wquantile_mono xs ws hlen hs hw _ _ (by linarith) _ _ hmed hq3
  · unfold wMedianSorted
    rw [wTotal_eq_sum, hmed]

/-! ### non-vacuity: the statements on concrete data over ℚ -/
section examples

example : wMedianSorted [(1 : ℚ), 5, 5, 10] [8, 1, 0, 1] = some 1 := by decide +kernel
example : wMedianSorted [(1 : ℚ), 2, 3, 3] [1, 1, 1, 0] = some 2 := by decide +kernel
example : (fivenumOfSorted #[(7 : ℚ)] 1 7 7).map (·.q1) = some 7 := by decide +kernel
example : arrMedian #[(1 : ℚ), 2, 4, 8] 0 4 = some 3 := by decide +kernel
example : arrMedian #[(1 : ℚ), 2, 4, 8] 0 0 = none := by decide +kernel
example : (fivenumOfSorted #[(1 : ℚ), 2, 3, 4, 6] 5 1 6).map (fun f => (f.min, f.q1, f.med, f.q3, f.max))
    = some (1, 3 / 2, 3, 5, 6) := by decide +kernel
example : (fivenumOfSorted #[(1 : ℚ), 2, 3, 4] 4 1 4).map (fun f => (f.min, f.q1, f.med, f.q3, f.max))
    = some (1, 3 / 2, 5 / 2, 7 / 2, 4) := by decide +kernel
example : (wFivenumSorted [(1 : ℚ), 2, 3, 4] [1, 1, 1, 1] 1 4).map (fun f => (f.min, f.q1, f.med, f.q3, f.max))
    = some (1, 1, 2, 3, 4) := by decide +kernel
example : wquantile [(1 : ℚ), 2, 3] (cumSums 0 [1, 1, 1]) 7 = some 3 := by decide +kernel  -- the fallback

/-- the hypotheses of the weighted theorems are satisfiable (zero weights and ties included) -/
example : ∃ m, wMedianSorted [(1 : ℚ), 5, 5, 10] [8, 1, 0, 1] = some m ∧ m ∈ [(1 : ℚ), 5, 5, 10] ∧
    2 * wBelow [(1 : ℚ), 5, 5, 10] [8, 1, 0, 1] m ≤ ([8, 1, 0, 1] : List ℚ).sum ∧
    2 * wAbove [(1 : ℚ), 5, 5, 10] [8, 1, 0, 1] m ≤ ([8, 1, 0, 1] : List ℚ).sum :=
  wMedianSorted_is_median _ _ rfl (by decide) (by decide +kernel) (by decide +kernel)

/-- the hypotheses of the dataset theorem are satisfiable -/
example : ∃ f, fivenumOfSorted #[(7 : ℚ)] 1 7 7 = some f ∧ f.min = 7 ∧ f.max = 7 ∧
    f.min ≤ f.q1 ∧ f.q1 ≤ f.med ∧ f.med ≤ f.q3 ∧ f.q3 ≤ f.max ∧ arrMedian #[(7 : ℚ)] 0 1 = some f.med :=
  fivenumOfSorted_ordered _ 1 7 7 (by decide) (by decide) rfl
    (by intro i j hij hj
        have hj0 : j = 0 := by simpa using hj
        have hi0 : i = 0 := by omega
        rw [hi0, hj0])
    (by decide +kernel) (by decide +kernel)

end examples

end CimbaModel.Stats
