/-
  Correctness of the heapsort models of Sort.lean, for every size (no enumeration):
  * `heapsort_size`, `heapsort_prefix`: the first `un` slots end up ascending by key, are a
    permutation of the first `un` input slots, the rest of the array is untouched;
  * `heapsort3_zip`: the three-array sort is the one-array sort of the zipped triples.
-/
import CimbaModel.Stats.Sort
import Mathlib.Order.Defs.LinearOrder

namespace CimbaModel.Stats

/-! ### `swp` -/
section swp
variable {α : Type} [Inhabited α]

theorem getElem!_swp (a : Array α) (i j k : Nat) (hi : i < a.size) (hj : j < a.size) :
    (swp a i j)[k]! = if k = i then a[j]! else if k = j then a[i]! else a[k]! := by
  unfold swp
  rw [dif_pos ⟨hi, hj⟩]
  by_cases hk : k < a.size
  · have hk' : k < (a.swap i j hi hj).size := by simpa using hk
    rw [getElem!_pos (a.swap i j hi hj) k hk', Array.getElem_swap, getElem!_pos a j hj, getElem!_pos a i hi,
      getElem!_pos a k hk]
  · have h1 : k ≠ i := by omega
    have h2 : k ≠ j := by omega
    have hk' : ¬ k < (a.swap i j hi hj).size := by simpa using hk
    rw [if_neg h1, if_neg h2, getElem!_neg (a.swap i j hi hj) k hk', getElem!_neg a k hk]

theorem getElem!_swp_left (a : Array α) (i j : Nat) (hi : i < a.size) (hj : j < a.size) :
    (swp a i j)[i]! = a[j]! := by
  rw [getElem!_swp a i j i hi hj, if_pos rfl]

theorem getElem!_swp_right (a : Array α) (i j : Nat) (hi : i < a.size) (hj : j < a.size) :
    (swp a i j)[j]! = a[i]! := by
  rw [getElem!_swp a i j j hi hj]
  split
  · next h => rw [h]
  · rw [if_pos rfl]

theorem getElem!_swp_of_ne (a : Array α) (i j k : Nat) (h1 : k ≠ i) (h2 : k ≠ j) :
    (swp a i j)[k]! = a[k]! := by
  by_cases h : i < a.size ∧ j < a.size
  · rw [getElem!_swp a i j k h.1 h.2, if_neg h1, if_neg h2]
  · unfold swp
    rw [dif_neg h]

omit [Inhabited α] in
theorem swp_perm (a : Array α) (i j : Nat) : (swp a i j).toList.Perm a.toList := by
  unfold swp
  split
  · exact (Array.swap_perm _ _).toList
  · exact List.Perm.refl _

end swp

section one
variable {α K : Type} [Inhabited α] [LinearOrder K]

/-! ### `pickBig` -/

theorem pickBig_spec (key : α → K) (un : Nat) (a : Array α) (r : Nat) :
    (pickBig key un a r = r ∨ pickBig key un a r = 2 * r + 1 ∨ pickBig key un a r = 2 * r + 2) ∧
    (pickBig key un a r ≠ r →
      pickBig key un a r < un ∧ key a[r]! < key a[pickBig key un a r]!) ∧
    (2 * r + 1 < un → key a[2 * r + 1]! ≤ key a[pickBig key un a r]!) ∧
    (2 * r + 2 < un → key a[2 * r + 2]! ≤ key a[pickBig key un a r]!) := by
  unfold pickBig
  simp only []
  by_cases hA : 2 * r + 1 < un ∧ key a[2 * r + 1]! > key a[r]!
  · rw [if_pos hA]
    by_cases hB : 2 * r + 2 < un ∧ key a[2 * r + 2]! > key a[2 * r + 1]!
    · rw [if_pos hB]
      refine ⟨Or.inr (Or.inr rfl), fun _ => ⟨hB.1, lt_trans hA.2 hB.2⟩, fun _ => le_of_lt hB.2,
        fun _ => le_refl _⟩
    · rw [if_neg hB]
      refine ⟨Or.inr (Or.inl rfl), fun _ => ⟨hA.1, hA.2⟩, fun _ => le_refl _, fun h => ?_⟩
      exact not_lt.mp (fun h' => hB ⟨h, h'⟩)
  · rw [if_neg hA]
    by_cases hB : 2 * r + 2 < un ∧ key a[2 * r + 2]! > key a[r]!
    · rw [if_pos hB]
      refine ⟨Or.inr (Or.inr rfl), fun _ => ⟨hB.1, hB.2⟩, fun h => ?_, fun _ => le_refl _⟩
      exact le_trans (not_lt.mp (fun h' => hA ⟨h, h'⟩)) (le_of_lt hB.2)
    · rw [if_neg hB]
      refine ⟨Or.inl rfl, fun h => absurd rfl h, fun h => ?_, fun h => ?_⟩
      · exact not_lt.mp (fun h' => hA ⟨h, h'⟩)
      · exact not_lt.mp (fun h' => hB ⟨h, h'⟩)

/-! ### `heapify` -/

theorem heapify_size (key : α → K) (un : Nat) (a : Array α) (r : Nat) :
    (heapify key un a r).size = a.size := by
  induction a, r using heapify.induct_unfolding (key := key) (un := un) with
  | case1 a r h ih => rw [ih, size_swp]
  | case2 a r h => rfl

theorem heapify_perm (key : α → K) (un : Nat) (a : Array α) (r : Nat) :
    (heapify key un a r).toList.Perm a.toList := by
  induction a, r using heapify.induct_unfolding (key := key) (un := un) with
  | case1 a r h ih => exact ih.trans (swp_perm _ _ _)
  | case2 a r h => exact List.Perm.refl _

/-- slots at and after `un` are not touched -/
theorem heapify_frame (key : α → K) (un : Nat) (a : Array α) (r : Nat) (k : Nat) (hk : un ≤ k) :
    (heapify key un a r)[k]! = a[k]! := by
  induction a, r using heapify.induct_unfolding (key := key) (un := un) with
  | case1 a r h ih =>
    have := pickBig_range key un a r
    rw [ih, getElem!_swp_of_ne] <;> omega
  | case2 a r h => rfl

/-- any property of all the first `un` elements survives -/
theorem heapify_all (P : α → Prop) (key : α → K) (un : Nat) (a : Array α) (r : Nat)
    (hun : un ≤ a.size) (hP : ∀ i, i < un → P a[i]!) :
    ∀ i, i < un → P (heapify key un a r)[i]! := by
  induction a, r using heapify.induct_unfolding (key := key) (un := un) with
  | case1 a r h ih =>
    have hr := pickBig_range key un a r
    apply ih (by rw [size_swp]; exact hun)
    intro i hi
    rw [getElem!_swp a _ _ i (by omega) (by omega)]
    split
    · exact hP _ (by omega)
    · split
      · exact hP _ (by omega)
      · exact hP _ hi
  | case2 a r h => exact hP

/-- the max-heap condition at node `i` of the heap on the first `un` slots -/
def HeapAt (key : α → K) (un : Nat) (a : Array α) (i : Nat) : Prop :=
  (2 * i + 1 < un → key a[2 * i + 1]! ≤ key a[i]!) ∧ (2 * i + 2 < un → key a[2 * i + 2]! ≤ key a[i]!)

/-- sift-down: if every node from `lo` on except `r` is a heap node, and the children of `r` are
    below the parent of `r` (when that parent is `≥ lo`), then afterwards every node from `lo` on
    is a heap node -/
theorem heapify_heap (key : α → K) (un lo : Nat) (a : Array α) (r : Nat)
    (hr : r < un) (hun : un ≤ a.size) (hlo : lo ≤ r)
    (h1 : ∀ i, lo ≤ i → i ≠ r → HeapAt key un a i)
    (h2 : ∀ i, lo ≤ i → (2 * i + 1 = r ∨ 2 * i + 2 = r) →
      ∀ c, (c = 2 * r + 1 ∨ c = 2 * r + 2) → c < un → key a[c]! ≤ key a[i]!) :
    ∀ i, lo ≤ i → HeapAt key un (heapify key un a r) i := by
  induction a, r using heapify.induct_unfolding (key := key) (un := un) with
  | case2 a r h =>
    have hc : pickBig key un a r = r := Decidable.not_not.mp h
    obtain ⟨_, _, hL, hR⟩ := pickBig_spec key un a r
    rw [hc] at hL hR
    intro i hi
    by_cases hir : i = r
    · subst hir; exact ⟨hL, hR⟩
    · exact h1 i hi hir
  | case1 a r h ih =>
    obtain ⟨hcc, hne, hL, hR⟩ := pickBig_spec key un a r
    obtain ⟨hcu, hlt⟩ := hne h
    generalize pickBig key un a r = c at *
    have hrs : r < a.size := by omega
    have hcs : c < a.size := by omega
    have hgr : (swp a r c)[r]! = a[c]! := getElem!_swp_left a r c hrs hcs
    have hgc : (swp a r c)[c]! = a[r]! := getElem!_swp_right a r c hrs hcs
    have hgo : ∀ k, k ≠ r → k ≠ c → (swp a r c)[k]! = a[k]! :=
      fun k hk1 hk2 => getElem!_swp_of_ne a r c k hk1 hk2
    have hcr : c = 2 * r + 1 ∨ c = 2 * r + 2 := by
      rcases hcc with h' | h' | h'
      · exact absurd h' h
      · exact Or.inl h'
      · exact Or.inr h'
    apply ih hcu (by rw [size_swp]; exact hun) (by omega)
    · -- every node other than `c` is a heap node of the swapped array
      intro i hi hic
      by_cases hir : i = r
      · subst hir
        refine ⟨fun hlt1 => ?_, fun hlt2 => ?_⟩
        · rw [hgr]
          by_cases hk : 2 * i + 1 = c
          · rw [hk, hgc]; exact le_of_lt hlt
          · rw [hgo _ (by omega) hk]; exact hL hlt1
        · rw [hgr]
          by_cases hk : 2 * i + 2 = c
          · rw [hk, hgc]; exact le_of_lt hlt
          · rw [hgo _ (by omega) hk]; exact hR hlt2
      · rw [HeapAt, hgo i hir hic]
        refine ⟨fun hlt1 => ?_, fun hlt2 => ?_⟩
        · by_cases hk : 2 * i + 1 = r
          · rw [hk, hgr]; exact h2 i hi (Or.inl hk) c hcr hcu
          · rw [hgo _ hk (by omega)]; exact (h1 i hi hir).1 hlt1
        · by_cases hk : 2 * i + 2 = r
          · rw [hk, hgr]; exact h2 i hi (Or.inr hk) c hcr hcu
          · rw [hgo _ hk (by omega)]; exact (h1 i hi hir).2 hlt2
    · -- the children of `c` are below the parent `r` of `c`
      intro i hi hch c' hc' hc'u
      have hir : i = r := by omega
      subst hir
      rw [hgr, hgo c' (by omega) (by omega)]
      have hh := h1 c (by omega) h
      rcases hc' with e | e
      · rw [e]; exact hh.1 (by omega)
      · rw [e]; exact hh.2 (by omega)

/-- in a heap the root is the maximum -/
theorem heap_root_max (key : α → K) (m : Nat) (a : Array α) (hH : ∀ i, HeapAt key m a i) :
    ∀ i, i < m → key a[i]! ≤ key a[0]! := by
  intro i
  induction i using Nat.strongRecOn with
  | _ i ih =>
    intro hi
    by_cases h0 : i = 0
    · subst h0; exact le_refl _
    · have hp := ih ((i - 1) / 2) (by omega) (by omega)
      refine le_trans ?_ hp
      have hh := hH ((i - 1) / 2)
      by_cases hq : (i - 1) % 2 = 0
      · have e : 2 * ((i - 1) / 2) + 1 = i := by omega
        have := hh.1 (by omega)
        rwa [e] at this
      · have e : 2 * ((i - 1) / 2) + 2 = i := by omega
        have := hh.2 (by omega)
        rwa [e] at this

/-! ### the build loop -/

theorem buildLoop_size (key : α → K) (un k : Nat) (a : Array α) :
    (buildLoop key un k a).size = a.size := by
  induction k generalizing a with
  | zero => rfl
  | succ k ih => rw [buildLoop, ih, heapify_size]

theorem buildLoop_perm (key : α → K) (un k : Nat) (a : Array α) :
    (buildLoop key un k a).toList.Perm a.toList := by
  induction k generalizing a with
  | zero => exact List.Perm.refl _
  | succ k ih => rw [buildLoop]; exact (ih _).trans (heapify_perm _ _ _ _)

theorem buildLoop_frame (key : α → K) (un k : Nat) (a : Array α) (j : Nat) (hj : un ≤ j) :
    (buildLoop key un k a)[j]! = a[j]! := by
  induction k generalizing a with
  | zero => rfl
  | succ k ih => rw [buildLoop, ih, heapify_frame _ _ _ _ _ hj]

theorem buildLoop_heap (key : α → K) (un k : Nat) (a : Array α) (hun : un ≤ a.size) (hk : k ≤ un)
    (h : ∀ i, k ≤ i → HeapAt key un a i) : ∀ i, HeapAt key un (buildLoop key un k a) i := by
  induction k generalizing a with
  | zero => exact fun i => h i (Nat.zero_le _)
  | succ k ih =>
    rw [buildLoop]
    apply ih _ (by rw [heapify_size]; exact hun) (by omega)
    apply heapify_heap key un k a k (by omega) hun (Nat.le_refl _)
    · intro i hi hik
      exact h i (by omega)
    · intro i hi hch
      omega

/-! ### the sort loop -/

theorem sortLoop_size (key : α → K) (n : Nat) (a : Array α) :
    (sortLoop key n a).size = a.size := by
  induction n generalizing a with
  | zero => rfl
  | succ n ih => rw [sortLoop, ih, heapify_size, size_swp]

theorem sortLoop_perm (key : α → K) (n : Nat) (a : Array α) :
    (sortLoop key n a).toList.Perm a.toList := by
  induction n generalizing a with
  | zero => exact List.Perm.refl _
  | succ n ih =>
    rw [sortLoop]
    exact ((ih _).trans (heapify_perm _ _ _ _)).trans (swp_perm _ _ _)

theorem sortLoop_frame (key : α → K) (n : Nat) (a : Array α) (j : Nat) (hj : n < j) :
    (sortLoop key n a)[j]! = a[j]! := by
  induction n generalizing a with
  | zero => rfl
  | succ n ih =>
    rw [sortLoop, ih _ (by omega), heapify_frame _ _ _ _ _ (by omega),
      getElem!_swp_of_ne _ _ _ _ (by omega) (by omega)]

/-- loop invariant of the sort phase at `ui = n`: the first `n + 1` slots are a heap, and every
    slot after `n` (below `un`) holds something at least as big as everything before it -/
theorem sortLoop_sorted (key : α → K) (un n : Nat) (a : Array α) (hn : n + 1 ≤ un)
    (hun : un ≤ a.size) (hH : ∀ i, HeapAt key (n + 1) a i)
    (hBS : ∀ i j, i < j → n < j → j < un → key a[i]! ≤ key a[j]!) :
    ∀ i j, i < j → j < un → key (sortLoop key n a)[i]! ≤ key (sortLoop key n a)[j]! := by
  induction n generalizing a with
  | zero => exact fun i j hij hj => hBS i j hij (by omega) hj
  | succ n ih =>
    rw [sortLoop]
    have h0s : 0 < a.size := by omega
    have hns : n + 1 < a.size := by omega
    have hg0 : (swp a 0 (n + 1))[0]! = a[n + 1]! := getElem!_swp_left a 0 (n + 1) h0s hns
    have hgn : (swp a 0 (n + 1))[n + 1]! = a[0]! := getElem!_swp_right a 0 (n + 1) h0s hns
    have hgo : ∀ k, k ≠ 0 → k ≠ n + 1 → (swp a 0 (n + 1))[k]! = a[k]! :=
      fun k hk1 hk2 => getElem!_swp_of_ne a 0 (n + 1) k hk1 hk2
    have hsz : n + 1 ≤ (swp a 0 (n + 1)).size := by rw [size_swp]; omega
    have hmax := heap_root_max key (n + 1 + 1) a hH
    apply ih _ (by omega) (by rw [heapify_size, size_swp]; exact hun)
    · -- heap on the first `n + 1` slots
      intro i
      refine heapify_heap key (n + 1) 0 (swp a 0 (n + 1)) 0 (by omega) hsz (Nat.le_refl _) ?_ ?_
        i (Nat.zero_le _)
      · intro i _ hi0
        refine ⟨fun hlt1 => ?_, fun hlt2 => ?_⟩
        · rw [hgo _ (by omega) (by omega), hgo i hi0 (by omega)]
          exact (hH i).1 (by omega)
        · rw [hgo _ (by omega) (by omega), hgo i hi0 (by omega)]
          exact (hH i).2 (by omega)
      · intro i _ hch
        omega
    · -- everything after slot `n` dominates everything before it
      intro i j hij hnj hj
      rw [heapify_frame key (n + 1) _ 0 j (by omega)]
      by_cases hjn : j = n + 1
      · -- slot `n + 1` now holds the old root, the maximum of the old heap
        subst hjn
        rw [hgn]
        apply heapify_all (fun x => key x ≤ key a[0]!) key (n + 1) _ 0 hsz _ i hij
        intro k hk
        by_cases hk0 : k = 0
        · subst hk0; rw [hg0]; exact hmax _ (by omega)
        · rw [hgo k hk0 (by omega)]; exact hmax _ (by omega)
      · rw [hgo j (by omega) hjn]
        by_cases hin : i < n + 1
        · apply heapify_all (fun x => key x ≤ key a[j]!) key (n + 1) _ 0 hsz _ i hin
          intro k hk
          by_cases hk0 : k = 0
          · subst hk0; rw [hg0]; exact hBS _ _ (by omega) (by omega) hj
          · rw [hgo k hk0 (by omega)]; exact hBS _ _ (by omega) (by omega) hj
        · rw [heapify_frame key (n + 1) _ 0 i (by omega)]
          by_cases hi1 : i = n + 1
          · subst hi1; rw [hgn]; exact hBS _ _ (by omega) (by omega) hj
          · rw [hgo i (by omega) hi1]; exact hBS _ _ hij (by omega) hj

/-! ### the whole sort -/

theorem heapsort_size (key : α → K) (un : Nat) (a : Array α) :
    (heapsort key un a).size = a.size := by
  rw [heapsort, sortLoop_size, buildLoop_size]

theorem heapsort_perm (key : α → K) (un : Nat) (a : Array α) :
    (heapsort key un a).toList.Perm a.toList := by
  rw [heapsort]
  exact (sortLoop_perm _ _ _).trans (buildLoop_perm _ _ _ _)

theorem heapsort_frame (key : α → K) (un : Nat) (a : Array α) (j : Nat) (hj : un ≤ j) :
    (heapsort key un a)[j]! = a[j]! := by
  rw [heapsort]
  by_cases h0 : un = 0
  · subst h0; rfl
  · rw [sortLoop_frame _ _ _ _ (by omega), buildLoop_frame _ _ _ _ _ hj]

theorem heapsort_sorted (key : α → K) (un : Nat) (a : Array α) (h : un ≤ a.size) :
    ∀ i j, i < j → j < un → key (heapsort key un a)[i]! ≤ key (heapsort key un a)[j]! := by
  intro i j hij hj
  rw [heapsort]
  apply sortLoop_sorted key un (un - 1) _ (by omega) (by rw [buildLoop_size]; exact h) _ _ i j hij hj
  · have e : un - 1 + 1 = un := by omega
    rw [e]
    apply buildLoop_heap key un (un / 2) a h (by omega)
    intro i hi
    exact ⟨fun h' => by omega, fun h' => by omega⟩
  · intro i j _ h1 h2
    omega

theorem drop_eq_of_frame (a b : Array α) (un : Nat) (hs : a.size = b.size)
    (h : ∀ j, un ≤ j → a[j]! = b[j]!) : a.toList.drop un = b.toList.drop un := by
  apply List.ext_getElem
  · simp [hs]
  · intro i h1 h2
    rw [List.getElem_drop, List.getElem_drop, Array.getElem_toList, Array.getElem_toList]
    have h1' : un + i < a.size := by
      have := h1; simp only [List.length_drop, Array.length_toList] at this; omega
    have h2' : un + i < b.size := by
      have := h2; simp only [List.length_drop, Array.length_toList] at this; omega
    have := h (un + i) (by omega)
    rwa [getElem!_pos a _ h1', getElem!_pos b _ h2'] at this

/-- the first `un` slots end up ascending by key, are a permutation of the first `un` input slots,
    and the rest of the array is untouched -/
theorem heapsort_prefix (key : α → K) (un : Nat) (a : Array α) (h : un ≤ a.size) :
    ((heapsort key un a).toList.take un).Pairwise (fun x y => key x ≤ key y) ∧
    ((heapsort key un a).toList.take un).Perm (a.toList.take un) ∧
    (heapsort key un a).toList.drop un = a.toList.drop un := by
  have hsz := heapsort_size key un a
  have hdrop := drop_eq_of_frame (heapsort key un a) a un hsz (heapsort_frame key un a)
  refine ⟨?_, ?_, hdrop⟩
  · rw [List.pairwise_iff_getElem]
    intro i j hi hj hij
    rw [List.getElem_take, List.getElem_take, Array.getElem_toList, Array.getElem_toList]
    have hj' : j < un := by
      have := hj; rw [List.length_take] at this; omega
    have := heapsort_sorted key un a h i j hij hj'
    rwa [getElem!_pos (heapsort key un a) i (by omega), getElem!_pos (heapsort key un a) j (by omega)] at this
  · have hp := heapsort_perm key un a
    rw [← List.take_append_drop un (heapsort key un a).toList, ← List.take_append_drop un a.toList,
      hdrop] at hp
    exact (List.perm_append_right_iff _).mp hp

end one

/-! ### the three-array version -/
section three
variable {K : Type}

/-- zipped view of the three arrays -/
def zip3 (s : Arr3 K) : Array (K × K × K) := s.1.zip (s.2.1.zip s.2.2)

/-- the two ride-along arrays are as long as the key array -/
def Sz3 (s : Arr3 K) : Prop := s.2.1.size = s.1.size ∧ s.2.2.size = s.1.size

theorem size_zip3 (s : Arr3 K) (h : Sz3 s) : (zip3 s).size = s.1.size := by
  simp [zip3, Array.size_zip, h.1, h.2]

theorem Sz3_swp3 (s : Arr3 K) (h : Sz3 s) (i j : Nat) : Sz3 (swp3 s i j) := by
  simp [Sz3, swp3, h.1, h.2]

theorem swp_of_not {α : Type} (a : Array α) (i j : Nat) (h : ¬ (i < a.size ∧ j < a.size)) :
    swp a i j = a := by
  unfold swp
  rw [dif_neg h]

theorem ext_getElem! {α : Type} [Inhabited α] (a b : Array α) (hs : a.size = b.size)
    (h : ∀ k, k < a.size → a[k]! = b[k]!) : a = b := by
  apply Array.ext hs
  intro k h1 h2
  have := h k h1
  rwa [getElem!_pos a k h1, getElem!_pos b k h2] at this

variable [Inhabited K]

theorem getElem!_zip3 (s : Arr3 K) (h : Sz3 s) (k : Nat) :
    (zip3 s)[k]! = (s.1[k]!, s.2.1[k]!, s.2.2[k]!) := by
  by_cases hk : k < s.1.size
  · have hk' : k < (zip3 s).size := by rw [size_zip3 s h]; exact hk
    have hk1 : k < s.2.1.size := by rw [h.1]; exact hk
    have hk2 : k < s.2.2.size := by rw [h.2]; exact hk
    rw [getElem!_pos (zip3 s) k hk', getElem!_pos s.1 k hk, getElem!_pos s.2.1 k hk1,
      getElem!_pos s.2.2 k hk2]
    simp [zip3]
  · have hk' : ¬ k < (zip3 s).size := by rw [size_zip3 s h]; exact hk
    have hk1 : ¬ k < s.2.1.size := by rw [h.1]; exact hk
    have hk2 : ¬ k < s.2.2.size := by rw [h.2]; exact hk
    rw [getElem!_neg (zip3 s) k hk', getElem!_neg s.1 k hk, getElem!_neg s.2.1 k hk1,
      getElem!_neg s.2.2 k hk2]
    rfl

theorem zip3_swp3 (s : Arr3 K) (h : Sz3 s) (i j : Nat) :
    zip3 (swp3 s i j) = swp (zip3 s) i j := by
  by_cases hij : i < s.1.size ∧ j < s.1.size
  · have hz := size_zip3 s h
    apply ext_getElem!
    · rw [size_swp, size_zip3 _ (Sz3_swp3 s h i j), hz]; simp [swp3]
    · intro k _
      rw [getElem!_zip3 _ (Sz3_swp3 s h i j), getElem!_swp (zip3 s) i j k (by omega) (by omega)]
      simp only [swp3]
      rw [getElem!_swp s.1 i j k hij.1 hij.2,
        getElem!_swp s.2.1 i j k (by rw [h.1]; exact hij.1) (by rw [h.1]; exact hij.2),
        getElem!_swp s.2.2 i j k (by rw [h.2]; exact hij.1) (by rw [h.2]; exact hij.2),
        getElem!_zip3 s h, getElem!_zip3 s h, getElem!_zip3 s h]
      split
      · rfl
      · split <;> rfl
  · rw [swp_of_not (zip3 s) i j (by rw [size_zip3 s h]; exact hij)]
    unfold swp3
    rw [swp_of_not s.1 i j hij, swp_of_not s.2.1 i j (by rw [h.1]; exact hij),
      swp_of_not s.2.2 i j (by rw [h.2]; exact hij)]

variable [LinearOrder K]

theorem pickBig_zip3 (un : Nat) (s : Arr3 K) (h : Sz3 s) (r : Nat) :
    pickBig (fun p : K × K × K => p.1) un (zip3 s) r = pickBig id un s.1 r := by
  unfold pickBig
  simp only [getElem!_zip3 s h, id]

theorem heapify3_zip (un : Nat) (s : Arr3 K) (r : Nat) (h : Sz3 s) :
    zip3 (heapify3 un s r) = heapify (fun p : K × K × K => p.1) un (zip3 s) r ∧
    (heapify3 un s r).1.size = s.1.size ∧ Sz3 (heapify3 un s r) := by
  induction s, r using heapify3.induct (K := K) (un := un) with
  | case1 s r hne ih =>
    obtain ⟨e1, e2, e3⟩ := ih (Sz3_swp3 s h _ _)
    have hp := pickBig_zip3 un s h r
    rw [heapify3, dif_pos hne, heapify, dif_pos (by rw [hp]; exact hne), hp, ← zip3_swp3 s h]
    refine ⟨e1, ?_, e3⟩
    rw [e2]
    simp [swp3]
  | case2 s r hne =>
    have hp := pickBig_zip3 un s h r
    rw [heapify3, dif_neg hne, heapify, dif_neg (by rw [hp]; exact hne)]
    exact ⟨rfl, rfl, h⟩

theorem buildLoop3_zip (un k : Nat) (s : Arr3 K) (h : Sz3 s) :
    zip3 (buildLoop3 un k s) = buildLoop (fun p : K × K × K => p.1) un k (zip3 s) ∧
    (buildLoop3 un k s).1.size = s.1.size ∧ Sz3 (buildLoop3 un k s) := by
  induction k generalizing s with
  | zero => exact ⟨rfl, rfl, h⟩
  | succ k ih =>
    obtain ⟨e1, e2, e3⟩ := heapify3_zip un s k h
    obtain ⟨f1, f2, f3⟩ := ih _ e3
    rw [buildLoop3, buildLoop, ← e1]
    exact ⟨f1, by rw [f2, e2], f3⟩

theorem sortLoop3_zip (n : Nat) (s : Arr3 K) (h : Sz3 s) :
    zip3 (sortLoop3 n s) = sortLoop (fun p : K × K × K => p.1) n (zip3 s) ∧
    (sortLoop3 n s).1.size = s.1.size ∧ Sz3 (sortLoop3 n s) := by
  induction n generalizing s with
  | zero => exact ⟨rfl, rfl, h⟩
  | succ n ih =>
    have hs := Sz3_swp3 s h 0 (n + 1)
    obtain ⟨e1, e2, e3⟩ := heapify3_zip (n + 1) _ 0 hs
    obtain ⟨f1, f2, f3⟩ := ih _ e3
    rw [sortLoop3, sortLoop, ← zip3_swp3 s h, ← e1]
    refine ⟨f1, ?_, f3⟩
    rw [f2, e2]
    simp [swp3]

set_option linter.unusedVariables false in
/-- the three-array sort is the one-array sort of the zipped triples, keyed on the first
    component; the three sizes are preserved (`hun` is not needed) -/
theorem heapsort3_zip (un : Nat) (s : Arr3 K) (h1 : s.2.1.size = s.1.size)
    (h2 : s.2.2.size = s.1.size) (hun : un ≤ s.1.size) :
    zip3 (heapsort3 un s) = heapsort (fun p : K × K × K => p.1) un (zip3 s) ∧
    (heapsort3 un s).1.size = s.1.size ∧ (heapsort3 un s).2.1.size = s.1.size ∧
    (heapsort3 un s).2.2.size = s.1.size := by
  have h : Sz3 s := ⟨h1, h2⟩
  obtain ⟨e1, e2, e3⟩ := buildLoop3_zip un (un / 2) s h
  obtain ⟨f1, f2, f3⟩ := sortLoop3_zip (un - 1) _ e3
  rw [heapsort3, heapsort, ← e1]
  refine ⟨f1, by rw [f2, e2], ?_, ?_⟩
  · rw [f3.1, f2, e2]
  · rw [f3.2, f2, e2]

end three

end CimbaModel.Stats
