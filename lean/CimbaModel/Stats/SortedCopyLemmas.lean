/-
  The sorted copies that the median / five-number routines work on
  (`cmb_dataset_copy` + `cmb_dataset_sort`, `cmb_timeseries_copy` + `cmb_timeseries_sort_x`):
  defined for every well-formed object, ascending, and a permutation of the live samples
  (of the live (x, t, w) triples for a series).
-/
import CimbaModel.Stats.SortLemmas
import CimbaModel.Stats.ArraysLemmas
import CimbaModel.Stats.Median

namespace CimbaModel.Stats
set_option linter.unusedSectionVars false

section
variable {K : Type} [Inhabited K] [LinearOrder K]

theorem take_zip {α β : Type} (l₁ : List α) (l₂ : List β) (n : Nat) :
    (l₁.zip l₂).take n = (l₁.take n).zip (l₂.take n) := by
  induction l₁ generalizing l₂ n with
  | nil => simp
  | cons a l₁ ih =>
    cases l₂ with
    | nil => simp
    | cons b l₂ =>
      cases n with
      | zero => simp
      | succ n => simp [ih]

/-- the sorted working copy of a dataset -/
theorem DS.sortedCopy_spec [OfNat K 0] (s : DS K) (h : s.WF) :
    ∃ v, s.sortedCopy = some v ∧ v.size = s.count ∧ v.toList.Pairwise (· ≤ ·) ∧ v.toList.Perm s.samples := by
  obtain ⟨c, hc, cw, csm, cc, ccs, _, _⟩ := DS.copy_spec s h
  have hle : c.count ≤ c.xa.size := by rw [cw.1]; exact cw.2
  obtain ⟨p1, p2, _⟩ := heapsort_prefix (id : K → K) c.count c.xa hle
  have hsz : (heapsort (id : K → K) c.count c.xa).size = c.xa.size := heapsort_size _ _ _
  have htl : ((heapsort (id : K → K) c.count c.xa).extract 0 c.count).toList
      = (heapsort (id : K → K) c.count c.xa).toList.take c.count := by
    simp [Array.toList_extract, List.extract_eq_take_drop]
  refine ⟨(heapsort id c.count c.xa).extract 0 c.count, by simp [DS.sortedCopy, hc], ?_, ?_, ?_⟩
  · simp [hsz]; omega
  · rw [htl]; exact p1
  · rw [htl]; exact csm ▸ p2

end

section
variable {K : Type} [Inhabited K] [LinearOrder K] [Sub K] [OfNat K 0]

theorem toList_zip3 (s : Arr3 K) : (zip3 s).toList = s.1.toList.zip (s.2.1.toList.zip s.2.2.toList) := by
  simp [zip3, Array.toList_zip]

/-- the sorted working copy of a time series: three lists of `count` entries, ascending in x, whose
    zipped (x, t, w) triples are a permutation of the live triples of the series -/
theorem TS.sortedCopy_spec (s : TS K) (h : s.WF) :
    ∃ xs ts ws, s.sortedCopy = some (xs, ts, ws) ∧ xs.length = s.ds.count ∧ ts.length = s.ds.count ∧
      ws.length = s.ds.count ∧ xs.Pairwise (· ≤ ·) ∧ (xs.zip (ts.zip ws)).Perm s.triples := by
  obtain ⟨c, hc, ⟨cdw, cta, cwa⟩, ctr, cc, ccs, _, _⟩ := TS.copy_spec s h
  have hle : c.ds.count ≤ c.ds.xa.size := by rw [cdw.1]; exact cdw.2
  have e1 : c.ta.size = c.ds.xa.size := by rw [cta, cdw.1]
  have e2 : c.wa.size = c.ds.xa.size := by rw [cwa, cdw.1]
  obtain ⟨hz, s1, s2, s3⟩ := heapsort3_zip c.ds.count (c.ds.xa, c.ta, c.wa) e1 e2 hle
  have hzs : (zip3 (c.ds.xa, c.ta, c.wa)).size = c.ds.xa.size := by
    simp [zip3, Array.size_zip, e1, e2]
  obtain ⟨p1, p2, _⟩ := heapsort_prefix (fun p : K × K × K => p.1) c.ds.count (zip3 (c.ds.xa, c.ta, c.wa))
    (by rw [hzs]; exact hle)
  rw [← hz, toList_zip3, take_zip, take_zip] at p1 p2
  rw [toList_zip3, take_zip, take_zip] at p2
  let r := heapsort3 c.ds.count (c.ds.xa, c.ta, c.wa)
  have l1 : (r.1.toList.take c.ds.count).length = c.ds.count := by
    simp [r, List.length_take, s1]; omega
  have l2 : (r.2.1.toList.take c.ds.count).length = c.ds.count := by
    simp [r, List.length_take, s2]; omega
  have l3 : (r.2.2.toList.take c.ds.count).length = c.ds.count := by
    simp [r, List.length_take, s3]; omega
  refine ⟨r.1.toList.take c.ds.count, r.2.1.toList.take c.ds.count, r.2.2.toList.take c.ds.count,
    by simp [TS.sortedCopy, hc, r], by rw [l1, cc], by rw [l2, cc], by rw [l3, cc], ?_, ?_⟩
  · have := List.Pairwise.map (fun p : K × K × K => p.1) (S := fun a b : K => a ≤ b) (fun a b hab => hab) p1
    rwa [List.map_fst_zip (by simp only [List.length_zip]; rw [l1, l2, l3]; simp)] at this
  · have : s.triples = c.triples := ctr.symm
    rw [this]
    exact p2

end
end CimbaModel.Stats
