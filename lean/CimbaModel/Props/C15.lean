/-
  C15 — after seeding, the values returned by any fixed sequence of generator / distribution calls are a function of
  the seed alone (not of what was drawn before seeding, not of the calling thread, not of what other threads do); the
  raw stream is the documented sfc64, bootstrapped with splitmix64 and 20 discarded outputs.

  Property theorems only.  All definitions named `cmb_random_*`, `splitmix*`, `RngState`, `rngInventory`, … are
  REGENERATED from /repo/src/cmb_random.c on every run (Generated/Rng.lean); `Spec.*` is written from the published
  algorithms (Rng/Spec.lean).
-/
import CimbaModel.Rng.Lemmas
import CimbaModel.Generated.FpEnv

set_option linter.unusedSimpArgs false

namespace CimbaModel.Props.C15
open CimbaModel.Generated CimbaModel.Rng

/-! ## 1. The raw stream is the documented generator -/

/-- `cmb_random_sfc64` returns what the published sfc64 returns on the state held in `prng_state`, replaces that state by
    sfc64's next state, and touches nothing else -/
theorem sfc64_is_spec (s : RngState) :
    (cmb_random_sfc64 s).1 = (core s).next.1 ∧ (cmb_random_sfc64 s).2 = setCore s (core s).next.2 :=
  sfc64_spec s

/-- the static `splitmix64` is Vigna's splitmix64 on `splitmix_state`, and touches nothing else -/
theorem splitmix_is_spec (s : RngState) :
    (splitmix64 s).1 = (Spec.splitmix64 s.splitmix_state).1 ∧
    (splitmix64 s).2 = { s with splitmix_state := (Spec.splitmix64 s.splitmix_state).2 } :=
  splitmix_spec s

/-- seeding, from ANY prior state: the 256-bit state is four splitmix64 outputs (a, b, c, counter in that order) followed
    by 20 discarded sfc64 outputs; the seed is remembered -/
theorem init_is_documented (seed : UInt64) (s : RngState) :
    core (cmb_random_initialize seed s) = Spec.seed256 seed ∧
    (cmb_random_curseed (cmb_random_initialize seed s)).1 = seed := by
  unfold cmb_random_initialize
  refine ⟨?_, ?_⟩
  · rw [repeat_commute core _ (fun g => g.next.2) (fun a => by simp [(sfc64_spec a).2])]
    simp [Spec.seed256, Spec.discards, Spec.bootstrap, core, splitmix_initialize, (splitmix_spec _).1, (splitmix_spec _).2]
  · rw [repeat_commute (fun s => (cmb_random_curseed s).1) _ id
      (fun a => by simp [cmb_random_curseed, (sfc64_spec a).2, setCore])]
    simp [repeat_id, cmb_random_curseed, splitmix_initialize, (splitmix_spec _).2]

/-- hence the raw 64-bit stream after seeding is the documented one, whatever the thread did before -/
theorem raw_stream_is_documented (seed : UInt64) (s : RngState) (n : Nat) :
    runCalls (cmb_random_initialize seed s) (List.replicate n .raw) = (Spec.stream seed n).map .word := by
  have h : ∀ (n : Nat) (t : RngState), runCalls t (List.replicate n .raw) = (Spec.outputs (core t) n).map .word := by
    intro n; induction n with
    | zero => intro t; rfl
    | succ n ih =>
      intro t
      simp [List.replicate, runCalls, step, Spec.outputs, ih, (sfc64_spec t).1, (sfc64_spec t).2]
  rw [h, (init_is_documented seed s).1, Spec.stream]

/-! ## 2. Re-seeding forgets the history of the thread -/

/-- the generated read set is sound: a call's result and the read set of the next state depend on the read set only -/
theorem step_respects (c : Call) (s t : RngState) (h : s.AgreeOnReads t) :
    (step c s).1 = (step c t).1 ∧ (step c s).2.AgreeOnReads (step c t).2 := by
  cases s; cases t
  cases c <;>
    simp_all [step, RngState.AgreeOnReads, cmb_random_sfc64, cmb_random_flip, cmb_random_curseed, cmb_random_terminate] <;>
    split <;> simp_all

theorem runCalls_respects (calls : List Call) : ∀ (s t : RngState), s.AgreeOnReads t → runCalls s calls = runCalls t calls := by
  induction calls with
  | nil => intros; rfl
  | cons c cs ih =>
    intro s t h
    have hs := step_respects c s t h
    simp [runCalls, hs.1, ih _ _ hs.2]

/-- `cmb_random_initialize` overwrites every state variable that a later call can read, with a value that depends on the
    seed only -/
theorem init_overwrites_reads (seed : UInt64) (s₁ s₂ : RngState) :
    (cmb_random_initialize seed s₁).AgreeOnReads (cmb_random_initialize seed s₂) := by
  unfold cmb_random_initialize
  apply repeat_rel RngState.AgreeOnReads
  · intro a b hab
    exact (step_respects .raw a b hab).2
  · cases s₁; cases s₂
    simp [RngState.AgreeOnReads, splitmix_initialize, splitmix64]

/-- C15, first sentence, for the integer-only calls: whatever two histories left behind (s₁, s₂: ANY contents of every
    static, thread-local and function-static variable the calls touch, including a partially consumed bit cache), after
    seeding with the same seed the same calls return the same values -/
theorem reseed_forgets (s₁ s₂ : RngState) (seed : UInt64) (calls : List Call) :
    runCalls (cmb_random_initialize seed s₁) calls = runCalls (cmb_random_initialize seed s₂) calls :=
  runCalls_respects calls _ _ (init_overwrites_reads seed s₁ s₂)

/-! ## 3. Threads: every piece of mutable state is thread-local -/

/-- every variable with static storage duration that cmb_random.c (with the repository headers and the generated tables it
    includes) declares is thread-local, or const, or a never-written never-address-taken file-local literal on the
    allow-list (keyed by name and scope): nothing a sampler reads can be changed by another thread -/
theorem all_state_thread_local : rngInventory.all VarInfo.threadSafe = true := by decide

/-- every thread-local variable is accounted for (allow-list keyed by name AND function): it is part of the modelled state,
    which `cmb_random_initialize` overwrites in full, which `reseed_forgets` speaks about and which NO function other than the
    translated ones reads or writes (so every sampler reaches the generator only through `cmb_random_sfc64`); or a function-static memo only
    touched by its own function (argued in Rng/Inventory.lean, proved pure in §4); or foreign and unused -/
theorem thread_locals_classified :
    rngInventory.all (VarInfo.reseedOk rngStateVars rngSeedWrittenVars rngMemoVars rngTranslated) = true := by decide

/-- the state record of the model covers exactly inventory entries (no field invented by the translator) -/
theorem state_vars_in_inventory : rngStateVars.all (fun k => rngInventory.any (fun v => v.key == k)) = true := by decide

/-- the read set used in `reseed_forgets` is what `cmb_random_initialize` writes: every field a call reads is assigned by
    seeding (the syntactic counterpart of `init_overwrites_reads`) -/
theorem reads_subset_seed_writes : rngReadSet.all (fun f => rngSeedWrites.contains f) = true := by decide

/-! ## 4. The model's shifts are the C program's shifts

  `(bits >> --bitpos)`: C leaves a shift by 64 or more undefined, Lean's `>>>` on `UInt64` reduces the amount modulo 64.
  The two agree because the cache position never exceeds 64 (these three statements name the cache variable of the
  repaired source, `flip_bitpos`; the shift amount is the decremented position). -/

/-- the cache position stays within 0..64: initially, after seeding, after every call -/
theorem flip_pos_invariant :
    RngState.init.flip_bitpos ≤ 64 ∧
    (∀ seed s, (cmb_random_initialize seed s).flip_bitpos ≤ 64) ∧
    (∀ c s, s.flip_bitpos ≤ 64 → (step c s).2.flip_bitpos ≤ 64) := by
  refine ⟨by decide, ?_, ?_⟩
  · intro seed s
    unfold cmb_random_initialize
    rw [repeat_commute (fun (s : RngState) => s.flip_bitpos) _ id (fun a => by simp [(sfc64_spec a).2, setCore])]
    simp [repeat_id, splitmix_initialize, (splitmix_spec _).2]
  · intro c s h
    cases c <;> simp [step, cmb_random_curseed, cmb_random_terminate, (sfc64_spec s).2, setCore, h]
    unfold cmb_random_flip
    split
    · simp
    · rename_i h0
      simp at h0 ⊢
      exact Nat.le_of_lt (UInt8.lt_iff_toNat_lt.mp (u8_dec_lt _ h0 h))

/-- the shift amount used by `cmb_random_flip` (the decremented position) is below 64 -/
theorem flip_shift_defined (s : RngState) (h : s.flip_bitpos ≤ 64) : (cmb_random_flip s).2.flip_bitpos < 64 := by
  unfold cmb_random_flip
  split
  · simp
  · rename_i h0
    simp at h0 ⊢
    exact u8_dec_lt _ h0 h

/-! ## 5. The function-static memo caches of the floating-point samplers hold pure functions of the argument

  `cmb_random_std_gamma` (a_prev, c, d) and `cmb_random_geometric` (prev, denom) keep thread-local doubles between calls and
  `cmb_random_initialize` does not reset them.  Their maintaining statements are regenerated from the source over an ABSTRACT
  double arithmetic `o : FloatOps F` (Generated/Rng.lean `…_prologue`), and the theorems say: in every reachable cache state,
  after the prologue the WHOLE cache is the same as if the sampler were called for the first time in a fresh thread — so
  what the rest of the body reads from it depends on the argument only, not on earlier calls, seeds or trials.

  Hypotheses about `double` (stated, not assumed as axioms), both true of IEEE-754 binary64 for a valid argument `x`
  (gamma: `shape > 0.0`, release-asserted; geometric: `0 < p ≤ 1`, the documented domain, asserted in debug builds):
    h0  `x != 0.0`                                  (x > 0)
    h1  `!(x != y)` implies x and y are the same value (x == y with x > 0 finite or +inf: one encoding, not a NaN, not ±0)
    h2  `!(x + 1.0 < 1.0)`                          (x > 0: the rounded sum is at least 1.0) — used by the small-shape guard of
        `cmb_random_std_gamma`, which calls the function itself with `shape + 1.0`; hv1: `x + 1.0` is again a valid argument -/

theorem memo_is_first_call {M F : Type} (init : M) (pro : F → M → M) (valid : F → Prop)
    (hstep : ∀ x y, valid x → valid y → pro x (pro y init) = pro x init) :
    ∀ m, MemoReach init pro valid m → ∀ x, valid x → pro x m = pro x init := by
  intro m hm
  induction hm with
  | init => intros; rfl
  | call y m' hy _ ih => intro x hx; rw [ih y hy]; exact hstep x y hx hy

/-- the small-shape guard of `cmb_random_std_gamma` calls the function itself with `shape + 1`, which no longer takes the guard:
    the depth 2 at which `…_prologue` cuts the regenerated recursion is enough, any further fuel changes nothing.
    (Against a source without the guard this holds trivially.) -/
theorem gamma_memo_depth {F : Type} (o : FloatOps F) (valid : F → Prop)
    (h2 : ∀ x, valid x → o.lt (o.add x (o.lit "1")) (o.lit "1") = false)
    (m : cmb_random_std_gamma_Memo F) (shape : F) (hv : valid shape) (k : Nat) :
    cmb_random_std_gamma_prologue_fuel o (k + 2) shape m = cmb_random_std_gamma_prologue o shape m := by
  have h := h2 shape hv
  simp [cmb_random_std_gamma_prologue, cmb_random_std_gamma_prologue_fuel, h]

/-- `cmb_random_std_gamma`: whatever was drawn before, the cache after the prologue (including the recursive call behind the
    small-shape guard) is that of a first call with `shape` -/
theorem gamma_memo_pure {F : Type} (o : FloatOps F) (valid : F → Prop)
    (h0 : ∀ x, valid x → o.ne x (o.lit "0") = true) (h1 : ∀ x y, valid x → o.ne x y = false → x = y)
    (h2 : ∀ x, valid x → o.lt (o.add x (o.lit "1")) (o.lit "1") = false)
    (hv1 : ∀ x, valid x → valid (o.add x (o.lit "1")))
    (m₁ m₂ : cmb_random_std_gamma_Memo F) (shape : F)
    (r₁ : MemoReach (cmb_random_std_gamma_Memo.init o) (cmb_random_std_gamma_prologue o) valid m₁)
    (r₂ : MemoReach (cmb_random_std_gamma_Memo.init o) (cmb_random_std_gamma_prologue o) valid m₂) (hv : valid shape) :
    cmb_random_std_gamma_prologue o shape m₁ = cmb_random_std_gamma_prologue o shape m₂ := by
  have hstep : ∀ x y, valid x → valid y →
      cmb_random_std_gamma_prologue o x (cmb_random_std_gamma_prologue o y (cmb_random_std_gamma_Memo.init o)) =
      cmb_random_std_gamma_prologue o x (cmb_random_std_gamma_Memo.init o) := by
    intro x y hx hy
    have hx0 := h0 x hx
    have hy0 := h0 y hy
    have hx1 := h0 _ (hv1 x hx)
    have hy1 := h0 _ (hv1 y hy)
    have hx2 := h2 x hx
    have hy2 := h2 y hy
    -- the value the cache is computed for: the argument itself, or argument + 1 behind the small-shape guard (first
    -- alternative); a source without the guard computes it for the argument in every case (second alternative)
    by_cases lx : o.lt x (o.lit "1") = true <;> by_cases ly : o.lt y (o.lit "1") = true
    · first
      | (by_cases hne : o.ne (o.add x (o.lit "1")) (o.add y (o.lit "1")) = true
         · simp [cmb_random_std_gamma_prologue, cmb_random_std_gamma_prologue_fuel, cmb_random_std_gamma_Memo.init, *]
         · have hxy := h1 _ _ (hv1 x hx) (by simpa using hne)
           simp [cmb_random_std_gamma_prologue, cmb_random_std_gamma_prologue_fuel, cmb_random_std_gamma_Memo.init, *])
      | (by_cases hne : o.ne x y = true
         · simp [cmb_random_std_gamma_prologue, cmb_random_std_gamma_prologue_fuel, cmb_random_std_gamma_Memo.init, *]
         · have hxy := h1 x y hx (by simpa using hne)
           subst hxy
           simp [cmb_random_std_gamma_prologue, cmb_random_std_gamma_prologue_fuel, cmb_random_std_gamma_Memo.init, *])
    · first
      | (by_cases hne : o.ne (o.add x (o.lit "1")) y = true
         · simp [cmb_random_std_gamma_prologue, cmb_random_std_gamma_prologue_fuel, cmb_random_std_gamma_Memo.init, *]
         · have hxy := h1 _ _ (hv1 x hx) (by simpa using hne)
           simp [cmb_random_std_gamma_prologue, cmb_random_std_gamma_prologue_fuel, cmb_random_std_gamma_Memo.init, *])
      | (by_cases hne : o.ne x y = true
         · simp [cmb_random_std_gamma_prologue, cmb_random_std_gamma_prologue_fuel, cmb_random_std_gamma_Memo.init, *]
         · have hxy := h1 x y hx (by simpa using hne)
           subst hxy
           simp [cmb_random_std_gamma_prologue, cmb_random_std_gamma_prologue_fuel, cmb_random_std_gamma_Memo.init, *])
    · first
      | (by_cases hne : o.ne x (o.add y (o.lit "1")) = true
         · simp [cmb_random_std_gamma_prologue, cmb_random_std_gamma_prologue_fuel, cmb_random_std_gamma_Memo.init, *]
         · have hxy := h1 _ _ hx (by simpa using hne)
           simp [cmb_random_std_gamma_prologue, cmb_random_std_gamma_prologue_fuel, cmb_random_std_gamma_Memo.init, *])
      | (by_cases hne : o.ne x y = true
         · simp [cmb_random_std_gamma_prologue, cmb_random_std_gamma_prologue_fuel, cmb_random_std_gamma_Memo.init, *]
         · have hxy := h1 x y hx (by simpa using hne)
           subst hxy
           simp [cmb_random_std_gamma_prologue, cmb_random_std_gamma_prologue_fuel, cmb_random_std_gamma_Memo.init, *])
    · first
      | (by_cases hne : o.ne x y = true
         · simp [cmb_random_std_gamma_prologue, cmb_random_std_gamma_prologue_fuel, cmb_random_std_gamma_Memo.init, *]
         · have hxy := h1 _ _ hx (by simpa using hne)
           simp [cmb_random_std_gamma_prologue, cmb_random_std_gamma_prologue_fuel, cmb_random_std_gamma_Memo.init, *])
      | (by_cases hne : o.ne x y = true
         · simp [cmb_random_std_gamma_prologue, cmb_random_std_gamma_prologue_fuel, cmb_random_std_gamma_Memo.init, *]
         · have hxy := h1 x y hx (by simpa using hne)
           subst hxy
           simp [cmb_random_std_gamma_prologue, cmb_random_std_gamma_prologue_fuel, cmb_random_std_gamma_Memo.init, *])
  rw [memo_is_first_call _ _ valid hstep m₁ r₁ shape hv, memo_is_first_call _ _ valid hstep m₂ r₂ shape hv]

/-- `cmb_random_geometric`: likewise (`prev` is never assigned, so `denom` is recomputed from `p` on every call) -/
theorem geometric_memo_pure {F : Type} (o : FloatOps F) (valid : F → Prop)
    (h0 : ∀ x, valid x → o.ne x (o.lit "0") = true) (h1 : ∀ x y, valid x → o.ne x y = false → x = y)
    (m₁ m₂ : cmb_random_geometric_Memo F) (p : F)
    (r₁ : MemoReach (cmb_random_geometric_Memo.init o) (cmb_random_geometric_prologue o) valid m₁)
    (r₂ : MemoReach (cmb_random_geometric_Memo.init o) (cmb_random_geometric_prologue o) valid m₂) (hv : valid p) :
    cmb_random_geometric_prologue o p m₁ = cmb_random_geometric_prologue o p m₂ := by
  have hstep : ∀ x y, valid x → valid y →
      cmb_random_geometric_prologue o x (cmb_random_geometric_prologue o y (cmb_random_geometric_Memo.init o)) =
      cmb_random_geometric_prologue o x (cmb_random_geometric_Memo.init o) := by
    intro x y hx hy
    have hx0 := h0 x hx
    have hy0 := h0 y hy
    by_cases hne : o.ne x y = true
    · simp [cmb_random_geometric_prologue, cmb_random_geometric_prologue_fuel, cmb_random_geometric_Memo.init, hx0, hy0, hne]
    · have hxy := h1 x y hx (by simpa using hne)
      subst hxy
      simp [cmb_random_geometric_prologue, cmb_random_geometric_prologue_fuel, cmb_random_geometric_Memo.init, hx0, hne]
  rw [memo_is_first_call _ _ valid hstep m₁ r₁ p hv, memo_is_first_call _ _ valid hstep m₂ r₂ p hv]

/- the hypotheses h0, h1, h2, hv1 are satisfiable with valid arguments existing: integers, the literal "1" read as 1 and every other
   literal as 0, valid = positive -/
example : ∃ (o : FloatOps Int) (valid : Int → Prop),
    (∀ x, valid x → o.ne x (o.lit "0") = true) ∧ (∀ x y, valid x → o.ne x y = false → x = y) ∧
    (∀ x, valid x → o.lt (o.add x (o.lit "1")) (o.lit "1") = false) ∧ (∀ x, valid x → valid (o.add x (o.lit "1"))) ∧ valid 3 :=
  ⟨{ lit := fun s => if s = "1" then 1 else 0, add := (· + ·), sub := (· - ·), mul := (· * ·), div := (· / ·), neg := (- ·), fn := fun _ x => x,
     ne := fun a b => decide (a ≠ b), eq := fun a b => decide (a = b), lt := fun a b => decide (a < b),
     le := fun a b => decide (a ≤ b), gt := fun a b => decide (a > b), ge := fun a b => decide (a ≥ b) },
   fun x => 0 < x,
   by intro x hx; simp; omega, by intro x y _ h; simpa using h, by intro x hx; simp; omega, by intro x hx; simp; omega, by decide⟩

/-! ## 6. No thread computes with a different floating-point arithmetic

  The samplers are double computations; their values depend on the rounding mode and on the flush-to-zero / denormals-are-zero
  bits of MXCSR, which are per thread (and per coroutine: the context switch saves and restores MXCSR).  Every place where the
  library writes the control word is regenerated from the sources (Generated/FpEnv.lean: `_mm_setcsr` in
  `cimba_run_experiment`, inherited by the worker threads and left behind on the calling thread; the MXCSR a new coroutine starts
  with).  The theorem: each of them changes exception masks only — rounding stays to-nearest, subnormals are kept — so a
  worker thread, the main thread before and after an experiment, a plain pthread and a coroutine all compute the same values. -/

theorem fp_control_preserves_values : fpControlWrites.all FpWrite.valuePreserving = true := by decide

/- the inventory is not empty, and the predicate does reject a flush-to-zero / denormals-are-zero setting -/
example : fpControlWrites.any (fun w => w.function == "cimba_run_experiment") = true := by decide
example : FpWrite.valuePreserving { file := "", function := "", kind := "mxcsr", value := 0x1d00 ||| 0x8000 ||| 0x0040 } = false := by decide

/-! ## Non-vacuity and concrete values -/

/- the calls really do depend on the state, so `reseed_forgets` says something: two histories, different flips -/
example : ∃ s₁ s₂ : RngState, runCalls s₁ [.flip] ≠ runCalls s₂ [.flip] :=
  ⟨(step .flip (cmb_random_initialize 42 RngState.init)).2,
   (step .flip (step .flip (step .flip (cmb_random_initialize 42 RngState.init)).2).2).2, by decide +kernel⟩

/- the model computes the values the library returns (seed 42: first raw output, then ten coin flips — the same values as
   in corpus/rng/flip-cache-survives-reseed.txt, run 0) -/
example : runCalls (cmb_random_initialize 42 RngState.init) [.raw] = [.word 0x13554e33b8870be2] := by decide +kernel
example : runCalls (cmb_random_initialize 42 RngState.init) (List.replicate 10 .flip) =
    [0, 0, 0, 1, 0, 0, 1, 1, 0, 1].map .int := by decide +kernel
example : Spec.stream 42 2 = [0x13554e33b8870be2, 0xf42f8984b34064e0] := by decide +kernel

/- an instance of `reseed_forgets` with a partially consumed cache on one side -/
example : runCalls (cmb_random_initialize 42 (afterCalls RngState.init [.flip, .flip, .flip])) [.flip, .raw] =
          runCalls (cmb_random_initialize 42 RngState.init) [.flip, .raw] :=
  reseed_forgets _ _ 42 _

/- the inventory is not empty and contains the generator state -/
example : rngInventory.length ≥ 10 ∧ rngInventory.any (fun v => v.name == "prng_state" && v.storage == .threadLocal) = true := by
  decide

end CimbaModel.Props.C15
