/-
  C18 — sorting, copies, medians, five-number summaries, histograms, autocorrelation of datasets
  and time series.  Property theorems only (+ non-vacuity examples); the lemmas are under
  CimbaModel/Stats/*Lemmas.lean.  Every statement is for unbounded sizes.

  Models (tied to src/cmb_dataset.c, src/cmb_timeseries.c by tools/props/C18.py on every run):
    Stats/Sort.lean (heapsort, 1 and 3 arrays)   Stats/Arrays.lean (add / expand / copy)
    Stats/Median.lean   Stats/Hist.lean   Stats/Acf.lean
  The models describe the code with fixes/C18-*.patch applied (the shipped code is wrong in five
  places, see notes/C18.md); `cmb_dataset_ACF` is modelled as shipped and has two recorded findings.

  `K` is any linearly ordered field (doubles are modelled by exact arithmetic, DESIGN.md §2.6);
  histograms are over `ℚ` (they need `floor`).
-/
import CimbaModel.Stats.SortLemmas
import CimbaModel.Stats.ArraysLemmas
import CimbaModel.Stats.SummaryLemmas
import CimbaModel.Stats.HistLemmas
import CimbaModel.Stats.AcfLemmas
import CimbaModel.Stats.MonitorLemmas
import CimbaModel.Stats.SeriesAddLemmas

namespace CimbaModel.Props.C18
open CimbaModel.Stats
set_option linter.unusedSectionVars false

/-! ### Sorting yields the same multiset in ascending order -/
section
variable {K : Type} [Inhabited K] [LinearOrder K]

/-- `cmb_dataset_sort` on the `un` live slots of the allocation `a`: ascending, a permutation of the
    input samples, the unused tail untouched. -/
theorem heapsort_sorted_perm (un : Nat) (a : Array K) (h : un ≤ a.size) :
    ((heapsort id un a).toList.take un).Pairwise (· ≤ ·) ∧
    ((heapsort id un a).toList.take un).Perm (a.toList.take un) ∧
    (heapsort id un a).toList.drop un = a.toList.drop un :=
  heapsort_prefix id un a h

/-- `cmb_timeseries_sort_x` (`s = (xa, ta, wa)`) and `cmb_timeseries_sort_t` (`s = (ta, xa, wa)`):
    the three arrays are permuted together — the zipped (key, d1, d2) triples of the result are
    ascending in the key and a permutation of the input triples, so every sample keeps its own time
    and weight; the unused tails are untouched and the three sizes are kept. -/
theorem heapsort3_sorted_perm (un : Nat) (s : Arr3 K) (h1 : s.2.1.size = s.1.size) (h2 : s.2.2.size = s.1.size)
    (hun : un ≤ s.1.size) :
    ((zip3 (heapsort3 un s)).toList.take un).Pairwise (fun p q => p.1 ≤ q.1) ∧
    ((zip3 (heapsort3 un s)).toList.take un).Perm ((zip3 s).toList.take un) ∧
    (zip3 (heapsort3 un s)).toList.drop un = (zip3 s).toList.drop un ∧
    (heapsort3 un s).1.size = s.1.size ∧ (heapsort3 un s).2.1.size = s.1.size ∧ (heapsort3 un s).2.2.size = s.1.size := by
  obtain ⟨hz, s1, s2, s3⟩ := heapsort3_zip un s h1 h2 hun
  have hsz : (zip3 s).size = s.1.size := by simp [zip3, Array.size_zip, h1, h2]
  obtain ⟨p1, p2, p3⟩ := heapsort_prefix (fun p : K × K × K => p.1) un (zip3 s) (by rw [hsz]; exact hun)
  rw [← hz] at p1 p2 p3
  exact ⟨p1, p2, p3, s1, s2, s3⟩

end

/-! ### Adding and copying -/
section
variable {K : Type} [Inhabited K] [LinearOrder K]

/-- `cmb_dataset_add` through any number of capacity doublings: never out of bounds, appends exactly
    the new sample, keeps `min` / `max` the extreme samples. -/
theorem add_appends (initSz : Nat) (s : DS K) (x : K) (h : s.Inv) (hi : 0 < initSz) :
    ∃ s', s.add initSz x = some s' ∧ s'.Inv ∧ s'.count = s.count + 1 ∧ s'.samples = s.samples ++ [x] :=
  DS.add_inv initSz s x h hi

/-- `cmb_dataset_copy` is exact. -/
theorem copy_exact (s : DS K) (h : s.WF) :
    ∃ c, s.copy = some c ∧ c.WF ∧ c.samples = s.samples ∧ c.count = s.count ∧ c.cursize = s.cursize ∧
      c.min = s.min ∧ c.max = s.max :=
  DS.copy_spec s h

variable [Sub K] [OfNat K 0]

/-- `cmb_timeseries_copy` (repaired) is exact on every live (x, t, w) triple and every field. -/
theorem copy_exact_series (s : TS K) (h : s.WF) :
    ∃ c, s.copy = some c ∧ c.WF ∧ c.triples = s.triples ∧ c.ds.count = s.ds.count ∧
      c.ds.cursize = s.ds.cursize ∧ c.ds.min = s.ds.min ∧ c.ds.max = s.ds.max :=
  TS.copy_spec s h

/-- … and the copy can be added to: the next `cmb_timeseries_add` stays inside all three allocations. -/
theorem copy_then_add_in_bounds (initSz : Nat) (s : TS K) (x t : K) (h : s.WF) (hi : 0 < initSz) :
    ∃ c c', s.copy = some c ∧ c.add initSz x t = some c' ∧ c'.WF ∧ c'.ds.count = s.ds.count + 1 := by
  obtain ⟨c, hc, cw, _, cc, _⟩ := TS.copy_spec s h
  obtain ⟨c', ha, w', n'⟩ := TS.add_ok initSz c x t cw hi
  exact ⟨c, c', hc, ha, w', by rw [n', cc]⟩

end

/-- `cmb_timeseries_add(x, t)` with `t` not before the last time stamp (its contract), through any number
    of capacity doublings: in bounds on all three arrays; the sample is appended with its time; all durations
    stay ≥ 0 (zero durations allowed) and the newest sample has duration 0; `min` / `max` stay the extremes.
    So the hypotheses `WF`, `MinMaxOK`, "durations ≥ 0" of the weighted theorems below hold for every series
    built by adds from an initialized one (`TS.Inv_empty`). -/
theorem series_add_keeps_invariant {K : Type} [Inhabited K] [Field K] [LinearOrder K] [IsStrictOrderedRing K]
    (initSz : Nat) (s : TS K) (x t : K) (h : s.Inv) (hi : 0 < initSz) (ht : ∀ tp, s.lastTime = some tp → tp ≤ t) :
    ∃ s', s.add initSz x t = some s' ∧ s'.Inv ∧ s'.ds.count = s.ds.count + 1 ∧
      s'.ds.samples = s.ds.samples ++ [x] ∧ s'.lastTime = some t ∧
      s'.triples.map (·.1) = s.triples.map (·.1) ++ [x] ∧
      s'.triples.map (·.2.1) = s.triples.map (·.2.1) ++ [t] :=
  TS.add_inv initSz s x t h hi ht

/-- the shipped `cmb_timeseries_copy` (time / weight arrays allocated with `count` slots): adding to the
    copy of a one-sample series writes out of bounds (no value in the model) -/
theorem shipped_copy_then_add_overflows :
    ((({} : TS Int).add 1024 1 0).bind (·.copyShipped)).bind (·.add 1024 2 1) = none := by decide +kernel

/-! ### Medians and five-number summaries -/
section
variable {K : Type} [Inhabited K] [Field K] [LinearOrder K] [IsStrictOrderedRing K]

/-- `cmb_dataset_median`: at most half of the samples lie strictly below the reported value and at
    most half strictly above it. -/
theorem median_is_median (s : DS K) (h : s.WF) (hc : 0 < s.count) (hc32 : s.count < 4294967296) :
    ∃ m, s.median = some m ∧
      2 * s.samples.countP (fun x => decide (x < m)) ≤ s.samples.length ∧
      2 * s.samples.countP (fun x => decide (m < x)) ≤ s.samples.length :=
  DS.median_spec s h hc hc32

/-- `cmb_timeseries_median` (repaired), weighted by duration: at most half of the total duration lies
    strictly below the reported value and at most half strictly above it (durations ≥ 0, zero allowed,
    any one sample may hold most of the total). -/
theorem median_is_median_weighted (s : TS K) (h : s.WF) (hc : 0 < s.ds.count) (hw : ∀ p ∈ s.triples, 0 ≤ p.2.2) :
    ∃ m, s.median = some m ∧ m ∈ s.ds.samples ∧
      2 * tBelow s.triples m ≤ tTotal s.triples ∧ 2 * tAbove s.triples m ≤ tTotal s.triples :=
  TS.median_spec s h hc hw

/-- `cmb_dataset_fivenum_print` (repaired for one sample): defined for `n ≥ 1`,
    `min ≤ Q1 ≤ median ≤ Q3 ≤ max`, `min` / `max` are the smallest / largest sample (so every value is
    inside the data range), and the median is `cmb_dataset_median`'s. -/
theorem fivenum_ordered (s : DS K) (h : s.Inv) (hc : 0 < s.count) (hc32 : s.count < 4294967296) :
    ∃ f, s.fivenum = some f ∧ f.min ≤ f.q1 ∧ f.q1 ≤ f.med ∧ f.med ≤ f.q3 ∧ f.q3 ≤ f.max ∧
      f.min ∈ s.samples ∧ f.max ∈ s.samples ∧ (∀ x ∈ s.samples, f.min ≤ x ∧ x ≤ f.max) ∧
      s.median = some f.med :=
  DS.fivenum_spec s h hc hc32

/-- `cmb_timeseries_fivenum_print` (repaired): the same for the duration-weighted summary. -/
theorem fivenum_ordered_weighted (s : TS K) (h : s.WF) (hmm : s.ds.MinMaxOK) (hc : 0 < s.ds.count)
    (hw : ∀ p ∈ s.triples, 0 ≤ p.2.2) :
    ∃ f, s.fivenum = some f ∧ f.min ≤ f.q1 ∧ f.q1 ≤ f.med ∧ f.med ≤ f.q3 ∧ f.q3 ≤ f.max ∧
      f.min ∈ s.ds.samples ∧ f.max ∈ s.ds.samples ∧ (∀ x ∈ s.ds.samples, f.min ≤ x ∧ x ≤ f.max) ∧
      s.median = some f.med :=
  TS.fivenum_spec s h hmm hc hw

end

/-! ### … and in the form of the executable monitor that tools/props/C18.py evaluates on the
    implementation's answers (Monitor.C18 over exact rationals) -/

theorem median_monitor (s : DS ℚ) (h : s.WF) (hc : 0 < s.count) (hc32 : s.count < 4294967296) :
    ∃ m, s.median = some m ∧
      CimbaModel.Monitor.C18.isMedian (CimbaModel.Monitor.C18.unitWeights s.samples) m = true := by
  obtain ⟨m, hm, a, b⟩ := DS.median_spec s h hc hc32
  exact ⟨m, hm, (isMedian_unit_iff s.samples m).mpr ⟨a, b⟩⟩

theorem median_monitor_weighted (s : TS ℚ) (h : s.WF) (hc : 0 < s.ds.count) (hw : ∀ p ∈ s.triples, 0 ≤ p.2.2) :
    ∃ m, s.median = some m ∧ CimbaModel.Monitor.C18.isMedian (xwOf s.triples) m = true := by
  obtain ⟨m, hm, _, a, b⟩ := TS.median_spec s h hc hw
  exact ⟨m, hm, (isMedian_triples_iff s.triples m).mpr ⟨a, b⟩⟩

/-! ### Histograms account for every sample exactly once -/

/-- the range / bin-count preparation (explicit limits, auto-scaling, constant data — repaired — and
    out-of-range samples alike) always yields at least one bin and a non-empty range -/
theorem histogram_prepare_ok (numBins : Nat) (low high dmin dmax : Rat) (hn : 0 < numBins) (hl : low ≤ high) (hd : dmin ≤ dmax) :
    0 < (histPrepare numBins low high dmin dmax).1 ∧ (histPrepare numBins low high dmin dmax).1 ≤ numBins ∧
    (histPrepare numBins low high dmin dmax).2.1 < (histPrepare numBins low high dmin dmax).2.2 :=
  histPrepare_ok numBins low high dmin dmax hn hl hd

/-- `cmb_dataset_histogram_print`: defined for every request, `nb + 2` bins (under- and overflow included);
    bin `j` holds exactly the number of samples whose bin index is `j` (no write outside the bins), and
    the bins add up to the number of samples. -/
theorem histogram_total (xs : List Rat) (dmin dmax : Rat) (numBins : Nat) (low high : Rat)
    (hn : 0 < numBins) (hn2 : numBins < 65535) (hl : low ≤ high) (hd : dmin ≤ dmax) :
    ∃ h, histDataset xs dmin dmax numBins low high = some h ∧ h.bins.size = h.nb + 2 ∧ h.bins.toList.sum = (xs.length : Rat) ∧
      (∀ j, j < h.nb + 2 → h.bins[j]! = ((xs.filter fun x => (Hist.create h.nb h.low h.high).binOf x = j).length : Rat)) :=
  histDataset_total xs dmin dmax numBins low high hn hn2 hl hd

/-- `cmb_timeseries_histogram_print`: every sample but the last (which has no duration yet) is counted
    with its full weight in exactly one bin; the bins add up to the total weight. -/
theorem histogram_total_weighted (xw : List (Rat × Rat)) (dmin dmax : Rat) (numBins : Nat) (low high : Rat)
    (hn : 0 < numBins) (hn2 : numBins < 65535) (hl : low ≤ high) (hd : dmin ≤ dmax) :
    ∃ h, histSeries xw dmin dmax numBins low high = some h ∧ h.bins.size = h.nb + 2 ∧
      h.bins.toList.sum = (xw.dropLast.map (·.2)).sum ∧
      (∀ j, j < h.nb + 2 → h.bins[j]! = ((xw.dropLast.filter fun p => (Hist.create h.nb h.low h.high).binOf p.1 = j).map (·.2)).sum) :=
  histSeries_total xw dmin dmax numBins low high hn hn2 hl hd

/-- the bin index computed with `floor` is the printed interval that contains the value:
    0 = (-∞, low), j = [low + (j-1)·bs, low + j·bs), nb + 1 = [high, ∞) — the intervals partition the line -/
theorem histogram_bin_is_interval (nb : Nat) (lo hi : Rat) (hnb : 0 < nb) (hnb2 : nb < 65535) (hlh : lo < hi) (x : Rat) :
    (Hist.create nb lo hi).binOf x = CimbaModel.Monitor.C18.intervalOf nb lo hi x :=
  binOf_eq_intervalOf nb lo hi hnb hnb2 hlh x

/-! ### Autocorrelation -/
section
variable {K : Type} [Field K] [LinearOrder K] [IsStrictOrderedRing K]

/-- the coefficient at lag zero is one -/
theorem acf_lag0 (τ : K) (xs : List K) (n : Nat) : (acf τ xs n).head? = some 1 :=
  CimbaModel.Stats.acf_lag0 τ xs n

theorem acf_length (τ : K) (xs : List K) (n : Nat) : (acf τ xs n).length = n + 1 :=
  CimbaModel.Stats.acf_length τ xs n

/-- unchanged when the data are shifted -/
theorem acf_shift_invariant (τ a : K) (xs : List K) (n : Nat) : acf τ (xs.map (· + a)) n = acf τ xs n :=
  CimbaModel.Stats.acf_shift_invariant τ a xs n

/- Full statement (FALSE for the shipped absolute threshold τ = 1e-9, see `acf_scale_invariant_fails`):
     ∀ c > 0, acf τ (xs.map (c * ·)) n = acf τ xs n.
   Proved part: unchanged when the data are scaled by `c > 0` PROVIDED the variance stays on the same
   side of the absolute threshold (trigger of known finding C18-acf-absolute-threshold = its negation). -/
/-- the trigger predicate of known finding C18-acf-absolute-threshold -/
def ThresholdCrossed (τ c : K) (xs : List K) : Prop := ¬ (acfVar xs < τ ↔ c ^ 2 * acfVar xs < τ)

theorem acf_scale_invariant_partial (τ c : K) (hc : 0 < c) (xs : List K) (n : Nat)
    (h : ¬ ThresholdCrossed τ c xs) : acf τ (xs.map (c * ·)) n = acf τ xs n :=
  CimbaModel.Stats.acf_scale_invariant_partial τ c hc xs n (not_not.mp h)

/-- with a threshold that only singles out exactly constant data, scale invariance holds outright -/
theorem acf_scale_invariant_zero_threshold (c : K) (hc : 0 < c) (xs : List K) (n : Nat) :
    acf 0 (xs.map (c * ·)) n = acf 0 xs n :=
  CimbaModel.Stats.acf_scale_invariant_zero_threshold' c hc xs n

end

/-- negation of the full claim on the committed scenario corpus/stats2/finding-acf-absolute-threshold.txt -/
theorem acf_scale_invariant_fails :
    acf (1 / 1000000000 : ℚ) ([0, 1, 0, 1, 1, 0].map ((1 / 1048576 : ℚ) * ·)) 2 ≠ acf (1 / 1000000000 : ℚ) [0, 1, 0, 1, 1, 0] 2 :=
  CimbaModel.Stats.acf_scale_invariant_fails

/-- known finding C18-acf-unbounded (corpus/stats2/finding-acf-unbounded.txt): a coefficient outside [-1, 1] -/
theorem acf_can_exceed_one : acf (1 / 1000000000 : ℚ) [1, 0, 0, -1] 3 = [1, 0, 0, -3 / 2] :=
  CimbaModel.Stats.acf_can_exceed_one

/-! ### Non-vacuity -/

/-- the invariant is reachable: three adds from an initialized dataset -/
example : ∃ s : DS ℚ, s.Inv ∧ s.count = 3 ∧ s.samples = [5, 3, 9] := by
  obtain ⟨s1, _, i1, c1, m1⟩ := DS.add_inv 1024 ({} : DS ℚ) 5 DS.Inv_empty (by decide)
  obtain ⟨s2, _, i2, c2, m2⟩ := DS.add_inv 1024 s1 3 i1 (by decide)
  obtain ⟨s3, _, i3, c3, m3⟩ := DS.add_inv 1024 s2 9 i2 (by decide)
  have e0 : (({} : DS ℚ)).samples = [] := by simp [DS.samples]
  exact ⟨s3, i3, by simp [c3, c2, c1], by rw [m3, m2, m1, e0]; rfl⟩

/-- the hypotheses of the weighted theorems are satisfiable (first sample holds most of the duration, one zero duration) -/
example : ∃ s : TS ℚ, s.WF ∧ s.ds.MinMaxOK ∧ 0 < s.ds.count ∧ (∀ p ∈ s.triples, 0 ≤ p.2.2) ∧ s.median = some 1 := by
  refine ⟨⟨{ cursize := 4, count := 4, min := some 1, max := some 10, xa := #[1, 10, 5, 5] }, #[0, 8, 9, 10], #[8, 1, 1, 0]⟩,
    ⟨⟨rfl, by decide⟩, rfl, rfl⟩, ⟨by intro h; simp at h, fun _ => ⟨1, 10, rfl, rfl, ?_, ?_, ?_⟩⟩, by decide, ?_, by decide +kernel⟩
  · simp [DS.samples]
  · simp [DS.samples]
  · intro x hx
    simp [DS.samples] at hx
    rcases hx with rfl | rfl | rfl | rfl <;> constructor <;> norm_num
  · intro p hp
    simp [TS.triples] at hp
    rcases hp with rfl | rfl | rfl | rfl <;> norm_num

/-- concrete values: the one-sample five-number summary, a median, a histogram with out-of-range samples -/
example : (fivenumOfSorted (#[7] : Array ℚ) 1 7 7).map (fun f => (f.min, f.q1, f.med, f.q3, f.max)) = some (7, 7, 7, 7, 7) := by decide +kernel
example : (histDataset [5, 6, 7, 12, 0, 13] 0 13 4 5 12).map (·.bins.toList) = some [1, 2, 1, 0, 0, 2] := by decide +kernel
example : heapsort id 5 (#[5, 3, 9, 1, 1] : Array Int) = #[1, 1, 3, 5, 9] := by decide +kernel
example : heapsort3 3 ((#[3, 1, 2], #[10, 11, 12], #[20, 21, 22]) : Arr3 Int) = (#[1, 2, 3], #[11, 12, 10], #[21, 22, 20]) := by decide +kernel

end CimbaModel.Props.C18
