/-
  C18 — sorting, copies, medians, five-number summaries, histograms, autocorrelation.
  Property theorems only (helper lemmas live under CimbaModel/Stats/).
-/
import CimbaModel.Stats.SortLemmas

namespace CimbaModel.Props.C18
open CimbaModel.Stats

/-- `cmb_dataset_sort`: the live samples end up ascending and are a permutation of the input;
    the unused tail of the allocation is untouched.  Any length. -/
theorem heapsort_sorted_perm {K : Type} [Inhabited K] [LinearOrder K] (un : Nat) (a : Array K) (h : un ≤ a.size) :
    ((heapsort id un a).toList.take un).Pairwise (· ≤ ·) ∧
    ((heapsort id un a).toList.take un).Perm (a.toList.take un) ∧
    (heapsort id un a).toList.drop un = a.toList.drop un :=
  heapsort_prefix id un a h

end CimbaModel.Props.C18
