/-
  C14 — recorded histories equal the true state trajectory; time averages are exact
  Property theorems only (the process-layer model is CimbaModel/Sim; helper lemmas in CimbaModel/Sim/*).
-/
import CimbaModel.Sim.Basic
import CimbaModel.HashHeap.Orders

namespace CimbaModel.Props.C14
open CimbaModel CimbaModel.Sim CimbaModel.Event CimbaModel.Generated CimbaModel.HashHeap.SpecOrders
open CimbaModel.HashHeap (HTag Item Order HH)

/-- while recording is off nothing is appended -/
theorem record_resource_off (w : World) (r : Nat) (x : Res) (hx : w.res[r]? = some x) (hrec : x.recording = false) :
    recordRes w r = w := by
  unfold recordRes
  simp [hx, hrec]

end CimbaModel.Props.C14
