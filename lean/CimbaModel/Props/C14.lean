/-
  C14 — recorded histories equal the true state trajectory; time averages are exact
  Property theorems only (the process-layer model is CimbaModel/Sim; helper lemmas in CimbaModel/Sim/S2*).
-/
import CimbaModel.Sim.Basic
import CimbaModel.HashHeap.Orders
import CimbaModel.Sim.S2HistAll
import CimbaModel.Sim.S2TimeAvg
import CimbaModel.Sim.S2GrowRes

namespace CimbaModel.Props.C14
open CimbaModel CimbaModel.Sim CimbaModel.Event CimbaModel.Generated CimbaModel.HashHeap.SpecOrders
open CimbaModel.HashHeap (HTag Item Order HH)

/-- while recording is off nothing is appended -/
theorem record_resource_off (w : World) (r : Nat) (x : Res) (hx : w.res[r]? = some x) (hrec : x.recording = false) :
    recordRes w r = w := by
  unfold recordRes
  simp [hx, hrec]

/-! ### the invariant -/

/-- what `HistInv` says, for each of the five kinds of recordable objects: the sample times of the history are
    nondecreasing and not after the current time, and **while recording is switched on the history is non-empty and its
    last sample carries the current state value** (1/0 for a held / free resource, the amount in use of a pool, the level
    of a buffer, the length of an object queue or priority queue) -/
theorem history_invariant_unfolded {w : World} (hi : HistInv w) :
    (∀ (i : Nat) (x : Res), w.res[i]? = some x → TimesOK x.hist w.now ∧
      (x.recording = true → ∃ s, x.hist.back? = some s ∧ s.1 = (if x.holder.isSome then 1 else 0))) ∧
    (∀ (i : Nat) (x : Pool), w.pools[i]? = some x → TimesOK x.hist w.now ∧
      (x.recording = true → ∃ s, x.hist.back? = some s ∧ s.1 = (x.inUse : Int))) ∧
    (∀ (i : Nat) (x : Buf), w.bufs[i]? = some x → TimesOK x.hist w.now ∧
      (x.recording = true → ∃ s, x.hist.back? = some s ∧ s.1 = (x.level : Int))) ∧
    (∀ (i : Nat) (x : OQ), w.oqs[i]? = some x → TimesOK x.hist w.now ∧
      (x.recording = true → ∃ s, x.hist.back? = some s ∧ s.1 = (x.items.length : Int))) ∧
    (∀ (i : Nat) (x : PQ), w.pqs[i]? = some x → TimesOK x.hist w.now ∧
      (x.recording = true → ∃ s, x.hist.back? = some s ∧ s.1 = (x.queue.count : Int))) :=
  ⟨fun i x hx => hi.2.1 i x hx, fun i x hx => hi.2.2.1 i x hx, fun i x hx => hi.2.2.2.1 i x hx,
    fun i x hx => hi.2.2.2.2.1 i x hx, fun i x hx => hi.2.2.2.2.2 i x hx⟩

/-- `TimesOK`: sample times nondecreasing (pairwise, in history order) and none after `now` -/
theorem times_ok_unfolded (h : Array (Int × Int)) (now : Int) :
    TimesOK h now ↔ (h.toList.map (·.2)).Pairwise (· ≤ ·) ∧ ∀ s ∈ h.toList, s.2 ≤ now := Iff.rfl

/-- one dispatched event — the clock advance (which never goes backwards) and everything the resumed process does until
    it yields — keeps the invariant -/
theorem history_invariant_dispatch {w w' : World} (hi : HistInv w) (hd : dispatch w = some w') : HistInv w' :=
  HistInv.preserved.dispatch hi hd

/-- hence it holds in every reachable state -/
theorem history_invariant_reachable {w : World} (hi : HistInv w) (fuel : Nat) : HistInv (runAll fuel w) :=
  HistInv.preserved.runAll fuel w hi

/-- it holds initially: empty histories, recording off, nothing scheduled in the past -/
theorem history_invariant_initial (w : World) (ht : ∀ e ∈ w.ev.pending, w.ev.now ≤ e.d)
    (hr : ∀ (i : Nat) (x : Res), w.res[i]? = some x → x.hist = #[] ∧ x.recording = false)
    (hp : ∀ (i : Nat) (x : Pool), w.pools[i]? = some x → x.hist = #[] ∧ x.recording = false)
    (hb : ∀ (i : Nat) (x : Buf), w.bufs[i]? = some x → x.hist = #[] ∧ x.recording = false)
    (ho : ∀ (i : Nat) (x : OQ), w.oqs[i]? = some x → x.hist = #[] ∧ x.recording = false)
    (hk : ∀ (i : Nat) (x : PQ), w.pqs[i]? = some x → x.hist = #[] ∧ x.recording = false) : HistInv w := by
  have e : TimesOK #[] w.now := ⟨by simp, by simp⟩
  refine ⟨ht, ?_, ?_, ?_, ?_, ?_⟩
  · intro i x hx; obtain ⟨h1, h2⟩ := hr i x hx
    exact ⟨by show TimesOK x.hist _; rw [h1]; exact e, fun h => by have h' : x.recording = true := h; rw [h2] at h'; cases h'⟩
  · intro i x hx; obtain ⟨h1, h2⟩ := hp i x hx
    exact ⟨by show TimesOK x.hist _; rw [h1]; exact e, fun h => by have h' : x.recording = true := h; rw [h2] at h'; cases h'⟩
  · intro i x hx; obtain ⟨h1, h2⟩ := hb i x hx
    exact ⟨by show TimesOK x.hist _; rw [h1]; exact e, fun h => by have h' : x.recording = true := h; rw [h2] at h'; cases h'⟩
  · intro i x hx; obtain ⟨h1, h2⟩ := ho i x hx
    exact ⟨by show TimesOK x.hist _; rw [h1]; exact e, fun h => by have h' : x.recording = true := h; rw [h2] at h'; cases h'⟩
  · intro i x hx; obtain ⟨h1, h2⟩ := hk i x hx
    exact ⟨by show TimesOK x.hist _; rw [h1]; exact e, fun h => by have h' : x.recording = true := h; rw [h2] at h'; cases h'⟩

/-- the clock only moves in `dispatch`, and never backwards -/
theorem clock_monotone {q q' : EvQ} {t : HTag} (hq : TimeOk q) (he : executeNext q = some (t, q')) :
    TimeOk q' ∧ q.now ≤ q'.now := timeOk_tick hq he

/-! ### `history_complete_step`: every state change made while recording is followed, in the same primitive, by one
    `record*`, which appends exactly one sample (the value after the change, the current time); a composite operation
    may leave the last sample stale in between, `record*` restores the invariant whatever happened before it -/

/-- the generic `record`: from "everything fine except that object `i` has not recorded its latest change" to
    "everything fine" -/
theorem record_restores {α : Type} (R : RecOps α) {now : Int} {i : Nat} {a : Array α} (h : OKexc R now i a) :
    ArrAll (RecOK R now) (genRecord R a i now) := genRecord_restores R h

/-- … appending exactly one sample while recording -/
theorem record_appends_one {α : Type} (R : RecOps α) {a : Array α} {i : Nat} {x : α} (hx : a[i]? = some x)
    (hrec : R.recording x = true) (now : Int) :
    ∃ y, (genRecord R a i now)[i]? = some y ∧ R.hist y = (R.hist x).push (R.val x, now) ∧ R.val y = R.val x :=
  genRecord_appends R hx hrec now

/-- … and nothing while recording is off -/
theorem record_appends_none {α : Type} (R : RecOps α) {a : Array α} {i : Nat} {x : α} (hx : a[i]? = some x)
    (hrec : R.recording x = false) (now : Int) : genRecord R a i now = a := genRecord_off R hx hrec now

/-- the five `record*` functions of the model are this generic `record` -/
theorem record_functions_are_generic (w : World) (i : Nat) :
    (recordRes w i).res = genRecord resOps w.res i w.now ∧
    (recordPool w i).pools = genRecord poolOps w.pools i w.now ∧
    (recordBuf w i).bufs = genRecord bufOps w.bufs i w.now ∧
    (recordOQ w i).oqs = genRecord oqOps w.oqs i w.now ∧
    (recordPQ w i).pqs = genRecord pqOps w.pqs i w.now :=
  ⟨recordRes_eq w i, recordPool_eq w i, recordBuf_eq w i, recordOQ_eq w i, recordPQ_eq w i⟩

theorem record_pool_appends {w : World} {i : Nat} {x : Pool} (hx : w.pools[i]? = some x) (hrec : x.recording = true) :
    ∃ y, (recordPool w i).pools[i]? = some y ∧ y.hist = x.hist.push ((x.inUse : Int), w.now) ∧
      y.inUse = x.inUse ∧ y.recording = true := recordPool_appends hx hrec

theorem record_buffer_appends {w : World} {i : Nat} {x : Buf} (hx : w.bufs[i]? = some x) (hrec : x.recording = true) :
    ∃ y, (recordBuf w i).bufs[i]? = some y ∧ y.hist = x.hist.push ((x.level : Int), w.now) ∧
      y.level = x.level ∧ y.recording = true := recordBuf_appends hx hrec

/-- an instance end to end: the pass of a buffer get that takes `rem` units while recording appends exactly one sample:
    (the level after the change, the current time) -/
theorem buffer_get_records_change {w : World} (p : Pid) {b : Nat} {x : Buf} (hx : w.bufs[b]? = some x) (rem got : Nat)
    (hge : x.level ≥ rem) (hrec : x.recording = true) :
    ∃ y, (bufGetLoop w p b rem got).1.bufs[b]? = some y ∧
      y.hist = x.hist.push (((x.level - rem : Nat) : Int), w.now) ∧ y.level = x.level - rem :=
  bufGet_records p hx rem got hge hrec

/-- **no change goes unrecorded**: between any two reachable states in which an object (here: a buffer; the statement is
    generic, `RecOK.change_recorded`) is recording, a different level means a different history — so the step function
    defined by the history cannot miss a change of the true trajectory -/
theorem buffer_change_is_recorded {w w' : World} (hi : HistInv w) (hi' : HistInv w') {b : Nat} {x x' : Buf}
    (hx : w.bufs[b]? = some x) (hx' : w'.bufs[b]? = some x') (hr : x.recording = true) (hr' : x'.recording = true)
    (hv : x.level ≠ x'.level) : x.hist ≠ x'.hist :=
  RecOK.change_recorded bufOps (hi.2.2.2.1 b x hx) (hi'.2.2.2.1 b x' hx') hr hr' (by
    show (x.level : Int) ≠ (x'.level : Int)
    omega)

theorem pool_change_is_recorded {w w' : World} (hi : HistInv w) (hi' : HistInv w') {pl : Nat} {x x' : Pool}
    (hx : w.pools[pl]? = some x) (hx' : w'.pools[pl]? = some x') (hr : x.recording = true) (hr' : x'.recording = true)
    (hv : x.inUse ≠ x'.inUse) : x.hist ≠ x'.hist :=
  RecOK.change_recorded poolOps (hi.2.2.1 pl x hx) (hi'.2.2.1 pl x' hx') hr hr' (by
    show (x.inUse : Int) ≠ (x'.inUse : Int)
    omega)

/-- **histories only grow, and only by samples stamped with the current time**: across one dispatched event every
    recordable object keeps its place, and its history afterwards is its history before followed by samples whose time is
    the time of that event (`w'.now`).  No sample is ever altered or removed.  Together with `history_invariant_*` (the last
    sample carries the current value whenever recording is on) this is the statement that the step function defined by
    the history is the true trajectory: between events nothing changes, and at each event the history is extended up to
    the value the object has when the event is over. -/
theorem history_only_grows {w w' : World} (hd : dispatch w = some w') :
    (∀ (i : Nat) (x : Res), w.res[i]? = some x → ∃ x', w'.res[i]? = some x' ∧
      ∃ ext, x'.hist.toList = x.hist.toList ++ ext ∧ ∀ s ∈ ext, s.2 = w'.now) ∧
    (∀ (i : Nat) (x : Pool), w.pools[i]? = some x → ∃ x', w'.pools[i]? = some x' ∧
      ∃ ext, x'.hist.toList = x.hist.toList ++ ext ∧ ∀ s ∈ ext, s.2 = w'.now) ∧
    (∀ (i : Nat) (x : Buf), w.bufs[i]? = some x → ∃ x', w'.bufs[i]? = some x' ∧
      ∃ ext, x'.hist.toList = x.hist.toList ++ ext ∧ ∀ s ∈ ext, s.2 = w'.now) ∧
    (∀ (i : Nat) (x : OQ), w.oqs[i]? = some x → ∃ x', w'.oqs[i]? = some x' ∧
      ∃ ext, x'.hist.toList = x.hist.toList ++ ext ∧ ∀ s ∈ ext, s.2 = w'.now) ∧
    (∀ (i : Nat) (x : PQ), w.pqs[i]? = some x → ∃ x', w'.pqs[i]? = some x' ∧
      ∃ ext, x'.hist.toList = x.hist.toList ++ ext ∧ ∀ s ∈ ext, s.2 = w'.now) := by
  cases hex : executeNext w.ev with
  | none => unfold dispatch at hd; rw [hex] at hd; cases hd
  | some r =>
    obtain ⟨t, ev'⟩ := r
    obtain ⟨⟨n1, g1⟩, ⟨_, g2⟩, ⟨_, g3⟩, ⟨_, g4⟩, ⟨_, g5⟩⟩ := dispatch_grows hex hd
    refine ⟨fun i x hx => ?_, fun i x hx => ?_, fun i x hx => ?_, fun i x hx => ?_, fun i x hx => ?_⟩
    · obtain ⟨x', hx', e⟩ := g1 i x hx; rw [n1]; exact ⟨x', hx', e⟩
    · obtain ⟨x', hx', e⟩ := g2 i x hx; rw [n1]; exact ⟨x', hx', e⟩
    · obtain ⟨x', hx', e⟩ := g3 i x hx; rw [n1]; exact ⟨x', hx', e⟩
    · obtain ⟨x', hx', e⟩ := g4 i x hx; rw [n1]; exact ⟨x', hx', e⟩
    · obtain ⟨x', hx', e⟩ := g5 i x hx; rw [n1]; exact ⟨x', hx', e⟩

/-! ### the time-weighted mean computed from a history is the exact time average -/

/-- for samples (x₀,t₀),…,(xₙ,tₙ) with nondecreasing times, the running weighted mean with weights tᵢ₊₁ − tᵢ (updated
    incrementally, observation by observation) equals ∫/(tₙ − t₀), the integral being the area under the step function
    the samples define; the total weight is the length of the recording interval -/
theorem time_weighted_mean_is_time_average (s : List (ℚ × ℚ)) (hnd : TimeAvg.Nondecreasing s) (t0 : ℚ)
    (hs : ∃ x rest, s = (x, t0) :: rest) (hpos : t0 < TimeAvg.lastTime 0 s) :
    (TimeAvg.wmean (TimeAvg.weighted s)).2 = TimeAvg.stepIntegral s / (TimeAvg.lastTime 0 s - t0) ∧
    (TimeAvg.wmean (TimeAvg.weighted s)).1 = TimeAvg.lastTime 0 s - t0 :=
  ⟨TimeAvg.time_weighted_mean_is_time_average s hnd t0 hs hpos, (TimeAvg.wmean_spec s hnd t0 hs).1⟩

/-! ### the hypotheses are satisfiable -/

example : HistInv { bufs := #[{ cap := 7, front := 0, rear := 1 }] } := by
  apply history_invariant_initial
  · intro e he; cases he
  · intro i x hx; simp at hx
  · intro i x hx; simp at hx
  · intro i x hx
    rcases i with _ | i
    · simp at hx; subst hx; exact ⟨rfl, rfl⟩
    · simp at hx
  · intro i x hx; simp at hx
  · intro i x hx; simp at hx

example : TimeAvg.Nondecreasing [(3, 0), (5, 2), (4, 5)] ∧ (0 : ℚ) < TimeAvg.lastTime 0 [(3, 0), (5, 2), (4, 5)] := by
  simp [TimeAvg.Nondecreasing, TimeAvg.lastTime]; norm_num

end CimbaModel.Props.C14
