/-
  C01 — events run exactly once, in (time, priority, FIFO) order; the clock is monotone.
  Property theorems only.  The event queue is the abstract keyed priority queue with the ordering
  function regenerated from src/cmb_event.c; the concrete hashheap refines it (C02); the model is
  tied to the code by the observable-log correspondence evdrv <-> evmain.
-/
import CimbaModel.Event.Lemmas
import CimbaModel.Event.Concrete

namespace CimbaModel.Props.C01
open CimbaModel CimbaModel.KPQ CimbaModel.Generated CimbaModel.HashHeap.SpecOrders CimbaModel.Event
open CimbaModel.HashHeap (HTag Item Order)

/-- the comparison function found in the C source is exactly the documented dispatch order:
    time ascending, then priority descending, then handle ascending -/
theorem heap_order_is_lex (a b : HTag) : heap_order_check a b = true ↔ eventLt a b :=
  CimbaModel.HashHeap.Orders.heap_order_check_iff a b

theorem heap_order_total : TotalOnKeys heap_order_check := inferInstance

/-- dispatch picks THE minimum: every other pending event comes strictly later in
    (time, −priority, handle) order; the clock becomes its time and the current-event query names it -/
theorem exec_min {q q' : EvQ} {e : HTag} (hi : EvInv q) (h : executeNext q = some (e, q')) :
    e ∈ q.pending ∧ (∀ x ∈ q.pending, x.key ≠ e.key → eventLt e x) ∧
    q'.now = e.d ∧ q'.current = e.key ∧ q.now ≤ q'.now ∧ q'.pending = KPQ.remove q.pending e.key := by
  have hh := executeNext_inv hi h
  refine ⟨hh.2.1, ?_, hh.2.2.2.1, hh.2.2.2.2.1, hh.2.2.2.2.2.1, hh.2.2.2.2.2.2.2⟩
  intro x hx hne
  have h1 := hh.2.2.1 x hx
  rcases heap_order_total.total e x (Ne.symm hne) with h2 | h2
  · exact (heap_order_is_lex e x).mp h2
  · rw [h1] at h2; exact absurd h2 (by simp)

/-- nothing is executed when and only when nothing is pending -/
theorem exec_none_iff_empty (q : EvQ) : executeNext q = none ↔ q.pending = [] := by
  unfold executeNext
  constructor
  · intro h
    cases hm : minTag heap_order_check q.pending with
    | none => exact minTag_none.mp hm
    | some m => rw [hm] at h; simp at h
  · intro h; rw [h]; simp [minTag]

/-- the clock never decreases, over any history of operations (issued from outside the dispatcher
    or from inside actions: operations between two `next` are the running action's) -/
theorem clock_monotone (t0 : Int) (ops₁ ops₂ : List Op) (q₁ q₂ : EvQ)
    (h₁ : run { now := t0 } ops₁ = .ok q₁) (h₂ : run q₁ ops₂ = .ok q₂) : t0 ≤ q₁.now ∧ q₁.now ≤ q₂.now := by
  have a := run_inv ops₁ (init_inv t0) h₁
  have b := run_inv ops₂ a.1 h₂
  exact ⟨a.2, b.2⟩

/-- exactly once: after any history every handle issued so far is in exactly one of
    pending / executed / cancelled-or-cleared (a permutation of 1..counter, hence no duplicates) -/
theorem exactly_once (t0 : Int) (ops : List Op) (q : EvQ) (h : run { now := t0 } ops = .ok q) :
    (keys q.pending ++ q.executed ++ q.cancelled).Perm (List.range' 1 q.counter) :=
  (run_inv ops (init_inv t0) h).1.part

theorem executed_nodup (t0 : Int) (ops : List Op) (q : EvQ) (h : run { now := t0 } ops = .ok q) :
    q.executed.Nodup := by
  have := (run_inv ops (init_inv t0) h).1.part.nodup
  rw [List.nodup_append] at this
  have := this.1
  rw [List.nodup_append] at this
  exact this.2.1

/-- a cancelled (or cleared) event never runs, now or later -/
theorem cancelled_never_runs (t0 : Int) (ops : List Op) (q : EvQ) (h : run { now := t0 } ops = .ok q)
    (hd : Nat) (hc : hd ∈ q.cancelled) : hd ∉ q.executed ∧ hd ∉ keys q.pending := by
  have hn := (run_inv ops (init_inv t0) h).1.part.nodup
  rw [List.nodup_append] at hn
  have hdis := hn.2.2
  constructor
  · intro he
    exact hdis hd (List.mem_append_right _ he) hd hc rfl
  · intro hp
    exact hdis hd (List.mem_append_left _ hp) hd hc rfl

/-- a successful cancel takes exactly that handle out of the pending set -/
theorem cancel_exact (q : EvQ) (h : Nat) :
    (cancel q h).2 = decide (h ∈ keys q.pending) ∧
    (cancel q h).1.pending = KPQ.remove q.pending h ∨ ((cancel q h).2 = false ∧ (cancel q h).1 = q) := by
  unfold cancel isScheduled
  split
  · left; simp_all
  · right; simp

/-- rescheduling changes only the time of exactly that event -/
theorem resched_changes_time_only {q q' : EvQ} {h : Nat} {t : Int} (hs : reschedule q h t = .ok q') :
    q'.pending = q.pending.map (fun e => if e.key = h then { e with d := t } else e) ∧
    q'.now = q.now ∧ q'.current = q.current ∧ q'.counter = q.counter := by
  unfold reschedule at hs
  split at hs
  · simp at hs
  · split at hs
    · simp at hs
    · simp only [Except.ok.injEq] at hs; subst hs; simp

/-- reprioritising changes only the priority of exactly that event -/
theorem reprio_changes_prio_only {q q' : EvQ} {h : Nat} {p : Int} (hs : reprioritize q h p = .ok q') :
    q'.pending = q.pending.map (fun e => if e.key = h then { e with i := p } else e) ∧
    q'.now = q.now ∧ q'.current = q.current ∧ q'.counter = q.counter := by
  unfold reprioritize at hs
  split at hs
  · simp at hs
  · simp only [Except.ok.injEq] at hs; subst hs; simp

/-- while an action runs (any operation other than dispatching the next event) the clock and the
    current-event query stay what the dispatch made them -/
theorem current_stable {q q' : EvQ} {op : Op} (hne : op ≠ Op.next) (hs : step q op = .ok q') :
    q'.current = q.current ∧ q'.now = q.now := by
  cases op with
  | next => exact absurd rfl hne
  | sched a s o t p =>
    simp only [step] at hs
    unfold schedule at hs
    split at hs
    · simp [Except.map] at hs
    · simp only [Except.map, Except.ok.injEq] at hs; subst hs; simp
  | cancel h => simp only [step, Except.ok.injEq] at hs; subst hs; unfold cancel; split <;> simp
  | resched h t => simp only [step] at hs; have := resched_changes_time_only hs; exact ⟨this.2.2.1, this.2.1⟩
  | reprio h p => simp only [step] at hs; have := reprio_changes_prio_only hs; exact ⟨this.2.2.1, this.2.1⟩
  | pcancel a s o => simp only [step, Except.ok.injEq] at hs; subst hs; simp [patternCancel]
  | clear => simp only [step, Except.ok.injEq] at hs; subst hs; simp [clear]

/-- pattern count / cancel / find agree with the pending set: cancel removes exactly the matching
    events and reports how many there were; find returns 0 iff nothing matches and otherwise the
    handle of a pending matching event -/
theorem pattern_agree (q : EvQ) (hi : EvInv q) (a s o : Nat) :
    (patternCancel q a s o).2 = patternCount q a s o ∧
    (∀ e, e ∈ (patternCancel q a s o).1.pending ↔ e ∈ q.pending ∧ evMatch e a s o = false) ∧
    (patternFind q a s o = 0 ↔ patternCount q a s o = 0) ∧
    (patternFind q a s o ≠ 0 → ∃ e ∈ q.pending, e.key = patternFind q a s o ∧ evMatch e a s o = true) := by
  have hpos : ∀ e ∈ q.pending, e.key ≠ 0 := by
    intro e he h0
    have hm : e.key ∈ keys q.pending ++ q.executed ++ q.cancelled :=
      List.mem_append_left _ (List.mem_append_left _ (mem_keys.mpr ⟨e, he, rfl⟩))
    have := (hi.part.mem_iff).mp hm
    rw [h0] at this
    simp [List.mem_range'] at this
    omega
  refine ⟨rfl, ?_, ?_, ?_⟩
  · intro e; simp [patternCancel, List.mem_filter]
  · unfold patternFind patternCount
    cases hf : q.pending.find? (evMatch · a s o) with
    | none =>
      rw [List.find?_eq_none] at hf
      simp only [true_iff]
      simp only [List.length_eq_zero_iff, List.filter_eq_nil_iff]
      exact hf
    | some e =>
      have hmem := List.mem_of_find?_eq_some hf
      have hmatch := List.find?_some hf
      constructor
      · intro h0; exact absurd h0 (hpos e hmem)
      · intro hc
        simp only [List.length_eq_zero_iff, List.filter_eq_nil_iff] at hc
        exact absurd hmatch (hc e hmem)
  · intro hne
    unfold patternFind at hne ⊢
    cases hf : q.pending.find? (evMatch · a s o) with
    | none => rw [hf] at hne; exact absurd rfl hne
    | some e => exact ⟨e, List.mem_of_find?_eq_some hf, rfl, List.find?_some (p := (evMatch · a s o)) hf⟩

/-! ### the same on the concrete hashheap

The event queue of src/cmb_event.c is a hashheap. `EvC` is the kernel on the concrete hashheap model (which is tied
to src/cmi_hashheap.c by exact-state correspondence, C02); it simulates the abstract kernel above step by step, so
every theorem of this file transfers to it. -/

/-- scheduling on the concrete queue issues the same handle as the abstract kernel and preserves the simulation,
    across any capacity doubling of the queue -/
theorem concrete_schedule_simulates {c : EvC} {q : EvQ} (hs : Sim c q) (hi : EvInv q) (act subj obj : Nat) (t pri : Int)
    (ht : q.now ≤ t) (h64 : q.counter + 1 < 2 ^ 64) (hroom : c.hh.count < 2 ^ c.hh.exp ∨ c.hh.exp < 31) :
    ∃ c' q' h, scheduleC c act subj obj t pri = .ok (c', h) ∧ schedule q act subj obj t pri = .ok (q', h) ∧
      Sim c' q' ∧ h = q.counter + 1 :=
  schedule_sim hs hi act subj obj t pri ht h64 hroom

/-- dispatch on the concrete queue dequeues exactly the event the abstract kernel picks — the unique
    (time, −priority, handle) minimum — and sets the same clock and current event; it never faults -/
theorem concrete_dispatch_simulates {c : EvC} {q : EvQ} (hs : Sim c q) :
    (c.hh.count = 0 → executeNextC c = .ok none ∧ executeNext q = none) ∧
    (0 < c.hh.count → ∃ e c' q', executeNextC c = .ok (some (e, c')) ∧ executeNext q = some (KPQ.norm e, q') ∧ Sim c' q') :=
  executeNext_sim hs

/-- cancelling on the concrete queue gives the same answer and preserves the simulation -/
theorem concrete_cancel_simulates {c : EvC} {q : EvQ} (hs : Sim c q) (h : Nat) (h0 : h ≠ 0) :
    ∃ c', cancelC c h = .ok (c', (cancel q h).2) ∧ Sim c' { (cancel q h).1 with cancelled := q.cancelled } :=
  cancel_sim hs h h0

/-! non-vacuity: a concrete history satisfying the hypotheses, with a tie on time broken by priority -/
example : ∃ q, run { now := 0 } [.sched 1 0 0 5 0, .sched 2 0 0 5 3, .sched 3 0 0 2 0, .cancel 3, .next] = .ok q ∧
    q.current = 2 ∧ q.now = 5 ∧ q.executed = [2] ∧ q.cancelled = [3] := by
  refine ⟨_, rfl, ?_⟩; decide

end CimbaModel.Props.C01
