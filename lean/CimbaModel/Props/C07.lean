/-
  C07 — pool units are conserved; acquire, rollback, preempt and release account exactly
  Property theorems only (the process-layer model is CimbaModel/Sim; helper lemmas in CimbaModel/Sim/*).
-/
import CimbaModel.Sim.Basic
import CimbaModel.HashHeap.Orders

namespace CimbaModel.Props.C07
open CimbaModel CimbaModel.Sim CimbaModel.Event CimbaModel.Generated CimbaModel.HashHeap.SpecOrders
open CimbaModel.HashHeap (HTag Item Order HH)

/-- the holders of a pool are ordered lowest priority first (the preemption victims), as documented -/
theorem holder_order_is_lex (a b : HTag) : holder_queue_check a b = true ↔ holderLt a b :=
  CimbaModel.HashHeap.Orders.holder_queue_check_iff a b

theorem holder_order_total : TotalOnKeys holder_queue_check := inferInstance

/-- a waiter's demand on a pool is satisfied exactly when at least one unit is available -/
theorem pool_demand_iff_available (w : World) (p : Nat) (x : Pool) (hx : w.pools[p]? = some x) :
    evalDemand w (.poolAvail p) = true ↔ x.inUse < x.cap := by
  simp [evalDemand, hx]; omega

end CimbaModel.Props.C07
