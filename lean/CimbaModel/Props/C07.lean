/-
  C07 — pool units are conserved; acquire, rollback, preempt and release account exactly
  Property theorems only (the process-layer model is CimbaModel/Sim; helper lemmas in CimbaModel/Sim/S2*).
-/
import CimbaModel.Sim.Basic
import CimbaModel.HashHeap.Orders
import CimbaModel.Sim.S2PoolCalls
import CimbaModel.Sim.S2PoolFull

namespace CimbaModel.Props.C07
open CimbaModel CimbaModel.Sim CimbaModel.Event CimbaModel.Generated CimbaModel.HashHeap.SpecOrders CimbaModel.KPQ
open CimbaModel.HashHeap (HTag Item Order HH WF abs amounts amountOf)

/-- the holders of a pool are ordered lowest priority first (the preemption victims), as documented -/
theorem holder_order_is_lex (a b : HTag) : holder_queue_check a b = true ↔ holderLt a b :=
  CimbaModel.HashHeap.Orders.holder_queue_check_iff a b

theorem holder_order_total : TotalOnKeys holder_queue_check := inferInstance

/-- a waiter's demand on a pool is satisfied exactly when at least one unit is available -/
theorem pool_demand_iff_available (w : World) (p : Nat) (x : Pool) (hx : w.pools[p]? = some x) :
    evalDemand w (.poolAvail p) = true ↔ x.inUse < x.cap := by
  simp [evalDemand, hx]; omega

/-! ### the invariant -/

/-- what `PoolInv` says, spelled out on the model's own data: for every pool the holder list is a well-formed
    hashheap; **the amount in use is the sum of the amounts held by the individual processes and does not exceed
    the capacity**; every holder record belongs to an existing process (key = process id + 1) and carries a positive
    amount; and a process lists the pool among its held objects exactly when it has a record in the pool's holder list; a record's priority
    field is the current priority of the process it belongs to -/
theorem pool_invariant_unfolded {w : World} (hi : PoolInv w) {pl : Nat} {x : Pool} (hx : w.pools[pl]? = some x) :
    WF holder_queue_check x.holders ∧
    x.inUse = ((abs x.holders).map (fun t => t.item.b)).sum ∧
    x.inUse ≤ x.cap ∧
    (∀ k ∈ keys (abs x.holders), ∃ pid, pid < w.procs.size ∧ k = pid + 1) ∧
    (∀ t ∈ abs x.holders, 0 < t.item.b) ∧
    (∀ t ∈ abs x.holders, t.i = (w.proc (t.key - 1)).prio) ∧
    (∀ q, HoldRef.pool pl ∈ (w.proc q).held ↔ q + 1 ∈ keys (abs x.holders)) := by
  obtain ⟨ok, lk⟩ := hi.2 pl x.view (poolView_of_get hx)
  exact ⟨ok.wf, ok.sum, ok.inCap, ok.tags, ok.pos, ok.prio, lk⟩

/-- the invariant that is preserved is `PoolFull` = `PoolInv` together with: every process suspended inside a pool
    acquisition (frame `.pool pl rem …`) still has a positive outstanding claim `rem` -/
theorem pool_full_unfolded (w : World) :
    PoolFull w ↔ PoolInv w ∧ ∀ q pl rem ini pre, (w.proc q).blocked = some (.pool pl rem ini pre) → 0 < rem := Iff.rfl

/-- the amount a process holds according to the model's query `heldAmount` (the library's `cmb_resourcepool_held_by_process`)
    is the amount in its holder record, 0 if it has none -/
theorem held_amount_is_record {w : World} (hi : PoolInv w) {pl : Nat} {x : Pool} (hx : w.pools[pl]? = some x) (p : Pid) :
    heldAmount w pl p = amountOf (abs x.holders) (p + 1) :=
  heldAmount_eq (poolView_of_get hx) (hi.2 pl _ (poolView_of_get hx)).1.wf p

/-- no single process holds more than is in use -/
theorem held_le_in_use {w : World} (hi : PoolInv w) {pl : Nat} {x : Pool} (hx : w.pools[pl]? = some x) (p : Pid) :
    heldAmount w pl p ≤ x.inUse := by
  rw [held_amount_is_record hi hx]
  obtain ⟨ok, _⟩ := hi.2 pl x.view (poolView_of_get hx)
  have hwf : WF holder_queue_check x.holders := ok.wf
  have := amountOf_le_amounts hwf.keys_nodup (p + 1)
  have hs : x.inUse = amounts (abs x.holders) := ok.sum
  omega

/-- **one dispatched event** — everything the resumed process does until it yields, any command, any resumption of a
    suspended call (including rollback after an interrupt), preemption of other holders, the end of processes —
    **keeps the invariant** -/
theorem pool_invariant_dispatch {w w' : World} (hi : PoolFull w) (hd : dispatch w = some w') : PoolFull w' :=
  PoolFull.preserved.dispatch hi hd

/-- hence it holds in every reachable state, for all programs, schedules and same-instant coincidences -/
theorem pool_invariant_reachable {w : World} (hi : PoolFull w) (fuel : Nat) : PoolFull (runAll fuel w) :=
  PoolFull.preserved.runAll fuel w hi

/-- the invariant holds initially: pools created empty (`cmb_resourcepool_initialize`), nobody holding anything,
    nobody suspended, fewer than 2^31 processes -/
theorem pool_invariant_initial (w : World) (hn : w.procs.size < 2 ^ 31)
    (hheld : ∀ q, (w.proc q).held = []) (hbl : ∀ q, (w.proc q).blocked = none)
    (hpools : ∀ (pl : Nat) (x : Pool), w.pools[pl]? = some x → x.inUse = 0 ∧ ∃ e, 1 ≤ e ∧ e ≤ 31 ∧ x.holders = mkHH e) : PoolFull w := by
  refine ⟨⟨hn, ?_⟩, fun q pl rem ini pre hq => by rw [hbl q] at hq; cases hq⟩
  intro pl v hv
  obtain ⟨x, hx, rfl⟩ := poolView_some.1 hv
  obtain ⟨h0, e, he1, he31, hh⟩ := hpools pl x hx
  obtain ⟨s, hinit, hwf, habs, _⟩ := CimbaModel.HashHeap.init_spec (lt := holder_queue_check) e he1 he31
  have hs : x.holders = s := by rw [hh]; unfold mkHH; rw [hinit]
  constructor
  · refine ⟨⟨by show WF _ x.holders; rw [hs]; exact hwf, ?_, ?_, ?_⟩, ?_, ?_⟩
    · intro k hk
      have : keys (abs x.holders) = [] := by rw [hs, habs]; rfl
      rw [show x.view.holders = x.holders from rfl, this] at hk; cases hk
    · intro t ht
      rw [show x.view.holders = x.holders from rfl, hs, habs] at ht; cases ht
    · intro t ht
      rw [show x.view.holders = x.holders from rfl, hs, habs] at ht; cases ht
    · show x.inUse = amounts (abs x.holders)
      rw [h0, hs, habs]; rfl
    · show x.inUse ≤ x.cap
      omega
  · intro q
    rw [hheld q]
    have : keys (abs x.holders) = [] := by rw [hs, habs]; rfl
    rw [show x.view.holders = x.holders from rfl, this]
    simp

/-! ### exact accounting of the individual operations (all under the invariant, i.e. in every reachable state) -/

/-- **acquire / preempt when enough is available**: returns success at once, the caller then holds exactly `n` more
    than before, the amount in use is exactly `n` higher -/
theorem acquire_ok_direct {w : World} {p : Pid} {pl : Nat} {x : Pool} (hi : PoolInv w) (hp : p < w.procs.size)
    (hx : w.pools[pl]? = some x) (n ini : Nat) (pre : Bool) (hav : x.cap - x.inUse ≥ n) (hn : 0 < n) :
    (poolLoop w p pl n ini pre).2 = .ret sigSuccess "" ∧
    heldOf (poolLoop w p pl n ini pre).1 pl p = heldOf w pl p + n ∧
    inUseOf (poolLoop w p pl n ini pre).1 pl = inUseOf w pl + n :=
  poolLoop_direct hi hp hx n ini pre hav hn

/-- **acquire_ok** (`cmb_resourcepool_acquire`): whenever a pass of the acquire loop returns, it returns success and has
    given the caller exactly the outstanding claim `rem` -/
theorem acquire_ok {w : World} {p : Pid} {pl : Nat} {x : Pool} (hi : PoolInv w) (hp : p < w.procs.size)
    (hx : w.pools[pl]? = some x) (rem ini : Nat) (hrem : 0 < rem) {sig : Int} {extra : String}
    (hr : (poolLoop w p pl rem ini false).2 = .ret sig extra) :
    sig = sigSuccess ∧ heldOf (poolLoop w p pl rem ini false).1 pl p = heldOf w pl p + rem ∧
      inUseOf (poolLoop w p pl rem ini false).1 pl = inUseOf w pl + rem :=
  poolLoop_acquire_ok hi hp hx rem ini hrem hr

/-- … and when it does not return it has taken exactly what was available (`avail`), and waits with the claim reduced
    by exactly that: `held + outstanding claim` is the same before and after the pass.  Over the passes of one call,
    starting from claim `n`, the caller has therefore received exactly `n` when the last pass returns success -/
theorem acquire_partial {w : World} {p : Pid} {pl : Nat} {x : Pool} (hi : PoolInv w) (hp : p < w.procs.size)
    (hx : w.pools[pl]? = some x) (rem ini : Nat) (hav : ¬ x.cap - x.inUse ≥ rem) :
    ∃ w1, poolLoop w p pl rem ini false = block w1 p (.pool pl (rem - (x.cap - x.inUse)) ini false) ∧
      heldOf w1 pl p = heldOf w pl p + (x.cap - x.inUse) ∧
      inUseOf w1 pl = inUseOf w pl + (x.cap - x.inUse) :=
  poolLoop_partial hi hp hx rem ini hav

/-- **acquire_ok for a whole call** (`AcquireRun`: the call as the sequence of its passes, anything — including a
    preemption of the waiting caller — happening in between): the passes together hand the caller at most the claim, and
    exactly the claim `n` when the call returns success -/
theorem acquire_ok_whole_call {p : Pid} {pl n ini m : Nat} {sig : Int} (h : AcquireRun p pl n ini m sig) (hn : 0 < n) :
    m ≤ n ∧ (sig = sigSuccess → m = n) := h.exact hn

/-- **acquire_intr**: an acquire or preempt that is interrupted (any signal other than success) runs the rollback:
    afterwards the caller holds exactly what it held before the call (`ini`, remembered in the frame) — or what is left of
    it if it was itself preempted in that same instant (`min`), and nothing if it held nothing before; the amount in
    use went down by exactly what the caller gave back -/
theorem acquire_intr {w : World} {p : Pid} {pl : Nat} {x : Pool} (hi : PoolInv w) (hx : w.pools[pl]? = some x)
    (ini : Nat) :
    heldOf (poolRollback w p pl ini) pl p = (if ini > 0 then min (heldOf w pl p) ini else 0) ∧
    inUseOf (poolRollback w p pl ini) pl + heldOf w pl p = inUseOf w pl + heldOf (poolRollback w p pl ini) pl p :=
  poolRollback_spec hi hx ini

/-- the rollback is what `resumeFrame` runs on a non-success signal -/
theorem interrupted_acquire_rolls_back (w : World) (p : Pid) (pl rem ini : Nat) (pre : Bool) (sig : Int) (x : Pool)
    (hx : w.pools[pl]? = some x) (hs : sig ≠ sigSuccess) :
    resumeFrame w p (.pool pl rem ini pre) sig = (poolRollback (guardWaitLeave w x.guard p sig) p pl ini, .ret sig "") := by
  simp [resumeFrame, hx, hs]

/-- **release_ok**: a release of `n` lowers the caller's holding and the amount in use by exactly `n` -/
theorem release_ok {w : World} {p : Pid} {pl : Nat} {x : Pool} (hi : PoolInv w) (hx : w.pools[pl]? = some x)
    {n : Nat} (hn0 : n ≠ 0) (hnle : n ≤ heldOf w pl p) :
    (execCmd w p (.poolRelease pl n)).2 = .ret 0 "" ∧
    heldOf (execCmd w p (.poolRelease pl n)).1 pl p + n = heldOf w pl p ∧
    inUseOf (execCmd w p (.poolRelease pl n)).1 pl + n = inUseOf w pl :=
  poolRelease_spec hi hx hn0 hnle

/-- **lose_all**: a process that ends — returns, exits or is stopped — holds nothing afterwards, of any pool -/
theorem lose_all_at_end (w : World) (p : Pid) (v : Int) (stopped : Bool) (hi : PoolInv w) (pl : Nat) :
    heldOf (finishProc w p v stopped) pl p = 0 :=
  heldOf_finishProc w p v stopped hi pl

/-- **preempt_strict**, refusing side: when the first holder in the holder order (lowest priority first) is not of strictly
    lower priority than the caller, nothing is taken, and no holder at all has strictly lower priority -/
theorem preempt_never_from_equal_or_higher {w : World} {p : Pid} {pl : Nat} {x : Pool} (hi : PoolInv w)
    (hx : w.pools[pl]? = some x) (hc : x.holders.count ≠ 0) (hge : ¬ (x.holders.tag 1).i < (w.proc p).prio) (fuel rem : Nat) :
    poolMug (fuel + 1) w p pl rem = (w, some rem) ∧ ∀ t ∈ abs x.holders, ¬ t.i < (w.proc p).prio :=
  poolMug_refuses hi hx hc hge fuel rem

/-- **preempt_strict**, taking side: a victim is of strictly lower priority than the caller (hypothesis `hlt` is the
    test the loop makes); it is an existing process; it loses its whole record (`lose_all`: holds 0 afterwards, having
    held `loot` before) and is notified at that very instant by an interrupt event carrying PREEMPTED, scheduled at the
    current time with the victim's own priority; the loot goes to the caller, the surplus back to the pool -/
theorem preempt_takes_strictly_lower {w : World} {p : Pid} {pl : Nat} {x : Pool} (hi : PoolInv w) (hx : w.pools[pl]? = some x)
    (hc : x.holders.count ≠ 0) (hlt : (x.holders.tag 1).i < (w.proc p).prio) (fuel rem : Nat) :
    ∃ h1 w3,
      HashHeap.dequeue holder_queue_check x.holders = .ok (h1, some (x.holders.tag 1)) ∧
      w3 = (sched (removeHeld { w with pools := w.pools.set! pl { x with holders := h1 } }
              ((x.holders.tag 1).key - 1) (.pool pl)).1 aIntr ((x.holders.tag 1).key - 1 + 1) sigPreempted w.now
              (w.proc ((x.holders.tag 1).key - 1)).prio).1 ∧
      poolMug (fuel + 1) w p pl rem =
        (if (x.holders.tag 1).item.b < rem then
          poolMug fuel (poolUpdateRecord w3 pl p (x.holders.tag 1).item.b) p pl (rem - (x.holders.tag 1).item.b)
        else
          (signal (recordPool (setPoolInUse (poolUpdateRecord w3 pl p rem) pl
            (((poolUpdateRecord w3 pl p rem).pools.getD pl x).inUse - ((x.holders.tag 1).item.b - rem))) pl) x.guard,
            none)) ∧
      (∃ e ∈ w3.ev.pending, e.item.a = aIntr ∧ e.item.b = (x.holders.tag 1).key - 1 + 1 ∧
          e.item.c = encSig sigPreempted ∧ e.d = w.now ∧ e.i = (w.proc ((x.holders.tag 1).key - 1)).prio) ∧
      (x.holders.tag 1).key - 1 < w.procs.size ∧ (x.holders.tag 1).key - 1 + 1 = (x.holders.tag 1).key ∧
      heldOf w3 pl ((x.holders.tag 1).key - 1) = 0 ∧
      heldOf w pl ((x.holders.tag 1).key - 1) = (x.holders.tag 1).item.b :=
  poolMug_takes hi hx hc hlt fuel rem

/-- the victim's *process* priority (not just the priority stored in its record) is strictly below the caller's, and a
    process is never its own victim -/
theorem preempt_victim_priority_strictly_lower {w : World} {p : Pid} {pl : Nat} {x : Pool} (hi : PoolInv w)
    (hx : w.pools[pl]? = some x) (hc : x.holders.count ≠ 0) (hlt : (x.holders.tag 1).i < (w.proc p).prio) :
    (x.holders.tag 1).key ≠ p + 1 ∧ (w.proc ((x.holders.tag 1).key - 1)).prio < (w.proc p).prio :=
  mug_not_self hi hx hc hlt

/-- **the mugging loop as a whole** (any number of victims): it keeps the invariant, and the caller's holding plus what
    is still to be claimed afterwards equals its holding plus the claim before — the loop hands the caller exactly what it
    takes off the claim -/
theorem preempt_loop_exact (fuel : Nat) (w : World) (p : Pid) (pl rem : Nat) (hi : PoolInv w) (hp : p < w.procs.size)
    (hrem : 0 < rem) :
    PoolInv (poolMug fuel w p pl rem).1 ∧ (poolMug fuel w p pl rem).1.procs.size = w.procs.size ∧
    heldOf (poolMug fuel w p pl rem).1 pl p + remaining (poolMug fuel w p pl rem).2 = heldOf w pl p + rem :=
  poolMug_total fuel w p pl rem hi hp hrem

/-- **preempt_ok** (`cmb_resourcepool_preempt`): whenever a pass of the preempt loop returns, it returns success and has
    given the caller exactly the outstanding claim `rem` — free units plus what was taken from any number of victims -/
theorem preempt_ok {w : World} {p : Pid} {pl : Nat} {x : Pool} (hi : PoolInv w) (hp : p < w.procs.size)
    (hx : w.pools[pl]? = some x) (rem ini : Nat) (hrem : 0 < rem) {sig : Int} {extra : String}
    (hr : (poolLoop w p pl rem ini true).2 = .ret sig extra) :
    sig = sigSuccess ∧ heldOf (poolLoop w p pl rem ini true).1 pl p = heldOf w pl p + rem :=
  poolLoop_preempt_ok hi hp hx rem ini hrem hr

/-- … and when a pass of preempt does not return, the caller has received exactly the part of its claim that the pass took
    off it (free units plus the victims' holdings): `held + outstanding claim` is conserved, the claim stays positive -/
theorem preempt_partial {w : World} {p : Pid} {pl : Nat} {x : Pool} (hi : PoolInv w) (hp : p < w.procs.size)
    (hx : w.pools[pl]? = some x) (rem ini : Nat) (hrem : 0 < rem)
    (hr : (poolLoop w p pl rem ini true).2 = .blocked) :
    ∃ w1 rem', poolLoop w p pl rem ini true = block w1 p (.pool pl rem' ini true) ∧ 0 < rem' ∧ rem' ≤ rem ∧
      heldOf w1 pl p + rem' = heldOf w pl p + rem :=
  poolLoop_preempt_partial hi hp hx rem ini hrem hr

/-- **acquire_ok / preempt_ok for a whole call** (`ClaimRun`: acquire or preempt as the sequence of its passes, anything —
    including a preemption of the waiting caller — happening in between): the passes together hand the caller at most
    the claim, and exactly the claim `n` when the call returns success -/
theorem claim_ok_whole_call {p : Pid} {pl : Nat} {pre : Bool} {n ini m : Nat} {sig : Int}
    (h : ClaimRun p pl pre n ini m sig) (hn : 0 < n) : m ≤ n ∧ (sig = sigSuccess → m = n) := h.exact hn

/-- the mugging loop as a whole (any number of victims) keeps the invariant: units only move between records -/
theorem preempt_conserves (fuel : Nat) (w : World) (p : Pid) (pl rem : Nat) (hi : PoolInv w) (hp : p < w.procs.size)
    (hrem : 0 < rem) : PoolInv (poolMug fuel w p pl rem).1 :=
  PoolInv.poolMug fuel w p pl rem hi hp hrem

/-! ### the hypotheses are satisfiable -/

/-- an initial world with one pool of capacity 5 and two processes satisfies the invariant -/
example : PoolFull { procs := #[{}, {}], pools := #[{ cap := 5, holders := mkHH 4, guard := 0 }] } := by
  apply pool_invariant_initial
  · decide
  · intro q
    unfold World.proc
    rw [Array.getD_eq_getD_getElem?]
    rcases q with _ | _ | q <;> simp
  · intro q
    unfold World.proc
    rw [Array.getD_eq_getD_getElem?]
    rcases q with _ | _ | q <;> simp
  · intro pl x hx
    rcases pl with _ | pl
    · simp at hx; subst hx; exact ⟨rfl, 4, by decide, by decide, rfl⟩
    · simp at hx

end CimbaModel.Props.C07
