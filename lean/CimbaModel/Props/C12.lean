/-
  C12 — queued objects are delivered exactly once, in FIFO/priority order, in capacity
  Property theorems only (the process-layer model is CimbaModel/Sim; helper lemmas in CimbaModel/Sim/*).
-/
import CimbaModel.Sim.Basic
import CimbaModel.HashHeap.Orders

namespace CimbaModel.Props.C12
open CimbaModel CimbaModel.Sim CimbaModel.Event CimbaModel.Generated CimbaModel.HashHeap.SpecOrders
open CimbaModel.HashHeap (HTag Item Order HH)

/-- the object priority queue's comparison found in the C source is the documented order:
    higher priority first, equal priorities in put (handle) order -/
theorem pq_order_is_lex (a b : HTag) : compare_func a b = true ↔ pqLt a b :=
  CimbaModel.HashHeap.Orders.compare_func_iff a b

theorem pq_order_total : TotalOnKeys compare_func := inferInstance

end CimbaModel.Props.C12
