/-
  C12 — queued objects are delivered exactly once, in FIFO/priority order, in capacity
  Property theorems only (the process-layer model is CimbaModel/Sim; helper lemmas in CimbaModel/Sim/S2*).
-/
import CimbaModel.Sim.Basic
import CimbaModel.HashHeap.Orders
import CimbaModel.Sim.S2QCalls

namespace CimbaModel.Props.C12
open CimbaModel CimbaModel.Sim CimbaModel.Event CimbaModel.Generated CimbaModel.HashHeap.SpecOrders CimbaModel.KPQ
open CimbaModel.HashHeap (HTag Item Order HH WF abs)

/-- the object priority queue's comparison found in the C source is the documented order:
    higher priority first, equal priorities in put (handle) order -/
theorem pq_order_is_lex (a b : HTag) : compare_func a b = true ↔ pqLt a b :=
  CimbaModel.HashHeap.Orders.compare_func_iff a b

theorem pq_order_total : TotalOnKeys compare_func := inferInstance

/-! ### object queues: FIFO, exactly once, capacity — one equation -/

/-- what `OQInv` says: the sequence of objects put so far is the sequence delivered so far followed by the queue
    contents.  Hence: **delivery is in put order** (the delivered sequence is a prefix of the put sequence); every object
    put is delivered or still queued, **exactly once** (as multisets put = delivered + queued, nothing invented,
    duplicated or lost); and **the length never exceeds the capacity** -/
theorem oq_invariant_unfolded {w : World} (hi : OQInv w) {q : Nat} {x : OQ} (hx : w.oqs[q]? = some x) :
    x.putLog = x.gotLog ++ x.items ∧
    x.gotLog <+: x.putLog ∧
    x.putLog.Perm (x.gotLog ++ x.items) ∧
    x.putLog.length = x.gotLog.length + x.items.length ∧
    x.items.length ≤ x.cap := by
  have ok := hi.get hx
  refine ⟨ok.fifo, ⟨x.items, ok.fifo.symm⟩, by rw [ok.fifo], by rw [ok.fifo]; simp, ok.inCap⟩

theorem oq_invariant_dispatch {w w' : World} (hi : OQInv w) (hd : dispatch w = some w') : OQInv w' :=
  OQInv.preserved.dispatch hi hd

theorem oq_invariant_reachable {w : World} (hi : OQInv w) (fuel : Nat) : OQInv (runAll fuel w) :=
  OQInv.preserved.runAll fuel w hi

theorem oq_invariant_initial (w : World)
    (h : ∀ (q : Nat) (x : OQ), w.oqs[q]? = some x → x.items = [] ∧ x.putLog = [] ∧ x.gotLog = []) : OQInv w := by
  intro q x hx
  obtain ⟨h1, h2, h3⟩ := h q x hx
  exact ⟨by rw [h1, h2, h3]; rfl, by rw [h1]; exact Nat.zero_le _⟩

/-- a successful get delivers the head of the queue, which is the next undelivered element of the put sequence -/
theorem oq_get_delivers_next {w : World} (hi : OQInv w) (p : Pid) {q : Nat} {x : OQ} (hx : w.oqs[q]? = some x)
    {o : Nat} {rest : List Nat} (hit : x.items = o :: rest) :
    (oqGetLoop w p q).2 = .ret sigSuccess s!"obj={o}" ∧ x.putLog[x.gotLog.length]? = some o := by
  rw [oqGetLoop_delivers p hx hit]
  exact ⟨rfl, oq_delivers_in_put_order (hi.get hx) hit⟩

/-- **a get that does not return success delivers nothing**: it reports `obj=0` and leaves every queue as it was -/
theorem oq_failed_get_delivers_nothing (w : World) (p : Pid) (q : Nat) (sig : Int) (hs : sig ≠ sigSuccess) :
    (resumeFrame w p (.oqGet q) sig).1.oqs = w.oqs ∧
    ((resumeFrame w p (.oqGet q) sig).2 = .ret sig "obj=0" ∨
      (w.oqs[q]? = none ∧ (resumeFrame w p (.oqGet q) sig).2 = .ret sig "")) :=
  oqGet_failed w p q sig hs

/-! ### priority queues -/

/-- what `PQInv` says (as long as fewer than 2^64 − 1 objects have ever been put into the queue, i.e. the 64-bit handle
    counter has not wrapped): the concrete hashheap is well-formed; **the number of entries does not exceed the
    capacity**; the handles put so far are pairwise distinct, and **every one of them is queued, or delivered, or
    cancelled — exactly one of the three** (the three lists together are a permutation of the list of handles put, which
    has no duplicates: nothing invented, duplicated or lost) -/
theorem pq_invariant_unfolded {w : World} (hi : PQInv w) {k : Nat} {x : PQ} (hx : w.pqs[k]? = some x)
    (hctr : x.putLog.length + 1 < 2 ^ 64) :
    WF compare_func x.queue ∧
    x.queue.count ≤ x.cap ∧
    (keys (abs x.queue) ++ x.gotLog ++ x.cancelLog).Perm x.putLog ∧
    x.putLog.Nodup ∧
    (keys (abs x.queue) ++ x.gotLog ++ x.cancelLog).Nodup ∧
    (abs x.queue).length = x.queue.count := by
  have ok := hi.get hx hctr
  exact ⟨ok.wf, ok.inCap, ok.part, ok.nodup, ok.part.nodup_iff.2 ok.nodup, HashHeap.abs_length _⟩

theorem pq_invariant_dispatch {w w' : World} (hi : PQInv w) (hd : dispatch w = some w') : PQInv w' :=
  PQInv.preserved.dispatch hi hd

theorem pq_invariant_reachable {w : World} (hi : PQInv w) (fuel : Nat) : PQInv (runAll fuel w) :=
  PQInv.preserved.runAll fuel w hi

theorem pq_invariant_initial (w : World)
    (h : ∀ (k : Nat) (x : PQ), w.pqs[k]? = some x →
      x.putLog = [] ∧ x.gotLog = [] ∧ x.cancelLog = [] ∧ ∃ e, 1 ≤ e ∧ e ≤ 31 ∧ x.queue = mkHH e) : PQInv w := by
  intro k x hx _
  obtain ⟨h1, h2, h3, e, he1, he31, hq⟩ := h k x hx
  obtain ⟨s, hinit, hwf, habs, hcnt⟩ := CimbaModel.HashHeap.init_spec (lt := compare_func) e he1 he31
  have hs : x.queue = s := by rw [hq]; unfold mkHH; rw [hinit]
  have hc0 : s.count = 0 := by rw [← HashHeap.abs_length, habs]; rfl
  refine ⟨by rw [hs]; exact hwf, by rw [hs, hc0]; exact Nat.zero_le _, by rw [hs, hcnt.1, h1]; rfl, ?_, ?_, ?_, by rw [h1]; exact List.nodup_nil⟩
  · intro j hj; rw [hs, habs] at hj; cases hj
  · intro j hj; rw [h1] at hj; cases hj
  · rw [hs, habs, h1, h2, h3]; exact List.Perm.refl _

/-- **a get delivers the entry that goes before all others under the documented order**: every entry that stays behind
    has lower priority, or equal priority and a larger handle (a later put); the object handed out is the payload stored
    under the delivered handle; exactly that entry leaves the queue -/
theorem pq_get_delivers_first {w : World} (p : Pid) {k : Nat} {x : PQ} (hx : w.pqs[k]? = some x)
    (hwf : WF compare_func x.queue) (hpos : x.queue.count > 0) :
    ∃ q' t, HashHeap.dequeue compare_func x.queue = .ok (q', some t) ∧
      pqGetLoop w p k =
        (signal (recordPQ { w with pqs := w.pqs.set! k { x with queue := q', gotLog := x.gotLog ++ [t.key] } } k) x.rear,
          .ret sigSuccess s!"obj={t.item.a}") ∧
      KPQ.lookup (abs x.queue) t.key = some (KPQ.norm t) ∧
      (abs x.queue).Perm (KPQ.norm t :: abs q') ∧
      (∀ e ∈ abs q', t.i > e.i ∨ (t.i = e.i ∧ t.key < e.key)) ∧
      q'.count = x.queue.count - 1 :=
  pqGetLoop_delivers p hx hwf hpos

/-- a put stores the object, with its priority, under a handle that was never used before -/
theorem pq_put_stores {w : World} (p : Pid) {k : Nat} {x : PQ} (hx : w.pqs[k]? = some x) (ok : PQOK x)
    (hctr : x.putLog.length + 2 < 2 ^ 64) (hroom : x.queue.count < x.cap) (obj : Nat) (pri : Int) (v : Nat)
    {q' : HH} {h : Nat} (he : HashHeap.enqueue compare_func x.queue ⟨obj, 0, 0, 0⟩ 0 0 pri = .ok (q', h)) :
    h = x.queue.counter + 1 ∧
      (pqPutLoop w p k obj pri v).2 = .ret sigSuccess s!"h={h}" ∧
      (abs q').Perm (⟨h, 0, ⟨obj, 0, 0, 0⟩, 0, pri⟩ :: abs x.queue) ∧
      h ∉ x.putLog ∧ h ∉ keys (abs x.queue) :=
  pqPutLoop_stores p hx ok hctr hroom obj pri v he

/-- **cancellation by handle** removes exactly the entry named, reports whether there was one, and leaves every other
    entry (payload, priority) as it was -/
theorem pq_cancel_exact {x : PQ} (hwf : WF compare_func x.queue) {h : Nat} (h0 : h ≠ 0) :
    ∃ q', HashHeap.remove compare_func x.queue h = .ok (q', decide (h ∈ keys (abs x.queue))) ∧
      (abs q').Perm (KPQ.remove (abs x.queue) h) ∧
      (∀ h2, h2 ≠ h → KPQ.lookup (abs q') h2 = KPQ.lookup (abs x.queue) h2) ∧ KPQ.lookup (abs q') h = none :=
  pqCancel_exact hwf h0

/-- **reprioritisation by handle** changes the priority of exactly the entry named; its payload and every other entry
    stay; later gets therefore deliver according to the new priorities (`pq_get_delivers_first`) -/
theorem pq_reprio_exact {x : PQ} (hwf : WF compare_func x.queue) {h : Nat} (hk : h ∈ keys (abs x.queue)) (pri : Int) :
    ∃ q', HashHeap.reprioritize compare_func x.queue h 0 pri = .ok q' ∧
      (abs q').Perm (KPQ.reprio (abs x.queue) h 0 pri) ∧
      KPQ.lookup (abs q') h = (KPQ.lookup (abs x.queue) h).map (fun t => { t with d := 0, i := pri }) ∧
      (∀ h2, h2 ≠ h → KPQ.lookup (abs q') h2 = KPQ.lookup (abs x.queue) h2) :=
  pqReprio_exact hwf hk pri

/-- **the position query** of a queued handle is 1 + the number of queued entries that would be delivered before it -/
theorem pq_position_counts_those_ahead {x : PQ} (hwf : WF compare_func x.queue) {h : Nat} (hk : h ∈ keys (abs x.queue)) :
    ∃ t, KPQ.lookup (abs x.queue) h = some t ∧
      pqPosition x h = ((abs x.queue).filter (fun e => compare_func e t)).length + 1 :=
  pqPosition_spec hwf hk

/-- … it is 1 exactly for the handle that the next get delivers, and 0 for a handle that is not queued -/
theorem pq_position_one_iff_next {x : PQ} (hwf : WF compare_func x.queue) {h : Nat} (hk : h ∈ keys (abs x.queue)) :
    pqPosition x h = 1 ↔ ∃ t, KPQ.lookup (abs x.queue) h = some t ∧ IsMin compare_func (abs x.queue) t :=
  pqPosition_one_iff hwf hk

/-- … and it is the index of delivery: each get that delivers another entry lowers the position of every handle that
    stays queued by exactly one, so a handle at position `k` is handed out by the `k`-th get from now if nothing else
    changes; the position query therefore agrees with the order in which objects will actually be delivered -/
theorem pq_position_is_delivery_index {x : PQ} (hwf : WF compare_func x.queue) (hpos : 0 < x.queue.count) {h : Nat}
    (hk : h ∈ keys (abs x.queue)) (hne : h ≠ (x.queue.tag 1).key) :
    ∃ q', HashHeap.dequeue compare_func x.queue = .ok (q', some (x.queue.tag 1)) ∧ WF compare_func q' ∧
      h ∈ keys (abs q') ∧ pqPosition { x with queue := q' } h + 1 = pqPosition x h :=
  pqPosition_after_get hwf hpos hk hne

theorem pq_position_zero_if_absent {x : PQ} (hwf : WF compare_func x.queue) {h : Nat} (hk : h ∉ keys (abs x.queue)) :
    pqPosition x h = 0 :=
  pqPosition_absent hwf hk

/-- the length query is the number of queued entries -/
theorem pq_length_is_count (x : PQ) : (abs x.queue).length = x.queue.count := HashHeap.abs_length _

/-- a get that does not return success delivers nothing and leaves every priority queue as it was -/
theorem pq_failed_get_delivers_nothing (w : World) (p : Pid) (k : Nat) (sig : Int) (hs : sig ≠ sigSuccess) :
    (resumeFrame w p (.pqGet k) sig).1.pqs = w.pqs ∧
    ((resumeFrame w p (.pqGet k) sig).2 = .ret sig "obj=0" ∨
      (w.pqs[k]? = none ∧ (resumeFrame w p (.pqGet k) sig).2 = .ret sig "")) := by
  simp only [resumeFrame]
  cases hx : w.pqs[k]? with
  | none => exact ⟨rfl, Or.inr ⟨rfl, rfl⟩⟩
  | some x =>
    simp only [hs, if_false]
    exact ⟨by simp, Or.inl trivial⟩

/-! ### the hypotheses are satisfiable -/

example : OQInv { oqs := #[{ cap := 3, front := 0, rear := 1 }] } := by
  apply oq_invariant_initial
  intro q x hx
  rcases q with _ | q
  · simp at hx; subst hx; exact ⟨rfl, rfl, rfl⟩
  · simp at hx

example : PQInv { pqs := #[{ cap := 3, queue := mkHH 3, front := 0, rear := 1 }] } := by
  apply pq_invariant_initial
  intro k x hx
  rcases k with _ | k
  · simp at hx; subst hx; exact ⟨rfl, rfl, rfl, 3, by decide, by decide, rfl⟩
  · simp at hx

end CimbaModel.Props.C12
