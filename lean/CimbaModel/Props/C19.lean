/-
  C19 — an experiment runs every trial exactly once, on its own element, returns after all have finished, whatever the
  interleaving; trials are isolated from each other.
  Property theorems only.  `code` is what tools/gen_tlsinv.py read off src/cimba.c on this run; `tlsInventory` is the list of
  every variable with static storage duration it found in the library's sources.

  Full statement of the second sentence ("for trial functions that seed the generator from their own parameters the results
  are bit-identical to a sequential run, whatever the assignment and whatever ran earlier on the same worker"):
  it is reduced here to `isolation` (every piece of state that outlives a trial function is classified, with a
  machine-checked side condition per class) plus C15's `reseed_forgets`; that the classes `PureMemo`, `Scratch`,
  `AddressOnly`, `LogOutputOnly` carry no information into results is argued per entry in Experiment/Isolation.lean and
  exercised by the differential runs of harness/expdrv.c, not proved.  Known exceptions are reported by the check:
  entries of class `Leaks`, and results that depend on addresses (finding `address-tiebreak`).
-/
import CimbaModel.Experiment.Progress
import CimbaModel.Experiment.Isolation
import CimbaModel.Experiment.Current
import CimbaModel.Generated.TlsInventory

namespace CimbaModel.Props.C19
open CimbaModel CimbaModel.Experiment

/-- the dispenser and join as found in the C source on this run -/
abbrev code : Code := currentCode

/-- The C code is the documented dispenser: one atomic fetch-and-add of 1 starting from 0, a worker stops exactly when its
    index is ≥ the number of trials, the element passed is `base + idx·size`, all W threads are created and all W are joined. -/
theorem code_is_documented_dispenser : code.Correct where
  mode := by first | rfl | decide
  incr := by first | rfl | decide
  init := by first | rfl | decide
  reset := by first | rfl | decide
  stop := by intro i n; simp [code, currentCode, Generated.stopWhen] <;> omega
  addr := by
    intro b i s
    first
      | rfl
      | (simp [code, currentCode, Generated.elemAddr, Nat.mul_comm, Nat.add_comm, Nat.add_left_comm])
  spawn0 := by first | rfl | decide
  spawn := by intro k W; simp [code, currentCode, Generated.spawnCond] <;> omega
  join0 := by first | rfl | decide
  join := by intro k W; simp [code, currentCode, Generated.joinCond] <;> omega

/-- **Exactly once, at every moment.**  After any schedule (any interleaving of the main thread and W workers, any trial
    durations), the trials fetched-and-in-range, executing, or finished are exactly the indices below `min next n`, each once. -/
theorem each_trial_once_reachable (p : Params) (sched : List Actor) :
    let s := run code p sched
    ((s.pending.filter (fun x => decide (x < p.n))) ++ s.inflight ++ s.finished).Perm (List.range (min s.next p.n)) :=
  exact_of_inv p _ (inv_run code code_is_documented_dispenser p sched)

/-- no index is handed to two workers: everything ever fetched is a permutation of `0 … next-1` -/
theorem no_index_handed_out_twice (p : Params) (sched : List Actor) :
    let s := run code p sched
    (s.pending ++ s.inflight ++ s.finished ++ s.discarded).Nodup := by
  intro s
  exact (handed_out_of_inv p _ (inv_run code code_is_documented_dispenser p sched)).nodup_iff.2 List.nodup_range

/-- **Exactly once, own element, at return.**  For every number of trials `n`, every number of workers `W ≥ 1`, every
    struct size and every schedule: if `cimba_run_experiment` has returned, no call is pending or executing, the calls made
    are exactly one per index `0 … n-1`, and call `i` received `base + i·size`. -/
theorem each_trial_once (p : Params) (hW : 1 ≤ p.W) (sched : List Actor)
    (hret : (run code p sched).main = .returned) :
    let s := run code p sched
    s.pending = [] ∧ s.inflight = [] ∧ s.finished.Perm (List.range p.n) ∧
    (s.calls.map Prod.fst).Perm (List.range p.n) ∧ ∀ x ∈ s.calls, x.2 = p.base + x.1 * p.sz :=
  terminal_of_inv p hW _ (inv_run code code_is_documented_dispenser p sched) hret

/-- **Join.**  The main thread can have returned only when every worker thread has left its loop ... -/
theorem join_after_all (p : Params) (sched : List Actor) (hret : (run code p sched).main = .returned) :
    ∀ w, w < p.W → (run code p sched).ws[w]? = some .done :=
  returned_all_done code code_is_documented_dispenser p sched hret

/-- ... because the `k`-th join does not return while worker `k` is still running -/
theorem join_blocks_until_done (p : Params) (s : State) (k : Nat) (hm : s.main = .joining k) (hk : k < p.W)
    (hnd : s.ws[k]? ≠ some .done) : step code p s .main = s :=
  join_waits code p s k hm ((code_is_documented_dispenser.join k p.W).2 hk) hnd

/-- **Progress.**  Until the main thread has returned some thread can always move: the runner never deadlocks
    (given that trial functions return). -/
theorem no_deadlock (p : Params) (sched : List Actor) (hnr : (run code p sched).main ≠ .returned) :
    ∃ a, step code p (run code p sched) a ≠ run code p sched :=
  Experiment.no_deadlock code code_is_documented_dispenser p sched hnr

/-- **Return.**  From every reachable state the experiment can be completed: some continuation of the schedule ends with the
    main thread returned (and then `each_trial_once` applies). -/
theorem can_always_return (p : Params) (sched : List Actor) :
    ∃ ext, (run code p (sched ++ ext)).main = .returned :=
  can_always_finish code code_is_documented_dispenser p _ sched (Nat.le_refl _)

/-- ... and no schedule, however long, contains more than `4n + 4W + 2` steps that change the state: under any scheduler that
    keeps choosing threads that can move (`no_deadlock` says one exists) the runner returns within that many steps. -/
theorem effective_steps_bounded (p : Params) (sched : List Actor) :
    effective code p (init code p) sched ≤ 4 * p.n + 4 * p.W + 2 := by
  have h := effective_le_measure code code_is_documented_dispenser p sched _ (inv_init code code_is_documented_dispenser p)
  rw [measure_init code code_is_documented_dispenser p] at h
  omega

/-- **Every experiment of a process.**  The shared counter is 0 at the start of EVERY call of `cimba_run_experiment`, whatever an
    earlier experiment left in it ... -/
theorem every_run_starts_from_zero (prev : Nat) : startNext code prev = 0 := by
  simp [startNext, code_is_documented_dispenser.reset, code_is_documented_dispenser.init]

/-- ... hence when one process runs several experiments one after the other (any trial counts, sizes, worker counts and
    schedules), each of them behaves exactly as if it were the only one: all theorems above apply to every call. -/
theorem later_experiments_behave_as_the_first (exps : List (Params × List Actor)) :
    runProcess code exps = exps.map (fun e => run code e.1 e.2) :=
  runSeq_eq_map_run code code_is_documented_dispenser exps _

/-- non-vacuity: a runner that relies on the static initialiser alone returns from its second experiment without having
    called the trial function at all (n = 1, one worker, both times) -/
theorem stale_counter_skips_trials :
    let r := runProcess Code.noReset [(⟨1, 1, 8, 4096⟩, roundRobin 1 8), (⟨1, 1, 8, 8192⟩, roundRobin 1 8)]
    r.map (·.main) = [.returned, .returned] ∧ r.map (·.finished) = [[0], []] ∧ r.map (·.calls) = [[(0, 4096)], []] := by
  decide +kernel

/-- The theorems are not vacuous: with the fetch split into a separate load and store the same model runs a trial twice. -/
theorem split_fetch_runs_a_trial_twice :
    let s := run Code.split ⟨1, 2, 8, 4096⟩ splitWitness
    s.main = .returned ∧ s.finished = [0, 0] ∧ s.calls = [(0, 4096), (0, 4096)] := by decide

/-- **Isolation.**  Every variable with static storage duration in the library's current sources is classified; whatever
    can change at run time is thread-local or process-wide-and-synchronised; and each class's side condition, evaluated on
    the access sets and reset sets extracted from the C AST, holds. -/
theorem isolation : ∀ e ∈ Generated.tlsInventory,
    classify e ≠ none ∧
    (e.isMutable = true → e.isThreadLocal = true ∨ classify e = some .SharedSynchronised) ∧
    (∀ c, classify e = some c → sideCondition e c = true) := by decide

/-- the generator state proper is re-initialised by `cmb_random_initialize` (C15 proves what it is re-initialised to) -/
theorem generator_state_reset_by_seeding : ∀ e ∈ Generated.tlsInventory,
    e.file = "src/cmb_random.c" → e.isMutable = true → classify e = some .ResetByTrialInit →
    e.resetBy.contains "cmb_random_initialize" = true := by decide

/-- the gamma sampler's cache returns what a miss would compute, whatever consistent state an earlier trial left -/
theorem gamma_cache_is_pure {K : Type} [DecidableEq K] (zero : K) (f g : K → K) (m : GammaMemo K) (shape : K)
    (hm : m.consistent zero f g) (hs : shape ≠ zero) :
    (gammaPrologue f g m shape).d = f shape ∧ (gammaPrologue f g m shape).c = g (f shape) ∧
    (gammaPrologue f g m shape).consistent zero f g :=
  gamma_memo_pure zero f g m shape hm hs

/- non-vacuity: the hypotheses of `each_trial_once` are satisfiable — a round-robin schedule returns, for fewer trials than
   workers, as many, and more -/
example : (run Code.reference ⟨1, 3, 8, 4096⟩ (roundRobin 3 12)).main = .returned := by decide +kernel
example : (run Code.reference ⟨3, 3, 8, 4096⟩ (roundRobin 3 14)).main = .returned := by decide +kernel
example : (run Code.reference ⟨7, 2, 24, 4096⟩ (roundRobin 2 20)).main = .returned ∧
    (run Code.reference ⟨7, 2, 24, 4096⟩ (roundRobin 2 20)).finished.length = 7 := by decide +kernel
/- and the initial cache of the gamma sampler is consistent -/
example : (GammaMemo.mk (0 : Nat) 0 0).consistent 0 id id := Or.inl rfl

end CimbaModel.Props.C19
