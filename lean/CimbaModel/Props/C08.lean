/-
  C08 — no lost wake-ups: nobody stays blocked while its demand can be met
  Property theorems only (the process-layer model is CimbaModel/Sim; helper lemmas in CimbaModel/Sim/*).
-/
import CimbaModel.Sim.Basic
import CimbaModel.HashHeap.Orders

namespace CimbaModel.Props.C08
open CimbaModel CimbaModel.Sim CimbaModel.Event CimbaModel.Generated CimbaModel.HashHeap.SpecOrders
open CimbaModel.HashHeap (HTag Item Order HH)

/-- the demand predicates the guards evaluate are exactly the documented availability conditions -/
theorem demands_are_availability (w : World) :
    (∀ b x, w.bufs[b]? = some x → (evalDemand w (.bufContent b) = true ↔ 0 < x.level) ∧
                                   (evalDemand w (.bufSpace b) = true ↔ x.level < x.cap)) ∧
    (∀ q x, w.oqs[q]? = some x → (evalDemand w (.oqContent q) = true ↔ 0 < x.items.length) ∧
                                  (evalDemand w (.oqSpace q) = true ↔ x.items.length < x.cap)) ∧
    (∀ k x, w.pqs[k]? = some x → (evalDemand w (.pqContent k) = true ↔ 0 < x.queue.count) ∧
                                  (evalDemand w (.pqSpace k) = true ↔ x.queue.count < x.cap)) := by
  refine ⟨?_, ?_, ?_⟩ <;> intro i x hx <;> simp [evalDemand, hx]

end CimbaModel.Props.C08
