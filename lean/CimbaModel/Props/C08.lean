/-
  C08 — no lost wake-ups: nobody stays blocked while its demand can be met
  Property theorems only (the process-layer model is CimbaModel/Sim; helper lemmas in CimbaModel/Sim/*).
-/
import CimbaModel.Sim.Basic
import CimbaModel.HashHeap.Orders
import CimbaModel.Sim.S3Grant
import CimbaModel.Sim.S3Signals
import CimbaModel.Sim.S3All
import CimbaModel.Sim.S3GrantBuilt
import CimbaModel.Sim.S3GrantT

namespace CimbaModel.Props.C08
open CimbaModel CimbaModel.Sim CimbaModel.Event CimbaModel.Generated CimbaModel.HashHeap.SpecOrders
open CimbaModel.HashHeap (HTag Item Order HH WF abs)
open CimbaModel.Sim.S3 CimbaModel.KPQ

/-- the demand predicates the guards evaluate are exactly the documented availability conditions -/
theorem demands_are_availability (w : World) :
    (∀ b x, w.bufs[b]? = some x → (evalDemand w (.bufContent b) = true ↔ 0 < x.level) ∧
                                   (evalDemand w (.bufSpace b) = true ↔ x.level < x.cap)) ∧
    (∀ q x, w.oqs[q]? = some x → (evalDemand w (.oqContent q) = true ↔ 0 < x.items.length) ∧
                                  (evalDemand w (.oqSpace q) = true ↔ x.items.length < x.cap)) ∧
    (∀ k x, w.pqs[k]? = some x → (evalDemand w (.pqContent k) = true ↔ 0 < x.queue.count) ∧
                                  (evalDemand w (.pqSpace k) = true ↔ x.queue.count < x.cap)) := by
  refine ⟨?_, ?_, ?_⟩ <;> intro i x hx <;> simp [evalDemand, hx]


/-! ### a signal serves the front waiter whenever it can

`AllGWF w`: every waiting list is a well-formed hashheap (C02); `demandOf gd k`: the demand predicate registered for
key `k`; `gd.q.tag 1`: the front entry (the minimum of the waiting set under the documented order, see C06). -/

/-- `signal_grants_if_satisfiable`: after a complete signal of `g` (the guard's own part, then every observer,
    recursively), if the waiting list was non-empty and the front waiter's demand held, that waiter is no longer queued
    and its wake-up (aRes, SUCCESS) is pending *at the current time* with its current priority; queues only shrank, the
    clock did not move -/
theorem signal_grants_if_satisfiable {fuel : Nat} {w : World} {g : Nat} {gd : Guard} (hg : w.guards[g]? = some gd)
    (hall : AllGWF w) (hpos : 0 < gd.q.count) (hd : evalDemand w (demandOf gd (gd.q.tag 1).key) = true) :
    (∃ gd', (guardSignal (fuel + 1) w g).guards[g]? = some gd' ∧ (gd.q.tag 1).key ∉ keys (abs gd'.q) ∧
        ∀ x ∈ abs gd'.q, x ∈ abs gd.q) ∧
    mkEv (w.ev.counter + 1) aRes (gd.q.tag 1).key sigSuccess w.now (w.proc ((gd.q.tag 1).key - 1)).prio ∈
      (guardSignal (fuel + 1) w g).ev.pending ∧
    (guardSignal (fuel + 1) w g).now = w.now := by
  obtain ⟨h1, h2, h3, _⟩ := guardSignal_grants (fuel := fuel) hg hall hpos hd
  exact ⟨h1, h2, h3⟩

/-- … otherwise (empty list, or the front waiter's demand does not hold) the guard's own part changes neither the queue
    nor the event set: the signal is just the forwarded signal to the observers (`fwdSignal`: the condition signal for the
    guard of a condition, a plain guard signal for any other observer — Props/C13) -/
theorem signal_without_grant {fuel : Nat} {w : World} {g : Nat} {gd : Guard} (hg : w.guards[g]? = some gd)
    (hwf : WF guard_queue_check gd.q) (h : gd.q.count = 0 ∨ evalDemand w (demandOf gd (gd.q.tag 1).key) = false) :
    guardSignal (fuel + 1) w g = gd.observers.foldl (fun w o => fwdSignal fuel w o) w :=
  guardSignal_no_grant hg hwf h

/-- whatever a signal does (observers included): it only dequeues waiters whose demand holds and schedules their
    wake-ups — a grant (aRes, SUCCESS) from a front step, a condition wake-up (aCond, SUCCESS) from the condition signal of
    an observing condition (`SigRel.pending`: every new event is `IsGrantEv` or `IsCondEv`) —; it never touches processes,
    objects, the clock, nor removes an event -/
theorem signal_footprint (fuel : Nat) (w : World) (g : Nat) (hall : AllGWF w) : SigRel w (guardSignal fuel w g) :=
  guardSignal_rel fuel w g hall

/-! ### a grant that arrives too late is passed on -/

/-- `grant_passed_on`: a process `p` that leaves its wait on `g` for another reason (timeout, interrupt, stop) after it
    has been dequeued: its pending grant(s) are removed from the event queue — every other pending event stays — and the
    guard is signalled again, all inside `guardWithdraw` -/
theorem grant_passed_on {w : World} {g : Nat} {gd : Guard} (hg : w.guards[g]? = some gd) (hwf : WF guard_queue_check gd.q)
    {p : Pid} (hp : p + 1 ∉ keys (abs gd.q)) (hi : EvInv w.ev)
    (hgrant : ∃ e ∈ w.ev.pending, kindMatch p aRes (some sigSuccess) e = true) :
    guardWithdraw w g p = signal (cancelKindFor w p aRes (some sigSuccess)).1 g ∧
    (∀ e ∈ (cancelKindFor w p aRes (some sigSuccess)).1.ev.pending, e.key ≤ w.ev.counter →
        kindMatch p aRes (some sigSuccess) e = false) ∧
    (∀ e ∈ w.ev.pending, kindMatch p aRes (some sigSuccess) e = false →
        e ∈ (cancelKindFor w p aRes (some sigSuccess)).1.ev.pending) ∧
    (cancelKindFor w p aRes (some sigSuccess)).1.guards = w.guards ∧
    (cancelKindFor w p aRes (some sigSuccess)).1.now = w.now := by
  obtain ⟨h1, hrel, h2, h3⟩ := guardWithdraw_passes_on hg hwf hp hi hgrant
  exact ⟨h1, h2, h3, hrel.guards, hrel.now⟩

/-- … so the next waiter, if it can be served, is served in that same step (same simulated instant) -/
theorem grant_passed_on_serves_next {w : World} {g : Nat} {gd : Guard} (hg : w.guards[g]? = some gd) (hall : AllGWF w)
    {p : Pid} (hp : p + 1 ∉ keys (abs gd.q)) (hi : EvInv w.ev)
    (hgrant : ∃ e ∈ w.ev.pending, kindMatch p aRes (some sigSuccess) e = true)
    (hpos : 0 < gd.q.count) (hd : evalDemand w (demandOf gd (gd.q.tag 1).key) = true) :
    (∃ gd', (guardWithdraw w g p).guards[g]? = some gd' ∧ (gd.q.tag 1).key ∉ keys (abs gd'.q)) ∧
    (∃ e ∈ (guardWithdraw w g p).ev.pending, e.item.a = aRes ∧ e.item.b = (gd.q.tag 1).key ∧
      e.item.c = encSig sigSuccess ∧ e.d = w.now ∧ e.i = (w.proc ((gd.q.tag 1).key - 1)).prio) ∧
    (guardWithdraw w g p).now = w.now :=
  guardWithdraw_serves_next hg hall hp hi hgrant hpos hd

/-- a waiter that is still queued when it leaves is just removed (nothing was granted, nothing to pass on) -/
theorem withdraw_queued {w : World} {g : Nat} {gd : Guard} (hg : w.guards[g]? = some gd) (hwf : WF guard_queue_check gd.q)
    {p : Pid} (hp : p + 1 ∈ keys (abs gd.q)) :
    ∃ q', WF guard_queue_check q' ∧ (abs q').Perm (KPQ.remove (abs gd.q) (p + 1)) ∧ guardWithdraw w g p = setGuardQ w g q' :=
  guardWithdraw_queued hg hwf hp

/-! ### every state change that can satisfy a demand signals the right guard in the same step -/

theorem release_signals {w : World} {p : Pid} {r : Nat} {x : Res} (hx : w.res[r]? = some x) (hh : x.holder = some p) :
    execCmd w p (.release r) =
      (signal (recordRes { (removeHeld w p (.res r)).1 with
        res := (removeHeld w p (.res r)).1.res.set! r { x with holder := none } } r) x.guard, .ret 0 "") :=
  S3.release_signals hx hh

theorem drop_resource_signals {w : World} (p : Pid) {r : Nat} {x : Res} (hx : w.res[r]? = some x) :
    dropResources w p = (w.proc p).held.foldl (dropStep p) (w.modProc p fun x => { x with held := [] }) ∧
    dropStep p w (.res r) = signal (recordRes { w with res := w.res.set! r { x with holder := none } } r) x.guard ∧
    ∀ pl, dropStep p w (.pool pl) = poolDropHolder w pl p :=
  ⟨dropResources_eq w p, dropStep_res_signals p hx, fun _ => rfl⟩

theorem pool_drop_signals {w : World} {pl : Nat} {p : Pid} {x : Pool} {i : Nat} {h' : HH} {b : Bool}
    (hx : w.pools[pl]? = some x) (hi : HashHeap.findIndex x.holders (p + 1) = .ok (i + 1))
    (hr : HashHeap.remove holder_queue_check x.holders (p + 1) = .ok (h', b)) :
    poolDropHolder w pl p =
      signal (recordPool { w with pools := w.pools.set! pl { x with inUse := x.inUse - (x.holders.heap.getD (i + 1) {}).item.b, holders := h' } } pl) x.guard :=
  poolDropHolder_signals hx hi hr

theorem pool_release_signals {w : World} {p : Pid} {pl n : Nat} {x : Pool} (hx : w.pools[pl]? = some x)
    (hn : ¬ (n = 0 ∨ n > heldAmount w pl p)) :
    ∃ w1 : World, execCmd w p (.poolRelease pl n) =
      (signal (recordPool (setPoolInUse w1 pl (x.inUse - n)) pl) x.guard, .ret 0 "") :=
  poolRelease_signals hx hn

theorem pool_rollback_signals {w : World} {p : Pid} {pl initially : Nat} {x : Pool} (hx : w.pools[pl]? = some x) :
    (initially > 0 → heldAmount w pl p > initially →
      poolRollback w p pl initially =
        signal (recordPool (setPoolInUse (setHeldAmount w pl p initially) pl
          (x.inUse - (heldAmount w pl p - initially))) pl) x.guard) ∧
    (∀ h' found, HashHeap.remove holder_queue_check x.holders (p + 1) = .ok (h', found) →
      ∃ w1 : World, poolRollback w p pl 0 = signal w1 x.guard ∧
        w1.pools = (recordPool (setPoolInUse w pl (x.inUse - heldAmount w pl p)) pl).pools.modify pl
          (fun y => { y with holders := h' })) :=
  ⟨fun h0 hs => poolRollback_surplus_signals hx h0 hs, fun _ _ hr => poolRollback_zero_signals hx hr⟩

theorem pool_acquire_leftover_signals {w : World} {p : Pid} {pl rem initially : Nat} {preempt : Bool} {x : Pool}
    (hx : w.pools[pl]? = some x) (ha : x.cap - x.inUse ≥ rem) :
    poolLoop w p pl rem initially preempt =
      (signal (poolUpdateRecord (recordPool (setPoolInUse w pl (x.inUse + rem)) pl) pl p rem) x.guard,
       .ret sigSuccess "") :=
  poolLoop_done_signals hx ha

theorem buffer_get_signals {w : World} {p : Pid} {b rem got : Nat} {x : Buf} (hx : w.bufs[b]? = some x) :
    (x.level ≥ rem →
      (bufGetLoop w p b rem got).1 =
        (let w1 := signal (recordBuf { w with bufs := w.bufs.set! b { x with level := x.level - rem, getTotal := x.getTotal + rem } } b) x.rear
         if x.level - rem > 0 then signal w1 x.front else w1)) ∧
    (¬ x.level ≥ rem → x.level > 0 →
      (bufGetLoop w p b rem got).1 =
        (guardWaitEnter (signal (signal (recordBuf { w with bufs := w.bufs.set! b { x with level := 0, getTotal := x.getTotal + x.level } } b) x.rear) x.rear) x.front p (.bufContent b)).modProc p
          (fun y => { y with blocked := some (.bufGet b (rem - x.level) (got + x.level)) })) :=
  ⟨fun hl => bufGet_done_signals hx hl, fun hl hpos => bufGet_partial_signals hx hl hpos⟩

theorem buffer_put_signals {w : World} {p : Pid} {b rem left : Nat} {x : Buf} (hx : w.bufs[b]? = some x) :
    (x.cap - x.level ≥ rem →
      (bufPutLoop w p b rem left).1 =
        (let w1 := signal (recordBuf { w with bufs := w.bufs.set! b { x with level := x.level + rem, putTotal := x.putTotal + rem } } b) x.front
         if x.level + rem < x.cap then signal w1 x.rear else w1)) ∧
    (¬ x.cap - x.level ≥ rem → x.level < x.cap →
      (bufPutLoop w p b rem left).1 =
        (guardWaitEnter (signal (signal (recordBuf { w with bufs := w.bufs.set! b { x with level := x.cap, putTotal := x.putTotal + (x.cap - x.level) } } b) x.front) x.front) x.rear p (.bufSpace b)).modProc p
          (fun y => { y with blocked := some (.bufPut b (rem - (x.cap - x.level)) (left - (x.cap - x.level))) })) :=
  ⟨fun hl => bufPut_done_signals hx hl, fun hl hpos => bufPut_partial_signals hx hl hpos⟩

theorem object_queue_signals {w : World} {p : Pid} {q : Nat} {x : OQ} (hx : w.oqs[q]? = some x) :
    (∀ o rest, x.items = o :: rest →
      (oqGetLoop w p q).1 =
        signal (recordOQ { w with oqs := w.oqs.set! q { x with items := rest, gotLog := x.gotLog ++ [o] } } q) x.rear) ∧
    (∀ obj, x.items.length < x.cap →
      (oqPutLoop w p q obj).1 =
        signal (recordOQ { w with oqs := w.oqs.set! q { x with items := x.items ++ [obj], putLog := x.putLog ++ [obj] } } q)
          x.front) :=
  ⟨fun _ _ hi => oqGet_signals hx hi, fun _ hl => oqPut_signals hx hl⟩

theorem priority_queue_signals {w : World} {p : Pid} {k : Nat} {x : PQ} (hx : w.pqs[k]? = some x) :
    (∀ q' t, x.queue.count > 0 → HashHeap.dequeue compare_func x.queue = .ok (q', some t) →
      (pqGetLoop w p k).1 =
        signal (recordPQ { w with pqs := w.pqs.set! k { x with queue := q', gotLog := x.gotLog ++ [t.key] } } k) x.rear) ∧
    (∀ obj v pri q' h, x.queue.count < x.cap →
      HashHeap.enqueue compare_func x.queue ⟨obj, 0, 0, 0⟩ 0 0 pri = .ok (q', h) →
      (pqPutLoop w p k obj pri v).1 =
        signal (recordPQ (setVar { w with pqs := w.pqs.set! k { x with queue := q', putLog := x.putLog ++ [h] } } p v h) k)
          x.front) ∧
    (∀ v q', getVar w p v ≠ 0 → HashHeap.remove compare_func x.queue (getVar w p v) = .ok (q', true) →
      (execCmd w p (.pqCancel k v)).1 =
        signal (recordPQ { w with pqs := w.pqs.set! k { x with queue := q', cancelLog := x.cancelLog ++ [getVar w p v] } } k) x.rear) :=
  ⟨fun _ _ hc hd => pqGet_signals hx hc hd, fun _ _ _ _ _ hc he => pqPut_signals hx hc he,
   fun _ _ hv hr => pqCancel_signals hx hv hr⟩

/-! ### quiescence

Full statement (`grant_invariant`, `quiescent_ok` of DESIGN.md): proved at the end of this file, in a stronger, inductive
form (`grant_invariant_reachable`, `grant_pending_if_satisfiable`, `quiescent_ok`): a grant OF THAT GUARD is pending, and
for the queues as many grants as there are objects / free slots; at quiescence no waiter at all has a true demand.
`quiescent_ok_partial` below is the original derivation of quiescence from the weaker `GrantInv`. -/

theorem no_more_events_iff (w : World) : dispatch w = none ↔ w.ev.pending = [] := dispatch_none_iff w

theorem quiescent_ok_partial {w : World} (hgi : GrantInv w) (hq : dispatch w = none) (g : Nat) (gd : Guard)
    (hg : w.guards[g]? = some gd) (hc : gd.isCond = false) (hpos : 0 < gd.q.count) :
    evalDemand w (demandOf gd (gd.q.tag 1).key) = false :=
  quiescent_of_grantInv hgi hq g gd hg hc hpos

/- non-vacuity: `GrantInv` and quiescence are satisfiable together (the initial world), and a world with a pending grant
   and a non-queued grantee exists for `grant_passed_on` -/
example : GrantInv {} ∧ dispatch {} = none := by
  refine ⟨?_, by decide⟩
  intro g gd hg; simp at hg

example : ∃ (w : World) (p : Pid), EvInv w.ev ∧ ∃ e ∈ w.ev.pending, kindMatch p aRes (some sigSuccess) e = true := by
  refine ⟨pushEv {} aRes 1 sigSuccess 0 0, 0, ?_, _, List.mem_cons_self, by decide⟩
  exact pushEv_evinv (w := {}) _ _ _ _ _ (by decide) (Event.init_inv 0)


/-! ### in every reachable state

`AllInv` (Props/C04, Sim/S3All) is an invariant of `dispatch` whose clauses include `AllGWF` and the ownership of
grants; so the hypotheses of the signal theorems hold at every signal of every run, and a grant is never lost or
duplicated: -/

theorem guards_wellformed_reachable {w0 w : World} (hr : Reach w0 w) (h0 : AllInv w0) : AllGWF w := (h0.reach hr).g.gw

theorem signal_footprint_reachable {w0 w : World} (hr : Reach w0 w) (h0 : AllInv w0) (fuel : Nat) (g : Nat) :
    SigRel w (guardSignal fuel w g) := signal_footprint fuel w g (guards_wellformed_reachable hr h0)

/-- a pending grant always has an owner that will consume it or pass it on: its process is suspended in a wait on the
    guard, still awaits it, is off the waiting list, and no second grant is pending for it -/
theorem grant_has_owner {w0 w : World} (hr : Reach w0 w) (h0 : AllInv w0) {e : HTag} (he : e ∈ w.ev.pending)
    (ha : e.item.a = aRes) (hc : e.item.c = 0) :
    ∃ p g f, e.item.b = p + 1 ∧ (w.proc p).blocked = some f ∧ FrameOn w f g ∧ guardAw w p = [.guard g] ∧
      ¬ queued w g (p + 1) ∧ (∀ g', ¬ queued w g' (p + 1)) ∧
      ∀ e' ∈ w.ev.pending, isGrant e' → e'.item.b = p + 1 → e' = e :=
  (h0.reach hr).g.grant_owned he (Or.inl ⟨ha, hc⟩)

/-- whoever is in a waiting list is a suspended process that awaits exactly that guard (so a signal never wakes a
    process that is not waiting) -/
theorem waiter_registered {w0 w : World} (hr : Reach w0 w) (h0 : AllInv w0) {g k : Nat} (hq : queued w g k) :
    ∃ p f, k = p + 1 ∧ p < w.procs.size ∧ Await.guard g ∈ (w.proc p).awaits ∧ guardAw w p = [.guard g] ∧
      (w.proc p).blocked = some f ∧ FrameOn w f g := (h0.reach hr).g.queued_means hq

/-! ### the grant invariant in every reachable state; quiescence

Object ends are named by their demand predicate: `gOf w d` is the guard of the end `d` (a resource, a pool, the front /
rear of a buffer, object queue or priority queue), `need w d` what is available there in units of one grant (1 for
resources, pools and buffers, whose consumers signal again; the number of objects / free slots for the queues, whose
consumers take exactly one), `G w g` the number of pending grants (aRes, SUCCESS) whose process awaits `g`, `Qne w g`
"the waiting list of `g` is not empty".

`GrantAll S w` (Sim/S3GrantDispatch) = `AllInv` (Props/C04) ∧ `KInv S` (every handle recorded in a `hold` frame or stored
in a variable in `S` is an issued handle that is not the handle of a grant) ∧ `EndSep` (distinct object ends have distinct
guards — static) ∧ the static typing `KOk S` / `CvOk S` of the programs (the variables read by `cancelUser` /
`timerCancel` are in `S`; `pqPut` does not write a variable in `S`; with `S := CancelVar w` this is the decidable
predicate `VarsOk w`, executable form `varsOkB`) ∧, unless a fault has been recorded,
* `HG` (homogeneity): every waiter of the guard of an object end has registered that end's demand, and
* `GI`: for every object end with a non-empty waiting list, `need ≤ G`  — "a grant OF THAT GUARD for everything that is
  available".
It is preserved by `dispatch` for all programs: every command and every resumption re-establishes it (the process resumed
by a grant takes what it was granted — `need` drops — or signals again; leaving a wait for another reason passes the grant
on; process end, drops, rollbacks signal), priority changes cannot matter (homogeneity), and no handle that is cancelled
by value is the handle of a grant (`KInv`).  "Unless a fault has been recorded": the model records a corrupt hashheap
(holders of a pool, a priority queue) as a fault; faults are never cleared (C04). -/

theorem grant_all_dispatch {S : Nat → Prop} {w w' : World} (h : GrantAll S w) (hd : dispatch w = some w') : GrantAll S w' :=
  h.dispatch hd

/-- `grant_invariant`: in every reachable fault-free state, every waiter of an object end's guard has registered that
    end's demand, and for every object end with a non-empty waiting list there are at least as many pending grants of
    its guard as units available -/
theorem grant_invariant_reachable {S : Nat → Prop} {w0 w : World} (hr : Reach w0 w) (h0 : GrantAll S w0) (hf : w.fault = none) :
    (∀ d g, gOf w d = some g → ∀ gd, w.guards[g]? = some gd → ∀ k ∈ keys (abs gd.q), demandOf gd k = d) ∧
    (∀ d g, gOf w d = some g → Qne w g → need w d ≤ G w g) := by
  obtain ⟨h1, h2⟩ := (h0.reach hr).gh hf
  exact ⟨h1, fun d g hd hq => by have := h2 d g hd hq; omega⟩

/-- … in the words of the original statement: if the demand of a non-empty waiting list's object end holds, a grant is
    pending whose process is suspended in a wait on that very guard, still awaits it and is already off the list -/
theorem grant_pending_if_satisfiable {S : Nat → Prop} {w0 w : World} (hr : Reach w0 w) (h0 : GrantAll S w0) (hf : w.fault = none)
    {d : Demand} {g : Nat} (hd : gOf w d = some g) (hq : Qne w g) (hev : evalDemand w d = true) :
    ∃ e ∈ w.ev.pending, e.item.a = aRes ∧ e.item.c = 0 ∧
      ∃ p f, e.item.b = p + 1 ∧ (w.proc p).blocked = some f ∧ FrameOn w f g ∧ guardAw w p = [.guard g] ∧
        ¬ queued w g (p + 1) := by
  have hA := h0.reach hr
  have h1 := (grant_invariant_reachable hr h0 hf).2 d g hd hq
  have h2 := (evalDemand_need w d (gOf_not_cond hd)).1 hev
  have hpos : 0 < (grantKeys w g).length := by unfold G at h1; omega
  obtain ⟨k, hk⟩ := List.exists_mem_of_length_pos hpos
  obtain ⟨e, he, _, hg01, hmem⟩ := mem_grantKeys.1 hk
  obtain ⟨p, g', f, hb, hbl, hon, haw, hnq, _, _⟩ := hA.all.g.grant_owned he (Or.inl hg01)
  have hgg : g = g' := by
    rw [hb, Nat.add_sub_cancel, mem_awaits_guard, haw] at hmem
    simpa using hmem
  subst hgg
  exact ⟨e, he, hg01.1, hg01.2, p, f, hb, hbl, hon, haw, hnq⟩

/-- `quiescent_ok`: when nothing is left to dispatch in a reachable fault-free state, NO waiter of the guard of a
    resource, pool, buffer end or queue end has a demand that holds — nobody stays blocked while it could be served -/
theorem quiescent_ok {S : Nat → Prop} {w0 w : World} (hr : Reach w0 w) (h0 : GrantAll S w0) (hf : w.fault = none)
    (hq : dispatch w = none) {d : Demand} {g : Nat} (hd : gOf w d = some g) {gd : Guard} (hg : w.guards[g]? = some gd) :
    ∀ k ∈ keys (abs gd.q), demandOf gd k = d ∧ evalDemand w (demandOf gd k) = false := by
  obtain ⟨h1, h2⟩ := (h0.reach hr).quiescent hf hq hd hg
  intro k hk
  refine ⟨h1 k hk, ?_⟩
  rw [h1 k hk]
  apply h2
  intro hc
  have : (abs gd.q).length = 0 := by rw [HashHeap.abs_length]; exact hc
  obtain ⟨e, he, _⟩ := Event.mem_keys.1 hk
  rw [List.length_eq_zero_iff] at this
  rw [this] at he; cases he

/-- the hypotheses hold for every scenario the harness can express (`Built`, Props/C04) whose programs respect the
    documented precondition on signal values (`CmdOk`) and the typing of handle variables (`VarsOk`) -/
theorem grant_invariant_loader {w0 : World} (hb : Built w0) (hsz : w0.procs.size < 2 ^ 31) (hv : VarsOk w0) :
    GrantAll (CancelVar w0) w0 ∧ ∀ fuel, GrantAll (CancelVar w0) (runAll fuel w0) :=
  ⟨hb.grantAll hsz hv, hb.grantRun hsz hv⟩

theorem quiescent_ok_loader {w0 w : World} (hb : Built w0) (hsz : w0.procs.size < 2 ^ 31) (hv : VarsOk w0) (hr : Reach w0 w)
    (hf : w.fault = none) (hq : dispatch w = none) {d : Demand} {g : Nat} (hd : gOf w d = some g) {gd : Guard}
    (hg : w.guards[g]? = some gd) : ∀ k ∈ keys (abs gd.q), demandOf gd k = d ∧ evalDemand w (demandOf gd k) = false :=
  quiescent_ok hr (hb.grantAll hsz hv) hf hq hd hg

/-- the executable check of the variable typing is sound -/
theorem vars_check_sound {w : World} (h : varsOkB w = true) : VarsOk w := varsOk_of_check h

/- non-vacuity: a scenario with a resource, a subscribed condition and two competing processes (one arms a timer and
   cancels it by value) is `Built`, satisfies `VarsOk`, hence `GrantAll` holds in every state of its run -/
example : ∃ w0 : World, Built w0 ∧ VarsOk w0 ∧ w0.procs.size = 2 ∧ (∃ g, gOf w0 (.resAvail 0) = some g) ∧
    ∀ fuel, GrantAll (CancelVar w0) (runAll fuel w0) := by
  have hb : Built (autostart (autostart (subscribe (addProc (addProc (addCond (addRes {})) 0
      #[(.acquire 0, "acquire 0"), (.hold 1, "hold 1"), (.release 0, "release 0")]) 1
      #[(.timerAdd 0 2 7, "timer"), (.acquire 0, "acquire 0"), (.timerCancel 0, "cancel")]) 0 1) 0) 1) := by
    refine .start 1 (.start 0 (.sub 0 1 (.proc 1 _ (.proc 0 _ (.cond (.res .empty)) ?_) ?_)))
    · intro i c t h
      rcases i with _ | _ | _ | i <;> cases h <;> trivial
    · intro i c t h
      rcases i with _ | _ | _ | i
      · cases h; show encSig 7 ≠ 0; decide
      · cases h; trivial
      · cases h; trivial
      · cases h
  -- the process table and the resource table of that world
  have hprocs : (autostart (autostart (subscribe (addProc (addProc (addCond (addRes {})) 0
      #[(.acquire 0, "acquire 0"), (.hold 1, "hold 1"), (.release 0, "release 0")]) 1
      #[(.timerAdd 0 2 7, "timer"), (.acquire 0, "acquire 0"), (.timerCancel 0, "cancel")]) 0 1) 0) 1).procs =
      #[{ prio := 0, script := #[(.acquire 0, "acquire 0"), (.hold 1, "hold 1"), (.release 0, "release 0")] },
        { prio := 1, script := #[(.timerAdd 0 2 7, "timer"), (.acquire 0, "acquire 0"), (.timerCancel 0, "cancel")] }] := by
    simp only [autostart, sched_procs]; rfl
  have hres : (autostart (autostart (subscribe (addProc (addProc (addCond (addRes {})) 0
      #[(.acquire 0, "acquire 0"), (.hold 1, "hold 1"), (.release 0, "release 0")]) 1
      #[(.timerAdd 0 2 7, "timer"), (.acquire 0, "acquire 0"), (.timerCancel 0, "cancel")]) 0 1) 0) 1).res = #[{ guard := 0 }] := by
    simp only [autostart, sched_res]; rfl
  have hv : VarsOk (autostart (autostart (subscribe (addProc (addProc (addCond (addRes {})) 0
      #[(.acquire 0, "acquire 0"), (.hold 1, "hold 1"), (.release 0, "release 0")]) 1
      #[(.timerAdd 0 2 7, "timer"), (.acquire 0, "acquire 0"), (.timerCancel 0, "cancel")]) 0 1) 0) 1) := by
    intro p i c t hs
    unfold World.proc at hs
    rw [hprocs] at hs
    rcases p with _ | _ | p
    · rcases i with _ | _ | _ | i <;> cases hs <;> trivial
    · rcases i with _ | _ | _ | i <;> cases hs <;> trivial
    · cases hs
  have hsz : (autostart (autostart (subscribe (addProc (addProc (addCond (addRes {})) 0
      #[(.acquire 0, "acquire 0"), (.hold 1, "hold 1"), (.release 0, "release 0")]) 1
      #[(.timerAdd 0 2 7, "timer"), (.acquire 0, "acquire 0"), (.timerCancel 0, "cancel")]) 0 1) 0) 1).procs.size = 2 := by
    rw [hprocs]; rfl
  refine ⟨_, hb, hv, hsz, ⟨0, ?_⟩, fun fuel => hb.grantRun (by rw [hsz]; decide) hv fuel⟩
  simp only [gOf, hres]; rfl

/-- the original `GrantInv` (S3Grant: whenever the front waiter of a non-condition guard could be served, a grant is
    pending at the current time) is a corollary: `GT` = every pending grant is due at the current time (while a grant is
    pending the clock does not move), `Cover` = every guard that is not a condition's is the guard of an object end
    (static) -/
theorem grant_inv_reachable {S : Nat → Prop} {w0 w : World} (hr : Reach w0 w) (h0 : GrantAll S w0) (ht : GT w0) (hc : Cover w0)
    (hf : w.fault = none) : GrantInv w := by
  have hA := h0.reach hr
  have hst : Stat w0 w := by
    clear hA hf
    induction hr with
    | refl => exact Stat.refl _
    | step _ hd ih => exact ih.trans (Stat.dispatch hd)
  exact grantInv_of_all hA (GT.reach hr ht h0.all.g.ei).1 (hc.ofStat hst) hf

theorem grant_inv_loader {w0 w : World} (hb : Built w0) (hsz : w0.procs.size < 2 ^ 31) (hv : VarsOk w0) (hr : Reach w0 w)
    (hf : w.fault = none) : GrantInv w :=
  grant_inv_reachable hr (hb.grantAll hsz hv) hb.gt hb.cover hf

/- non-vacuity of `quiescent_ok_loader`: a built world with a resource and a process that is never started is quiescent,
   fault-free, and has an object end with a guard -/
example : ∃ w0 : World, Built w0 ∧ VarsOk w0 ∧ w0.procs.size < 2 ^ 31 ∧ Reach w0 w0 ∧ w0.fault = none ∧ dispatch w0 = none ∧
    ∃ g gd, gOf w0 (.resAvail 0) = some g ∧ w0.guards[g]? = some gd := by
  have hb : Built (addProc (addRes {}) 0 #[(.acquire 0, "acquire 0"), (.release 0, "release 0")]) := by
    refine .proc 0 _ (.res .empty) ?_
    intro i c t h
    rcases i with _ | _ | i <;> cases h <;> trivial
  refine ⟨_, hb, ?_, by decide, Reach.refl _, rfl, by decide, 0, { q := mkHH 3, isCond := false }, rfl, rfl⟩
  intro p i c t hs
  rcases p with _ | p
  · rcases i with _ | _ | i <;> cases hs <;> trivial
  · cases hs

end CimbaModel.Props.C08
