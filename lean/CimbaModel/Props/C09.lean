/-
  C09 — ending a process notifies waiters once, frees holdings, silences its events
  Property theorems only (the process-layer model is CimbaModel/Sim; helper lemmas in CimbaModel/Sim/S1*.lean).
-/
import CimbaModel.Sim.Basic
import CimbaModel.Sim.S1Demo
import CimbaModel.Sim.S1WaitRun
import CimbaModel.Sim.S1SilentRun
import CimbaModel.Sim.S1PoolRun
import CimbaModel.Sim.S1SilentIRun
import CimbaModel.Sim.S1Built
import CimbaModel.Sim.S3Notice2
import CimbaModel.HashHeap.Orders

namespace CimbaModel.Props.C09
open CimbaModel CimbaModel.Sim CimbaModel.Event CimbaModel.Generated CimbaModel.HashHeap.SpecOrders
open CimbaModel.HashHeap (HTag Item Order HH)

/-- the notification codes are pairwise distinct, and distinct from the success code: a waiter can tell a normal
    end (SUCCESS) from a stop (STOPPED), and both from an interrupt, a timeout, a cancellation and a preemption -/
theorem notification_codes_distinct :
    [sigSuccess, sigPreempted, sigInterrupted, sigStopped, sigCancelled, sigTimeout].Nodup := by decide

/-! ### the three ways a process ends are one function -/

/-- `exit v`, `stop` of oneself, `stop` of another running process and running off the end of the script all go through
    `finishProc` (with `stopped = false` for return / exit, `true` for a stop) -/
theorem ends_are_finishProc (w : World) (p q : Pid) (v : Int) :
    execCmd w p (.exit v) = (finishProc w p v false, .ended) ∧
    execCmd w p (.stop p v) = (finishProc w p v true, .ended) ∧
    (q ≠ p → isRunning w q = true → execCmd w p (.stop q v) = (finishProc w q v true, .ret 0 "")) ∧
    (q ≠ p → isRunning w q = false → execCmd w p (.stop q v) = (w, .ret 0 "")) := by
  refine ⟨by simp only [execCmd], by simp only [execCmd, if_true], ?_, ?_⟩
  · intro hq hr; simp only [execCmd, hq, if_false, hr, if_true]
  · intro hq hr; simp [execCmd, hq, hr]

/-- running off the end of the script is `exit 0` -/
theorem return_is_exit_zero (fuel : Nat) (w : World) (p : Pid) (hend : (w.proc p).script[(w.proc p).pc]? = none) :
    runScript (fuel + 1) w p = finishProc (w.emit s!"e {p} {w.now} 0") p 0 false := by
  simp only [runScript, hend]

/-! ### what the end leaves behind -/

/-- **the record after the end**: nothing held, nothing awaited, nobody registered as waiting, status finished, not
    suspended, and the exit value is what it returned / exited with / was stopped with -/
theorem end_record (w : World) (p : Pid) (hp : p < w.procs.size) (val : Int) (stopped : Bool) :
    ((finishProc w p val stopped).proc p).held = [] ∧
    ((finishProc w p val stopped).proc p).awaits = [] ∧
    ((finishProc w p val stopped).proc p).waiters = [] ∧
    ((finishProc w p val stopped).proc p).status = .finished ∧
    ((finishProc w p val stopped).proc p).exitVal = val ∧
    ((finishProc w p val stopped).proc p).blocked = none :=
  finishProc_record w p hp val stopped

/-- **everything it held is released**: each resource it listed has no holder afterwards, nothing else changes hands
    (pools: see C07; the release loop and its signals: `C05.end_signals_each_guard`) -/
theorem end_releases (w : World) (p : Pid) (val : Int) (stopped : Bool) (r : Nat) :
    (HoldRef.res r ∈ (w.proc p).held → (finishProc w p val stopped).holder r = none) ∧
    (HoldRef.res r ∉ (w.proc p).held → (finishProc w p val stopped).holder r = w.holder r) :=
  ⟨finishProc_frees w p val stopped r, finishProc_keeps w p val stopped r⟩

/-! ### every waiter is resumed exactly once, at that instant, with the right code -/

/-- **`wake_process_waiters`**: the pending set after the call is the pending set before it plus exactly one event per
    entry of the waiter list, carrying the waiter as subject, the process wake-up action, the given signal, the
    current time and the waiter's priority, with fresh consecutive handles; nothing is removed -/
theorem end_notifies_each_waiter (w : World) (p : Pid) (sig : Int) :
    (wakeWaiters w p sig).ev.pending =
      (wakeTags aProc sig w.now (fun q => (w.proc q).prio) w.ev.counter (w.proc p).waiters).reverse ++ w.ev.pending ∧
    (wakeTags aProc sig w.now (fun q => (w.proc q).prio) w.ev.counter (w.proc p).waiters).map (·.item.b)
      = (w.proc p).waiters.map (· + 1) ∧
    (∀ e ∈ wakeTags aProc sig w.now (fun q => (w.proc q).prio) w.ev.counter (w.proc p).waiters,
      e.item.a = aProc ∧ e.item.c = encSig sig ∧ e.d = w.now ∧ w.ev.counter < e.key ∧
        ∃ q ∈ (w.proc p).waiters, e.item.b = q + 1 ∧ e.i = (w.proc q).prio) ∧
    ((wakeWaiters w p sig).proc p).waiters = [] := by
  refine ⟨wakeWaiters_pending w p sig, wakeTags_subjects _ _ _ _ _ _, ?_, ?_⟩
  · intro e he
    obtain ⟨a, b, c, d, _, q, hq, f⟩ := mem_wakeTags he
    exact ⟨a, b, c, d, q, hq, f⟩
  · rw [wakeWaiters_waiters]; simp

/-- exactly once: with a duplicate-free waiter list, the number of new wake-ups addressed to a process is 1 if it was
    registered and 0 otherwise -/
theorem end_notifies_once (w : World) (p : Pid) (sig : Int) (hnd : (w.proc p).waiters.Nodup) (q : Pid) :
    ((wakeTags aProc sig w.now (fun q => (w.proc q).prio) w.ev.counter (w.proc p).waiters).filter
        fun e => e.item.b = q + 1).length = if q ∈ (w.proc p).waiters then 1 else 0 := by
  have h1 : ∀ (l : List HTag), (l.filter fun e => e.item.b = q + 1).length = (l.map (·.item.b)).count (q + 1) := by
    intro l
    induction l with
    | nil => rfl
    | cons a l ih =>
      simp only [List.filter_cons, List.map_cons, List.count_cons]
      by_cases e : a.item.b = q + 1
      · simp [e, ih]
      · simp [e, ih]
  rw [h1, wakeTags_subjects]
  rw [count_map_succ]
  split
  · rename_i hm; exact count_eq_one_of_nodup_mem _ _ hnd hm
  · rename_i hm; exact List.count_eq_zero.2 hm

/-- the code is SUCCESS for a normal end and STOPPED for a stop -/
theorem end_code (w : World) (p : Pid) (val : Int) (stopped : Bool) :
    finishProc w p val stopped =
      (wakeWaiters (finishMid w p stopped) p (if stopped then sigStopped else sigSuccess)).modProc p
        fun x => { x with status := .finished, exitVal := val, blocked := none } :=
  finishProc_eq w p val stopped

/-! ### a finished process stays silent in its own record, and never executes unless restarted -/

/-- **I_dead, record part.**  The record of every process that is not running awaits nothing, is not suspended and
    holds nothing; the record of every finished process is completely clean: moreover nobody is registered as waiting
    for it. -/
theorem deadRec_iff (w : World) :
    DeadRec w ↔ ∀ p, (w.proc p).status ≠ .running →
      (w.proc p).awaits = [] ∧ (w.proc p).blocked = none ∧ (w.proc p).held = [] ∧
      ((w.proc p).status = .finished → (w.proc p).waiters = []) :=
  Iff.rfl

theorem deadRec_finished {w : World} (h : DeadRec w) (p : Pid) (hp : (w.proc p).status = .finished) :
    (w.proc p).held = [] ∧ (w.proc p).awaits = [] ∧ (w.proc p).waiters = [] ∧ (w.proc p).blocked = none :=
  h.clean p hp

/-- it holds in every world in which the processes that are not running have empty records -/
theorem deadRec_init (w : World) (h : ∀ p, (w.proc p).status ≠ .running →
    (w.proc p).awaits = [] ∧ (w.proc p).blocked = none ∧ (w.proc p).held = [] ∧ (w.proc p).waiters = []) : DeadRec w :=
  fun p hp => ⟨(h p hp).1, (h p hp).2.1, (h p hp).2.2.1, fun _ => (h p hp).2.2.2⟩

/-- every command executed by a running process keeps it -/
theorem deadRec_execCmd {w : World} (h : DeadRec w) (p : Pid) (hrun : (w.proc p).status = .running) (c : Cmd) :
    DeadRec (execCmd w p c).1 := dr_execCmd h p hrun c

/-- the end of any process establishes it for that process and keeps it for the others -/
theorem deadRec_finishProc {w : World} (h : DeadRec w) (p : Pid) (val : Int) (stopped : Bool) :
    DeadRec (finishProc w p val stopped) := dr_finishProc h p val stopped

/-- **every dispatched event keeps it**, whatever the woken process then executes -/
theorem deadRec_dispatch {w w' : World} (h : DeadRec w) (hd : dispatch w = some w') : DeadRec w' := dr_dispatch h hd

/-- it holds at every instant of every run -/
theorem deadRec_runAll {w : World} (h : DeadRec w) (fuel : Nat) : DeadRec (runAll fuel w) := dr_runAll fuel h

/-- a command that does not end its caller leaves it running: a process stops executing only by ending -/
theorem runs_until_it_ends (w : World) (p : Pid) (hrun : (w.proc p).status = .running) (c : Cmd)
    (hne : ∀ w', execCmd w p c ≠ (w', .ended)) : ((execCmd w p c).1.proc p).status = .running :=
  execCmd_running w p hrun c hne

/-- **a finished process never executes**: resuming a process that is not running does nothing but record a fault (the
    wake-up actions for process ends, events, grants and condition signals additionally test `isRunning` first) -/
theorem finished_never_resumes (w : World) (p : Pid) (sig : Int) (h : (w.proc p).status = .finished) :
    resumeProc w p sig = w.fail s!"resume of a process that is not running: {p}" :=
  resumeProc_not_running w p sig (by rw [h]; decide)

/-! ### restart -/

/-- **`restart_clean`**: the dispatch of a start event for a process that is not running makes it running at the start
    of its function (pc 0), not suspended; and for a process that had finished, under `DeadRec`, with nothing awaited,
    nothing held and nobody registered as waiting -/
theorem restart_clean {w : World} (h : DeadRec w) (t : HTag) (ev' : EvQ)
    (hex : executeNext w.ev = some (t, ev')) (ha : t.item.a = aStart)
    (hp : t.item.b - 1 < w.procs.size) (hfin : (w.proc (t.item.b - 1)).status = .finished) :
    dispatch w = some (runScript ((w.proc (t.item.b - 1)).script.size + 2) (startWorld w t ev') (t.item.b - 1)) ∧
    ((startWorld w t ev').proc (t.item.b - 1)).status = .running ∧
    ((startWorld w t ev').proc (t.item.b - 1)).pc = 0 ∧
    ((startWorld w t ev').proc (t.item.b - 1)).blocked = none ∧
    ((startWorld w t ev').proc (t.item.b - 1)).awaits = [] ∧
    ((startWorld w t ev').proc (t.item.b - 1)).held = [] ∧
    ((startWorld w t ev').proc (t.item.b - 1)).waiters = [] :=
  ⟨dispatch_start w t ev' hex ha (by rw [hfin]; decide), Sim.restart_clean h t ev' hp hfin⟩

/-! ### non-vacuity -/

/-- process 2 waits for process 0, which holds the resource and is stopped with value 7: exactly one wake-up, for
    process 2 (subject 3), with the STOPPED code; the resource is free; the record is clean; the exit value is 7 -/
example : (demoWaiting.proc 0).waiters = [2] ∧ (demoWaiting.proc 0).held = [.res 0] := by decide
example : ((finishProc demoWaiting 0 7 true).ev.pending.map fun e => (e.item.a, e.item.b, e.item.c))
    = [(aProc, 3, encSig sigStopped)] := by decide
example : (finishProc demoWaiting 0 7 true).holder 0 = none ∧
    ((finishProc demoWaiting 0 7 true).proc 0).exitVal = 7 ∧
    ((finishProc demoWaiting 0 7 true).proc 0).status = .finished := by decide
example : DeadRec demoWorld := deadRec_init _ (fun p hp => by
  match p with
  | 0 => exact absurd (by decide) hp
  | 1 => exact absurd (by decide) hp
  | 2 => exact absurd (by decide) hp
  | n + 3 => simp [demoWorld, World.proc])

/-! ### the registration invariant of `wait_process` -/

/-- **`WaitersInv`** (`Sim.WInv`), in the vocabulary of the model.  A process registered on `p`'s waiter list awaits
    the end of `p`; nobody is registered twice; a process awaits at most one process end and only while suspended in
    `wait_process` on exactly that process; at most one process-end wake-up is pending per process, and a process
    with such a wake-up pending still awaits a process end and is registered nowhere.
    (The converse of the first clause — "awaits `p` ⇒ registered with `p`" — does not hold between the end of `p` and
    the waiter's resumption in the same instant: the list has been emptied, the wake-up is pending; see the example
    below.) -/
theorem waitersInv_iff (w : World) :
    WInv w ↔
      (∀ p q, q ∈ (w.proc p).waiters → Await.proc p ∈ (w.proc q).awaits) ∧
      (∀ p, (w.proc p).waiters.Nodup) ∧
      (∀ q, ((w.proc q).awaits.filterMap procOf).length ≤ 1 ∧
        ∀ p, Await.proc p ∈ (w.proc q).awaits → (w.proc q).blocked = some (.waitProc p)) ∧
      (∀ q, (w.ev.pending.countP fun e => e.item.a = aProc && e.item.b = q + 1) ≤ 1) ∧
      (∀ q, (∃ e ∈ w.ev.pending, e.item.a = aProc ∧ e.item.b = q + 1) →
        (∃ p, Await.proc p ∈ (w.proc q).awaits) ∧ ∀ p, q ∉ (w.proc p).waiters) ∧
      (∀ e ∈ w.ev.pending, e.item.a = aProc → 1 ≤ e.item.b) := by
  have hmem : ∀ q p, p ∈ w.pa q ↔ Await.proc p ∈ (w.proc q).awaits := by
    intro q p
    unfold World.pa
    rw [List.mem_filterMap]
    constructor
    · rintro ⟨a, ha, e⟩
      cases a <;> simp_all [procOf]
    · intro h; exact ⟨_, h, rfl⟩
  have hnp : ∀ q, 0 < np w q ↔ ∃ e ∈ w.ev.pending, e.item.a = aProc ∧ e.item.b = q + 1 := by
    intro q
    unfold np
    rw [cnt_pos_iff]
    constructor
    · rintro ⟨e, he, h⟩; unfold isAProc at h; simp at h; exact ⟨e, he, h⟩
    · rintro ⟨e, he, h⟩; exact ⟨e, he, by unfold isAProc; simp [h]⟩
  constructor
  · intro h
    refine ⟨fun p q hm => (hmem q p).1 (h.reg q p hm), h.nodup, ?_, h.one, ?_, h.subj⟩
    · intro q
      rcases h.frame q with e | ⟨p0, e, b⟩
      · refine ⟨by show (w.pa q).length ≤ 1; rw [e]; simp, ?_⟩
        intro p hp; have := (hmem q p).2 hp; rw [e] at this; cases this
      · refine ⟨by show (w.pa q).length ≤ 1; rw [e]; simp, ?_⟩
        intro p hp
        have := (hmem q p).2 hp
        rw [e] at this
        rw [List.mem_singleton.1 this]; exact b
    · intro q hq
      obtain ⟨a, b⟩ := h.woken q ((hnp q).2 hq)
      refine ⟨?_, b⟩
      cases hl : w.pa q with
      | nil => exact absurd hl a
      | cons p l => exact ⟨p, (hmem q p).1 (by rw [hl]; exact List.mem_cons_self)⟩
  · rintro ⟨h1, h2, h3, h4, h5, h6⟩
    refine ⟨fun p q hm => (hmem p q).2 (h1 q p hm), h2, ?_, h4, ?_, h6⟩
    · intro p
      have hl : (w.pa p).length ≤ 1 := (h3 p).1
      cases e : w.pa p with
      | nil => exact Or.inl rfl
      | cons q l =>
        right
        rw [e] at hl
        have : l = [] := by
          cases l with
          | nil => rfl
          | cons _ _ => simp at hl
        subst this
        exact ⟨q, rfl, (h3 p).2 q ((hmem p q).1 (by rw [e]; exact List.mem_cons_self))⟩
    · intro q hq
      obtain ⟨⟨p, hp⟩, b⟩ := h5 q ((hnp q).1 hq)
      refine ⟨?_, b⟩
      intro e
      have := (hmem q p).2 hp
      rw [e] at this; cases this

/-- the registration invariant holds in every world in which nobody waits for a process end -/
theorem waitersInv_init (w : World) (hw : ∀ p, (w.proc p).waiters = [])
    (ha : ∀ q p, Await.proc p ∉ (w.proc q).awaits) (he : ∀ e ∈ w.ev.pending, e.item.a ≠ aProc) : WInv w := by
  have hpa : ∀ q, w.pa q = [] := by
    intro q
    unfold World.pa
    rw [List.filterMap_eq_nil_iff]
    intro a ham
    cases a with
    | proc p => exact absurd ham (ha q p)
    | time h => rfl
    | guard g => rfl
    | event h => rfl
  have hnp : ∀ q, np w q = 0 := by
    intro q
    unfold np
    rw [cnt_zero_iff]
    intro e hem
    unfold isAProc
    have := he e hem
    simp [this]
  refine ⟨?_, ?_, fun p => Or.inl (hpa p), ?_, ?_, ?_⟩
  · intro p q hm; rw [hw] at hm; cases hm
  · intro q; rw [hw]; exact List.nodup_nil
  · intro p; rw [hnp]; omega
  · intro p hp; rw [hnp] at hp; omega
  · intro e hem h; exact absurd h (he e hem)

/-- every command keeps it (`p` executing, awaiting no process end — which the interpreter guarantees, see
    `waitersInv_dispatch`) -/
theorem waitersInv_execCmd {w : World} (h : WInv w) (p : Pid) (hp : p < w.procs.size) (hpa : w.pa p = []) (c : Cmd) :
    WInv (execCmd w p c).1 := (winv_execCmd h p hp hpa c).1

/-- the end of any process keeps it -/
theorem waitersInv_finishProc {w : World} (h : WInv w) (p : Pid) (val : Int) (stopped : Bool) :
    WInv (finishProc w p val stopped) := (winv_finishProc h p val stopped).1

/-- **every dispatched event keeps it**, whatever the woken process then executes -/
theorem waitersInv_dispatch {w w' : World} (h : WInv w) (hd : DeadRec w) (hdis : dispatch w = some w') : WInv w' :=
  winv_dispatch h hd hdis

/-- it holds at every instant of every run -/
theorem waitersInv_runAll {w : World} (h : WInv w) (hd : DeadRec w) (fuel : Nat) : WInv (runAll fuel w) :=
  winv_runAll fuel h hd

/-- **`end_notifies_once` at full strength**: under the invariant, when `p` ends every registered waiter gets exactly
    one new process-end wake-up (and had none pending before), nobody else gets one -/
theorem end_notifies_exactly_once {w : World} (h : WInv w) (p : Pid) (sig : Int) (q : Pid) :
    np (wakeWaiters w p sig) q = if q ∈ (w.proc p).waiters then 1 else np w q := by
  rw [wakeWaiters_npcount]
  split
  · rename_i hm
    have h0 : np w q = 0 := by
      apply Classical.byContradiction
      intro hn
      exact (h.woken q (by omega)).2 p hm
    rw [h0, count_eq_one_of_nodup_mem _ _ (h.nodup p) hm]
  · rename_i hm
    rw [List.count_eq_zero.2 hm]; rfl

/-- the converse registration clause fails exactly in the window between the end and the wake-up: after process 0 of
    the demo world has been stopped, process 2 still awaits it, its wake-up is pending, the waiter list is empty -/
example : ((finishProc demoWaiting 0 7 true).proc 2).awaits = [.proc 0] ∧
    ((finishProc demoWaiting 0 7 true).proc 0).waiters = [] ∧
    np (finishProc demoWaiting 0 7 true) 2 = 1 := by decide

/-! ### `end_silences`: the timers and wake-ups of a process die with it -/

/-- **`Silent`**: every pending timer, process-end wake-up, preemption wake-up and resume event is addressed to a
    process that is running -/
theorem silent_iff (w : World) :
    Silent w ↔ ∀ e ∈ w.ev.pending,
      (e.item.a = aTime ∨ e.item.a = aProc ∨ e.item.a = aPreempt ∨ e.item.a = aResume) →
        1 ≤ e.item.b ∧ (w.proc (e.item.b - 1)).status = .running := by
  unfold Silent TgtRun silentAct
  constructor
  · intro h e he ha
    exact h e he (by rcases ha with a | a | a | a <;> simp [a])
  · intro h e he ha
    exact h e he (by simp at ha; rcases ha with ((a | a) | a) | a <;> simp [a])

theorem silent_init (w : World) (h : w.ev.pending = []) : Silent w := by
  intro e he; rw [h] at he; cases he

/-- **the four invariants together** (`HolderInv`, `WaitersInv`, `DeadRec`, `Silent`) are preserved by every
    dispatched event, for every program and schedule -/
theorem allInv_dispatch {w w' : World} (h : AllInv w) (hd : dispatch w = some w') : AllInv w' :=
  allinv_dispatch h hd

theorem allInv_runAll {w : World} (h : AllInv w) (fuel : Nat) : AllInv (runAll fuel w) := allinv_runAll fuel h

/-- the end of a process keeps them -/
theorem allInv_finishProc {w : World} (h : AllInv w) (p : Pid) (val : Int) (stopped : Bool) :
    AllInv (finishProc w p val stopped) := allinv_finishProc h p val stopped

/-- every command of a running process that awaits no process end keeps them -/
theorem allInv_execCmd {w : World} (h : AllInv w) (p : Pid) (hp : p < w.procs.size)
    (hrun : (w.proc p).status = .running) (hpa : w.pa p = []) (c : Cmd) : AllInv (execCmd w p c).1 :=
  allinv_execCmd h p hp hrun hpa c

/-- **`end_silences_partial`**.  Under the invariants, at every instant of every run: for a process that is not
    running (in particular a finished one) no timer, no process-end wake-up, no preemption wake-up and no resume event
    is pending — none of them fires after its end.

    Full statement (task item 6, `DeadInv`): *no* event with subject `p+1` other than a start event is pending for a
    finished `p`, and `guardEnqueued w g p = false` for every guard.  Not covered here: the event wake-ups (`aEvent`),
    grants (`aRes`), condition wake-ups (`aCond`) and interrupts (`aIntr`, which the pool's mugging loop also uses):
    their targets come from the event-waiter lists, the guards' waiting lists and the pools' holder lists, and showing
    that a finished process is on none of these needs the registration invariants for those three registries
    (the analogue of `WaitersInv`; see notes/S1.md). -/
theorem end_silences_partial {w : World} (h : AllInv w) (p : Pid) (hp : (w.proc p).status ≠ .running) :
    ∀ e ∈ w.ev.pending, e.item.b = p + 1 →
      e.item.a ≠ aTime ∧ e.item.a ≠ aProc ∧ e.item.a ≠ aPreempt ∧ e.item.a ≠ aResume := by
  intro e he hb
  have := h.silent.none_for p hp e he hb
  unfold silentAct at this
  simp at this
  exact ⟨this.1.1.1, this.1.1.2, this.1.2, this.2⟩

/-- in particular right after the end of `p` (whoever ended it) -/
theorem end_silences_at_end {w : World} (h : AllInv w) (p : Pid) (hp : p < w.procs.size) (val : Int) (stopped : Bool) :
    ∀ e ∈ (finishProc w p val stopped).ev.pending, e.item.b = p + 1 →
      e.item.a ≠ aTime ∧ e.item.a ≠ aProc ∧ e.item.a ≠ aPreempt ∧ e.item.a ≠ aResume :=
  end_silences_partial (allinv_finishProc h p val stopped) p
    (by rw [(finishProc_record w p hp val stopped).2.2.2.1]; decide)

/-- non-vacuity: the demo world satisfies the four invariants, so they hold along all its runs -/
example : AllInv demoWorld := by
  have hproc : ∀ n, demoWorld.proc (n + 3) = {} := fun n => by simp [demoWorld, World.proc]
  have hheld : ∀ p, (demoWorld.proc p).held = [] := by
    intro p
    match p with
    | 0 => decide
    | 1 => decide
    | 2 => decide
    | n + 3 => rw [hproc]
  have haw : ∀ p, (demoWorld.proc p).awaits = [] := by
    intro p
    match p with
    | 0 => decide
    | 1 => decide
    | 2 => decide
    | n + 3 => rw [hproc]
  have hwt : ∀ p, (demoWorld.proc p).waiters = [] := by
    intro p
    match p with
    | 0 => decide
    | 1 => decide
    | 2 => decide
    | n + 3 => rw [hproc]
  have hbl : ∀ p, (demoWorld.proc p).blocked = none := by
    intro p
    match p with
    | 0 => decide
    | 1 => decide
    | 2 => decide
    | n + 3 => rw [hproc]
  refine ⟨?_, ?_, ?_, silent_init _ rfl⟩
  · intro r p
    have hc : demoWorld.hcount p r = 0 := by unfold World.hcount; rw [hheld]; rfl
    have hh : demoWorld.holder r = none := by
      match r with
      | 0 => decide
      | n + 1 => exact holder_none_of_no_res _ _ (by simp [demoWorld])
    rw [hc, hh]; rfl
  · exact waitersInv_init _ hwt (fun q p => by rw [haw]; simp) (fun e he => by cases he)
  · intro p _; exact ⟨haw p, hbl p, hheld p, fun _ => hwt p⟩

/-! ### pools: everything it held is released -/

/-- **the pool-holder invariant** (`Sim.PInv`): the holder list of every pool is a well-formed hashheap, and every
    process on it lists that pool among its holdings (process indices fit the 64-bit keys) -/
theorem poolHolderInv_iff (w : World) :
    PInv w ↔ w.procs.size < 2 ^ 64 ∧
      (∀ (pl : Nat) (x : Pool), w.pools[pl]? = some x → HashHeap.WF holder_queue_check x.holders) ∧
      (∀ (pl : Nat) (x : Pool) (p : Pid), w.pools[pl]? = some x → p + 1 ∈ KPQ.keys (HashHeap.abs x.holders) →
        HoldRef.pool pl ∈ (w.proc p).held) := by
  constructor
  · intro h
    refine ⟨h.small, fun pl x hx => h.wf pl x.holders (ph_eq w pl x hx), ?_⟩
    intro pl x p hx hk
    exact h.listed pl p (by rw [hk_eq w pl x hx]; exact hk)
  · rintro ⟨h1, h2, h3⟩
    refine ⟨h1, ?_, ?_⟩
    · intro pl hh hph
      unfold World.ph at hph
      cases hx : w.pools[pl]? with
      | none => rw [hx] at hph; cases hph
      | some x =>
        rw [hx] at hph; injection hph with hph; subst hph
        exact h2 pl x hx
    · intro pl p hk
      unfold World.hk World.ph at hk
      cases hx : w.pools[pl]? with
      | none => rw [hx] at hk; cases hk
      | some x =>
        rw [hx] at hk
        exact h3 pl x p hx hk

/-- it holds when every holder list is freshly initialised (`cmi_hashheap_initialize` with a valid exponent) -/
theorem poolHolderInv_init (w : World) (hs : w.procs.size < 2 ^ 64)
    (hp : ∀ (pl : Nat) (x : Pool), w.pools[pl]? = some x → ∃ e, 1 ≤ e ∧ e ≤ 31 ∧ x.holders = mkHH e) : PInv w := by
  have hmk : ∀ e, 1 ≤ e → e ≤ 31 → HashHeap.WF holder_queue_check (mkHH e) ∧ HashHeap.abs (mkHH e) = [] := by
    intro e h1 h31
    obtain ⟨s, hi, hwf, habs, _⟩ := HashHeap.init_spec (lt := holder_queue_check) e h1 h31
    unfold mkHH; rw [hi]; exact ⟨hwf, habs⟩
  rw [poolHolderInv_iff]
  refine ⟨hs, ?_, ?_⟩
  · intro pl x hx
    obtain ⟨e, h1, h31, he⟩ := hp pl x hx
    rw [he]; exact (hmk e h1 h31).1
  · intro pl x p hx hk
    obtain ⟨e, h1, h31, he⟩ := hp pl x hx
    rw [he, (hmk e h1 h31).2] at hk
    cases hk

/-- **every dispatched event keeps it**, for every program and schedule: acquiring, preempting (mugging lower-priority
    holders), releasing, rolling back an interrupted acquisition, ending while holding, changing priorities -/
theorem poolHolderInv_dispatch {w w' : World} (h : PInv w) (hd : dispatch w = some w') : PInv w' := pinv_dispatch h hd

theorem poolHolderInv_runAll {w : World} (h : PInv w) (fuel : Nat) : PInv (runAll fuel w) := pinv_runAll fuel h

theorem poolHolderInv_execCmd {w : World} (h : PInv w) (p : Pid) (hp : p < w.procs.size) (c : Cmd) :
    PInv (execCmd w p c).1 := pinv_execCmd h p hp c

/-- **after its end a process is on no pool's holder list** (return, exit, stop) -/
theorem end_releases_pools {w : World} (h : PInv w) (p : Pid) (val : Int) (stopped : Bool) (pl : Nat) (x : Pool)
    (hx : (finishProc w p val stopped).pools[pl]? = some x) :
    p + 1 ∉ KPQ.keys (HashHeap.abs x.holders) := by
  have := finishProc_off h p val stopped pl
  rw [hk_eq _ pl x hx] at this
  exact this

/-- at every instant: a process that is not running (in particular a finished one) is on no pool's holder list, i.e.
    the mugging loop of a preempting acquisition only ever takes from running processes -/
theorem pool_holders_are_running {w : World} (h : PInv w) (hd : DeadRec w) (pl : Nat) (x : Pool)
    (hx : w.pools[pl]? = some x) (p : Pid) (hk : p + 1 ∈ KPQ.keys (HashHeap.abs x.holders)) :
    (w.proc p).status = .running := by
  apply Classical.byContradiction
  intro hnr
  exact h.not_running hd p hnr pl (by rw [hk_eq w pl x hx]; exact hk)

/-! ### all invariants together; interrupts -/

/-- **`FullInv`** = `HolderInv ∧ WaitersInv ∧ DeadRec ∧ Silent ∧ PoolHolderInv ∧ SilentI` is preserved by every
    dispatched event, for every program and schedule -/
theorem fullInv_dispatch {w w' : World} (h : FullInv w) (hd : dispatch w = some w') : FullInv w' :=
  fullinv_dispatch h hd

theorem fullInv_runAll {w : World} (h : FullInv w) (fuel : Nat) : FullInv (runAll fuel w) := fullinv_runAll fuel h

theorem fullInv_execCmd {w : World} (h : FullInv w) (p : Pid) (hp : p < w.procs.size)
    (hrun : (w.proc p).status = .running) (hpa : w.pa p = []) (c : Cmd) : FullInv (execCmd w p c).1 :=
  fullinv_execCmd h p hp hrun hpa c

theorem fullInv_finishProc {w : World} (h : FullInv w) (p : Pid) (val : Int) (stopped : Bool) :
    FullInv (finishProc w p val stopped) := fullinv_finishProc h p val stopped

/-- `SilentI`: every pending interrupt wake-up (from the `interrupt` command or from the mugging loop of a preempting
    pool acquisition) is addressed to a running process -/
theorem silentI_iff (w : World) :
    SilentI w ↔ ∀ e ∈ w.ev.pending, e.item.a = aIntr → 1 ≤ e.item.b ∧ (w.proc (e.item.b - 1)).status = .running :=
  Iff.rfl

/-- **`end_silences_partial`, five kinds**: under the invariants, for a process that is not running no timer,
    process-end wake-up, preemption wake-up, resume event or interrupt is pending.  (Still open: event wake-ups,
    grants and condition wake-ups — see `end_silences_partial`.) -/
theorem end_silences_partial_five {w : World} (h : FullInv w) (p : Pid) (hp : (w.proc p).status ≠ .running) :
    ∀ e ∈ w.ev.pending, e.item.b = p + 1 →
      e.item.a ≠ aTime ∧ e.item.a ≠ aProc ∧ e.item.a ≠ aPreempt ∧ e.item.a ≠ aResume ∧ e.item.a ≠ aIntr := by
  intro e he hb
  obtain ⟨a, b, c, d⟩ := end_silences_partial h.all p hp e he hb
  exact ⟨a, b, c, d, h.intr.none_for p hp e he hb⟩

/-! ### non-vacuity of the dispatch-level theorems: a complete run -/

/-- the scenario world (three processes, one resource, start events pending) satisfies all the invariants … -/
theorem scenario_fullInv : FullInv scenWorld := by
  have hproc : ∀ n, scenWorld.proc (n + 3) = {} := fun n => by simp [scenWorld, World.proc, sched, schedule]
  have hall : ∀ p, (scenWorld.proc p).held = [] ∧ (scenWorld.proc p).awaits = [] ∧ (scenWorld.proc p).waiters = [] ∧
      (scenWorld.proc p).blocked = none := by
    intro p
    match p with
    | 0 => decide
    | 1 => decide
    | 2 => decide
    | n + 3 => rw [hproc]; exact ⟨rfl, rfl, rfl, rfl⟩
  have hpend : ∀ e ∈ scenWorld.ev.pending, e.item.a = aStart := by decide
  refine ⟨⟨?_, ?_, ?_, ?_⟩, ?_, ?_⟩
  · intro r p
    have hc : scenWorld.hcount p r = 0 := by unfold World.hcount; rw [(hall p).1]; rfl
    have hh : scenWorld.holder r = none := by
      match r with
      | 0 => decide
      | n + 1 => exact holder_none_of_no_res _ _ (by simp [scenWorld, sched, schedule])
    rw [hc, hh]; rfl
  · exact waitersInv_init _ (fun p => (hall p).2.2.1) (fun q p => by rw [(hall q).2.1]; simp)
      (fun e he => by rw [hpend e he]; decide)
  · intro p _; exact ⟨(hall p).2.1, (hall p).2.2.2, (hall p).1, fun _ => (hall p).2.2.1⟩
  · intro e he hs; rw [hpend e he] at hs; exact absurd hs (by decide)
  · refine ⟨by decide, ?_, ?_⟩
    · intro pl h hph
      have : scenWorld.ph pl = none := by simp [World.ph, scenWorld, sched, schedule]
      rw [this] at hph; cases hph
    · intro pl p hk
      have : scenWorld.hk pl = [] := by simp [World.hk, World.ph, scenWorld, sched, schedule]
      rw [this] at hk; cases hk
  · intro e he hi; rw [hpend e he] at hi; exact absurd hi (by decide)

/-- … hence so does every world of its run (an instance of `fullInv_runAll`) … -/
theorem scenario_run_fullInv (fuel : Nat) : FullInv (runAll fuel scenWorld) := fullInv_runAll scenario_fullInv fuel

/-- … and the run is not trivial: it ends without fault, all three processes have finished (process 2 with exit value 3),
    nobody holds anything, the resource is free and no event is left -/
theorem scenario_run_result :
    (runAll 100 scenWorld).fault = none ∧
    ((runAll 100 scenWorld).procs.map fun p => (p.status.toNat, p.exitVal, p.held.length))
      = #[(2, 0, 0), (2, 0, 0), (2, 3, 0)] ∧
    (runAll 100 scenWorld).holder 0 = none ∧ (runAll 100 scenWorld).ev.pending = [] := by decide +kernel

/-! ### `end_silences`, full statement (S1 invariants + the ownership invariants of S3) -/

/-- what it means that process `p` has left no trace in world `w` -/
structure Silenced (w : World) (p : Pid) : Prop where
  /-- (a) no wake-up of any kind is pending for it: timer, process end, preemption, resume, interrupt, event-wait
      wake-up, condition wake-up, resource / pool / buffer / queue grant -/
  no_wakeup : ∀ e ∈ w.ev.pending, e.item.b = p + 1 →
    e.item.a ≠ aTime ∧ e.item.a ≠ aProc ∧ e.item.a ≠ aPreempt ∧ e.item.a ≠ aResume ∧ e.item.a ≠ aIntr ∧
    e.item.a ≠ aEvent ∧ e.item.a ≠ aCond ∧ ¬ (e.item.a = aRes ∧ e.item.c = 0)
  /-- (b) it is in no guard's waiting list -/
  no_guard : ∀ g, guardEnqueued w g p = false
  no_guard_key : ∀ (g : Nat) (gd : Guard), w.guards[g]? = some gd → p + 1 ∉ KPQ.keys (HashHeap.abs gd.q)
  /-- in no process's waiter list -/
  no_waiter : ∀ q, p ∉ (w.proc q).waiters
  /-- in no event's waiter list -/
  no_event_waiter : ∀ (k : Nat) (l : List Pid), (k, l) ∈ w.evWaiters → p ∉ l
  /-- holds no resource -/
  no_resource : ∀ (r : Nat) (x : Res), w.res[r]? = some x → x.holder ≠ some p
  /-- on no pool's holder list, holds no pool units -/
  no_pool : ∀ (pl : Nat) (x : Pool), w.pools[pl]? = some x → p + 1 ∉ KPQ.keys (HashHeap.abs x.holders)
  no_units : ∀ pl, heldAmount w pl p = 0
  /-- and its own record lists nothing -/
  record : (w.proc p).held = [] ∧ (w.proc p).awaits = [] ∧ (w.proc p).blocked = none

theorem silenced_of_endInv {w : World} (h : EndInv w) (p : Pid) (hp : (w.proc p).status ≠ .running) : Silenced w p where
  no_wakeup := fun e he hb => h.no_wakeup p hp e he hb
  no_guard := fun g => h.guardEnqueued_false p hp g
  no_guard_key := fun g gd hg hm => h.not_queued p hp g ⟨gd, hg, hm⟩
  no_waiter := fun q => h.not_waiter p hp q
  no_event_waiter := fun k l hm => h.not_event_waiter p hp k l hm
  no_resource := fun r x hx => h.not_holder p hp r x hx
  no_pool := fun pl x hx => h.not_pool_holder p hp pl x hx
  no_units := fun pl => h.heldAmount_zero p hp pl
  record := ⟨(h.inert p hp).2.2, (h.inert p hp).1, (h.inert p hp).2.1⟩

/-- **`end_silences`**.  In every state reachable (by any number of dispatched events, for any programs and schedules)
    from an initial world satisfying the combined initial conditions — the S1 invariants `FullInv` and S3's
    `InitOkG ∧ SideOk` — every process that is not running, in particular every finished one, is silenced: no wake-up
    of any kind is pending for it, it is in no guard's waiting list, in no process's waiter list, in no event's waiter
    list, it holds no resource and no pool units, and its record lists nothing held or awaited.
    (Not covered: the cancellation *notice* of `cmb_condition_cancel`, an `aRes` event with a non-SUCCESS code; if one is
    still pending when its addressee ends, `finishProc` cancels it with all other events of that process, but that it
    cannot be created for a process that is not running is not proved here.) -/
theorem end_silences {w0 w : World} (hi : InitAll w0) (hr : S3.Reach w0 w) (p : Pid)
    (hp : (w.proc p).status ≠ .running) : Silenced w p :=
  silenced_of_endInv (reach_endInv hi hr) p hp

/-- the same along `runAll` -/
theorem end_silences_run {w0 : World} (hi : InitAll w0) (fuel : Nat) (p : Pid)
    (hp : ((runAll fuel w0).proc p).status ≠ .running) : Silenced (runAll fuel w0) p :=
  silenced_of_endInv (runAll_endInv hi fuel) p hp

/-- every world the scenario loader can build (fewer than 2³¹ processes, programs respecting the documented
    precondition on signal values) satisfies the combined initial conditions, so `end_silences` holds along all its
    runs without further hypotheses -/
theorem end_silences_built {w0 w : World} (hb : S3.Built w0) (hsz : w0.procs.size < 2 ^ 31) (hr : S3.Reach w0 w)
    (p : Pid) (hp : (w.proc p).status ≠ .running) : Silenced w p :=
  end_silences (built_initAll hb hsz) hr p hp

/-- the combined invariant is preserved by every command (so it also holds at every command boundary inside a
    dispatch) and by the end of any process … -/
theorem endInv_execCmd {w : World} (h : EndInv w) (hside : S3.SideOk w) (p : Pid) (hp : p < w.procs.size)
    (hrun : (w.proc p).status = .running) (hb : (w.proc p).blocked = none) (c : Cmd) (hok : S3.CmdOk c) :
    EndInv (execCmd w p c).1 := h.execCmd hside p hp hrun hb c hok

theorem endInv_reachable {w0 w : World} (hi : InitAll w0) (hr : S3.Reach w0 w) : EndInv w := reach_endInv hi hr

/-- … hence **`end_silences_at_end_full`**: immediately after the end of `p` (return, exit, stop by another process
    or by itself — also in the middle of a dispatch, before anything else runs) `p` is silenced -/
theorem end_silences_at_end_full {w : World} (h : EndInv w) (p : Pid) (hp : p < w.procs.size) (val : Int)
    (stopped : Bool) : Silenced (finishProc w p val stopped) p :=
  silenced_of_endInv (h.finishProc p val stopped) p
    (by rw [(finishProc_record w p hp val stopped).2.2.2.1]; decide)

/-! non-vacuity: a loader-built scenario in which a process is stopped while it is queued on a guard and while another
    process waits for it -/

/-- just before the stop (5 events dispatched): process 1 is queued on the resource's guard and process 2 is registered
    as waiting for it … -/
theorem endScen_before : guardEnqueued (runAll 5 endScen) 0 1 = true ∧ ((runAll 5 endScen).proc 1).waiters = [2] ∧
    ((runAll 5 endScen).proc 1).status = .running := by decide +kernel

/-- … one event later it has been stopped with value 7, the waiter's STOPPED wake-up is the only pending event … -/
theorem endScen_after : ((runAll 6 endScen).proc 1).status = .finished ∧ ((runAll 6 endScen).proc 1).exitVal = 7 ∧
    ((runAll 6 endScen).ev.pending.map fun e => (e.item.a, e.item.b, decSig e.item.c)) = [(aProc, 3, sigStopped)] := by
  decide +kernel

/-- … and, as an instance of `end_silences`, process 1 is silenced -/
theorem endScen_silenced : Silenced (runAll 6 endScen) 1 :=
  end_silences_run (built_initAll endScen_built (by decide)) 6 1 (by rw [endScen_after.1]; decide)

/-! ### `end_silences_all`: … and no cancellation notice either

The remaining kind of wake-up: the CANCELLED notice of `cmb_condition_cancel` (an `aRes` event with a non-SUCCESS code).
`S3.NI` (Sim/S3Notice*: every pending notice is addressed to a running process) is an invariant of `dispatch`: a notice is
created only for a process that is on the condition's waiting list — suspended, hence running —, and `finishProc` cancels
every pending event of the ending process before its status changes. -/

theorem cancelled_notice_owner_reachable {w0 w : World} (hr : S3.Reach w0 w) (hi : S3.InitOkG w0) (hs : S3.SideOk w0)
    (hn : S3.NI w0) :
    ∀ e ∈ w.ev.pending, e.item.a = aRes → e.item.c ≠ 0 → 1 ≤ e.item.b ∧ (w.proc (e.item.b - 1)).status = .running :=
  S3.cancelled_notice_owner_reachable hr hi hs hn

/-- **`end_silences_all`** = `end_silences` + no pending `aRes` event of any kind (grant or cancellation notice) for a
    process that is not running: every wake-up kind of the library is covered.  `S3.NI w0` (no notice pending initially for
    a process that is not running) holds for every loader-built world. -/
theorem end_silences_all {w0 w : World} (hi : InitAll w0) (hn : S3.NI w0) (hr : S3.Reach w0 w) (p : Pid)
    (hp : (w.proc p).status ≠ .running) :
    Silenced w p ∧ ∀ e ∈ w.ev.pending, e.item.b = p + 1 → e.item.a ≠ aRes := by
  have hs := end_silences hi hr p hp
  refine ⟨hs, ?_⟩
  intro e he hb ha
  by_cases hc : e.item.c = 0
  · exact (hs.no_wakeup e he hb).2.2.2.2.2.2.2 ⟨ha, hc⟩
  · have := (S3.cancelled_notice_owner_reachable hr hi.ok hi.side hn e he ha hc).2
    rw [hb, Nat.add_sub_cancel] at this
    exact hp this

theorem end_silences_all_built {w0 w : World} (hb : S3.Built w0) (hsz : w0.procs.size < 2 ^ 31) (hr : S3.Reach w0 w)
    (p : Pid) (hp : (w.proc p).status ≠ .running) :
    Silenced w p ∧ ∀ e ∈ w.ev.pending, e.item.b = p + 1 → e.item.a ≠ aRes :=
  end_silences_all (built_initAll hb hsz) hb.ni hr p hp

/-- non-vacuity: in the stop scenario above the stopped process is silenced in this strongest sense -/
theorem endScen_silenced_all : Silenced (runAll 6 endScen) 1 ∧
    ∀ e ∈ (runAll 6 endScen).ev.pending, e.item.b = 1 + 1 → e.item.a ≠ aRes := by
  refine ⟨endScen_silenced, ?_⟩
  intro e he hb ha
  have h3 := endScen_after.2.2
  have : (e.item.a, e.item.b, decSig e.item.c) ∈ (runAll 6 endScen).ev.pending.map fun e => (e.item.a, e.item.b, decSig e.item.c) :=
    List.mem_map.2 ⟨e, he, rfl⟩
  rw [h3] at this
  simp only [List.mem_singleton, Prod.mk.injEq] at this
  rw [this.1] at ha; exact absurd ha (by decide)

end CimbaModel.Props.C09
