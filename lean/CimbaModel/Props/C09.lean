/-
  C09 — ending a process notifies waiters once, frees holdings, silences its events
  Property theorems only (the process-layer model is CimbaModel/Sim; helper lemmas in CimbaModel/Sim/*).
-/
import CimbaModel.Sim.Basic
import CimbaModel.HashHeap.Orders

namespace CimbaModel.Props.C09
open CimbaModel CimbaModel.Sim CimbaModel.Event CimbaModel.Generated CimbaModel.HashHeap.SpecOrders
open CimbaModel.HashHeap (HTag Item Order HH)

/-- the notification codes are pairwise distinct, and distinct from the success code: a waiter can tell a normal
    end (SUCCESS) from a stop (STOPPED), and both from an interrupt, a timeout, a cancellation and a preemption -/
theorem notification_codes_distinct :
    [sigSuccess, sigPreempted, sigInterrupted, sigStopped, sigCancelled, sigTimeout].Nodup := by decide

end CimbaModel.Props.C09
