/-
  C09 — ending a process notifies waiters once, frees holdings, silences its events
  Property theorems only (the process-layer model is CimbaModel/Sim; helper lemmas in CimbaModel/Sim/S1*.lean).
-/
import CimbaModel.Sim.Basic
import CimbaModel.Sim.S1Demo
import CimbaModel.HashHeap.Orders

namespace CimbaModel.Props.C09
open CimbaModel CimbaModel.Sim CimbaModel.Event CimbaModel.Generated CimbaModel.HashHeap.SpecOrders
open CimbaModel.HashHeap (HTag Item Order HH)

/-- the notification codes are pairwise distinct, and distinct from the success code: a waiter can tell a normal
    end (SUCCESS) from a stop (STOPPED), and both from an interrupt, a timeout, a cancellation and a preemption -/
theorem notification_codes_distinct :
    [sigSuccess, sigPreempted, sigInterrupted, sigStopped, sigCancelled, sigTimeout].Nodup := by decide

/-! ### the three ways a process ends are one function -/

/-- `exit v`, `stop` of oneself, `stop` of another running process and running off the end of the script all go through
    `finishProc` (with `stopped = false` for return / exit, `true` for a stop) -/
theorem ends_are_finishProc (w : World) (p q : Pid) (v : Int) :
    execCmd w p (.exit v) = (finishProc w p v false, .ended) ∧
    execCmd w p (.stop p v) = (finishProc w p v true, .ended) ∧
    (q ≠ p → isRunning w q = true → execCmd w p (.stop q v) = (finishProc w q v true, .ret 0 "")) ∧
    (q ≠ p → isRunning w q = false → execCmd w p (.stop q v) = (w, .ret 0 "")) := by
  refine ⟨by simp only [execCmd], by simp only [execCmd, if_true], ?_, ?_⟩
  · intro hq hr; simp only [execCmd, hq, if_false, hr, if_true]
  · intro hq hr; simp [execCmd, hq, hr]

/-- running off the end of the script is `exit 0` -/
theorem return_is_exit_zero (fuel : Nat) (w : World) (p : Pid) (hend : (w.proc p).script[(w.proc p).pc]? = none) :
    runScript (fuel + 1) w p = finishProc (w.emit s!"e {p} {w.now} 0") p 0 false := by
  simp only [runScript, hend]

/-! ### what the end leaves behind -/

/-- **the record after the end**: nothing held, nothing awaited, nobody registered as waiting, status finished, not
    suspended, and the exit value is what it returned / exited with / was stopped with -/
theorem end_record (w : World) (p : Pid) (hp : p < w.procs.size) (val : Int) (stopped : Bool) :
    ((finishProc w p val stopped).proc p).held = [] ∧
    ((finishProc w p val stopped).proc p).awaits = [] ∧
    ((finishProc w p val stopped).proc p).waiters = [] ∧
    ((finishProc w p val stopped).proc p).status = .finished ∧
    ((finishProc w p val stopped).proc p).exitVal = val ∧
    ((finishProc w p val stopped).proc p).blocked = none :=
  finishProc_record w p hp val stopped

/-- **everything it held is released**: each resource it listed has no holder afterwards, nothing else changes hands
    (pools: see C07; the release loop and its signals: `C05.end_signals_each_guard`) -/
theorem end_releases (w : World) (p : Pid) (val : Int) (stopped : Bool) (r : Nat) :
    (HoldRef.res r ∈ (w.proc p).held → (finishProc w p val stopped).holder r = none) ∧
    (HoldRef.res r ∉ (w.proc p).held → (finishProc w p val stopped).holder r = w.holder r) :=
  ⟨finishProc_frees w p val stopped r, finishProc_keeps w p val stopped r⟩

/-! ### every waiter is resumed exactly once, at that instant, with the right code -/

/-- **`wake_process_waiters`**: the pending set after the call is the pending set before it plus exactly one event per
    entry of the waiter list, carrying the waiter as subject, the process wake-up action, the given signal, the
    current time and the waiter's priority, with fresh consecutive handles; nothing is removed -/
theorem end_notifies_each_waiter (w : World) (p : Pid) (sig : Int) :
    (wakeWaiters w p sig).ev.pending =
      (wakeTags aProc sig w.now (fun q => (w.proc q).prio) w.ev.counter (w.proc p).waiters).reverse ++ w.ev.pending ∧
    (wakeTags aProc sig w.now (fun q => (w.proc q).prio) w.ev.counter (w.proc p).waiters).map (·.item.b)
      = (w.proc p).waiters.map (· + 1) ∧
    (∀ e ∈ wakeTags aProc sig w.now (fun q => (w.proc q).prio) w.ev.counter (w.proc p).waiters,
      e.item.a = aProc ∧ e.item.c = encSig sig ∧ e.d = w.now ∧ w.ev.counter < e.key ∧
        ∃ q ∈ (w.proc p).waiters, e.item.b = q + 1 ∧ e.i = (w.proc q).prio) ∧
    ((wakeWaiters w p sig).proc p).waiters = [] := by
  refine ⟨wakeWaiters_pending w p sig, wakeTags_subjects _ _ _ _ _ _, ?_, ?_⟩
  · intro e he
    obtain ⟨a, b, c, d, _, q, hq, f⟩ := mem_wakeTags he
    exact ⟨a, b, c, d, q, hq, f⟩
  · rw [wakeWaiters_waiters]; simp

/-- exactly once: with a duplicate-free waiter list, the number of new wake-ups addressed to a process is 1 if it was
    registered and 0 otherwise -/
theorem end_notifies_once (w : World) (p : Pid) (sig : Int) (hnd : (w.proc p).waiters.Nodup) (q : Pid) :
    ((wakeTags aProc sig w.now (fun q => (w.proc q).prio) w.ev.counter (w.proc p).waiters).filter
        fun e => e.item.b = q + 1).length = if q ∈ (w.proc p).waiters then 1 else 0 := by
  have h1 : ∀ (l : List HTag), (l.filter fun e => e.item.b = q + 1).length = (l.map (·.item.b)).count (q + 1) := by
    intro l
    induction l with
    | nil => rfl
    | cons a l ih =>
      simp only [List.filter_cons, List.map_cons, List.count_cons]
      by_cases e : a.item.b = q + 1
      · simp [e, ih]
      · simp [e, ih]
  rw [h1, wakeTags_subjects]
  rw [count_map_succ]
  split
  · rename_i hm; exact count_eq_one_of_nodup_mem _ _ hnd hm
  · rename_i hm; exact List.count_eq_zero.2 hm

/-- the code is SUCCESS for a normal end and STOPPED for a stop -/
theorem end_code (w : World) (p : Pid) (val : Int) (stopped : Bool) :
    finishProc w p val stopped =
      (wakeWaiters (finishMid w p stopped) p (if stopped then sigStopped else sigSuccess)).modProc p
        fun x => { x with status := .finished, exitVal := val, blocked := none } :=
  finishProc_eq w p val stopped

/-! ### a finished process stays silent in its own record, and never executes unless restarted -/

/-- **I_dead, record part.**  The record of every process that is not running awaits nothing and is not suspended;
    the record of every finished process is completely clean: nothing held, nothing awaited, nobody registered as
    waiting for it, not suspended. -/
theorem deadRec_iff (w : World) :
    DeadRec w ↔ ∀ p, (w.proc p).status ≠ .running →
      (w.proc p).awaits = [] ∧ (w.proc p).blocked = none ∧
      ((w.proc p).status = .finished → (w.proc p).held = [] ∧ (w.proc p).waiters = []) :=
  Iff.rfl

theorem deadRec_finished {w : World} (h : DeadRec w) (p : Pid) (hp : (w.proc p).status = .finished) :
    (w.proc p).held = [] ∧ (w.proc p).awaits = [] ∧ (w.proc p).waiters = [] ∧ (w.proc p).blocked = none :=
  h.clean p hp

/-- it holds in every world in which the processes that are not running have empty records -/
theorem deadRec_init (w : World) (h : ∀ p, (w.proc p).status ≠ .running →
    (w.proc p).awaits = [] ∧ (w.proc p).blocked = none ∧ (w.proc p).held = [] ∧ (w.proc p).waiters = []) : DeadRec w :=
  fun p hp => ⟨(h p hp).1, (h p hp).2.1, fun _ => (h p hp).2.2⟩

/-- every command executed by a running process keeps it -/
theorem deadRec_execCmd {w : World} (h : DeadRec w) (p : Pid) (hrun : (w.proc p).status = .running) (c : Cmd) :
    DeadRec (execCmd w p c).1 := dr_execCmd h p hrun c

/-- the end of any process establishes it for that process and keeps it for the others -/
theorem deadRec_finishProc {w : World} (h : DeadRec w) (p : Pid) (val : Int) (stopped : Bool) :
    DeadRec (finishProc w p val stopped) := dr_finishProc h p val stopped

/-- **every dispatched event keeps it**, whatever the woken process then executes -/
theorem deadRec_dispatch {w w' : World} (h : DeadRec w) (hd : dispatch w = some w') : DeadRec w' := dr_dispatch h hd

/-- it holds at every instant of every run -/
theorem deadRec_runAll {w : World} (h : DeadRec w) (fuel : Nat) : DeadRec (runAll fuel w) := dr_runAll fuel h

/-- a command that does not end its caller leaves it running: a process stops executing only by ending -/
theorem runs_until_it_ends (w : World) (p : Pid) (hrun : (w.proc p).status = .running) (c : Cmd)
    (hne : ∀ w', execCmd w p c ≠ (w', .ended)) : ((execCmd w p c).1.proc p).status = .running :=
  execCmd_running w p hrun c hne

/-- **a finished process never executes**: resuming a process that is not running does nothing but record a fault (the
    wake-up actions for process ends, events, grants and condition signals additionally test `isRunning` first) -/
theorem finished_never_resumes (w : World) (p : Pid) (sig : Int) (h : (w.proc p).status = .finished) :
    resumeProc w p sig = w.fail s!"resume of a process that is not running: {p}" :=
  resumeProc_not_running w p sig (by rw [h]; decide)

/-! ### restart -/

/-- **`restart_clean`**: the dispatch of a start event for a process that is not running makes it running at the start
    of its function (pc 0), not suspended; and for a process that had finished, under `DeadRec`, with nothing awaited,
    nothing held and nobody registered as waiting -/
theorem restart_clean {w : World} (h : DeadRec w) (t : HTag) (ev' : EvQ)
    (hex : executeNext w.ev = some (t, ev')) (ha : t.item.a = aStart)
    (hp : t.item.b - 1 < w.procs.size) (hfin : (w.proc (t.item.b - 1)).status = .finished) :
    dispatch w = some (runScript ((w.proc (t.item.b - 1)).script.size + 2) (startWorld w t ev') (t.item.b - 1)) ∧
    ((startWorld w t ev').proc (t.item.b - 1)).status = .running ∧
    ((startWorld w t ev').proc (t.item.b - 1)).pc = 0 ∧
    ((startWorld w t ev').proc (t.item.b - 1)).blocked = none ∧
    ((startWorld w t ev').proc (t.item.b - 1)).awaits = [] ∧
    ((startWorld w t ev').proc (t.item.b - 1)).held = [] ∧
    ((startWorld w t ev').proc (t.item.b - 1)).waiters = [] :=
  ⟨dispatch_start w t ev' hex ha (by rw [hfin]; decide), Sim.restart_clean h t ev' hp hfin⟩

/-! ### non-vacuity -/

/-- process 2 waits for process 0, which holds the resource and is stopped with value 7: exactly one wake-up, for
    process 2 (subject 3), with the STOPPED code; the resource is free; the record is clean; the exit value is 7 -/
example : (demoWaiting.proc 0).waiters = [2] ∧ (demoWaiting.proc 0).held = [.res 0] := by decide
example : ((finishProc demoWaiting 0 7 true).ev.pending.map fun e => (e.item.a, e.item.b, e.item.c))
    = [(aProc, 3, encSig sigStopped)] := by decide
example : (finishProc demoWaiting 0 7 true).holder 0 = none ∧
    ((finishProc demoWaiting 0 7 true).proc 0).exitVal = 7 ∧
    ((finishProc demoWaiting 0 7 true).proc 0).status = .finished := by decide
example : DeadRec demoWorld := deadRec_init _ (fun p hp => by
  match p with
  | 0 => exact absurd (by decide) hp
  | 1 => exact absurd (by decide) hp
  | 2 => exact absurd (by decide) hp
  | n + 3 => simp [demoWorld, World.proc])

end CimbaModel.Props.C09
