/-
  C05 — a resource has at most one holder at any time (mutual exclusion)
  Property theorems only (the process-layer model is CimbaModel/Sim; helper lemmas in CimbaModel/Sim/*).
-/
import CimbaModel.Sim.Basic
import CimbaModel.HashHeap.Orders

namespace CimbaModel.Props.C05
open CimbaModel CimbaModel.Sim CimbaModel.Event CimbaModel.Generated CimbaModel.HashHeap.SpecOrders
open CimbaModel.HashHeap (HTag Item Order HH)

/-- a waiter's demand on a resource is satisfied exactly when nobody holds it -/
theorem resource_demand_iff_free (w : World) (r : Nat) (x : Res) (hx : w.res[r]? = some x) :
    evalDemand w (.resAvail r) = true ↔ x.holder = none := by
  simp [evalDemand, hx, Option.isNone_iff_eq_none]

/-- `acquire` never takes a resource that somebody holds: the caller queues up and blocks -/
theorem acquire_of_held_blocks (w : World) (p q : Pid) (r : Nat) (x : Res)
    (hx : w.res[r]? = some x) (hq : x.holder = some q) :
    ∃ w', acquireStep w p r = (w', .blocked) ∧ w'.res = w.res := by
  unfold acquireStep
  simp only [hx, hq]
  refine ⟨_, rfl, ?_⟩
  simp only [block, World.modProc, guardWaitEnter]
  split
  · simp [World.fail]; split <;> rfl
  · split
    · simp [addAwait, World.modProc]
    · simp [World.fail]; split <;> rfl

end CimbaModel.Props.C05
