/-
  C05 — a resource has at most one holder at any time (mutual exclusion)
  Property theorems only (the process-layer model is CimbaModel/Sim; helper lemmas in CimbaModel/Sim/S1*.lean).
-/
import CimbaModel.Sim.Basic
import CimbaModel.Sim.S1Demo
import CimbaModel.HashHeap.Orders

namespace CimbaModel.Props.C05
open CimbaModel CimbaModel.Sim CimbaModel.Event CimbaModel.Generated CimbaModel.HashHeap.SpecOrders
open CimbaModel.HashHeap (HTag Item Order HH)

/-- a waiter's demand on a resource is satisfied exactly when nobody holds it -/
theorem resource_demand_iff_free (w : World) (r : Nat) (x : Res) (hx : w.res[r]? = some x) :
    evalDemand w (.resAvail r) = true ↔ x.holder = none := by
  simp [evalDemand, hx, Option.isNone_iff_eq_none]

/-- `acquire` never takes a resource that somebody holds: the caller queues up and blocks -/
theorem acquire_of_held_blocks (w : World) (p q : Pid) (r : Nat) (x : Res)
    (hx : w.res[r]? = some x) (hq : x.holder = some q) :
    ∃ w', acquireStep w p r = (w', .blocked) ∧ w'.res = w.res := by
  unfold acquireStep
  simp only [hx, hq]
  refine ⟨_, rfl, ?_⟩
  simp

/-! ### the holder invariant -/

/-- **The holder invariant.**  For every resource `r` of the world and every process `p`:
    the resource names `p` as its holder exactly when `p` lists the resource among what it holds; no process lists a
    resource twice; a holder is a process of the table; and nobody lists a resource that does not exist. -/
structure HolderInv (w : World) : Prop where
  agree : ∀ (r : Nat) (x : Res) (p : Pid), w.res[r]? = some x → p < w.procs.size → (x.holder = some p ↔ HoldRef.res r ∈ (w.proc p).held)
  once : ∀ p r, (w.proc p).held.count (.res r) ≤ 1
  bound : ∀ (r : Nat) (x : Res) (p : Pid), w.res[r]? = some x → x.holder = some p → p < w.procs.size
  real : ∀ r p, w.res[r]? = none → HoldRef.res r ∉ (w.proc p).held

/-- the invariant in the one-line form used by the proofs: process `p` lists resource `r` once if it is the holder and
    not at all otherwise -/
theorem holderInv_iff (w : World) : HolderInv w ↔ HInv w := by
  constructor
  · intro h r p
    unfold World.hcount
    cases hx : w.res[r]? with
    | none =>
      rw [holder_none_of_no_res w r hx]
      simp only [reduceCtorEq, if_false]
      exact List.count_eq_zero.2 (h.real r p hx)
    | some x =>
      rw [holder_eq w r x hx]
      by_cases e : x.holder = some p
      · have hp := h.bound r x p hx e
        have hm := (h.agree r x p hx hp).1 e
        have := h.once p r
        have : 0 < (w.proc p).held.count (.res r) := List.count_pos_iff.2 hm
        rw [if_pos e]; omega
      · rw [if_neg e]
        apply List.count_eq_zero.2
        intro hm
        have hp := lt_np_of_held w p _ hm
        exact e ((h.agree r x p hx hp).2 hm)
  · intro h
    refine ⟨?_, ?_, ?_, ?_⟩
    · intro r x p hx _
      rw [h.mem_iff r p, holder_eq w r x hx]
    · intro p r; exact h.count_le_one r p
    · intro r x p hx hh
      exact h.holder_lt r p (by rw [holder_eq w r x hx, hh])
    · intro r p hx hm
      have := (h.mem_iff r p).1 hm
      rw [holder_none_of_no_res w r hx] at this
      cases this

/-- **at most one holder**: two processes that both list a resource are the same process -/
theorem at_most_one_holder {w : World} (h : HolderInv w) (r : Nat) (p q : Pid)
    (hp : HoldRef.res r ∈ (w.proc p).held) (hq : HoldRef.res r ∈ (w.proc q).held) : p = q :=
  ((holderInv_iff w).1 h).unique r p q hp hq

/-- the invariant holds in every world in which no resource has a holder and no process lists a resource -/
theorem holderInv_init (w : World) (hres : ∀ (r : Nat) (x : Res), w.res[r]? = some x → x.holder = none)
    (hheld : ∀ p r, HoldRef.res r ∉ (w.proc p).held) : HolderInv w := by
  refine ⟨?_, ?_, ?_, ?_⟩
  · intro r x p hx _
    rw [hres r x hx]
    constructor
    · intro e; cases e
    · intro m; exact absurd m (hheld p r)
  · intro p r
    rw [List.count_eq_zero.2 (hheld p r)]; omega
  · intro r x p hx hh
    rw [hres r x hx] at hh; cases hh
  · intro r p _; exact hheld p r

/-- every command of every script keeps the invariant (`p` any process of the table) -/
theorem holderInv_execCmd {w : World} (h : HolderInv w) (p : Pid) (hp : p < w.procs.size) (c : Cmd) :
    HolderInv (execCmd w p c).1 :=
  (holderInv_iff _).2 (hinv_execCmd ((holderInv_iff w).1 h) p hp c)

/-- every continuation of a suspended library call keeps the invariant -/
theorem holderInv_resumeFrame {w : World} (h : HolderInv w) (p : Pid) (hp : p < w.procs.size) (f : Frame) (sig : Int) :
    HolderInv (resumeFrame w p f sig).1 :=
  (holderInv_iff _).2 (hinv_resumeFrame ((holderInv_iff w).1 h) p hp f sig)

/-- the end of a process (return, exit, stop) keeps the invariant -/
theorem holderInv_finishProc {w : World} (h : HolderInv w) (p : Pid) (val : Int) (stopped : Bool) :
    HolderInv (finishProc w p val stopped) :=
  (holderInv_iff _).2 (hinv_finishProc ((holderInv_iff w).1 h) p val stopped)

/-- running a process until it blocks or ends keeps the invariant, for any script and any amount of fuel -/
theorem holderInv_runScript {w : World} (h : HolderInv w) (fuel : Nat) (p : Pid) : HolderInv (runScript fuel w p) :=
  (holderInv_iff _).2 (hinv_runScript fuel ((holderInv_iff w).1 h) p)

/-- **every dispatched event keeps the invariant**: whatever event is next (start, timer, wake-up of any kind,
    interrupt, resume, user event), whatever the woken process then executes until it blocks or ends -/
theorem holderInv_dispatch {w w' : World} (h : HolderInv w) (hd : dispatch w = some w') : HolderInv w' :=
  (holderInv_iff _).2 (hinv_dispatch ((holderInv_iff w).1 h) hd)

/-- the invariant holds at every instant of every run -/
theorem holderInv_runAll {w : World} (h : HolderInv w) (fuel : Nat) : HolderInv (runAll fuel w) :=
  (holderInv_iff _).2 (hinv_runAll fuel ((holderInv_iff w).1 h))

/-! ### `grab` is only ever called on a free resource; what success means -/

/-- the holder field in the vocabulary of the model -/
theorem holder_some_iff (w : World) (r : Nat) (p : Pid) :
    w.holder r = some p ↔ ∃ x, w.res[r]? = some x ∧ x.holder = some p := by
  cases hx : w.res[r]? with
  | none => simp [holder_none_of_no_res w r hx]
  | some x => simp [holder_eq w r x hx]

/-- on a free resource `grab` is the double update and raises no fault; on a held one the model records a fault, so the
    absence of faults in the validated runs means it never happened there; the three theorems after this one show it
    cannot happen at all -/
theorem grab_free_is_clean (w : World) (r : Nat) (p : Pid) (x : Res) (hx : w.res[r]? = some x) (hf : x.holder = none) :
    (grab w r p).fault = w.fault ∧ (grab w r p).holder r = some p :=
  ⟨grab_free_fault w r p x hx hf, grab_holder w r p x hx⟩

theorem grab_held_is_a_fault (w : World) (r : Nat) (p q : Pid) (x : Res) (hx : w.res[r]? = some x)
    (hq : x.holder = some q) (hok : w.fault = none) : (grab w r p).fault = some s!"grab of held resource {r}" :=
  grab_held_faults w r p q x hx hq hok

/-- call site 1 (`acquire`, and the re-check of a resumed `acquire`): `grab` exactly when the holder field is empty -/
theorem grab_only_when_free_acquire (w : World) (p : Pid) (r : Nat) (x : Res) (hx : w.res[r]? = some x) :
    (x.holder = none → acquireStep w p r = (recordRes (grab w r p) r, .ret sigSuccess "")) ∧
    (∀ q, x.holder = some q →
      acquireStep w p r = block (guardWaitEnter w x.guard p (.resAvail r)) p (.acquire r)) :=
  ⟨acquireStep_free w p r x hx, fun q => acquireStep_held w p q r x hx⟩

/-- call site 2 (a waiting `acquire` resumed with the success code): the same re-check, in the world after the wait's
    epilogue, which has not touched the resource -/
theorem grab_only_when_free_resume (w : World) (p : Pid) (r : Nat) (x : Res) (hx : w.res[r]? = some x) :
    resumeFrame w p (.acquire r) sigSuccess = acquireStep (guardWaitLeave w x.guard p sigSuccess) p r ∧
    (guardWaitLeave w x.guard p sigSuccess).res = w.res := by
  constructor
  · simp only [resumeFrame, hx, if_true]
  · simp

/-- call site 3 (`preempt` against a holder of lower or equal priority): the victim is relieved first, so the `grab`
    is a grab of a free resource -/
theorem grab_only_when_free_preempt (w : World) (p victim : Pid) (r : Nat) (x : Res) (hx : w.res[r]? = some x)
    (hv : x.holder = some victim) (hne : victim ≠ p) (hpri : (w.proc p).prio ≥ (w.proc victim).prio) :
    execCmd w p (.preempt r) = (grab (preemptMid w r victim) r p, .ret sigSuccess "") ∧
    (preemptMid w r victim).res[r]? = some { x with holder := none } :=
  ⟨preempt_victim_eq w p victim r x hx hv hne hpri, preemptMid_free w r victim x hx⟩

/-- **mutual exclusion, `acquire`**: if `acquire r` by `p` returns the success code, then nobody held `r` before the call
    and afterwards `p` is the holder — the only process listing `r` -/
theorem acquire_success_exclusive {w : World} (h : HolderInv w) (p : Pid) (hp : p < w.procs.size) (r : Nat) (x : Res)
    (hx : w.res[r]? = some x) (w' : World) (e : String)
    (hret : execCmd w p (.acquire r) = (w', .ret sigSuccess e)) :
    x.holder = none ∧ (∃ x', w'.res[r]? = some x' ∧ x'.holder = some p) ∧ HolderInv w' ∧
      ∀ q, HoldRef.res r ∈ (w'.proc q).held ↔ q = p := by
  obtain ⟨a, b, c⟩ := acquire_success ((holderInv_iff w).1 h) p hp r x hx w' e hret
  refine ⟨a, (holder_some_iff _ _ _).1 b, (holderInv_iff _).2 c, fun q => ?_⟩
  rw [c.mem_iff r q, b]
  constructor
  · intro e; exact (Option.some.inj e).symm
  · intro e; rw [e]

/-- the same for a waiting `acquire` that is resumed: it reports success only if it was resumed with the success code and
    its re-check found the resource free -/
theorem resumed_acquire_success_exclusive {w : World} (h : HolderInv w) (p : Pid) (hp : p < w.procs.size) (r : Nat)
    (x : Res) (hx : w.res[r]? = some x) (sig : Int) (w' : World) (e : String)
    (hret : resumeFrame w p (.acquire r) sig = (w', .ret sigSuccess e)) :
    sig = sigSuccess ∧ x.holder = none ∧ (∃ x', w'.res[r]? = some x' ∧ x'.holder = some p) ∧ HolderInv w' ∧
      ∀ q, HoldRef.res r ∈ (w'.proc q).held ↔ q = p := by
  obtain ⟨s, a, b, c⟩ := resume_acquire_success ((holderInv_iff w).1 h) p hp r x hx sig w' e hret
  refine ⟨s, a, (holder_some_iff _ _ _).1 b, (holderInv_iff _).2 c, fun q => ?_⟩
  rw [c.mem_iff r q, b]
  constructor
  · intro e; exact (Option.some.inj e).symm
  · intro e; rw [e]

/-- **mutual exclusion, `preempt`**: if `preempt r` by `p` returns the success code, then either nobody held `r`, or the
    previous holder `q` had a priority not above `p`'s, no longer lists `r`, and has a PREEMPTED wake-up pending at the
    current time; afterwards `p` is the only process listing `r` -/
theorem preempt_success_exclusive {w : World} (h : HolderInv w) (p : Pid) (hp : p < w.procs.size) (r : Nat) (x : Res)
    (hx : w.res[r]? = some x) (w' : World) (e : String)
    (hret : execCmd w p (.preempt r) = (w', .ret sigSuccess e)) :
    (∃ x', w'.res[r]? = some x' ∧ x'.holder = some p) ∧ HolderInv w' ∧
    (∀ q, HoldRef.res r ∈ (w'.proc q).held ↔ q = p) ∧
    (x.holder = none ∨
      ∃ q, x.holder = some q ∧ q ≠ p ∧ (w.proc q).prio ≤ (w.proc p).prio ∧ HoldRef.res r ∉ (w'.proc q).held ∧
        ∃ ev ∈ w'.ev.pending, ev.item.a = aPreempt ∧ ev.item.b = q + 1 ∧ ev.item.c = encSig sigPreempted ∧
          ev.d = w.now) := by
  obtain ⟨b, c, d⟩ := preempt_success ((holderInv_iff w).1 h) p hp r x hx w' e hret
  refine ⟨(holder_some_iff _ _ _).1 b, (holderInv_iff _).2 c, fun q => ?_, d⟩
  rw [c.mem_iff r q, b]
  constructor
  · intro e; exact (Option.some.inj e).symm
  · intro e; rw [e]

/-- while somebody else holds the resource, `acquire` does not return: no other process's acquire succeeds between a
    successful acquire/preempt and the holder's release, loss by preemption, or end -/
theorem acquire_blocks_while_held (w : World) (p q : Pid) (r : Nat) (x : Res)
    (hx : w.res[r]? = some x) (hq : x.holder = some q) : (execCmd w p (.acquire r)).2 = .blocked := by
  simp only [execCmd]
  rw [acquireStep_held w p q r x hx hq]; rfl

/-- … and a `preempt` by a process of lower priority than the holder's waits as well -/
theorem preempt_blocks_below_holder (w : World) (p q : Pid) (r : Nat) (x : Res)
    (hx : w.res[r]? = some x) (hq : x.holder = some q) (hne : q ≠ p) (hpri : (w.proc p).prio < (w.proc q).prio) :
    (execCmd w p (.preempt r)).2 = .blocked := by
  have h1 : ¬ some q = some p := fun e => hne (Option.some.inj e)
  have h2 : ¬ (w.proc p).prio ≥ (w.proc q).prio := by omega
  simp only [execCmd, hx, hq, h1, if_false, h2]
  rw [acquireStep_held w p q r x hx hq]; rfl

/-! ### the queries describe the unique holder -/

/-- **holder / in-use / available agree with the processes' own records**: under the invariant, the holder query names
    exactly the process that lists the resource; the in-use count (also the value written to the history) is the total
    number of listings over all processes, hence 0 or 1; "available" (what waiters' demands and the guard test) holds
    exactly when nobody lists it -/
theorem queries_agree {w : World} (h : HolderInv w) (r : Nat) (x : Res) (hx : w.res[r]? = some x) :
    (∀ p, x.holder = some p ↔ HoldRef.res r ∈ (w.proc p).held) ∧
    ((if x.holder.isSome then 1 else 0) =
      ((List.range w.procs.size).map fun p => (w.proc p).held.count (.res r)).sum) ∧
    (evalDemand w (.resAvail r) = true ↔ ∀ p, HoldRef.res r ∉ (w.proc p).held) ∧
    (evalDemand w (.cond 1 r 0) = true ↔ ∀ p, HoldRef.res r ∉ (w.proc p).held) := by
  have hi := (holderInv_iff w).1 h
  refine ⟨holder_iff_listed hi r x hx, inUse_eq_listed hi r x hx, available_iff_unlisted hi r x hx, ?_⟩
  have e : evalDemand w (.cond 1 r 0) = evalDemand w (.resAvail r) := rfl
  rw [e]; exact available_iff_unlisted hi r x hx

/-! ### ending or stopping the holder frees the resource -/

/-- **`end_frees`**: after the end of `p` (return / exit: `stopped = false`; stop by another process or by itself:
    `stopped = true`) every resource `p` listed has no holder, every other resource has the holder it had, the other
    processes' lists are untouched, `p` lists nothing, and the invariant holds again — so the next waiter's demand
    ("nobody holds it") is satisfied -/
theorem end_frees {w : World} (h : HolderInv w) (p : Pid) (val : Int) (stopped : Bool) :
    (∀ r, HoldRef.res r ∈ (w.proc p).held → (finishProc w p val stopped).holder r = none) ∧
    (∀ r, HoldRef.res r ∉ (w.proc p).held → (finishProc w p val stopped).holder r = w.holder r) ∧
    (∀ q, q ≠ p → ((finishProc w p val stopped).proc q).held = (w.proc q).held) ∧
    (p < w.procs.size → ((finishProc w p val stopped).proc p).held = []) ∧
    HolderInv (finishProc w p val stopped) :=
  ⟨fun r hr => finishProc_frees w p val stopped r hr, fun r hr => finishProc_keeps w p val stopped r hr,
   fun q hq => finishProc_held_other w p q hq val stopped,
   fun hp => (finishProc_record w p hp val stopped).1, holderInv_finishProc h p val stopped⟩

/-- the release of each holding is followed by a signal to that resource's guard: `cmi_process_drop_resources` is the
    left fold, over the list of holdings, of "clear the holder field; record; signal the guard" (pools: drop the
    holder record, record, signal) -/
theorem end_signals_each_guard (w : World) (p : Pid) :
    dropResources w p = (w.proc p).held.foldl (dropStep p) (w.modProc p fun x => { x with held := [] }) ∧
    (∀ (w' : World) (r : Nat) (x : Res), w'.res[r]? = some x →
      dropStep p w' (.res r) =
        signal (recordRes { w' with res := w'.res.set! r { x with holder := none } } r) x.guard) := by
  refine ⟨dropResources_eq w p, ?_⟩
  intro w' r x hx
  simp [dropStep, hx]

/-- … and a signal to a guard whose front waiter's demand holds schedules that waiter's resumption with the success
    code at the current time -/
theorem signal_offers_to_front_waiter (w : World) (g : Nat) (gd : Guard) (hg : w.guards[g]? = some gd)
    (hne : gd.q.count ≠ 0) (t : HTag) (hpeek : HashHeap.peek gd.q = .ok (some t))
    (hdem : evalDemand w ((gd.demands.lookup t.key).getD (.cond 99 0 0)) = true)
    (q' : HH) (x : Option HTag) (hdeq : HashHeap.dequeue guard_queue_check gd.q = .ok (q', x)) :
    ∃ e ∈ (signal w g).ev.pending, e.item.a = aRes ∧ e.item.b = t.key - 1 + 1 ∧ e.item.c = encSig sigSuccess ∧
      e.d = w.now ∧ e.i = (w.proc (t.key - 1)).prio :=
  signal_grants_front w g gd hg hne t hpeek hdem q' x hdeq

/-! ### non-vacuity: a concrete world (two running processes of priorities 0 and 5, one resource) -/

/-- the invariant's hypotheses are satisfiable, and the theorems apply to a world in which the resource is held -/
example : HolderInv demoWorld := by
  apply holderInv_init
  · intro r x hx
    match r with
    | 0 => simp [demoWorld] at hx; rw [← hx]
    | n + 1 => simp [demoWorld] at hx
  · intro p r
    have h0 : (demoWorld.proc 0).held = [] := by decide
    have h1 : (demoWorld.proc 1).held = [] := by decide
    have h2 : (demoWorld.proc 2).held = [] := by decide
    match p with
    | 0 => rw [h0]; simp
    | 1 => rw [h1]; simp
    | 2 => rw [h2]; simp
    | n + 3 => simp [demoWorld, World.proc]

example : demoHeld.holder 0 = some 0 ∧ (demoHeld.proc 0).held = [.res 0] := by decide
/-- a second `acquire` blocks, a `preempt` by the higher-priority process succeeds and relieves the first holder -/
example : (match (execCmd demoHeld 1 (.acquire 0)).2 with | .blocked => true | _ => false) = true := by decide
example : (execCmd demoHeld 1 (.preempt 0)).1.holder 0 = some 1 ∧
    ((execCmd demoHeld 1 (.preempt 0)).1.proc 0).held = [] ∧
    ((execCmd demoHeld 1 (.preempt 0)).1.ev.pending.map fun e => (e.item.a, e.item.b)) = [(aPreempt, 1)] := by decide
/-- stopping the holder frees the resource -/
example : (finishProc demoHeld 0 7 true).holder 0 = none := by decide

end CimbaModel.Props.C05
