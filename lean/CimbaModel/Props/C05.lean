/-
  C05 — a resource has at most one holder at any time (mutual exclusion)
  Property theorems only (the process-layer model is CimbaModel/Sim; helper lemmas in CimbaModel/Sim/S1*.lean).
-/
import CimbaModel.Sim.Basic
import CimbaModel.Sim.S1HolderStep
import CimbaModel.HashHeap.Orders

namespace CimbaModel.Props.C05
open CimbaModel CimbaModel.Sim CimbaModel.Event CimbaModel.Generated CimbaModel.HashHeap.SpecOrders
open CimbaModel.HashHeap (HTag Item Order HH)

/-- a waiter's demand on a resource is satisfied exactly when nobody holds it -/
theorem resource_demand_iff_free (w : World) (r : Nat) (x : Res) (hx : w.res[r]? = some x) :
    evalDemand w (.resAvail r) = true ↔ x.holder = none := by
  simp [evalDemand, hx, Option.isNone_iff_eq_none]

/-- `acquire` never takes a resource that somebody holds: the caller queues up and blocks -/
theorem acquire_of_held_blocks (w : World) (p q : Pid) (r : Nat) (x : Res)
    (hx : w.res[r]? = some x) (hq : x.holder = some q) :
    ∃ w', acquireStep w p r = (w', .blocked) ∧ w'.res = w.res := by
  unfold acquireStep
  simp only [hx, hq]
  refine ⟨_, rfl, ?_⟩
  simp

/-! ### the holder invariant -/

/-- **The holder invariant.**  For every resource `r` of the world and every process `p`:
    the resource names `p` as its holder exactly when `p` lists the resource among what it holds; no process lists a
    resource twice; a holder is a process of the table; and nobody lists a resource that does not exist. -/
structure HolderInv (w : World) : Prop where
  agree : ∀ (r : Nat) (x : Res) (p : Pid), w.res[r]? = some x → p < w.procs.size → (x.holder = some p ↔ HoldRef.res r ∈ (w.proc p).held)
  once : ∀ p r, (w.proc p).held.count (.res r) ≤ 1
  bound : ∀ (r : Nat) (x : Res) (p : Pid), w.res[r]? = some x → x.holder = some p → p < w.procs.size
  real : ∀ r p, w.res[r]? = none → HoldRef.res r ∉ (w.proc p).held

/-- the invariant in the one-line form used by the proofs: process `p` lists resource `r` once if it is the holder and
    not at all otherwise -/
theorem holderInv_iff (w : World) : HolderInv w ↔ HInv w := by
  constructor
  · intro h r p
    unfold World.hcount
    cases hx : w.res[r]? with
    | none =>
      rw [holder_none_of_no_res w r hx]
      simp only [reduceCtorEq, if_false]
      exact List.count_eq_zero.2 (h.real r p hx)
    | some x =>
      rw [holder_eq w r x hx]
      by_cases e : x.holder = some p
      · have hp := h.bound r x p hx e
        have hm := (h.agree r x p hx hp).1 e
        have := h.once p r
        have : 0 < (w.proc p).held.count (.res r) := List.count_pos_iff.2 hm
        rw [if_pos e]; omega
      · rw [if_neg e]
        apply List.count_eq_zero.2
        intro hm
        have hp := lt_np_of_held w p _ hm
        exact e ((h.agree r x p hx hp).2 hm)
  · intro h
    refine ⟨?_, ?_, ?_, ?_⟩
    · intro r x p hx _
      rw [h.mem_iff r p, holder_eq w r x hx]
    · intro p r; exact h.count_le_one r p
    · intro r x p hx hh
      exact h.holder_lt r p (by rw [holder_eq w r x hx, hh])
    · intro r p hx hm
      have := (h.mem_iff r p).1 hm
      rw [holder_none_of_no_res w r hx] at this
      cases this

/-- **at most one holder**: two processes that both list a resource are the same process -/
theorem at_most_one_holder {w : World} (h : HolderInv w) (r : Nat) (p q : Pid)
    (hp : HoldRef.res r ∈ (w.proc p).held) (hq : HoldRef.res r ∈ (w.proc q).held) : p = q :=
  ((holderInv_iff w).1 h).unique r p q hp hq

/-- the invariant holds in every world in which no resource has a holder and no process lists a resource -/
theorem holderInv_init (w : World) (hres : ∀ (r : Nat) (x : Res), w.res[r]? = some x → x.holder = none)
    (hheld : ∀ p r, HoldRef.res r ∉ (w.proc p).held) : HolderInv w := by
  refine ⟨?_, ?_, ?_, ?_⟩
  · intro r x p hx _
    rw [hres r x hx]
    constructor
    · intro e; cases e
    · intro m; exact absurd m (hheld p r)
  · intro p r
    rw [List.count_eq_zero.2 (hheld p r)]; omega
  · intro r x p hx hh
    rw [hres r x hx] at hh; cases hh
  · intro r p _; exact hheld p r

/-- every command of every script keeps the invariant (`p` any process of the table) -/
theorem holderInv_execCmd {w : World} (h : HolderInv w) (p : Pid) (hp : p < w.procs.size) (c : Cmd) :
    HolderInv (execCmd w p c).1 :=
  (holderInv_iff _).2 (hinv_execCmd ((holderInv_iff w).1 h) p hp c)

/-- every continuation of a suspended library call keeps the invariant -/
theorem holderInv_resumeFrame {w : World} (h : HolderInv w) (p : Pid) (hp : p < w.procs.size) (f : Frame) (sig : Int) :
    HolderInv (resumeFrame w p f sig).1 :=
  (holderInv_iff _).2 (hinv_resumeFrame ((holderInv_iff w).1 h) p hp f sig)

/-- the end of a process (return, exit, stop) keeps the invariant -/
theorem holderInv_finishProc {w : World} (h : HolderInv w) (p : Pid) (val : Int) (stopped : Bool) :
    HolderInv (finishProc w p val stopped) :=
  (holderInv_iff _).2 (hinv_finishProc ((holderInv_iff w).1 h) p val stopped)

/-- running a process until it blocks or ends keeps the invariant, for any script and any amount of fuel -/
theorem holderInv_runScript {w : World} (h : HolderInv w) (fuel : Nat) (p : Pid) : HolderInv (runScript fuel w p) :=
  (holderInv_iff _).2 (hinv_runScript fuel ((holderInv_iff w).1 h) p)

/-- **every dispatched event keeps the invariant**: whatever event is next (start, timer, wake-up of any kind,
    interrupt, resume, user event), whatever the woken process then executes until it blocks or ends -/
theorem holderInv_dispatch {w w' : World} (h : HolderInv w) (hd : dispatch w = some w') : HolderInv w' :=
  (holderInv_iff _).2 (hinv_dispatch ((holderInv_iff w).1 h) hd)

/-- the invariant holds at every instant of every run -/
theorem holderInv_runAll {w : World} (h : HolderInv w) (fuel : Nat) : HolderInv (runAll fuel w) :=
  (holderInv_iff _).2 (hinv_runAll fuel ((holderInv_iff w).1 h))

end CimbaModel.Props.C05
