/-
  C10 — valid programs never hit memory errors, undefined behaviour or library aborts.
  What the proof carries: every array access of the container models is bounds-checked and every
  cmb_assert_release is a fault, so "returns .ok" = "no out-of-bounds access, no library abort".
  Property theorems only.
-/
import CimbaModel.Props.C02

namespace CimbaModel.Props.C10
open CimbaModel CimbaModel.HashHeap CimbaModel.KPQ

/-- any history of hashheap operations that respects the documented preconditions (fresh non-zero keys below 2^64,
    lookups and re-prioritisations only of present keys, growth below the 2^31 limit) runs without any fault —
    no heap or hash index out of bounds, no release assert, the free-slot search always terminates — across any
    number of capacity doublings; and the invariant is kept -/
theorem hashheap_never_faults {lt : Order} [StrictWeak lt] [IgnoresHidx lt] (e : Nat) (h1 : 1 ≤ e) (h2 : e ≤ 31)
    (ops : List CimbaModel.HashHeap.Op) :
    ∃ s0, init e = .ok s0 ∧ (CimbaModel.HashHeap.PreAll lt s0 ops →
      ∃ s', CimbaModel.HashHeap.run lt s0 ops = .ok s' ∧ WF lt s') :=
  CimbaModel.Props.C02.reachable_WF (lt := lt) e h1 h2 ops

/-- in particular for the event queue's, the waiting lists', the holder lists' and the object priority queues'
    ordering functions as regenerated from the C sources -/
theorem library_queues_never_fault (e : Nat) (h1 : 1 ≤ e) (h2 : e ≤ 31) (ops : List CimbaModel.HashHeap.Op) :
    (∃ s0, init e = .ok s0 ∧ (CimbaModel.HashHeap.PreAll CimbaModel.Generated.heap_order_check s0 ops →
      ∃ s', CimbaModel.HashHeap.run CimbaModel.Generated.heap_order_check s0 ops = .ok s')) ∧
    (∃ s0, init e = .ok s0 ∧ (CimbaModel.HashHeap.PreAll CimbaModel.Generated.guard_queue_check s0 ops →
      ∃ s', CimbaModel.HashHeap.run CimbaModel.Generated.guard_queue_check s0 ops = .ok s')) ∧
    (∃ s0, init e = .ok s0 ∧ (CimbaModel.HashHeap.PreAll CimbaModel.Generated.holder_queue_check s0 ops →
      ∃ s', CimbaModel.HashHeap.run CimbaModel.Generated.holder_queue_check s0 ops = .ok s')) ∧
    (∃ s0, init e = .ok s0 ∧ (CimbaModel.HashHeap.PreAll CimbaModel.Generated.compare_func s0 ops →
      ∃ s', CimbaModel.HashHeap.run CimbaModel.Generated.compare_func s0 ops = .ok s')) := by
  refine ⟨?_, ?_, ?_, ?_⟩
  · obtain ⟨s0, h0, h⟩ := hashheap_never_faults (lt := CimbaModel.Generated.heap_order_check) e h1 h2 ops
    exact ⟨s0, h0, fun hp => let ⟨s', hs, _⟩ := h hp; ⟨s', hs⟩⟩
  · obtain ⟨s0, h0, h⟩ := hashheap_never_faults (lt := CimbaModel.Generated.guard_queue_check) e h1 h2 ops
    exact ⟨s0, h0, fun hp => let ⟨s', hs, _⟩ := h hp; ⟨s', hs⟩⟩
  · obtain ⟨s0, h0, h⟩ := hashheap_never_faults (lt := CimbaModel.Generated.holder_queue_check) e h1 h2 ops
    exact ⟨s0, h0, fun hp => let ⟨s', hs, _⟩ := h hp; ⟨s', hs⟩⟩
  · obtain ⟨s0, h0, h⟩ := hashheap_never_faults (lt := CimbaModel.Generated.compare_func) e h1 h2 ops
    exact ⟨s0, h0, fun hp => let ⟨s', hs, _⟩ := h hp; ⟨s', hs⟩⟩

end CimbaModel.Props.C10
