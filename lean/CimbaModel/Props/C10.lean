/-
  C10 — valid programs never hit memory errors, undefined behaviour or library aborts.
  What the proof carries: every array access of the container models is bounds-checked and every
  cmb_assert_release is a fault, so "returns .ok" = "no out-of-bounds access, no library abort".
  Property theorems only.

  Process layer (Sim/Model.lean, Sim/Run.lean): every `cmb_assert_release` / abort path and every container access
  out of bounds is a recorded fault (`World.fail`).  `model_never_faults`: no state of any run of any world the
  scenario loader can build (with a valid program, fewer than 2³¹ processes) has a fault, as long as every priority
  queue has issued fewer than 2³¹ − 1 handles (the growth limit of the hashheap).  Helper lemmas: Sim/S4*.lean.
-/
import CimbaModel.Props.C02
import CimbaModel.Sim.S4All

namespace CimbaModel.Props.C10
open CimbaModel CimbaModel.HashHeap CimbaModel.KPQ

/-- any history of hashheap operations that respects the documented preconditions (fresh non-zero keys below 2^64,
    lookups and re-prioritisations only of present keys, growth below the 2^31 limit) runs without any fault —
    no heap or hash index out of bounds, no release assert, the free-slot search always terminates — across any
    number of capacity doublings; and the invariant is kept -/
theorem hashheap_never_faults {lt : Order} [StrictWeak lt] [IgnoresHidx lt] (e : Nat) (h1 : 1 ≤ e) (h2 : e ≤ 31)
    (ops : List CimbaModel.HashHeap.Op) :
    ∃ s0, init e = .ok s0 ∧ (CimbaModel.HashHeap.PreAll lt s0 ops →
      ∃ s', CimbaModel.HashHeap.run lt s0 ops = .ok s' ∧ WF lt s') :=
  CimbaModel.Props.C02.reachable_WF (lt := lt) e h1 h2 ops

/-- in particular for the event queue's, the waiting lists', the holder lists' and the object priority queues'
    ordering functions as regenerated from the C sources -/
theorem library_queues_never_fault (e : Nat) (h1 : 1 ≤ e) (h2 : e ≤ 31) (ops : List CimbaModel.HashHeap.Op) :
    (∃ s0, init e = .ok s0 ∧ (CimbaModel.HashHeap.PreAll CimbaModel.Generated.heap_order_check s0 ops →
      ∃ s', CimbaModel.HashHeap.run CimbaModel.Generated.heap_order_check s0 ops = .ok s')) ∧
    (∃ s0, init e = .ok s0 ∧ (CimbaModel.HashHeap.PreAll CimbaModel.Generated.guard_queue_check s0 ops →
      ∃ s', CimbaModel.HashHeap.run CimbaModel.Generated.guard_queue_check s0 ops = .ok s')) ∧
    (∃ s0, init e = .ok s0 ∧ (CimbaModel.HashHeap.PreAll CimbaModel.Generated.holder_queue_check s0 ops →
      ∃ s', CimbaModel.HashHeap.run CimbaModel.Generated.holder_queue_check s0 ops = .ok s')) ∧
    (∃ s0, init e = .ok s0 ∧ (CimbaModel.HashHeap.PreAll CimbaModel.Generated.compare_func s0 ops →
      ∃ s', CimbaModel.HashHeap.run CimbaModel.Generated.compare_func s0 ops = .ok s')) := by
  refine ⟨?_, ?_, ?_, ?_⟩
  · obtain ⟨s0, h0, h⟩ := hashheap_never_faults (lt := CimbaModel.Generated.heap_order_check) e h1 h2 ops
    exact ⟨s0, h0, fun hp => let ⟨s', hs, _⟩ := h hp; ⟨s', hs⟩⟩
  · obtain ⟨s0, h0, h⟩ := hashheap_never_faults (lt := CimbaModel.Generated.guard_queue_check) e h1 h2 ops
    exact ⟨s0, h0, fun hp => let ⟨s', hs, _⟩ := h hp; ⟨s', hs⟩⟩
  · obtain ⟨s0, h0, h⟩ := hashheap_never_faults (lt := CimbaModel.Generated.holder_queue_check) e h1 h2 ops
    exact ⟨s0, h0, fun hp => let ⟨s', hs, _⟩ := h hp; ⟨s', hs⟩⟩
  · obtain ⟨s0, h0, h⟩ := hashheap_never_faults (lt := CimbaModel.Generated.compare_func) e h1 h2 ops
    exact ⟨s0, h0, fun hp => let ⟨s', hs, _⟩ := h hp; ⟨s', hs⟩⟩


/-! ## the process layer -/

section ProcessLayer
open CimbaModel.Sim CimbaModel.Sim.S3 CimbaModel.Sim.S4 CimbaModel.Event CimbaModel.Generated

/-- no library abort, failed release assert or out-of-bounds container access has happened -/
def NoFault (w : World) : Prop := w.fault = none

/-! ### the headline theorems

`Loaded w0` (Sim/S4Init.lean): the construction steps of the scenario loader (Drivers/SimMain.lean) — objects on fresh
guards, processes whose commands are valid calls `CmdValid` (signal values ≠ SUCCESS where the API requires it,
durations ≥ 0, the variable discipline of the scenario language, `acquire` of a declared resource), subscriptions of a
condition's guard to a plain guard, at most one start event per process.  `PqRoom w`: every priority queue has issued
fewer than 2³¹ − 1 handles so far (a library limit: `cmi_hashheap` refuses to grow beyond 2³¹ entries, and handles are
64-bit); it is monotone along a run, so it is stated for the state of interest only. -/

/-- **valid programs never fault**: every state reachable by dispatching events from a loaded world is fault-free -/
theorem model_never_faults {w0 w : World} (hl : Loaded w0) (hsz : w0.procs.size < 2 ^ 31) (hr : Reach w0 w)
    (hroom : PqRoom w) : NoFault w := loaded_never_faults hl hsz hr hroom

/-- the same for the run loop of the drivers -/
theorem model_never_faults_run {w0 : World} (hl : Loaded w0) (hsz : w0.procs.size < 2 ^ 31) (fuel : Nat)
    (hroom : PqRoom (Sim.runAll fuel w0)) : NoFault (Sim.runAll fuel w0) := loaded_runAll_never_faults hl hsz fuel hroom

/-- without priority queues there is no resource bound at all -/
theorem model_never_faults_without_pq {w0 w : World} (hl : Loaded w0) (hsz : w0.procs.size < 2 ^ 31) (h0 : w0.pqs = #[])
    (hr : Reach w0 w) : NoFault w := loaded_never_faults hl hsz hr (pqRoom_of_no_pq h0 hr)

/-- the bound only has to be checked at the end: the number of handles issued never decreases -/
theorem pq_room_monotone {w0 w : World} (hr : Reach w0 w) (hroom : PqRoom w)
    (hg : Good XAll w0) (hnf : w0.fault = none) : PqRoom w0 :=
  hroom.of_mono (nf_reach XAll.carry XAll.facts hg hnf hr).2.1

/-! ### the invariant form: `NoFault` is preserved by `dispatch` given the combined invariant, which is itself preserved

`Good XAll w` = `S3.AllInv` (waiters, timers, guards, inert non-running processes; Props/C04) ∧ `S1.FullInv` (holders,
waiters, dead records, silent wake-ups, pool holders; Props/C05, C09) ∧ `StartOk` (a start event is addressed to a
process that is not running, one per process) ∧ `RunBlocked` (a running process is suspended in a call between
dispatches) ∧ `StaticOk` (< 2³¹ processes, flat observers, guard indices exist) ∧ `ProgOk` ∧ `TTH` (every armed timer is
still scheduled, handle variables name events of their kind) ∧ `PL` (a process lists a pool iff it has a holder record)
∧ `PQS` (priority queues well-formed). -/

theorem loaded_worlds_good {w0 : World} (hl : Loaded w0) (hsz : w0.procs.size < 2 ^ 31) : Good XAll w0 ∧ NoFault w0 :=
  hl.good hsz

theorem good_preserved {w w' : World} (hg : Good XAll w) (hd : Sim.dispatch w = some w') : Good XAll w' :=
  hg.dispatch XAll.carry hd

theorem no_fault_preserved {w w' : World} (hg : Good XAll w) (hnf : NoFault w) (hd : Sim.dispatch w = some w')
    (hroom : PqRoom w') : NoFault w' := nf_dispatch XAll.carry XAll.facts hg hnf hd hroom

theorem good_reachable {w0 w : World} (hg : Good XAll w0) (hnf : NoFault w0) (hr : Reach w0 w) :
    Good XAll w ∧ (PqRoom w → NoFault w) :=
  ⟨(nf_reach XAll.carry XAll.facts hg hnf hr).1, (nf_reach XAll.carry XAll.facts hg hnf hr).2.2⟩

/-! ### per fault family

`Safe ex w` (Sim/S4Safe.lean): no fault so far, every waiting list / holder list a well-formed hashheap with process
keys (outside `ex`), flat observers, existing guard indices.  It follows from `Good` (`safe_of_good`) and is carried
through every primitive. -/

theorem good_gives_safe {w : World} (hg : Good XAll w) (hnf : NoFault w) : Safe noKey w := safe_of_good hg hnf

/-- "guard remove / dequeue / peek", "observer chain too deep": removing a waiter, signalling (with forwarding to the
    observers), withdrawing, a condition signal and the epilogue of a wait never fault -/
theorem no_abort_in_guards {ex : Nat → Prop} {w : World} (h : Safe ex w) (g : Nat) (p : Pid) (sig : Int) :
    NoFault (guardRemove w g p).1 ∧ NoFault (signal w g) ∧ NoFault (guardWithdraw w g p) ∧ NoFault (condSignal w g).1 ∧
    NoFault (guardWaitLeave w g p sig) ∧ NoFault (cancelAwaiteds w p) :=
  ⟨(h.guardRemove_fst g p).nf, (h.signal g).nf, (h.guardWithdraw g p).nf, (h.condSignal_fst g).nf,
   (h.guardWaitLeave g p sig).nf, (h.cancelAwaiteds p).nf⟩

/-- "guard enqueue", "no such guard": the enqueue of the caller cannot fail — its key is fresh (it is queued nowhere),
    it is a process key, and a list of distinct process keys has room below the growth limit -/
theorem no_abort_entering_a_wait {w : World} {p : Pid} (h : Safe (isKey p) w) (g : Nat) (hg : g < w.guards.size)
    (hp : p < w.procs.size) (d : Demand) : NoFault (guardWaitEnter w g p d) := guardWaitEnter_nf h g hg hp d

/-- "pool drop / record / mug / rollback", "reset_holder: no record": the holder lists -/
theorem no_abort_in_pools {ex : Nat → Prop} {w : World} (h : Safe ex w) (pl : Nat) (p : Pid) (hp : p < w.procs.size)
    (a rem initially fuel : Nat) :
    NoFault (poolUpdateRecord w pl p a) ∧ NoFault (poolDropHolder w pl p) ∧ NoFault (poolMug fuel w p pl rem).1 ∧
    NoFault (poolRollback w p pl initially) ∧ NoFault (dropResources w p) ∧ NoFault (execCmd w p (.poolRelease pl a)).1 ∧
    (0 < heldAmount w pl p → NoFault (setHeldAmount w pl p a)) :=
  ⟨(h.poolUpdateRecord pl p a hp).nf, (h.poolDropHolder pl p).nf, (Safe.poolMug fuel h p hp pl rem).nf,
   (h.poolRollback p pl initially).nf, (h.dropResources p).nf, SafeR.nf (SafeR.poolRelease h pl a),
   fun hpos => (h.setHeldAmount pl p a (fun x hx => heldAmount_pos hx (h.hq pl x hx).1 hpos)).nf⟩

/-- "grab of held resource": `grab` on a free resource is clean, and every command that grabs has checked (or made) it
    free — see `command_never_faults` for the three call sites -/
theorem no_grab_of_held {ex : Nat → Prop} {w : World} (h : Safe ex w) (r : Nat) (p : Pid)
    (hfree : ∀ x, w.res[r]? = some x → x.holder = none) : NoFault (grab w r p) := (h.grab r p hfree).nf

/-- "schedule in the past": an event scheduled at now + d with d ≥ 0 is accepted -/
theorem no_schedule_in_past (w : World) (a s : Nat) (sig pri d : Int) (hd : 0 ≤ d) :
    (sched w a s sig (w.now + d) pri).1.fault = w.fault :=
  sched_ge_fault w a s sig (w.now + d) pri (by omega)

/-- "priority_set: timer event not scheduled / guard / holder": with every armed timer scheduled and a holder record
    for every pool the process lists (both invariants), `priority_set` never aborts -/
theorem priority_set_never_aborts {ex : Nat → Prop} {w : World} (h : Safe ex w) (p q : Pid) (v : Int) (hpre : PrioPre w q) :
    NoFault (execCmd w p (.prioSet q v)).1 := SafeR.nf (SafeR.prioSet h q v hpre)

theorem priority_set_precondition {w : World} (hg : Good XAll w) (q : Pid) : PrioPre w q := XAll.facts.prio hg.x q

/-- "pq dequeue / enqueue / cancel / reprio": below the growth limit the priority-queue commands never fault -/
theorem no_abort_in_priority_queues {w : World} {p : Pid} (h : Safe (isKey p) w) (hp : p < w.procs.size) (hq : PQS w)
    (hroom : PqRoom w) (k obj v : Nat) (pri : Int) (hk : k < w.pqs.size) :
    NoFault (pqGetLoop w p k).1 ∧ NoFault (pqPutLoop w p k obj pri v).1 :=
  ⟨SafeR.nf (SafeR.pqGetLoop h hp k hk (fun x hx => (hq.room hx (hroom k x hx)).1)),
   SafeR.nf (SafeR.pqPutLoop h hp k obj pri v hk (fun x hx => let ⟨a, b, c⟩ := hq.room hx (hroom k x hx); ⟨a, b, c⟩))⟩

/-- every command of a valid program, executed by a process that is queued nowhere, records no fault -/
theorem command_never_faults {w : World} {p : Pid} (h : Safe (isKey p) w) (hp : p < w.procs.size) (c : Cmd)
    (hs : CmdSafe w c) (hpre : CmdPre w c) : NoFault (execCmd w p c).1 := SafeR.nf (SafeR.execCmd h hp c hs hpre)

/-- every continuation of a suspended call records no fault (`ResumePre`: after a SUCCESS wake-up the process is queued
    nowhere, otherwise at most at the guard its frame waits on — both follow from the guard invariant of Props/C04) -/
theorem resumed_call_never_faults {w : World} {p : Pid} (h : Safe noKey w) (hp : p < w.procs.size) (f : Frame) (sig : Int)
    (hq : ResumePre w p f sig) (hpre : FramePre w f) : NoFault (resumeFrame w p f sig).1 :=
  SafeR.nf (SafeR.resumeFrame h hp f sig hq hpre)

/-- "resume of a process that is not running / not suspended": the unguarded resumptions of `dispatch` (timer,
    interrupt, resume events) are addressed to a running process, and a running process is suspended in a call -/
theorem no_stale_resume_abort {w : World} (hg : Good XAll w) {t : HTag} {ev' : EvQ} (hn : executeNext w.ev = some (t, ev'))
    (ha : t.item.a = aTime ∨ t.item.a = aIntr ∨ t.item.a = aResume) :
    (w.proc (t.item.b - 1)).status = .running ∧ ∃ f, (w.proc (t.item.b - 1)).blocked = some f := by
  obtain ⟨_, htm, _, _⟩ := executeNext_facts hg.s3.g.ei hn
  have hrun : (w.proc (t.item.b - 1)).status = .running := by
    rcases ha with h | h | h
    · exact (hg.s1.all.silent t htm (by rw [h]; rfl)).2
    · exact (hg.s1.intr t htm h).2
    · exact (hg.s1.all.silent t htm (by rw [h]; rfl)).2
  exact ⟨hrun, hg.rb.no_resume_fault _ hrun⟩

/-- … and in the guarded ones (process end, event done, grant, preemption, condition wake-up) a running target is
    suspended in a call -/
theorem running_is_suspended {w : World} (hg : Good XAll w) (p : Pid) (hr : (w.proc p).status = .running) :
    ∃ f, (w.proc p).blocked = some f := hg.rb.no_resume_fault p hr

/-- "start of a running process" -/
theorem no_start_of_running {w : World} (hg : Good XAll w) {t : HTag} {ev' : EvQ} (hn : executeNext w.ev = some (t, ev'))
    (ha : t.item.a = aStart) : ((S3.takeNext w t ev').proc (t.item.b - 1)).status ≠ .running :=
  hg.start.inv.no_start_fault hn ha

/-- "script fuel exhausted": the fuel `dispatch` / `resumeProc` give (`script.size + 2`) is more than the commands left;
    any larger amount gives the same result, i.e. the bound is never what stops the script -/
theorem fuel_suffices (w : World) (p : Pid) (k fuel : Nat) (h : (w.proc p).script.size - (w.proc p).pc < fuel) :
    runScript fuel w p = runScript (fuel + k) w p := runScript_fuel_irrel w p k fuel h

theorem fuel_given_at_start (w : World) (p : Pid) (f : Proc → Proc) :
    ((w.modProc p f).proc p).script.size - ((w.modProc p f).proc p).pc < ((w.modProc p f).proc p).script.size + 2 :=
  scriptLeft_start w p f

/-- the run of a script records no fault, given the carried invariants at its start -/
theorem script_never_faults (fuel : Nat) (w : World) (p : Pid) (hs : Safe (isKey p) w) (hx : XAll w) (hprog : ProgOk w)
    (hf : (w.proc p).script.size - (w.proc p).pc < fuel) (hroom : PqRoom (runScript fuel w p)) :
    NoFault (runScript fuel w p) := nf_runScript XAll.carry XAll.facts fuel w p hs hx hprog hf hroom


/-! ### non-vacuity -/

/-- a scenario with a resource (guard 0), a pool of 3 units (guard 1), an object queue of capacity 2 (guards 2, 3), a
    condition (guard 4) observing the resource, and three autostarted processes that acquire / preempt / release, arm a
    timer, use the queue, change a priority, wait on the condition, stop each other -/
def demoWorld : World :=
  autostart (autostart (autostart
    (subscribe
      (addProc (addProc (addProc (addCond (addOQ (addPool (addRes {}) 3) 2))
        0 #[(.acquire 0, "acq 0"), (.hold 1, "hold 1"), (.poolAcquire 0 2, "pacq 0 2"), (.oqPut 0 7, "oput 0 7"),
            (.release 0, "rel 0"), (.poolRelease 0 2, "prel 0 2")])
        1 #[(.timerAdd 0 2 (-5), "tadd 0 2 -5"), (.acquire 0, "acq 0"), (.oqGet 0, "oget 0"), (.prioSet 0 3, "prio 0 3"),
            (.condWait 0 1 0 0, "cwait 0 1 0 0")])
        2 #[(.poolPreempt 0 3, "ppre 0 3"), (.hold 2, "hold 2"), (.stop 1 4, "stop 1 4"), (.condSignal 0, "csig 0")])
      0 4)
    0) 1) 2

theorem demoWorld_loaded : Loaded demoWorld := by
  unfold demoWorld
  refine .start 2 (.start 1 (.start 0 (.sub 0 4 (.proc 2 _ (.proc 1 _ (.proc 0 _
    (.cond (.oq 2 (.pool 3 (.res .empty)))) ?_) ?_) ?_) ?_ ?_) ?_ ?_) ?_ ?_) ?_ ?_
  · intro i c t h
    rcases i with _ | _ | _ | _ | _ | _ | i <;> cases h <;>
      exact ⟨trivial, by first | trivial | (show (0:Int) ≤ _; decide), trivial, fun r hr => by cases hr <;> decide⟩
  · intro i c t h
    rcases i with _ | _ | _ | _ | _ | i <;> cases h
    · exact ⟨by show encSig (-5) ≠ 0; decide, by show (0:Int) ≤ 2; decide, by show 0 < 4; decide, fun r hr => by cases hr⟩
    · exact ⟨trivial, trivial, trivial, fun r hr => by cases hr <;> decide⟩
    · exact ⟨trivial, trivial, trivial, fun r hr => by cases hr⟩
    · exact ⟨trivial, trivial, trivial, fun r hr => by cases hr⟩
    · exact ⟨trivial, trivial, trivial, fun r hr => by cases hr⟩
  · intro i c t h
    rcases i with _ | _ | _ | _ | i <;> cases h
    · exact ⟨trivial, trivial, trivial, fun r hr => by cases hr⟩
    · exact ⟨trivial, by show (0:Int) ≤ 2; decide, trivial, fun r hr => by cases hr⟩
    · exact ⟨trivial, trivial, trivial, fun r hr => by cases hr⟩
    · exact ⟨trivial, trivial, trivial, fun r hr => by cases hr⟩
  · exact ⟨_, rfl, rfl⟩
  · exact ⟨_, rfl, rfl⟩
  · decide
  · intro e he; cases he
  · decide
  · intro e he
    simp only [S3.autostart, S3.sched_now, pushEv_pending, List.mem_cons] at he
    rcases he with rfl | he
    · decide
    · cases he
  · decide
  · intro e he
    simp only [S3.autostart, S3.sched_now, pushEv_pending, List.mem_cons] at he
    rcases he with rfl | rfl | he
    · decide
    · decide
    · cases he

/-- the hypotheses of `model_never_faults` are satisfiable by a world with several processes, a resource, a pool, a queue
    and a subscribed condition — and every state of its run is fault-free -/
example : Loaded demoWorld ∧ demoWorld.procs.size = 3 ∧ demoWorld.res.size = 1 ∧ demoWorld.pools.size = 1 ∧
    demoWorld.oqs.size = 1 ∧ demoWorld.conds.size = 1 ∧ demoWorld.ev.pending.length = 3 ∧
    ∀ w, Reach demoWorld w → NoFault w :=
  ⟨demoWorld_loaded, rfl, rfl, rfl, rfl, rfl, rfl,
   fun w hr => model_never_faults_without_pq demoWorld_loaded (by decide) rfl hr⟩

/-- with a priority queue: the bound `PqRoom` holds initially (no handle issued yet), so the hypothesis of
    `model_never_faults` is satisfiable there too -/
example : ∃ w0 : World, Loaded w0 ∧ w0.pqs.size = 1 ∧ PqRoom w0 ∧
    ∀ w, Reach w0 w → PqRoom w → NoFault w := by
  refine ⟨autostart (addProc (addPQ {} 4) 0 #[(.pqPut 0 9 1 4, "kput 0 9 1 4"), (.pqGet 0, "kget 0")]) 0, ?_, rfl, ?_, ?_⟩
  · refine .start 0 (.proc 0 _ (.pq 4 .empty) ?_) (by decide) (fun e he => by cases he)
    intro i c t h
    rcases i with _ | _ | i <;> cases h
    · exact ⟨trivial, trivial, by show 4 ≤ 4 ∧ 4 < 8; decide, fun r hr => by cases hr⟩
    · exact ⟨trivial, trivial, trivial, fun r hr => by cases hr⟩
  · intro k x hx
    rcases k with _ | k
    · cases hx; decide
    · cases hx
  · intro w hr hroom
    refine model_never_faults (w0 := autostart (addProc (addPQ {} 4) 0 #[(.pqPut 0 9 1 4, "kput 0 9 1 4"), (.pqGet 0, "kget 0")]) 0)
      ?_ (by decide) hr hroom
    refine .start 0 (.proc 0 _ (.pq 4 .empty) ?_) (by decide) (fun e he => by cases he)
    intro i c t h
    rcases i with _ | _ | i <;> cases h
    · exact ⟨trivial, trivial, by show 4 ≤ 4 ∧ 4 < 8; decide, fun r hr => by cases hr⟩
    · exact ⟨trivial, trivial, trivial, fun r hr => by cases hr⟩

/-- the validity hypotheses are needed: a program that passes the handle of one of its timers to `cmb_event_cancel`
    (`cancelUser` on a variable written by `timerAdd` — excluded by `VarsOk`) and then changes its priority runs into
    the release assert of `cmb_event_reprioritize` ("priority_set: timer event not scheduled"); the library does the same
    (scenario: proc 0 1 3 / tadd 8 5 -5 / ucancel 8 / prio 0 3) -/
example : (Sim.runAll 3 (autostart (addProc {} 0 #[(.timerAdd 8 5 (-5), "tadd 8 5 -5"), (.cancelUser 8, "ucancel 8"),
    (.prioSet 0 3, "prio 0 3")]) 0)).fault.isSome = true := by decide +kernel

end ProcessLayer

end CimbaModel.Props.C10
